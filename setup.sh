#!/bin/sh
# build everything the checks need, offline, from files on disk
set -e
cd "$(dirname "$0")"
exec python3 ./check --setup
