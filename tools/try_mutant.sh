#!/bin/sh
# usage: tools/try_mutant.sh <patch.diff> <Cxx> [Cyy ...]  — apply to /repo, run quick checks, undo
patch="$1"; shift
git -C /repo apply "$patch" || { echo "patch does not apply"; exit 2; }
for p in "$@"; do timeout 1200 /verif/check "$p" quick 2>&1 | tail -4; done
git -C /repo checkout -- . && git -C /repo clean -fdq
