#!/bin/sh
# usage: tools/try_mutant.sh <patch.diff> <Cxx> [Cyy ...]  — apply to /repo, run quick checks, undo.
# The evidence files are put back afterwards: what is committed under evidence/ must describe the unchanged tree.
patch="$1"; shift
bak=$(mktemp -d /tmp/evbak.XXXXXX); cp -a /verif/evidence/. $bak/
git -C /repo apply "$patch" || { echo "patch does not apply"; rm -rf $bak; exit 2; }
for p in "$@"; do timeout 1200 /verif/check "$p" quick 2>&1 | tail -4; done
git -C /repo checkout -- . && git -C /repo clean -fdq
cp -a $bak/. /verif/evidence/; rm -rf $bak
