#!/bin/sh
# A scratch copy of /verif and a scratch worktree of /repo, so that mutants can be tried without
# touching /repo or the build state of /verif.
#   tools/mutant_lab.sh sync                 refresh /tmp/vm from /verif (keeps its own build output)
#   tools/mutant_lab.sh run <patch|-R commit> <Cxx> [Cyy…]   apply to a fresh worktree, run the quick checks there
#   tools/mutant_lab.sh clean
# VERIF_LAB / VERIF_WT choose other directories, so that several labs can run side by side
LAB=${VERIF_LAB:-/tmp/vm}
WT=${VERIF_WT:-/tmp/wt}
case "$1" in
sync)
  mkdir -p $LAB
  rsync -a --delete --exclude .git --exclude work --exclude replays --exclude 'lean/.lake' --exclude 'lean/AM/Gen' /verif/ $LAB/
  [ -d $LAB/lean/.lake ] || cp -a /verif/lean/.lake $LAB/lean/.lake
  ;;
run)
  shift; patch="$1"; shift
  git -C /repo worktree remove --force $WT 2>/dev/null; rm -rf $WT
  git -C /repo worktree add -q --detach $WT HEAD || exit 2
  if [ "$patch" = "-R" ]; then
    c="$1"; shift
    git -C $WT revert --no-commit "$c" >/dev/null 2>&1 || { echo "revert failed"; exit 2; }
  else
    git -C $WT apply "$patch" || { echo "patch does not apply"; exit 2; }
  fi
  for p in "$@"; do VERIF_REPO=$WT timeout 1800 $LAB/check "$p" quick 2>&1 | tail -3; done
  git -C /repo worktree remove --force $WT
  ;;
clean)
  git -C /repo worktree remove --force $WT 2>/dev/null; rm -rf $LAB $WT
  ;;
esac
