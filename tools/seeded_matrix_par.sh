#!/bin/sh
# the seeded matrix, N labs side by side (default 4): tools/seeded_matrix_par.sh [N] [id…] -> work/matrix.log
cd "$(dirname "$0")/.."
n=${1:-4}; [ $# -gt 0 ] && shift
ids="$@"; [ -z "$ids" ] && ids=$(ls seeded)
mkdir -p work; : > work/matrix.log
i=0
for k in $(seq 1 $n); do : > work/matrix.ids.$k; done
for id in $ids; do i=$(( i % n + 1 )); echo $id >> work/matrix.ids.$i; done
for k in $(seq 1 $n); do
  ( VERIF_LAB=/tmp/vm$k VERIF_WT=/tmp/wt$k tools/seeded_matrix.sh $(cat work/matrix.ids.$k) >> work/matrix.log 2>&1 ) &
done
wait
sort work/matrix.log
