#!/usr/bin/env python3
"""Every generated case must survive the JSON round trip a replay file puts it through (tuples become lists):
the harness line, the driver line and the evidence sample of the reloaded case are those of the original."""
import importlib.util, importlib.machinery, json, os, sys
root = os.path.dirname(os.path.dirname(os.path.abspath(__file__)))
sys.path.insert(0, root)
spec = importlib.util.spec_from_loader("checkmod", importlib.machinery.SourceFileLoader("checkmod", os.path.join(root, "check")))
checkmod = importlib.util.module_from_spec(spec); spec.loader.exec_module(checkmod)
from checklib.core import Rng
bad = 0
for i in range(1, 21):
    prop = "C%02d" % i
    fam = checkmod.family(prop)
    cases = fam.cases("quick", Rng(1).fork(prop))
    n = 0
    for k, c in enumerate(cases):
        c = dict(c, id="c%d" % k)
        rt = dict(json.loads(json.dumps({k2: v for k2, v in c.items() if k2 != "id"})), id=c["id"])
        try:
            same = fam.harness_line(c) == fam.harness_line(rt) and fam.driver_line(c, None) == fam.driver_line(rt, None)
            fam.sample(rt)
        except Exception as e:
            same = False
            err = repr(e)
        else:
            err = "differs"
        n += 1
        if not same:
            bad += 1
            print("%s case %d: replay round trip %s" % (prop, k, err))
            break
    print("%s: %d cases ok" % (prop, n) if not bad else "%s: FAILED" % prop)
sys.exit(1 if bad else 0)
