#!/bin/sh
# regenerate MANIFEST.json; the arguments of checklib.manifest are the properties whose check is registered
cd "$(dirname "$0")/.." && python3 -m checklib.manifest C01 C02 C03 C04 C05 C06 C07 C08 C09 C10 C11 C12 C13 C14 C15 C16 C17 C18 C19 C20 "$@"
