package main

// Entry functions of processors/sshd (the ones the dispatch tables name) translated into descriptors:
// a tiny symbolic evaluation of the function body — `matches := RE.FindStringSubmatch(config.logEntry)`,
// the nil guard, `xIdx := RE.SubexpIndex(name)`, `if xIdx > -1 { x = matches[xIdx] }`, the event literal
// (directly or through a helper that builds it from its parameters), `evt.Metadata.Extra[k] = v`,
// `evt.LoggedAt = config.when`, the write — yields which capture group, constant or configuration value
// ends up in which field. A body outside this shape is reported as `none` with the reason (the function is
// then tied by its source lock and the correspondence runs only).

import (
	"bytes"
	"fmt"
	"go/ast"
	"go/printer"
	"go/token"
	"sort"
	"strconv"
	"strings"
)

type eval struct {
	kind string // cap | lit | pid | node | mid | logentry | when | ev | matches | idx | cfg
	a, b string // cap: re, group; lit: value; idx: re, group; matches: re
	ev   *entryEv
}

type kv struct {
	k string
	v eval
}

type entryEv struct {
	action, outcome, component string
	srcType, srcValue          eval
	srcExtra, subjects, target []kv
	metaExtra                  []kv
	loggedAt                   bool
}

type entryDesc struct {
	fn, re string
	ev     *entryEv
	reason string // non-empty: not translated
	// extended shape (EntryDescX)
	atoiFirst bool  // `pid, err := strconv.Atoi(config.pid)`; `return nil` on error — before anything else
	unguarded bool  // captures are taken as `matches[idx]` without the `> -1` guard
	incFirst  bool  // an IncLogins call stands between the event literal and the write
	send      *eval // the credential user id of the login handed to the correlator after the write
}

type entCtx struct {
	consts  map[string]string // identifier or pkg.Identifier -> string value
	helpers map[string]*ast.FuncDecl
}

func (c *entCtx) str(e ast.Expr) (string, bool) {
	switch v := e.(type) {
	case *ast.BasicLit:
		if v.Kind == token.STRING {
			s, err := strconv.Unquote(v.Value)
			return s, err == nil
		}
	case *ast.Ident:
		s, ok := c.consts[v.Name]
		return s, ok
	case *ast.SelectorExpr:
		if x, ok := v.X.(*ast.Ident); ok {
			s, ok := c.consts[x.Name+"."+v.Sel.Name]
			return s, ok
		}
	}
	return "", false
}

type entFail struct{ why string }

func fail(f string, a ...any) { panic(entFail{fmt.Sprintf(f, a...)}) }

func (c *entCtx) expr(env map[string]eval, cfgName string, e ast.Expr) eval {
	if s, ok := c.str(e); ok {
		return eval{kind: "lit", a: s}
	}
	switch v := e.(type) {
	case *ast.Ident:
		if x, ok := env[v.Name]; ok {
			return x
		}
		fail("unknown identifier %s", v.Name)
	case *ast.SelectorExpr:
		if x, ok := v.X.(*ast.Ident); ok && x.Name == cfgName {
			switch v.Sel.Name {
			case "pid":
				return eval{kind: "pid"}
			case "nodeName":
				return eval{kind: "node"}
			case "machineID":
				return eval{kind: "mid"}
			case "logEntry":
				return eval{kind: "logentry"}
			case "when":
				return eval{kind: "when"}
			}
		}
		fail("unsupported selector %s", exprText(e))
	case *ast.IndexExpr:
		m := c.expr(env, cfgName, v.X)
		i := c.expr(env, cfgName, v.Index)
		if m.kind == "matches" && i.kind == "idx" && m.a == i.a {
			return eval{kind: "cap", a: m.a, b: i.b + "!"} // unguarded use: `!`
		}
		fail("unsupported index expression %s", exprText(e))
	case *ast.CallExpr:
		if sel, ok := v.Fun.(*ast.SelectorExpr); ok {
			if re, ok := sel.X.(*ast.Ident); ok && strings.HasSuffix(re.Name, "RE") {
				switch sel.Sel.Name {
				case "FindStringSubmatch":
					if len(v.Args) == 1 && c.expr(env, cfgName, v.Args[0]).kind == "logentry" {
						return eval{kind: "matches", a: re.Name}
					}
				case "SubexpIndex":
					if len(v.Args) == 1 {
						if g, ok := c.str(v.Args[0]); ok {
							return eval{kind: "idx", a: re.Name, b: g}
						}
					}
				}
				fail("unsupported regexp call %s", exprText(e))
			}
			// auditevent.NewAuditEvent(...), possibly followed by .WithTarget(map)
			if sel.Sel.Name == "WithTarget" && len(v.Args) == 1 {
				inner := c.expr(env, cfgName, sel.X)
				if inner.kind != "ev" {
					fail("WithTarget on something that is not an event")
				}
				inner.ev.target = c.mapLit(env, cfgName, v.Args[0])
				return inner
			}
			if x, ok := sel.X.(*ast.Ident); ok && x.Name == "auditevent" && sel.Sel.Name == "NewAuditEvent" && len(v.Args) == 5 {
				ev := &entryEv{}
				a, ok := c.str(v.Args[0])
				if !ok {
					fail("event type is not a constant")
				}
				ev.action = a
				src, ok := v.Args[1].(*ast.CompositeLit)
				if !ok {
					fail("event source is not a literal")
				}
				for _, el := range src.Elts {
					kvx, ok := el.(*ast.KeyValueExpr)
					if !ok {
						fail("event source literal without keys")
					}
					switch kvx.Key.(*ast.Ident).Name {
					case "Type":
						ev.srcType = c.expr(env, cfgName, kvx.Value)
					case "Value":
						ev.srcValue = c.expr(env, cfgName, kvx.Value)
					case "Extra":
						ev.srcExtra = c.mapLit(env, cfgName, kvx.Value)
					default:
						fail("unknown event source field")
					}
				}
				o, ok := c.str(v.Args[2])
				if !ok {
					fail("outcome is not a constant")
				}
				ev.outcome = o
				ev.subjects = c.mapLit(env, cfgName, v.Args[3])
				comp, ok := c.str(v.Args[4])
				if !ok {
					fail("component is not a constant")
				}
				ev.component = comp
				return eval{kind: "ev", ev: ev}
			}
		}
		// a helper of the package that builds the event from its parameters
		if id, ok := v.Fun.(*ast.Ident); ok {
			if h, ok := c.helpers[id.Name]; ok {
				return c.helper(h, env, cfgName, v.Args)
			}
		}
		fail("unsupported call %s", exprText(e))
	}
	fail("unsupported expression %s", exprText(e))
	return eval{}
}

func (c *entCtx) mapLit(env map[string]eval, cfgName string, e ast.Expr) []kv {
	cl, ok := e.(*ast.CompositeLit)
	if !ok {
		fail("map argument is not a literal")
	}
	var out []kv
	for _, el := range cl.Elts {
		kvx, ok := el.(*ast.KeyValueExpr)
		if !ok {
			fail("map literal without keys")
		}
		k, ok := c.str(kvx.Key)
		if !ok {
			fail("map key is not a constant")
		}
		out = append(out, kv{k, c.expr(env, cfgName, kvx.Value)})
	}
	sort.Slice(out, func(i, j int) bool { return out[i].k < out[j].k })
	for i := 1; i < len(out); i++ {
		if out[i].k == out[i-1].k {
			fail("duplicate map key %s", out[i].k)
		}
	}
	return out
}

func (c *entCtx) helper(h *ast.FuncDecl, env map[string]eval, cfgName string, args []ast.Expr) eval {
	henv := map[string]eval{}
	hcfg := ""
	i := 0
	for _, f := range h.Type.Params.List {
		for _, n := range f.Names {
			if i >= len(args) {
				fail("helper %s: too few arguments", h.Name.Name)
			}
			if st, ok := f.Type.(*ast.StarExpr); ok && exprText(st.X) == "SshdProcessorer" {
				if a, ok := args[i].(*ast.Ident); !ok || a.Name != cfgName {
					fail("helper %s: configuration argument is not the caller's", h.Name.Name)
				}
				hcfg = n.Name
			} else {
				henv[n.Name] = c.expr(env, cfgName, args[i])
			}
			i++
		}
	}
	var result *eval
	for _, st := range stripLogs(h.Body.List) {
		switch s := st.(type) {
		case *ast.ReturnStmt:
			if len(s.Results) != 1 {
				fail("helper %s: unexpected return", h.Name.Name)
			}
			r := c.expr(henv, hcfg, s.Results[0])
			result = &r
		case *ast.AssignStmt:
			if len(s.Lhs) == 1 && len(s.Rhs) == 1 {
				if id, ok := s.Lhs[0].(*ast.Ident); ok {
					henv[id.Name] = c.expr(henv, hcfg, s.Rhs[0])
					continue
				}
				if sel, ok := s.Lhs[0].(*ast.SelectorExpr); ok && sel.Sel.Name == "LoggedAt" {
					if id, ok := sel.X.(*ast.Ident); ok && henv[id.Name].kind == "ev" && c.expr(henv, hcfg, s.Rhs[0]).kind == "when" {
						henv[id.Name].ev.loggedAt = true
						continue
					}
				}
			}
			fail("helper %s: unsupported assignment %s", h.Name.Name, exprText(s))
		default:
			fail("helper %s: unsupported statement", h.Name.Name)
		}
	}
	if result == nil || result.kind != "ev" {
		fail("helper %s does not return an event", h.Name.Name)
	}
	return *result
}

func exprText(e ast.Node) string {
	var buf bytes.Buffer
	cfg := printer.Config{Mode: printer.RawFormat, Tabwidth: 1}
	cfg.Fprint(&buf, token.NewFileSet(), e)
	return strings.Join(strings.Fields(buf.String()), " ")
}

// translate one entry function
func (c *entCtx) entry(fd *ast.FuncDecl) (d entryDesc) {
	d.fn = fd.Name.Name
	defer func() {
		if r := recover(); r != nil {
			if f, ok := r.(entFail); ok {
				d.reason = f.why
				d.ev = nil
				return
			}
			panic(r)
		}
	}()
	if fd.Type.Params == nil || len(fd.Type.Params.List) != 1 || len(fd.Type.Params.List[0].Names) != 1 {
		fail("unexpected parameters")
	}
	cfg := fd.Type.Params.List[0].Names[0].Name
	env := map[string]eval{}
	guarded, wrote, returned := false, false, false
	var evName, atoiErr string
	atoiChecked := false
	for _, st := range stripLogs(fd.Body.List) {
		if returned {
			fail("statement after the final return")
		}
		switch s := st.(type) {
		case *ast.AssignStmt:
			if len(s.Lhs) == 2 && len(s.Rhs) == 1 && exprText(s.Rhs[0]) == "strconv.Atoi("+cfg+".pid)" {
				if d.re != "" || evName != "" || d.atoiFirst {
					fail("Atoi of the PID is not the first step")
				}
				if id, ok := s.Lhs[0].(*ast.Ident); ok {
					env[id.Name] = eval{kind: "pidint"}
					atoiErr = exprText(s.Lhs[1])
					d.atoiFirst = true
					continue
				}
			}
			if len(s.Lhs) != 1 || len(s.Rhs) != 1 {
				fail("unsupported assignment %s", exprText(s))
			}
			switch l := s.Lhs[0].(type) {
			case *ast.Ident:
				v := c.expr(env, cfg, s.Rhs[0])
				if v.kind == "matches" {
					if d.re != "" {
						fail("second match")
					}
					d.re = v.a
				}
				if v.kind == "ev" {
					evName = l.Name
				}
				env[l.Name] = v
			case *ast.SelectorExpr: // evt.LoggedAt = config.when
				if exprText(l) == evName+".LoggedAt" && c.expr(env, cfg, s.Rhs[0]).kind == "when" {
					env[evName].ev.loggedAt = true
					continue
				}
				fail("unsupported assignment %s", exprText(s))
			case *ast.IndexExpr: // evt.Metadata.Extra["k"] = v
				if exprText(l.X) == evName+".Metadata.Extra" {
					k, ok := c.str(l.Index)
					if !ok {
						fail("metadata key is not a constant")
					}
					ev := env[evName].ev
					ev.metaExtra = append(ev.metaExtra, kv{k, c.expr(env, cfg, s.Rhs[0])})
					continue
				}
				fail("unsupported assignment %s", exprText(s))
			default:
				fail("unsupported assignment %s", exprText(s))
			}
		case *ast.DeclStmt:
			gd, ok := s.Decl.(*ast.GenDecl)
			if !ok || gd.Tok != token.VAR {
				fail("unsupported declaration")
			}
			for _, sp := range gd.Specs {
				vs := sp.(*ast.ValueSpec)
				if len(vs.Values) != 0 || exprText(vs.Type) != "string" {
					fail("unsupported variable declaration")
				}
				for _, n := range vs.Names {
					env[n.Name] = eval{kind: "lit", a: ""}
				}
			}
		case *ast.IfStmt:
			cond := exprText(s.Cond)
			switch {
			case s.Init == nil && d.atoiFirst && !atoiChecked && cond == atoiErr+" != nil":
				body := stripLogs(s.Body.List)
				if len(body) != 1 || exprText(body[0]) != "return nil" || s.Else != nil {
					fail("the bad-PID branch does more than return nil")
				}
				atoiChecked = true
			case s.Init == nil && strings.HasSuffix(cond, " == nil") && env[strings.TrimSuffix(cond, " == nil")].kind == "matches":
				body := stripLogs(s.Body.List)
				if len(body) != 1 || exprText(body[0]) != "return nil" || s.Else != nil {
					fail("the no-match branch does more than return nil")
				}
				guarded = true
			case s.Init == nil && strings.HasSuffix(cond, " > -1") && env[strings.TrimSuffix(cond, " > -1")].kind == "idx":
				idx := env[strings.TrimSuffix(cond, " > -1")]
				if len(s.Body.List) != 1 || s.Else != nil {
					fail("unsupported group guard")
				}
				as, ok := s.Body.List[0].(*ast.AssignStmt)
				if !ok || len(as.Lhs) != 1 || len(as.Rhs) != 1 {
					fail("unsupported group guard")
				}
				id, ok := as.Lhs[0].(*ast.Ident)
				v := c.expr(env, cfg, as.Rhs[0])
				if !ok || v.kind != "cap" || v.a != idx.a || v.b != idx.b+"!" {
					fail("unsupported group guard")
				}
				if old, ok := env[id.Name]; !ok || old.kind != "lit" || old.a != "" {
					fail("guarded group assigned to a variable that is not an empty string")
				}
				env[id.Name] = eval{kind: "cap", a: v.a, b: idx.b} // guarded: "" when the group is absent
			case s.Init == nil && cond == evName+".Metadata.Extra == nil":
				// allocation of the map: nothing observable
			case s.Init != nil && strings.HasSuffix(exprText(s.Init), ".eventW.Write("+evName+")") && cond == "err != nil":
				body := stripLogs(s.Body.List)
				if len(body) != 1 || !strings.HasPrefix(exprText(body[0]), "return fmt.Errorf(") || s.Else != nil {
					fail("unsupported write failure branch")
				}
				if wrote {
					fail("second write")
				}
				wrote = true
			default:
				fail("unsupported condition %s", cond)
			}
		case *ast.ExprStmt:
			// config.metrics.IncLogins(…) between the event literal and its write
			if c2, ok := s.X.(*ast.CallExpr); ok && strings.HasSuffix(selName(c2.Fun), ".metrics.IncLogins") && evName != "" && !wrote && !d.incFirst {
				d.incFirst = true
				continue
			}
			fail("unsupported statement %s", exprText(st))
		case *ast.SelectStmt:
			// select { case <-config.ctx.Done(): return nil; case config.logins <- common.RemoteUserLogin{Source: evt, PID: pid, CredUserID: X}: return nil }
			if !wrote || d.send != nil || len(s.Body.List) != 2 {
				fail("unsupported select")
			}
			sawDone := false
			for _, cl := range s.Body.List {
				cc := cl.(*ast.CommClause)
				if len(cc.Body) != 1 || exprText(cc.Body[0]) != "return nil" {
					fail("a select arm does more than return nil")
				}
				switch cm := cc.Comm.(type) {
				case *ast.ExprStmt:
					if exprText(cm) != "<-"+cfg+".ctx.Done()" {
						fail("unsupported receive in select")
					}
					sawDone = true
				case *ast.SendStmt:
					if exprText(cm.Chan) != cfg+".logins" {
						fail("send on another channel")
					}
					cl2, ok := cm.Value.(*ast.CompositeLit)
					if !ok || exprText(cl2.Type) != "common.RemoteUserLogin" || len(cl2.Elts) != 3 {
						fail("unsupported login literal")
					}
					for _, el := range cl2.Elts {
						kvx := el.(*ast.KeyValueExpr)
						switch exprText(kvx.Key) {
						case "Source":
							if exprText(kvx.Value) != evName {
								fail("the login's Source is not the event that was written")
							}
						case "PID":
							if v := c.expr(env, cfg, kvx.Value); v.kind != "pidint" {
								fail("the login's PID is not the parsed PID")
							}
						case "CredUserID":
							v := c.expr(env, cfg, kvx.Value)
							d.send = &v
						default:
							fail("unknown login field")
						}
					}
				default:
					fail("unsupported select arm")
				}
			}
			if !sawDone || d.send == nil {
				fail("select without both arms")
			}
			returned = true
		case *ast.ReturnStmt:
			if exprText(s) != "return nil" {
				fail("unsupported return %s", exprText(s))
			}
			returned = true
		default:
			fail("unsupported statement %s", exprText(st))
		}
	}
	if d.re == "" || !guarded || !wrote || !returned || evName == "" || (d.atoiFirst && !atoiChecked) {
		fail("body does not have the shape match / guard / event / write / return")
	}
	d.ev = env[evName].ev
	return d
}

var sawGuarded, sawUnguarded bool

func leanVal(re string, v eval) string {
	switch v.kind {
	case "cap":
		if v.a != re {
			fail("capture of another expression")
		}
		if strings.HasSuffix(v.b, "!") {
			sawUnguarded = true
			return ".cap " + leanStr(strings.TrimSuffix(v.b, "!"))
		}
		sawGuarded = true
		return ".cap " + leanStr(v.b)
	case "lit":
		return ".lit " + leanStr(v.a)
	case "pid":
		return ".pid"
	case "node":
		return ".node"
	case "mid":
		return ".mid"
	}
	fail("value of kind %s in an event field", v.kind)
	return ""
}

func leanKVs(re string, m []kv) string {
	var parts []string
	for _, x := range m {
		parts = append(parts, "("+leanStr(x.k)+", "+leanVal(re, x.v)+")")
	}
	return "[" + strings.Join(parts, ", ") + "]"
}

func genEntries(fnNames []string) map[string]string {
	c := &entCtx{consts: map[string]string{}, helpers: map[string]*ast.FuncDecl{}}
	// string constants: the package's own, internal/common, the auditevent outcomes
	addConsts := func(rel, prefix string) {
		_, f := parseFile(rel)
		ast.Inspect(f, func(n ast.Node) bool {
			vs, ok := n.(*ast.ValueSpec)
			if !ok {
				return true
			}
			for i, nm := range vs.Names {
				if i < len(vs.Values) {
					if bl, ok := vs.Values[i].(*ast.BasicLit); ok && bl.Kind == token.STRING {
						if s, err := strconv.Unquote(bl.Value); err == nil {
							c.consts[prefix+nm.Name] = s
						}
					}
				}
			}
			return true
		})
	}
	addConsts("processors/sshd/sshdprocessor.go", "")
	addConsts("internal/common/constants.go", "common.")
	c.consts["auditevent.OutcomeFailed"] = "failed"
	c.consts["auditevent.OutcomeSucceeded"] = "succeeded"
	all := map[string]*ast.FuncDecl{}
	for _, rel := range []string{"processors/sshd/sshdprocessor.go", "processors/sshd/user_type.go", "processors/sshd/misc_type.go", "processors/sshd/dns_type.go", "processors/sshd/revoked_type.go"} {
		_, f := parseFile(rel)
		for _, d := range f.Decls {
			if fd, ok := d.(*ast.FuncDecl); ok && fd.Recv == nil && fd.Body != nil {
				all[fd.Name.Name] = fd
				if fd.Type.Results != nil && len(fd.Type.Results.List) == 1 && exprText(fd.Type.Results.List[0].Type) == "*auditevent.AuditEvent" {
					c.helpers[fd.Name.Name] = fd
				}
			}
		}
	}
	res := map[string]string{}
	var b strings.Builder
	b.WriteString("-- GENERATED by tools/extract from processors/sshd/*_type.go, sshdprocessor.go (entry function bodies); do not edit\nnamespace AM.Gen\n\n")
	b.WriteString("/-- where a field of the event comes from -/\ninductive EVal where\n  | cap (group : String)   -- `matches[RE.SubexpIndex(group)]` under `if idx > -1` (\"\" when the group is absent)\n  | lit (s : String) | pid | node | mid\n  deriving DecidableEq, Repr\n\n")
	b.WriteString("/-- an entry function of the shape: match with `re`, return nil without a match, build one event, write it -/\nstructure EntryDesc where\n  re : String\n  typ : String\n  outcome : String\n  component : String\n  srcType : EVal\n  srcValue : EVal\n  srcExtra : List (String × EVal)\n  subjects : List (String × EVal)\n  target : List (String × EVal)\n  metaExtra : List (String × EVal)\n  loggedAt : Bool\n  deriving DecidableEq, Repr\n\n")
	b.WriteString("/-- the same shape with a parsed PID first, unguarded captures, a counter before the write, a hand-off after it -/\nstructure EntryDescX where\n  base : EntryDesc\n  atoiFirst : Bool\n  unguarded : Bool\n  incFirst : Bool\n  send : Option EVal\n  deriving DecidableEq, Repr\n\n")
	sort.Strings(fnNames)
	var table, tableX, untr []string
	for _, fn := range fnNames {
		fd, ok := all[fn]
		if !ok {
			untr = append(untr, "("+leanStr(fn)+", "+leanStr("function not found")+")")
			continue
		}
		d := c.entry(fd)
		text := ""
		if d.reason == "" {
			func() {
				defer func() {
					if r := recover(); r != nil {
						if f, ok := r.(entFail); ok {
							d.reason = f.why
							return
						}
						panic(r)
					}
				}()
				ev := d.ev
				sawGuarded, sawUnguarded = false, false
				text = fmt.Sprintf("{ re := %s, typ := %s, outcome := %s, component := %s,\n    srcType := %s, srcValue := %s, srcExtra := %s,\n    subjects := %s,\n    target := %s,\n    metaExtra := %s, loggedAt := %v }",
					leanStr(d.re), leanStr(ev.action), leanStr(ev.outcome), leanStr(ev.component), leanVal(d.re, ev.srcType), leanVal(d.re, ev.srcValue),
					leanKVs(d.re, ev.srcExtra), leanKVs(d.re, ev.subjects), leanKVs(d.re, ev.target), leanKVs(d.re, ev.metaExtra), ev.loggedAt)
			}()
		}
		if d.reason == "" && sawGuarded && sawUnguarded {
			d.reason = "guarded and unguarded captures mixed"
		}
		if d.reason != "" {
			untr = append(untr, "("+leanStr(fn)+", "+leanStr(d.reason)+")")
			res[fn] = "untranslated: " + d.reason
			continue
		}
		fmt.Fprintf(&b, "def entry_%s : EntryDesc :=\n  %s\n\n", fn, text)
		if d.atoiFirst || sawUnguarded || d.incFirst || d.send != nil {
			sendTxt := "none"
			if d.send != nil {
				func() {
					defer func() {
						if r := recover(); r != nil {
							sendTxt = "none"
						}
					}()
					sendTxt = "some (" + leanVal(d.re, *d.send) + ")"
				}()
			}
			fmt.Fprintf(&b, "/-- … with: the PID parsed first (`return nil` if it is not a number): %v; captures taken without the `> -1` guard: %v; an `IncLogins` call between the event and its write: %v; the login handed over after the write (credential user id) -/\ndef entryX_%s : EntryDescX :=\n  { base := entry_%s, atoiFirst := %v, unguarded := %v, incFirst := %v, send := %s }\n\n",
				d.atoiFirst, sawUnguarded, d.incFirst, fn, fn, d.atoiFirst, sawUnguarded, d.incFirst, sendTxt)
			tableX = append(tableX, "("+leanStr(fn)+", entryX_"+fn+")")
			res[fn] = "translated (extended shape)"
			continue
		}
		table = append(table, "("+leanStr(fn)+", entry_"+fn+")")
		res[fn] = "translated"
	}
	b.WriteString("def entries : List (String × EntryDesc) :=\n  [" + strings.Join(table, ",\n   ") + "]\n\n")
	b.WriteString("def entriesX : List (String × EntryDescX) :=\n  [" + strings.Join(tableX, ",\n   ") + "]\n\n")
	b.WriteString("/-- entry functions whose body is outside the translated shape (tied by source lock and correspondence only) -/\ndef untranslatedEntries : List (String × String) :=\n  [" + strings.Join(untr, ",\n   ") + "]\n\nend AM.Gen\n")
	write("Entries.lean", b.String())
	return res
}
