// extract regenerates lean/AM/Gen/*.lean (and facts.json) from the working tree of the
// repository. Standard library only. Everything it emits is plain data; the Lean side
// gives the data its meaning. A source shape it does not recognise is reported in the
// `unsupported` lists, never approximated.
package main

import (
	"encoding/json"
	"fmt"
	"go/ast"
	"go/parser"
	"go/token"
	"os"
	"path/filepath"
	"regexp/syntax"
	"sort"
	"strconv"
	"strings"
)

var repo, outDir string
var unsupported []string

func unsup(f string, a ...any) { unsupported = append(unsupported, fmt.Sprintf(f, a...)) }

func leanStr(s string) string {
	var b strings.Builder
	b.WriteByte('"')
	for _, r := range []byte(s) {
		switch {
		case r == '"':
			b.WriteString("\\\"")
		case r == '\\':
			b.WriteString("\\\\")
		case r >= 0x20 && r < 0x7f:
			b.WriteByte(r)
		default:
			fmt.Fprintf(&b, "\\x%02x", r)
		}
	}
	b.WriteByte('"')
	return b.String()
}

// ---------- regular expressions ----------

var knownClasses = map[string]string{
	"[(0, 9), (11, 1114111)]": "clsAny",
	"[(0, 8), (11, 11), (14, 31), (33, 1114111)]": "clsNonSpace",
	"[(9, 10), (12, 13), (32, 32)]":               "clsSpace",
	"[(48, 57)]":                                  "clsDigit",
	"[(48, 57), (65, 90), (97, 122)]":             "clsAlnum",
	"[(32, 32), (45, 45), (48, 57), (65, 90), (95, 95), (97, 122)]": "clsWordSpDash",
	"[(45, 45), (48, 57), (65, 90), (95, 95), (97, 122)]":           "clsKeyType",
}

func classOf(re *syntax.Regexp) (string, error) {
	var rs []rune
	switch re.Op {
	case syntax.OpAnyCharNotNL:
		rs = []rune{0, 9, 11, 0x10ffff}
	case syntax.OpAnyChar:
		rs = []rune{0, 0x10ffff}
	case syntax.OpCharClass:
		rs = re.Rune
	case syntax.OpLiteral:
		if len(re.Rune) != 1 || re.Flags&syntax.FoldCase != 0 {
			return "", fmt.Errorf("repeated multi-rune or case-folded literal")
		}
		rs = []rune{re.Rune[0], re.Rune[0]}
	default:
		return "", fmt.Errorf("not a class: %s", re.Op)
	}
	var parts []string
	// non-ASCII part: must be all or nothing
	var hi [][2]rune
	for i := 0; i+1 < len(rs); i += 2 {
		lo, h := rs[i], rs[i+1]
		if lo <= 0x7f {
			e := h
			if e > 0x7f {
				e = 0x7f
			}
			parts = append(parts, fmt.Sprintf("(%d, %d)", lo, e))
		}
		if h >= 0x80 {
			l := lo
			if l < 0x80 {
				l = 0x80
			}
			hi = append(hi, [2]rune{l, h})
		}
	}
	if len(hi) > 0 {
		// must cover 0x80..0x10ffff contiguously (surrogates may be skipped by the parser)
		cur := rune(0x80)
		for _, p := range hi {
			if p[0] > cur && !(cur >= 0xd800 && cur <= 0xe000 && p[0] <= 0xe000) {
				return "", fmt.Errorf("class splits the non-ASCII range")
			}
			if p[1]+1 > cur {
				cur = p[1] + 1
			}
		}
		if cur <= 0x10ffff {
			return "", fmt.Errorf("class splits the non-ASCII range")
		}
		// merge with a trailing ASCII range ending at 0x7f
		if n := len(parts); n > 0 && strings.HasSuffix(parts[n-1], ", 127)") {
			parts[n-1] = strings.TrimSuffix(parts[n-1], "127)") + "1114111)"
		} else {
			parts = append(parts, "(128, 1114111)")
		}
	}
	s := "[" + strings.Join(parts, ", ") + "]"
	if n, ok := knownClasses[s]; ok {
		return n, nil
	}
	return "(" + s + " : Cls)", nil
}

type flatPat struct {
	Name         string
	Src          string
	AnchS, AnchE bool
	Items        []string
	Caps         []string
	Err          string
}

func flatten(name, src string) flatPat {
	fp := flatPat{Name: name, Src: src}
	re, err := syntax.Parse(src, syntax.Perl)
	if err != nil {
		fp.Err = "parse: " + err.Error()
		return fp
	}
	re = re.Simplify()
	subs := []*syntax.Regexp{re}
	if re.Op == syntax.OpConcat {
		subs = re.Sub
	}
	fail := func(f string, a ...any) flatPat { fp.Err = fmt.Sprintf(f, a...); fp.Items = nil; return fp }
	rep := func(r *syntax.Regexp, cap bool) (string, error) {
		if r.Flags&syntax.NonGreedy != 0 {
			return "", fmt.Errorf("non-greedy repetition")
		}
		mn := 0
		if r.Op == syntax.OpPlus {
			mn = 1
		}
		c, err := classOf(r.Sub[0])
		if err != nil {
			return "", err
		}
		return fmt.Sprintf(".rep %s %d %v", c, mn, cap), nil
	}
	for i, s := range subs {
		switch s.Op {
		case syntax.OpBeginText:
			if i != 0 {
				return fail("^ not at the start")
			}
			fp.AnchS = true
		case syntax.OpEndText:
			if i != len(subs)-1 {
				return fail("$ not at the end")
			}
			fp.AnchE = true
		case syntax.OpLiteral:
			if s.Flags&syntax.FoldCase != 0 {
				return fail("case-folded literal")
			}
			for _, r := range s.Rune {
				if r >= 0x80 {
					return fail("non-ASCII literal")
				}
			}
			fp.Items = append(fp.Items, ".lit "+leanStr(string(s.Rune))+".toList")
		case syntax.OpAnyCharNotNL, syntax.OpAnyChar, syntax.OpCharClass:
			c, err := classOf(s)
			if err != nil {
				return fail("%v", err)
			}
			fp.Items = append(fp.Items, ".one "+c)
		case syntax.OpStar, syntax.OpPlus:
			it, err := rep(s, false)
			if err != nil {
				return fail("%v", err)
			}
			fp.Items = append(fp.Items, it)
		case syntax.OpCapture:
			in := s.Sub[0]
			if in.Op != syntax.OpStar && in.Op != syntax.OpPlus {
				return fail("capture group body is not a single repetition: %s", in.String())
			}
			it, err := rep(in, true)
			if err != nil {
				return fail("%v", err)
			}
			fp.Items = append(fp.Items, it)
			fp.Caps = append(fp.Caps, s.Name)
		case syntax.OpEmptyMatch:
		default:
			return fail("unsupported construct %s in %s", s.Op, s.String())
		}
	}
	if !fp.AnchS && (len(fp.Items) == 0 || !strings.HasPrefix(fp.Items[0], ".lit ")) {
		return fail("unanchored pattern does not start with a literal")
	}
	return fp
}

func parseFile(rel string) (*token.FileSet, *ast.File) {
	fset := token.NewFileSet()
	f, err := parser.ParseFile(fset, filepath.Join(repo, rel), nil, parser.ParseComments)
	if err != nil {
		fmt.Fprintln(os.Stderr, "extract:", err)
		os.Exit(2)
	}
	return fset, f
}

func genRegexes() []flatPat {
	_, f := parseFile("processors/sshd/openssh_regex.go")
	var pats []flatPat
	ast.Inspect(f, func(n ast.Node) bool {
		vs, ok := n.(*ast.ValueSpec)
		if !ok || len(vs.Values) != 1 || len(vs.Names) != 1 {
			return true
		}
		call, ok := vs.Values[0].(*ast.CallExpr)
		if !ok || len(call.Args) != 1 {
			return true
		}
		sel, ok := call.Fun.(*ast.SelectorExpr)
		if !ok || sel.Sel.Name != "MustCompile" {
			return true
		}
		lit, ok := call.Args[0].(*ast.BasicLit)
		if !ok {
			unsup("%s: pattern is not a literal", vs.Names[0].Name)
			return true
		}
		src, _ := strconv.Unquote(lit.Value)
		fp := flatten(vs.Names[0].Name, src)
		if fp.Err != "" {
			unsup("%s: %s", fp.Name, fp.Err)
		}
		pats = append(pats, fp)
		return true
	})
	var b strings.Builder
	b.WriteString("-- GENERATED by tools/extract from processors/sshd/openssh_regex.go; do not edit\nimport AM.Rx.Classes\nnamespace AM.Gen\nopen AM.Rx\n\n")
	var names []string
	for _, p := range pats {
		fmt.Fprintf(&b, "/-- `%s` -/\ndef %s : Pat :=\n  { name := %s, anchS := %v, anchE := %v,\n    items := [%s],\n    caps := [%s] }\n\n",
			strings.ReplaceAll(p.Src, "-/", "- /"), p.Name, leanStr(p.Name), p.AnchS, p.AnchE, strings.Join(p.Items, ",\n      "), joinQ(p.Caps))
		names = append(names, p.Name)
	}
	fmt.Fprintf(&b, "def allPats : List Pat := [%s]\n\nend AM.Gen\n", strings.Join(names, ", "))
	write("Regexes.lean", b.String())
	return pats
}

func joinQ(xs []string) string {
	var q []string
	for _, x := range xs {
		q = append(q, leanStr(x))
	}
	return strings.Join(q, ", ")
}

// ---------- dispatch tables ----------

func metricConsts() map[string]string {
	_, f := parseFile("internal/metrics/constants.go")
	m := map[string]string{}
	ast.Inspect(f, func(n ast.Node) bool {
		vs, ok := n.(*ast.ValueSpec)
		if !ok {
			return true
		}
		for i, nm := range vs.Names {
			if i < len(vs.Values) {
				if bl, ok := vs.Values[i].(*ast.BasicLit); ok && bl.Kind == token.STRING {
					s, _ := strconv.Unquote(bl.Value)
					m[nm.Name] = s
				}
			}
		}
		return true
	})
	return m
}

type dcase struct {
	Cond string // pfx:<lit> | re:<name>
	Fn   string
	Inc  [][2]string
}

func selName(e ast.Expr) string {
	switch x := e.(type) {
	case *ast.SelectorExpr:
		return selName(x.X) + "." + x.Sel.Name
	case *ast.Ident:
		return x.Name
	case *ast.CallExpr:
		return selName(x.Fun) + "()"
	}
	return "?"
}

func incOf(call *ast.CallExpr, mc map[string]string, where string) ([2]string, bool) {
	if !strings.HasSuffix(selName(call.Fun), ".IncLogins") || len(call.Args) != 2 {
		return [2]string{}, false
	}
	var out [2]string
	for i, a := range call.Args {
		se, ok := a.(*ast.SelectorExpr)
		if !ok {
			unsup("%s: IncLogins argument is not a metrics constant", where)
			return out, true
		}
		v, ok := mc[se.Sel.Name]
		if !ok {
			unsup("%s: unknown metrics constant %s", where, se.Sel.Name)
		}
		out[i] = v
	}
	return out, true
}

func switchCases(fn *ast.FuncDecl, mc map[string]string, retStyle bool) []dcase {
	var out []dcase
	var sw *ast.SwitchStmt
	ast.Inspect(fn.Body, func(n ast.Node) bool {
		if s, ok := n.(*ast.SwitchStmt); ok && sw == nil && s.Tag == nil {
			sw = s
		}
		return sw == nil
	})
	if sw == nil {
		unsup("%s: no tagless switch found", fn.Name.Name)
		return nil
	}
	for _, st := range sw.Body.List {
		cc := st.(*ast.CaseClause)
		if cc.List == nil { // default
			if retStyle {
				continue
			}
			unsup("%s: default clause in dispatch switch", fn.Name.Name)
			continue
		}
		var dc dcase
		if len(cc.List) != 1 {
			unsup("%s: case with several conditions", fn.Name.Name)
			continue
		}
		call, ok := cc.List[0].(*ast.CallExpr)
		if !ok {
			unsup("%s: case condition is not a call", fn.Name.Name)
			continue
		}
		fnm := selName(call.Fun)
		switch {
		case fnm == "strings.HasPrefix" && len(call.Args) == 2 && selName(call.Args[0]) == "config.logEntry":
			bl, ok := call.Args[1].(*ast.BasicLit)
			if !ok {
				unsup("%s: HasPrefix with non-literal", fn.Name.Name)
				continue
			}
			s, _ := strconv.Unquote(bl.Value)
			dc.Cond = "pfx:" + s
		case strings.HasSuffix(fnm, ".MatchString") && len(call.Args) == 1 && selName(call.Args[0]) == "config.logEntry":
			dc.Cond = "re:" + strings.TrimSuffix(fnm, ".MatchString")
		default:
			unsup("%s: unrecognised case condition %s", fn.Name.Name, fnm)
			continue
		}
		for _, bs := range cc.Body {
			switch s := bs.(type) {
			case *ast.AssignStmt:
				if len(s.Lhs) == 1 && selName(s.Lhs[0]) == "entryFunc" && len(s.Rhs) == 1 {
					switch r := s.Rhs[0].(type) {
					case *ast.Ident:
						dc.Fn = r.Name
					case *ast.CallExpr:
						dc.Fn = selName(r.Fun) + "()"
					}
				} else {
					unsup("%s: unrecognised assignment in case %s", fn.Name.Name, dc.Cond)
				}
			case *ast.ExprStmt:
				if c, ok := s.X.(*ast.CallExpr); ok {
					if inc, ok := incOf(c, mc, fn.Name.Name); ok {
						dc.Inc = append(dc.Inc, inc)
						continue
					}
				}
				unsup("%s: unrecognised statement in case %s", fn.Name.Name, dc.Cond)
			case *ast.ReturnStmt:
				if retStyle && len(s.Results) == 1 {
					if id, ok := s.Results[0].(*ast.Ident); ok {
						dc.Fn = id.Name
						continue
					}
				}
				unsup("%s: unrecognised return in case %s", fn.Name.Name, dc.Cond)
			default:
				unsup("%s: unrecognised statement in case %s", fn.Name.Name, dc.Cond)
			}
		}
		out = append(out, dc)
	}
	return out
}

func funcs(f *ast.File) map[string]*ast.FuncDecl {
	m := map[string]*ast.FuncDecl{}
	for _, d := range f.Decls {
		if fd, ok := d.(*ast.FuncDecl); ok && fd.Body != nil {
			n := fd.Name.Name
			if fd.Recv != nil && len(fd.Recv.List) == 1 {
				t := fd.Recv.List[0].Type
				if st, ok := t.(*ast.StarExpr); ok {
					t = st.X
				}
				if id, ok := t.(*ast.Ident); ok {
					n = id.Name + "." + n
				}
			}
			m[n] = fd
		}
	}
	return m
}

func leanCases(cs []dcase) string {
	var xs []string
	for _, c := range cs {
		cond := ""
		if strings.HasPrefix(c.Cond, "pfx:") {
			cond = ".pfx " + leanStr(c.Cond[4:]) + ".toList"
		} else {
			cond = ".re " + c.Cond[3:]
		}
		var incs []string
		for _, i := range c.Inc {
			incs = append(incs, fmt.Sprintf("(%s, %s)", leanStr(i[0]), leanStr(i[1])))
		}
		xs = append(xs, fmt.Sprintf("⟨%s, %s, [%s]⟩", cond, leanStr(c.Fn), strings.Join(incs, ", ")))
	}
	return "[" + strings.Join(xs, ",\n   ") + "]"
}

func genDispatch() map[string]any {
	mc := metricConsts()
	_, f := parseFile("processors/sshd/sshdprocessor.go")
	fm := funcs(f)
	_, fu := parseFile("processors/sshd/user_type.go")
	for k, v := range funcs(fu) {
		fm[k] = v
	}
	for _, rel := range []string{"processors/sshd/misc_type.go", "processors/sshd/dns_type.go", "processors/sshd/revoked_type.go"} {
		_, fx := parseFile(rel)
		for k, v := range funcs(fx) {
			fm[k] = v
		}
	}
	var main, user []dcase
	if fd, ok := fm["ProcessEntry"]; ok {
		main = switchCases(fd, mc, false)
	} else {
		unsup("ProcessEntry not found")
	}
	if fd, ok := fm["userTypeLogAuditFn"]; ok {
		user = switchCases(fd, mc, true)
	} else {
		unsup("userTypeLogAuditFn not found")
	}
	// IncLogins calls inside entry functions, in source order
	type fi struct {
		Fn   string
		Incs [][2]string
	}
	var fis []fi
	var names []string
	for n := range fm {
		names = append(names, n)
	}
	sort.Strings(names)
	for _, n := range names {
		if n == "ProcessEntry" {
			continue
		}
		var incs [][2]string
		ast.Inspect(fm[n].Body, func(x ast.Node) bool {
			if c, ok := x.(*ast.CallExpr); ok {
				if inc, ok := incOf(c, mc, n); ok {
					incs = append(incs, inc)
				}
			}
			return true
		})
		if len(incs) > 0 {
			fis = append(fis, fi{n, incs})
		}
	}
	var b strings.Builder
	b.WriteString("-- GENERATED by tools/extract from processors/sshd/{sshdprocessor,user_type}.go; do not edit\nimport AM.Gen.Regexes\nnamespace AM.Gen\nopen AM.Rx\n\ninductive Cond where\n  | pfx (s : Str)\n  | re (p : Pat)\n\nstructure DCase where\n  cond : Cond\n  fn : String\n  incs : List (String × String)\n\n")
	fmt.Fprintf(&b, "/-- the ordered cases of `ProcessEntry` -/\ndef dispatch : List DCase :=\n  %s\n\n", leanCases(main))
	fmt.Fprintf(&b, "/-- the ordered cases of `userTypeLogAuditFn` -/\ndef userDispatch : List DCase :=\n  %s\n\n", leanCases(user))
	b.WriteString("/-- `IncLogins` calls inside the entry functions, in source order -/\ndef fnIncs : List (String × List (String × String)) :=\n  [")
	for i, x := range fis {
		if i > 0 {
			b.WriteString(",\n   ")
		}
		var incs []string
		for _, j := range x.Incs {
			incs = append(incs, fmt.Sprintf("(%s, %s)", leanStr(j[0]), leanStr(j[1])))
		}
		fmt.Fprintf(&b, "(%s, [%s])", leanStr(x.Fn), strings.Join(incs, ", "))
	}
	b.WriteString("]\n\n")
	// where each of those calls stands: before the event write of its branch and outside any select
	b.WriteString("/-- placement of the `IncLogins` calls inside the entry functions: `before-write` = a write of the event follows in the function and the call is not inside a `select` -/\ndef incPlacement : List (String × List String) :=\n  [")
	for i, x := range fis {
		if i > 0 {
			b.WriteString(",\n   ")
		}
		var places []string
		fd := fm[x.Fn]
		var writes []token.Pos
		ast.Inspect(fd.Body, func(n ast.Node) bool {
			if c, ok := n.(*ast.CallExpr); ok && strings.HasSuffix(selName(c.Fun), ".eventW.Write") {
				writes = append(writes, c.Pos())
			}
			return true
		})
		var walk func(n ast.Node, inSelect bool)
		walk = func(n ast.Node, inSelect bool) {
			ast.Inspect(n, func(m ast.Node) bool {
				if m == n {
					return true
				}
				switch v := m.(type) {
				case *ast.SelectStmt:
					walk(v, true)
					return false
				case *ast.CallExpr:
					if _, ok := incOf(v, mc, x.Fn); ok {
						place := "after-write"
						for _, w := range writes {
							if w > v.Pos() {
								place = "before-write"
							}
						}
						if inSelect {
							place = "in-select"
						}
						places = append(places, leanStr(place))
					}
				}
				return true
			})
		}
		walk(fd.Body, false)
		fmt.Fprintf(&b, "(%s, [%s])", leanStr(x.Fn), strings.Join(places, ", "))
	}
	b.WriteString("]\n\nend AM.Gen\n")
	write("Dispatch.lean", b.String())
	// the bodies of the functions the two tables name
	var fnNames []string
	seenFn := map[string]bool{}
	for _, cs := range [][]dcase{main, user} {
		for _, c := range cs {
			if !seenFn[c.Fn] && !strings.HasSuffix(c.Fn, "()") {
				seenFn[c.Fn] = true
				fnNames = append(fnNames, c.Fn)
			}
		}
	}
	return map[string]any{"dispatch": main, "userDispatch": user, "fnIncs": fis, "entries": genEntries(fnNames)}
}

// ---------- constants and blocking facts ----------

var timeUnits = map[string]int64{"Nanosecond": 1, "Microsecond": 1e3, "Millisecond": 1e6, "Second": 1e9, "Minute": 60e9, "Hour": 3600e9}

func evalConst(e ast.Expr) (int64, bool) {
	switch x := e.(type) {
	case *ast.BasicLit:
		if x.Kind == token.INT {
			v, err := strconv.ParseInt(strings.ReplaceAll(x.Value, "_", ""), 0, 64)
			return v, err == nil
		}
	case *ast.SelectorExpr:
		if selName(x.X) == "time" {
			v, ok := timeUnits[x.Sel.Name]
			return v, ok
		}
	case *ast.BinaryExpr:
		a, ok1 := evalConst(x.X)
		b, ok2 := evalConst(x.Y)
		if ok1 && ok2 {
			switch x.Op {
			case token.MUL:
				return a * b, true
			case token.ADD:
				return a + b, true
			}
		}
	case *ast.ParenExpr:
		return evalConst(x.X)
	}
	return 0, false
}

func exprStr(fset *token.FileSet, e ast.Node) string {
	var b strings.Builder
	ast.Fprint(&b, fset, e, nil)
	return b.String()
}

func src(rel string, fset *token.FileSet, n ast.Node) string {
	data, _ := os.ReadFile(filepath.Join(repo, rel))
	return string(data[fset.Position(n.Pos()).Offset:fset.Position(n.End()).Offset])
}

type sendFact struct {
	Fn, Chan, Kind string
}

// classify every channel send and every receive-select in fn
func blocking(rel string, fset *token.FileSet, name string, fd *ast.FuncDecl) (sends []sendFact, loops []sendFact) {
	isDone := func(e ast.Expr) bool {
		u, ok := e.(*ast.UnaryExpr)
		if !ok || u.Op != token.ARROW {
			return false
		}
		return strings.HasSuffix(selName(u.X), ".Done()")
	}
	var walk func(n ast.Node, sel *ast.SelectStmt)
	selInfo := func(s *ast.SelectStmt) (hasDone, hasDefault bool) {
		for _, c := range s.Body.List {
			cc := c.(*ast.CommClause)
			if cc.Comm == nil {
				hasDefault = true
				continue
			}
			switch st := cc.Comm.(type) {
			case *ast.ExprStmt:
				if isDone(st.X) {
					hasDone = true
				}
			case *ast.AssignStmt:
				if len(st.Rhs) == 1 && isDone(st.Rhs[0]) {
					hasDone = true
				}
			}
		}
		return
	}
	walk = func(n ast.Node, sel *ast.SelectStmt) {
		ast.Inspect(n, func(x ast.Node) bool {
			switch s := x.(type) {
			case *ast.FuncLit:
				// goroutine bodies are part of the function's behaviour
				walk(s.Body, nil)
				return false
			case *ast.SelectStmt:
				hd, hdef := selInfo(s)
				kind := "noCtx"
				if hd {
					kind = "selCtx"
				}
				if hdef {
					kind = "nonBlocking"
				}
				hasRecv := false
				for _, c := range s.Body.List {
					cc := c.(*ast.CommClause)
					if cc.Comm == nil {
						continue
					}
					if ss, ok := cc.Comm.(*ast.SendStmt); ok {
						sends = append(sends, sendFact{name, src(rel, fset, ss.Chan), kind})
					} else {
						hasRecv = true
					}
					for _, b := range cc.Body {
						walk(b, nil)
					}
				}
				if hasRecv {
					loops = append(loops, sendFact{name, "select", kind})
				}
				return false
			case *ast.SendStmt:
				sends = append(sends, sendFact{name, src(rel, fset, s.Chan), "bare"})
			case *ast.UnaryExpr:
				if s.Op == token.ARROW && !isDone(s) {
					loops = append(loops, sendFact{name, "recv " + src(rel, fset, s.X), "bare"})
				}
			}
			return true
		})
	}
	walk(fd.Body, nil)
	return
}

func returnsNil(fd *ast.FuncDecl) (n int) {
	ast.Inspect(fd.Body, func(x ast.Node) bool {
		if _, ok := x.(*ast.FuncLit); ok {
			return false
		}
		if r, ok := x.(*ast.ReturnStmt); ok && len(r.Results) >= 1 {
			if id, ok := r.Results[len(r.Results)-1].(*ast.Ident); ok && id.Name == "nil" {
				n++
			}
		}
		return true
	})
	return
}

func genConstsFacts() map[string]any {
	out := map[string]any{}
	fset, f := parseFile("processors/auditd/auditd.go")
	consts := map[string]int64{}
	ast.Inspect(f, func(n ast.Node) bool {
		vs, ok := n.(*ast.ValueSpec)
		if !ok {
			return true
		}
		for i, nm := range vs.Names {
			if i < len(vs.Values) {
				if v, ok := evalConst(vs.Values[i]); ok {
					consts[nm.Name] = v
				}
			}
		}
		return true
	})
	for _, k := range []string{"maxEventsInFlight", "eventTimeout", "reassemblerInterval", "staleDataCleanupInterval"} {
		if _, ok := consts[k]; !ok {
			unsup("auditd.go: constant %s not found or not evaluable", k)
		}
	}
	fm := funcs(f)
	read := fm["Auditd.Read"]
	tickerArg, cutoffExpr := "", ""
	var cleanupArgs []string
	if read == nil {
		unsup("auditd.go: Read not found")
	} else {
		// local variables are followed by what they are bound to, whatever they are called:
		// tickers = variables assigned time.NewTicker(X); callVars = variables assigned a call expression
		rel := "processors/auditd/auditd.go"
		tickers := map[string]string{}
		callVars := map[string]string{}
		trackerVar := ""
		ast.Inspect(read.Body, func(n ast.Node) bool {
			if x, ok := n.(*ast.AssignStmt); ok && len(x.Lhs) == 1 && len(x.Rhs) == 1 {
				l := selName(x.Lhs[0])
				if c, ok := x.Rhs[0].(*ast.CallExpr); ok {
					if selName(c.Fun) == "time.NewTicker" && len(c.Args) == 1 {
						tickers[l] = src(rel, fset, c.Args[0])
					}
					if selName(c.Fun) == "sessiontracker.NewSessionTracker" {
						trackerVar = l
					}
					callVars[l] = src(rel, fset, c)
				}
			}
			return true
		})
		// the select arm that performs the clean-up tells which ticker drives it
		ast.Inspect(read.Body, func(n ast.Node) bool {
			cc, ok := n.(*ast.CommClause)
			if !ok || cc.Comm == nil {
				return true
			}
			recvFrom := ""
			if es, ok := cc.Comm.(*ast.ExprStmt); ok {
				if u, ok := es.X.(*ast.UnaryExpr); ok && u.Op == token.ARROW {
					recvFrom = selName(u.X)
				}
			}
			hasCleanup := false
			for _, st := range cc.Body {
				ast.Inspect(st, func(m ast.Node) bool {
					if c, ok := m.(*ast.CallExpr); ok {
						fn := selName(c.Fun)
						if trackerVar != "" && (fn == trackerVar+".DeleteUsersWithoutLoginsBefore" || fn == trackerVar+".DeleteRemoteUserLoginsBefore") {
							hasCleanup = true
							a := ""
							if len(c.Args) == 1 {
								a = src(rel, fset, c.Args[0])
								if e, ok := callVars[a]; ok { // a local variable: what it was computed from
									a = e
								}
							}
							cleanupArgs = append(cleanupArgs, strings.TrimPrefix(fn, trackerVar+".")+"("+a+")")
							if cutoffExpr == "" {
								cutoffExpr = a
							}
						}
					}
					return true
				})
			}
			if hasCleanup && strings.HasSuffix(recvFrom, ".C") {
				tickerArg = tickers[strings.TrimSuffix(recvFrom, ".C")]
			}
			return true
		})
	}
	tickerNs, cutoffNs := int64(-1), int64(-1)
	if v, ok := consts[tickerArg]; ok {
		tickerNs = v
	} else {
		unsup("auditd.go: stale-data ticker is not built from a known constant (%q)", tickerArg)
	}
	if strings.HasPrefix(cutoffExpr, "time.Now().Add(-") && strings.HasSuffix(cutoffExpr, ")") {
		nm := strings.TrimSuffix(strings.TrimPrefix(cutoffExpr, "time.Now().Add(-"), ")")
		if v, ok := consts[nm]; ok {
			cutoffNs = v
		}
	}
	if cutoffNs < 0 {
		unsup("auditd.go: cut-off expression not recognised (%q)", cutoffExpr)
	}
	sort.Strings(cleanupArgs)
	wantCleanup := []string{"DeleteRemoteUserLoginsBefore(" + cutoffExpr + ")", "DeleteUsersWithoutLoginsBefore(" + cutoffExpr + ")"}
	cleanupOK := cutoffExpr != "" && strings.Join(cleanupArgs, ";") == strings.Join(wantCleanup, ";")
	if !cleanupOK {
		unsup("auditd.go: cleanup calls not recognised (%v)", cleanupArgs)
	}

	// cmd/namedpipe.go
	fset2, f2 := parseFile("cmd/namedpipe.go")
	bufSize, loginsUnbuffered, egGo, waitReturned := int64(-1), false, 0, false
	bufConst := map[string]int64{}
	ast.Inspect(f2, func(n ast.Node) bool {
		switch x := n.(type) {
		case *ast.AssignStmt:
			if len(x.Lhs) == 1 && len(x.Rhs) == 1 {
				l := selName(x.Lhs[0])
				if v, ok := evalConst(x.Rhs[0]); ok {
					bufConst[l] = v
				}
				if c, ok := x.Rhs[0].(*ast.CallExpr); ok && selName(c.Fun) == "make" {
					if l == "logins" {
						loginsUnbuffered = len(c.Args) == 1
					}
					if l == "auditLogChan" && len(c.Args) == 2 {
						if v, ok := evalConst(c.Args[1]); ok {
							bufSize = v
						} else if v, ok := bufConst[selName(c.Args[1])]; ok {
							bufSize = v
						}
					}
				}
			}
		case *ast.CallExpr:
			if selName(x.Fun) == "eg.Go" {
				egGo++
			}
		case *ast.IfStmt:
			if a, ok := x.Init.(*ast.AssignStmt); ok && len(a.Rhs) == 1 {
				if c, ok := a.Rhs[0].(*ast.CallExpr); ok && selName(c.Fun) == "eg.Wait" {
					for _, s := range x.Body.List {
						if r, ok := s.(*ast.ReturnStmt); ok && len(r.Results) == 1 && selName(r.Results[0]) == "err" {
							waitReturned = true
						}
					}
				}
			}
		}
		return true
	})
	_ = fset2
	// wiring of RunNamedPipe: one event writer (one file handle, one encoder) handed to both pipelines; the sshd
	// processor gets the node name and the machine id in that order, taken from GetNodeName / GetMachineID
	writerMakes, writerVar := 0, ""
	origin := map[string]string{}
	var sshdArgs []string
	auditEventW := ""
	ast.Inspect(f2, func(n ast.Node) bool {
		switch x := n.(type) {
		case *ast.AssignStmt:
			if len(x.Rhs) == 1 {
				if c, ok := x.Rhs[0].(*ast.CallExpr); ok {
					fn := selName(c.Fun)
					if strings.HasPrefix(fn, "auditevent.New") && strings.HasSuffix(fn, "EventWriter") {
						writerMakes++
						if len(x.Lhs) >= 1 {
							writerVar = selName(x.Lhs[0])
						}
					}
					if (fn == "common.GetMachineID" || fn == "common.GetNodeName") && len(x.Lhs) >= 1 {
						origin[selName(x.Lhs[0])] = fn
					}
				}
			}
		case *ast.CallExpr:
			if selName(x.Fun) == "sshd.NewSshdProcessor" {
				for _, a := range x.Args {
					sshdArgs = append(sshdArgs, selName(a))
				}
			}
		case *ast.CompositeLit:
			if selName(x.Type) == "auditd.Auditd" {
				for _, el := range x.Elts {
					if kv, ok := el.(*ast.KeyValueExpr); ok && selName(kv.Key) == "EventW" {
						auditEventW = selName(kv.Value)
					}
				}
			}
		}
		return true
	})
	oneWriter := writerMakes == 1 && writerVar != "" && auditEventW == writerVar && len(sshdArgs) == 6 && sshdArgs[4] == writerVar
	identityWired := len(sshdArgs) == 6 && origin[sshdArgs[2]] == "common.GetNodeName" && origin[sshdArgs[3]] == "common.GetMachineID"
	if bufSize < 0 {
		unsup("cmd/namedpipe.go: audit line channel capacity not recognised")
	}
	// main.go: a non-nil error leads to log.Fatal*
	_, f3 := parseFile("main.go")
	fatal := false
	ast.Inspect(f3, func(n ast.Node) bool {
		if c, ok := n.(*ast.CallExpr); ok && strings.HasPrefix(selName(c.Fun), "log.Fatal") {
			fatal = true
		}
		return true
	})

	// blocking facts
	var sends, loops []sendFact
	retNil := map[string]int{}
	type target struct{ rel, fn string }
	var ingestOpenRaced, ingestCloser bool
	for _, t := range []target{
		{"ingesters/namedpipe/namedpipeingester.go", "NamedPipeIngester.Ingest"},
		{"ingesters/auditlog/auditlogingester.go", "AuditLogIngester.Process"},
		{"ingesters/auditlog/auditlogingester.go", "AuditLogIngester.Ingest"},
		{"ingesters/syslog/syslogingester.go", "SyslogIngester.Process"},
		{"ingesters/syslog/syslogingester.go", "SyslogIngester.Ingest"},
		{"processors/sshd/sshdprocessor.go", "processAcceptPublicKeyEntry"},
		{"processors/sshd/sshdprocessor.go", "processAcceptedPasswordEntry"},
		{"processors/auditd/auditd.go", "Auditd.Read"},
		{"processors/auditd/auditd.go", "parseAuditLogs"},
		{"processors/auditd/auditd.go", "maintainReassemblerLoop"},
		{"processors/auditd/reassembler_callback.go", "reassemblerCB.ReassemblyComplete"},
	} {
		fs, ff := parseFile(t.rel)
		fd := funcs(ff)[t.fn]
		if fd == nil {
			unsup("%s: function %s not found", t.rel, t.fn)
			continue
		}
		s, l := blocking(t.rel, fs, t.fn, fd)
		sends = append(sends, s...)
		loops = append(loops, l...)
		retNil[t.fn] = returnsNil(fd)
		if t.fn == "NamedPipeIngester.Ingest" {
			// open happens inside a goroutine that closes `ready`; a goroutine closes the file on Done
			ast.Inspect(fd.Body, func(n ast.Node) bool {
				g, ok := n.(*ast.GoStmt)
				if !ok {
					return true
				}
				body := src(t.rel, fs, g.Call)
				if strings.Contains(body, "os.OpenFile(") && strings.Contains(body, "close(ready)") {
					ingestOpenRaced = true
				}
				if strings.Contains(body, "<-ctx.Done()") && strings.Contains(body, ".Close()") {
					ingestCloser = true
				}
				return true
			})
		}
	}
	// calls of (*os.File).Fd() anywhere in the pipe ingester's package: Fd() puts the descriptor back into blocking
	// mode and takes it off the runtime poller, after which Close no longer interrupts a pending Read
	pipeFdCalls := 0
	{
		_, fnp := parseFile("ingesters/namedpipe/namedpipeingester.go")
		ast.Inspect(fnp, func(n ast.Node) bool {
			if c, ok := n.(*ast.CallExpr); ok && len(c.Args) == 0 {
				if sel, ok := c.Fun.(*ast.SelectorExpr); ok && (sel.Sel.Name == "Fd" || sel.Sel.Name == "SyscallConn") {
					pipeFdCalls++
				}
			}
			return true
		})
	}
	// Auditd.Read: its Go routines, whether it joins them before returning, channel capacities
	readGo, readGoJoined, readGoCtx := 0, 0, 0
	readDefersWait := false
	parseDoneCap, reassErrCap := int64(-1), int64(-1)
	if read != nil {
		derived := ""
		cancelName := ""
		// the WaitGroup (`var X sync.WaitGroup`), the channel the parser's result is sent to, the channel
		// handed to the callback as its error channel — by role, not by name
		wgName, parseDoneVar, reassErrVar := "", "", ""
		ast.Inspect(read.Body, func(n ast.Node) bool {
			switch x := n.(type) {
			case *ast.ValueSpec:
				if x.Type != nil && selName(x.Type) == "sync.WaitGroup" && len(x.Names) == 1 {
					wgName = x.Names[0].Name
				}
			case *ast.SendStmt:
				if c, ok := x.Value.(*ast.CallExpr); ok && selName(c.Fun) == "parseAuditLogs" {
					parseDoneVar = selName(x.Chan)
				}
			case *ast.KeyValueExpr:
				if selName(x.Key) == "errors" {
					reassErrVar = selName(x.Value)
				}
			}
			return true
		})
		ast.Inspect(read.Body, func(n ast.Node) bool {
			switch x := n.(type) {
			case *ast.AssignStmt:
				if len(x.Rhs) == 1 {
					if c, ok := x.Rhs[0].(*ast.CallExpr); ok {
						if selName(c.Fun) == "context.WithCancel" && len(x.Lhs) == 2 && len(c.Args) == 1 && selName(c.Args[0]) == "ctx" {
							derived, cancelName = selName(x.Lhs[0]), selName(x.Lhs[1])
						}
						if selName(c.Fun) == "make" && len(x.Lhs) == 1 && len(c.Args) >= 1 {
							capv := int64(0)
							if len(c.Args) == 2 {
								if v, ok := evalConst(c.Args[1]); ok {
									capv = v
								} else {
									capv = -1
								}
							}
							switch selName(x.Lhs[0]) {
							case parseDoneVar:
								parseDoneCap = capv
							case reassErrVar:
								reassErrCap = capv
							}
						}
					}
				}
			}
			return true
		})
		for _, st := range read.Body.List {
			switch x := st.(type) {
			case *ast.GoStmt:
				readGo++
				body := src("processors/auditd/auditd.go", fset, x.Call)
				if wgName != "" && strings.Contains(body, "defer "+wgName+".Done()") {
					readGoJoined++
				}
				if derived != "" && strings.Contains(body, "("+derived+",") && !strings.Contains(body, "(ctx,") {
					readGoCtx++
				}
			case *ast.DeferStmt:
				body := src("processors/auditd/auditd.go", fset, x.Call)
				ci := strings.Index(body, cancelName+"()")
				wi := -1
				if wgName != "" {
					wi = strings.Index(body, wgName+".Wait()")
				}
				if cancelName != "" && ci >= 0 && wi > ci {
					readDefersWait = true
				}
			}
		}
	}
	// the session tracker: every exported method takes the tracker mutex first and holds it to the end
	// (Lock, then a deferred Unlock, before any other statement but deferred calls)
	type lockFact struct {
		Fn     string
		Locked bool
	}
	var trackerLocks []lockFact
	{
		fsT, fT := parseFile("processors/auditd/sessiontracker/sessiontracker.go")
		fmT := funcs(fT)
		for _, name := range []string{"RemoteLogin", "AuditdEvent", "DeleteUsersWithoutLoginsBefore", "DeleteRemoteUserLoginsBefore"} {
			fd := fmT["sessionTracker."+name]
			if fd == nil {
				unsup("sessiontracker.go: method %s not found", name)
				continue
			}
			locked, sawLock := false, false
			for _, st := range fd.Body.List {
				txt := src("processors/auditd/sessiontracker/sessiontracker.go", fsT, st)
				if d, ok := st.(*ast.DeferStmt); ok {
					if sawLock && strings.HasSuffix(src("processors/auditd/sessiontracker/sessiontracker.go", fsT, d.Call), ".mtx.Unlock()") {
						locked = true
						break
					}
					continue // other deferred calls (the verif hook) may come first
				}
				if !sawLock && strings.HasSuffix(txt, ".mtx.Lock()") {
					sawLock = true
					continue
				}
				break // any other statement before the lock is held with a deferred unlock
			}
			trackerLocks = append(trackerLocks, lockFact{name, locked})
		}
	}
	// GenericSyncMap: every locking method is one critical section (Lock first, deferred Unlock)
	var syncMapLocks []lockFact
	{
		rel := "internal/common/genericsyncmap.go"
		fsM, fM := parseFile(rel)
		fmM := funcs(fM)
		for _, name := range []string{"Load", "Has", "Store", "Delete", "Len", "Iterate", "WithLockedValueDo"} {
			var fd *ast.FuncDecl
			for k, v := range fmM {
				if strings.HasSuffix(k, "."+name) || k == name {
					fd = v
				}
			}
			if fd == nil {
				// generic receivers: GenericSyncMap[K, V]
				for _, d := range fM.Decls {
					if x, ok := d.(*ast.FuncDecl); ok && x.Name.Name == name && x.Recv != nil {
						fd = x
					}
				}
			}
			if fd == nil {
				unsup("genericsyncmap.go: method %s not found", name)
				continue
			}
			locked, sawLock := false, false
			for _, st := range fd.Body.List {
				txt := src(rel, fsM, st)
				if d, ok := st.(*ast.DeferStmt); ok {
					if sawLock && strings.HasSuffix(src(rel, fsM, d.Call), ".mtx.Unlock()") {
						locked = true
						break
					}
					continue
				}
				if !sawLock && strings.HasSuffix(txt, ".mtx.Lock()") {
					sawLock = true
					continue
				}
				break
			}
			syncMapLocks = append(syncMapLocks, lockFact{name, locked})
		}
	}
	// `ready` receive in Ingest must be inside a select with ctx
	var b strings.Builder
	b.WriteString("-- GENERATED by tools/extract from processors/auditd/auditd.go, cmd/namedpipe.go, main.go; do not edit\nnamespace AM.Gen\n\n")
	for _, k := range []string{"maxEventsInFlight", "eventTimeout", "reassemblerInterval", "staleDataCleanupInterval"} {
		fmt.Fprintf(&b, "def %s : Nat := %d\n", k, consts[k])
	}
	fmt.Fprintf(&b, "/-- period of the stale-data ticker in `Read` (ns) -/\ndef cleanupTickerNs : Int := %d\n", tickerNs)
	fmt.Fprintf(&b, "/-- the cut-off passed to both cleanup methods is `now - cleanupCutoffBackNs` -/\ndef cleanupCutoffBackNs : Int := %d\n", cutoffNs)
	fmt.Fprintf(&b, "def cleanupCallsBothWithCutoff : Bool := %v\n", cleanupOK)
	fmt.Fprintf(&b, "def auditLogChanCap : Nat := %d\ndef loginsChanUnbuffered : Bool := %v\ndef errgroupWorkers : Nat := %d\ndef runReturnsWaitError : Bool := %v\ndef mainFatalOnError : Bool := %v\n/-- `RunNamedPipe` creates ONE event writer and hands it to the sshd processor and to the audit processor -/\ndef oneSharedEventWriter : Bool := %v\n/-- the sshd processor gets (node name from GetNodeName, machine id from GetMachineID), in that order -/\ndef identityWiredInOrder : Bool := %v\n", max64(bufSize, 0), loginsUnbuffered, egGo, waitReturned, fatal, oneWriter, identityWired)
	b.WriteString("\nend AM.Gen\n")
	write("Consts.lean", b.String())

	var fb strings.Builder
	fb.WriteString("-- GENERATED by tools/extract (blocking facts of the pipeline workers); do not edit\nnamespace AM.Gen\n\ninductive BlockKind where\n  | bare | selCtx | noCtx | nonBlocking\n  deriving DecidableEq, Repr\n\nstructure ChanFact where\n  fn : String\n  what : String\n  kind : BlockKind\n  deriving Repr\n\n")
	emit := func(name string, xs []sendFact) {
		fmt.Fprintf(&fb, "def %s : List ChanFact :=\n  [", name)
		for i, s := range xs {
			if i > 0 {
				fb.WriteString(",\n   ")
			}
			fmt.Fprintf(&fb, "⟨%s, %s, .%s⟩", leanStr(s.Fn), leanStr(s.Chan), s.Kind)
		}
		fb.WriteString("]\n\n")
	}
	emit("sends", sends)
	emit("recvs", loops)
	fmt.Fprintf(&fb, "def ingestOpenRacedWithCtx : Bool := %v\ndef ingestCloserOnCtx : Bool := %v\n", ingestOpenRaced, ingestCloser)
	fmt.Fprintf(&fb, "/-- calls of `(*os.File).Fd()` / `SyscallConn()` in the pipe ingester (they take the descriptor off the poller) -/\ndef pipeFdCalls : Nat := %d\n\n", pipeFdCalls)
	fmt.Fprintf(&fb, "/-- `Auditd.Read`: `go` statements, those whose body defers `workers.Done()`, those started on the derived (cancellable) context; whether a deferred function cancels that context and then waits for the Go routines; channel capacities -/\ndef readGoStmts : Nat := %d\ndef readGoJoined : Nat := %d\ndef readGoOnWorkersCtx : Nat := %d\ndef readDefersCancelThenWait : Bool := %v\ndef parseDoneCap : Nat := %d\ndef reassemblerErrorsCap : Nat := %d\n\n", readGo, readGoJoined, readGoCtx, readDefersWait, max64(parseDoneCap, 0), max64(reassErrCap, 0))
	fb.WriteString("/-- the session tracker's exported methods: does the method take the tracker mutex first and release it by a deferred unlock -/\ndef trackerLocked : List (String × Bool) :=\n  [")
	for i, l := range trackerLocks {
		if i > 0 {
			fb.WriteString(", ")
		}
		fmt.Fprintf(&fb, "(%s, %v)", leanStr(l.Fn), l.Locked)
	}
	fb.WriteString("]\n\n")
	fb.WriteString("/-- GenericSyncMap's locking methods: is the whole body one critical section -/\ndef syncMapLocked : List (String × Bool) :=\n  [")
	for i, l := range syncMapLocks {
		if i > 0 {
			fb.WriteString(", ")
		}
		fmt.Fprintf(&fb, "(%s, %v)", leanStr(l.Fn), l.Locked)
	}
	fb.WriteString("]\n\n")
	fb.WriteString("/-- number of `return … nil` statements per worker function -/\ndef returnsNil : List (String × Nat) :=\n  [")
	var ks []string
	for k := range retNil {
		ks = append(ks, k)
	}
	sort.Strings(ks)
	for i, k := range ks {
		if i > 0 {
			fb.WriteString(", ")
		}
		fmt.Fprintf(&fb, "(%s, %d)", leanStr(k), retNil[k])
	}
	fb.WriteString("]\n\nend AM.Gen\n")
	write("Facts.lean", fb.String())

	out["consts"] = consts
	out["cleanupTickerNs"] = tickerNs
	out["cleanupCutoffBackNs"] = cutoffNs
	out["auditLogChanCap"] = bufSize
	out["sends"] = sends
	out["recvs"] = loops
	out["returnsNil"] = retNil
	out["ingestOpenRacedWithCtx"] = ingestOpenRaced
	out["ingestCloserOnCtx"] = ingestCloser
	out["pipeFdCalls"] = pipeFdCalls
	out["trackerLocked"] = trackerLocks
	out["syncMapLocked"] = syncMapLocks
	out["readGo"] = []int{readGo, readGoJoined, readGoCtx}
	out["readDefersCancelThenWait"] = readDefersWait
	out["parseDoneCap"] = parseDoneCap
	out["reassemblerErrorsCap"] = reassErrCap
	return out
}

func max64(a, b int64) int64 {
	if a > b {
		return a
	}
	return b
}

func write(name, content string) {
	if err := os.WriteFile(filepath.Join(outDir, name), []byte(content), 0o644); err != nil {
		fmt.Fprintln(os.Stderr, "extract:", err)
		os.Exit(2)
	}
}

func main() {
	if len(os.Args) != 4 {
		fmt.Fprintln(os.Stderr, "usage: extract <repo> <lean Gen dir> <facts.json>")
		os.Exit(2)
	}
	repo, outDir = os.Args[1], os.Args[2]
	os.MkdirAll(outDir, 0o755)
	all := map[string]any{}
	pats := genRegexes()
	all["regexes"] = pats
	all["dispatch"] = genDispatch()
	all["facts"] = genConstsFacts()
	all["templates"] = genTemplates()
	shp := map[string]string{}
	for _, s := range genShapes(filepath.Join(filepath.Dir(os.Args[3]), "shapes")) {
		shp[s.Key] = s.Digest
	}
	all["shapes"] = shp
	var ub strings.Builder
	ub.WriteString("-- GENERATED by tools/extract; do not edit\nnamespace AM.Gen\n\n/-- source shapes the extractor did not recognise (must be empty) -/\ndef unsupported : List String :=\n  [")
	for i, u := range unsupported {
		if i > 0 {
			ub.WriteString(",\n   ")
		}
		ub.WriteString(leanStr(u))
	}
	ub.WriteString("]\n\nend AM.Gen\n")
	write("Unsupported.lean", ub.String())
	all["unsupported"] = unsupported
	data, _ := json.MarshalIndent(all, "", " ")
	os.WriteFile(os.Args[3], data, 0o644)
	for _, u := range unsupported {
		fmt.Println("unsupported:", u)
	}
}
