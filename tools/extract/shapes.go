package main

// Source shapes: for every function of the hand-modelled files a canonical text (comments and pure
// logging statements dropped, local identifiers renamed in order of declaration, white space
// collapsed) and its digest. AM/Gen/Shapes.lean carries the digests; the obligations
// `AM.Proofs.CxxLock` state, per property, which canonical forms the hand-written model was
// validated against. A function whose canonical form changes breaks that obligation, whatever the
// correspondence runs happen to sample.

import (
	"bytes"
	"crypto/sha256"
	"fmt"
	"go/ast"
	"go/parser"
	"go/printer"
	"go/token"
	"os"
	"path/filepath"
	"regexp"
	"sort"
	"strconv"
	"strings"
)

// the non-test source files whose functions get a shape
var shapeFiles = []string{
	"main.go",
	"cmd/namedpipe.go",
	"cmd/cmd.go",
	"ingesters/namedpipe/namedpipeingester.go",
	"ingesters/auditlog/auditlogingester.go",
	"ingesters/syslog/syslogingester.go",
	"internal/common/login.go",
	"internal/common/machineid.go",
	"internal/common/nodename.go",
	"internal/common/constants.go",
	"internal/common/errors.go",
	"internal/metrics/constants.go",
	"processors/auditd/errors.go",
	"processors/auditd/sessiontracker/errors.go",
	"internal/common/genericsyncmap.go",
	"internal/common/namedpipe.go",
	"internal/health/health.go",
	"internal/metrics/metrics.go",
	"processors/auditd/auditd.go",
	"processors/auditd/reassembler_callback.go",
	"processors/auditd/sessiontracker/sessiontracker.go",
	"processors/auditd/dirreader/dirreader.go",
	"processors/sshd/sshdprocessor.go",
	"processors/sshd/user_type.go",
	"processors/sshd/misc_type.go",
	"processors/sshd/dns_type.go",
	"processors/sshd/revoked_type.go",
}

var fmtVerb = regexp.MustCompile(`%[-+# 0-9.]*[a-zA-Z]`)
var logMethod = regexp.MustCompile(`^(Debug|Info|Warn|Error)(f|ln|w)?$`)
var loggerName = regexp.MustCompile(`(?i)(^l$|log)`)

// isLogStmt: an expression statement that only logs (zap sugared logger / package logger), never
// Fatal or Panic (those end the process and are semantic)
func isLogStmt(s ast.Stmt) bool {
	es, ok := s.(*ast.ExprStmt)
	if !ok {
		return false
	}
	call, ok := es.X.(*ast.CallExpr)
	if !ok {
		return false
	}
	sel, ok := call.Fun.(*ast.SelectorExpr)
	if !ok || !logMethod.MatchString(sel.Sel.Name) {
		return false
	}
	// the receiver chain must start at something that looks like a logger: logger, debugLogger, o.l, x.With(...)
	var root func(e ast.Expr) string
	root = func(e ast.Expr) string {
		switch v := e.(type) {
		case *ast.Ident:
			return v.Name
		case *ast.SelectorExpr:
			return v.Sel.Name
		case *ast.CallExpr:
			if s2, ok := v.Fun.(*ast.SelectorExpr); ok {
				return root(s2.X)
			}
		}
		return ""
	}
	if !loggerName.MatchString(root(sel.X)) {
		return false
	}
	// the arguments (and the receiver chain) must be free of calls that could have an effect
	pure := true
	ast.Inspect(es.X, func(n ast.Node) bool {
		c, ok := n.(*ast.CallExpr)
		if !ok || c == call {
			return true
		}
		switch f := c.Fun.(type) {
		case *ast.Ident:
			if f.Name == "len" || f.Name == "cap" || f.Name == "string" {
				return true
			}
		case *ast.SelectorExpr:
			if x, ok := f.X.(*ast.Ident); ok && (x.Name == "fmt" && strings.HasPrefix(f.Sel.Name, "Sprint") || x.Name == "time" && f.Sel.Name == "Since") {
				return true
			}
			switch f.Sel.Name {
			case "String", "Error", "With", "Name", "hasRemoteUserLoginInfo":
				return true
			}
		}
		pure = false
		return false
	})
	return pure
}

func stripLogs(list []ast.Stmt) []ast.Stmt {
	out := list[:0:0]
	for _, s := range list {
		if !isLogStmt(s) {
			out = append(out, s)
		}
	}
	return out
}

func recvName(fd *ast.FuncDecl) string {
	if fd.Recv == nil || len(fd.Recv.List) == 0 {
		return ""
	}
	t := fd.Recv.List[0].Type
	for {
		switch v := t.(type) {
		case *ast.StarExpr:
			t = v.X
			continue
		case *ast.IndexExpr:
			t = v.X
			continue
		case *ast.IndexListExpr:
			t = v.X
			continue
		case *ast.Ident:
			return v.Name
		}
		return ""
	}
}

func canonFunc(fset *token.FileSet, fd *ast.FuncDecl) string {
	fd.Doc = nil
	// drop logging statements in every block
	ast.Inspect(fd, func(n ast.Node) bool {
		switch v := n.(type) {
		case *ast.BlockStmt:
			v.List = stripLogs(v.List)
		case *ast.CaseClause:
			v.Body = stripLogs(v.Body)
		case *ast.CommClause:
			v.Body = stripLogs(v.Body)
		}
		return true
	})
	// error / message texts: only the format verbs count (re-wording a message is not a change of behaviour the
	// properties speak about; which values go into it still is)
	ast.Inspect(fd, func(n ast.Node) bool {
		call, ok := n.(*ast.CallExpr)
		if !ok || len(call.Args) == 0 {
			return true
		}
		fn := ""
		if sel, ok := call.Fun.(*ast.SelectorExpr); ok {
			if x, ok := sel.X.(*ast.Ident); ok {
				fn = x.Name + "." + sel.Sel.Name
			}
		}
		if fn != "fmt.Errorf" && fn != "fmt.Sprintf" && fn != "errors.New" {
			return true
		}
		if bl, ok := call.Args[0].(*ast.BasicLit); ok && bl.Kind == token.STRING {
			if txt, err := strconv.Unquote(bl.Value); err == nil {
				bl.Value = strconv.Quote(strings.Join(fmtVerb.FindAllString(txt, -1), " "))
			}
		}
		return true
	})
	// rename identifiers declared inside the function, in order of first occurrence
	names := map[*ast.Object]string{}
	var uses []*ast.Ident
	ast.Inspect(fd, func(n ast.Node) bool {
		id, ok := n.(*ast.Ident)
		if !ok || id.Obj == nil || id.Name == "_" || id == fd.Name {
			return true
		}
		p := id.Obj.Pos()
		if p < fd.Pos() || p >= fd.End() {
			return true
		}
		if _, ok := names[id.Obj]; !ok {
			names[id.Obj] = fmt.Sprintf("v%d", len(names))
		}
		uses = append(uses, id)
		return true
	})
	for _, id := range uses {
		id.Name = names[id.Obj]
	}
	var buf bytes.Buffer
	cfg := printer.Config{Mode: printer.RawFormat, Tabwidth: 1}
	cfg.Fprint(&buf, fset, fd)
	return strings.Join(strings.Fields(buf.String()), " ")
}

type shape struct {
	Key, Lean, Digest, Text string
}

func leanIdent(k string) string {
	r := strings.NewReplacer(".", "_", "-", "_")
	return "shape_" + r.Replace(k)
}

func genShapes(shapeDir string) []shape {
	var out []shape
	seen := map[string]bool{}
	for _, rel := range shapeFiles {
		fset := token.NewFileSet()
		f, err := parser.ParseFile(fset, filepath.Join(repo, rel), nil, 0)
		if err != nil {
			unsup("shapes: %s does not parse: %v", rel, err)
			continue
		}
		pkg := filepath.Base(filepath.Dir(rel))
		if pkg == "." || pkg == "/" {
			pkg = "main"
		}
		// the file's package-level declarations (types, constants, variables; imports left out) as one shape
		{
			var db bytes.Buffer
			for _, d := range f.Decls {
				gd, ok := d.(*ast.GenDecl)
				if !ok || gd.Tok == token.IMPORT {
					continue
				}
				gd.Doc = nil
				ast.Inspect(gd, func(n ast.Node) bool {
					switch v := n.(type) {
					case *ast.Field:
						v.Doc, v.Comment = nil, nil
					case *ast.ValueSpec:
						v.Doc, v.Comment = nil, nil
					case *ast.TypeSpec:
						v.Doc, v.Comment = nil, nil
					}
					return true
				})
				cfg := printer.Config{Mode: printer.RawFormat, Tabwidth: 1}
				cfg.Fprint(&db, fset, gd)
				db.WriteString(" ; ")
			}
			text := strings.Join(strings.Fields(db.String()), " ")
			key := pkg + ".decls-" + strings.TrimSuffix(filepath.Base(rel), ".go")
			sum := sha256.Sum256([]byte(text))
			out = append(out, shape{key, leanIdent(key), fmt.Sprintf("%x", sum[:8]), text})
		}
		for _, d := range f.Decls {
			fd, ok := d.(*ast.FuncDecl)
			if !ok || fd.Body == nil {
				continue
			}
			key := pkg + "."
			if r := recvName(fd); r != "" {
				key += r + "."
			}
			key += fd.Name.Name
			if seen[key] {
				continue
			}
			seen[key] = true
			text := canonFunc(fset, fd)
			sum := sha256.Sum256([]byte(text))
			out = append(out, shape{key, leanIdent(key), fmt.Sprintf("%x", sum[:8]), text})
		}
	}
	// per package directory: the non-test Go files it consists of
	dirs := map[string]string{}
	for _, rel := range shapeFiles {
		dirs[filepath.Dir(rel)] = filepath.Base(filepath.Dir(rel))
	}
	for dir, pkg := range dirs {
		if pkg == "." || pkg == "/" {
			pkg = "main"
		}
		ents, _ := os.ReadDir(filepath.Join(repo, dir))
		var names []string
		for _, e := range ents {
			if n := e.Name(); strings.HasSuffix(n, ".go") && !strings.HasSuffix(n, "_test.go") && !e.IsDir() {
				names = append(names, n)
			}
		}
		sort.Strings(names)
		text := strings.Join(names, " ")
		sum := sha256.Sum256([]byte(text))
		key := pkg + ".files"
		out = append(out, shape{key, leanIdent(key), fmt.Sprintf("%x", sum[:8]), text})
	}
	sort.Slice(out, func(i, j int) bool { return out[i].Key < out[j].Key })
	var b strings.Builder
	b.WriteString("-- GENERATED by tools/extract (canonical source shapes of the hand-modelled functions); do not edit\nnamespace AM.Gen\n\n")
	for _, s := range out {
		fmt.Fprintf(&b, "/-- %s -/\ndef %s : String := %s\n", s.Key, s.Lean, leanStr(s.Digest))
	}
	b.WriteString("\ndef shapes : List (String × String) :=\n  [")
	for i, s := range out {
		if i > 0 {
			b.WriteString(",\n   ")
		}
		fmt.Fprintf(&b, "(%s, %s)", leanStr(s.Key), s.Lean)
	}
	b.WriteString("]\n\nend AM.Gen\n")
	write("Shapes.lean", b.String())
	if shapeDir != "" {
		os.MkdirAll(shapeDir, 0o755)
		for _, s := range out {
			os.WriteFile(filepath.Join(shapeDir, s.Key+".txt"), []byte(s.Text+"\n"), 0o644)
		}
	}
	return out
}
