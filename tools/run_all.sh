#!/bin/sh
# run every registered check of the given tier (default quick) on the current tree; one summary line each
cd "$(dirname "$0")/.."
tier=${1:-quick}
for p in C01 C02 C03 C04 C05 C06 C07 C08 C09 C10 C11 C12 C13 C14 C15 C16 C17 C18 C19 C20; do
  s=$(date +%s); out=$(./check $p $tier 2>&1); rc=$?
  echo "$p rc=$rc $(( $(date +%s)-s ))s $(echo "$out" | tail -1 | cut -c1-190)"
  echo "$out" | grep "^VIOLATION\|^KNOWN" | head -3
done
