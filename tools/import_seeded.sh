#!/bin/sh
# usage: tools/import_seeded.sh <deliver dir> <seeded id>
# validates a sub-agent's change in a fresh scratch worktree (suite passes with it, demo passes without it and fails with it)
# and copies it to /verif/seeded/<id>/
set -u
D="$1"; ID="$2"
export GOFLAGS=-mod=mod GOPROXY=off GOSUMDB=off GOTOOLCHAIN=local
V=/tmp/val/$ID
git -C /repo worktree remove --force $V 2>/dev/null; rm -rf $V; mkdir -p /tmp/val
git -C /repo worktree add -q --detach $V HEAD || exit 2
demo_path=$(python3 -c "import json;print(json.load(open('$D/meta.json'))['demo_path'])")
demo_cmd=$(python3 -c "import json;print(json.load(open('$D/meta.json'))['demo_cmd'])")
demo_file=$(basename "$demo_path")
cp "$D/$demo_file" "$V/$demo_path" || { echo "demo file missing"; exit 2; }
cd $V
a=$(sh -c "$demo_cmd" >/tmp/val/$ID.demo0.log 2>&1; echo $?)
rm "$V/$demo_path"
git apply "$D/patch.diff" || { echo "patch does not apply"; exit 2; }
b=$(go build ./... >/tmp/val/$ID.build.log 2>&1; echo $?)
c=$(go test -vet=off -count=1 ./... >/tmp/val/$ID.suite.log 2>&1; echo $?)
cp "$D/$demo_file" "$V/$demo_path"
d=$(sh -c "$demo_cmd" >/tmp/val/$ID.demo1.log 2>&1; echo $?)
compile_err=$(grep -c "\[build failed\]\|cannot use\|undefined:" /tmp/val/$ID.demo1.log)
echo "$ID: demo_without=$a build=$b suite_with=$c demo_with=$d compile_errors_in_demo=$compile_err"
cd /verif
git -C /repo worktree remove --force $V
if [ "$a" = 0 ] && [ "$b" = 0 ] && [ "$c" = 0 ] && [ "$d" != 0 ] && [ "$compile_err" = 0 ]; then
  mkdir -p /verif/seeded/$ID
  cp "$D/patch.diff" "$D/$demo_file" "$D/README.md" /verif/seeded/$ID/ 2>/dev/null
  python3 - "$D/meta.json" "/verif/seeded/$ID/meta.json" "$ID" <<'PY'
import json,sys
m=json.load(open(sys.argv[1]))
m["validated"]={"suite_passes_with_change":True,"demo_passes_without_change":True,"demo_fails_with_change":True,
  "how":"tools/import_seeded.sh: fresh worktree of /repo HEAD under /tmp/val/%s; demo run (pass); demo removed, patch applied, go build ./..., go test -vet=off -count=1 ./... (pass); demo restored and run (fail, no compile error); worktree removed" % sys.argv[3]}
m["origin"]="independent sub-agent given only the property text"
json.dump(m,open(sys.argv[2],"w"),indent=2)
PY
  echo "imported to seeded/$ID"
else
  echo "NOT imported"; tail -5 /tmp/val/$ID.demo1.log
fi
