#!/usr/bin/env python3
"""usage: tools/seeded_table.py <matrix log> -> markdown table of the seeded changes (id, property, what it needs, result)
and, with --write, replaces the table between the SEEDED-TABLE markers in DESIGN.md"""
import json, os, re, sys
V = os.path.dirname(os.path.dirname(os.path.abspath(__file__)))
res = {}
for f in [a for a in sys.argv[1:] if not a.startswith("--")]:
    for l in open(f):
        m = re.match(r"^(C\d\d-m\d+) (C\d\d) (CAUGHT by[^|]*|CAUGHT[^|]*|MISSED)", l)
        if m:
            res[m.group(1)] = m.group(3).strip()
rows = ["| id | breaks | needs, in order to manifest | quick tier |", "|---|---|---|---|"]
for d in sorted(os.listdir(os.path.join(V, "seeded"))):
    mp = os.path.join(V, "seeded", d, "meta.json")
    if not os.path.exists(mp):
        continue
    m = json.load(open(mp))
    needs = re.sub(r"\s+", " ", m.get("needs", "")).replace("|", "/")
    if len(needs) > 230:
        needs = needs[:227] + "…"
    rows.append("| %s | %s | %s | %s |" % (d, m.get("property"), needs, res.get(d, "not run yet")))
table = "\n".join(rows)
if "--write" in sys.argv:
    p = os.path.join(V, "DESIGN.md")
    s = open(p).read()
    a, b = "<!-- SEEDED-TABLE-BEGIN -->", "<!-- SEEDED-TABLE-END -->"
    if a in s:
        s = s[:s.index(a) + len(a)] + "\n" + table + "\n" + s[s.index(b):]
    else:
        s = s.replace("SEEDED-TABLE-PLACEHOLDER", a + "\n" + table + "\n" + b)
    open(p, "w").write(s)
    print("DESIGN.md updated:", len(rows) - 2, "rows")
else:
    print(table)
