#!/bin/sh
# every committed evidence file must validate, describe a run without violations with all obligations discharged
python3-vt - <<'PY'
import json,jsonschema,sys
bad=0
for i in range(1,21):
    p='/verif/evidence/C%02d.json'%i
    try:
        e=json.load(open(p)); jsonschema.validate(e,json.load(open('/root/.vp/EVIDENCE.schema.json')))
        c=e['coverage']
        if c.get('obligations')!=c.get('discharged') or e['violations']!=0 or c.get('proof_problems') or c.get('infrastructure_problems'):
            print('STALE', p, c.get('obligations'), c.get('discharged'), e['violations']); bad=1
    except Exception as x:
        print('INVALID', p, x); bad=1
json.load(open('/verif/MANIFEST.json'))
print('evidence ok' if not bad else 'evidence NOT ok'); sys.exit(bad)
PY
