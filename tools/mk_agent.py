#!/usr/bin/env python3
"""usage: tools/mk_agent.py <Cxx> <round tag>  -> creates the scratch worktree /tmp/sw/<Cxx>-<tag>, prints the prompt for a sub-agent
(only the property's text goes into it; nothing from /verif)"""
import json, os, subprocess, sys
V = os.path.dirname(os.path.dirname(os.path.abspath(__file__)))
pid, tag = sys.argv[1], sys.argv[2]
p = [json.loads(l) for l in open(os.path.join(V, "properties.jsonl")) if json.loads(l)["id"] == pid][0]
wt = "/tmp/sw/%s-%s" % (pid, tag)
out = "/tmp/deliver/%s-%s" % (pid, tag)
os.makedirs("/tmp/sw", exist_ok=True)
os.makedirs("/tmp/deliver", exist_ok=True)
subprocess.run(["git", "-C", "/repo", "worktree", "remove", "--force", wt], stderr=subprocess.DEVNULL)
subprocess.run(["rm", "-rf", wt])
subprocess.run(["git", "-C", "/repo", "worktree", "add", "-q", "--detach", wt, "HEAD"], check=True)
t = open(os.path.join(V, "tools", "agent_prompt.txt")).read()
for k, v in {"@WT@": wt, "@OUT@": out, "@ID@": pid, "@TITLE@": p["title"], "@STATEMENT@": p["statement"], "@ANCHORS@": ", ".join(p["anchors"]["files"]),
             "@LID@": (pid + tag).lower().replace("-", "")}.items():
    t = t.replace(k, v)
print(t)
