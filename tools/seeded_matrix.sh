#!/bin/sh
# run every seeded change (or the ones given) against the quick check of the property it breaks
# (plus the checks named in seeded/<id>/checks.txt, if present), in the mutant lab
# usage: tools/seeded_matrix.sh [id…]   -> lines "<id> <prop> CAUGHT by <checks>|MISSED | <summary>"
cd "$(dirname "$0")/.."
tools/mutant_lab.sh sync
ids="$@"; [ -z "$ids" ] && ids=$(ls seeded)
for id in $ids; do
  [ -f seeded/$id/meta.json ] || continue
  prop=$(python3 -c "import json;print(json.load(open('seeded/$id/meta.json'))['property'])")
  props=$prop; [ -f seeded/$id/checks.txt ] && props=$(cat seeded/$id/checks.txt)
  out=$(tools/mutant_lab.sh run /verif/seeded/$id/patch.diff $props 2>&1)
  by=""
  for p in $props; do
    if echo "$out" | grep -q "^VIOLATION property=$p"; then
      if echo "$out" | grep "^VIOLATION property=$p" | grep -qv "no-failing-input-found"; then by="$by $p"; else by="$by $p(no-failing-input-found)"; fi
    fi
  done
  if [ -n "$by" ]; then r="CAUGHT by$by"; else r=MISSED; fi
  echo "$id $prop $r | $(echo "$out" | grep ' quick: ' | cut -d, -f2-3,5-7 | tr '\n' ';' | cut -c1-220)"
done
