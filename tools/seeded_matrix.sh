#!/bin/sh
# run every seeded change (or the ones given) against the quick check of the property it breaks, in the mutant lab
# usage: tools/seeded_matrix.sh [id…]   -> lines "<id> <prop> CAUGHT|MISSED <summary>"
cd "$(dirname "$0")/.."
tools/mutant_lab.sh sync
ids="$@"; [ -z "$ids" ] && ids=$(ls seeded)
for id in $ids; do
  prop=$(python3 -c "import json;print(json.load(open('seeded/$id/meta.json'))['property'])")
  out=$(tools/mutant_lab.sh run /verif/seeded/$id/patch.diff $prop 2>&1)
  if echo "$out" | grep -q "^VIOLATION property=$prop"; then r=CAUGHT; else r=MISSED; fi
  nf=""; echo "$out" | grep -q "no-failing-input-found" && nf=" (no-failing-input-found)"
  echo "$id $prop $r$nf | $(echo "$out" | tail -1 | cut -c1-160)"
done
