/-! Shared basics: byte strings, hex, Go-map-as-association-list, strconv.Atoi -/
namespace AM

/-- byte strings; a byte `b` is the character with code `b` (0–255) -/
abbrev Str := List Char

def hexDigit (n : Nat) : Char :=
  if n < 10 then Char.ofNat (48 + n) else Char.ofNat (87 + n)

def hexVal (c : Char) : Option Nat :=
  let n := c.toNat
  if 48 ≤ n ∧ n ≤ 57 then some (n - 48)
  else if 97 ≤ n ∧ n ≤ 102 then some (n - 87)
  else if 65 ≤ n ∧ n ≤ 70 then some (n - 55)
  else none

/-- hex encoding used on the line protocol; the empty string is `-` -/
def toHex (s : Str) : String :=
  if s.isEmpty then "-" else
  String.ofList (s.flatMap fun c => [hexDigit (c.toNat / 16 % 16), hexDigit (c.toNat % 16)])

def ofHexAux : List Char → Option Str
  | [] => some []
  | a :: b :: r => do
      let x ← hexVal a
      let y ← hexVal b
      let t ← ofHexAux r
      pure (Char.ofNat (x * 16 + y) :: t)
  | _ => none

def ofHex (s : String) : Option Str :=
  if s == "-" then some [] else ofHexAux s.toList

/-! ### association lists with Go map semantics (unique keys, store overwrites) -/

def aLookup {κ α} [DecidableEq κ] (k : κ) : List (κ × α) → Option α
  | [] => none
  | (k', v) :: r => if k' = k then some v else aLookup k r

def aErase {κ α} [DecidableEq κ] (k : κ) : List (κ × α) → List (κ × α)
  | [] => []
  | (k', v) :: r => if k' = k then aErase k r else (k', v) :: aErase k r

def aStore {κ α} [DecidableEq κ] (k : κ) (v : α) (m : List (κ × α)) : List (κ × α) :=
  (k, v) :: aErase k m

theorem mem_aErase {κ α} [DecidableEq κ] {k : κ} {m : List (κ × α)} {x : κ × α} :
    x ∈ aErase k m → x ∈ m ∧ x.1 ≠ k := by
  induction m with
  | nil => simp [aErase]
  | cons y r ih =>
    obtain ⟨k', v⟩ := y
    simp only [aErase]
    split
    · intro h; have := ih h; exact ⟨List.mem_cons_of_mem _ this.1, this.2⟩
    · rename_i hne
      intro h
      rcases List.mem_cons.mp h with rfl | h
      · exact ⟨List.mem_cons_self, hne⟩
      · have := ih h; exact ⟨List.mem_cons_of_mem _ this.1, this.2⟩

theorem mem_aErase_of {κ α} [DecidableEq κ] {k : κ} {m : List (κ × α)} {x : κ × α} :
    x ∈ m → x.1 ≠ k → x ∈ aErase k m := by
  induction m with
  | nil => simp
  | cons y r ih =>
    obtain ⟨k', v⟩ := y
    intro h hne
    simp only [aErase]
    rcases List.mem_cons.mp h with rfl | h
    · simp [hne]
    · split
      · exact ih h hne
      · exact List.mem_cons_of_mem _ (ih h hne)

theorem mem_aStore {κ α} [DecidableEq κ] {k : κ} {v : α} {m : List (κ × α)} {x : κ × α} :
    x ∈ aStore k v m → x = (k, v) ∨ (x ∈ m ∧ x.1 ≠ k) := by
  intro h
  rcases List.mem_cons.mp h with rfl | h
  · exact Or.inl rfl
  · exact Or.inr (mem_aErase h)

theorem aLookup_mem {κ α} [DecidableEq κ] {k : κ} {m : List (κ × α)} {v : α} :
    aLookup k m = some v → (k, v) ∈ m := by
  induction m with
  | nil => simp [aLookup]
  | cons y r ih =>
    obtain ⟨k', v'⟩ := y
    simp only [aLookup]
    split
    · rename_i h; intro hv; cases hv; subst h; exact List.mem_cons_self
    · intro hv; exact List.mem_cons_of_mem _ (ih hv)

theorem aLookup_none {κ α} [DecidableEq κ] {k : κ} {m : List (κ × α)} :
    aLookup k m = none → ∀ x ∈ m, x.1 ≠ k := by
  induction m with
  | nil => simp
  | cons y r ih =>
    obtain ⟨k', v'⟩ := y
    simp only [aLookup]
    split
    · intro h; cases h
    · rename_i hne
      intro h x hx
      rcases List.mem_cons.mp hx with rfl | hx
      · exact hne
      · exact ih h x hx

/-- keys of an association list are pairwise distinct -/
def aUnique {κ α} (m : List (κ × α)) : Prop := (m.map (·.1)).Nodup

theorem aUnique_erase {κ α} [DecidableEq κ] {k : κ} {m : List (κ × α)} (h : aUnique m) :
    aUnique (aErase k m) := by
  induction m with
  | nil => simpa [aErase] using h
  | cons y r ih =>
    obtain ⟨k', v⟩ := y
    simp only [aUnique, List.map_cons, List.nodup_cons] at h
    simp only [aErase]
    split
    · exact ih h.2
    · simp only [aUnique, List.map_cons, List.nodup_cons]
      refine ⟨?_, ih h.2⟩
      intro hm
      obtain ⟨x, hx, hk⟩ := List.mem_map.mp hm
      exact h.1 (List.mem_map.mpr ⟨x, (mem_aErase hx).1, hk⟩)

theorem aUnique_store {κ α} [DecidableEq κ] {k : κ} {v : α} {m : List (κ × α)} (h : aUnique m) :
    aUnique (aStore k v m) := by
  simp only [aStore, aUnique, List.map_cons, List.nodup_cons]
  refine ⟨?_, aUnique_erase h⟩
  intro hm
  obtain ⟨x, hx, hk⟩ := List.mem_map.mp hm
  exact (mem_aErase hx).2 hk

theorem aLookup_of_mem {κ α} [DecidableEq κ] {k : κ} {v : α} {m : List (κ × α)}
    (hu : aUnique m) (h : (k, v) ∈ m) : aLookup k m = some v := by
  induction m with
  | nil => cases h
  | cons y r ih =>
    obtain ⟨k', v'⟩ := y
    simp only [aUnique, List.map_cons, List.nodup_cons] at hu
    simp only [aLookup]
    rcases List.mem_cons.mp h with heq | h
    · cases heq; simp
    · split
      · rename_i hk; subst hk
        exact absurd (List.mem_map.mpr ⟨(k', v), h, rfl⟩) hu.1
      · exact ih hu.2 h

/-! ### strconv.Atoi on byte strings (sign, decimal digits; no overflow modelled below 2^63) -/

def digitsVal : Str → Option Nat
  | [] => some 0
  | s => s.foldl (fun acc c => acc.bind fun n =>
      if c.isDigit then some (n * 10 + (c.toNat - 48)) else none) (some 0)

/-- `strconv.Atoi`: optional sign, at least one digit, digits only; values beyond the int64
range are a range error (`none`). -/
def atoi (s : Str) : Option Int :=
  match s with
  | [] => none
  | '-' :: r => if r.isEmpty then none else
      (digitsVal r).bind fun n => if n ≤ 9223372036854775808 then some (-(n : Int)) else none
  | '+' :: r => if r.isEmpty then none else
      (digitsVal r).bind fun n => if n ≤ 9223372036854775807 then some (n : Int) else none
  | r => (digitsVal r).bind fun n => if n ≤ 9223372036854775807 then some (n : Int) else none

end AM
