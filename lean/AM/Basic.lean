def hello := "world"
