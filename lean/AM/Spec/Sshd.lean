import AM.Model.Sshd
/-! Executable statements of the sshd-pipeline properties (C05, C06, C11, C17, C19), judged on an
observation `Sshd.Out` — the model's own or one parsed from the implementation's canonical
rendering. `none` = the property holds on this case, `some clause` = the clause that fails. -/
namespace AM.Spec
open AM.Sshd AM.Rx

/-! ### the message forms sshd prints (from OpenSSH's `auth.c`, as quoted in `openssh_regex.go`) -/

inductive Form where
  | acceptedKey | acceptedCert | acceptedPassword | certInvalid | invalidUser
  | notInAllowUsers | nonExistentShell | nonExecShell | inDenyUsers | notInAnyGroup
  | groupInDenyGroups | groupNotInAllowGroups | rootLoginRefused | badOwner
  | nastyPTR | reverseMapping | doesNotMapBack | maxAuth | revokedByFile | revokedErr
  | failedPassword
  deriving DecidableEq, Repr

def Form.ofString : String → Option Form
  | "acceptedKey" => some .acceptedKey | "acceptedCert" => some .acceptedCert
  | "acceptedPassword" => some .acceptedPassword | "certInvalid" => some .certInvalid
  | "invalidUser" => some .invalidUser | "notInAllowUsers" => some .notInAllowUsers
  | "nonExistentShell" => some .nonExistentShell | "nonExecShell" => some .nonExecShell
  | "inDenyUsers" => some .inDenyUsers | "notInAnyGroup" => some .notInAnyGroup
  | "groupInDenyGroups" => some .groupInDenyGroups
  | "groupNotInAllowGroups" => some .groupNotInAllowGroups
  | "rootLoginRefused" => some .rootLoginRefused | "badOwner" => some .badOwner
  | "nastyPTR" => some .nastyPTR | "reverseMapping" => some .reverseMapping
  | "doesNotMapBack" => some .doesNotMapBack | "maxAuth" => some .maxAuth
  | "revokedByFile" => some .revokedByFile | "revokedErr" => some .revokedErr
  | "failedPassword" => some .failedPassword
  | _ => none

def s (x : String) : Str := x.toList

/-- the line sshd prints for a form and its field values (`none` = wrong number of fields) -/
def lineOf : Form → List Str → Option Str
  | .acceptedKey, [u, a, p, v, kt, h, sum] =>
      some (s "Accepted publickey for " ++ u ++ s " from " ++ a ++ s " port " ++ p ++ s " ssh" ++ v ++
        s ": " ++ kt ++ s " " ++ h ++ s ":" ++ sum)
  | .acceptedCert, [u, a, p, v, kt, h, sum, k, n, ct, cf] =>
      some (s "Accepted publickey for " ++ u ++ s " from " ++ a ++ s " port " ++ p ++ s " ssh" ++ v ++
        s ": " ++ kt ++ s " " ++ h ++ s ":" ++ sum ++ s " ID " ++ k ++ s " (serial " ++ n ++ s ") CA " ++
        ct ++ s " " ++ cf)
  | .acceptedPassword, [u, a, p, v] =>
      some (s "Accepted password for " ++ u ++ s " from " ++ a ++ s " port " ++ p ++ s " ssh" ++ v)
  | .certInvalid, [r] => some (s "Certificate invalid: " ++ r)
  | .invalidUser, [u, a, p] => some (s "Invalid user " ++ u ++ s " from " ++ a ++ s " port " ++ p)
  | .notInAllowUsers, [u, a] =>
      some (s "User " ++ u ++ s " from " ++ a ++ s " not allowed because not listed in AllowUsers")
  | .nonExistentShell, [u, sh] =>
      some (s "User " ++ u ++ s " not allowed because shell " ++ sh ++ s " does not exist")
  | .nonExecShell, [u, sh] =>
      some (s "User " ++ u ++ s " not allowed because shell " ++ sh ++ s " is not executable")
  | .inDenyUsers, [u, a] =>
      some (s "User " ++ u ++ s " from " ++ a ++ s " not allowed because listed in DenyUsers")
  | .notInAnyGroup, [u, a] =>
      some (s "User " ++ u ++ s " from " ++ a ++ s " not allowed because not in any group")
  | .groupInDenyGroups, [u, a] =>
      some (s "User " ++ u ++ s " from " ++ a ++ s " not allowed because a group is listed in DenyGroups")
  | .groupNotInAllowGroups, [u, a] =>
      some (s "User " ++ u ++ s " from " ++ a ++
        s " not allowed because none of user's groups are listed in AllowGroups")
  | .rootLoginRefused, [a, p] => some (s "ROOT LOGIN REFUSED FROM " ++ a ++ s " port " ++ p)
  | .badOwner, [u, f] =>
      some (s "Authentication refused for " ++ u ++ s ": bad owner or modes for " ++ f)
  | .nastyPTR, [d, a] =>
      some (s "Nasty PTR record \"" ++ d ++ s "\" is set up for " ++ a ++ s ", ignoring")
  | .reverseMapping, [d, a] =>
      some (s "reverse mapping checking getaddrinfo for " ++ d ++ s " [" ++ a ++ s "] failed.")
  | .doesNotMapBack, [a, d] =>
      some (s "Address " ++ a ++ s " maps to " ++ d ++ s ", but this does not map back to the address.")
  | .maxAuth, [u, a, p, v] =>
      some (s "maximum authentication attempts exceeded for " ++ u ++ s " from " ++ a ++ s " port " ++ p ++
        s " ssh" ++ v)
  | .revokedByFile, [kt, fp, f] =>
      some (s "Authentication key " ++ kt ++ s " " ++ fp ++ s " revoked by file " ++ f)
  | .revokedErr, [kt, fp, f] =>
      some (s "Error checking authentication key " ++ kt ++ s " " ++ fp ++ s " in revoked keys file " ++ f)
  | .failedPassword, [u, a, p, v] =>
      some (s "Failed password for " ++ u ++ s " from " ++ a ++ s " port " ++ p ++ s " ssh" ++ v)
  | _, _ => none

def Form.accepted : Form → Bool
  | .acceptedKey | .acceptedCert | .acceptedPassword => true
  | _ => false

/-- the one event the form must produce: every field is the value in the message -/
def expectedEv (cfg : Cfg) (pid : Str) : Form → List Str → Option Ev
  | .acceptedKey, [u, a, p, _, kt, h, sum] =>
      some (loginEv cfg "succeeded" a [("port", p)] [("loggedAs", u), ("pid", pid), ("userID", unknown)]
        [("Alg", jsonCoerce (kt ++ s " " ++ h)), ("SSHKeySum", jsonCoerce sum)])
  | .acceptedCert, [u, a, p, _, kt, h, sum, k, n, ct, cf] =>
      some (loginEv cfg "succeeded" a [("port", p)] [("loggedAs", u), ("pid", pid), ("userID", k)]
        [("Alg", jsonCoerce (kt ++ s " " ++ h)), ("CA", jsonCoerce (s "CA " ++ ct ++ s " " ++ cf)),
         ("SSHKeySum", jsonCoerce sum), ("Serial", jsonCoerce n)])
  | .acceptedPassword, [u, a, p, _] =>
      some (loginEv cfg "succeeded" a [("port", p)] (subj3 u pid))
  | .certInvalid, [r] =>
      some (loginEv cfg "failed" unknown [("port", unknown)] (subj3 unknown pid)
        [("error", s "certificate invalid"),
         ("reason", jsonCoerce (if r.isEmpty then s "unknown reason" else r))])
  | .invalidUser, [u, a, p] => some (loginEv cfg "failed" a [("port", p)] (subj3 u pid))
  | .notInAllowUsers, [u, a] | .inDenyUsers, [u, a] | .notInAnyGroup, [u, a]
  | .groupInDenyGroups, [u, a] | .groupNotInAllowGroups, [u, a] =>
      some (loginEv cfg "failed" a [] (subj3 u pid))
  | .nonExistentShell, [u, sh] | .nonExecShell, [u, sh] =>
      some (loginEv cfg "failed" unknown [] (subj3 u pid) [] [("shell", sh)])
  | .rootLoginRefused, [a, p] => some (loginEv cfg "failed" a [("port", p)] (subj3 (s "root") pid))
  | .badOwner, [u, f] =>
      some (loginEv cfg "failed" unknown []
        [("filePath", f), ("loggedAs", u), ("pid", pid), ("userID", unknown)])
  | .nastyPTR, [d, a] | .reverseMapping, [d, a] | .doesNotMapBack, [a, d] =>
      some (loginEv cfg "failed" a [("dns", d)] (subj3 unknown pid))
  | .maxAuth, [u, a, p, _] | .failedPassword, [u, a, p, _] =>
      some (loginEv cfg "failed" a [("port", p)] (subj3 u pid))
  | .revokedByFile, [kt, fp, f] | .revokedErr, [kt, fp, f] =>
      some (loginEv cfg "failed" unknown []
        [("filePath", f), ("fingerprint", fp), ("keyType", kt), ("loggedAs", unknown), ("pid", pid),
         ("userID", unknown)])
  | _, _ => none

/-- the metric label the form's event is counted under -/
def expectedInc : Form → String × String
  | .acceptedKey => ("ssh-key", "success")
  | .acceptedCert => ("ssh-cert", "success")
  | .acceptedPassword => ("password", "success")
  | .certInvalid => ("ssh-cert", "failure")
  | _ => ("unknown", "failure")

/-- credential user ID forwarded with an accepted login -/
def expectedCred : Form → List Str → Str
  | .acceptedCert, [_, _, _, _, _, _, _, k, _, _, _] => k
  | _, _ => unknown

/-- the whole expected observation for a well-formed message of a form -/
def expectedOut (cfg : Cfg) (pid : Str) (f : Form) (fs : List Str) (ok : Bool) (h : Handoff) : Option Out :=
  match expectedEv cfg pid f fs with
  | none => none
  | some e =>
    let inc : Eff := .inc (expectedInc f).1 (expectedInc f).2
    if f.accepted then
      match atoi pid with
      | none => none
      | some n =>
        if !ok then some ⟨[inc, .write e false], .err⟩
        else match h with
          | .ready => some ⟨[inc, .write e true, .send n (expectedCred f fs)], .nil⟩
          | .cancel => some ⟨[inc, .write e true], .nil⟩
    else some ⟨[inc, .write e ok], if ok then .nil else .err⟩

/-! ### field domains (what sshd can print) -/

def noNL (x : Str) : Bool := x.all (· != '\n')
def noSpace (x : Str) : Bool := x.all fun c => clsNonSpace.mem c
def digits (x : Str) : Bool := !x.isEmpty && x.all fun c => clsDigit.mem c
def alnums (x : Str) : Bool := !x.isEmpty && x.all fun c => clsAlnum.mem c
def keyTypeLike (x : Str) : Bool := !x.isEmpty && x.all fun c => clsKeyType.mem c
def isInfix (p x : Str) : Bool := (List.range (x.length + 1)).any fun i => p.isPrefixOf (x.drop i)
def lacks (x : Str) (p : String) : Bool := !isInfix p.toList x

/-- decidable domain of the C06/C17 theorems, per form -/
def inDomain : Form → List Str → Bool
  | .acceptedKey, [u, a, p, v, kt, h, sum] =>
      noNL u && noSpace a && digits p && alnums v && keyTypeLike kt && keyTypeLike h &&
      noSpace sum && !sum.isEmpty
  | .acceptedCert, [u, a, p, v, kt, h, sum, k, n, ct, cf] =>
      noNL u && noSpace a && digits p && alnums v && keyTypeLike kt && keyTypeLike h &&
      noSpace sum && !sum.isEmpty && noNL k && lacks k " port " && lacks k " ssh" && lacks k ": " &&
      digits n &&
      keyTypeLike ct && noSpace cf && !cf.isEmpty
  | .acceptedPassword, [u, a, p, v] | .maxAuth, [u, a, p, v] | .failedPassword, [u, a, p, v] =>
      noNL u && noSpace a && digits p && alnums v
  | .certInvalid, [_] => true
  | .invalidUser, [u, a, p] => noNL u && noSpace a && !a.isEmpty && digits p
  | .notInAllowUsers, [u, a] | .inDenyUsers, [u, a] | .notInAnyGroup, [u, a]
  | .groupInDenyGroups, [u, a] | .groupNotInAllowGroups, [u, a] => noNL u && noSpace a
  | .nonExistentShell, [u, sh] | .nonExecShell, [u, sh] =>
      noNL u && noNL sh && lacks u " not allowed because shell " && lacks sh " not allowed because shell " &&
      lacks sh "not allowed because shell "
  | .rootLoginRefused, [a, p] => noSpace a && digits p
  | .badOwner, [u, f] => noNL u && noNL f && lacks u ": bad owner or modes for " &&
      lacks f ": bad owner or modes for "
  | .nastyPTR, [d, a] => noNL d && noSpace a && lacks d "\" is set up for "
  | .reverseMapping, [d, a] => noNL d && noSpace a && lacks a "]" && lacks d " ["
  | .doesNotMapBack, [a, d] => noSpace a && noNL d && lacks d " maps to " && lacks d ", but this does not" &&
      lacks d "maps to "
  | .revokedByFile, [kt, fp, f] => keyTypeLike kt && noSpace fp && noNL f && lacks f " revoked by file " &&
      lacks f "revoked by file "
  | .revokedErr, [kt, fp, f] => keyTypeLike kt && noSpace fp && noNL f &&
      lacks f " in revoked keys file " && lacks f "in revoked keys file "
  | _, _ => false

/-! ### C06 / C17: the form's observation is the expected one -/

def specForm (cfg : Cfg) (pid : Str) (f : Form) (fs : List Str) (ok : Bool) (h : Handoff) (o : Out) :
    Option String :=
  match expectedOut cfg pid f fs ok h with
  | none => some "no-expectation(bad case)"
  | some e => if e = o then none else
      if e.res ≠ o.res then some "result" else
      if e.effs.length ≠ o.effs.length then some "effect-count" else some "event-fields"

/-! ### C11 -/

/-- the recognised message keywords (fixed here, from the property; compared with the generated
dispatch table by theorem `keywords_cover`) -/
def keywords : List Str :=
  ["Accepted publickey", "Accepted password", "Certificate invalid", "Invalid user", "User ",
   "ROOT LOGIN REFUSED FROM ", "Authentication refused for ", "Nasty PTR record \"",
   "reverse mapping checking getaddrinfo for ", "Address ",
   "maximum authentication attempts exceeded for ", "Authentication key ",
   "Error checking authentication key ", "Failed password for "].map s

def hasKeyword (line : Str) : Bool := keywords.any fun k => k.isPrefixOf line

def placeholders (cfg : Cfg) (pid : Str) : List Str :=
  [unknown, s "root", s "unknown reason", s "certificate invalid", pid, cfg.node, cfg.mid, s "IP"]

def substrings (x : Str) : List Str :=
  (List.range (x.length + 1)).flatMap fun i =>
    (List.range (x.length - i + 1)).map fun n => (x.drop i).take n

/-- `v` is a verbatim substring of the line, or what `encoding/json` makes of one -/
def provB (line v : Str) : Bool :=
  isInfix v line || isInfix v (jsonCoerce line) || (substrings line).any fun t => jsonCoerce t == v

def evValues (e : Ev) : List Str :=
  e.srcValue :: (e.srcExtra ++ e.subjects ++ e.data ++ e.metaExtra).map (·.2)

def writes (o : Out) : List (Ev × Bool) :=
  o.effs.filterMap fun e => match e with | .write ev ok => some (ev, ok) | _ => none

def sends (o : Out) : List (Int × Str) :=
  o.effs.filterMap fun e => match e with | .send p c => some (p, c) | _ => none

def incs (o : Out) : List (String × String) :=
  o.effs.filterMap fun e => match e with | .inc m oc => some (m, oc) | _ => none

/-- every `send` directly follows a successful write of a succeeded event -/
def sendsFollowSuccess : List Eff → Bool
  | [] => true
  | .write e true :: .send _ _ :: r => e.outcome == "succeeded" && sendsFollowSuccess r
  | .send _ _ :: _ => false
  | _ :: r => sendsFollowSuccess r

def specC11 (cfg : Cfg) (pid line : Str) (ok : Bool) (o : Out) : Option String :=
  if o.res == .panic then some "panic" else
  if o.res == .unmodelled then some "unmodelled" else
  if ok && o.res != .nil then some "error-returned" else
  if (writes o).length > 1 then some "more-than-one-event" else
  if (sends o).length > 1 then some "more-than-one-login" else
  if !sendsFollowSuccess o.effs then some "login-without-succeeded-event" else
  if !(writes o).isEmpty && !hasKeyword line then some "event-without-keyword" else
  if (writes o).any fun w => (evValues w.1).any fun v =>
      !((placeholders cfg pid).contains v) && !provB line v
    then some "field-not-from-line" else
  if (writes o).any fun w => w.1.target != target cfg || w.1.component != "sshd" ||
      w.1.typ != "UserLogin" then some "fixed-fields" else
  none

/-! ### C19 -/

def specC19 (line : Str) (o : Out) : Option String :=
  match writes o with
  | [] => if !hasKeyword line && !(incs o).isEmpty then some "counter-without-keyword" else none
  | (e, _) :: _ =>
    match incs o with
    | [(m, oc)] =>
      if (oc == "success") != (e.outcome == "succeeded") then some "outcome-label" else
      if e.outcome == "succeeded" then
        if (s "Accepted password").isPrefixOf line then
          (if m == "password" then none else some "method-label")
        else if (s "Accepted publickey").isPrefixOf line then
          (if m == "ssh-key" || m == "ssh-cert" then none else some "method-label")
        else some "succeeded-event-for-non-accept-line"
      else if oc == "failure" then none else some "outcome-label"
    | _ => some "not-exactly-one-increment"

/-! ### C05 (clauses that need no knowledge of the form; the accepted forms' full traces are
`specForm`) -/

def specC05 (pid : Str) (ok : Bool) (h : Handoff) (o : Out) : Option String :=
  if !sendsFollowSuccess o.effs then some "login-without-succeeded-event" else
  if (sends o).length > 1 then some "more-than-one-login" else
  if !ok && !(sends o).isEmpty then some "forwarded-after-write-failure" else
  if !ok && !(writes o).isEmpty && o.res != .err then some "write-error-not-returned" else
  -- a forwarded login carries the line's PID and the credential ID of the written event
  if (sends o).any fun sd => atoi pid != some sd.1 then some "wrong-pid" else
  if (sends o).any fun sd => (writes o).any fun w =>
      (aLookup "userID" w.1.subjects) != some sd.2 then some "wrong-credential-id" else
  -- a succeeded event that was written is forwarded unless the context is cancelled
  if ok && (writes o).any (fun w => w.1.outcome == "succeeded") then
    (match h with
     | .ready => if (sends o).length == 1 then none else some "accepted-login-not-forwarded"
     | .cancel => if (sends o).isEmpty && o.res == .nil then none else some "cancel-not-honoured")
  else none

end AM.Spec
