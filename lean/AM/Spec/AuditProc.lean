import AM.Model.AuditProc
import AM.Proto
/-! Line protocol and executable statement of C15 for the audit-processor model.

case line:  `<id> <failat:-|k> <op>;<op>;… [obs=…]`
  op ::= `N:<seq>:<kind s|y|x|p|t|e>:<typ l|d|o>:<seshex>:<pidhex>:<res s|f>:<nargs>:<variant>`  accepted line
       | `B:<linehex>`   line the parser rejects      | `E` empty line
       | `G:<pid>:<credhex>:<hasSource>:<tag>` login  | `W` wait until everything in flight expired
observation: `A:<seshex>|<ts>|<outcome>|<nargs>|<loggedAsHex>;…;E:<kind>@<k|->;F:<k|c|->` -/
namespace AM.Spec.AP
open AM AM.Tr AM.AP

def tsOf (seq : Nat) : Time := 1600000000 + seq

def kindOf : String → Option Kind
  | "s" => some .single | "y" => some .syscall | "x" => some .execve
  | "p" => some .part | "t" => some .title | "e" => some .eoe | _ => none

def normSes (s : Str) : Str := if s = strOf "4294967295" then strOf "unset" else s

def mkRec (idx seq : Nat) (k : Kind) (typ : String) (ses pid : Str) (res : String) (nargs : Nat) : Rec :=
  let lead := k = .single || k = .syscall
  { seq := seq, kind := k, tag := idx, ts := tsOf seq,
    typ := if k = .single then (if typ == "l" then .login else if typ == "d" then .credDisp else .other) else .other,
    ses := if lead then normSes ses else [],
    pidTok := if lead then pid else [],
    result := if lead then (if res == "s" then strOf "success" else strOf "fail") else strOf "unknown",
    args := if k = .execve then (List.range nargs).map fun i => strOf ("arg" ++ toString i) else [] }

def trTarget : SMap := [("host", strOf "node-1"), ("machine-id", strOf "0123456789abcdef0123456789abcdef")]

def mkLogin (p : Int) (c : Str) (hs : Bool) (tag : String) : Login :=
  { pid := p, cred := c, hasSource := hs,
    subjects := [("loggedAs", strOf ("user" ++ tag)), ("pid", strOf (toString p)), ("userID", c)],
    srcType := strOf "IP", srcValue := strOf ("10.0.0." ++ tag), srcExtra := [("port", strOf tag)],
    target := trTarget, loggedAt := 0 }

def parseIn (idx : Nat) (x : String) : Option In :=
  match x.splitOn ":" with
  | ["N", seq, kind, typ, ses, pid, res, nargs, _variant] => do
    let s ← seq.toNat?
    let k ← kindOf kind
    let se ← ofHex ses
    let p ← ofHex pid
    let n ← nargs.toNat?
    pure (.line [] (some (mkRec idx s k typ se p res n)))
  | ["B", raw] => (ofHex raw).map fun r => .line r none
  | ["E"] => some .empty
  | ["W"] => some .expire
  | ["V"] => some .expire         -- expiry while records of an uncorrelated session keep flowing (nothing of theirs is emitted)
  | ["M"] => some .empty          -- reassembler-only protocol: `Maintain` without expiry
  | ["G", pid, cred, hs, tag] => do
    let p ← pid.toInt?
    let c ← ofHex cred
    pure (.login (mkLogin p c (hs == "1") tag))
  | _ => none

def parseIns (x : String) : Option (List In) :=
  let parts := x.splitOn ";"
  ((List.range parts.length).zip parts).mapM fun p => parseIn p.1 p.2

/-! ### observations -/

structure OAct where
  ses     : Str
  ts      : Int
  outcome : String
  nargs   : Nat
  who     : Str
  deriving DecidableEq, Repr

structure Obs where
  acts  : List OAct
  err   : String            -- ctx | parse | badLogin | badPid | write | coalesce | other | none
  errAt : Option Nat        -- for `parse`: index of the input whose text the error names
  fired : String            -- input during which the injected write failure happened: k | c | -
  deriving DecidableEq, Repr

def OAct.render (a : OAct) : String := s!"A:{toHex a.ses}|{a.ts}|{a.outcome}|{a.nargs}|{toHex a.who}"

def Obs.render (o : Obs) : String :=
  String.intercalate ";" (o.acts.map OAct.render ++
    [s!"E:{o.err}@{match o.errAt with | some k => toString k | none => "-"}", s!"F:{o.fired}"])

def parseAct (x : String) : Option OAct :=
  if !x.startsWith "A:" then none else
  match ((x.drop 2).toString).splitOn "|" with
  | [ses, ts, oc, n, who] => do
    let s ← ofHex ses
    let t ← ts.toInt?
    let k ← n.toNat?
    let w ← ofHex who
    pure ⟨s, t, oc, k, w⟩
  | _ => none

def parseObs (x : String) : Option Obs :=
  let parts := x.splitOn ";"
  if parts.length < 2 then none else
  let f := parts.getLast!
  let e := parts.dropLast.getLast!
  if !(f.startsWith "F:") || !(e.startsWith "E:") then none else
  match ((e.drop 2).toString).splitOn "@" with
  | [kind, k] => do
    let acts ← (parts.dropLast.dropLast).mapM parseAct
    pure ⟨acts, kind, k.toNat?, (f.drop 2).toString⟩
  | _ => none

/-! ### the model's observation -/

def errKind : Option PErr → String
  | none => "none" | some (.parse _) => "parse" | some .coalesce => "coalesce" | some .ctx => "ctx"
  | some (.cb .badPid) => "badPid" | some (.cb .write) => "write" | some (.cb .badLogin) => "badLogin"
  | some (.login .badLogin) => "badLogin" | some (.login .write) => "write" | some (.login .badPid) => "badPid"

def actOf (em : Emitted) : OAct :=
  ⟨em.ev.ses, em.ev.ts, if em.ev.result = strOf "success" then "succeeded" else "failed",
   em.ev.args.length, (aLookup "loggedAs" em.login.subjects).getD []⟩

/-- index (among the original inputs) of the input during which write attempt `k` was made -/
def firedAt (c : Cfg) (failAt : Option Nat) (ins : List In) : String :=
  match failAt with
  | none => "-"
  | some k =>
    -- replay input by input (each followed by its poll) until the attempt counter passes k
    -- the flush at `Read`'s return belongs to the input that made it return
    let rec go (st : AP.St) (i : Nat) : List In → String
      | [] => if (close c st).tr.writes > k then "c" else "-"
      | x :: rest =>
        match stepIn c st x with
        | (st1, some _) => if (close c st1).tr.writes > k then toString i else "-"
        | (st1, none) =>
          if st1.tr.writes > k then toString i else
          match stepIn c st1 .poll with
          | (st2, some _) => if (close c st2).tr.writes > k then toString i else "-"
          | (st2, none) => go st2 (i + 1) rest
    go { tr := { failAt := failAt } } 0 ins

def modelObs (c : Cfg) (failAt : Option Nat) (ins : List In) : Obs × Bool × Bool :=
  let (st, res, k) := run c { tr := { failAt := failAt } } (polled ins ++ [.cancel])
  let errAt := match res with
    | some (.parse _) => some ((k - 1) / 2)      -- the rejected line is found by the poll that follows it
    | _ => none
  (⟨st.tr.out.map actOf, errKind res, errAt, firedAt c failAt ins⟩, st.tr.ambiguous, st.forced)

/-! ### C15 on an observation -/

def recsOf (ins : List In) : List Rec := ins.filterMap fun i => match i with | .line _ (some r) => some r | _ => none

def firstRejected (ins : List In) : Option Nat :=
  ((List.range ins.length).zip ins).findSome? fun p => match p.2 with | .line _ none => some p.1 | _ => none

/-- nothing but a rejected line can make this case fail -/
def clean (failAt : Option Nat) (ins : List In) : Bool :=
  failAt.isNone &&
  ins.all fun i => match i with
    | .login l => l.valid
    | .line _ (some r) => !(r.kind = .single && r.typ = .login) || (atoi r.pidTok).isSome
    | _ => true

/-- the records of kernel event `s` arrive with the completing record last -/
def wfSeq (rs : List Rec) (s : Nat) : Bool :=
  let mine := rs.filter (·.seq = s)
  -- no non-EOE record after a completing record or an EOE
  let rec ok : List Rec → Bool
    | [] => true
    | r :: rest => if completes r.kind || r.kind = .eoe then rest.all (·.kind = .eoe) else ok rest
  ok mine

def groupOf (rs : List Rec) (s : Nat) : List Rec := rs.filter fun r => r.seq = s && r.kind ≠ .eoe

def noForce (c : Cfg) (ins : List In) : Bool :=
  (ins.all fun i => match i with | .expire => false | _ => true) &&
  ((recsOf ins).map (·.seq)).eraseDups.length ≤ c.max

/-- a fully correlated, fault-free stream: the login, then the LOGIN record of its session as an
event of its own, then only records of that session (no further LOGIN / CRED_DISP) -/
def simpleCase (failAt : Option Nat) (ins : List In) : Option Str :=
  match ins with
  | .login l :: .line _ (some r0) :: rest =>
    if failAt.isNone && l.valid && r0.kind = .single && r0.typ = .login && atoi r0.pidTok = some l.pid
       && r0.ses ≠ [] && r0.ses ≠ strOf "unset"
       && rest.all (fun i => match i with
          | .line _ (some r) => r.seq ≠ r0.seq && (r.ses = r0.ses || r.ses = []) && r.typ = .other
          | .line _ none => false
          | .login _ => false
          | .expire => false
          | _ => true)
    then some r0.ses else none
  | _ => none

def specC15 (c : Cfg) (failAt : Option Nat) (ins : List In) (o : Obs) : Option String :=
  let rs := recsOf ins
  -- (1) a rejected line stops the processor with an error naming it; nothing else does
  let c1 : Option String :=
    if clean failAt ins then
      match firstRejected ins with
      | some k => if o.err = "parse" && o.errAt = some k then none else some "rejected-line-not-reported"
      | none => if o.err = "ctx" then none else some "stopped-without-cause"
    else if o.err = "parse" then
      (match o.errAt with
       | some k => if firstRejected ins = some k then none else some "parse-error-names-wrong-line"
       | none => some "parse-error-does-not-name-the-line")
    else none
  -- (2) a write failure during an input stops the processor with that error
  let benign : In → Bool
    | .line _ (some r) => !(r.kind = .single && r.typ = .login) || (atoi r.pidTok).isSome
    | .login l => l.valid
    | .empty => true
    | _ => false
  let c2 : Option String :=
    match o.fired.toNat? with
    | some k =>
      if (ins.take (k + 1)).all benign then
        (if o.err = "write" then none else some "write-error-dropped")
      else none
    | none => none
  -- (3) no kernel event is handed over twice; every output belongs to an event of the stream
  let tss := o.acts.map (·.ts)
  let c3 : Option String :=
    -- (after a failed write the correlator keeps its hold queue and writes it again: out of scope here)
    if o.fired = "-" && tss.eraseDups.length ≠ tss.length then some "event-duplicated"
    else if o.acts.all fun a => rs.any fun r => r.ts = a.ts then none else some "event-of-no-input-record"
  -- (4) grouping: an event whose records arrive in kernel order is handed over whole
  let c4 : Option String :=
    if !noForce c ins || o.err ≠ "ctx" then none else
    o.acts.findSome? fun a =>
      match rs.find? (·.ts = a.ts) with
      | none => none
      | some r =>
        if !wfSeq rs r.seq then none else
        match coalesce (groupOf rs r.seq) with
        | none => none
        | some ev =>
          if a.nargs = ev.args.length && a.ses = ev.ses &&
             (a.outcome == (if ev.result = strOf "success" then "succeeded" else "failed"))
          then none else some "event-not-grouped-whole"
  -- (5) nothing is skipped in a fully correlated fault-free stream
  let c5 : Option String :=
    match simpleCase failAt ins with
    | none => none
    | some ses =>
      if !noForce c ins || o.err ≠ "ctx" || c.after ≠ 0 then none else
      let seqs := (rs.map (·.seq)).eraseDups
      let expect := seqs.filterMap fun s =>
        if !wfSeq rs s then none else
        match coalesce (groupOf rs s) with
        | some ev => if ev.ses = ses then some ev.ts else none
        | none => none
      if expect.all (fun t => tss.contains t) then none else some "record-skipped"
  -- (6) nothing stamped before `After` is handed on
  let c6 : Option String := if o.acts.any (fun a => a.ts < c.after) then some "event-before-After-emitted" else none
  [c1, c2, c3, c4, c5, c6].findSome? id

end AM.Spec.AP
