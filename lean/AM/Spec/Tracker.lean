import AM.Model.Tracker
/-! Executable statements of the correlator properties (C01 C02 C04 C09 C14 C16) over a history of
operations and an observation: the UserAction events that reached the encoder, each with the
index of the operation during which it was written, and the first error. The observation is the
model's own or one parsed from the implementation's canonical rendering. -/
namespace AM.Spec.Tracker
open AM AM.Tr

structure ObsAction where
  ev  : Ev
  aid : Str
  ts  : Int
  idx : Nat          -- index of the operation during which the event was written
  deriving DecidableEq, Repr

structure Obs where
  acts  : List ObsAction
  err   : String       -- nil | badLogin | badPid | write | panic | other
  errAt : Option Nat
  deriving Repr

/-! ### the model's observation -/

def errName : Option Err → String
  | none => "nil" | some .badLogin => "badLogin" | some .badPid => "badPid" | some .write => "write"

/-- run step by step, tagging every emitted event with the index of its operation -/
def runTrace : St → Nat → List Op → List (Emitted × Nat) → (List (Emitted × Nat)) × St × Option Err × Option Nat
  | st, _, [], acc => (acc, st, none, none)
  | st, k, op :: ops, acc =>
    let (st', e) := step st op
    let new := (st'.out.drop st.out.length).map fun em => (em, k)
    match e with
    | none => runTrace st' (k+1) ops (acc ++ new)
    | some er => (acc ++ new, st', some er, some k)

def modelObs (failAt : Option Nat) (h : List Op) : Obs × Bool :=
  let (ems, st, e, eat) := runTrace { failAt := failAt } 0 h []
  (⟨ems.map fun p => let (ev, aid, ts) := toAuditEvent p.1.login p.1.ev; ⟨ev, aid, ts, p.2⟩,
    errName e, eat⟩, st.ambiguous)

def ObsAction.render (a : ObsAction) : String := s!"A:{a.ev.render}|{toHex a.aid}|{a.ts}@{a.idx}"

def Obs.render (o : Obs) : String :=
  String.intercalate ";" (o.acts.map ObsAction.render ++
    [s!"E:{o.err}@{match o.errAt with | some k => toString k | none => "-"}"])

/-! ### history helpers -/

def idxOps (h : List Op) : List (Nat × Op) := (List.range h.length).zip h

def loginRecs (h : List Op) : List (Nat × AEvent) :=
  (idxOps h).filterMap fun p => match p.2 with
    | .audit e _ => if e.typ = .login && !(e.ses = [] || e.ses = strOf "unset") then some (p.1, e) else none
    | _ => none

def auditRecs (h : List Op) : List (Nat × AEvent) :=
  (idxOps h).filterMap fun p => match p.2 with | .audit e _ => some (p.1, e) | _ => none

def loginOps (h : List Op) : List (Nat × Login) :=
  (idxOps h).filterMap fun p => match p.2 with | .remoteLogin l => some (p.1, l) | _ => none

/-- the LOGIN-type record that opens session `s`: the first one in the history -/
def opener (h : List Op) (s : Str) : Option (Nat × AEvent) := (loginRecs h).find? fun p => p.2.ses = s

def dedup : List Str → List Str
  | [] => []
  | x :: r => x :: (dedup r).filter (· ≠ x)

/-- sessions opened by PID `p`, in the order of their opening records -/
def sessionsOf (h : List Op) (p : Int) : List Str :=
  dedup ((loginRecs h).filterMap fun r => if atoi r.2.pidTok = some p then some r.2.ses else none)

/-- the login that belongs to session `s`: the k-th (valid) login with the opener's PID, where `s`
is the k-th session opened by that PID (k = 0 when PIDs are not reused) -/
def loginFor (h : List Op) (s : Str) : Option (Nat × Login) :=
  match opener h s with
  | none => none
  | some (_, rec) =>
    match atoi rec.pidTok with
    | none => none
    | some p =>
      let k := (sessionsOf h p).idxOf s
      ((loginOps h).filter fun l => l.2.pid = p && l.2.valid)[k]?

/-- the identity content of a login / of an event: subjects, source, target -/
structure Ident where
  subjects : SMap
  srcType  : Str
  srcValue : Str
  srcExtra : SMap
  target   : SMap
  deriving DecidableEq, Repr

def identOf (l : Login) : Ident := ⟨l.subjects, l.srcType, l.srcValue, l.srcExtra, l.target⟩

def ObsAction.identity (a : ObsAction) : Ident :=
  ⟨a.ev.subjects, a.ev.srcType, a.ev.srcValue, a.ev.srcExtra, a.ev.target⟩

def count {α} (p : α → Bool) (l : List α) : Nat := (l.filter p).length

/-- C01's hypotheses: every PID logs in once, every PID opens one session, every session is opened
once -/
def wfNoReuse (h : List Op) : Bool :=
  (loginOps h).all (fun l => count (fun l' => l'.2.pid = l.2.pid) (loginOps h) = 1) &&
  (loginRecs h).all (fun r => count (fun r' => r'.2.ses = r.2.ses) (loginRecs h) = 1 &&
    count (fun r' => atoi r'.2.pidTok = atoi r.2.pidTok) (loginRecs h) = 1)

/-- index at which session `s`'s credential-disposal record is processed (first one) -/
def dispIdx (h : List Op) (s : Str) : Option Nat :=
  ((auditRecs h).find? fun r => r.2.ses = s && r.2.typ = .credDisp).map (·.1)

/-- logical time at which operation `k` runs (the instant captured after it is `2k+2`) -/
def opTime (k : Nat) : Time := 2 * k + 1

/-- a cleanup between the two halves discarded the pending one -/
def staleBetween (h : List Op) (i j : Nat) (l : Login) : Bool :=
  if i < j then
    (idxOps h).any fun p => i < p.1 && p.1 < j &&
      match p.2 with | .cleanSessions t => opTime i < t | _ => false
  else
    (idxOps h).any fun p => j < p.1 && p.1 < i &&
      match p.2 with | .cleanLogins t => l.loggedAt < t | _ => false

/-- C09's hypotheses: uses of a PID come one after the other — everything of one use (its login,
its session's records up to the disposal record) precedes everything of the next use; each
session is opened once; a PID that is reused had a login and an ended session every time, where
"ended" means that its disposal record was emitted or released (not discarded as stale) -/
def wfReuse (h : List Op) : Bool :=
  (loginRecs h).all (fun r => count (fun r' => r'.2.ses = r.2.ses) (loginRecs h) = 1) &&
  (loginRecs h).all fun r =>
    match atoi r.2.pidTok with
    | none => true
    | some p =>
      let ss := sessionsOf h p
      let ls := (loginOps h).filter fun l => l.2.pid = p
      ls.all (fun l => l.2.valid) &&
      (ss.length ≤ 1 && ls.length ≤ 1 ||
       ss.length = ls.length &&
       (List.range (ss.length - 1)).all fun k =>
         match ss[k]?, ss[k+1]?, ls[k]?, ls[k+1]? with
         | some s1, some s2, some l1, some l2 =>
           match dispIdx h s1, opener h s1, opener h s2 with
           | some d1, some (i1, _), some (i2, _) =>
             -- the earlier use really ended: its two halves were correlated (no stale cleanup in
             -- between), so its disposal record was emitted or released
             d1 < i2 && d1 < l2.1 && l1.1 < i2 && l1.1 < l2.1 && !staleBetween h i1 l1.1 l1.2
           | _, _, _ => false
         | _, _, _, _ => false)

/-! ### C01 / C09 / C04: identity and silence -/

/-- every emitted event belongs to a session with an opening record and a login with the opener's
PID, both seen no later than the event was written, and carries exactly that login's identity -/
def specIdentity (h : List Op) (o : Obs) : Option String :=
  o.acts.findSome? fun (a : ObsAction) =>
    if a.aid = [] || a.aid = strOf "unset" then some "event-without-session" else
    match opener h a.aid with
    | none => some "session-never-opened-by-LOGIN-record"
    | some (i, _) =>
      if i > a.idx then some "emitted-before-LOGIN-record" else
      match loginFor h a.aid with
      | none => some "no-login-with-the-opener's-PID"
      | some (j, l) =>
        if j > a.idx then some "emitted-before-its-login" else
        if a.identity ≠ identOf l then some "identity-of-another-login" else none

/-- a login that was superseded never lends its identity: when a session's opening record is the only
LOGIN-type record of that session and the only one with its PID, every event of the session carries the
identity of the LAST valid login with that PID delivered up to the operation that wrote the event (a newer
login replaces one that is still waiting, and re-binds a session already bound) -/
def specLatest (h : List Op) (o : Obs) : Option String :=
  o.acts.findSome? fun (a : ObsAction) =>
    match opener h a.aid with
    | none => none
    | some (_, rec) =>
      match atoi rec.pidTok with
      | none => none
      | some p =>
        if count (fun r => r.2.ses = a.aid) (loginRecs h) ≠ 1 ||
           count (fun r => atoi r.2.pidTok = some p) (loginRecs h) ≠ 1 then none else
        match ((loginOps h).filter fun l => l.2.pid = p && l.2.valid && l.1 ≤ a.idx).getLast? with
        | none => none
        | some (_, l) => if a.identity ≠ identOf l then some "identity-of-a-superseded-login" else none

/-- the identity content of every emitted event — subjects, source, target — is, as a whole, the identity of ONE login
that was delivered (an event is rendered from the stored login, never from parts of two). Proved of the model for all
histories: `C14S.whole_identity_spec_holds`. -/
def specWholeIdentity (h : List Op) (o : Obs) : Option String :=
  o.acts.findSome? fun (a : ObsAction) =>
    if (loginOps h).any fun l => decide (identOf l.2 = a.identity) then none
    else some "identity-content-is-no-single-login's"

def specC01 (h : List Op) (o : Obs) : Option String :=
  match (if !wfNoReuse h then none else specIdentity h o) with
  | some c => some c
  | none => (specLatest h o).orElse fun _ => specWholeIdentity h o

/-- C04's safety clause, for EVERY history: an emitted event has a session; a LOGIN-type record of that session and a
login whose PID is that record's PID and whose identity is the event's have both been delivered no later than the
operation that wrote the event. (Proved of the model for all histories: `C04S.silence_spec_holds`.) -/
def specSilence (h : List Op) (o : Obs) : Option String :=
  o.acts.findSome? fun (a : ObsAction) =>
    if a.aid = [] || a.aid = strOf "unset" then some "event-without-session" else
    if (loginRecs h).any fun r => r.2.ses = a.aid && r.1 ≤ a.idx &&
        (loginOps h).any fun l => some l.2.pid = atoi r.2.pidTok && l.1 ≤ a.idx && decide (identOf l.2 = a.identity)
    then none else some "no-LOGIN-record-and-login-with-its-PID-before-the-event"

/-- C04 makes no assumption on the history beyond PID/session reuse being C09's subject -/
def specC04 (h : List Op) (o : Obs) : Option String :=
  match specSilence h o with
  | some c => some c
  | none => if wfNoReuse h || wfReuse h then specIdentity h o else none

/-! ### C02 / C16: exactly once, in order, within the staleness window -/

/-- expected (event time stamp, operation index of emission) for session `s`, up to and including
its disposal record, when both halves arrive without a stale cleanup in between -/
def expectedCore (h : List Op) (s : Str) : Option (List (Int × Nat)) :=
  match opener h s, loginFor h s with
  | some (i, _), some (j, l) =>
    if staleBetween h i j l then some [] else
    let recs : List (Nat × AEvent) := (auditRecs h).filter fun r => r.2.ses = s && r.1 ≥ i
    let upto : List (Nat × AEvent) := match dispIdx h s with
      | some d => recs.filter fun r => r.1 ≤ d
      | none => recs
    some (upto.map fun r => (r.2.ts, max r.1 j))
  | some _, none => some []
  | none, _ => some []

def sessionIds (h : List Op) : List Str :=
  dedup ((auditRecs h).filterMap fun r =>
    if r.2.ses = [] || r.2.ses = strOf "unset" then none else some r.2.ses)

/-- for histories as in C01 without faults: per session the emitted events up to the disposal
record are exactly the expected ones, once, in order, released at the right operation; whatever
else is emitted for the session is a later record of it -/
def specComplete (h : List Op) (failAt : Option Nat) (o : Obs) : Option String :=
  if failAt.isSome || o.err ≠ "nil" then none else
  (sessionIds h).findSome? fun s =>
    match expectedCore h s with
    | none => none
    | some exp =>
      let got := (o.acts.filter fun a => a.aid = s).map fun a => (a.ts, a.idx)
      let core := got.take exp.length
      if core ≠ exp then
        (if core.map (·.1) = exp.map (·.1) then some "released-at-the-wrong-time"
         else if got.length < exp.length then some "events-lost"
         else some "events-duplicated-or-reordered")
      else
        let late := got.drop exp.length
        let after : List Int := match dispIdx h s with
          | some d => (auditRecs h).filterMap fun r => if r.2.ses = s && r.1 > d then some r.2.ts else none
          | none => []
        if late.all (fun g => after.contains g.1) && (late.map (·.1)).eraseDups.length = late.length
        then none else some "unexpected-extra-events"

/-- C02's order clause, for EVERY history (no hypothesis on PIDs, LOGIN records, cleanups): with a writer that works,
the events emitted for a session are some of the session's records, in the order in which the records were
delivered, none more often than it was delivered — their time stamps are a subsequence of the time stamps of the
session's records. (Proved of the model for all histories: `C02S.order_spec_holds`.) -/
def specOrderOnce (h : List Op) (failAt : Option Nat) (o : Obs) : Option String :=
  if failAt.isSome then none else
  o.acts.findSome? fun (a : ObsAction) =>
    let got := (o.acts.filter fun (b : ObsAction) => b.aid = a.aid).map (·.ts)
    let recs := (auditRecs h).filterMap fun r => if r.2.ses = a.aid then some r.2.ts else none
    if got.isSublist recs then none else some "events-of-a-session-reordered-or-repeated"

/-- C16's "dropped, not emitted late", for EVERY history: an event that was held (written by a later operation than
the one that delivered it) was not overtaken by a cleanup — every `cleanSessions t` between its delivery and its
emission has a cut-off no later than the stamp of a LOGIN-type record of its session delivered before it (the stamp the
session entry holding it carries). Existential over the deliveries that carry the event's time stamp, so sound without
any uniqueness assumption. (Proved of the model for all histories and write oracles: `C16L.not_late_spec_holds`.) -/
def specNotLate (h : List Op) (o : Obs) : Option String :=
  let ops := idxOps h
  o.acts.findSome? fun (a : ObsAction) =>
    let ok := ops.any fun p =>
      match p.2 with
      | .audit e _ =>
        e.ts = a.ts && e.ses = a.aid && p.1 ≤ a.idx &&
        ops.all fun c =>
          match c.2 with
          | .cleanSessions t =>
            !(p.1 < c.1 && c.1 < a.idx) ||
            ops.any fun r =>
              match r.2 with
              | .audit e' now' => r.1 ≤ p.1 && e'.typ = .login && e'.ses = a.aid && t ≤ now'
              | _ => false
          | _ => true
      | _ => false
    if ok then none else some "held-event-emitted-after-a-cleanup-that-discards-its-session"

def specC02 (h : List Op) (failAt : Option Nat) (o : Obs) : Option String :=
  match (specOrderOnce h failAt o).orElse fun _ => specNotLate h o with
  | some c => some c
  | none => if !wfNoReuse h then none else specComplete h failAt o

/-- C09: with PIDs reused after the earlier session ended, every event carries the identity of the
login of its own use of the PID, and the sessions of the later uses are emitted completely -/
def specC09 (h : List Op) (failAt : Option Nat) (o : Obs) : Option String :=
  -- the clauses that hold of the model for EVERY history (reused PIDs or not) first: one login's identity as a whole,
  -- in order and at most once, nothing emitted that a cleanup should have discarded
  match (specWholeIdentity h o).orElse fun _ => (specOrderOnce h failAt o).orElse fun _ => specNotLate h o with
  | some c => some c
  | none =>
  if !wfReuse h then none else
  match specIdentity h o with
  | some c => some c
  | none => specComplete h failAt o

/-! ### C14: rendering -/

/-- the rendering clauses for one event against one audit record: the first clause that fails -/
def renderClause (e : AEvent) (a : ObsAction) : Option String :=
  if a.ev.typ ≠ "UserAction" then some "type" else
  if a.ev.component ≠ "auditd" then some "component" else
  if a.aid ≠ e.ses then some "auditId" else
  if (a.ev.outcome = "succeeded") ≠ (e.result = strOf "success") ||
     (a.ev.outcome ≠ "succeeded" && a.ev.outcome ≠ "failed") then some "outcome" else
  if aLookup "action" a.ev.metaExtra ≠ some e.action then some "action" else
  if aLookup "how" a.ev.metaExtra ≠ some e.how then some "how" else
  if aLookup "object" a.ev.metaExtra ≠ some e.object then some "object" else
  if aLookup "process_args" a.ev.metaExtra ≠ (if e.args.isEmpty then none else some (joinNul e.args))
    then some "process_args" else
  if !a.ev.data.isEmpty then some "data" else none

/-- every emitted event renders SOME audit record of the history that carries its time stamp (when none does, the
clause reported is the one the first such record fails). Proved of the model for all histories:
`C14S.render_spec_holds`. -/
def specRender (h : List Op) (o : Obs) : Option String :=
  o.acts.findSome? fun (a : ObsAction) =>
    if (auditRecs h).any fun r => r.2.ts = a.ts && (renderClause r.2 a).isNone then none else
    match (auditRecs h).find? fun r => r.2.ts = a.ts with
    | none => some "event-with-unknown-timestamp"
    | some (_, e) => (renderClause e a).orElse fun _ => some "rendering"

def specC14 (h : List Op) (o : Obs) : Option String :=
  match (specRender h o).orElse fun _ => specWholeIdentity h o with
  | some c => some c
  | none =>
    o.acts.findSome? fun (a : ObsAction) =>
      -- all events of one session carry identical identity content — in histories emitting from one
      -- login per PID (the property's quantifier: a second login under a PID in use re-binds its session)
      if (loginOps h).all (fun l => count (fun l' => l'.2.pid = l.2.pid) (loginOps h) = 1) &&
         (o.acts.any fun (b : ObsAction) => b.aid = a.aid && decide (b.identity ≠ a.identity))
      then some "identity-changes-within-session"
      else none

end AM.Spec.Tracker
