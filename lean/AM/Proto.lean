import AM.Model.Sshd
/-! Parsing of canonical observations (the inverse of the `render` functions), used to judge the
implementation's observations with the same executable `Spec` predicates as the model's. -/
namespace AM.Proto
open AM AM.Sshd

def parseSMap (x : String) : Option SMap :=
  if x == "-" then some [] else
  (x.splitOn ",").mapM fun kv =>
    match kv.splitOn "=" with
    | [k, v] => (ofHex v).map fun b => (k, b)
    | _ => none

def parseEv (x : String) : Option Ev :=
  match x.splitOn "|" with
  | [typ, outcome, comp, st, sv, se, subj, tgt, data, me] => do
    let st ← ofHex st
    let sv ← ofHex sv
    let se ← parseSMap se
    let subj ← parseSMap subj
    let tgt ← parseSMap tgt
    let data ← parseSMap data
    let me ← parseSMap me
    pure { typ := typ, outcome := outcome, component := comp, srcType := st, srcValue := sv,
           srcExtra := se, subjects := subj, target := tgt, data := data, metaExtra := me }
  | _ => none

def parseEff (x : String) : Option Eff :=
  match x.splitOn ":" with
  | ["I", m, o] => some (.inc m o)
  | ["W", ok, ev] => (parseEv ev).map fun e => .write e (ok == "ok")
  | ["S", pid, cred] => do
      let p ← pid.toInt?
      let c ← ofHex cred
      pure (.send p c)
  | _ => none

def parseRes : String → Option Res
  | "R:nil" => some .nil | "R:err" => some .err | "R:panic" => some .panic
  | "R:unmodelled" => some .unmodelled | _ => none

/-- parse `eff;eff;…;R:res` -/
def parseOut (x : String) : Option Out :=
  let parts := x.splitOn ";"
  match parts.getLast? with
  | none => none
  | some r => do
    let res ← parseRes r
    let effs ← parts.dropLast.mapM parseEff
    pure ⟨effs, res⟩

end AM.Proto
