import AM.Basic
/-! The audit event as handed to the `EventEncoder`, in canonical form (maps sorted by key) -/
namespace AM

abbrev SMap := List (String × Str)

structure Ev where
  typ       : String
  outcome   : String
  component : String
  srcType   : Str
  srcValue  : Str
  srcExtra  : SMap
  subjects  : SMap
  target    : SMap
  data      : SMap      -- the JSON object in `Data`, decoded (values as `encoding/json` renders them)
  metaExtra : SMap
  deriving DecidableEq, Repr

def strOf (s : String) : Str := s.toList

def SMap.render (m : SMap) : String :=
  if m.isEmpty then "-" else
  String.intercalate "," (m.map fun kv => kv.1 ++ "=" ++ toHex kv.2)

def Ev.render (e : Ev) : String :=
  String.intercalate "|" [e.typ, e.outcome, e.component, toHex e.srcType, toHex e.srcValue,
    e.srcExtra.render, e.subjects.render, e.target.render, e.data.render, e.metaExtra.render]

end AM
