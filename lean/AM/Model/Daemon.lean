import AM.Model.AuditProc
import AM.Model.Sshd
/-! The assembled daemon (`cmd/namedpipe.go`): the sshd pipeline (`Sshd.process` on every record of
the sshd pipe: counters, the UserLogin event, the hand-off of an accepted login), the unbuffered
`logins` channel, and the audit processor (`AP`, with the session tracker inside), all writing to
one output. A schedule is a list of actions; an action that is not enabled is a no-op. -/
namespace AM.Dm
open AM

/-- the `common.RemoteUserLogin` the sshd processor hands over with the event it has just written -/
def loginOf (e : Ev) (n : Int) (c : Str) : Tr.Login :=
  { pid := n, cred := c, hasSource := true, subjects := e.subjects, srcType := e.srcType,
    srcValue := e.srcValue, srcExtra := e.srcExtra, target := e.target, loggedAt := 0 }

/-- a line of the events output -/
inductive Item where
  | sshd (e : Ev)                -- an event written by the sshd pipeline (a UserLogin)
  | action (em : Tr.Emitted)     -- a UserAction written by the correlator
  deriving DecidableEq, Repr

/-- the hand-off in an effect trace: the event written and the login sent right after it -/
def sentOf : List Sshd.Eff → Option (Ev × Int × Str)
  | .write e true :: .send n c :: _ => some (e, n, c)
  | _ :: r => sentOf r
  | [] => none

def written : List Sshd.Eff → List Ev
  | [] => []
  | .write e true :: r => e :: written r
  | _ :: r => written r

structure St where
  sshdTodo  : List (Str × Str × Bool) := []   -- (PID token, message, does the event write succeed) still to come
  sshdDead  : Bool := false                   -- the sshd ingester has returned (a write failed)
  inflight  : Option Tr.Login := none         -- blocked handing this login over
  auditTodo : List AP.In := []                -- what is still to come on the audit side (lines, ticks, polls, …)
  ap        : AP.St := {}
  procDead  : Bool := false                   -- `Auditd.Read` has returned
  out       : List Item := []
  handed    : List Tr.Login := []             -- ghost: logins handed over, in order
  done      : List (Str × Str × Bool × Bool) := []   -- ghost: sshd records processed (pid, message, ok, cancelled)

inductive Act where
  | sshdLine (cancelled : Bool)   -- the sshd pipeline processes its next record
  | handoff                        -- rendezvous on `logins`, `RemoteLogin`
  | sshdCancel                     -- the context is cancelled while blocked on the hand-off
  | audit                          -- the audit side consumes its next input
  deriving Repr

def newActions (before after : AP.St) : List Item :=
  (after.tr.out.drop before.tr.out.length).map .action

/-- one input of the audit processor inside the daemon (its result ends `Read`: flush) -/
def apStep (c : AP.Cfg) (st : St) (i : AP.In) : St :=
  let r := AP.stepIn c st.ap i
  let ap' := if r.2.isSome then AP.close c r.1 else r.1
  { st with ap := ap', procDead := r.2.isSome, out := st.out ++ newActions st.ap ap' }

def step (cfg : Sshd.Cfg) (c : AP.Cfg) (st : St) : Act → St
  | .sshdLine cancelled =>
    if st.sshdDead || st.inflight.isSome then st else
    match st.sshdTodo with
    | [] => st
    | (pid, msg, ok) :: rest =>
      let o := Sshd.process cfg pid msg ok (if cancelled then .cancel else .ready)
      { st with sshdTodo := rest, done := st.done ++ [(pid, msg, ok, cancelled)],
                out := st.out ++ (written o.effs).map .sshd,
                inflight := (sentOf o.effs).map fun x => loginOf x.1 x.2.1 x.2.2,
                sshdDead := o.res != .nil }
  | .handoff =>
    match st.inflight with
    | none => st
    | some l =>
      if st.procDead then st else
      { apStep c st (.login l) with inflight := none, handed := st.handed ++ [l] }
  | .sshdCancel => { st with inflight := none }
  | .audit =>
    if st.procDead then st else
    match st.auditTodo with
    | [] => st
    | .login _ :: rest => { st with auditTodo := rest }     -- logins only come over the channel
    | i :: rest => { apStep c st i with auditTodo := rest }

def run (cfg : Sshd.Cfg) (c : AP.Cfg) (st : St) (sched : List Act) : St := sched.foldl (step cfg c) st

end AM.Dm
