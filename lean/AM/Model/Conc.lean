import AM.Model.Tracker
import AM.Model.Health
/-! Concurrency model: threads run operations; every operation acquires ONE mutex `g` first, runs
its body (inner lock/unlock instructions of other locks and atomic actions on the shared state)
and releases `g`. A schedule is a list of thread indices; a thread whose next step is the
acquisition of a held `g` does not move. Instantiated for the session tracker (its four methods
under `sessionTracker.mtx`) and for the readiness map (each `GenericSyncMap` method is one
critical section of the map's own mutex). -/
namespace AM.Conc

variable {S L : Type}

/-- one step of an operation body -/
inductive Instr (S L : Type) where
  | ilock (m : Nat)
  | iunlock (m : Nat)
  | act (f : S → L → S × L)

structure Op (S L : Type) where
  body : List (Instr S L)
  init : L

/-- a thread: operations still to run, and the operation in progress (rest of body, locals) -/
structure Thr (S L : Type) where
  todo : List (Op S L)
  cur  : Option (List (Instr S L) × L)

structure Sys (S L : Type) where
  sh   : S
  g    : Option Nat            -- holder of the mutex
  thr  : List (Thr S L)
  log  : List (Op S L)         -- ghost: operations in order of acquisition of `g`

def execInstr (sh : S) (loc : L) : Instr S L → S × L
  | .ilock _ => (sh, loc)
  | .iunlock _ => (sh, loc)
  | .act f => f sh loc

def runBody : List (Instr S L) → S → L → S
  | [], sh, _ => sh
  | i :: r, sh, loc => let p := execInstr sh loc i; runBody r p.1 p.2

/-- the operation executed alone -/
def applyOp (sh : S) (op : Op S L) : S := runBody op.body sh op.init

/-- thread `i` takes one step if it can; a thread waiting for `g` (or finished) does not move -/
def step (sys : Sys S L) (i : Nat) : Sys S L :=
  match sys.thr[i]? with
  | none => sys
  | some t =>
    match t.cur with
    | none =>
      match t.todo with
      | [] => sys
      | op :: rest =>
        match sys.g with
        | some _ => sys
        | none => { sys with g := some i,
                             thr := sys.thr.set i ⟨rest, some (op.body, op.init)⟩,
                             log := sys.log ++ [op] }
    | some ([], _) => { sys with g := none, thr := sys.thr.set i ⟨t.todo, none⟩ }
    | some (ins :: r, loc) =>
      let p := execInstr sys.sh loc ins
      { sys with sh := p.1, thr := sys.thr.set i ⟨t.todo, some (r, p.2)⟩ }

def runSched (sys : Sys S L) (sched : List Nat) : Sys S L := sched.foldl step sys

def start (s0 : S) (progs : List (List (Op S L))) : Sys S L :=
  ⟨s0, none, progs.map fun p => ⟨p, none⟩, []⟩

def allDone (sys : Sys S L) : Prop := ∀ t ∈ sys.thr, t.cur = none ∧ t.todo = []

/-! ### instances -/

/-- a session-tracker method call: the whole method body under `sessionTracker.mtx`; the inner
`GenericSyncMap` locks are taken and released inside -/
def trackerOp (op : Tr.Op) : Op Tr.St Unit :=
  ⟨[.ilock 1, .act (fun st _ => ((Tr.step st op).1, ())), .iunlock 1], ()⟩

/-- readiness map: shared state = the map and the answers given so far -/
abbrev HS := Health.M × List (Nat × List (Str × Str))

def healthStore (o : Health.Op) : Op HS Unit :=
  ⟨[.act (fun s _ => ((Health.apply s.1 o, s.2), ()))], ()⟩

/-- `Len` (capacity hint only) -/
def healthLen : Op HS Unit := ⟨[.act (fun s _ => (s, ()))], ()⟩

/-- `Iterate` inside `GetReadyzStatusMap`: the whole answer is computed in this one critical section -/
def healthIterate : Op HS Unit :=
  ⟨[.act (fun s _ => ((s.1, s.2 ++ [Health.respond s.1]), ()))], ()⟩

end AM.Conc
