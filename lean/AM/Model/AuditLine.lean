import AM.Basic
/-! The audit side of the record path (C07, second clause): what `auparse.ParseLogLine` makes of a line
before it looks at the header — the record type's name and the message text with surrounding white
space removed (`strings.TrimSpace`). The header parse that follows (`audit(<sec>.<msec>:<seq>):`) is a
function of exactly these two values, so two lines with the same `split` parse to the same message
or fail alike. Bytes are modelled; `TrimSpace` removes every Unicode white-space rune, in its UTF-8 form. -/
namespace AM.AuditLine
open AM

def b (n : Nat) : Char := Char.ofNat n

/-- the byte sequences `unicode.IsSpace` accepts, as UTF-8: the six ASCII ones, U+0085, U+00A0, U+1680,
U+2000–U+200A, U+2028, U+2029, U+202F, U+205F, U+3000. A string begins (ends) with a white-space rune
iff it begins (ends) with one of them: their lead bytes are never continuation bytes. -/
def spaceSeqs : List Str :=
  [[' '], ['\t'], ['\n'], ['\r'], [b 11], [b 12], [b 0xc2, b 0x85], [b 0xc2, b 0xa0], [b 0xe1, b 0x9a, b 0x80],
   [b 0xe2, b 0x80, b 0x80], [b 0xe2, b 0x80, b 0x81], [b 0xe2, b 0x80, b 0x82], [b 0xe2, b 0x80, b 0x83],
   [b 0xe2, b 0x80, b 0x84], [b 0xe2, b 0x80, b 0x85], [b 0xe2, b 0x80, b 0x86], [b 0xe2, b 0x80, b 0x87],
   [b 0xe2, b 0x80, b 0x88], [b 0xe2, b 0x80, b 0x89], [b 0xe2, b 0x80, b 0x8a], [b 0xe2, b 0x80, b 0xa8],
   [b 0xe2, b 0x80, b 0xa9], [b 0xe2, b 0x80, b 0xaf], [b 0xe2, b 0x81, b 0x9f], [b 0xe3, b 0x80, b 0x80]]

/-- remove one leading white-space sequence -/
def strip1 (seqs : List Str) (s : Str) : Option Str :=
  match seqs.find? (fun q => q.isPrefixOf s) with
  | some q => some (s.drop q.length)
  | none => none

def trimLeftW (seqs : List Str) (s : Str) : Str :=
  match strip1 seqs s with
  | some r => if r.length < s.length then trimLeftW seqs r else s
  | none => s
termination_by s.length

def trimLeft (s : Str) : Str := trimLeftW spaceSeqs s

def trimRight (s : Str) : Str := (trimLeftW (spaceSeqs.map List.reverse) s.reverse).reverse

/-- `strings.TrimSpace` -/
def trimSpace (s : Str) : Str := trimRight (trimLeft s)

/-- `strings.Index(s, pat)` counted from `k` -/
def indexFrom (pat : Str) : Str → Nat → Option Nat
  | [], k => if pat.isPrefixOf [] then some k else none
  | c :: r, k => if pat.isPrefixOf (c :: r) then some k else indexFrom pat r (k + 1)

def msgToken : Str := "msg=".toList
def typeTokenLen : Nat := 5     -- len("type=")

/-- `ParseLogLine` up to the header parse: `(record type name, trimmed message)`, or `none` for
"invalid audit message header" -/
def split (line : Str) : Option (Str × Str) :=
  match indexFrom msgToken line 0 with
  | none => none
  | some i =>
    if i < typeTokenLen + 1 then none
    else some ((line.drop typeTokenLen).take (i - 1 - typeTokenLen), trimSpace (line.drop (i + msgToken.length)))

end AM.AuditLine
