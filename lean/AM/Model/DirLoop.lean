import AM.Model.DirReader
/-! `LogDirReader.loopWithError` as a state machine: the files present at start are read one after the other
(each by its own Go routine, whose completion the loop receives), file-system events arrive meanwhile, and
the loop honours an event only once start-up is over. `Dir.startup` is the atomic abstraction of this
phase; `AM.Proofs.C20Loop` shows that the loop reaches exactly that state whatever events arrive early —
and that the guard matters. -/
namespace AM.DirLoop
open AM AM.Dir

/-- when does the loop act on a file-system event?  -/
inductive Guard where
  | namesNil    -- the code: `len(o.initFileNames) == 0`, set to nil when the LAST start-up read has completed
  | allLaunched -- the tempting variant: as soon as the last start-up read has been launched
  deriving DecidableEq, Repr

structure LSt where
  todo     : List Str := []        -- start-up files not yet launched
  inflight : Option Str := none    -- the file being read by the start-up Go routine
  over     : Bool := false         -- `initFileNames` is nil: start-up is over
  w        : World := {}
  deriving Repr

inductive LIn where
  | done                -- the start-up read in flight completes (its lines have all been received)
  | event (op : FsOp)   -- a change of the live log and its event(s)
  | spurious            -- a write event for the live log without a change
  deriving Repr

def linesOf (files : List (Str × Str)) (n : Str) : List Str := (split [] ((aLookup n files).getD [])).1

def start (files : List (Str × Str)) : LSt :=
  let live := (aLookup logPrefix files).getD []
  match sortNames (files.map (·.1)) with
  | [] => { over := true, w := { file := live } }
  | n :: r => { todo := r, inflight := some n, w := { file := live } }

def honoured (g : Guard) (st : LSt) : Bool :=
  match g with
  | .namesNil => st.over
  | .allLaunched => st.todo.isEmpty

def step (g : Guard) (files : List (Str × Str)) (st : LSt) : LIn → LSt
  | .done =>
    match st.inflight with
    | none => st
    | some n =>
      -- the reader Go routine has delivered the file's complete lines; the loop records the live log's offset
      let w1 := { st.w with out := st.w.out ++ linesOf files n }
      let w2 := if n = logPrefix then
          { w1 with rf := { w1.rf with offset := w1.file.length - (split [] w1.file).2.length } } else w1
      match st.todo with
      | [] => { st with inflight := none, over := true, w := w2 }
      | m :: r => { st with inflight := some m, todo := r, w := w2 }
  | .event op => if honoured g st then { st with w := Dir.step st.w op } else st
  | .spurious => if honoured g st then { st with w := Dir.onWrite st.w } else st

def run (g : Guard) (files : List (Str × Str)) (ins : List LIn) : LSt := ins.foldl (step g files) (start files)

/-- a script: `early[k]` spurious events before the k-th start-up read completes, then the changes -/
def script (early : List Nat) (ops : List FsOp) : List LIn :=
  (early.flatMap fun k => List.replicate k LIn.spurious ++ [LIn.done]) ++ ops.map LIn.event

end AM.DirLoop
