import AM.Basic
/-! Model of `NamedPipeIngester.Ingest`: a `bufio.Reader.ReadString(delim)` loop over a byte
stream that arrives in arbitrary chunks, a callback that may fail at its k-th invocation, and
end-of-stream. -/
namespace AM.Pipe
open AM

/-- split off complete records (each WITH its delimiter) from `acc ++ bytes`;
returns (records, pending tail) -/
def records (d : Char) : Str → Str → List Str × Str
  | acc, [] => ([], acc)
  | acc, b :: bs =>
      if b = d then
        let r := records d [] bs
        ((acc ++ [b]) :: r.1, r.2)
      else records d (acc ++ [b]) bs

/-- the same function with a reversed accumulator (linear time); the compiler uses it in place of
`records` by the proved equation `records_eq_fast` -/
def recordsR (d : Char) : Str → Str → List Str × Str
  | racc, [] => ([], racc.reverse)
  | racc, b :: bs =>
      if b = d then
        let r := recordsR d [] bs
        ((b :: racc).reverse :: r.1, r.2)
      else recordsR d (b :: racc) bs

def recordsFast (d : Char) (acc s : Str) : List Str × Str := recordsR d acc.reverse s

theorem recordsR_eq (d : Char) (racc s : Str) : recordsR d racc s = records d racc.reverse s := by
  induction s generalizing racc with
  | nil => simp [recordsR, records]
  | cons b bs ih =>
    simp only [recordsR, records]
    split
    · have := ih []
      simp only [List.reverse_nil] at this
      simp [this]
    · rw [ih]; simp

@[csimp] theorem records_eq_fast : @records = @recordsFast := by
  funext d acc s
  simp [recordsFast, recordsR_eq]

structure PSt where
  pending : Str := []          -- bytes read but not yet terminated
  out     : List Str := []     -- records handed to the callback, in order (the failing call included)
  calls   : Nat := 0
  failed  : Bool := false      -- the callback returned an error: `Ingest` has returned it
  deriving Repr

/-- one invocation of the callback -/
def call (failAt : Option Nat) (st : PSt) (r : Str) : PSt :=
  { st with out := st.out ++ [r], calls := st.calls + 1, failed := decide (failAt = some st.calls) }

def setPending (st : PSt) (p : Str) : PSt := { st with pending := p }

/-- invoke the callback on each record until it fails -/
def deliver (failAt : Option Nat) : PSt → List Str → PSt
  | st, [] => st
  | st, r :: rs => if st.failed then st else deliver failAt (call failAt st r) rs

/-- the reader obtains one more chunk of bytes from the kernel -/
def feed (d : Char) (failAt : Option Nat) (st : PSt) (chunk : Str) : PSt :=
  if st.failed then st else
  deliver failAt (setPending st (records d st.pending chunk).2) (records d st.pending chunk).1

inductive Res where
  | cbError      -- the callback's error, returned unchanged
  | eof          -- end of stream is an error
  deriving DecidableEq, Repr

/-- the whole run: chunks, then the writer closes the pipe -/
def run (d : Char) (failAt : Option Nat) (chunks : List Str) : List Str × Res :=
  let st := chunks.foldl (feed d failAt) {}
  (st.out, if st.failed then .cbError else .eof)

/-- what the property says must be delivered for a byte stream: its delimiter-terminated
records, up to and including the one at which the callback fails -/
def expected (d : Char) (failAt : Option Nat) (stream : Str) : List Str × Res :=
  let recs := (records d [] stream).1
  match failAt with
  | some k => if k < recs.length then (recs.take (k + 1), .cbError) else (recs, .eof)
  | none => (recs, .eof)

def render (o : List Str × Res) : String :=
  String.intercalate ";" (o.1.map (fun r => "D:" ++ toHex r) ++
    [match o.2 with | .cbError => "R:cb" | .eof => "R:eof"])

end AM.Pipe
