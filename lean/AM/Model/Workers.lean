import AM.Gen.Facts
import AM.Gen.Consts
/-! Control automata of the three pipeline workers (`cmd/namedpipe.go`: the two pipe ingesters
and the audit processor) and of the `errgroup` that runs them, at the granularity of their blocking
points. What a worker can do *on its own* in a blocking state — without a writer opening the pipe,
data arriving, a consumer receiving — is decided by the blocking facts that `tools/extract` reads
off the source (`AM.Gen.Facts`): is the open raced against `ctx.Done()`, does a Go routine close the
file on `ctx.Done()`, is each channel send inside a `select` with a `ctx.Done()` arm, does `Read`
cancel and join its Go routines before returning, do the worker functions ever `return nil`.

Runtime assumptions (not provable in any model, exercised by the harness): closing an `os.File`
opened on a FIFO unblocks a pending `Read`; a `select` with a ready `ctx.Done()` arm takes it within
a bounded number of iterations (Go picks uniformly among ready arms); one step takes bounded time. -/
namespace AM.Wk
open AM.Gen

/-- the blocking facts the proofs use -/
structure Facts where
  openRaced    : Bool        -- the FIFO is opened in a Go routine and raced against `ctx.Done()`
  closerOnCtx  : Bool        -- a Go routine closes the file on `ctx.Done()`
  fdCalls      : Nat         -- calls of `(*os.File).Fd()` on the pipe: the descriptor leaves the poller, `Close` no longer interrupts `Read`
  openSelect   : BlockKind   -- the `select` waiting for the open
  auditSend    : BlockKind   -- `AuditLogIngester.Process`: the send of the line
  loginSend    : BlockKind   -- the sshd processor's hand-off of a login (the weakest of its sends)
  readLoop     : BlockKind   -- `Auditd.Read`'s main `select`
  parseLoop    : BlockKind   -- `parseAuditLogs`' `select`
  maintLoop    : BlockKind   -- `maintainReassemblerLoop`'s `select`
  parseDoneCap : Nat         -- capacity of `parseAuditLogsDone`
  readGo       : Nat         -- `go` statements in `Read`
  readGoJoined : Nat         -- … whose body defers `workers.Done()`
  readGoOnCtx  : Nat         -- … started on the derived, cancellable context
  readDefersWait : Bool      -- a deferred function cancels that context and then waits
  nilReturns   : Nat         -- `return … nil` statements in the worker functions
  workers      : Nat         -- `eg.Go` calls
  waitReturned : Bool        -- `RunNamedPipe` returns `eg.Wait()`'s error
  fatalOnError : Bool        -- `main` exits through `log.Fatal*` on a non-nil error
  deriving Repr

def kindsOf (l : List ChanFact) (fn : String) (what : String) : List BlockKind :=
  (l.filter fun c => c.fn == fn && (what == "" || c.what == what)).map (·.kind)

/-- the weakest kind in a list: anything that is not `selCtx` or `nonBlocking` makes it `bare` -/
def weakest (ks : List BlockKind) : BlockKind :=
  if ks.isEmpty then .bare
  else if ks.all (· == .selCtx) then .selCtx
  else if ks.all (fun k => k == .selCtx || k == .nonBlocking) then .nonBlocking
  else .bare

def nilOf (fn : String) : Nat := ((returnsNil.find? (·.1 == fn)).map (·.2)).getD 1

/-- the facts as regenerated from the working tree -/
def fromGen : Facts :=
  { openRaced := ingestOpenRacedWithCtx, closerOnCtx := ingestCloserOnCtx, fdCalls := pipeFdCalls,
    openSelect := weakest (kindsOf recvs "NamedPipeIngester.Ingest" ""),
    auditSend := weakest (kindsOf sends "AuditLogIngester.Process" ""),
    loginSend := weakest (kindsOf sends "processAcceptPublicKeyEntry" "config.logins" ++
                          kindsOf sends "processAcceptedPasswordEntry" "config.logins"),
    readLoop := weakest (kindsOf recvs "Auditd.Read" ""),
    parseLoop := weakest (kindsOf recvs "parseAuditLogs" ""),
    maintLoop := weakest (kindsOf recvs "maintainReassemblerLoop" ""),
    parseDoneCap := Gen.parseDoneCap, readGo := readGoStmts, readGoJoined := Gen.readGoJoined,
    readGoOnCtx := readGoOnWorkersCtx, readDefersWait := readDefersCancelThenWait,
    nilReturns := nilOf "NamedPipeIngester.Ingest" + nilOf "AuditLogIngester.Ingest" + nilOf "SyslogIngester.Ingest" +
                  nilOf "Auditd.Read" + nilOf "parseAuditLogs",
    workers := errgroupWorkers, waitReturned := runReturnsWaitError, fatalOnError := mainFatalOnError }

/-- what the theorems need -/
def Facts.good (f : Facts) : Bool :=
  f.openRaced && f.closerOnCtx && decide (f.fdCalls = 0) && f.openSelect == .selCtx && f.auditSend == .selCtx && f.loginSend == .selCtx &&
  f.readLoop == .selCtx && f.parseLoop == .selCtx && f.maintLoop == .selCtx && decide (1 ≤ f.parseDoneCap) &&
  decide (f.readGoJoined = f.readGo) && decide (f.readGoOnCtx = f.readGo) && f.readDefersWait &&
  decide (f.nilReturns = 0) && decide (f.workers = 3) && f.waitReturned && f.fatalOnError

/-- the facts reduced to what the automata branch on -/
structure Core where
  openOk   : Bool    -- the open is raced against `ctx.Done()`
  closerOk : Bool    -- the file is closed on `ctx.Done()`
  auditOk  : Bool    -- the line send has a `ctx.Done()` arm
  loginOk  : Bool    -- every login hand-off has a `ctx.Done()` arm
  readOk   : Bool    -- `Read`'s select has a `ctx.Done()` arm
  parseOk  : Bool
  maintOk  : Bool
  doneRoom : Bool    -- `parseAuditLogsDone` has room for the parser's result
  joins    : Bool    -- `Read` cancels and waits for its Go routines before returning
  derived  : Bool    -- the Go routines run on the context `Read` cancels
  deriving DecidableEq, Repr

def Facts.core (f : Facts) : Core :=
  { openOk := f.openRaced && f.openSelect == .selCtx, closerOk := f.closerOnCtx && decide (f.fdCalls = 0),
    auditOk := f.auditSend == .selCtx, loginOk := f.loginSend == .selCtx,
    readOk := f.readLoop == .selCtx, parseOk := f.parseLoop == .selCtx, maintOk := f.maintLoop == .selCtx,
    doneRoom := decide (1 ≤ f.parseDoneCap),
    joins := f.readDefersWait && decide (f.readGoJoined = f.readGo),
    derived := decide (f.readGoOnCtx = f.readGo) }

def Core.ok : Core := ⟨true, true, true, true, true, true, true, true, true, true⟩

/-! ### a pipe ingester (`NamedPipeIngester.Ingest` with its callback) -/

inductive Callback where
  | audit     -- hands the line to the audit line buffer
  | sshd      -- processes the line; an accepted login is handed to the correlator (unbuffered)
  deriving DecidableEq, Repr

inductive IPhase where
  | opening                 -- waiting for a writer to open the FIFO
  | reading                 -- blocked reading an idle pipe
  | handing                 -- blocked handing a record downstream
  | returned (err : Bool)   -- `Ingest` has returned (`err`: with a non-nil error)
  deriving DecidableEq, Repr

structure IS where
  ph  : IPhase
  len : Nat                 -- occupancy of the downstream buffer
  deriving DecidableEq, Repr

/-- the steps the ingester can take on its own: no writer, no data, no consumer -/
def istep (f : Core) (cb : Callback) (cancelled : Bool) (cap : Nat) (s : IS) : List IS :=
  match s.ph with
  | .opening =>
    if cancelled && f.openOk then [⟨.returned true, s.len⟩] else []
  | .reading =>
    -- the closer Go routine closes the file; the pending read fails
    if cancelled && f.closerOk then [⟨.returned true, s.len⟩] else []
  | .handing =>
    match cb with
    | .audit =>
      (if s.len < cap then [⟨.reading, s.len + 1⟩] else []) ++
      (if cancelled && f.auditOk then [⟨.returned true, s.len⟩] else [])
    | .sshd =>
      -- the correlator is not receiving; on `ctx.Done()` the processor returns nil and the loop reads on
      if cancelled && f.loginOk then [⟨.reading, s.len⟩] else []
  | .returned _ => []

/-- every maximal sequence of own steps from `s` ends in `returned` within `n` steps -/
def isettles (f : Core) (cb : Callback) (cancelled : Bool) (cap : Nat) : Nat → IS → Bool
  | n, s =>
    match s.ph with
    | .returned _ => true
    | _ =>
      match n with
      | 0 => false
      | n + 1 =>
        let nx := istep f cb cancelled cap s
        !nx.isEmpty && nx.all (isettles f cb cancelled cap n)

/-! ### the audit processor (`Auditd.Read` and its two Go routines) -/

inductive MPhase where
  | selecting     -- in the main `select`
  | failing       -- an error was taken from a channel / a login failed: `Read` is returning it
  | joining       -- deferred: workers' context cancelled, waiting for the Go routines
  | returned
  deriving DecidableEq, Repr

inductive GPhase where
  | idle          -- in its `select`
  | busy          -- processing an item (a line through the reassembler and the correlator)
  | exited
  deriving DecidableEq, Repr

structure RS where
  main    : MPhase
  parser  : GPhase
  maint   : GPhase
  wcancel : Bool      -- the workers' context was cancelled by `Read` itself
  late    : Bool      -- something was delivered after `Read` had returned
  deriving DecidableEq, Repr

/-- does a Go routine of `Read` see its context cancelled -/
def gcancel (f : Core) (cancelled : Bool) (s : RS) : Bool :=
  cancelled || (f.derived && s.wcancel)

def gstep (f : Core) (loopOk : Bool) (cancelled : Bool) (s : RS) (g : GPhase) (sendNeedsRoom : Bool) : List GPhase :=
  match g with
  | .busy => [.idle]
  | .idle =>
    if gcancel f cancelled s && loopOk && (!sendNeedsRoom || f.doneRoom || s.main == .selecting)
    then [.exited] else []
  | .exited => []

/-- own steps of the processor's three Go routines -/
def rstep (f : Core) (cancelled : Bool) (s : RS) : List RS :=
  (match s.main with
   | .selecting => if cancelled && f.readOk then
       [{ s with main := if f.joins then .joining else .returned, wcancel := true }] else []
   | .failing => [{ s with main := if f.joins then .joining else .returned, wcancel := true }]
   | .joining => if s.parser == .exited && s.maint == .exited then [{ s with main := .returned }] else []
   | .returned => []) ++
  ((gstep f f.parseOk cancelled s s.parser true).map fun g =>
     { s with parser := g, late := s.late || (s.main == .returned && s.parser == .busy) }) ++
  ((gstep f f.maintOk cancelled s s.maint false).map fun g =>
     { s with maint := g, late := s.late || (s.main == .returned && s.maint == .busy) })

/-- quiescent: `Read` has returned and none of its Go routines can still deliver -/
def RS.done (s : RS) : Bool := s.main == .returned && s.parser != .busy && s.maint != .busy

/-- every maximal sequence of own steps reaches a state in which `Read` has returned, and nothing is
ever delivered after the return -/
def rsettles (f : Core) (cancelled : Bool) : Nat → RS → Bool
  | n, s =>
    if s.late then false else
    let nx := rstep f cancelled s
    if nx.isEmpty then s.main == .returned else
    match n with
    | 0 => false
    | n + 1 => nx.all (rsettles f cancelled n)

/-! ### the group (`errgroup.WithContext`, `eg.Wait`, `main`) -/

structure Group where
  sshdIng  : IS
  auditIng : IS
  proc     : RS
  parent   : Bool         -- SIGTERM / SIGINT received
  deriving DecidableEq, Repr

/-- the group context is cancelled by the parent or by the first worker that returned an error -/
def Group.cancelled (g : Group) : Bool :=
  g.parent || g.sshdIng.ph == .returned true || g.auditIng.ph == .returned true ||
  g.proc.main == .returned || g.proc.main == .failing || g.proc.main == .joining

/-- the process exit status once all workers have returned: non-zero iff `Wait` yields an error that
`main` turns into `log.Fatal` -/
def exitNonZero (f : Facts) (anyErr : Bool) : Bool := anyErr && f.waitReturned && f.fatalOnError

end AM.Wk
