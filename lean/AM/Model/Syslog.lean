import AM.Model.Sshd
/-! Model of `ingesters/syslog`: `ParseSyslogMessage` (strings.Split / Join / TrimLeft, literally)
and `Process`. -/
namespace AM.Syslog
open AM

/-- `strings.Split(s, " ")` -/
def splitSp : Str → List Str
  | [] => [[]]
  | c :: r =>
    if c = ' ' then [] :: splitSp r
    else match splitSp r with
      | [] => [[c]]
      | h :: t => (c :: h) :: t

/-- `strings.Join(xs, " ")` -/
def joinSp : List Str → Str
  | [] => []
  | [x] => x
  | x :: r => x ++ ' ' :: joinSp r

def trimLeftSp : Str → Str
  | ' ' :: r => trimLeftSp r
  | r => r

/-- `strings.TrimSuffix(entry, "\n")` -/
def trimSuffixNL (x : Str) : Str :=
  match x.getLast? with
  | some '\n' => x.dropLast
  | _ => x

/-- `ParseSyslogMessage`: (PID, message) -/
def parse (entry : Str) : Str × Str :=
  let entry := trimSuffixNL entry
  match splitSp entry with
  | pid :: rest@(_ :: _) => (pid, trimLeftSp (joinSp rest))
  | _ => ([], [])

def process (cfg : Sshd.Cfg) (entry : Str) (ok : Bool) (h : Sshd.Handoff) : Sshd.Out :=
  let (pid, msg) := parse entry
  Sshd.process cfg pid msg ok h

end AM.Syslog
