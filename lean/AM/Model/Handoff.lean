import AM.Model.Tracker
/-! Model of the hand-off between the two pipelines (`cmd/namedpipe.go`): the sshd processor writes
the UserLogin event and then hands the login over the unbuffered `logins` channel; the audit
processor's main loop receives it and calls `RemoteLogin`; its parser Go routine calls `AuditdEvent`.
All of them write to one shared event writer. A schedule is a list of actions; an action that is not
enabled is a no-op, so every list is a schedule. One `Write` call appends one whole event (the
runtime assumption that C10's "no torn line" rests on); the tracker's operations are atomic (C03). -/
namespace AM.HO
open AM AM.Tr

/-- a line of the events output -/
inductive Item where
  | login (l : Login)          -- the UserLogin event of `l`
  | action (em : Emitted)      -- a UserAction event
  deriving DecidableEq, Repr

structure St where
  sshdTodo  : List Login := []             -- accepted logins the sshd thread has still to process
  inflight  : Option Login := none         -- UserLogin written; blocked handing the login over
  auditTodo : List (AEvent × Time) := []   -- events the parser thread has still to hand to the tracker
  tr        : Tr.St := {}
  hist      : List Tr.Op := []             -- ghost: what the tracker executed, in order
  out       : List Item := []
  stopped   : Bool := false                -- the audit processor has returned (an error)
  deriving Repr

inductive Act where
  | sshdWrite          -- the sshd thread writes the UserLogin of its next accepted login
  | sshdWriteFail      -- … the write fails: nothing is written, nothing is handed over
  | handoff            -- the rendezvous on `logins`, followed by `RemoteLogin`
  | sshdCancel         -- the context is cancelled while blocked on the hand-off: the login is dropped
  | audit              -- the parser thread hands its next event to the tracker
  | cleanS (t : Time)  -- stale-data clean-up
  | cleanL (t : Time)
  deriving Repr

/-- apply a tracker operation, append what it emitted to the shared output -/
def track (st : St) (op : Tr.Op) : St :=
  let r := Tr.step st.tr op
  { st with tr := r.1, hist := st.hist ++ [op],
            out := st.out ++ (r.1.out.drop st.tr.out.length).map .action,
            stopped := r.2.isSome }

def step (st : St) : Act → St
  | .sshdWrite =>
    match st.inflight, st.sshdTodo with
    | none, l :: rest => { st with out := st.out ++ [.login l], inflight := some l, sshdTodo := rest }
    | _, _ => st
  | .sshdWriteFail =>
    match st.inflight, st.sshdTodo with
    | none, _ :: rest => { st with sshdTodo := rest }
    | _, _ => st
  | .handoff =>
    match st.inflight with
    | some l => if st.stopped then st else { track st (.remoteLogin l) with inflight := none }
    | none => st
  | .sshdCancel => { st with inflight := none }
  | .audit =>
    match st.auditTodo with
    | (e, now) :: rest => if st.stopped then st else { track st (.audit e now) with auditTodo := rest }
    | [] => st
  | .cleanS t => if st.stopped then st else track st (.cleanSessions t)
  | .cleanL t => if st.stopped then st else track st (.cleanLogins t)

def run (st : St) (sched : List Act) : St := sched.foldl step st

end AM.HO
