import AM.Model.Event
import AM.Gen.Dispatch
/-! Model of `processors/sshd`: `ProcessEntry`, the entry functions, metric increments, the event
write and the hand-off of accepted logins. The regular expressions, the two dispatch tables and
the metric labels are GENERATED from the source (`AM.Gen`); the bodies of the entry functions are
written by hand and validated against the real code by the correspondence runs. -/
namespace AM.Sshd
open AM.Rx AM.Gen

structure Cfg where
  node : Str
  mid  : Str

inductive Handoff where
  | ready    -- the correlator receives; the context is not cancelled
  | cancel   -- nobody receives; the context is cancelled
  deriving DecidableEq, Repr

inductive Eff where
  | inc (method outcome : String)
  | write (e : Ev) (ok : Bool)
  | send (pid : Int) (cred : Str)       -- `Source` of the login is the event just written
  deriving DecidableEq, Repr

inductive Res where
  | nil | err | panic | unmodelled
  deriving DecidableEq, Repr

structure Out where
  effs : List Eff
  res  : Res
  deriving DecidableEq, Repr

/-! ### rendering of values the way `encoding/json` does (invalid UTF-8 ↦ U+FFFD) -/

def jsonCoerceAux : Nat → Str → Str
  | 0, _ => []
  | _, [] => []
  | fuel+1, b :: t =>
    let w := runeWidth (b :: t)
    if w ≤ 1 then
      if b.toNat < 0x80 then b :: jsonCoerceAux fuel t
      else Char.ofNat 0xEF :: Char.ofNat 0xBF :: Char.ofNat 0xBD :: jsonCoerceAux fuel t
    else (b :: t).take w ++ jsonCoerceAux fuel ((b :: t).drop w)

def jsonCoerce (s : Str) : Str := jsonCoerceAux s.length s

/-! ### event templates -/

def target (cfg : Cfg) : SMap := [("host", cfg.node), ("machine-id", cfg.mid)]

def unknown : Str := strOf "unknown"

def loginEv (cfg : Cfg) (outcome : String) (srcValue : Str) (srcExtra subjects : SMap)
    (data : SMap := []) (metaExtra : SMap := []) : Ev :=
  { typ := "UserLogin", outcome := outcome, component := "sshd", srcType := strOf "IP",
    srcValue := srcValue, srcExtra := srcExtra, subjects := subjects, target := target cfg,
    data := data, metaExtra := metaExtra }

/-- `matches[idx]` under `if idx > -1` (absent group ↦ "") -/
def grp (p : Pat) (caps : List Str) (name : String) : Str := (p.group name caps).getD []

def writeOnly (e : Ev) (ok : Bool) : Out := ⟨[.write e ok], if ok then .nil else .err⟩

def writeAndSend (pre : List Eff) (e : Ev) (ok : Bool) (h : Handoff) (pid : Int) (cred : Str) : Out :=
  if !ok then ⟨pre ++ [.write e false], .err⟩ else
  match h with
  | .ready => ⟨pre ++ [.write e true, .send pid cred], .nil⟩
  | .cancel => ⟨pre ++ [.write e true], .nil⟩

def incsOf (fn : String) : List (String × String) := (aLookup fn fnIncs).getD []

def incAt (fn : String) (i : Nat) : List Eff :=
  match (incsOf fn)[i]? with
  | some (m, o) => [.inc m o]
  | none => []

/-- subjects in key order -/
def subj3 (loggedAs pid : Str) : SMap :=
  [("loggedAs", loggedAs), ("pid", pid), ("userID", unknown)]

abbrev EntryFn := Cfg → (pid line : Str) → (ok : Bool) → Handoff → Out

/-- the simple entry functions: match again with the form's expression, write one failed event -/
def simple (p : Pat) (mk : Cfg → Str → List Str → Ev) : EntryFn := fun cfg pid line ok _ =>
  match find p line with
  | none => ⟨[], .nil⟩
  | some (_, _, caps) => writeOnly (mk cfg pid caps) ok

def acceptPublicKey : EntryFn := fun cfg pid line ok h =>
  let fn := "processAcceptPublicKeyEntry"
  match find loginRE line with
  | none => ⟨[], .nil⟩
  | some (_, mlen, caps) =>
    match atoi pid with
    | none => ⟨[], .nil⟩
    | some n =>
      -- `matches[idx]` without a guard: an absent group is an index-out-of-range panic
      match loginRE.group "Username" caps, loginRE.group "Source" caps, loginRE.group "Port" caps,
            loginRE.group "Alg" caps, loginRE.group "SSHKeySum" caps with
      | some user, some src, some port, some alg, some sum =>
        let base := fun (uid : Str) (data : SMap) =>
          loginEv cfg "succeeded" src [("port", port)]
            [("loggedAs", user), ("pid", pid), ("userID", uid)] data
        let noCA : SMap := [("Alg", jsonCoerce alg), ("SSHKeySum", jsonCoerce sum)]
        if line.length = mlen then
          writeAndSend (incAt fn 0) (base unknown noCA) ok h n unknown
        else
          let certStr := line.drop (mlen + 1)
          match find certIDRE certStr with
          | none => writeAndSend (incAt fn 1) (base unknown noCA) ok h n unknown
          | some (_, _, idCaps) =>
            match certIDRE.group "UserID" idCaps, certIDRE.group "Serial" idCaps,
                  certIDRE.group "CA" idCaps with
            | some uid, some serial, some ca =>
              let data : SMap := [("Alg", jsonCoerce alg), ("CA", jsonCoerce ca),
                ("SSHKeySum", jsonCoerce sum), ("Serial", jsonCoerce serial)]
              writeAndSend (incAt fn 2) (base uid data) ok h n uid
            | _, _, _ => ⟨[], .panic⟩
      | _, _, _, _, _ => ⟨[], .panic⟩

def acceptedPassword : EntryFn := fun cfg pid line ok h =>
  match atoi pid with
  | none => ⟨[], .nil⟩
  | some n =>
    match find passwordLoginRE line with
    | none => ⟨[], .nil⟩
    | some (_, _, caps) =>
      let g := grp passwordLoginRE caps
      writeAndSend [] (loginEv cfg "succeeded" (g "Source") [("port", g "Port")]
        (subj3 (g "Username") pid)) ok h n unknown

def certInvalidPrefixLen : Nat := "Certificate invalid: ".length

def certificateInvalid : EntryFn := fun cfg pid line ok _ =>
  let reason := if line.length ≤ certInvalidPrefixLen then strOf "unknown reason"
    else line.drop certInvalidPrefixLen
  let e := loginEv cfg "failed" unknown [("port", unknown)] (subj3 unknown pid)
    [("error", strOf "certificate invalid"), ("reason", jsonCoerce reason)]
  let o := writeOnly e ok
  ⟨incAt "processCertificateInvalidEntry" 0 ++ o.effs, o.res⟩

def invalidUser : EntryFn := fun cfg pid line ok _ =>
  match find invalidUserRE line with
  | none => ⟨[], .nil⟩
  | some (_, _, caps) =>
    match invalidUserRE.group "Username" caps, invalidUserRE.group "Source" caps,
          invalidUserRE.group "Port" caps with
    | some user, some src, some port =>
      let o := writeOnly (loginEv cfg "failed" src [("port", port)] (subj3 user pid)) ok
      ⟨incAt "processInvalidUserEntry" 0 ++ o.effs, o.res⟩
    | _, _, _ => ⟨[], .panic⟩

def userFrom (p : Pat) : EntryFn :=
  simple p fun cfg pid caps =>
    loginEv cfg "failed" (grp p caps "Source") [] (subj3 (grp p caps "Username") pid)

def userShell (p : Pat) : EntryFn :=
  simple p fun cfg pid caps =>
    loginEv cfg "failed" unknown [] (subj3 (grp p caps "Username") pid) []
      [("shell", grp p caps "Shell")]

def srcPort (p : Pat) (loggedAs : List Str → Str) : EntryFn :=
  simple p fun cfg pid caps =>
    loginEv cfg "failed" (grp p caps "Source") [("port", grp p caps "Port")] (subj3 (loggedAs caps) pid)

def dnsForm (p : Pat) : EntryFn :=
  simple p fun cfg pid caps =>
    loginEv cfg "failed" (grp p caps "Source") [("dns", grp p caps "DNSName")] (subj3 unknown pid)

def revokedForm (p : Pat) : EntryFn :=
  simple p fun cfg pid caps =>
    loginEv cfg "failed" unknown []
      [("filePath", grp p caps "FilePath"), ("fingerprint", grp p caps "SSHKeyFingerprint"),
       ("keyType", grp p caps "SSHKeyType"), ("loggedAs", unknown), ("pid", pid), ("userID", unknown)]

def badOwner : EntryFn :=
  simple badOwnerOrModesForHostFileRE fun cfg pid caps =>
    let g := grp badOwnerOrModesForHostFileRE caps
    loginEv cfg "failed" unknown []
      [("filePath", g "FilePath"), ("loggedAs", g "Username"), ("pid", pid), ("userID", unknown)]

/-- the hand-written bodies, by the function names the dispatch tables refer to -/
def entryOf : String → Option EntryFn
  | "processAcceptPublicKeyEntry" => some acceptPublicKey
  | "processAcceptedPasswordEntry" => some acceptedPassword
  | "processCertificateInvalidEntry" => some certificateInvalid
  | "processInvalidUserEntry" => some invalidUser
  | "processNotInAllowUsersEntry" => some (userFrom notInAllowUsersRE)
  | "userNonExistentShell" => some (userShell userNonExistentShellRE)
  | "userNonExecutableShell" => some (userShell userNonExecutableShellRE)
  | "userInDenyUsers" => some (userFrom userInDenyUsersRE)
  | "userNotInAnyGroup" => some (userFrom userNotInAnyGroupRE)
  | "userGroupInDenyGroups" => some (userFrom userGroupInDenyGroupsRE)
  | "userGroupNotListedInAllowGroups" => some (userFrom userGroupNotListedInAllowGroupsRE)
  | "rootLoginRefused" => some (srcPort rootLoginRefusedRE fun _ => strOf "root")
  | "badOwnerOrModesForHostFile" => some badOwner
  | "nastyPTRRecord" => some (dnsForm nastyPTRRecordRE)
  | "reverseMappingCheckFailed" => some (dnsForm reverseMappingCheckFailedRE)
  | "doesNotMapBackToAddr" => some (dnsForm doesNotMapBackToAddrRE)
  | "maxAuthAttemptsExceeded" =>
      some (srcPort maxAuthAttemptsExceededRE fun caps => grp maxAuthAttemptsExceededRE caps "Username")
  | "revokedPublicKeyByFile" => some (revokedForm revokedPublicKeyByFileRE)
  | "revokedPublicKeyByFileErr" => some (revokedForm revokedPublicKeyByFileErrRE)
  | "failedPasswordAuth" =>
      some (srcPort failedPasswordAuthRE fun caps => grp failedPasswordAuthRE caps "Username")
  | _ => none

def _root_.AM.Gen.Cond.holds (c : Cond) (line : Str) : Bool :=
  match c with
  | .pfx s => s.isPrefixOf line
  | .re p => p.isMatch line

/-- first case of a dispatch table whose condition holds -/
def firstCase (t : List DCase) (line : Str) : Option DCase := t.find? fun c => c.cond.holds line

def incEffs (c : DCase) : List Eff := c.incs.map fun mo => .inc mo.1 mo.2

/-- `ProcessEntry` -/
def process (cfg : Cfg) (pid line : Str) (ok : Bool) (h : Handoff) : Out :=
  match firstCase dispatch line with
  | none => ⟨[], .nil⟩
  | some c =>
    if c.fn = "userTypeLogAuditFn()" then
      match firstCase userDispatch line with
      | none => ⟨incEffs c, .nil⟩
      | some u =>
        match entryOf u.fn with
        | none => ⟨incEffs c, .unmodelled⟩
        | some f => let o := f cfg pid line ok h; ⟨incEffs c ++ incEffs u ++ o.effs, o.res⟩
    else
      match entryOf c.fn with
      | none => ⟨incEffs c, .unmodelled⟩
      | some f => let o := f cfg pid line ok h; ⟨incEffs c ++ o.effs, o.res⟩

/-! ### canonical rendering (line protocol) -/

def Eff.render : Eff → String
  | .inc m o => s!"I:{m}:{o}"
  | .write e ok => s!"W:{if ok then "ok" else "fail"}:{e.render}"
  | .send pid cred => s!"S:{pid}:{toHex cred}"

def Res.render : Res → String
  | .nil => "R:nil" | .err => "R:err" | .panic => "R:panic" | .unmodelled => "R:unmodelled"

def Out.render (o : Out) : String :=
  String.intercalate ";" (o.effs.map Eff.render ++ [o.res.render])

end AM.Sshd
