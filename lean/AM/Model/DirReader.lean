import AM.Model.Pipe
/-! Model of `processors/auditd/dirreader`: `sortLogNamesOldToNew`, the initial read of the files
present at start, and `rotatingFile.read` on the file-system events of the live log — on one
in-memory file, each event being processed before the next change (the property's proviso). -/
namespace AM.Dir
open AM AM.Pipe

def NL : Char := '\n'

/-- complete lines (without the newline) and the pending partial line of `acc ++ bs` -/
def split (acc bs : Str) : List Str × Str :=
  let r := records NL acc bs
  (r.1.map List.dropLast, r.2)

/-! ### start-up order -/

def maxU64 : Nat := 18446744073709551615

/-- `strconv.ParseUint(s, 10, 64)`: digits only, non-empty, value ≤ 2^64-1 -/
def parseUint (s : Str) : Option Nat :=
  if s.isEmpty || !s.all Char.isDigit then none else
  let n := s.foldl (fun acc c => acc * 10 + (c.toNat - 48)) 0
  if n ≤ maxU64 then some n else none

def logPrefix : Str := "audit.log".toList

/-- `logRotationNumber`: 0 for the live log, N for `audit.log.N`, 2^64-1 for anything else -/
def rotationNumber (name : Str) : Nat :=
  let suffix := if logPrefix.isPrefixOf name then name.drop logPrefix.length else name
  if suffix.isEmpty then 0 else
  match suffix with
  | '.' :: rest => (parseUint rest).getD maxU64
  | _ => maxU64

def strLe : Str → Str → Bool
  | [], _ => true
  | _ :: _, [] => false
  | a :: as, b :: bs => a.toNat < b.toNat || (a == b && strLe as bs)

/-- `a` is read no later than `b`: larger rotation number first, ties by name, descending -/
def before (a b : Str) : Bool :=
  rotationNumber a > rotationNumber b || (rotationNumber a == rotationNumber b && strLe b a)

/-- `sortLogNamesOldToNew` on the names of the non-directory entries -/
def sortNames (names : List Str) : List Str :=
  (names.filter fun n => logPrefix.isPrefixOf n).mergeSort before

/-! ### the live file -/

structure RF where
  offset : Nat := 0
  lastSz : Nat := 0
  deriving Repr, DecidableEq

structure World where
  file : Str := []          -- content of <dir>/audit.log
  rf   : RF := {}
  out  : List Str := []     -- lines received from `Lines()`
  deriving Repr

/-- `rotatingFile.read` on a Write event -/
def onWrite (w : World) : World :=
  let sz := w.file.length
  let off := if sz < w.rf.lastSz || sz < w.rf.offset then 0 else w.rf.offset
  let data := w.file.drop off
  let r := split [] data
  { w with rf := { offset := off + (data.length - r.2.length), lastSz := sz }, out := w.out ++ r.1 }

/-- `rotatingFile.read` on a Write event when the first `Read` fails (a transient I/O error): the size was taken and
recorded, the offset was reset if the file shrank, nothing was delivered and the offset did not advance -/
def onWriteFailed (w : World) : World :=
  let sz := w.file.length
  let off := if sz < w.rf.lastSz || sz < w.rf.offset then 0 else w.rf.offset
  { w with rf := { offset := off, lastSz := sz } }

inductive FsOp where
  | append (bs : Str)     -- appended bytes (possibly a partial line), then its Write event
  | rotate                -- rename audit.log away (Rename), create an empty audit.log (Create)
  | truncate              -- truncate to zero length, then its Write event
  deriving Repr

def step (w : World) : FsOp → World
  | .append bs => onWrite { w with file := w.file ++ bs }
  | .rotate => { w with file := [], rf := { w.rf with offset := 0 } }
  | .truncate => onWrite { w with file := [] }

/-- start-up: the files present, read oldest first; the live file's offset is the number of bytes of
its complete lines; `lastSz` stays 0 -/
def startup (files : List (Str × Str)) : World :=
  let order := sortNames (files.map (·.1))
  let lines := order.flatMap fun n => (split [] ((aLookup n files).getD [])).1
  let live := (aLookup logPrefix files).getD []
  { file := live, rf := { offset := live.length - (split [] live).2.length, lastSz := 0 }, out := lines }

/-- specification: a line buffer that forgets the partial line on rotation / truncation -/
def spec : Str → List FsOp → List Str
  | _, [] => []
  | p, .append bs :: r => (split p bs).1 ++ spec (split p bs).2 r
  | _, .rotate :: r => spec [] r
  | _, .truncate :: r => spec [] r

def run (files : List (Str × Str)) (ops : List FsOp) : List Str := (ops.foldl step (startup files)).out

/-- what the property prescribes: the complete lines of the initial files, oldest rotation first,
then the lines completed in the live file, once, in order -/
def expected (files : List (Str × Str)) (ops : List FsOp) : List Str :=
  let order := sortNames (files.map (·.1))
  (order.flatMap fun n => (split [] ((aLookup n files).getD [])).1) ++
    spec (split [] ((aLookup logPrefix files).getD [])).2 ops

def render (o : List Str) : String :=
  if o.isEmpty then "none" else String.intercalate ";" (o.map toHex)

end AM.Dir
