import AM.Model.Event
/-! Sequential model of `processors/auditd/sessiontracker` (`RemoteLogin`, `AuditdEvent`, the two
cleanup methods, `toAuditEvent`, `writeAndClearCache`) with Go-map semantics as association lists,
a logical clock, and a write oracle (the k-th write fails) with the exact partial effects. The
four operations are atomic with respect to each other (the tracker mutex; `Model.Conc` proves
what that buys for concurrent callers). -/
namespace AM.Tr
open AM

abbrev Time := Int

inductive EvType where
  | login | credDisp | other
  deriving DecidableEq, Repr

/-- the fields of a coalesced audit event that the tracker reads -/
structure AEvent where
  ts     : Time             -- `Timestamp` (unique per event in generated histories: doubles as a tag)
  ses    : Str              -- `Session`
  typ    : EvType           -- `Type` (AUDIT_LOGIN / AUDIT_CRED_DISP / anything else)
  pidTok : Str              -- `Process.PID`
  result : Str              -- `Result`
  action : Str
  how    : Str
  object : Str              -- type, primary, secondary joined by NUL
  args   : List Str         -- `Process.Args`
  deriving DecidableEq, Repr

/-- a `common.RemoteUserLogin`; the identity content is what `Source` carries -/
structure Login where
  pid       : Int
  cred      : Str
  hasSource : Bool          -- `Source != nil`
  subjects  : SMap
  srcType   : Str
  srcValue  : Str
  srcExtra  : SMap
  target    : SMap
  loggedAt  : Time          -- `Source.LoggedAt`
  deriving DecidableEq, Repr

def Login.valid (l : Login) : Bool := l.hasSource && l.pid > 0 && !l.cred.isEmpty

structure User where
  added  : Time
  srcPID : Int
  login  : Option Login     -- `hasRUL` / `login`
  cached : List AEvent
  deriving DecidableEq, Repr

/-- a UserAction that reached the encoder successfully -/
structure Emitted where
  ev    : AEvent
  login : Login
  deriving DecidableEq, Repr

structure St where
  sessions : List (Str × User) := []
  logins   : List (Int × Login) := []
  out      : List Emitted := []
  writes   : Nat := 0                 -- write attempts so far
  failAt   : Option Nat := none       -- the write attempt that fails
  ambiguous : Bool := false           -- a login matched several sessions (Go map order decides)
  deriving Repr

inductive Op where
  | remoteLogin (l : Login)
  | audit (e : AEvent) (now : Time)
  | cleanSessions (t : Time)
  | cleanLogins (t : Time)
  deriving Repr

inductive Err where
  | badLogin | badPid | write
  deriving DecidableEq, Repr

/-- `writer.Write(u.toAuditEvent(e))`: `(state, succeeded)` -/
def write1 (st : St) (l : Login) (e : AEvent) : St × Bool :=
  if st.failAt = some st.writes then ({ st with writes := st.writes + 1 }, false)
  else ({ st with writes := st.writes + 1, out := st.out ++ [⟨e, l⟩] }, true)

/-- `writeAndClearCache`: writes the events in order, stops at the first failure -/
def writeAll (st : St) (l : Login) : List AEvent → St × Bool
  | [] => (st, true)
  | e :: es =>
    match write1 st l e with
    | (st', true) => writeAll st' l es
    | (st', false) => (st', false)

def hasDisp (es : List AEvent) : Bool := es.any (fun e => e.typ == .credDisp)

def remoteLogin (st : St) (l : Login) : St × Option Err :=
  if !l.valid then (st, some .badLogin) else
  match st.sessions.filter (fun p => p.2.srcPID == l.pid) with
  | (s, u) :: more =>
      let st := { st with ambiguous := st.ambiguous || !more.isEmpty }
      let (st', ok) := writeAll st l u.cached
      -- on failure the cache is kept; the login is attached either way
      let u' : User := { u with login := some l, cached := if ok then [] else u.cached }
      let sessions := if hasDisp u.cached then aErase s st'.sessions else aStore s u' st'.sessions
      ({ st' with sessions := sessions }, if ok then none else some .write)
  | [] => ({ st with logins := aStore l.pid l st.logins }, none)

def audit (st : St) (e : AEvent) (now : Time) : St × Option Err :=
  if e.ses = [] || e.ses = strOf "unset" then (st, none) else
  match aLookup e.ses st.sessions with
  | some u =>
      match u.login with
      | none => ({ st with sessions := aStore e.ses { u with cached := u.cached ++ [e] } st.sessions }, none)
      | some l =>
          let fin := fun (st' : St) (u' : User) =>
            if e.typ = .credDisp then aErase e.ses st'.sessions else aStore e.ses u' st'.sessions
          match writeAll st l u.cached with
          | (st', false) => ({ st' with sessions := fin st' u }, some .write)
          | (st', true) =>
            let u' := { u with cached := [] }
            match write1 st' l e with
            | (st'', okw) => ({ st'' with sessions := fin st'' u' }, if okw then none else some .write)
  | none =>
      if e.typ ≠ .login then (st, none) else
      match atoi e.pidTok with
      | none => (st, some .badPid)
      | some p =>
          match aLookup p st.logins with
          | some l =>
              let st1 := { st with logins := aErase p st.logins,
                                   sessions := aStore e.ses ⟨now, p, some l, []⟩ st.sessions }
              match write1 st1 l e with
              | (st2, okw) => (st2, if okw then none else some .write)
          | none => ({ st with sessions := aStore e.ses ⟨now, p, none, [e]⟩ st.sessions }, none)

def step (st : St) : Op → St × Option Err
  | .remoteLogin l => remoteLogin st l
  | .audit e now => audit st e now
  | .cleanSessions t =>
      ({ st with sessions := st.sessions.filter (fun p => !(p.2.login.isNone && p.2.added < t)) }, none)
  | .cleanLogins t => ({ st with logins := st.logins.filter (fun p => !(p.2.loggedAt < t)) }, none)

/-- the processor stops at the first error -/
def run : St → List Op → St × Option Err
  | st, [] => (st, none)
  | st, op :: ops =>
      match step st op with
      | (st', none) => run st' ops
      | (st', some e) => (st', some e)

/-! ### `toAuditEvent` (C14) -/

def nul : Str := [Char.ofNat 0]

def joinNul : List Str → Str
  | [] => []
  | [x] => x
  | x :: r => x ++ nul ++ joinNul r

/-- the UserAction rendered from a login and a coalesced event: the event proper, its auditId and
its timestamp -/
def toAuditEvent (l : Login) (e : AEvent) : Ev × Str × Time :=
  ({ typ := "UserAction",
     outcome := if e.result = strOf "success" then "succeeded" else "failed",
     component := "auditd",
     srcType := l.srcType, srcValue := l.srcValue, srcExtra := l.srcExtra,
     subjects := l.subjects, target := l.target, data := [],
     metaExtra := [("action", e.action), ("how", e.how), ("object", e.object)] ++
       (if e.args.isEmpty then [] else [("process_args", joinNul e.args)]) },
   e.ses, e.ts)

def Emitted.render (em : Emitted) : String :=
  let (ev, aid, ts) := toAuditEvent em.login em.ev
  s!"A:{ev.render}|{toHex aid}|{ts}"

end AM.Tr
