import AM.Gen.Consts
import AM.Model.Tracker
/-! Model of the audit processor (`processors/auditd/auditd.go`, `reassembler_callback.go`) around
the session tracker: `parseAuditLogs` (empty lines skipped, a rejected line stops the parser with an
error naming it), go-libaudit's `Reassembler` (`eventList.Put` / `CleanUp` / `Clear`, modelled from
its source), `reassemblerCB.ReassemblyComplete` (coalesce, `After` filter, `AuditdEvent`, the
non-blocking send into the one-slot error channel) and the `select` loop of `Auditd.Read`
(logins, the error channels, cancellation; `reassembler.Close()` flushes what is in flight when
`Read` returns).

The three Go routines are sequentialised: one input list, the main loop looks at its error
channels where the list says `poll` (the harness makes it do so after every input). `auparse` and
`aucoalesce` are abstract: a line comes with what `ParseLogLine` makes of it, and `coalesce` is the
small function below over the fields the tracker reads. Ghost fields (`pushed`, `delivered`,
`handed`, `cbErrs`, `forced`) record the history so that the property can be stated. -/
namespace AM.AP
open AM AM.Tr

/-- how a record type takes part in reassembly (`event.Add`, `eventList.Put`) -/
inductive Kind where
  | single    -- type ≤ AUDIT_LAST_DAEMON or ≥ AUDIT_ANOM_LOGIN_FAILURES: appended, completes the event
  | syscall   -- AUDIT_SYSCALL: appended
  | execve    -- AUDIT_EXECVE: appended
  | part      -- any other kernel record (CWD, PATH, …): appended
  | title     -- AUDIT_PROCTITLE: appended, completes the event
  | eoe       -- AUDIT_EOE: not appended; completes the event if it is in flight
  deriving DecidableEq, Repr

/-- what `auparse.ParseLogLine` makes of an accepted line, reduced to what is used downstream -/
structure Rec where
  seq    : Nat
  kind   : Kind
  tag    : Nat           -- position of the line in the stream (identifies the record)
  ts     : Time
  typ    : EvType
  ses    : Str
  pidTok : Str
  result : Str
  args   : List Str      -- EXECVE arguments
  deriving DecidableEq, Repr

structure Entry where
  msgs     : List Rec
  complete : Bool
  deriving DecidableEq, Repr

def completes (k : Kind) : Bool := k == .single || k == .title

/-- `eventList.Put`: the in-flight table as a list sorted by sequence number -/
def put : List (Nat × Entry) → Rec → List (Nat × Entry)
  | [], r => if r.kind = .eoe then [] else [(r.seq, ⟨[r], completes r.kind⟩)]
  | (s, e) :: rest, r =>
    if r.seq = s then
      (if r.kind = .eoe then (s, { e with complete := true })
       else (s, ⟨e.msgs ++ [r], e.complete || completes r.kind⟩)) :: rest
    else if r.seq < s then
      (if r.kind = .eoe then (s, e) :: rest else (r.seq, ⟨[r], completes r.kind⟩) :: (s, e) :: rest)
    else (s, e) :: put rest r

/-- `eventList.CleanUp`: evict from the head while the head is complete, the table is over its
size, or the head has expired. Returns the remaining table, the evicted groups and whether an
incomplete event was evicted. -/
def cleanUp (max : Nat) (expired : Bool) : List (Nat × Entry) → List (Nat × Entry) × List (List Rec) × Bool
  | [] => ([], [], false)
  | (s, e) :: rest =>
    if e.complete || decide (rest.length + 1 > max) || expired then
      let (fl, out, forced) := cleanUp max expired rest
      (fl, e.msgs :: out, forced || !e.complete)
    else ((s, e) :: rest, [], false)

/-- `eventList.Clear` (on `Close`) -/
def clear (fl : List (Nat × Entry)) : List (List Rec) := fl.map (·.2.msgs)

/-- `aucoalesce.CoalesceMessages`, reduced to the fields the tracker reads. `none` is the error
return ("messages is empty"). Type and time stamp come from the first record unless that is the
SYSCALL record; session, PID and result from the SYSCALL record if there is one, else from the
first; the arguments from the last EXECVE record. -/
def coalesce (g : List Rec) : Option AEvent :=
  match g with
  | [] => none
  | [m] => some ⟨m.ts, m.ses, m.typ, m.pidTok, m.result, [], [], [], []⟩   -- `normalizeSimple`: no EXECVE handling
  | m :: rest =>
    let special : Option Rec := if m.kind = .syscall then none else some m
    let sysc : Option Rec := if m.kind = .syscall then some m else rest.find? (·.kind = .syscall)
    let tl := special.getD (sysc.getD m)
    let dl := sysc.getD m
    let ex := (g.filter (·.kind = .execve)).getLast?
    some ⟨tl.ts, dl.ses, tl.typ, dl.pidTok, dl.result, [], [], [],
          match ex with | some x => x.args | none => []⟩

inductive PErr where
  | parse (line : Str)        -- `parseAuditLogsError`, carries the offending line
  | coalesce                  -- `reassemblerCBError` around a coalesce failure
  | cb (e : Tr.Err)           -- `reassemblerCBError` around the correlator's error
  | login (e : Tr.Err)        -- "failed to handle remote user login"
  | ctx                       -- the context's error
  deriving DecidableEq, Repr

structure St where
  tr        : Tr.St := {}
  fl        : List (Nat × Entry) := []
  slot      : Option PErr := none        -- `reassemblerErrors` (capacity 1)
  parserErr : Option PErr := none        -- `parseAuditLogsDone` (the parser has returned)
  clock     : Nat := 0                   -- one tick per callback (the tracker's `now`)
  -- ghost history
  pushed    : List Rec := []             -- records handed to `PushMessage`, in order
  delivered : List (List Rec) := []      -- groups handed to `ReassemblyComplete`, in order
  handed    : List AEvent := []          -- events handed to the correlator, in order
  cbErrs    : List PErr := []            -- every error the callback produced, in order
  trHist    : List Tr.Op := []           -- every operation the correlator was asked to perform, in order
  forced    : Bool := false              -- an incomplete event was evicted (overflow / expiry)

/-- the non-blocking send into the one-slot error channel (dropped when the slot is taken) -/
def noteErr (st : St) (e : PErr) : St :=
  { st with slot := st.slot.orElse (fun _ => some e), cbErrs := st.cbErrs ++ [e] }

/-- `ReassemblyComplete` -/
def callback (after : Time) (st : St) (g : List Rec) : St :=
  let st := { st with delivered := st.delivered ++ [g] }
  match coalesce g with
  | none => noteErr st .coalesce
  | some ev =>
    if ev.ts < after then st else
    let r := Tr.audit st.tr ev st.clock
    let st := { st with tr := r.1, clock := st.clock + 1, handed := st.handed ++ [ev],
                        trHist := st.trHist ++ [.audit ev st.clock] }
    match r.2 with
    | none => st
    | some e => noteErr st (.cb e)

inductive In where
  | line (raw : Str) (p : Option Rec)   -- a non-empty line and what the parser makes of it
  | empty                               -- an empty line
  | login (l : Login)
  | tick (t : Time)                     -- the stale-data ticker fired; `t` is the cut-off
  | expire                              -- everything in flight has timed out and `Maintain` runs
  | poll                                -- the main loop looks at its error channels
  | cancel                              -- the context is cancelled
  deriving Repr

structure Cfg where
  max   : Nat := AM.Gen.maxEventsInFlight   -- regenerated from `auditd.go`
  after : Time := 0

/-- `PushMessage`: `Put`, `CleanUp`, callbacks in eviction order -/
def push (c : Cfg) (st : St) (r : Rec) : St :=
  let (fl, out, forced) := cleanUp c.max false (put st.fl r)
  out.foldl (callback c.after) { st with fl := fl, pushed := st.pushed ++ [r], forced := st.forced || forced }

/-- `Read` returns: the deferred `reassembler.Close()` flushes the table through the callback -/
def close (c : Cfg) (st : St) : St :=
  (clear st.fl).foldl (callback c.after) { st with fl := [] }

/-- one input; `some e` = `Read` returns `e` -/
def stepIn (c : Cfg) (st : St) : In → St × Option PErr
  | .line raw p =>
    if st.parserErr.isSome then (st, none) else    -- nobody receives from the channel any more
    match p with
    | none => ({ st with parserErr := some (.parse raw) }, none)
    | some r => (push c st r, none)
  | .empty => (st, none)
  | .login l =>
    let (tr', err) := Tr.remoteLogin st.tr l
    ({ st with tr := tr', trHist := st.trHist ++ [.remoteLogin l] }, err.map .login)
  | .tick t =>
    let tr1 := (Tr.step st.tr (.cleanSessions t)).1
    ({ st with tr := (Tr.step tr1 (.cleanLogins t)).1,
               trHist := st.trHist ++ [.cleanSessions t, .cleanLogins t] }, none)
  | .expire =>
    let (fl, out, forced) := cleanUp c.max true st.fl
    (out.foldl (callback c.after) { st with fl := fl, forced := st.forced || forced }, none)
  | .poll =>
    match st.parserErr, st.slot with
    | some e, _ => (st, some e)
    | none, some e => ({ st with slot := none }, some e)
    | none, none => (st, none)
  | .cancel => (st, some .ctx)

/-- the run up to the point where `Read` decides to return: the state there, `Read`'s result
(`none` = still running when the inputs end) and the number of inputs consumed -/
def runCore (c : Cfg) : St → List In → St × Option PErr × Nat
  | st, [] => (st, none, 0)
  | st, i :: rest =>
    match stepIn c st i with
    | (st', some e) => (st', some e, 1)
    | (st', none) => ((runCore c st' rest).1, (runCore c st' rest).2.1, (runCore c st' rest).2.2 + 1)

/-- the whole run: when `Read` returns, the deferred `Close` flushes the table -/
def run (c : Cfg) (st : St) (ins : List In) : St × Option PErr × Nat :=
  match runCore c st ins with
  | (s, some e, k) => (close c s, some e, k)
  | (s, none, k) => (s, none, k)

/-- the inputs with the main loop looking at its channels after every one of them -/
def polled : List In → List In
  | [] => []
  | i :: rest => i :: .poll :: polled rest

end AM.AP
