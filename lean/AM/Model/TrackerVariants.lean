import AM.Model.Tracker
/-! The session tracker with three knobs, each a change that reads as an improvement and was made — independently —
by people asked to break the properties without failing the test suite. At the code's setting (`Variant.code`) the
parametrised step IS the model's step (`AM.Proofs.C09Variants.stepV_code`); every other setting of a knob breaks a
property on a concrete history (`decide`d there). The knobs document why the code's choice is the one the theorems
are about. -/
namespace AM.TrV
open AM AM.Tr

structure Variant where
  endByLast    : Bool := false   -- a released hold queue ends the session only if its LAST event is the credential disposal
  keepParked   : Bool := false   -- a newer login does not replace one still waiting under the same PID (`LoadOrStore`)
  stampByEvent : Bool := false   -- a new session's age is its LOGIN record's time stamp, not the time it was processed
  deriving DecidableEq, Repr

def Variant.code : Variant := {}

def hasDispV (v : Variant) (es : List AEvent) : Bool :=
  if v.endByLast then (es.getLast?.map fun e => e.typ == .credDisp).getD false else hasDisp es

def remoteLoginV (v : Variant) (st : St) (l : Login) : St × Option Err :=
  if !l.valid then (st, some .badLogin) else
  match st.sessions.filter (fun p => p.2.srcPID == l.pid) with
  | (s, u) :: more =>
      let st := { st with ambiguous := st.ambiguous || !more.isEmpty }
      let (st', ok) := writeAll st l u.cached
      let u' : User := { u with login := some l, cached := if ok then [] else u.cached }
      let sessions := if hasDispV v u.cached then aErase s st'.sessions else aStore s u' st'.sessions
      ({ st' with sessions := sessions }, if ok then none else some .write)
  | [] =>
      if v.keepParked && (aLookup l.pid st.logins).isSome then (st, none)
      else ({ st with logins := aStore l.pid l st.logins }, none)

def auditV (v : Variant) (st : St) (e : AEvent) (now : Time) : St × Option Err :=
  if e.ses = [] || e.ses = strOf "unset" then (st, none) else
  match aLookup e.ses st.sessions with
  | some u =>
      match u.login with
      | none => ({ st with sessions := aStore e.ses { u with cached := u.cached ++ [e] } st.sessions }, none)
      | some l =>
          let fin := fun (st' : St) (u' : User) =>
            if e.typ = .credDisp then aErase e.ses st'.sessions else aStore e.ses u' st'.sessions
          match writeAll st l u.cached with
          | (st', false) => ({ st' with sessions := fin st' u }, some .write)
          | (st', true) =>
            let u' := { u with cached := [] }
            match write1 st' l e with
            | (st'', okw) => ({ st'' with sessions := fin st'' u' }, if okw then none else some .write)
  | none =>
      if e.typ ≠ .login then (st, none) else
      match atoi e.pidTok with
      | none => (st, some .badPid)
      | some p =>
          let born := if v.stampByEvent then e.ts else now
          match aLookup p st.logins with
          | some l =>
              let st1 := { st with logins := aErase p st.logins,
                                   sessions := aStore e.ses ⟨born, p, some l, []⟩ st.sessions }
              match write1 st1 l e with
              | (st2, okw) => (st2, if okw then none else some .write)
          | none => ({ st with sessions := aStore e.ses ⟨born, p, none, [e]⟩ st.sessions }, none)

def stepV (v : Variant) (st : St) : Op → St × Option Err
  | .remoteLogin l => remoteLoginV v st l
  | .audit e now => auditV v st e now
  | .cleanSessions t =>
      ({ st with sessions := st.sessions.filter (fun p => !(p.2.login.isNone && p.2.added < t)) }, none)
  | .cleanLogins t => ({ st with logins := st.logins.filter (fun p => !(p.2.loggedAt < t)) }, none)

def runV (v : Variant) : St → List Op → St × Option Err
  | st, [] => (st, none)
  | st, op :: ops =>
      match stepV v st op with
      | (st', none) => runV v st' ops
      | (st', some e) => (st', some e)

/-- what was emitted: (time stamp of the event, credential of the login it is attributed to) -/
def emitted (v : Variant) (h : List Op) : List (Time × Str) :=
  (runV v {} h).1.out.map fun em => (em.ev.ts, em.login.cred)

end AM.TrV
