import AM.Basic
/-! Model of `internal/health`: the readiness map as a fold over the registration log, the status
map and the HTTP answer of `readyzHandler`, `IsReady`. -/
namespace AM.Health
open AM

inductive Op where
  | add (c : Str)       -- AddReadiness
  | ready (c : Str)     -- OnReady
  deriving DecidableEq, Repr

abbrev M := List (Str × Bool)

def apply (m : M) : Op → M
  | .add c => aStore c false m
  | .ready c => aStore c true m

def fold (log : List Op) : M := log.foldl apply []

def overallKey : Str := "overall".toList
def ok : Str := "ok".toList
def notReady : Str := "not-ready".toList

def isReady (m : M) : Bool := m.all (·.2)

/-- `GetReadyzStatusMap`: every component's status, then the `overall` entry (which overwrites a
component that happens to be called "overall") -/
def statusMap (m : M) : List (Str × Str) :=
  aStore overallKey (if isReady m then ok else notReady)
    (m.map fun kv => (kv.1, if kv.2 then ok else notReady))

/-- HTTP status code and body of the readiness endpoint -/
def respond (m : M) : Nat × List (Str × Str) := (if isReady m then 200 else 503, statusMap m)

/-- canonical rendering: code, then the body sorted by key -/
def insertSorted (kv : Str × Str) : List (Str × Str) → List (Str × Str)
  | [] => [kv]
  | x :: r => if (String.ofList kv.1) ≤ (String.ofList x.1) then kv :: x :: r else x :: insertSorted kv r

def render (r : Nat × List (Str × Str)) : String :=
  let body := r.2.foldr insertSorted []
  s!"{r.1}:" ++ String.intercalate "," (body.map fun kv => toHex kv.1 ++ "=" ++ toHex kv.2)

end AM.Health
