import AM.Basic
/-! Model of `internal/health`: the readiness map as a fold over the registration log, the status
map and the HTTP answer of `readyzHandler`, `IsReady`. -/
namespace AM.Health
open AM

inductive Op where
  | add (c : Str)       -- AddReadiness
  | ready (c : Str)     -- OnReady
  deriving DecidableEq, Repr

abbrev M := List (Str × Bool)

def apply (m : M) : Op → M
  | .add c => aStore c false m
  | .ready c => aStore c true m

def fold (log : List Op) : M := log.foldl apply []

def overallKey : Str := "overall".toList
def ok : Str := "ok".toList
def notReady : Str := "not-ready".toList

def isReady (m : M) : Bool := m.all (·.2)

/-- `GetReadyzStatusMap`: every component's status, then the `overall` entry (which overwrites a
component that happens to be called "overall") -/
def statusMap (m : M) : List (Str × Str) :=
  aStore overallKey (if isReady m then ok else notReady)
    (m.map fun kv => (kv.1, if kv.2 then ok else notReady))

/-- HTTP status code and body of the readiness endpoint -/
def respond (m : M) : Nat × List (Str × Str) := (if isReady m then 200 else 503, statusMap m)

/-- canonical rendering: code, then the body sorted by key -/
def insertSorted (kv : Str × Str) : List (Str × Str) → List (Str × Str)
  | [] => [kv]
  | x :: r => if (String.ofList kv.1) ≤ (String.ofList x.1) then kv :: x :: r else x :: insertSorted kv r

def render (r : Nat × List (Str × Str)) : String :=
  let body := r.2.foldr insertSorted []
  s!"{r.1}:" ++ String.intercalate "," (body.map fun kv => toHex kv.1 ++ "=" ++ toHex kv.2)

end AM.Health

/-! ### `WaitForReady`

The waiter Go routine: a `select` between the context's `Done` channel and a ticker; on a tick it asks
`IsReady` and closes the returned channel if every component is ready; on `Done` it SENDS the context's error
on the (unbuffered) channel — a blocking send, so the error waits for the caller however late the caller looks.
Registrations and ready-marks by other Go routines happen in between. -/
namespace AM.Health

inductive WRes where
  | closed    -- the channel was closed: "ready"
  | ctxErr    -- the context's error was handed to the caller
  deriving DecidableEq, Repr

inductive WIn where
  | op (o : Op)     -- another Go routine registers a component / marks one ready
  | tick            -- the ticker fires and the waiter takes that arm
  | cancel          -- the context is cancelled
  | ctxArm          -- the waiter takes the `ctx.Done()` arm (possible only once cancelled)
  deriving DecidableEq, Repr

structure WSt where
  m : M := []
  cancelled : Bool := false
  res : Option WRes := none
  deriving Repr

def wstep (st : WSt) : WIn → WSt
  | .op o => { st with m := apply st.m o }
  | .cancel => { st with cancelled := true }
  | .tick => if st.res.isNone && isReady st.m then { st with res := some .closed } else st
  | .ctxArm => if st.res.isNone && st.cancelled then { st with res := some .ctxErr } else st

def wrun (st : WSt) (ins : List WIn) : WSt := ins.foldl wstep st

/-- the tempting "leak fix" (the error is offered for one tick only, then the channel is closed): after the
`ctx.Done()` arm a tick without a receiver closes the channel — the caller reads "ready" -/
def wstepBounded (st : WSt) : WIn → WSt
  | .op o => { st with m := apply st.m o }
  | .cancel => { st with cancelled := true }
  | .tick => if st.res = some .ctxErr then { st with res := some .closed }
             else if st.res.isNone && isReady st.m then { st with res := some .closed } else st
  | .ctxArm => if st.res.isNone && st.cancelled then { st with res := some .ctxErr } else st

end AM.Health
