import AM.Proofs.TrackerInv
import AM.Proofs.C16
import AM.Proofs.C02
/-! C16 over histories. (A) What the tracker emits is what it holds or is handed: an event that is neither held in
some session's cache nor delivered again is never emitted — so the events of a pending session discarded by a
cleanup are dropped, not emitted late (`dropped_not_late`). (B) A pending session that no cleanup cut-off overtakes
stays, keeps collecting, and is released completely, in order, by its login (`correlated_within_window`). -/
namespace AM.C16H
open AM AM.Tr

/-- `e` sits in some session's cache -/
def held (st : St) (e : AEvent) : Prop := ∃ s u, (s, u) ∈ st.sessions ∧ e ∈ u.cached

theorem held_of_sub {st st' : St} {e : AEvent}
    (h : ∀ s u, (s, u) ∈ st'.sessions → e ∈ u.cached → held st e) : held st' e → held st e := by
  rintro ⟨s, u, hm, he⟩; exact h s u hm he

/-- the new output of a write sequence, with the session table untouched -/
theorem wrote_new {st st' : St} {l : Login} {es : List AEvent} (hw : Wrote st st' l es) :
    st'.sessions = st.sessions ∧ ∃ new, st'.out = st.out ++ new ∧ ∀ em ∈ new, em.ev ∈ es :=
  ⟨hw.sessions, by obtain ⟨new, ho, hn⟩ := hw.out; exact ⟨new, ho, fun em hem => (hn em hem).2⟩⟩

/-- one step: every newly emitted event was held or is the record being delivered; everything held afterwards was
held before or is the record being delivered -/
theorem step_from (st : St) (op : Op) :
    (∃ new, (step st op).1.out = st.out ++ new ∧
      ∀ em ∈ new, held st em.ev ∨ ∃ now, op = .audit em.ev now) ∧
    (∀ e, held (step st op).1 e → held st e ∨ ∃ now, op = .audit e now) := by
  cases op with
  | cleanSessions t =>
    refine ⟨⟨[], by simp [step], by simp⟩, fun e => ?_⟩
    rintro ⟨s, u, hm, he⟩
    exact Or.inl ⟨s, u, (List.mem_filter.mp hm).1, he⟩
  | cleanLogins t =>
    exact ⟨⟨[], by simp [step], by simp⟩, fun e h => Or.inl h⟩
  | remoteLogin l =>
    simp only [step, remoteLogin]
    split
    · exact ⟨⟨[], by simp, by simp⟩, fun e h => Or.inl h⟩
    · split
      · rename_i s0 u0 more hfil
        have hmem0 : (s0, u0) ∈ st.sessions := by
          have : (s0, u0) ∈ st.sessions.filter (fun p => p.2.srcPID == l.pid) := by
            rw [hfil]; exact List.mem_cons_self
          exact (List.mem_filter.mp this).1
        have hw := writeAll_wrote { st with ambiguous := st.ambiguous || !more.isEmpty } l u0.cached
        generalize writeAll { st with ambiguous := st.ambiguous || !more.isEmpty } l u0.cached = r at hw ⊢
        obtain ⟨st', ok⟩ := r
        obtain ⟨hs, new, ho, hn⟩ := wrote_new hw
        simp only at hs ho
        refine ⟨⟨new, ho, fun em hem => Or.inl ⟨s0, u0, hmem0, hn em hem⟩⟩, fun e => ?_⟩
        rintro ⟨s, u, hm, he⟩
        left
        simp only at hm
        split at hm
        · rw [hs] at hm; exact ⟨s, u, (mem_aErase hm).1, he⟩
        · rcases mem_aStore hm with heq | ⟨hm', _⟩
          · cases heq
            simp only at he
            split at he
            · cases he
            · exact ⟨s0, u0, hmem0, he⟩
          · rw [hs] at hm'; exact ⟨s, u, hm', he⟩
      · exact ⟨⟨[], by simp, by simp⟩, fun e h => Or.inl h⟩
  | audit e now =>
    simp only [step, audit]
    split
    · exact ⟨⟨[], by simp, by simp⟩, fun e h => Or.inl h⟩
    · split
      · rename_i u0 hlook
        have hmem0 := aLookup_mem hlook
        split
        · -- cached
          refine ⟨⟨[], by simp, by simp⟩, fun e' => ?_⟩
          rintro ⟨s, u, hm, he⟩
          rcases mem_aStore hm with heq | ⟨hm', _⟩
          · cases heq
            rcases List.mem_append.mp he with he | he
            · exact Or.inl ⟨_, u0, hmem0, he⟩
            · right; exact ⟨now, by rw [List.mem_singleton.mp he]⟩
          · exact Or.inl ⟨s, u, hm', he⟩
        · rename_i l0 hl0
          have hw := writeAll_wrote st l0 u0.cached
          generalize writeAll st l0 u0.cached = r at hw ⊢
          obtain ⟨st', ok⟩ := r
          obtain ⟨hs, new, ho, hn⟩ := wrote_new hw
          simp only at hs ho
          cases ok with
          | false =>
            simp only
            refine ⟨⟨new, ho, fun em hem => Or.inl ⟨_, u0, hmem0, hn em hem⟩⟩, fun e' => ?_⟩
            rintro ⟨s, u, hm, he⟩
            left
            simp only at hm
            split at hm
            · rw [hs] at hm; exact ⟨s, u, (mem_aErase hm).1, he⟩
            · rcases mem_aStore hm with heq | ⟨hm', _⟩
              · cases heq; exact ⟨_, u0, hmem0, he⟩
              · rw [hs] at hm'; exact ⟨s, u, hm', he⟩
          | true =>
            simp only
            have hw2 := write1_wrote st' l0 e
            generalize write1 st' l0 e = r2 at hw2 ⊢
            obtain ⟨st'', okw⟩ := r2
            obtain ⟨hs2, new2, ho2, hn2⟩ := wrote_new hw2
            simp only at hs2 ho2
            refine ⟨⟨new ++ new2, by rw [ho2, ho, List.append_assoc], fun em hem => ?_⟩, fun e' => ?_⟩
            · rcases List.mem_append.mp hem with hem | hem
              · exact Or.inl ⟨_, u0, hmem0, hn em hem⟩
              · right; exact ⟨now, by rw [List.mem_singleton.mp (hn2 em hem)]⟩
            · rintro ⟨s, u, hm, he⟩
              left
              simp only at hm
              split at hm
              · rw [hs2, hs] at hm; exact ⟨s, u, (mem_aErase hm).1, he⟩
              · rcases mem_aStore hm with heq | ⟨hm', _⟩
                · cases heq; cases he
                · rw [hs2, hs] at hm'; exact ⟨s, u, hm', he⟩
      · split
        · exact ⟨⟨[], by simp, by simp⟩, fun e h => Or.inl h⟩
        · split
          · exact ⟨⟨[], by simp, by simp⟩, fun e h => Or.inl h⟩
          · rename_i p hp
            split
            · rename_i l0 hl0
              generalize hst1 : ({ st with
                logins := aErase p st.logins
                sessions := aStore e.ses ⟨now, p, some l0, []⟩ st.sessions } : St) = st1
              have ho1 : st1.out = st.out := by rw [← hst1]
              have hs1 : st1.sessions = aStore e.ses ⟨now, p, some l0, []⟩ st.sessions := by rw [← hst1]
              have hw := write1_wrote st1 l0 e
              generalize write1 st1 l0 e = r at hw ⊢
              obtain ⟨st2, okw⟩ := r
              obtain ⟨hs, new, ho, hn⟩ := wrote_new hw
              simp only at hs ho
              refine ⟨⟨new, by rw [← ho1]; exact ho, fun em hem => ?_⟩, fun e' => ?_⟩
              · right; exact ⟨now, by rw [List.mem_singleton.mp (hn em hem)]⟩
              · rintro ⟨s, u, hm, he⟩
                simp only at hm
                rw [hs, hs1] at hm
                rcases mem_aStore hm with heq | ⟨hm', _⟩
                · cases heq; cases he
                · exact Or.inl ⟨s, u, hm', he⟩
            · refine ⟨⟨[], by simp, by simp⟩, fun e' => ?_⟩
              rintro ⟨s, u, hm, he⟩
              rcases mem_aStore hm with heq | ⟨hm', _⟩
              · cases heq
                right; exact ⟨now, by rw [List.mem_singleton.mp he]⟩
              · exact Or.inl ⟨s, u, hm', he⟩

/-- `e` is delivered by one of the operations -/
def delivered (ops : List Op) (e : AEvent) : Prop := ∃ now, Op.audit e now ∈ ops

/-- **Neither held nor delivered: never emitted.** -/
theorem never_late (ops : List Op) : ∀ (st : St) (e : AEvent), ¬ held st e → ¬ delivered ops e →
    ∀ em ∈ (run st ops).1.out, em.ev = e → em ∈ st.out := by
  induction ops with
  | nil => intro st e _ _ em hem _; simpa [run] using hem
  | cons op ops ih =>
    intro st e hnh hnd em hem hev
    obtain ⟨⟨new, ho, hn⟩, hh⟩ := step_from st op
    have hnd1 : ¬ ∃ now, op = .audit e now := by
      rintro ⟨now, rfl⟩; exact hnd ⟨now, List.mem_cons_self⟩
    have hin : em ∈ (step st op).1.out → em ∈ st.out := by
      intro h
      rw [ho] at h
      rcases List.mem_append.mp h with h | h
      · exact h
      · rcases hn em h with h1 | h1
        · rw [hev] at h1; exact absurd h1 hnh
        · rw [hev] at h1; exact absurd h1 hnd1
    simp only [run] at hem
    generalize hs : step st op = r at hem hin hh
    obtain ⟨st', er⟩ := r
    cases er with
    | none =>
      simp only at hem
      have hnh' : ¬ held st' e := fun h => by
        rcases hh e h with h1 | h1
        · exact hnh h1
        · exact hnd1 h1
      have hnd' : ¬ delivered ops e := fun ⟨now, h⟩ => hnd ⟨now, List.mem_cons_of_mem _ h⟩
      exact hin (ih st' e hnh' hnd' em hem hev)
    | some x => exact hin hem

/-- **Dropped, not emitted late**: a pending session older than the cut-off is discarded by the cleanup, and — in a
state where a cached event is held by its own session only (`Inv`) — none of its held events is emitted afterwards,
whatever follows, unless the very same record is delivered again. -/
theorem dropped_not_late (h : List Op) (st : St) (hi : Inv h st) (s : Str) (u : User) (t : Time)
    (hm : (s, u) ∈ st.sessions) (hnone : u.login = none) (hold : u.added < t)
    (e : AEvent) (he : e ∈ u.cached) (ops : List Op) (hnd : ¬ delivered ops e) :
    ∀ em ∈ (run (step st (.cleanSessions t)).1 ops).1.out, em.ev = e → em ∈ st.out := by
  have hnh : ¬ held (step st (.cleanSessions t)).1 e := by
    rintro ⟨s', u', hm', he'⟩
    have hm0 := (List.mem_filter.mp hm').1
    have hs' : e.ses = s' := (hi.cachedOk s' u' e hm0 he').1
    have hs : e.ses = s := (hi.cachedOk s u e hm he).1
    have hss : s' = s := hs'.symm.trans hs
    subst hss
    have huu : u' = u := by
      have h1 := aLookup_of_mem hi.uniqS hm0
      have h2 := aLookup_of_mem hi.uniqS hm
      rw [h1] at h2; exact Option.some.inj h2
    subst huu
    have := (List.mem_filter.mp hm').2
    simp [hnone, hold] at this
  intro em hem hev
  have := never_late ops _ e hnh hnd em hem hev
  simpa [step] using this


/-! ### (B) kept within the window, then released completely -/

/-- session `s` is pending: opened by PID `p` at `a`, no login yet, holding `c`; no other tracked session was
opened by `p` -/
structure Waiting (st : St) (s : Str) (p : Int) (a : Time) (c : List AEvent) : Prop where
  nofail : st.failAt = none
  uniq : aUnique st.sessions
  ne1 : s ≠ []
  ne2 : s ≠ strOf "unset"
  mem : ∃ u, (s, u) ∈ st.sessions ∧ u.login = none ∧ u.srcPID = p ∧ u.added = a ∧ u.cached = c
  only : ∀ s' u', (s', u') ∈ st.sessions → u'.srcPID = p → s' = s

/-- what may happen while the session waits: cleanups whose cut-off does not overtake the session's stamp, logins
of other PIDs, records of this session, records of other sessions (a LOGIN record among them not under PID `p`) -/
def Quiet (s : Str) (p : Int) (a : Time) : Op → Prop
  | .cleanSessions t => t ≤ a
  | .cleanLogins _ => True
  | .remoteLogin l => l.pid ≠ p
  | .audit e _ => e.ses = s ∨ (e.typ = .login → atoi e.pidTok ≠ some p)

def recOf (s : Str) : Op → List AEvent
  | .audit e _ => if e.ses = s then [e] else []
  | _ => []

theorem waiting_same {st st' : St} {s : Str} {p : Int} {a : Time} {c : List AEvent} (hw : Waiting st s p a c)
    (hf : st'.failAt = none) (hs : st'.sessions = st.sessions) : Waiting st' s p a c :=
  ⟨hf, by rw [hs]; exact hw.uniq, hw.ne1, hw.ne2, by rw [hs]; exact hw.mem, by rw [hs]; exact hw.only⟩

/-- the entry of another key `k` is erased, or replaced by one that was not opened by `p` -/
theorem waiting_upd {st st' : St} {s : Str} {p : Int} {a : Time} {c : List AEvent} (hw : Waiting st s p a c)
    (hf : st'.failAt = none) (k : Str) (hk : k ≠ s)
    (hs : st'.sessions = aErase k st.sessions ∨ ∃ v, st'.sessions = aStore k v st.sessions ∧ v.srcPID ≠ p) :
    Waiting st' s p a c := by
  obtain ⟨u, hm, h1, h2, h3, h4⟩ := hw.mem
  rcases hs with hs | ⟨v, hs, hv⟩
  · refine ⟨hf, by rw [hs]; exact aUnique_erase hw.uniq, hw.ne1, hw.ne2,
      ⟨u, by rw [hs]; exact mem_aErase_of hm (Ne.symm hk), h1, h2, h3, h4⟩, ?_⟩
    intro s' u' hm' hp
    rw [hs] at hm'
    exact hw.only s' u' (mem_aErase hm').1 hp
  · refine ⟨hf, by rw [hs]; exact aUnique_store hw.uniq, hw.ne1, hw.ne2,
      ⟨u, by rw [hs]; exact List.mem_cons_of_mem _ (mem_aErase_of hm (Ne.symm hk)), h1, h2, h3, h4⟩, ?_⟩
    intro s' u' hm' hp
    rw [hs] at hm'
    rcases mem_aStore hm' with heq | ⟨hm'', _⟩
    · cases heq; exact absurd hp hv
    · exact hw.only s' u' hm'' hp

theorem waiting_step (st : St) (s : Str) (p : Int) (a : Time) (c : List AEvent) (op : Op)
    (hw : Waiting st s p a c) (hq : Quiet s p a op) :
    Waiting (step st op).1 s p a (c ++ recOf s op) := by
  obtain ⟨u, hm, hu1, hu2, hu3, hu4⟩ := hw.mem
  have hlook : aLookup s st.sessions = some u := aLookup_of_mem hw.uniq hm
  cases op with
  | cleanLogins t => simpa [recOf, step] using waiting_same (st' := (step st (.cleanLogins t)).1) hw hw.nofail rfl
  | cleanSessions t =>
    simp only [recOf, List.append_nil, step]
    refine ⟨hw.nofail, aUnique_filter _ hw.uniq, hw.ne1, hw.ne2, ⟨u, ?_, hu1, hu2, hu3, hu4⟩, ?_⟩
    · apply List.mem_filter.mpr
      refine ⟨hm, ?_⟩
      have : ¬ u.added < t := by
        simp only [Quiet] at hq
        rw [hu3]; exact Int.not_lt.mpr hq
      simp [this]
    · intro s' u' hm' hp
      exact hw.only s' u' (List.mem_filter.mp hm').1 hp
  | remoteLogin l =>
    simp only [Quiet] at hq
    simp only [recOf, List.append_nil, step, remoteLogin]
    split
    · exact hw
    · split
      · rename_i s0 u0 more hfil
        have hmem0 : (s0, u0) ∈ st.sessions.filter (fun x => x.2.srcPID == l.pid) := by
          rw [hfil]; exact List.mem_cons_self
        have hm0 := (List.mem_filter.mp hmem0).1
        have hpid0 : u0.srcPID = l.pid := by simpa using (List.mem_filter.mp hmem0).2
        have hne : s0 ≠ s := by
          intro h
          have := hw.only s0 u0 hm0
          subst h
          have huu : u0 = u := by
            have h1 := aLookup_of_mem hw.uniq hm0
            rw [hlook] at h1; exact (Option.some.inj h1).symm
          rw [huu, hu2] at hpid0
          exact hq hpid0.symm
        have hwr := writeAll_wrote { st with ambiguous := st.ambiguous || !more.isEmpty } l u0.cached
        generalize writeAll { st with ambiguous := st.ambiguous || !more.isEmpty } l u0.cached = r at hwr ⊢
        obtain ⟨st', ok⟩ := r
        have hs : st'.sessions = st.sessions := hwr.sessions
        have hf : st'.failAt = none := by rw [hwr.failAt]; exact hw.nofail
        simp only
        refine waiting_upd hw hf s0 hne ?_
        simp only
        split
        · left; rw [hs]
        · right
          refine ⟨_, by rw [hs], ?_⟩
          simp only
          rw [hpid0]; exact hq
      · exact waiting_same hw hw.nofail rfl
  | audit e now =>
    simp only [Quiet] at hq
    simp only [step, audit]
    split
    · rename_i hign
      have hne : e.ses ≠ s := by
        intro h
        simp only [Bool.or_eq_true, decide_eq_true_eq] at hign
        rcases hign with h1 | h1
        · exact hw.ne1 (h ▸ h1)
        · exact hw.ne2 (h ▸ h1)
      simpa [recOf, hne] using hw
    · by_cases hes : e.ses = s
      · -- a record of the waiting session: cached
        simp only [recOf, hes, if_true, hlook, hu1]
        refine ⟨hw.nofail, aUnique_store hw.uniq, hw.ne1, hw.ne2, ⟨_, List.mem_cons_self, rfl, hu2, hu3, by simp [hu4]⟩, ?_⟩
        intro s' u' hm' hp
        rcases mem_aStore hm' with heq | ⟨hm'', _⟩
        · cases heq; rfl
        · exact hw.only s' u' hm'' hp
      · have hq' : e.typ = .login → atoi e.pidTok ≠ some p := by
          rcases hq with h | h
          · exact absurd h hes
          · exact h
        simp only [recOf, hes, if_false, List.append_nil]
        split
        · rename_i u0 hlook0
          have hm0 := aLookup_mem hlook0
          have hp0 : u0.srcPID ≠ p := fun h => hes (hw.only _ _ hm0 h)
          split
          · exact waiting_upd hw hw.nofail e.ses hes (Or.inr ⟨_, rfl, hp0⟩)
          · rename_i l0 hl0
            have hwr := writeAll_wrote st l0 u0.cached
            generalize writeAll st l0 u0.cached = r at hwr ⊢
            obtain ⟨st', ok⟩ := r
            have hs : st'.sessions = st.sessions := hwr.sessions
            have hf : st'.failAt = none := by rw [hwr.failAt]; exact hw.nofail
            cases ok with
            | false =>
              simp only
              refine waiting_upd hw hf e.ses hes ?_
              simp only
              split
              · left; rw [hs]
              · right; exact ⟨_, by rw [hs], hp0⟩
            | true =>
              simp only
              have hw2 := write1_wrote st' l0 e
              generalize write1 st' l0 e = r2 at hw2 ⊢
              obtain ⟨st'', okw⟩ := r2
              have hs2 : st''.sessions = st.sessions := hw2.sessions.trans hs
              have hf2 : st''.failAt = none := by rw [hw2.failAt]; exact hf
              simp only
              refine waiting_upd hw hf2 e.ses hes ?_
              simp only
              split
              · left; rw [hs2]
              · right; exact ⟨{ u0 with cached := [] }, by rw [hs2], hp0⟩
        · split
          · exact hw
          · rename_i htyp
            have htyp : e.typ = .login := Decidable.of_not_not htyp
            split
            · exact hw
            · rename_i p' hp'
              have hpp : p' ≠ p := fun h => hq' htyp (by rw [hp', h])
              split
              · rename_i l0 hl0
                generalize hst1 : ({ st with
                  logins := aErase p' st.logins
                  sessions := aStore e.ses ⟨now, p', some l0, []⟩ st.sessions } : St) = st1
                have hw1 : Waiting st1 s p a c := by
                  refine waiting_upd hw (by rw [← hst1]; exact hw.nofail) e.ses hes (Or.inr ⟨_, by rw [← hst1], hpp⟩)
                have hw2 := write1_wrote st1 l0 e
                generalize write1 st1 l0 e = r at hw2 ⊢
                obtain ⟨st2, okw⟩ := r
                exact waiting_same hw1 (by rw [hw2.failAt]; exact hw1.nofail) hw2.sessions
              · exact waiting_upd hw hw.nofail e.ses hes (Or.inr ⟨_, rfl, hpp⟩)

def recsIn (s : Str) (ops : List Op) : List AEvent := ops.flatMap (recOf s)

theorem waiting_run (ops : List Op) : ∀ (st : St) (c : List AEvent) (s : Str) (p : Int) (a : Time),
    Waiting st s p a c → (∀ op ∈ ops, Quiet s p a op) → (run st ops).2 = none →
    Waiting (run st ops).1 s p a (c ++ recsIn s ops) := by
  induction ops with
  | nil => intro st c s p a hw _ _; simpa [run, recsIn] using hw
  | cons op ops ih =>
    intro st c s p a hw hq hok
    have h1 := waiting_step st s p a c op hw (hq op List.mem_cons_self)
    simp only [run] at hok ⊢
    generalize hs : step st op = r at h1 hok ⊢
    obtain ⟨st', er⟩ := r
    cases er with
    | none =>
      simp only at hok ⊢
      have := ih st' _ s p a h1 (fun o ho => hq o (List.mem_cons_of_mem _ ho)) hok
      simpa [recsIn, List.append_assoc] using this
    | some x => simp at hok

/-- **Within the window: always correlated, everything released, in order.** While session `s` (opened by PID `p`
at `a`) waits, let anything happen that `Quiet` allows — in particular cleanups with cut-offs up to `a`. Then the
login of `p` releases exactly what was held plus every record of `s` delivered meanwhile, in order, under its
identity, without an error. -/
theorem correlated_within_window (st : St) (s : Str) (p : Int) (a : Time) (c : List AEvent) (mid : List Op)
    (l : Login) (hw : Waiting st s p a c) (hq : ∀ op ∈ mid, Quiet s p a op) (hok : (run st mid).2 = none)
    (hv : l.valid = true) (hp : l.pid = p) :
    let st1 := (run st mid).1
    (step st1 (.remoteLogin l)).2 = none ∧
    (step st1 (.remoteLogin l)).1.out = st1.out ++ (c ++ recsIn s mid).map (fun e => ⟨e, l⟩) := by
  intro st1
  have hw1 : Waiting st1 s p a (c ++ recsIn s mid) := waiting_run mid st c s p a hw hq hok
  obtain ⟨u, hm, hu1, hu2, hu3, hu4⟩ := hw1.mem
  simp only [step, remoteLogin, hv, Bool.not_true, Bool.false_eq_true, if_false]
  have hmf : (s, u) ∈ st1.sessions.filter (fun x => x.2.srcPID == l.pid) :=
    List.mem_filter.mpr ⟨hm, by simp [hu2, hp]⟩
  split
  · rename_i s0 u0 more hfil
    have hmem0 : (s0, u0) ∈ st1.sessions.filter (fun x => x.2.srcPID == l.pid) := by
      rw [hfil]; exact List.mem_cons_self
    have hm0 := (List.mem_filter.mp hmem0).1
    have hpid0 : u0.srcPID = p := by
      have : u0.srcPID = l.pid := by simpa using (List.mem_filter.mp hmem0).2
      rw [this, hp]
    have hs0 : s0 = s := hw1.only s0 u0 hm0 hpid0
    subst hs0
    have huu : u0 = u := by
      have h1 := aLookup_of_mem hw1.uniq hm0
      have h2 := aLookup_of_mem hw1.uniq hm
      rw [h1] at h2; exact Option.some.inj h2
    subst huu
    rw [C02.writeAll_ok _ l u0.cached (by exact hw1.nofail)]
    simp [hu4]
  · rename_i hnil
    rw [hnil] at hmf; cases hmf

/-- with the daemon's ticker (period and cut-off distance regenerated from `Auditd.Read`): every tick up to one
minute after the session was stamped is `Quiet` -/
theorem daemon_ticks_are_quiet (s : Str) (p : Int) (a t₀ : Int) (j : Nat)
    (h : t₀ + j * AM.Gen.cleanupTickerNs ≤ a + 60000000000) :
    Quiet s p a (.cleanSessions (t₀ + j * AM.Gen.cleanupTickerNs - AM.Gen.cleanupCutoffBackNs)) := by
  have hc := AM.C16.daemon_constants
  have h1 : AM.Gen.cleanupTickerNs = 60000000000 := by rw [hc.1]; rfl
  have h2 : AM.Gen.cleanupCutoffBackNs = 60000000000 := by rw [hc.2.1, h1]
  show t₀ + j * AM.Gen.cleanupTickerNs - AM.Gen.cleanupCutoffBackNs ≤ a
  rw [h1] at h
  rw [h1, h2]
  omega


/-! ### (C) the other half first: a parked login kept within the window is used by its LOGIN record -/

/-- the login `l` of PID `p` is parked and session `s` is not tracked -/
structure Parked (st : St) (s : Str) (p : Int) (l : Login) : Prop where
  nofail : st.failAt = none
  uniqL : aUnique st.logins
  mem : (p, l) ∈ st.logins
  fresh : ∀ u, (s, u) ∉ st.sessions

/-- what may happen while the login waits: cleanups whose cut-off does not overtake its stamp, logins of other PIDs,
records of other sessions (a LOGIN record among them not under PID `p`) -/
def QuietL (s : Str) (p : Int) (l : Login) : Op → Prop
  | .cleanLogins t => t ≤ l.loggedAt
  | .cleanSessions _ => True
  | .remoteLogin l' => l'.pid ≠ p
  | .audit e _ => e.ses ≠ s ∧ (e.typ = .login → atoi e.pidTok ≠ some p)

theorem aLookup_none_of {κ α} [DecidableEq κ] {k : κ} {m : List (κ × α)} (h : ∀ v, (k, v) ∉ m) :
    aLookup k m = none := by
  cases hl : aLookup k m with
  | none => rfl
  | some v => exact absurd (aLookup_mem hl) (h v)

theorem parked_upd {st st' : St} {s : Str} {p : Int} {l : Login} (hw : Parked st s p l)
    (hf : st'.failAt = none) (hl : st'.logins = st.logins) (k : Str) (hk : k ≠ s)
    (hs : st'.sessions = st.sessions ∨ st'.sessions = aErase k st.sessions ∨ ∃ v, st'.sessions = aStore k v st.sessions) :
    Parked st' s p l := by
  refine ⟨hf, by rw [hl]; exact hw.uniqL, by rw [hl]; exact hw.mem, ?_⟩
  intro u hm
  rcases hs with hs | hs | ⟨v, hs⟩
  · rw [hs] at hm; exact hw.fresh u hm
  · rw [hs] at hm; exact hw.fresh u (mem_aErase hm).1
  · rw [hs] at hm
    rcases mem_aStore hm with heq | ⟨hm', _⟩
    · cases heq; exact hk rfl
    · exact hw.fresh u hm'

theorem parked_step (st : St) (s : Str) (p : Int) (l : Login) (op : Op)
    (hw : Parked st s p l) (hq : QuietL s p l op) : Parked (step st op).1 s p l := by
  cases op with
  | cleanSessions t =>
    exact ⟨hw.nofail, hw.uniqL, hw.mem, fun u hm => hw.fresh u (List.mem_filter.mp hm).1⟩
  | cleanLogins t =>
    simp only [QuietL] at hq
    refine ⟨hw.nofail, aUnique_filter _ hw.uniqL, ?_, hw.fresh⟩
    apply List.mem_filter.mpr
    refine ⟨hw.mem, ?_⟩
    have : ¬ l.loggedAt < t := Int.not_lt.mpr hq
    simp [this]
  | remoteLogin l' =>
    simp only [QuietL] at hq
    simp only [step, remoteLogin]
    split
    · exact hw
    · split
      · rename_i s0 u0 more hfil
        have hmem0 : (s0, u0) ∈ st.sessions.filter (fun x => x.2.srcPID == l'.pid) := by
          rw [hfil]; exact List.mem_cons_self
        have hm0 := (List.mem_filter.mp hmem0).1
        have hne : s0 ≠ s := fun h => hw.fresh u0 (h ▸ hm0)
        have hwr := writeAll_wrote { st with ambiguous := st.ambiguous || !more.isEmpty } l' u0.cached
        generalize writeAll { st with ambiguous := st.ambiguous || !more.isEmpty } l' u0.cached = r at hwr ⊢
        obtain ⟨st', ok⟩ := r
        have hs : st'.sessions = st.sessions := hwr.sessions
        have hf : st'.failAt = none := by rw [hwr.failAt]; exact hw.nofail
        have hl : st'.logins = st.logins := hwr.logins
        simp only
        refine parked_upd hw hf hl s0 hne ?_
        simp only
        split
        · right; left; rw [hs]
        · right; right; exact ⟨_, by rw [hs]⟩
      · refine ⟨hw.nofail, aUnique_store hw.uniqL, ?_, hw.fresh⟩
        exact List.mem_cons_of_mem _ (mem_aErase_of hw.mem (Ne.symm hq))
  | audit e now =>
    simp only [QuietL] at hq
    obtain ⟨hes, hq'⟩ := hq
    simp only [step, audit]
    split
    · exact hw
    · split
      · rename_i u0 hlook0
        split
        · exact parked_upd hw hw.nofail rfl e.ses hes (Or.inr (Or.inr ⟨_, rfl⟩))
        · rename_i l0 hl0
          have hwr := writeAll_wrote st l0 u0.cached
          generalize writeAll st l0 u0.cached = r at hwr ⊢
          obtain ⟨st', ok⟩ := r
          have hs : st'.sessions = st.sessions := hwr.sessions
          have hf : st'.failAt = none := by rw [hwr.failAt]; exact hw.nofail
          have hl : st'.logins = st.logins := hwr.logins
          cases ok with
          | false =>
            simp only
            refine parked_upd hw hf hl e.ses hes ?_
            simp only
            split
            · right; left; rw [hs]
            · right; right; exact ⟨_, by rw [hs]⟩
          | true =>
            simp only
            have hw2 := write1_wrote st' l0 e
            generalize write1 st' l0 e = r2 at hw2 ⊢
            obtain ⟨st'', okw⟩ := r2
            have hs2 : st''.sessions = st.sessions := hw2.sessions.trans hs
            have hf2 : st''.failAt = none := by rw [hw2.failAt]; exact hf
            have hl2 : st''.logins = st.logins := hw2.logins.trans hl
            simp only
            refine parked_upd hw hf2 hl2 e.ses hes ?_
            simp only
            split
            · right; left; rw [hs2]
            · right; right; exact ⟨_, by rw [hs2]⟩
      · split
        · exact hw
        · rename_i htyp
          have htyp : e.typ = .login := Decidable.of_not_not htyp
          split
          · exact hw
          · rename_i p' hp'
            have hpp : p' ≠ p := fun h => hq' htyp (by rw [hp', h])
            split
            · rename_i l0 hl0
              generalize hst1 : ({ st with
                logins := aErase p' st.logins
                sessions := aStore e.ses ⟨now, p', some l0, []⟩ st.sessions } : St) = st1
              have hw1 : Parked st1 s p l := by
                refine ⟨by rw [← hst1]; exact hw.nofail, by rw [← hst1]; exact aUnique_erase hw.uniqL,
                  by rw [← hst1]; exact mem_aErase_of hw.mem (Ne.symm hpp), ?_⟩
                intro u hm
                rw [← hst1] at hm
                rcases mem_aStore hm with heq | ⟨hm', _⟩
                · cases heq; exact hes rfl
                · exact hw.fresh u hm'
              have hw2 := write1_wrote st1 l0 e
              generalize write1 st1 l0 e = r at hw2 ⊢
              obtain ⟨st2, okw⟩ := r
              exact parked_upd hw1 (by rw [hw2.failAt]; exact hw1.nofail) hw2.logins e.ses hes (Or.inl hw2.sessions)
            · exact parked_upd hw hw.nofail rfl e.ses hes (Or.inr (Or.inr ⟨_, rfl⟩))

theorem parked_run (ops : List Op) : ∀ (st : St) (s : Str) (p : Int) (l : Login),
    Parked st s p l → (∀ op ∈ ops, QuietL s p l op) → Parked (run st ops).1 s p l := by
  induction ops with
  | nil => intro st s p l hw _; simpa [run] using hw
  | cons op ops ih =>
    intro st s p l hw hq
    have h1 := parked_step st s p l op hw (hq op List.mem_cons_self)
    simp only [run]
    generalize hs : step st op = r at h1 ⊢
    obtain ⟨st', er⟩ := r
    cases er with
    | none => exact ih st' s p l h1 (fun o ho => hq o (List.mem_cons_of_mem _ ho))
    | some x => exact h1

/-- **The login first, within the window**: while the login of PID `p` waits, let anything happen that `QuietL`
allows — in particular cleanups with cut-offs up to its stamp. Then the LOGIN record of a new session under PID `p`
is emitted at once under that login's identity, without an error. -/
theorem parked_login_used (st : St) (s : Str) (p : Int) (l : Login) (mid : List Op) (e : AEvent) (now : Time)
    (hw : Parked st s p l) (hq : ∀ op ∈ mid, QuietL s p l op)
    (hty : e.typ = .login) (hs : e.ses = s) (hne1 : s ≠ []) (hne2 : s ≠ strOf "unset") (hpid : atoi e.pidTok = some p) :
    let st1 := (run st mid).1
    (step st1 (.audit e now)).2 = none ∧ (step st1 (.audit e now)).1.out = st1.out ++ [⟨e, l⟩] := by
  intro st1
  have hw1 : Parked st1 s p l := parked_run mid st s p l hw hq
  have hlook : aLookup e.ses st1.sessions = none := aLookup_none_of (by rw [hs]; exact hw1.fresh)
  have hpark : aLookup p st1.logins = some l := aLookup_of_mem hw1.uniqL hw1.mem
  have hign : (decide (e.ses = []) || decide (e.ses = strOf "unset")) = false := by simp [hs, hne1, hne2]
  simp only [step, audit, hign, Bool.false_eq_true, if_false, hlook, hty, ne_eq, not_true_eq_false, hpid, hpark]
  rw [C02.write1_ok _ l e (by exact hw1.nofail)]
  simp

/-! ### not vacuous: a pending session, things happening meanwhile, the login -/

def exSt : St := (run {} [.audit (C02.exEv 1 "5" .login "77") 10]).1

theorem exSt_sessions : exSt.sessions = [(strOf "5", ⟨10, 77, none, [C02.exEv 1 "5" .login "77"]⟩)] := by decide

example : Waiting exSt (strOf "5") 77 10 [C02.exEv 1 "5" .login "77"] := by
  refine ⟨by decide, by rw [exSt_sessions]; simp [aUnique], by decide, by decide,
    ⟨⟨10, 77, none, [C02.exEv 1 "5" .login "77"]⟩, by rw [exSt_sessions]; exact List.mem_cons_self, rfl, rfl, rfl, rfl⟩, ?_⟩
  intro s' u' hm _
  rw [exSt_sessions] at hm
  simp only [List.mem_singleton, Prod.mk.injEq] at hm
  exact hm.1

def exMid : List Op :=
  [ .audit (C02.exEv 2 "5" .other "77") 11, .cleanSessions 10, .audit (C02.exEv 3 "6" .login "88") 12,
    .remoteLogin { C02.exAlice with pid := 88 }, .cleanLogins 50, .audit (C02.exEv 4 "5" .credDisp "77") 13 ]

example : (∀ op ∈ exMid, Quiet (strOf "5") 77 10 op) ∧ (run exSt exMid).2 = none ∧
    recsIn (strOf "5") exMid = [C02.exEv 2 "5" .other "77", C02.exEv 4 "5" .credDisp "77"] := by
  refine ⟨?_, by decide, by decide⟩
  intro op hop
  simp only [exMid, List.mem_cons, List.not_mem_nil, or_false] at hop
  rcases hop with rfl | rfl | rfl | rfl | rfl | rfl
  · left; decide
  · show (10 : Int) ≤ 10; decide
  · right; intro _; decide
  · show (88 : Int) ≠ 77; decide
  · trivial
  · left; decide

end AM.C16H
