import AM.Proofs.SshdShape
import AM.Proofs.SshdProvenance
/-! C11 — for EVERY line (no domain hypothesis): `ProcessEntry` neither panics nor leaves the
modelled fragment, returns an error only when the writer fails, emits at most one event and at
most one login, forwards a login only right after a succeeded event, and every event carries the
fixed target/component/type. All are corollaries of `Sshd.process_shape`. -/
namespace AM.C11
open AM AM.Sshd AM.Spec

theorem never_panics (cfg : Cfg) (pid line : Str) (ok : Bool) (h : Handoff) :
    (process cfg pid line ok h).res ≠ .panic ∧ (process cfg pid line ok h).res ≠ .unmodelled := by
  have hs := process_shape cfg pid line ok h
  generalize process cfg pid line ok h = o at hs
  cases hs <;> exact ⟨by simp, by simp⟩

theorem no_error_when_writer_works (cfg : Cfg) (pid line : Str) (h : Handoff) :
    (process cfg pid line true h).res = .nil := by
  have hs := process_shape cfg pid line true h
  generalize process cfg pid line true h = o at hs
  cases hs with
  | quiet => rfl
  | wfail _ _ _ _ _ hok => cases hok
  | wok => rfl
  | wsend => rfl

theorem at_most_one_event (cfg : Cfg) (pid line : Str) (ok : Bool) (h : Handoff) :
    (writes (process cfg pid line ok h)).length ≤ 1 := by
  have hs := process_shape cfg pid line ok h
  generalize process cfg pid line ok h = o at hs
  cases hs with
  | quiet is _ => simp [writes_incs]
  | wfail => simp [writes]
  | wok => simp [writes]
  | wsend => simp [writes]

theorem at_most_one_login (cfg : Cfg) (pid line : Str) (ok : Bool) (h : Handoff) :
    (sends (process cfg pid line ok h)).length ≤ 1 := by
  have hs := process_shape cfg pid line ok h
  generalize process cfg pid line ok h = o at hs
  cases hs with
  | quiet is _ => simp [sends_incs]
  | wfail => simp [sends]
  | wok => simp [sends]
  | wsend => simp [sends]

theorem login_only_with_succeeded_event (cfg : Cfg) (pid line : Str) (ok : Bool) (h : Handoff) :
    sendsFollowSuccess (process cfg pid line ok h).effs = true := by
  have hs := process_shape cfg pid line ok h
  generalize process cfg pid line ok h = o at hs
  cases hs with
  | quiet is _ => exact sendsFollowSuccess_incs is
  | wfail => simp [sendsFollowSuccess]
  | wok => simp [sendsFollowSuccess]
  | wsend _ _ _ _ _ _ _ _ _ hout => simp [sendsFollowSuccess, hout]

theorem fixed_fields (cfg : Cfg) (pid line : Str) (ok : Bool) (h : Handoff) (e : Ev) (b : Bool) :
    (e, b) ∈ writes (process cfg pid line ok h) →
      e.target = target cfg ∧ e.component = "sshd" ∧ e.typ = "UserLogin" := by
  have hs := process_shape cfg pid line ok h
  generalize process cfg pid line ok h = o at hs
  intro hm
  cases hs with
  | quiet is _ => simp [writes_incs] at hm
  | wfail _ _ _ hfix => simp [writes] at hm; rw [hm.1]; exact hfix
  | wok _ _ _ hfix => simp [writes] at hm; rw [hm.1]; exact hfix
  | wsend _ _ _ _ _ hfix => simp [writes] at hm; rw [hm.1]; exact hfix

/-- an event is emitted only if the line begins with one of the recognised message keywords -/
theorem keyword (cfg : Cfg) (pid line : Str) (ok : Bool) (h : Handoff) :
    writes (process cfg pid line ok h) ≠ [] → hasKeyword line = true :=
  C11P.keyword cfg pid line ok h

/-- the fixed keyword list of the property covers the dispatch table regenerated from the source -/
theorem keywords_cover : ∀ c ∈ AM.Gen.dispatch,
    (∃ s, c.cond = .pfx s ∧ s ∈ keywords) ∨
    (∃ p l is, c.cond = .re p ∧ p.anchS = true ∧ p.items = .lit l :: is ∧ l ∈ keywords) :=
  C11P.keywords_cover

/-- every field value extracted into the event is a verbatim substring of the line (or what
`encoding/json` makes of one), or a fixed placeholder / the PID token / node name / machine id -/
theorem provenance (cfg : Cfg) (pid line : Str) (ok : Bool) (h : Handoff) (e : Ev) (b : Bool) :
    (e, b) ∈ writes (process cfg pid line ok h) →
      ∀ v ∈ evValues e, v ∈ placeholders cfg pid ∨ ∃ t, t <:+: line ∧ (v = t ∨ v = jsonCoerce t) :=
  C11P.provenance cfg pid line ok h e b

/-- the executable statement of C11 (the one evaluated on the implementation's observations)
holds on the model for every line and every PID token -/
theorem spec_holds (cfg : Cfg) (pid line : Str) (h : Handoff) :
    specC11 cfg pid line true (process cfg pid line true h) = none := by
  have h1 := never_panics cfg pid line true h
  have h2 := no_error_when_writer_works cfg pid line h
  have h3 := at_most_one_event cfg pid line true h
  have h4 := at_most_one_login cfg pid line true h
  have h5 := login_only_with_succeeded_event cfg pid line true h
  have h6 := C11P.keyword cfg pid line true h
  have h7 : ∀ e b, (e, b) ∈ writes (process cfg pid line true h) → ∀ v ∈ evValues e,
      v ∉ placeholders cfg pid → provB line v = true := by
    intro e b hm v hv hn
    rcases C11P.provenance cfg pid line true h e b hm v hv with hp | hp
    · exact absurd hp hn
    · exact C11P.provB_complete line v hp
  have h8 := fun e b => fixed_fields cfg pid line true h e b
  generalize process cfg pid line true h = o at *
  unfold specC11
  have e1 : (o.res == Res.panic) = false := by simpa using h1.1
  have e2 : (o.res == Res.unmodelled) = false := by simpa using h1.2
  have e3 : (o.res != Res.nil) = false := by simp [h2]
  have e4 : ¬ (writes o).length > 1 := by omega
  have e5 : ¬ (sends o).length > 1 := by omega
  have e6 : (!(writes o).isEmpty && !hasKeyword line) = false := by
    cases hw : (writes o).isEmpty with
    | true => simp
    | false =>
      have : writes o ≠ [] := by intro h0; simp [h0] at hw
      simp [h6 this]
  have e8 : ((writes o).any fun w => w.1.target != target cfg || w.1.component != "sshd" ||
      w.1.typ != "UserLogin") = false := by
    simp only [List.any_eq_false, Bool.or_eq_true, bne_iff_ne, ne_eq, not_or, Decidable.not_not, Prod.forall]
    intro e b hm
    have := h8 e b hm
    exact ⟨⟨this.1, this.2.1⟩, this.2.2⟩
  simp [e1, e2, e3, e4, e5, h5, e6, e8]
  intro x hx v hv hn
  rcases hx with hx | hx
  · exact h7 x false hx v hv hn
  · exact h7 x true hx v hv hn

end AM.C11
