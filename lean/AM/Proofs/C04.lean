import AM.Proofs.TrackerInv
/-! C04: the tracker is silent about what it cannot attribute. For every history and every write
oracle, an emitted event belongs to a real (non-empty, not "unset") session whose LOGIN record
was delivered, and carries an SSH login that was delivered and whose PID is the LOGIN record's. -/
namespace AM.C04
open AM AM.Tr

theorem silence (failAt : Option Nat) (h : List Op) (em : Emitted) :
    em ∈ (run { failAt := failAt } h).1.out →
      em.ev.ses ≠ [] ∧ em.ev.ses ≠ strOf "unset" ∧ em.ev ∈ auditsOf h ∧ em.login ∈ loginsOf h ∧
      ∃ r ∈ auditsOf h, r.typ = .login ∧ r.ses = em.ev.ses ∧ atoi r.pidTok = some em.login.pid := by
  intro hem
  obtain ⟨h1, h2, _, r, hr, ht, hs, hp, hne, hnu⟩ := (inv_run_init failAt h).outOk em hem
  exact ⟨hne, hnu, h1, h2, r, hr, ht, hs, hp⟩

/-- emitted events are never retracted (so `silence` holds at every prefix) -/
theorem out_monotone (st : St) (op : Op) : ∃ new, (step st op).1.out = st.out ++ new :=
  out_step st op

/-- … and over a whole run -/
theorem out_monotone_run (st : St) (ops : List Op) : ∃ new, (run st ops).1.out = st.out ++ new :=
  out_run st ops

/-- what a prefix of the history emitted stays emitted (and `silence` speaks about it relative to
that prefix alone) -/
theorem out_monotone_prefix (failAt : Option Nat) (h h' : List Op) :
    ∃ new, (run { failAt := failAt } (h ++ h')).1.out = (run { failAt := failAt } h).1.out ++ new :=
  out_run_prefix _ h h'

/-- the events really came from the operations that were executed (those after the first error
contribute nothing) -/
theorem silence_executed (failAt : Option Nat) (h : List Op) (em : Emitted) :
    em ∈ (run { failAt := failAt } h).1.out →
      em.ev ∈ auditsOf (executed { failAt := failAt } h) ∧
      em.login ∈ loginsOf (executed { failAt := failAt } h) ∧
      ∃ r ∈ auditsOf (executed { failAt := failAt } h),
        r.typ = .login ∧ r.ses = em.ev.ses ∧ atoi r.pidTok = some em.login.pid := by
  intro hem
  have hi := inv_run_executed [] { failAt := failAt } h (inv_init failAt)
  rw [List.nil_append] at hi
  obtain ⟨h1, h2, _, r, hr, ht, hs, hp, _, _⟩ := hi.outOk em hem
  exact ⟨h1, h2, r, hr, ht, hs, hp⟩

end AM.C04
