import AM.Proofs.DispatchLemmas
/-! Lemmas shared by the per-form extraction proofs (`AM/Proofs/Forms/*.lean`) -/
namespace AM.Sshd
open AM AM.Rx AM.Spec AM.Gen

theorem mem_sp_digit : clsDigit.mem ' ' = false := by decide
theorem mem_sp_alnum : clsAlnum.mem ' ' = false := by decide
theorem mem_sp_nonspace : clsNonSpace.mem ' ' = false := by decide
theorem mem_sp_keytype : clsKeyType.mem ' ' = false := by decide

theorem nonspace_any (ch : Char) (h : clsNonSpace.mem ch = true) : clsAny.mem ch = true := by
  simp only [clsAny, clsNonSpace, Cls.mem, List.any_cons, List.any_nil, Bool.or_false, Bool.or_eq_true,
    Bool.and_eq_true, decide_eq_true_eq] at *
  omega

theorem digit_nonspace (ch : Char) (h : clsDigit.mem ch = true) : clsNonSpace.mem ch = true := by
  simp only [clsDigit, clsNonSpace, Cls.mem, List.any_cons, List.any_nil, Bool.or_false, Bool.or_eq_true,
    Bool.and_eq_true, decide_eq_true_eq] at *
  omega

theorem alnum_nonspace (ch : Char) (h : clsAlnum.mem ch = true) : clsNonSpace.mem ch = true := by
  simp only [clsAlnum, clsNonSpace, Cls.mem, List.any_cons, List.any_nil, Bool.or_false, Bool.or_eq_true,
    Bool.and_eq_true, decide_eq_true_eq] at *
  omega

theorem keytype_nonspace (ch : Char) (h : clsKeyType.mem ch = true) : clsNonSpace.mem ch = true := by
  simp only [clsKeyType, clsNonSpace, Cls.mem, List.any_cons, List.any_nil, Bool.or_false, Bool.or_eq_true,
    Bool.and_eq_true, decide_eq_true_eq] at *
  omega

theorem keytype_wordSpDash (ch : Char) (h : clsKeyType.mem ch = true) : clsWordSpDash.mem ch = true := by
  simp only [clsKeyType, clsWordSpDash, Cls.mem, List.any_cons, List.any_nil, Bool.or_false, Bool.or_eq_true,
    Bool.and_eq_true, decide_eq_true_eq] at *
  omega

theorem noNL_any {x : Str} (h : noNL x = true) : ∀ ch ∈ x, clsAny.mem ch = true := by
  intro ch hch
  have h1 : ch ≠ '\n' := by
    have := List.all_eq_true.mp h ch hch
    simpa using this
  rw [clsAny_mem]
  intro h10
  apply h1
  have := Char.ofNat_toNat ch
  rw [h10] at this
  exact this.symm

theorem lacks_spec (x : Str) (p : String) (h : lacks x p = true) : ∀ j, ¬ p.toList <+: x.drop j := by
  intro j hp
  simp only [lacks, isInfix, Bool.not_eq_true', List.any_eq_false, List.mem_range] at h
  by_cases hj : j < x.length + 1
  · exact absurd (List.isPrefixOf_iff_prefix.mpr hp) (by simpa using h j hj)
  · have : x.drop j = x.drop x.length := by
      rw [List.drop_eq_nil_of_le (by omega), List.drop_eq_nil_of_le (Nat.le_refl _)]
    rw [this] at hp
    exact absurd (List.isPrefixOf_iff_prefix.mpr hp) (by simpa using h x.length (by omega))

theorem process_of_case (cfg : Cfg) (pid line : Str) (ok : Bool) (h : Handoff) (c : DCase) (f : EntryFn)
    (hc : firstCase dispatch line = some c) (hn : c.fn ≠ "userTypeLogAuditFn()")
    (hf : entryOf c.fn = some f) :
    process cfg pid line ok h = ⟨incEffs c ++ (f cfg pid line ok h).effs, (f cfg pid line ok h).res⟩ := by
  simp [process, hc, hn, hf]

theorem process_of_user_case (cfg : Cfg) (pid line : Str) (ok : Bool) (h : Handoff) (c u : DCase) (f : EntryFn)
    (hc : firstCase dispatch line = some c) (hn : c.fn = "userTypeLogAuditFn()")
    (hu : firstCase userDispatch line = some u) (hf : entryOf u.fn = some f) :
    process cfg pid line ok h =
      ⟨incEffs c ++ incEffs u ++ (f cfg pid line ok h).effs, (f cfg pid line ok h).res⟩ := by
  simp [process, hc, hn, hu, hf]

theorem simple_hit (p : Pat) (mk : Cfg → Str → List Str → Ev) (cfg : Cfg) (pid line : Str) (ok : Bool)
    (h : Handoff) (o l : Nat) (caps : List Str) (hfind : find p line = some (o, l, caps)) :
    simple p mk cfg pid line ok h = writeOnly (mk cfg pid caps) ok := by
  simp [simple, hfind]

end AM.Sshd
