import AM.Spec.Tracker
import AM.Proofs.C01Latest
import AM.Proofs.C04Spec
import AM.Proofs.C14Spec
/-! C01, the judge and the theorem meet: the executable clause `Spec.Tracker.specLatest` (a superseded login
never lends its identity) holds of the model's own observation for EVERY history and every write oracle. -/
namespace AM.C01S
open AM AM.Tr AM.Spec.Tracker AM.C01L

/-! ### indexed operations -/

def opsFrom (k : Nat) (h : List Op) : List (Nat × Op) := (List.range' k h.length).zip h

theorem idxOps_eq (h : List Op) : idxOps h = opsFrom 0 h := by
  simp [idxOps, opsFrom, List.range_eq_range']

theorem opsFrom_cons (k : Nat) (op : Op) (r : List Op) : opsFrom k (op :: r) = (k, op) :: opsFrom (k + 1) r := by
  simp [opsFrom, List.range'_succ]

def pickLogin (p : Nat × Op) : Option (Nat × Login) :=
  match p.2 with | .remoteLogin l => some (p.1, l) | _ => none

theorem loginOps_eq (h : List Op) : loginOps h = (opsFrom 0 h).filterMap pickLogin := by
  rw [← idxOps_eq]; rfl

theorem idx_ge (k : Nat) (h : List Op) : ∀ x ∈ (opsFrom k h).filterMap pickLogin, k ≤ x.1 := by
  induction h generalizing k with
  | nil => simp [opsFrom]
  | cons op r ih =>
    intro x hx
    rw [opsFrom_cons, List.filterMap_cons] at hx
    cases op with
    | remoteLogin l =>
      simp only [pickLogin, List.mem_cons] at hx
      rcases hx with rfl | hx
      · exact Nat.le_refl _
      · exact Nat.le_of_succ_le (ih (k + 1) x hx)
    | audit e now => simp only [pickLogin] at hx; exact Nat.le_of_succ_le (ih (k + 1) x hx)
    | cleanSessions t => simp only [pickLogin] at hx; exact Nat.le_of_succ_le (ih (k + 1) x hx)
    | cleanLogins t => simp only [pickLogin] at hx; exact Nat.le_of_succ_le (ih (k + 1) x hx)

/-- the logins among the first `n` operations, seen through the indexed list -/
theorem logins_take (c : Login → Bool) (h : List Op) (k n : Nat) :
    (((opsFrom k h).filterMap pickLogin).filter fun x => c x.2 && decide (x.1 < k + n)).map (·.2) =
      (loginsOf (h.take n)).filter c := by
  induction h generalizing k n with
  | nil => simp [opsFrom, loginsOf]
  | cons op r ih =>
    cases n with
    | zero =>
      simp only [List.take_zero, loginsOf, List.filter_nil, Nat.add_zero]
      have : ((opsFrom k (op :: r)).filterMap pickLogin).filter (fun x => c x.2 && decide (x.1 < k)) = [] := by
        apply List.filter_eq_nil_iff.mpr
        intro x hx
        have := idx_ge k (op :: r) x hx
        simp only [Bool.and_eq_true, decide_eq_true_eq, not_and]
        intro _; omega
      rw [this]; rfl
    | succ n =>
      rw [opsFrom_cons, List.filterMap_cons, List.take_succ_cons]
      have hrest := ih (k + 1) n
      have hidx : ∀ x : Nat × Login, decide (x.1 < k + (n + 1)) = decide (x.1 < k + 1 + n) := by
        intro x; congr 1; apply propext; omega
      simp only [hidx]
      cases op with
      | remoteLogin l =>
        simp only [pickLogin, loginsOf, List.filter_cons]
        have hk : decide (k < k + 1 + n) = true := by simp; omega
        simp only [hk, Bool.and_true]
        split
        · simp only [List.map_cons]; rw [hrest]
        · exact hrest
      | audit e now => simp only [pickLogin, loginsOf]; exact hrest
      | cleanSessions t => simp only [pickLogin, loginsOf]; exact hrest
      | cleanLogins t => simp only [pickLogin, loginsOf]; exact hrest

/-- the last valid login with PID `p` among the first `idx + 1` operations, as the judge computes it -/
theorem lastValid_take (p : Int) (h : List Op) (idx : Nat) :
    lastValid p (h.take (idx + 1)) =
      (((loginOps h).filter fun l => l.2.pid = p && l.2.valid && l.1 ≤ idx).getLast?).map (·.2) := by
  unfold lastValid
  rw [← logins_take (fun l => l.valid && l.pid == p) h 0 (idx + 1), List.getLast?_map, loginOps_eq]
  congr 2
  apply List.filter_congr
  intro x _
  have : decide (x.1 < 0 + (idx + 1)) = decide (x.1 ≤ idx) := by congr 1; apply propext; omega
  rw [this]
  cases hv : x.2.valid <;> cases hp : decide (x.2.pid = p) <;> simp_all

/-! ### the trace -/

theorem openers_prefix (p : Int) (a b : List Op) : (openers p a).length ≤ (openers p (a ++ b)).length := by
  rw [openers_append, List.length_append]; omega

theorem runTrace_latest (p : Int) (h0 done rest : List Op) (st : St) (acc : List (Emitted × Nat))
    (hh : h0 = done ++ rest) (hI : Inv done st) (hi : InvL p done st) (hu : (openers p h0).length ≤ 1)
    (hacc : ∀ q ∈ acc, q.1.login.pid = p → lastValid p (h0.take (q.2 + 1)) = some q.1.login) :
    ∀ q ∈ (runTrace st done.length rest acc).1, q.1.login.pid = p →
      lastValid p (h0.take (q.2 + 1)) = some q.1.login := by
  induction rest generalizing done st acc with
  | nil => simpa [runTrace] using hacc
  | cons op ops ih =>
    have hsplit : done ++ op :: ops = (done ++ [op]) ++ ops := by simp
    have hu1 : (openers p (done ++ [op])).length ≤ 1 :=
      Nat.le_trans (by rw [hh, hsplit]; exact openers_prefix p _ _) hu
    have hI' := inv_step done st op hI
    have hi' := invL_step op hi hu1
    obtain ⟨new, hnew, hn⟩ := emitted_latest (p := p) op hI hi
    have hdrop : (step st op).1.out.drop st.out.length = new := by rw [hnew]; simp
    have htake : h0.take (done.length + 1) = done ++ [op] := by
      rw [hh, hsplit]
      have : done.length + 1 = (done ++ [op]).length := by simp
      rw [this, List.take_left']
      rfl
    have hacc' : ∀ q ∈ acc ++ ((step st op).1.out.drop st.out.length).map (fun em => (em, done.length)),
        q.1.login.pid = p → lastValid p (h0.take (q.2 + 1)) = some q.1.login := by
      intro q hq hp
      rcases List.mem_append.mp hq with hq | hq
      · exact hacc q hq hp
      · obtain ⟨em, hem, rfl⟩ := List.mem_map.mp hq
        rw [hdrop] at hem
        simp only [htake]
        exact hn em hem hp
    simp only [runTrace]
    generalize hs : step st op = r at hI' hi' hacc' ⊢
    obtain ⟨st', e⟩ := r
    cases e with
    | none =>
      have := ih (done ++ [op]) st' _ (by rw [hh]; simp) hI' hi' hacc'
      simpa using this
    | some er => exact hacc'

def pickRec (x : Nat × Op) : Option (Nat × AEvent) :=
  match x.2 with
  | .audit e _ => if e.typ = .login && !(e.ses = [] || e.ses = strOf "unset") then some (x.1, e) else none
  | _ => none

theorem loginRecs_eq (h : List Op) : loginRecs h = (opsFrom 0 h).filterMap pickRec := by
  rw [← idxOps_eq]; rfl

theorem openers_length (p : Int) (k : Nat) (h : List Op) :
    (openers p h).length =
      (((opsFrom k h).filterMap pickRec).filter fun r => atoi r.2.pidTok = some p).length := by
  induction h generalizing k with
  | nil => simp [openers, auditsOf, opsFrom]
  | cons op r ih =>
    rw [opsFrom_cons, List.filterMap_cons]
    cases op with
    | audit e now =>
      have hr := ih (k + 1)
      simp only [openers, auditsOf, List.filter_cons] at hr ⊢
      by_cases hc1 : (e.typ = .login && !(e.ses = [] || e.ses = strOf "unset")) = true
      · have hpick : pickRec (k, Op.audit e now) = some (k, e) := by simp only [pickRec, hc1, if_true]
        simp only [hpick, List.filter_cons]
        simp only [Bool.and_eq_true, decide_eq_true_eq, Bool.not_eq_true'] at hc1
        by_cases h3 : atoi e.pidTok = some p
        · have : isOpenerOf p e = true := by simp [isOpenerOf, hc1.1, h3, hc1.2]
          simp only [this, if_true, h3, decide_true, List.length_cons, hr]
        · have : isOpenerOf p e = false := by simp [isOpenerOf, h3]
          simp only [this, h3, decide_false, Bool.false_eq_true, if_false, hr]
      · have hpick : pickRec (k, Op.audit e now) = none := by
          simp only [pickRec]
          rw [if_neg hc1]
        have : isOpenerOf p e = false := by
          simp only [Bool.and_eq_true, decide_eq_true_eq, Bool.not_eq_true', not_and] at hc1
          cases ht : decide (e.typ = .login)
          · simp [isOpenerOf, (by simpa using ht : ¬ e.typ = .login)]
          · have := hc1 (by simpa using ht)
            simp [isOpenerOf, this]
        simp only [hpick, this, Bool.false_eq_true, if_false, hr]
    | remoteLogin l => simpa [openers, auditsOf, pickRec] using ih (k + 1)
    | cleanSessions t => simpa [openers, auditsOf, pickRec] using ih (k + 1)
    | cleanLogins t => simpa [openers, auditsOf, pickRec] using ih (k + 1)

/-- the condition under which the judge applies the clause gives the theorem's hypothesis -/
theorem openers_le_of_count (p : Int) (h : List Op)
    (hc : count (fun r => atoi r.2.pidTok = some p) (loginRecs h) = 1) : (openers p h).length ≤ 1 := by
  rw [openers_length p 0 h]
  unfold count at hc
  rw [loginRecs_eq] at hc
  omega

/-- **The judge accepts the model, for every history.** -/
theorem latest_spec_holds (failAt : Option Nat) (h : List Op) :
    specLatest h (modelObs failAt h).1 = none := by
  unfold specLatest modelObs
  generalize hr : runTrace { failAt := failAt } 0 h [] = r
  obtain ⟨ems, st, e, eat⟩ := r
  simp only
  apply List.findSome?_eq_none_iff.mpr
  intro a ha
  obtain ⟨q, hq, rfl⟩ := List.mem_map.mp ha
  have htag := AM.C04S.runTrace_tagged h [] h { failAt := failAt } [] rfl (inv_init failAt) (by simp)
  simp only [List.length_nil, hr] at htag
  obtain ⟨_, _, _, r, hrm, hty, hses, hpid, hne, hnu⟩ := htag q hq
  have haid : (toAuditEvent q.1.login q.1.ev).2.1 = q.1.ev.ses := rfl
  simp only [haid]
  cases hop : opener h q.1.ev.ses with
  | none => rfl
  | some ir =>
    obtain ⟨i0, rec⟩ := ir
    simp only
    cases hat : atoi rec.pidTok with
    | none => rfl
    | some p =>
      simp only
      split
      · rfl
      · rename_i hcounts
        simp only [Bool.or_eq_true, decide_eq_true_eq, not_or, ne_eq, Decidable.not_not] at hcounts
        obtain ⟨hc1, hc2⟩ := hcounts
        -- the opener is the only LOGIN record of the session, so it is the record that justifies the event
        obtain ⟨i, now, _, hgi⟩ := AM.C04S.auditsOf_take h (q.2 + 1) r hrm
        have hrec : (i, r) ∈ loginRecs h := by
          unfold loginRecs idxOps
          apply List.mem_filterMap.mpr
          refine ⟨(i, .audit r now), (AM.C04S.mem_zip_range h i _).mpr hgi, ?_⟩
          simp [hty, hses, hne, hnu]
        have hopm : (i0, rec) ∈ loginRecs h ∧ rec.ses = q.1.ev.ses := by
          have := List.find?_some hop
          exact ⟨List.mem_of_find?_eq_some hop, by simpa using this⟩
        have hsame : rec = r := by
          -- two members of a list in which exactly one element has the session
          have hlen : ((loginRecs h).filter fun r' => r'.2.ses = q.1.ev.ses).length = 1 := hc1
          have m1 : (i0, rec) ∈ (loginRecs h).filter fun r' => r'.2.ses = q.1.ev.ses :=
            List.mem_filter.mpr ⟨hopm.1, by simpa using hopm.2⟩
          have m2 : (i, r) ∈ (loginRecs h).filter fun r' => r'.2.ses = q.1.ev.ses :=
            List.mem_filter.mpr ⟨hrec, by simpa using hses⟩
          obtain ⟨x, hx⟩ := List.length_eq_one_iff.mp hlen
          rw [hx] at m1 m2
          simp only [List.mem_singleton] at m1 m2
          have := m1.trans m2.symm
          exact (Prod.mk.inj this).2
        subst hsame
        have hpq : q.1.login.pid = p := by
          rw [hat] at hpid; exact (Option.some.inj hpid).symm
        have hu := openers_le_of_count p h hc2
        have hlat := runTrace_latest p h [] h { failAt := failAt } [] rfl (inv_init failAt) (invL_init p failAt) hu (by simp)
        simp only [List.length_nil, hr] at hlat
        have hl := hlat q hq hpq
        rw [lastValid_take] at hl
        cases hg : ((loginOps h).filter fun l => l.2.pid = p && l.2.valid && l.1 ≤ q.2).getLast? with
        | none => rfl
        | some jl =>
          rw [hg] at hl
          simp only [Option.map_some, Option.some.injEq] at hl
          simp only
          have : ({ ev := (toAuditEvent q.1.login q.1.ev).1, aid := q.1.ev.ses, ts := (toAuditEvent q.1.login q.1.ev).2.2, idx := q.2 } : ObsAction).identity = identOf jl.2 := by
            rw [hl]; rfl
          simp [this]

/-- C01's first sentence, for EVERY history and write oracle: the identity content of an emitted event is, as a whole,
that of one delivered login (`Spec.Tracker.specWholeIdentity`, part of C01's judge; proved in `C14Spec`) -/
theorem whole_identity_spec_holds (failAt : Option Nat) (h : List Op) :
    specWholeIdentity h (modelObs failAt h).1 = none := AM.C14S.whole_identity_spec_holds failAt h

end AM.C01S
