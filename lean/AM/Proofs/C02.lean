import AM.Model.Tracker
/-! # C02 — every record of a correlated session is emitted exactly once, in order

Stated as a conservation law over ALL histories: for every session the tracker still holds, the
events already emitted for it followed by the events still cached for it are exactly the session's
records since its LOGIN record, in processing order (nothing lost, duplicated or reordered);
nothing is emitted before the login is known, nothing is held back afterwards. -/
namespace AM.C02
open AM AM.Tr

/-! ### definitions -/

/-- the events emitted so far for session `s`, in emission order -/
def outOf (st : St) (s : Str) : List AEvent := (st.out.filter (fun em => em.ev.ses = s)).map (·.ev)

/-- the audit events of a history, in processing order -/
def auditsOf : List Op → List AEvent
  | [] => []
  | .audit e _ :: r => e :: auditsOf r
  | _ :: r => auditsOf r

/-- the audit events of session `s` in `h`, starting at its first LOGIN-type record (inclusive),
in order; `[]` if there is none -/
def recsFrom (h : List Op) (s : Str) : List AEvent :=
  ((auditsOf h).filter (fun e => e.ses = s)).dropWhile (fun e => decide (e.typ ≠ .login))

/-- for every session id there is at most one LOGIN-type record in the history -/
def uniqueOpener (h : List Op) : Prop :=
  ∀ s, (auditsOf h).countP (fun e => decide (e.typ = .login ∧ e.ses = s)) ≤ 1

/-- the history contains a LOGIN-type record of session `s` -/
def hasLogin (h : List Op) (s : Str) : Prop := ∃ e ∈ auditsOf h, e.typ = .login ∧ e.ses = s

/-! ### list facts -/

theorem dropWhile_eq_nil {α} {p : α → Bool} {l : List α} (h : ∀ a ∈ l, p a = true) :
    l.dropWhile p = [] := by
  have := @List.dropWhile_append_of_pos α p l [] h
  simpa using this

theorem dropWhile_ne_nil {α} {p : α → Bool} {l : List α} {a : α} (ha : a ∈ l) (hp : p a = false) :
    l.dropWhile p ≠ [] := by
  induction l with
  | nil => cases ha
  | cons x r ih =>
    rw [List.dropWhile_cons]
    split
    · rename_i hx
      rcases List.mem_cons.mp ha with rfl | ha
      · rw [hp] at hx; cases hx
      · exact ih ha
    · simp

theorem dropWhile_snoc_of_ne_nil {α} {p : α → Bool} {l : List α} {x : α} (h : l.dropWhile p ≠ []) :
    (l ++ [x]).dropWhile p = l.dropWhile p ++ [x] := by
  rw [List.dropWhile_append]
  split
  · rename_i he
    exact absurd (List.isEmpty_iff.mp he) h
  · rfl

theorem auditsOf_append (h h' : List Op) : auditsOf (h ++ h') = auditsOf h ++ auditsOf h' := by
  induction h with
  | nil => rfl
  | cons o r ih => cases o <;> simp [auditsOf, ih]

theorem auditsOf_snoc_audit (h : List Op) (e : AEvent) (now : Time) :
    auditsOf (h ++ [.audit e now]) = auditsOf h ++ [e] := by
  rw [auditsOf_append]; rfl

theorem auditsOf_snoc_other (h : List Op) (op : Op) (hop : ∀ e now, op ≠ .audit e now) :
    auditsOf (h ++ [op]) = auditsOf h := by
  rw [auditsOf_append]
  cases op with
  | audit e now => exact absurd rfl (hop e now)
  | _ => simp [auditsOf]

/-! ### how `recsFrom`, `hasLogin`, `uniqueOpener` evolve when the history grows -/

theorem recsFrom_snoc_other (h : List Op) (op : Op) (hop : ∀ e now, op ≠ .audit e now) (s : Str) :
    recsFrom (h ++ [op]) s = recsFrom h s := by
  simp only [recsFrom, auditsOf_snoc_other h op hop]

theorem recsFrom_snoc_ne (h : List Op) (e : AEvent) (now : Time) (s : Str) (hne : e.ses ≠ s) :
    recsFrom (h ++ [.audit e now]) s = recsFrom h s := by
  simp [recsFrom, auditsOf_snoc_audit, List.filter_append, hne]

theorem hasLogin_mono {h : List Op} {s : Str} (op : Op) (hl : hasLogin h s) :
    hasLogin (h ++ [op]) s := by
  obtain ⟨e, he, h1⟩ := hl
  exact ⟨e, by rw [auditsOf_append]; exact List.mem_append_left _ he, h1⟩

theorem hasLogin_snoc (h : List Op) (e : AEvent) (now : Time) (ht : e.typ = .login) :
    hasLogin (h ++ [.audit e now]) e.ses :=
  ⟨e, by rw [auditsOf_snoc_audit]; simp, ht, rfl⟩

theorem recsFrom_ne_nil {h : List Op} {s : Str} (hl : hasLogin h s) : recsFrom h s ≠ [] := by
  obtain ⟨e, he, ht, hs⟩ := hl
  refine dropWhile_ne_nil (a := e) (List.mem_filter.mpr ⟨he, by simp [hs]⟩) (by simp [ht])

theorem recsFrom_snoc_tracked (h : List Op) (e : AEvent) (now : Time) (hl : hasLogin h e.ses) :
    recsFrom (h ++ [.audit e now]) e.ses = recsFrom h e.ses ++ [e] := by
  have := recsFrom_ne_nil hl
  simp only [recsFrom] at this ⊢
  rw [auditsOf_snoc_audit, List.filter_append]
  have : List.filter (fun e' : AEvent => decide (e'.ses = e.ses)) [e] = [e] := by simp
  rw [this]
  exact dropWhile_snoc_of_ne_nil ‹_›

theorem recsFrom_snoc_open (h : List Op) (e : AEvent) (now : Time) (hl : ¬ hasLogin h e.ses)
    (ht : e.typ = .login) : recsFrom (h ++ [.audit e now]) e.ses = [e] := by
  simp only [recsFrom]
  rw [auditsOf_snoc_audit, List.filter_append]
  have : List.filter (fun e' : AEvent => decide (e'.ses = e.ses)) [e] = [e] := by simp
  rw [this, List.dropWhile_append_of_pos]
  · simp [ht]
  · intro a ha
    have ham := List.mem_filter.mp ha
    have hs : a.ses = e.ses := by simpa using ham.2
    have : a.typ ≠ .login := fun hta => hl ⟨a, ham.1, hta, hs⟩
    simpa using this

theorem uniqueOpener_prefix {h h' : List Op} (hu : uniqueOpener (h ++ h')) : uniqueOpener h := by
  intro s
  have := hu s
  rw [auditsOf_append, List.countP_append] at this
  omega

theorem uniqueOpener_fresh {h : List Op} {e : AEvent} {now : Time}
    (hu : uniqueOpener (h ++ [.audit e now])) (ht : e.typ = .login) : ¬ hasLogin h e.ses := by
  intro hl
  have := hu e.ses
  rw [auditsOf_snoc_audit, List.countP_append] at this
  have h1 : 0 < (auditsOf h).countP (fun e' => decide (e'.typ = .login ∧ e'.ses = e.ses)) := by
    rw [List.countP_pos_iff]
    obtain ⟨e', he', h1, h2⟩ := hl
    exact ⟨e', he', by simp [h1, h2]⟩
  have h2 : [e].countP (fun e' => decide (e'.typ = .login ∧ e'.ses = e.ses)) = 1 := by
    simp [ht]
  omega

/-! ### a writer that never fails -/

theorem write1_ok (st : St) (l : Login) (e : AEvent) (hf : st.failAt = none) :
    write1 st l e = ({ st with writes := st.writes + 1, out := st.out ++ [⟨e, l⟩] }, true) := by
  simp [write1, hf]

theorem writeAll_ok (st : St) (l : Login) (es : List AEvent) (hf : st.failAt = none) :
    writeAll st l es =
      ({ st with writes := st.writes + es.length, out := st.out ++ es.map (fun e => ⟨e, l⟩) }, true) := by
  induction es generalizing st with
  | nil => simp [writeAll]
  | cons e es ih =>
    simp only [writeAll, write1_ok st l e hf]
    rw [ih { st with writes := st.writes + 1, out := st.out ++ [⟨e, l⟩] } hf]
    simp [Nat.add_assoc, Nat.add_comm 1]

/-! ### emitted events per session -/

theorem filter_emit (l : Login) (es : List AEvent) (s : Str) :
    ((es.map (fun e => (⟨e, l⟩ : Emitted))).filter (fun em => em.ev.ses = s)).map (·.ev) =
      es.filter (fun e => e.ses = s) := by
  induction es with
  | nil => rfl
  | cons e r ih =>
    by_cases hs : e.ses = s
    · simp only [List.map_cons, List.filter_cons, hs, decide_true, if_true, ih]
    · simp only [List.map_cons, List.filter_cons, hs, decide_false]
      exact ih

theorem outOf_emit (st st' : St) (l : Login) (es : List AEvent) (s : Str)
    (hout : st'.out = st.out ++ es.map (fun e => ⟨e, l⟩)) :
    outOf st' s = outOf st s ++ es.filter (fun e => e.ses = s) := by
  simp only [outOf, hout, List.filter_append, List.map_append, filter_emit]

theorem outOf_emit_same (st st' : St) (l : Login) (es : List AEvent) (s : Str)
    (hout : st'.out = st.out ++ es.map (fun e => ⟨e, l⟩)) (hes : ∀ e ∈ es, e.ses = s) :
    outOf st' s = outOf st s ++ es := by
  rw [outOf_emit st st' l es s hout]
  congr 1
  exact List.filter_eq_self.mpr (fun a ha => by simp [hes a ha])

theorem outOf_emit_other (st st' : St) (l : Login) (es : List AEvent) (s s0 : Str)
    (hout : st'.out = st.out ++ es.map (fun e => ⟨e, l⟩)) (hes : ∀ e ∈ es, e.ses = s0)
    (hne : s ≠ s0) : outOf st' s = outOf st s := by
  rw [outOf_emit st st' l es s hout]
  have : es.filter (fun e => decide (e.ses = s)) = [] :=
    List.filter_eq_nil_iff.mpr (fun a ha => by simp [hes a ha, Ne.symm hne])
  rw [this, List.append_nil]

theorem outOf_same (st st' : St) (s : Str) (hout : st'.out = st.out) : outOf st' s = outOf st s := by
  simp only [outOf, hout]

theorem outOf_nil_of_not_hasLogin {h : List Op} {st : St} {s : Str}
    (hopen : ∀ em ∈ st.out, hasLogin h em.ev.ses) (hl : ¬ hasLogin h s) : outOf st s = [] := by
  simp only [outOf, List.map_eq_nil_iff, List.filter_eq_nil_iff]
  intro em hem hs
  have := hopen em hem
  simp only [decide_eq_true_eq] at hs
  rw [hs] at this
  exact hl this

/-! ### the invariant -/

/-- what holds of one tracked session -/
structure Good (h : List Op) (st : St) (s : Str) (u : User) : Prop where
  ne1 : s ≠ []
  ne2 : s ≠ strOf "unset"
  opened : hasLogin h s
  cachedSes : ∀ e ∈ u.cached, e.ses = s
  cons : outOf st s ++ u.cached = recsFrom h s
  pending : u.login = none → outOf st s = []
  flushed : u.login ≠ none → u.cached = []

structure Inv (h : List Op) (st : St) : Prop where
  nofail : st.failAt = none
  uniq : aUnique st.sessions
  outOpen : ∀ em ∈ st.out, hasLogin h em.ev.ses
  good : ∀ s u, (s, u) ∈ st.sessions → Good h st s u

theorem inv_init : Inv [] {} :=
  ⟨rfl, (by simp [aUnique]), (fun em hem => by cases hem), (fun s u hm => by cases hm)⟩

/-- a step that emits nothing and only removes sessions (or leaves them alone) -/
theorem inv_same {h h' : List Op} {st st' : St} (hi : Inv h st)
    (hf : st'.failAt = none) (hout : st'.out = st.out)
    (hsub : st'.sessions.Sublist st.sessions)
    (hrec : ∀ s u, (s, u) ∈ st.sessions → recsFrom h' s = recsFrom h s)
    (hlog : ∀ s, hasLogin h s → hasLogin h' s) : Inv h' st' := by
  refine ⟨hf, List.Nodup.sublist (hsub.map _) hi.uniq, ?_, ?_⟩
  · intro em hem; rw [hout] at hem; exact hlog _ (hi.outOpen em hem)
  · intro s u hm
    have hm0 := hsub.subset hm
    have g := hi.good s u hm0
    have ho := outOf_same st st' s hout
    exact ⟨g.ne1, g.ne2, hlog _ g.opened, g.cachedSes, by rw [ho, hrec s u hm0]; exact g.cons,
      fun hn => by rw [ho]; exact g.pending hn, g.flushed⟩

/-- a step that emits `es` (all of session `s0`) and stores or erases the entry of `s0` -/
theorem inv_upd {h h' : List Op} {st st' : St} (hi : Inv h st) (s0 : Str) (es : List AEvent)
    (l : Login) (hf : st'.failAt = none)
    (hout : st'.out = st.out ++ es.map (fun e => ⟨e, l⟩))
    (hes : ∀ e ∈ es, e.ses = s0)
    (hrec : ∀ s, s ≠ s0 → recsFrom h' s = recsFrom h s)
    (hlog : ∀ s, hasLogin h s → hasLogin h' s)
    (hs0 : hasLogin h' s0)
    (huniq : aUnique st'.sessions)
    (hmem : ∀ s u, (s, u) ∈ st'.sessions → ((s, u) ∈ st.sessions ∧ s ≠ s0) ∨
      (s = s0 ∧ s0 ≠ [] ∧ s0 ≠ strOf "unset" ∧ (∀ e ∈ u.cached, e.ses = s0) ∧
        outOf st s0 ++ es ++ u.cached = recsFrom h' s0 ∧
        (u.login = none → outOf st s0 = [] ∧ es = []) ∧ (u.login ≠ none → u.cached = []))) :
    Inv h' st' := by
  refine ⟨hf, huniq, ?_, ?_⟩
  · intro em hem
    rw [hout] at hem
    rcases List.mem_append.mp hem with hem | hem
    · exact hlog _ (hi.outOpen em hem)
    · obtain ⟨e, he, rfl⟩ := List.mem_map.mp hem
      simp only [hes e he]; exact hs0
  · intro s u hm
    rcases hmem s u hm with ⟨hm0, hne⟩ | ⟨rfl, h1, h2, h3, h4, h5, h6⟩
    · have g := hi.good s u hm0
      have ho := outOf_emit_other st st' l es s s0 hout hes hne
      exact ⟨g.ne1, g.ne2, hlog _ g.opened, g.cachedSes, by rw [ho, hrec s hne]; exact g.cons,
        fun hn => by rw [ho]; exact g.pending hn, g.flushed⟩
    · have ho := outOf_emit_same st st' l es s hout hes
      refine ⟨h1, h2, hs0, h3, by rw [ho]; exact h4, ?_, h6⟩
      intro hn
      rw [ho, (h5 hn).1, (h5 hn).2]; rfl

/-! ### one step -/

/-- a placeholder where no event is emitted -/
private def noLogin : Login := ⟨0, [], false, [], [], [], [], [], 0⟩

theorem inv_step (h : List Op) (st : St) (op : Op) (hi : Inv h st)
    (hu : uniqueOpener (h ++ [op])) : Inv (h ++ [op]) (step st op).1 := by
  have hf := hi.nofail
  have hlog : ∀ s, hasLogin h s → hasLogin (h ++ [op]) s := fun s hl => hasLogin_mono op hl
  cases op with
  | cleanSessions t =>
    exact inv_same hi hf rfl List.filter_sublist
      (fun s _ _ => recsFrom_snoc_other h _ (by intro e now; simp) s) hlog
  | cleanLogins t =>
    exact inv_same hi hf rfl (List.Sublist.refl _)
      (fun s _ _ => recsFrom_snoc_other h _ (by intro e now; simp) s) hlog
  | remoteLogin l =>
    have hrec : ∀ s, recsFrom (h ++ [Op.remoteLogin l]) s = recsFrom h s :=
      fun s => recsFrom_snoc_other h _ (by intro e now; simp) s
    simp only [step, remoteLogin]
    split
    · exact inv_same hi hf rfl (List.Sublist.refl _) (fun s _ _ => hrec s) hlog
    · split
      · rename_i s0 u0 more hfil
        have hmem0 : (s0, u0) ∈ st.sessions := by
          have : (s0, u0) ∈ st.sessions.filter (fun p => p.2.srcPID == l.pid) := by
            rw [hfil]; exact List.mem_cons_self
          exact (List.mem_filter.mp this).1
        have g := hi.good s0 u0 hmem0
        simp only [writeAll_ok { st with ambiguous := st.ambiguous || !more.isEmpty } l u0.cached hf]
        refine inv_upd hi s0 u0.cached l hf rfl g.cachedSes (fun s _ => hrec s) hlog
          (hlog _ g.opened) ?_ ?_
        · simp only
          split
          · exact aUnique_erase hi.uniq
          · exact aUnique_store hi.uniq
        · intro s u hm
          simp only at hm
          split at hm
          · left; exact mem_aErase hm
          · rcases mem_aStore hm with heq | hm'
            · right
              cases heq
              exact ⟨rfl, g.ne1, g.ne2, by simp, by rw [hrec]; simpa using g.cons, by simp, by simp⟩
            · left; exact hm'
      · exact inv_same hi hf rfl (List.Sublist.refl _) (fun s _ _ => hrec s) hlog
  | audit e now =>
    simp only [step, audit]
    split
    · -- no session id: ignored
      rename_i hign
      refine inv_same hi hf rfl (List.Sublist.refl _) (fun s u hm => ?_) hlog
      have g := hi.good s u hm
      apply recsFrom_snoc_ne
      intro he
      simp only [Bool.or_eq_true, decide_eq_true_eq] at hign
      rcases hign with h1 | h1
      · exact g.ne1 (he ▸ h1)
      · exact g.ne2 (he ▸ h1)
    · rename_i hign
      simp only [Bool.or_eq_true, decide_eq_true_eq, not_or] at hign
      have hrec : ∀ s, s ≠ e.ses → recsFrom (h ++ [Op.audit e now]) s = recsFrom h s :=
        fun s hne => recsFrom_snoc_ne h e now s (Ne.symm hne)
      split
      · rename_i u0 hlook
        have hmem0 := aLookup_mem hlook
        have g := hi.good _ _ hmem0
        have hr := recsFrom_snoc_tracked h e now g.opened
        split
        · -- tracked, login not yet known: cache
          rename_i hnone
          refine inv_upd hi e.ses [] noLogin hf (by simp) (by simp) hrec hlog (hlog _ g.opened)
            (aUnique_store hi.uniq) ?_
          intro s u hm
          rcases mem_aStore hm with heq | hm'
          · right
            cases heq
            refine ⟨rfl, g.ne1, g.ne2, ?_, ?_, ?_, ?_⟩
            · intro e' he'
              rcases List.mem_append.mp he' with he' | he'
              · exact g.cachedSes e' he'
              · rw [List.mem_singleton.mp he']
            · rw [hr, ← g.cons]; simp
            · intro _; exact ⟨g.pending hnone, rfl⟩
            · intro hn; exact absurd hnone hn
          · left; exact hm'
        · -- tracked, login known: flush the cache and emit
          rename_i l0 hl0
          have hc : u0.cached = [] := g.flushed (by rw [hl0]; simp)
          simp only [writeAll_ok st l0 u0.cached hf]
          simp (disch := exact hf) only [write1_ok]
          refine inv_upd hi e.ses (u0.cached ++ [e]) l0 hf (by simp) ?_ hrec hlog (hlog _ g.opened)
            ?_ ?_
          · intro e' he'
            rcases List.mem_append.mp he' with he' | he'
            · exact g.cachedSes e' he'
            · rw [List.mem_singleton.mp he']
          · simp only
            split
            · exact aUnique_erase hi.uniq
            · exact aUnique_store hi.uniq
          · intro s u hm
            simp only at hm
            split at hm
            · left; exact mem_aErase hm
            · rcases mem_aStore hm with heq | hm'
              · right
                cases heq
                refine ⟨rfl, g.ne1, g.ne2, by simp, ?_, ?_, by simp⟩
                · rw [hr, ← g.cons]; simp
                · intro hn; simp [hl0] at hn
              · left; exact hm'
      · rename_i hlook
        have hnot := aLookup_none hlook
        split
        · -- not tracked, not a LOGIN record: ignored
          refine inv_same hi hf rfl (List.Sublist.refl _) (fun s u hm => ?_) hlog
          exact hrec s (hnot (s, u) hm)
        · rename_i htyp
          have htyp : e.typ = .login := Decidable.of_not_not htyp
          have hfresh := uniqueOpener_fresh hu htyp
          have hr := recsFrom_snoc_open h e now hfresh htyp
          have ho := outOf_nil_of_not_hasLogin hi.outOpen hfresh
          have hop := hasLogin_snoc h e now htyp
          split
          · -- the PID does not parse: error, state unchanged
            refine inv_same hi hf rfl (List.Sublist.refl _) (fun s u hm => ?_) hlog
            exact hrec s (hnot (s, u) hm)
          · rename_i p hp
            split
            · -- the login is parked: correlate and emit
              rename_i l0 hl0
              simp (disch := exact hf) only [write1_ok]
              refine inv_upd hi e.ses [e] l0 hf (by simp) (by simp) hrec hlog hop
                (aUnique_store hi.uniq) ?_
              intro s u hm
              rcases mem_aStore hm with heq | hm'
              · right
                cases heq
                exact ⟨rfl, hign.1, hign.2, by simp, by rw [hr, ho]; simp, by simp, by simp⟩
              · left; exact hm'
            · -- no login yet: open the session and cache the LOGIN record
              refine inv_upd hi e.ses [] noLogin hf (by simp) (by simp) hrec hlog hop
                (aUnique_store hi.uniq) ?_
              intro s u hm
              rcases mem_aStore hm with heq | hm'
              · right
                cases heq
                exact ⟨rfl, hign.1, hign.2, by simp, by rw [hr, ho]; simp, by simp [ho], by simp⟩
              · left; exact hm'

/-! ### whole runs -/

/-- `run` processes a prefix of the history (all of it when it reports no error; up to and
including the failing operation otherwise) and the invariant holds of that prefix. -/
theorem run_inv (ops : List Op) : ∀ (h : List Op) (st : St), Inv h st → uniqueOpener (h ++ ops) →
    ∃ k, k ≤ ops.length ∧ Inv (h ++ ops.take k) (run st ops).1 ∧
      ((run st ops).2 = none → k = ops.length) := by
  induction ops with
  | nil =>
    intro h st hi _
    exact ⟨0, Nat.le_refl _, by simpa [run] using hi, fun _ => rfl⟩
  | cons op ops ih =>
    intro h st hi hu
    have hu1 : uniqueOpener (h ++ [op]) := by
      apply uniqueOpener_prefix (h' := ops)
      simpa using hu
    have hi' := inv_step h st op hi hu1
    simp only [run]
    split
    · rename_i st' hs
      rw [hs] at hi'
      obtain ⟨k, hk, hinv, hlen⟩ := ih (h ++ [op]) st' hi' (by simpa using hu)
      refine ⟨k + 1, by simp [hk], ?_, fun he => by simp [hlen he]⟩
      simpa using hinv
    · rename_i st' er hs
      rw [hs] at hi'
      refine ⟨1, by simp, by simpa using hi', fun he => by cases he⟩

/-- The conservation law for the part of the history that was processed: `run` stops at the first
error, so in general that part is a prefix `h.take k` (which includes the failing operation). -/
theorem conservation_prefix (h : List Op) (huniq : uniqueOpener h) :
    let st := (run {} h).1
    ∃ k, k ≤ h.length ∧ ((run {} h).2 = none → k = h.length) ∧
      ∀ s u, (s, u) ∈ st.sessions →
        outOf st s ++ u.cached = recsFrom (h.take k) s ∧ (u.login = none → outOf st s = []) ∧
        (u.login ≠ none → u.cached = []) := by
  obtain ⟨k, hk, hinv, hlen⟩ := run_inv h [] {} inv_init (by simpa using huniq)
  refine ⟨k, hk, hlen, fun s u hm => ?_⟩
  have g := hinv.good s u hm
  exact ⟨by simpa using g.cons, g.pending, g.flushed⟩

/-- **Conservation** (closest true version of `conservation`: the run reports no error, i.e. no
`RemoteLogin` was rejected and no LOGIN record had an unparsable PID — otherwise the processor
stops and the rest of the history is not processed at all, see `conservation_counterexample`).
For every session still tracked, what has been emitted for it followed by what is still held is
exactly the list of its records since the LOGIN record, in processing order; nothing is emitted
before the login is known; after the login nothing is held back. -/
theorem conservation_partial (h : List Op) (huniq : uniqueOpener h) (hok : (run {} h).2 = none) :
    let st := (run {} h).1
    ∀ s u, (s, u) ∈ st.sessions →
      outOf st s ++ u.cached = recsFrom h s ∧ (u.login = none → outOf st s = []) ∧
      (u.login ≠ none → u.cached = []) := by
  obtain ⟨k, _, hlen, hc⟩ := conservation_prefix h huniq
  intro st s u hm
  have := hc s u hm
  rw [hlen hok, List.take_length] at this
  exact this

/-- the same from any state that satisfies the invariant, e.g. mid-run -/
theorem conservation_from (h ops : List Op) (st : St) (hi : Inv h st)
    (huniq : uniqueOpener (h ++ ops)) (hok : (run st ops).2 = none) :
    Inv (h ++ ops) (run st ops).1 := by
  obtain ⟨k, _, hinv, hlen⟩ := run_inv ops h st hi huniq
  rw [hlen hok, List.take_length] at hinv
  exact hinv

/-! ### the statement without the no-error hypothesis is false -/

def cxLogin : AEvent := ⟨1, strOf "5", .login, strOf "77", strOf "success", [], [], [], []⟩
def cxOther : AEvent := ⟨2, strOf "5", .other, strOf "77", strOf "success", [], [], [], []⟩
/-- an invalid login (`Source == nil`): `RemoteLogin` returns an error and the processor stops -/
def cxBad : Login := ⟨77, strOf "alice", false, [], [], [], [], [], 0⟩
def cxHistory : List Op := [.audit cxLogin 0, .remoteLogin cxBad, .audit cxOther 2]

/- error, emitted for "5", cached for "5", records of "5" since LOGIN (by timestamp):
   `(some badLogin, [], [[1]], [1, 2])` — record 2 is in the history but was never processed -/
#eval ((run {} cxHistory).2, (outOf (run {} cxHistory).1 (strOf "5")).map (·.ts),
  (run {} cxHistory).1.sessions.map (fun p => p.2.cached.map (·.ts)),
  (recsFrom cxHistory (strOf "5")).map (·.ts))

theorem conservation_counterexample :
    uniqueOpener cxHistory ∧ (run {} cxHistory).2 = some .badLogin ∧
    ∃ s u, (s, u) ∈ (run {} cxHistory).1.sessions ∧
      outOf (run {} cxHistory).1 s ++ u.cached ≠ recsFrom cxHistory s := by
  refine ⟨?_, by decide, strOf "5", ⟨0, 77, none, [cxLogin]⟩, by decide, by decide⟩
  intro s
  simp only [cxHistory, auditsOf, List.countP_cons, List.countP_nil, cxOther]
  split
  · rename_i hc; simp at hc
  · split <;> omega

/-! ### release and disposal -/

/-- When the login arrives, the cached records of the session it is matched with are emitted in
the order in which they were cached, all with that login, and nothing else is emitted. -/
theorem release_in_order (st : St) (l : Login) (s : Str) (u : User)
    (hhead : (st.sessions.filter (fun p => p.2.srcPID == l.pid)).head? = some (s, u))
    (hv : l.valid = true) (hf : st.failAt = none) :
    (step st (.remoteLogin l)).1.out = st.out ++ u.cached.map (fun e => ⟨e, l⟩) := by
  obtain ⟨more, hfil⟩ := List.head?_eq_some_iff.mp hhead
  simp only [step, remoteLogin, hv, hfil]
  simp only [writeAll_ok { st with ambiguous := st.ambiguous || !more.isEmpty } l u.cached hf]
  simp

theorem aLookup_aErase_self {κ α} [DecidableEq κ] (k : κ) (m : List (κ × α)) :
    aLookup k (aErase k m) = none := by
  induction m with
  | nil => rfl
  | cons y r ih =>
    obtain ⟨k', v⟩ := y
    simp only [aErase]
    split
    · exact ih
    · rename_i hne; simp [aLookup, hne, ih]

/-- The credential-disposal record of a correlated session: whatever is still cached and then the
record itself are emitted, in that order, with the session's login, and the session is closed.
(`aErase` removes every entry under the key, so `aUnique st.sessions` is not needed.) -/
theorem disposal_closes (st : St) (e : AEvent) (now : Time) (u : User) (l : Login)
    (hlook : aLookup e.ses st.sessions = some u) (hl : u.login = some l)
    (ht : e.typ = .credDisp) (h1 : e.ses ≠ []) (h2 : e.ses ≠ strOf "unset")
    (hf : st.failAt = none) :
    (step st (.audit e now)).1.out = st.out ++ (u.cached ++ [e]).map (fun x => ⟨x, l⟩) ∧
    aLookup e.ses (step st (.audit e now)).1.sessions = none := by
  simp only [step, audit, h1, h2, hlook, hl, ht, writeAll_ok st l u.cached hf]
  simp (disch := exact hf) only [write1_ok]
  simp [aLookup_aErase_self]

/-! ### a concrete history -/

def exEv (ts : Int) (ses : String) (t : EvType) (pid : String) : AEvent :=
  ⟨ts, strOf ses, t, strOf pid, strOf "success", strOf "act", strOf "how", strOf "obj", []⟩

def exAlice : Login :=
  ⟨77, strOf "alice", true, [("userID", strOf "alice")], strOf "IP", strOf "10.0.0.1", [], [], 3⟩

/-- session 5 (PID 77): LOGIN record, two more records, then the login, one more record, the
disposal record, and a record after the end; session 6 (PID 88) opens in between and stays
pending -/
def exHistory : List Op :=
  [ .audit (exEv 1 "5" .login "77") 1,
    .audit (exEv 2 "5" .other "77") 2,
    .audit (exEv 3 "6" .login "88") 3,
    .audit (exEv 4 "5" .other "77") 4,
    .audit (exEv 5 "6" .other "88") 5,
    .remoteLogin exAlice,
    .audit (exEv 6 "5" .other "77") 6,
    .audit (exEv 7 "5" .credDisp "77") 7,
    .audit (exEv 8 "5" .other "77") 8 ]

/-- exactly the five records of session 5 from LOGIN to disposal, in order, all as alice; nothing
of the pending session; nothing after the end of the session -/
example :
    (run {} exHistory).1.out =
      [ ⟨exEv 1 "5" .login "77", exAlice⟩, ⟨exEv 2 "5" .other "77", exAlice⟩,
        ⟨exEv 4 "5" .other "77", exAlice⟩, ⟨exEv 6 "5" .other "77", exAlice⟩,
        ⟨exEv 7 "5" .credDisp "77", exAlice⟩ ] ∧
    (run {} exHistory).2 = none ∧
    (run {} exHistory).1.sessions.map (·.1) = [strOf "6"] := by
  decide

end AM.C02
