import AM.Gen.Consts
import AM.Proofs.Forms.AcceptedKey
import AM.Proofs.Forms.AcceptedCert
import AM.Proofs.Forms.AcceptedPassword
import AM.Proofs.Forms.CertInvalid
import AM.Proofs.Forms.InvalidUser
import AM.Proofs.Forms.NotInAllowUsers
import AM.Proofs.Forms.NonExistentShell
import AM.Proofs.Forms.NonExecShell
import AM.Proofs.Forms.InDenyUsers
import AM.Proofs.Forms.NotInAnyGroup
import AM.Proofs.Forms.GroupInDenyGroups
import AM.Proofs.Forms.GroupNotInAllowGroups
import AM.Proofs.Forms.RootLoginRefused
import AM.Proofs.Forms.BadOwner
import AM.Proofs.Forms.NastyPTR
import AM.Proofs.Forms.ReverseMapping
import AM.Proofs.Forms.DoesNotMapBack
import AM.Proofs.Forms.MaxAuth
import AM.Proofs.Forms.RevokedByFile
import AM.Proofs.Forms.RevokedErr
import AM.Proofs.Forms.FailedPassword
/-! # C06 — each supported OpenSSH message yields one UserLogin with exactly its fields

`form_correct` is the property at full strength on the model: for every one of the 21 message
forms and every choice of field values in the form's (decidable, field-level) domain, processing
the line sshd prints yields exactly the expected observation — one metric increment under the
form's label, ONE event whose every field equals the value in the message (outcome `succeeded`
only for accepted authentications, component `sshd`, the line's PID, node name and machine id),
and for accepted forms the hand-off of the login. The regular expressions, both dispatch tables
and the metric labels this is proved about are regenerated from the source on every run. -/
namespace AM.C06
open AM AM.Rx AM.Sshd AM.Spec AM.Gen

/-- `Cfg.node` / `Cfg.mid` stand for this node's name and machine id: `RunNamedPipe` passes what `GetNodeName` and
`GetMachineID` returned to `NewSshdProcessor`, in that order (regenerated fact) -/
theorem gen_identity_wiring : AM.Gen.identityWiredInOrder = true := rfl


theorem form_correct (cfg : Cfg) (pid : Str) (f : Form) (fs : List Str) (ok : Bool) (h : Handoff)
    (hd : inDomain f fs = true) (hpid : f.accepted = true → ∃ n, atoi pid = some n) :
    ∀ line, lineOf f fs = some line →
      some (process cfg pid line ok h) = expectedOut cfg pid f fs ok h := by
  cases f
  · -- acceptedKey
    rcases fs with _ | ⟨x0, _ | ⟨x1, _ | ⟨x2, _ | ⟨x3, _ | ⟨x4, _ | ⟨x5, _ | ⟨x6, _ | ⟨y, ys⟩⟩⟩⟩⟩⟩⟩⟩ <;> simp [inDomain] at hd
    exact acceptedKey_process cfg pid x0 x1 x2 x3 x4 x5 x6 ok h (by simp [inDomain, hd]) (hpid rfl)
  · -- acceptedCert
    rcases fs with _ | ⟨x0, _ | ⟨x1, _ | ⟨x2, _ | ⟨x3, _ | ⟨x4, _ | ⟨x5, _ | ⟨x6, _ | ⟨x7, _ | ⟨x8, _ | ⟨x9, _ | ⟨x10, _ | ⟨y, ys⟩⟩⟩⟩⟩⟩⟩⟩⟩⟩⟩⟩ <;> simp [inDomain] at hd
    exact acceptedCert_process cfg pid x0 x1 x2 x3 x4 x5 x6 x7 x8 x9 x10 ok h (by simp [inDomain, hd]) (hpid rfl)
  · -- acceptedPassword
    rcases fs with _ | ⟨x0, _ | ⟨x1, _ | ⟨x2, _ | ⟨x3, _ | ⟨y, ys⟩⟩⟩⟩⟩ <;> simp [inDomain] at hd
    exact acceptedPassword_process cfg pid x0 x1 x2 x3 ok h (by simp [inDomain, hd]) (hpid rfl)
  · -- certInvalid
    rcases fs with _ | ⟨x0, _ | ⟨y, ys⟩⟩ <;> simp [inDomain] at hd
    exact certInvalid_process cfg pid x0 ok h (by simp [inDomain, hd])
  · -- invalidUser
    rcases fs with _ | ⟨x0, _ | ⟨x1, _ | ⟨x2, _ | ⟨y, ys⟩⟩⟩⟩ <;> simp [inDomain] at hd
    exact invalidUser_process cfg pid x0 x1 x2 ok h (by simp [inDomain, hd])
  · -- notInAllowUsers
    rcases fs with _ | ⟨x0, _ | ⟨x1, _ | ⟨y, ys⟩⟩⟩ <;> simp [inDomain] at hd
    exact notInAllowUsers_process cfg pid x0 x1 ok h (by simp [inDomain, hd])
  · -- nonExistentShell
    rcases fs with _ | ⟨x0, _ | ⟨x1, _ | ⟨y, ys⟩⟩⟩ <;> simp [inDomain] at hd
    exact nonExistentShell_process cfg pid x0 x1 ok h (by simp [inDomain, hd])
  · -- nonExecShell
    rcases fs with _ | ⟨x0, _ | ⟨x1, _ | ⟨y, ys⟩⟩⟩ <;> simp [inDomain] at hd
    exact nonExecShell_process cfg pid x0 x1 ok h (by simp [inDomain, hd])
  · -- inDenyUsers
    rcases fs with _ | ⟨x0, _ | ⟨x1, _ | ⟨y, ys⟩⟩⟩ <;> simp [inDomain] at hd
    exact inDenyUsers_process cfg pid x0 x1 ok h (by simp [inDomain, hd])
  · -- notInAnyGroup
    rcases fs with _ | ⟨x0, _ | ⟨x1, _ | ⟨y, ys⟩⟩⟩ <;> simp [inDomain] at hd
    exact notInAnyGroup_process cfg pid x0 x1 ok h (by simp [inDomain, hd])
  · -- groupInDenyGroups
    rcases fs with _ | ⟨x0, _ | ⟨x1, _ | ⟨y, ys⟩⟩⟩ <;> simp [inDomain] at hd
    exact groupInDenyGroups_process cfg pid x0 x1 ok h (by simp [inDomain, hd])
  · -- groupNotInAllowGroups
    rcases fs with _ | ⟨x0, _ | ⟨x1, _ | ⟨y, ys⟩⟩⟩ <;> simp [inDomain] at hd
    exact groupNotInAllowGroups_process cfg pid x0 x1 ok h (by simp [inDomain, hd])
  · -- rootLoginRefused
    rcases fs with _ | ⟨x0, _ | ⟨x1, _ | ⟨y, ys⟩⟩⟩ <;> simp [inDomain] at hd
    exact rootLoginRefused_process cfg pid x0 x1 ok h (by simp [inDomain, hd])
  · -- badOwner
    rcases fs with _ | ⟨x0, _ | ⟨x1, _ | ⟨y, ys⟩⟩⟩ <;> simp [inDomain] at hd
    exact badOwner_process cfg pid x0 x1 ok h (by simp [inDomain, hd])
  · -- nastyPTR
    rcases fs with _ | ⟨x0, _ | ⟨x1, _ | ⟨y, ys⟩⟩⟩ <;> simp [inDomain] at hd
    exact nastyPTR_process cfg pid x0 x1 ok h (by simp [inDomain, hd])
  · -- reverseMapping
    rcases fs with _ | ⟨x0, _ | ⟨x1, _ | ⟨y, ys⟩⟩⟩ <;> simp [inDomain] at hd
    exact reverseMapping_process cfg pid x0 x1 ok h (by simp [inDomain, hd])
  · -- doesNotMapBack
    rcases fs with _ | ⟨x0, _ | ⟨x1, _ | ⟨y, ys⟩⟩⟩ <;> simp [inDomain] at hd
    exact doesNotMapBack_process cfg pid x0 x1 ok h (by simp [inDomain, hd])
  · -- maxAuth
    rcases fs with _ | ⟨x0, _ | ⟨x1, _ | ⟨x2, _ | ⟨x3, _ | ⟨y, ys⟩⟩⟩⟩⟩ <;> simp [inDomain] at hd
    exact maxAuth_process cfg pid x0 x1 x2 x3 ok h (by simp [inDomain, hd])
  · -- revokedByFile
    rcases fs with _ | ⟨x0, _ | ⟨x1, _ | ⟨x2, _ | ⟨y, ys⟩⟩⟩⟩ <;> simp [inDomain] at hd
    exact revokedByFile_process cfg pid x0 x1 x2 ok h (by simp [inDomain, hd])
  · -- revokedErr
    rcases fs with _ | ⟨x0, _ | ⟨x1, _ | ⟨x2, _ | ⟨y, ys⟩⟩⟩⟩ <;> simp [inDomain] at hd
    exact revokedErr_process cfg pid x0 x1 x2 ok h (by simp [inDomain, hd])
  · -- failedPassword
    rcases fs with _ | ⟨x0, _ | ⟨x1, _ | ⟨x2, _ | ⟨x3, _ | ⟨y, ys⟩⟩⟩⟩⟩ <;> simp [inDomain] at hd
    exact failedPassword_process cfg pid x0 x1 x2 x3 ok h (by simp [inDomain, hd])

/-- the form's line produces exactly one event, and it is the expected one -/
theorem one_event (cfg : Cfg) (pid : Str) (f : Form) (fs : List Str) (h : Handoff)
    (hd : inDomain f fs = true) (hpid : f.accepted = true → ∃ n, atoi pid = some n)
    (line : Str) (hl : lineOf f fs = some line) :
    ∃ e, expectedEv cfg pid f fs = some e ∧ writes (process cfg pid line true h) = [(e, true)] := by
  have hc := form_correct cfg pid f fs true h hd hpid line hl
  unfold expectedOut at hc
  cases he : expectedEv cfg pid f fs with
  | none => simp [he] at hc
  | some e =>
    refine ⟨e, rfl, ?_⟩
    simp only [he] at hc
    by_cases ha : f.accepted = true
    · obtain ⟨n, hn⟩ := hpid ha
      simp only [ha, hn, if_true] at hc
      cases h <;> simp at hc <;> (rw [hc]; simp [writes])
    · simp only [ha] at hc
      simp at hc
      rw [hc]; simp [writes]

/-- outcome is `succeeded` exactly for accepted authentications; component is `sshd`; the event
carries the line's PID, this node's name and machine id -/
theorem fixed_fields (cfg : Cfg) (pid : Str) (f : Form) (fs : List Str) (e : Ev)
    (he : expectedEv cfg pid f fs = some e) :
    e.typ = "UserLogin" ∧ e.component = "sshd" ∧ (e.outcome = "succeeded" ↔ f.accepted = true) ∧
    (e.outcome = "succeeded" ∨ e.outcome = "failed") ∧
    e.target = [("host", cfg.node), ("machine-id", cfg.mid)] ∧ aLookup "pid" e.subjects = some pid := by
  unfold expectedEv at he
  split at he <;> first
    | (cases he; simp [loginEv, Form.accepted, target, subj3, aLookup])
    | (simp at he)

/-- non-vacuity: concrete messages of the hardest forms lie in the domain -/
example : inDomain .acceptedCert ["bob".toList, "fe80::1%eth0".toList, "50482".toList, "2".toList,
    "ED25519-CERT".toList, "SHA256".toList, "YI+caZKJ".toList, "foo (serial 3) bar".toList,
    "18446744073709551615".toList, "ED25519".toList, "SHA256:Pcs5".toList] = true := by decide

example : inDomain .failedPassword ["x from 6.6.6.6 port 1 ssh2".toList, "1.2.3.4".toList,
    "22".toList, "2".toList] = true := by decide

end AM.C06
