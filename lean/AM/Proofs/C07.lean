import AM.Model.Syslog
import AM.Proofs.C12
/-! # C07 — a record delivered through the pipe is processed as if handed over directly

`framed_eq_direct`: for every PID token without blank, every non-empty blank padding and every
message without newline that does not start with a blank, the syslog ingester applied to the
framed record `<pid><pad><msg>\n` hands exactly `(pid, msg)` to the sshd processor — hence the
same events, metric increments and forwarded logins as the direct call, for every message form
and every field value (the sshd model itself is the one of C06/C11, over expressions regenerated
from source). `Split`/`Join`/`TrimLeft` are modelled literally; internal spacing is preserved. -/
namespace AM.C07
open AM AM.Syslog

theorem trimSuffixNL_append (x : Str) : trimSuffixNL (x ++ ['\n']) = x := by
  simp [trimSuffixNL]

theorem trimSuffixNL_id (x : Str) (h : x.getLast? ≠ some '\n') : trimSuffixNL x = x := by
  unfold trimSuffixNL
  split
  · rename_i h'; exact absurd h' h
  · rfl

theorem splitSp_ne_nil (x : Str) : splitSp x ≠ [] := by
  cases x with
  | nil => simp [splitSp]
  | cons c r =>
    simp only [splitSp]
    split
    · simp
    · split <;> simp

/-- `Join(Split(x, " "), " ") = x` -/
theorem joinSp_splitSp (x : Str) : joinSp (splitSp x) = x := by
  induction x with
  | nil => simp [splitSp, joinSp]
  | cons c r ih =>
    simp only [splitSp]
    split
    · rename_i hc
      subst hc
      cases hs : splitSp r with
      | nil => exact absurd hs (splitSp_ne_nil r)
      | cons a b =>
        rw [hs] at ih
        simp only [joinSp, List.nil_append]
        rw [ih]
    · cases hs : splitSp r with
      | nil => exact absurd hs (splitSp_ne_nil r)
      | cons a b =>
        rw [hs] at ih
        cases b with
        | nil => simp only [joinSp] at ih ⊢; rw [ih]
        | cons b1 b2 =>
          simp only [joinSp, List.cons_append] at ih ⊢
          rw [ih]

/-- a token without blank followed by a blank: the token is the first element of the split -/
theorem splitSp_token (p : Str) (hp : ' ' ∉ p) (r : Str) :
    splitSp (p ++ ' ' :: r) = p :: splitSp r := by
  induction p with
  | nil => simp [splitSp]
  | cons c t ih =>
    have hc : c ≠ ' ' := by intro h; apply hp; simp [h]
    have ht : ' ' ∉ t := by intro h; apply hp; simp [h]
    simp only [List.cons_append, splitSp, hc, if_false]
    rw [ih ht]

theorem trimLeftSp_blanks (pad m : Str) (hpad : ∀ c ∈ pad, c = ' ') (hm : m.head? ≠ some ' ') :
    trimLeftSp (pad ++ m) = m := by
  induction pad with
  | nil =>
    cases m with
    | nil => simp [trimLeftSp]
    | cons c r =>
      have : c ≠ ' ' := by simpa using hm
      simp only [List.nil_append]
      unfold trimLeftSp
      split
      · rename_i heq; cases heq; exact absurd rfl this
      · rfl
  | cons c t ih =>
    have : c = ' ' := hpad c (by simp)
    subst this
    simp only [List.cons_append, trimLeftSp]
    exact ih (fun c hc => hpad c (by simp [hc]))

/-- what `ParseSyslogMessage` returns for a framed record -/
theorem parse_framed (pid pad msg : Str) (hpid : ' ' ∉ pid)
    (hpad0 : pad ≠ []) (hpad : ∀ c ∈ pad, c = ' ') (hmsg : msg.head? ≠ some ' ') :
    parse (pid ++ pad ++ msg ++ ['\n']) = (pid, msg) := by
  unfold parse
  rw [trimSuffixNL_append]
  cases pad with
  | nil => exact absurd rfl hpad0
  | cons c t =>
    have : c = ' ' := hpad c (by simp)
    subst this
    have hsplit : splitSp (pid ++ ' ' :: t ++ msg) = pid :: splitSp (t ++ msg) := by
      have := splitSp_token pid hpid (t ++ msg)
      simpa [List.append_assoc] using this
    simp only [hsplit]
    cases hs : splitSp (t ++ msg) with
    | nil => exact absurd hs (splitSp_ne_nil _)
    | cons a b =>
      simp only
      rw [← hs, joinSp_splitSp]
      rw [trimLeftSp_blanks t msg (fun c hc => hpad c (by simp [hc])) hmsg]

theorem framed_eq_direct (cfg : Sshd.Cfg) (pid pad msg : Str) (ok : Bool) (h : Sshd.Handoff)
    (hpid : ' ' ∉ pid) (hpad0 : pad ≠ []) (hpad : ∀ c ∈ pad, c = ' ') (hmsg : msg.head? ≠ some ' ') :
    Syslog.process cfg (pid ++ pad ++ msg ++ ['\n']) ok h = Sshd.process cfg pid msg ok h := by
  simp only [Syslog.process, parse_framed pid pad msg hpid hpad0 hpad hmsg]

theorem splitSp_noblank (x : Str) (hx : ' ' ∉ x) : splitSp x = [x] := by
  induction x with
  | nil => simp [splitSp]
  | cons c t ih =>
    have hc : c ≠ ' ' := by intro h; apply hx; simp [h]
    have ht : ' ' ∉ t := by intro h; apply hx; simp [h]
    simp only [splitSp, hc, if_false, ih ht]

/-- a record without any blank is not an sshd message: the ingester hands over the empty entry -/
theorem no_blank_empty_entry (x : Str) (hx : ' ' ∉ x) (hnl : x.getLast? ≠ some '\n') :
    parse x = ([], []) := by
  unfold parse
  rw [trimSuffixNL_id x hnl]
  simp only [splitSp_noblank x hx]

/-- non-vacuity -/
example : parse "4321  Failed password for bob from 1.2.3.4 port 22 ssh2\n".toList =
    ("4321".toList, "Failed password for bob from 1.2.3.4 port 22 ssh2".toList) := by decide

/-! ### through the pipe: any chunking of the byte stream

`framed_eq_direct` speaks about one record handed to the callback; `C12.run_eq_expected` says what
the pipe ingester hands to the callback for any partition of the byte stream into reads. Together:
a sequence of framed records written to the pipe in ANY pieces is processed exactly as the
(pid, message) pairs handed over directly, one by one, in order. -/

theorem records_frame (d : Char) (acc body : Str) (h : d ∉ body) :
    Pipe.records d acc (body ++ [d]) = ([acc ++ body ++ [d]], []) := by
  induction body generalizing acc with
  | nil => simp [Pipe.records]
  | cons b t ih =>
    have hb : b ≠ d := by intro hh; apply h; simp [hh]
    have ht : d ∉ t := by intro hh; apply h; simp [hh]
    simp only [List.cons_append, Pipe.records, hb, if_false]
    rw [ih (acc ++ [b]) ht]
    simp

theorem records_of_frames (d : Char) (fs : List Str)
    (h : ∀ f ∈ fs, ∃ body, f = body ++ [d] ∧ d ∉ body) : Pipe.records d [] fs.flatten = (fs, []) := by
  induction fs with
  | nil => simp [Pipe.records]
  | cons f rest ih =>
    obtain ⟨body, rfl, hb⟩ := h f List.mem_cons_self
    have ihr := ih (fun g hg => h g (List.mem_cons_of_mem _ hg))
    simp only [List.flatten_cons]
    rw [AM.C12.records_append, records_frame d [] body hb]
    simp [ihr]

/-- a framed record: PID token, blank padding, message, newline -/
def frame (r : Str × Str × Str) : Str := r.1 ++ r.2.1 ++ r.2.2 ++ ['\n']

/-- what sshd and rsyslog produce: no blank or newline in the PID token, non-empty blank padding, a
message without newline that does not start with a blank -/
def WfRec (r : Str × Str × Str) : Prop :=
  ' ' ∉ r.1 ∧ '\n' ∉ r.1 ∧ r.2.1 ≠ [] ∧ (∀ c ∈ r.2.1, c = ' ') ∧ '\n' ∉ r.2.2 ∧ r.2.2.head? ≠ some ' '

theorem through_the_pipe (cfg : Sshd.Cfg) (recs : List (Str × Str × Str)) (chunks : List Str)
    (ok : Bool) (h : Sshd.Handoff) (hwf : ∀ r ∈ recs, WfRec r)
    (hc : chunks.flatten = (recs.map frame).flatten) :
    (Pipe.run '\n' none chunks).1.map (fun e => Syslog.process cfg e ok h) =
      recs.map (fun r => Sshd.process cfg r.1 r.2.2 ok h) := by
  have hframes : ∀ f ∈ recs.map frame, ∃ body, f = body ++ ['\n'] ∧ '\n' ∉ body := by
    intro f hf
    obtain ⟨r, hr, rfl⟩ := List.mem_map.mp hf
    obtain ⟨_, h2, _, h4, h5, _⟩ := hwf r hr
    refine ⟨r.1 ++ r.2.1 ++ r.2.2, rfl, ?_⟩
    intro hm
    simp only [List.mem_append] at hm
    rcases hm with (hm | hm) | hm
    · exact h2 hm
    · have := h4 _ hm; cases this
    · exact h5 hm
  rw [AM.C12.run_eq_expected, hc]
  simp only [Pipe.expected, records_of_frames '\n' _ hframes, List.map_map]
  apply List.map_congr_left
  intro r hr
  obtain ⟨h1, _, h3, h4, _, h6⟩ := hwf r hr
  exact framed_eq_direct cfg r.1 r.2.1 r.2.2 ok h h1 h3 h4 h6

end AM.C07
