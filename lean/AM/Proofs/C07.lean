import AM.Model.Syslog
/-! # C07 — a record delivered through the pipe is processed as if handed over directly

`framed_eq_direct`: for every PID token without blank, every non-empty blank padding and every
message without newline that does not start with a blank, the syslog ingester applied to the
framed record `<pid><pad><msg>\n` hands exactly `(pid, msg)` to the sshd processor — hence the
same events, metric increments and forwarded logins as the direct call, for every message form
and every field value (the sshd model itself is the one of C06/C11, over expressions regenerated
from source). `Split`/`Join`/`TrimLeft` are modelled literally; internal spacing is preserved. -/
namespace AM.C07
open AM AM.Syslog

theorem trimSuffixNL_append (x : Str) : trimSuffixNL (x ++ ['\n']) = x := by
  simp [trimSuffixNL]

theorem trimSuffixNL_id (x : Str) (h : x.getLast? ≠ some '\n') : trimSuffixNL x = x := by
  unfold trimSuffixNL
  split
  · rename_i h'; exact absurd h' h
  · rfl

theorem splitSp_ne_nil (x : Str) : splitSp x ≠ [] := by
  cases x with
  | nil => simp [splitSp]
  | cons c r =>
    simp only [splitSp]
    split
    · simp
    · split <;> simp

/-- `Join(Split(x, " "), " ") = x` -/
theorem joinSp_splitSp (x : Str) : joinSp (splitSp x) = x := by
  induction x with
  | nil => simp [splitSp, joinSp]
  | cons c r ih =>
    simp only [splitSp]
    split
    · rename_i hc
      subst hc
      cases hs : splitSp r with
      | nil => exact absurd hs (splitSp_ne_nil r)
      | cons a b =>
        rw [hs] at ih
        simp only [joinSp, List.nil_append]
        rw [ih]
    · cases hs : splitSp r with
      | nil => exact absurd hs (splitSp_ne_nil r)
      | cons a b =>
        rw [hs] at ih
        cases b with
        | nil => simp only [joinSp] at ih ⊢; rw [ih]
        | cons b1 b2 =>
          simp only [joinSp, List.cons_append] at ih ⊢
          rw [ih]

/-- a token without blank followed by a blank: the token is the first element of the split -/
theorem splitSp_token (p : Str) (hp : ' ' ∉ p) (r : Str) :
    splitSp (p ++ ' ' :: r) = p :: splitSp r := by
  induction p with
  | nil => simp [splitSp]
  | cons c t ih =>
    have hc : c ≠ ' ' := by intro h; apply hp; simp [h]
    have ht : ' ' ∉ t := by intro h; apply hp; simp [h]
    simp only [List.cons_append, splitSp, hc, if_false]
    rw [ih ht]

theorem trimLeftSp_blanks (pad m : Str) (hpad : ∀ c ∈ pad, c = ' ') (hm : m.head? ≠ some ' ') :
    trimLeftSp (pad ++ m) = m := by
  induction pad with
  | nil =>
    cases m with
    | nil => simp [trimLeftSp]
    | cons c r =>
      have : c ≠ ' ' := by simpa using hm
      simp only [List.nil_append]
      unfold trimLeftSp
      split
      · rename_i heq; cases heq; exact absurd rfl this
      · rfl
  | cons c t ih =>
    have : c = ' ' := hpad c (by simp)
    subst this
    simp only [List.cons_append, trimLeftSp]
    exact ih (fun c hc => hpad c (by simp [hc]))

/-- what `ParseSyslogMessage` returns for a framed record -/
theorem parse_framed (pid pad msg : Str) (hpid : ' ' ∉ pid)
    (hpad0 : pad ≠ []) (hpad : ∀ c ∈ pad, c = ' ') (hmsg : msg.head? ≠ some ' ') :
    parse (pid ++ pad ++ msg ++ ['\n']) = (pid, msg) := by
  unfold parse
  rw [trimSuffixNL_append]
  cases pad with
  | nil => exact absurd rfl hpad0
  | cons c t =>
    have : c = ' ' := hpad c (by simp)
    subst this
    have hsplit : splitSp (pid ++ ' ' :: t ++ msg) = pid :: splitSp (t ++ msg) := by
      have := splitSp_token pid hpid (t ++ msg)
      simpa [List.append_assoc] using this
    simp only [hsplit]
    cases hs : splitSp (t ++ msg) with
    | nil => exact absurd hs (splitSp_ne_nil _)
    | cons a b =>
      simp only
      rw [← hs, joinSp_splitSp]
      rw [trimLeftSp_blanks t msg (fun c hc => hpad c (by simp [hc])) hmsg]

theorem framed_eq_direct (cfg : Sshd.Cfg) (pid pad msg : Str) (ok : Bool) (h : Sshd.Handoff)
    (hpid : ' ' ∉ pid) (hpad0 : pad ≠ []) (hpad : ∀ c ∈ pad, c = ' ') (hmsg : msg.head? ≠ some ' ') :
    Syslog.process cfg (pid ++ pad ++ msg ++ ['\n']) ok h = Sshd.process cfg pid msg ok h := by
  simp only [Syslog.process, parse_framed pid pad msg hpid hpad0 hpad hmsg]

theorem splitSp_noblank (x : Str) (hx : ' ' ∉ x) : splitSp x = [x] := by
  induction x with
  | nil => simp [splitSp]
  | cons c t ih =>
    have hc : c ≠ ' ' := by intro h; apply hx; simp [h]
    have ht : ' ' ∉ t := by intro h; apply hx; simp [h]
    simp only [splitSp, hc, if_false, ih ht]

/-- a record without any blank is not an sshd message: the ingester hands over the empty entry -/
theorem no_blank_empty_entry (x : Str) (hx : ' ' ∉ x) (hnl : x.getLast? ≠ some '\n') :
    parse x = ([], []) := by
  unfold parse
  rw [trimSuffixNL_id x hnl]
  simp only [splitSp_noblank x hx]

/-- non-vacuity -/
example : parse "4321  Failed password for bob from 1.2.3.4 port 22 ssh2\n".toList =
    ("4321".toList, "Failed password for bob from 1.2.3.4 port 22 ssh2".toList) := by decide

end AM.C07
