import AM.Model.Pipe
/-! # C12 — pipe framing: each terminated record delivered once, in order, for any chunking

`chunk_independent`: however the byte stream is partitioned into reads, the ingester model hands
the callback exactly the delimiter-terminated records of the concatenation (each with its
delimiter), in order, up to and including the record at which the callback fails, and returns
that error; otherwise it returns the end-of-stream error. `tail_never_delivered`: the bytes after
the last delimiter are in no delivered record. -/
namespace AM.C12
open AM AM.Pipe

theorem records_append (d : Char) (acc xs ys : Str) :
    records d acc (xs ++ ys) =
      ((records d acc xs).1 ++ (records d (records d acc xs).2 ys).1,
       (records d (records d acc xs).2 ys).2) := by
  induction xs generalizing acc with
  | nil => simp [records]
  | cons b bs ih =>
    simp only [List.cons_append, records]
    split
    · simp [ih]
    · exact ih _

/-- remaining callback budget: how many more records may be handed over -/
def budget (failAt : Option Nat) (st : PSt) : Option Nat :=
  if st.failed then some 0 else
  match failAt with
  | none => none
  | some k => if st.calls ≤ k then some (k + 1 - st.calls) else none

def takeB : Option Nat → List Str → List Str
  | none, l => l
  | some n, l => l.take n

theorem budget_call (failAt : Option Nat) (st : PSt) (r : Str) (hf : st.failed = false) :
    budget failAt (call failAt st r) =
      (match budget failAt st with | none => none | some n => some (n - 1)) ∧
    (∀ n, budget failAt st = some n → 0 < n) := by
  cases failAt with
  | none => simp [budget, call, hf]
  | some k =>
    by_cases hk : k = st.calls
    · subst hk; simp [budget, call, hf]
    · have hne : ¬ (some k = some st.calls) := by simpa using hk
      by_cases hle : st.calls ≤ k
      · have hle' : st.calls + 1 ≤ k := by omega
        simp only [budget, call, hf, hne, decide_false, Bool.false_eq_true, if_false, hle, hle', if_true]
        constructor
        · congr 1
        · intro n hn; cases hn; omega
      · have hle' : ¬ st.calls + 1 ≤ k := by omega
        simp [budget, call, hf, hne, hle, hle']

theorem deliver_spec (failAt : Option Nat) (st : PSt) (rs : List Str) :
    (deliver failAt st rs).out = st.out ++ takeB (budget failAt st) rs ∧
    (deliver failAt st rs).pending = st.pending ∧
    budget failAt (deliver failAt st rs) =
      (match budget failAt st with
       | none => none
       | some n => some (n - rs.length)) := by
  induction rs generalizing st with
  | nil =>
    simp only [deliver, List.length_nil, Nat.sub_zero]
    cases hb : budget failAt st <;> simp [takeB]
  | cons r rs ih =>
    unfold deliver
    by_cases hf : st.failed = true
    · simp [hf, budget, takeB]
    · have hf' : st.failed = false := by cases h : st.failed <;> simp_all
      simp only [hf', Bool.false_eq_true, if_false]
      obtain ⟨h1, h2, h3⟩ := ih (call failAt st r)
      obtain ⟨hb, hpos⟩ := budget_call failAt st r hf'
      rw [h1, h2, h3, hb]
      refine ⟨?_, rfl, ?_⟩
      · cases hbs : budget failAt st with
        | none => simp [call, takeB]
        | some n =>
          have := hpos n hbs
          obtain ⟨m, rfl⟩ : ∃ m, n = m + 1 := ⟨n - 1, by omega⟩
          simp [call, takeB, List.take_succ_cons]
      · cases hbs : budget failAt st with
        | none => rfl
        | some n => simp only [List.length_cons]; congr 1; omega

theorem feed_spec (d : Char) (failAt : Option Nat) (st : PSt) (chunk : Str) :
    (feed d failAt st chunk).out = st.out ++ takeB (budget failAt st) (records d st.pending chunk).1 ∧
    budget failAt (feed d failAt st chunk) =
      (match budget failAt st with
       | none => none
       | some n => some (n - (records d st.pending chunk).1.length)) ∧
    (st.failed = false → (feed d failAt st chunk).pending = (records d st.pending chunk).2) := by
  unfold feed
  by_cases hf : st.failed = true
  · simp [hf, budget, takeB]
  · have hf' : st.failed = false := by cases h : st.failed <;> simp_all
    simp only [hf', Bool.false_eq_true, if_false]
    obtain ⟨h1, h2, h3⟩ := deliver_spec failAt (setPending st (records d st.pending chunk).2)
      (records d st.pending chunk).1
    have hb : budget failAt (setPending st (records d st.pending chunk).2) = budget failAt st := rfl
    rw [hb] at h1 h3
    exact ⟨by simpa [setPending] using h1, h3, fun _ => by simpa [setPending] using h2⟩

theorem takeB_append (b : Option Nat) (xs ys : List Str) :
    takeB b (xs ++ ys) = takeB b xs ++
      takeB (match b with | none => none | some n => some (n - xs.length)) ys := by
  cases b with
  | none => simp [takeB]
  | some n => simp [takeB, List.take_append]

theorem fold_spec (d : Char) (failAt : Option Nat) (chunks : List Str) (st : PSt) :
    (chunks.foldl (feed d failAt) st).out =
      st.out ++ takeB (budget failAt st) (records d st.pending chunks.flatten).1 ∧
    budget failAt (chunks.foldl (feed d failAt) st) =
      (match budget failAt st with
       | none => none
       | some n => some (n - (records d st.pending chunks.flatten).1.length)) := by
  induction chunks generalizing st with
  | nil =>
    simp only [List.foldl_nil, List.flatten_nil, records, List.length_nil, Nat.sub_zero]
    cases hb : budget failAt st <;> simp [takeB]
  | cons c cs ih =>
    simp only [List.foldl_cons, List.flatten_cons]
    obtain ⟨f1, f2, f3⟩ := feed_spec d failAt st c
    obtain ⟨i1, i2⟩ := ih (feed d failAt st c)
    by_cases hf : st.failed = true
    · -- already failed: nothing more is delivered
      have hb : budget failAt st = some 0 := by simp [budget, hf]
      have hfeed : feed d failAt st c = st := by simp [feed, hf]
      rw [hfeed] at i1 i2 ⊢
      rw [i1, i2, hb]
      simp [takeB]
    · have hf' : st.failed = false := by cases h : st.failed <;> simp_all
      have hp := f3 hf'
      rw [i1, i2, f1, f2, hp]
      have hra := records_append d st.pending c cs.flatten
      constructor
      · rw [hra, takeB_append]
        simp [List.append_assoc]
      · rw [hra]
        cases budget failAt st with
        | none => rfl
        | some n => simp only [List.length_append]; congr 1; omega

/-- C12: delivery and result depend only on the concatenation of the chunks, and are what the
property prescribes -/
theorem run_eq_expected (d : Char) (failAt : Option Nat) (chunks : List Str) :
    run d failAt chunks = expected d failAt chunks.flatten := by
  obtain ⟨h1, h2⟩ := fold_spec d failAt chunks {}
  unfold run expected
  have hb0 : budget failAt ({} : PSt) = (match failAt with | none => none | some k => some (k + 1)) := by
    cases failAt <;> simp [budget]
  rw [hb0] at h1 h2
  have hfailed : (chunks.foldl (feed d failAt) {}).failed = true ↔
      budget failAt (chunks.foldl (feed d failAt) {}) = some 0 := by
    generalize chunks.foldl (feed d failAt) {} = st
    unfold budget
    by_cases hf : st.failed = true
    · simp [hf]
    · simp only [hf, Bool.false_eq_true, if_false, false_iff]
      cases failAt with
      | none => simp
      | some k => split <;> simp <;> omega
  cases failAt with
  | none =>
    simp only at h1 h2
    have : (chunks.foldl (feed d none) {}).failed = false := by
      cases hf : (chunks.foldl (feed d none) {}).failed with
      | false => rfl
      | true => rw [hfailed.mp hf] at h2; cases h2
    simp [h1, this, takeB]
  | some k =>
    simp only at h1 h2
    simp only [h1, takeB, List.nil_append]
    by_cases hk : k < (records d [] chunks.flatten).1.length
    · have hz : budget (some k) (chunks.foldl (feed d (some k)) {}) = some 0 := by
        rw [h2]; congr 1; omega
      have := hfailed.mpr hz
      simp [hk, this]
    · have hz : budget (some k) (chunks.foldl (feed d (some k)) {}) ≠ some 0 := by
        rw [h2]; simp; omega
      have hnf : (chunks.foldl (feed d (some k)) {}).failed = false := by
        cases hf : (chunks.foldl (feed d (some k)) {}).failed with
        | false => rfl
        | true => exact absurd (hfailed.mp hf) hz
      simp [hk, hnf, List.take_of_length_le (by omega : (records d [] chunks.flatten).1.length ≤ k + 1)]

theorem chunk_independent (d : Char) (failAt : Option Nat) (c1 c2 : List Str)
    (h : c1.flatten = c2.flatten) : run d failAt c1 = run d failAt c2 := by
  rw [run_eq_expected, run_eq_expected, h]

/-- the delivered records, concatenated, followed by the pending tail, are the stream; every
delivered record ends with the delimiter and contains it nowhere else -/
theorem records_partition (d : Char) (acc s : Str) (hacc : d ∉ acc) :
    acc ++ s = (records d acc s).1.flatten ++ (records d acc s).2 ∧
    (∀ r ∈ (records d acc s).1, ∃ body, r = body ++ [d] ∧ d ∉ body) ∧ d ∉ (records d acc s).2 := by
  induction s generalizing acc with
  | nil => simp [records, hacc]
  | cons b bs ih =>
    simp only [records]
    split
    · rename_i hb
      subst hb
      obtain ⟨h1, h2, h3⟩ := ih [] (by simp)
      refine ⟨?_, ?_, h3⟩
      · simp only [List.flatten_cons, List.append_assoc, List.singleton_append]
        simp only [List.nil_append] at h1
        rw [List.cons_append, ← h1]
      · intro r hr
        rcases List.mem_cons.mp hr with rfl | hr
        · exact ⟨acc, rfl, hacc⟩
        · exact h2 r hr
    · rename_i hb
      have : d ∉ acc ++ [b] := by
        simp only [List.mem_append, List.mem_singleton, not_or]
        exact ⟨hacc, fun h => hb h.symm⟩
      obtain ⟨h1, h2, h3⟩ := ih (acc ++ [b]) this
      refine ⟨?_, h2, h3⟩
      rw [← h1]; simp

/-- bytes after the last delimiter are never delivered: the delivered records are a prefix of the
records of the stream, whose concatenation stops at the last delimiter -/
theorem tail_never_delivered (d : Char) (failAt : Option Nat) (chunks : List Str) :
    ∃ recs, (run d failAt chunks).1 <+: recs ∧
      chunks.flatten = recs.flatten ++ (records d [] chunks.flatten).2 ∧
      d ∉ (records d [] chunks.flatten).2 := by
  refine ⟨(records d [] chunks.flatten).1, ?_, ?_, ?_⟩
  · rw [run_eq_expected]
    unfold expected
    cases failAt with
    | none => exact List.prefix_refl _
    | some k => simp only; split <;> first | exact List.take_prefix _ _ | exact List.prefix_refl _
  · have := (records_partition d [] chunks.flatten (by simp)).1
    simpa using this
  · exact (records_partition d [] chunks.flatten (by simp)).2.2

/-- end of stream is reported as an error, never as success; a callback error is returned -/
theorem result_is_error (d : Char) (failAt : Option Nat) (chunks : List Str) :
    (run d failAt chunks).2 = .eof ∨ (run d failAt chunks).2 = .cbError := by
  unfold run; simp only; split <;> simp

/-- non-vacuity: byte-at-a-time and all-at-once deliver the same two records and keep the tail -/
example : run '\n' none ["ab".toList, "\n".toList, "c".toList, "d\ne".toList] =
    (["ab\n".toList, "cd\n".toList], .eof) := by decide
example : run '\n' (some 0) ["ab\ncd\ne".toList] = (["ab\n".toList], .cbError) := by decide

end AM.C12
