import AM.Model.Tracker
/-! # C14 — what a correlated event looks like, and whose identity it carries

`render`: every field of the UserAction built by `toAuditEvent` as a function of the login and of
the coalesced audit event.  `login_unchanged`: the login stored with a session is never altered by
a step that is not itself a `RemoteLogin` call; `login_step` says what a `RemoteLogin` may do. -/
namespace AM.C14
open AM AM.Tr

theorem render (l : Login) (e : AEvent) :
    let (ev, aid, ts) := toAuditEvent l e
    ev.typ = "UserAction" ∧ ev.component = "auditd" ∧ ts = e.ts ∧ aid = e.ses ∧
    (ev.outcome = "succeeded" ↔ e.result = strOf "success") ∧
    (ev.outcome = "succeeded" ∨ ev.outcome = "failed") ∧
    aLookup "action" ev.metaExtra = some e.action ∧ aLookup "how" ev.metaExtra = some e.how ∧
    aLookup "object" ev.metaExtra = some e.object ∧
    (e.args = [] → aLookup "process_args" ev.metaExtra = none) ∧
    (e.args ≠ [] → aLookup "process_args" ev.metaExtra = some (joinNul e.args)) ∧
    ev.subjects = l.subjects ∧ ev.srcType = l.srcType ∧ ev.srcValue = l.srcValue ∧
    ev.srcExtra = l.srcExtra ∧ ev.target = l.target ∧ ev.data = [] := by
  simp only [toAuditEvent, true_and, and_true]
  refine ⟨?_, ?_, ?_, ?_, ?_, ?_, ?_⟩
  · by_cases h : e.result = strOf "success"
    · simp [h]
    · simp [h]
  · by_cases h : e.result = strOf "success"
    · simp [h]
    · simp [h]
  · simp [aLookup]
  · simp [aLookup]
  · simp [aLookup]
  · intro h; simp [h, aLookup]
  · intro h
    cases ha : e.args with
    | nil => exact absurd ha h
    | cons x r => simp [aLookup]

/-! ### the stored login -/

theorem write1_sessions (st : St) (l : Login) (e : AEvent) :
    (write1 st l e).1.sessions = st.sessions := by
  simp only [write1]; split <;> rfl

theorem writeAll_sessions (st : St) (l : Login) (es : List AEvent) :
    (writeAll st l es).1.sessions = st.sessions := by
  induction es generalizing st with
  | nil => rfl
  | cons e es ih =>
    simp only [writeAll]
    have h1 := write1_sessions st l e
    split
    · rename_i st' heq
      rw [heq] at h1
      rw [ih st']; exact h1
    · rename_i st' heq
      rw [heq] at h1
      exact h1

/-- two entries under the same key of a map are the same entry -/
theorem mem_unique {κ α} [DecidableEq κ] {k : κ} {v v' : α} {m : List (κ × α)}
    (hu : aUnique m) (h : (k, v) ∈ m) (h' : (k, v') ∈ m) : v = v' := by
  have a := aLookup_of_mem hu h
  have b := aLookup_of_mem hu h'
  rw [a] at b; exact Option.some.inj b

/-- One step and the login stored with a session that exists before and after it: it is unchanged,
unless the step is a `RemoteLogin` whose PID is the session's, in which case it is that login. -/
theorem login_step (st : St) (op : Op) (s : Str) (u : User) (l : Login)
    (huniq : aUnique st.sessions) (hm : (s, u) ∈ st.sessions) (hl : u.login = some l) :
    ∀ u', (s, u') ∈ (step st op).1.sessions →
      u'.login = some l ∨ (∃ l', op = .remoteLogin l' ∧ u'.login = some l' ∧ u.srcPID = l'.pid) := by
  intro u' hm'
  cases op with
  | cleanSessions t =>
    simp only [step] at hm'
    have := (List.mem_filter.mp hm').1
    rw [← mem_unique huniq hm this]; exact Or.inl hl
  | cleanLogins t =>
    simp only [step] at hm'
    rw [← mem_unique huniq hm hm']; exact Or.inl hl
  | remoteLogin l' =>
    simp only [step, remoteLogin] at hm'
    split at hm'
    · rw [← mem_unique huniq hm hm']; exact Or.inl hl
    · split at hm'
      · rename_i s0 u0 more hf
        have hmem : (s0, u0) ∈ st.sessions.filter (fun p => p.2.srcPID == l'.pid) := by
          rw [hf]; exact List.mem_cons_self
        have hsu := List.mem_filter.mp hmem
        have hpid : u0.srcPID = l'.pid := by simpa using hsu.2
        simp only at hm'
        have hses := writeAll_sessions { st with ambiguous := st.ambiguous || !more.isEmpty } l' u0.cached
        simp only at hses
        split at hm'
        · rw [hses] at hm'
          have := (mem_aErase hm').1
          rw [← mem_unique huniq hm this]; exact Or.inl hl
        · rw [hses] at hm'
          rcases mem_aStore hm' with heq | ⟨hm'', _⟩
          · cases heq
            have : u = u0 := mem_unique huniq hm hsu.1
            subst this
            exact Or.inr ⟨l', rfl, rfl, hpid⟩
          · rw [← mem_unique huniq hm hm'']; exact Or.inl hl
      · simp only at hm'
        rw [← mem_unique huniq hm hm']; exact Or.inl hl
  | audit e now =>
    left
    simp only [step, audit] at hm'
    split at hm'
    · rw [← mem_unique huniq hm hm']; exact hl
    · split at hm'
      · rename_i u0 hlook
        have hmem0 := aLookup_mem hlook
        split at hm'
        · -- uncorrelated: the record is cached
          simp only at hm'
          rcases mem_aStore hm' with heq | ⟨hm'', _⟩
          · cases heq
            have : u = u0 := mem_unique huniq hm hmem0
            subst this; exact hl
          · rw [← mem_unique huniq hm hm'']; exact hl
        · rename_i l0 hl0
          have hA := writeAll_sessions st l0 u0.cached
          split at hm'
          · rename_i st' heq
            rw [heq] at hA; simp only at hA
            simp only at hm'
            split at hm'
            · rw [hA] at hm'
              rw [← mem_unique huniq hm (mem_aErase hm').1]; exact hl
            · rw [hA] at hm'
              rcases mem_aStore hm' with heq | ⟨hm'', _⟩
              · have h1 := (Prod.mk.inj heq).1
                have h2 := (Prod.mk.inj heq).2
                subst h1
                have : u = u0 := mem_unique huniq hm hmem0
                rw [h2, ← this]; exact hl
              · rw [← mem_unique huniq hm hm'']; exact hl
          · rename_i st' heq
            rw [heq] at hA; simp only at hA
            simp only at hm'
            split at hm'
            · rw [write1_sessions, hA] at hm'
              rw [← mem_unique huniq hm (mem_aErase hm').1]; exact hl
            · rw [write1_sessions, hA] at hm'
              rcases mem_aStore hm' with heq | ⟨hm'', _⟩
              · cases heq
                have : u = u0 := mem_unique huniq hm hmem0
                subst this; exact hl
              · rw [← mem_unique huniq hm hm'']; exact hl
      · rename_i hlook
        have hne : s ≠ e.ses := aLookup_none hlook (s, u) hm
        split at hm'
        · rw [← mem_unique huniq hm hm']; exact hl
        · split at hm'
          · rw [← mem_unique huniq hm hm']; exact hl
          · split at hm'
            · simp only at hm'
              rw [write1_sessions] at hm'
              simp only at hm'
              rcases mem_aStore hm' with heq | ⟨hm'', _⟩
              · cases heq; exact absurd rfl hne
              · rw [← mem_unique huniq hm hm'']; exact hl
            · simp only at hm'
              rcases mem_aStore hm' with heq | ⟨hm'', _⟩
              · cases heq; exact absurd rfl hne
              · rw [← mem_unique huniq hm hm'']; exact hl

/-- A step that is not a `RemoteLogin` never alters a stored login: every session present before
and after the step keeps the login it had. -/
theorem login_unchanged (st : St) (op : Op) (s : Str) (u : User) (l : Login)
    (huniq : aUnique st.sessions) (hop : ∀ l', op ≠ .remoteLogin l')
    (hm : (s, u) ∈ st.sessions) (hl : u.login = some l) :
    ∀ u', (s, u') ∈ (step st op).1.sessions → u'.login = some l := by
  intro u' hm'
  rcases login_step st op s u l huniq hm hl u' hm' with h | ⟨l', h, _⟩
  · exact h
  · exact absurd h (hop l')

end AM.C14
