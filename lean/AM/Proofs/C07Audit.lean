import AM.Model.AuditLine
import AM.Proofs.C07
/-! C07, audit side: the record terminator is not part of the record — for EVERY byte string `l`,
`ParseLogLine (l ++ "\n")` sees exactly what `ParseLogLine l` sees. -/
namespace AM.C07A
open AM AM.AuditLine

theorem isPrefixOf_snoc (pat s : Str) (c : Char) (hc : c ∉ pat) :
    pat.isPrefixOf (s ++ [c]) = pat.isPrefixOf s := by
  induction pat generalizing s with
  | nil => simp
  | cons p ps ih =>
    cases s with
    | nil =>
      have : p ≠ c := fun h => hc (h ▸ List.mem_cons_self)
      simp [List.isPrefixOf, this]
    | cons x xs =>
      simp only [List.cons_append, List.isPrefixOf]
      rw [ih xs (fun h => hc (List.mem_cons_of_mem _ h))]

theorem indexFrom_snoc (pat : Str) (hne : pat ≠ []) (c : Char) (hc : c ∉ pat) (s : Str) (k : Nat) :
    indexFrom pat (s ++ [c]) k = indexFrom pat s k := by
  induction s generalizing k with
  | nil =>
    have h1 : pat.isPrefixOf [c] = false := by
      cases pat with
      | nil => exact absurd rfl hne
      | cons p ps =>
        have : p ≠ c := fun h => hc (h ▸ List.mem_cons_self)
        simp [List.isPrefixOf, this]
    have h2 : pat.isPrefixOf ([] : Str) = false := by
      cases pat with
      | nil => exact absurd rfl hne
      | cons p ps => simp [List.isPrefixOf]
    simp [indexFrom, h1, h2]
  | cons x xs ih =>
    simp only [List.cons_append, indexFrom]
    have := isPrefixOf_snoc pat (x :: xs) c hc
    simp only [List.cons_append] at this
    rw [this, ih]

/-- an index returned by `indexFrom` leaves room for the pattern -/
theorem indexFrom_bound (pat : Str) (s : Str) (k i : Nat) (h : indexFrom pat s k = some i) :
    k ≤ i ∧ i - k + pat.length ≤ s.length := by
  induction s generalizing k with
  | nil =>
    simp only [indexFrom] at h
    split at h
    · rename_i hp
      cases h
      have : pat = [] := by
        cases pat with
        | nil => rfl
        | cons p ps => simp [List.isPrefixOf] at hp
      simp [this]
    · cases h
  | cons x xs ih =>
    simp only [indexFrom] at h
    split at h
    · rename_i hp
      cases h
      have := (List.isPrefixOf_iff_prefix.mp hp).length_le
      simp only [List.length_cons] at this ⊢
      omega
    · have := ih (k + 1) h
      simp only [List.length_cons]
      omega

/-! ### `TrimSpace` and the terminator -/

theorem strip1_none_of_nil (seqs : List Str) (hne : ∀ q ∈ seqs, q ≠ []) : strip1 seqs [] = none := by
  simp only [strip1]
  have : seqs.find? (fun q => q.isPrefixOf ([] : Str)) = none := by
    apply List.find?_eq_none.mpr
    intro q hq
    cases q with
    | nil => exact absurd rfl (hne _ hq)
    | cons c r => simp [List.isPrefixOf]
  rw [this]

/-- on a non-empty string the sequences that are a prefix do not change when the terminator is appended -/
theorem prefix_snoc_nl (seqs : List Str) (hnl : ∀ q ∈ seqs, '\n' ∈ q → q = ['\n']) (x : Str) (hx : x ≠ []) :
    ∀ q ∈ seqs, q.isPrefixOf (x ++ ['\n']) = q.isPrefixOf x := by
  intro q hq
  by_cases hc : '\n' ∈ q
  · rw [hnl q hq hc]
    cases x with
    | nil => exact absurd rfl hx
    | cons c r => simp [List.isPrefixOf]
  · exact isPrefixOf_snoc q x '\n' hc

theorem find_snoc_nl (seqs : List Str) (hnl : ∀ q ∈ seqs, '\n' ∈ q → q = ['\n']) (x : Str) (hx : x ≠ []) :
    seqs.find? (fun q => q.isPrefixOf (x ++ ['\n'])) = seqs.find? (fun q => q.isPrefixOf x) := by
  have key : ∀ (l : List Str), (∀ q ∈ l, q.isPrefixOf (x ++ ['\n']) = q.isPrefixOf x) →
      l.find? (fun q => q.isPrefixOf (x ++ ['\n'])) = l.find? (fun q => q.isPrefixOf x) := by
    intro l
    induction l with
    | nil => intro _; rfl
    | cons a r ih =>
      intro h
      simp only [List.find?_cons, h a List.mem_cons_self]
      rw [ih (fun q hq => h q (List.mem_cons_of_mem _ hq))]
  exact key seqs (prefix_snoc_nl seqs hnl x hx)

theorem strip1_snoc_nl (seqs : List Str) (hnl : ∀ q ∈ seqs, '\n' ∈ q → q = ['\n']) (x : Str) (hx : x ≠ []) :
    strip1 seqs (x ++ ['\n']) = (strip1 seqs x).map (· ++ ['\n']) := by
  simp only [strip1, find_snoc_nl seqs hnl x hx]
  cases hf : seqs.find? (fun q => q.isPrefixOf x) with
  | none => rfl
  | some q =>
    have hp : q.isPrefixOf x = true := by simpa using List.find?_some hf
    have hle := (List.isPrefixOf_iff_prefix.mp hp).length_le
    simp only [Option.map_some]
    rw [List.drop_append_of_le_length hle]

/-- trimming on the left, with the terminator appended: everything goes if everything was white space,
otherwise the terminator stays behind what stays -/
theorem trimLeftW_snoc_nl (seqs : List Str) (hne : ∀ q ∈ seqs, q ≠ [])
    (hnl : ∀ q ∈ seqs, '\n' ∈ q → q = ['\n']) (hin : ['\n'] ∈ seqs) (x : Str) :
    trimLeftW seqs (x ++ ['\n']) = if trimLeftW seqs x = [] then [] else trimLeftW seqs x ++ ['\n'] := by
  induction hn : x.length using Nat.strongRecOn generalizing x with
  | _ n ih =>
    by_cases hx : x = []
    · subst hx
      have h0 : trimLeftW seqs [] = [] := by
        rw [trimLeftW, strip1_none_of_nil seqs hne]
      have h1 : strip1 seqs ['\n'] = some [] := by
        simp only [strip1]
        obtain ⟨q, hq⟩ : ∃ q, seqs.find? (fun q => q.isPrefixOf ['\n']) = some q := by
          cases hf : seqs.find? (fun q => q.isPrefixOf ['\n']) with
          | some q => exact ⟨q, rfl⟩
          | none =>
            have := List.find?_eq_none.mp hf ['\n'] hin
            simp [List.isPrefixOf] at this
        rw [hq]
        have hp : q.isPrefixOf ['\n'] = true := by simpa using List.find?_some hq
        have hqm : q ∈ seqs := List.mem_of_find?_eq_some hq
        have hqne := hne q hqm
        cases q with
        | nil => exact absurd rfl hqne
        | cons c r =>
          cases r with
          | nil => simp
          | cons d r' => simp [List.isPrefixOf] at hp
      simp only [List.nil_append, h0, if_true]
      rw [trimLeftW, h1]
      simp only [List.length_nil, List.length_cons, Nat.zero_lt_succ, if_true]
      exact h0
    · have hs := strip1_snoc_nl seqs hnl x hx
      rw [trimLeftW, hs]
      conv => rhs; rw [trimLeftW]
      cases hst : strip1 seqs x with
      | none =>
        simp only [Option.map_none]
        simp [hx]
      | some r =>
        simp only [Option.map_some, List.length_append, List.length_cons, List.length_nil]
        by_cases hlt : r.length < x.length
        · have hlt' : r.length + 1 < x.length + 1 := by omega
          simp only [hlt, hlt', if_true]
          exact ih r.length (by omega) r rfl
        · have hlt' : ¬ (r.length + 1 < x.length + 1) := by omega
          simp only [hlt, hlt', if_false]
          simp [hx]

theorem spaceSeqs_ne : ∀ q ∈ spaceSeqs, q ≠ [] := by decide
theorem spaceSeqs_nl : ∀ q ∈ spaceSeqs, '\n' ∈ q → q = ['\n'] := by decide
theorem spaceSeqs_in : ['\n'] ∈ spaceSeqs := by decide

theorem trimRight_snoc_nl (y : Str) : trimRight (y ++ ['\n']) = trimRight y := by
  have h1 : strip1 (spaceSeqs.map List.reverse) ('\n' :: y.reverse) = some y.reverse := by
    simp [strip1, spaceSeqs, List.find?, List.isPrefixOf, b]
  simp only [trimRight, List.reverse_append, List.reverse_cons, List.reverse_nil, List.nil_append,
    List.singleton_append]
  rw [trimLeftW, h1]
  simp

theorem trimSpace_snoc_nl (x : Str) : trimSpace (x ++ ['\n']) = trimSpace x := by
  simp only [trimSpace, trimLeft, trimLeftW_snoc_nl spaceSeqs spaceSeqs_ne spaceSeqs_nl spaceSeqs_in x]
  split
  · rename_i h
    rw [h]
  · exact trimRight_snoc_nl _

/-- C07 (audit records): with or without its terminator a line splits into the same record type and
message — for every byte string -/
theorem audit_line (l : Str) : split (l ++ ['\n']) = split l := by
  have hidx : indexFrom msgToken (l ++ ['\n']) 0 = indexFrom msgToken l 0 :=
    indexFrom_snoc msgToken (by decide) '\n' (by decide) l 0
  simp only [split, hidx]
  cases hi : indexFrom msgToken l 0 with
  | none => rfl
  | some i =>
    have hb := (indexFrom_bound msgToken l 0 i hi).2
    have hlen : msgToken.length = 4 := by decide
    simp only
    split
    · rfl
    · rename_i hge
      have h5 : typeTokenLen = 5 := rfl
      rw [hlen] at hb ⊢
      have e1 : (l ++ ['\n']).drop typeTokenLen = l.drop typeTokenLen ++ ['\n'] :=
        List.drop_append_of_le_length (by rw [h5]; omega)
      have e2 : (l.drop typeTokenLen ++ ['\n']).take (i - 1 - typeTokenLen) =
          (l.drop typeTokenLen).take (i - 1 - typeTokenLen) :=
        List.take_append_of_le_length (by rw [List.length_drop, h5]; omega)
      have e3 : (l ++ ['\n']).drop (i + 4) = l.drop (i + 4) ++ ['\n'] :=
        List.drop_append_of_le_length (by omega)
      rw [e1, e2, e3, trimSpace_snoc_nl]

/-- composition with C12's framing theorem: record lines written to the audit pipe in ANY pieces reach the
parser as the lines themselves would — each delivered record splits exactly as its line does, in order -/
theorem audit_through_the_pipe (lines : List Str) (chunks : List Str)
    (hnl : ∀ l ∈ lines, '\n' ∉ l)
    (hc : chunks.flatten = (lines.map (· ++ ['\n'])).flatten) :
    (Pipe.run '\n' none chunks).1.map split = lines.map split := by
  have hframes : ∀ f ∈ lines.map (· ++ ['\n']), ∃ body, f = body ++ ['\n'] ∧ '\n' ∉ body := by
    intro f hf
    obtain ⟨l, hl, rfl⟩ := List.mem_map.mp hf
    exact ⟨l, rfl, hnl l hl⟩
  rw [AM.C12.run_eq_expected, hc]
  simp only [Pipe.expected, AM.C07.records_of_frames '\n' _ hframes, List.map_map]
  apply List.map_congr_left
  intro l _
  exact audit_line l

/-- the statement is not vacuous: a real record splits into its type and message, terminator or not -/
example : (split ("type=LOGIN msg=audit(1.000:2): pid=7 ".toList ++ [b 0xc2, b 0xa0, '\n'])).map (·.1) =
    some "LOGIN".toList := by decide

end AM.C07A
