import AM.Proofs.Forms.FailedPassword
import AM.Proofs.Forms.MaxAuth
import AM.Proofs.Forms.InvalidUser
/-! # C17 — client-chosen text cannot forge or suppress the record of a failed login

For the three messages in which sshd prints a client-supplied user name followed by the peer
address and port it observed, and for EVERY name without a newline — names with spaces, with
` from `, ` port `, with embedded well-formed ` from <addr> port <n>` fragments, the empty name —
every address without white space and every decimal port: the model (whose expressions are
regenerated from `openssh_regex.go` on every run) emits exactly one failed UserLogin whose source
address and port are the ones sshd appended and whose account is the name. -/
namespace AM.C17
open AM AM.Rx AM.Sshd AM.Spec AM.Gen

/-- the event of a failed attempt: account, source address and port as printed by sshd -/
def failedEv (cfg : Cfg) (pid name addr port : Str) : Ev :=
  loginEv cfg "failed" addr [("port", port)] (subj3 name pid)

theorem failed_password (cfg : Cfg) (pid name addr port ver : Str) (ok : Bool) (h : Handoff)
    (hn : noNL name = true) (ha : noSpace addr = true) (hp : digits port = true) (hv : alnums ver = true) :
    process cfg pid (s "Failed password for " ++ name ++ s " from " ++ addr ++ s " port " ++ port ++
        s " ssh" ++ ver) ok h =
      ⟨[.inc "unknown" "failure", .write (failedEv cfg pid name addr port) ok], if ok then .nil else .err⟩ := by
  have := failedPassword_process cfg pid name addr port ver ok h (by simp [inDomain, hn, ha, hp, hv]) _ rfl
  simpa [expectedOut, expectedEv, Form.accepted, expectedInc, failedEv] using this

theorem max_attempts (cfg : Cfg) (pid name addr port ver : Str) (ok : Bool) (h : Handoff)
    (hn : noNL name = true) (ha : noSpace addr = true) (hp : digits port = true) (hv : alnums ver = true) :
    process cfg pid (s "maximum authentication attempts exceeded for " ++ name ++ s " from " ++ addr ++
        s " port " ++ port ++ s " ssh" ++ ver) ok h =
      ⟨[.inc "unknown" "failure", .write (failedEv cfg pid name addr port) ok], if ok then .nil else .err⟩ := by
  have := maxAuth_process cfg pid name addr port ver ok h (by simp [inDomain, hn, ha, hp, hv]) _ rfl
  simpa [expectedOut, expectedEv, Form.accepted, expectedInc, failedEv] using this

theorem invalid_user (cfg : Cfg) (pid name addr port : Str) (ok : Bool) (h : Handoff)
    (hn : noNL name = true) (ha : noSpace addr = true) (ha0 : addr ≠ []) (hp : digits port = true) :
    process cfg pid (s "Invalid user " ++ name ++ s " from " ++ addr ++ s " port " ++ port) ok h =
      ⟨[.inc "unknown" "failure", .write (failedEv cfg pid name addr port) ok], if ok then .nil else .err⟩ := by
  have := invalidUser_process cfg pid name addr port ok h (by simp [inDomain, hn, ha, hp, ha0]) _ rfl
  simpa [expectedOut, expectedEv, Form.accepted, expectedInc, failedEv] using this

/-- in particular the recorded source and port are the genuine ones and the attempt is not dropped -/
theorem source_is_genuine (cfg : Cfg) (pid name addr port : Str) :
    (failedEv cfg pid name addr port).srcValue = addr ∧
    aLookup "port" (failedEv cfg pid name addr port).srcExtra = some port ∧
    aLookup "loggedAs" (failedEv cfg pid name addr port).subjects = some name := by
  simp [failedEv, loginEv, subj3, aLookup]

/-- non-vacuity: the forging names of the property are in the domain -/
example : noNL "x from 6.6.6.6 port 1 from 7.7.7.7 port 2".toList = true ∧ noNL "foo bar".toList = true ∧
    noNL ([] : Str) = true ∧ noSpace "fe80::1%eth0".toList = true ∧ digits "65535".toList = true := by decide

end AM.C17
