import AM.Proofs.C13
/-! # C08 — fail-stop: a worker failure or a termination signal ends the whole daemon

The group of `cmd/namedpipe.go` (`errgroup.WithContext`, three `eg.Go` workers, `eg.Wait`) over
the worker automata of C13, with the facts regenerated from the current source.

* `no_silent_exit`: no worker function has a `return nil`: a worker that stops, stops with an error,
  and the first such error cancels the group's context.
* `cause_cancels`: every failure cause of the property (a pipe at end-of-stream or failing — the
  ingester returns an error; an unparsable audit line, a write failure, an invalid login — `Read` is
  returning an error; an input path that is not a named pipe — the worker returns before reading;
  SIGTERM / SIGINT) puts the group in a cancelled state.
* `group_stops`: in every cancelled state — whatever each worker is doing, for EVERY capacity and
  occupancy of the line buffer (idle … saturated) — each worker's own steps lead it to `returned`
  (3, 3 and 8 steps), with no help from its peers or from the pipe writers; hence `eg.Wait` returns.
* `exit_nonzero`: `Wait`'s error is returned by `RunNamedPipe` and `main` ends in `log.Fatal*`.

Process exit, signals and wall-clock time are runtime matters outside any model; the daemon runs
of the harness exercise them (exit status and time to exit, idle and under sustained load). -/
namespace AM.C08
open AM.Wk AM.Gen AM.C13

theorem no_silent_exit (f : Facts) (h : f.good = true) : f.nilReturns = 0 := by
  simp only [Facts.good, Bool.and_eq_true, decide_eq_true_eq] at h
  exact h.1.1.1.2

theorem no_silent_exit_now : fromGen.nilReturns = 0 := no_silent_exit fromGen gen_good

/-- the states of the audit processor that can occur (with the join in place) -/
def RS.reach (s : RS) : Bool :=
  !s.late &&
  (match s.main with
   | .selecting => !s.wcancel
   | .failing => !s.wcancel
   | .joining => s.wcancel
   | .returned => s.wcancel && s.parser == .exited && s.maint == .exited)

def allMain : List MPhase := [.selecting, .failing, .joining, .returned]
def allG : List GPhase := [.idle, .busy, .exited]
def allRS : List RS :=
  allMain.flatMap fun a => allG.flatMap fun p => allG.flatMap fun m =>
    [true, false].flatMap fun w => [true, false].map fun l => ⟨a, p, m, w, l⟩

theorem mem_allRS (s : RS) : s ∈ allRS := by
  obtain ⟨a, p, m, w, l⟩ := s
  have ha : a ∈ allMain := by cases a <;> simp [allMain]
  have hp : p ∈ allG := by cases p <;> simp [allG]
  have hm : m ∈ allG := by cases m <;> simp [allG]
  have hw : w ∈ [true, false] := by cases w <;> simp
  have hl : l ∈ [true, false] := by cases l <;> simp
  simp only [allRS, List.mem_flatMap, List.mem_map]
  exact ⟨a, ha, p, hp, m, hm, w, hw, l, hl, rfl⟩

/-- the finite table: every reachable state settles (cancelled from outside, or on its way out) -/
theorem table_cancelled : allRS.all (fun s => !(RS.reach s) || rsettles Core.ok true 8 s) = true := by
  decide +kernel

theorem table_own : allRS.all (fun s => !(RS.reach s) || s.main == .selecting || rsettles Core.ok false 8 s) = true := by
  decide +kernel

/-- the processor settles from every reachable state once it is cancelled or on its way out -/
theorem processor_settles (s : RS) (c : Bool) (hr : RS.reach s = true)
    (hc : c = true ∨ s.main ≠ .selecting) : rsettles Core.ok c 8 s = true := by
  cases c
  · have := List.all_eq_true.mp table_own s (mem_allRS s)
    rcases hc with hc | hc
    · cases hc
    · simp only [hr, Bool.not_true, Bool.false_or, Bool.or_eq_true, beq_iff_eq] at this
      rcases this with h | h
      · exact absurd h hc
      · exact h
  · have := List.all_eq_true.mp table_cancelled s (mem_allRS s)
    simpa [hr] using this

/-- every failure cause leaves the group cancelled -/
theorem cause_cancels (g : Group) :
    (g.parent = true → g.cancelled = true) ∧                                   -- SIGTERM / SIGINT
    (g.sshdIng.ph = .returned true → g.cancelled = true) ∧                      -- sshd pipe: EOF, error, not a FIFO
    (g.auditIng.ph = .returned true → g.cancelled = true) ∧                     -- audit pipe: EOF, error, not a FIFO
    (g.proc.main = .failing → g.cancelled = true) ∧                             -- bad line, write failure, bad login
    (g.proc.main = .returned → g.cancelled = true) := by
  refine ⟨?_, ?_, ?_, ?_, ?_⟩ <;> intro h <;> simp [Group.cancelled, h]

/-- **Fail-stop.** In every cancelled state of the group every worker returns on its own. -/
theorem group_stops (f : Facts) (hf : f.good = true) (g : Group) (cap : Nat)
    (hr : RS.reach g.proc = true) (_hc : g.cancelled = true) :
    isettles f.core .sshd true 0 3 g.sshdIng = true ∧
    isettles f.core .audit true cap 3 g.auditIng = true ∧
    rsettles f.core true 8 g.proc = true := by
  rw [good_core f hf]
  exact ⟨ingester_stops_core .sshd 0 g.sshdIng, ingester_stops_core .audit cap g.auditIng,
    processor_settles g.proc true hr (Or.inl rfl)⟩

/-- … including when the processor itself is the failing worker and nobody cancelled from outside -/
theorem failing_processor_returns (f : Facts) (hf : f.good = true) (p m : GPhase) :
    rsettles f.core false 8 ⟨.failing, p, m, false, false⟩ = true :=
  (processor_stops f hf p m).2

theorem exit_nonzero (f : Facts) (h : f.good = true) : exitNonZero f true = true := by
  simp only [Facts.good, Bool.and_eq_true] at h
  simp [exitNonZero, h.1.2, h.2]

/-- for the current source: with the line buffer at its real capacity, saturated -/
theorem fail_stop_now (g : Group) (hr : RS.reach g.proc = true) (hc : g.cancelled = true) :
    isettles fromGen.core .sshd true 0 3 g.sshdIng = true ∧
    isettles fromGen.core .audit true auditLogChanCap 3 g.auditIng = true ∧
    rsettles fromGen.core true 8 g.proc = true ∧
    exitNonZero fromGen true = true :=
  let h := group_stops fromGen gen_good g auditLogChanCap hr hc
  ⟨h.1, h.2.1, h.2.2, exit_nonzero fromGen gen_good⟩

/-- a saturated group: the audit ingester blocked handing a line to the full buffer, the sshd
ingester blocked handing a login over, the parser busy — and the sshd pipe just hit end-of-stream -/
example :
    let g : Group := ⟨⟨.returned true, 0⟩, ⟨.handing, auditLogChanCap⟩, ⟨.selecting, .busy, .idle, false, false⟩, false⟩
    g.cancelled = true ∧ RS.reach g.proc = true := by decide

end AM.C08
