import AM.Model.Tracker
import AM.Gen.Consts
/-! # C16 — the two cleanup passes remove exactly the stale, uncorrelated entries

`sessions_exact` / `logins_exact`: an exact characterisation of what one cleanup pass does to the
tracker state (for every state and every cut-off).  `window`: the arithmetic of a ticker that fires
at `t₀ + j·I` and uses the cut-off `tick − I`: an entry is kept for at least `I` and for at most
`2·I` after it was stamped. -/
namespace AM.C16
open AM AM.Tr

/-- `cleanSessions t` never discards a correlated session, never one that is not older than the
cut-off, discards every uncorrelated older one, and touches nothing else. -/
theorem sessions_exact (st : St) (t : Time) :
    let st' := (step st (.cleanSessions t)).1
    (∀ s u, (s, u) ∈ st'.sessions ↔ ((s, u) ∈ st.sessions ∧ ¬ (u.login = none ∧ u.added < t))) ∧
    st'.logins = st.logins ∧ st'.out = st.out ∧ (step st (.cleanSessions t)).2 = none := by
  refine ⟨?_, rfl, rfl, rfl⟩
  intro s u
  simp only [step, List.mem_filter, Bool.not_eq_true', Bool.and_eq_false_iff,
    Option.isNone_eq_false_iff, decide_eq_false_iff_not]
  constructor
  · rintro ⟨hm, h⟩
    refine ⟨hm, ?_⟩
    rintro ⟨h1, h2⟩
    rcases h with h | h
    · rw [h1] at h; simp at h
    · exact h h2
  · rintro ⟨hm, h⟩
    refine ⟨hm, ?_⟩
    cases hl : u.login with
    | none =>
      right
      intro h2
      exact h ⟨hl, h2⟩
    | some l => left; simp

/-- `cleanLogins t` discards exactly the parked logins stamped before the cut-off, and touches
nothing else. -/
theorem logins_exact (st : St) (t : Time) :
    let st' := (step st (.cleanLogins t)).1
    (∀ p l, (p, l) ∈ st'.logins ↔ ((p, l) ∈ st.logins ∧ ¬ (l.loggedAt < t))) ∧
    st'.sessions = st.sessions ∧ st'.out = st.out ∧ (step st (.cleanLogins t)).2 = none := by
  refine ⟨?_, rfl, rfl, rfl⟩
  intro p l
  simp only [step, List.mem_filter, Bool.not_eq_true', decide_eq_false_iff_not]

/-- cleanup also keeps the relative order of what it keeps (it is a sublist) and the other
bookkeeping fields -/
theorem sessions_sublist (st : St) (t : Time) :
    (step st (.cleanSessions t)).1.sessions.Sublist st.sessions ∧
    (step st (.cleanSessions t)).1.failAt = st.failAt ∧
    (step st (.cleanSessions t)).1.writes = st.writes :=
  ⟨List.filter_sublist, rfl, rfl⟩

theorem logins_sublist (st : St) (t : Time) :
    (step st (.cleanLogins t)).1.logins.Sublist st.logins ∧
    (step st (.cleanLogins t)).1.failAt = st.failAt ∧
    (step st (.cleanLogins t)).1.writes = st.writes :=
  ⟨List.filter_sublist, rfl, rfl⟩

/-- A ticker fires at `t₀ + j·I` (`j = 1, 2, …`) and cleans with the cut-off `tick − I`.
(i) the tick number `k` does not remove an entry stamped `a` if that tick is at or before `a + I`;
(ii) an entry stamped at or after the start of the ticker is removed by some tick that is no later
than `a + 2·I`. -/
theorem window (I a t₀ : Int) (k : Nat) (hI : 0 < I) :
    (t₀ + k * I ≤ a + I → ¬ (a < t₀ + k * I - I)) ∧
    (t₀ ≤ a → ∃ j : Nat, 1 ≤ j ∧ t₀ + j * I ≤ a + 2 * I ∧ a < t₀ + j * I - I) := by
  refine ⟨fun h => by omega, fun ha => ?_⟩
  have hq : 0 ≤ (a - t₀) / I := Int.ediv_nonneg (by omega) (Int.le_of_lt hI)
  have hdm : I * ((a - t₀) / I) + (a - t₀) % I = a - t₀ := Int.mul_ediv_add_emod (a - t₀) I
  have hr0 : 0 ≤ (a - t₀) % I := Int.emod_nonneg _ (by omega)
  have hr1 : (a - t₀) % I < I := Int.emod_lt_of_pos _ hI
  refine ⟨Int.toNat ((a - t₀) / I) + 2, by omega, ?_, ?_⟩
  · have hc : ((Int.toNat ((a - t₀) / I) + 2 : Nat) : Int) = (a - t₀) / I + 2 := by omega
    rw [hc, Int.add_mul, Int.mul_comm ((a - t₀) / I) I]
    omega
  · have hc : ((Int.toNat ((a - t₀) / I) + 2 : Nat) : Int) = (a - t₀) / I + 2 := by omega
    rw [hc, Int.add_mul, Int.mul_comm ((a - t₀) / I) I]
    omega

/-- (i) for every tick -/
theorem window_keep (I a t₀ : Int) (_hI : 0 < I) :
    ∀ j : Nat, t₀ + j * I ≤ a + I → ¬ (a < t₀ + j * I - I) := by
  intro j h; omega

/-- read on the model: a session added at `a` survives every cleanup whose cut-off is `tick − I`
with `tick ≤ a + I`, whatever else is true of it -/
theorem session_survives (st : St) (s : Str) (u : User) (I a t₀ : Int) (j : Nat) (hI : 0 < I)
    (hm : (s, u) ∈ st.sessions) (ha : u.added = a) (htick : t₀ + j * I ≤ a + I) :
    (s, u) ∈ (step st (.cleanSessions (t₀ + j * I - I))).1.sessions := by
  have := (sessions_exact st (t₀ + j * I - I)).1 s u
  refine this.mpr ⟨hm, ?_⟩
  rintro ⟨_, h2⟩
  rw [ha] at h2
  exact (window I a t₀ j hI).1 htick h2

/-! ### the running audit processor: constants regenerated from `processors/auditd/auditd.go` -/

/-- what `tools/extract` found in `Auditd.Read`: the stale-data ticker has a period of one minute,
the cut-off handed to BOTH cleanup methods is `time.Now()` minus that same period -/
theorem daemon_constants :
    AM.Gen.cleanupTickerNs = 60 * 1000000000 ∧ AM.Gen.cleanupCutoffBackNs = AM.Gen.cleanupTickerNs ∧
    AM.Gen.cleanupCallsBothWithCutoff = true := by decide

/-- with those constants and any phase `t₀` of the ticker: a pending half stamped at `a` is kept by
every tick up to one minute after `a` (so two halves at most a minute apart are always correlated),
and some tick no later than two minutes after `a` discards it (so halves more than two minutes
apart are not, and the held events are dropped rather than emitted late) -/
theorem window_daemon (a t₀ : Int) (ha : t₀ ≤ a) :
    (∀ j : Nat, t₀ + j * AM.Gen.cleanupTickerNs ≤ a + 60000000000 →
        ¬ (a < t₀ + j * AM.Gen.cleanupTickerNs - AM.Gen.cleanupCutoffBackNs)) ∧
    (∃ j : Nat, 1 ≤ j ∧ t₀ + j * AM.Gen.cleanupTickerNs ≤ a + 120000000000 ∧
        a < t₀ + j * AM.Gen.cleanupTickerNs - AM.Gen.cleanupCutoffBackNs) := by
  have hc := daemon_constants
  have h1 : AM.Gen.cleanupTickerNs = 60000000000 := by rw [hc.1]; rfl
  have h2 : AM.Gen.cleanupCutoffBackNs = 60000000000 := by rw [hc.2.1, h1]
  rw [h1, h2]
  refine ⟨fun j h => (window 60000000000 a t₀ j (by omega)).1 h, ?_⟩
  obtain ⟨j, hj1, hj2, hj3⟩ := (window 60000000000 a t₀ 0 (by omega)).2 ha
  exact ⟨j, hj1, by omega, hj3⟩

end AM.C16
