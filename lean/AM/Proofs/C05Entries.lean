import AM.Proofs.C06Entries
/-! C05 speaks about the entry functions of `processors/sshd` through the hand-written model `AM.Sshd.entryOf`.
For the sixteen simple ones that model is tied to the source by translation: `AM.C06E.entry_*` equate it with the
interpretation of the descriptors regenerated from the working tree. This module makes those equations obligations of
C05 as well (it does not build unless they do) and pins what is translated. -/
namespace AM.C05E
open AM AM.Gen

theorem simple_entries_translated :
    (Gen.entries.map (·.1)).length = 16 ∧ (Gen.entriesX.map (·.1)).length = 2 ∧ (Gen.untranslatedEntries.map (·.1)).length = 2 := by decide

theorem failed_password_body :
    AM.Sshd.entryOf "failedPasswordAuth" = some (AM.C06E.interp failedPasswordAuthRE entry_failedPasswordAuth) :=
  AM.C06E.entry_failedPasswordAuth

theorem max_attempts_body :
    AM.Sshd.entryOf "maxAuthAttemptsExceeded" = some (AM.C06E.interp maxAuthAttemptsExceededRE entry_maxAuthAttemptsExceeded) :=
  AM.C06E.entry_maxAuthAttemptsExceeded

end AM.C05E
