import AM.Proofs.ConcLemmas
import AM.Gen.Facts
/-! # C03 — operations bracketed by one mutex are atomic, for every schedule

For EVERY schedule (an arbitrary list of thread indices, including indices of blocked, finished
or non-existent threads), all programs and all state types:

* `serialisable`: whenever the mutex is free the shared state is the sequential composition of
  the operations in order of acquisition;
* `exclusive`, `at_most_one_in_progress`: body instructions are only executed by the holder;
* `progress`: no deadlock;
* `log_complete`, `log_respects_program_order`: when all threads are done, the acquisition order
  is an interleaving of the programs;
* `tracker_serialisable`, `health_snapshot`: the two instances. -/
namespace AM.C03
open AM AM.Conc

variable {S L : Type}

theorem serialisable (s0 : S) (progs : List (List (Op S L))) (sched : List Nat) :
    let fin := runSched (start s0 progs) sched
    fin.g = none → fin.sh = fin.log.foldl applyOp s0 := by
  intro fin hg
  exact (inv_free (inv_reach s0 progs sched) hg).2

/-- a body instruction (in particular every access to the shared state) is only ever executed by
the holder of the mutex -/
theorem exclusive (s0 : S) (progs : List (List (Op S L))) (sched : List Nat) (i : Nat)
    (t : Thr S L) (ins : Instr S L) (r : List (Instr S L)) (loc : L) :
    let sys := runSched (start s0 progs) sched
    sys.thr[i]? = some t → t.cur = some (ins :: r, loc) → sys.g = some i := by
  intro sys ht hc
  exact inv_cur_holder (inv_reach s0 progs sched) ht (by rw [hc]; exact Option.some_ne_none _)

theorem at_most_one_in_progress (s0 : S) (progs : List (List (Op S L))) (sched : List Nat)
    (i j : Nat) (ti tj : Thr S L) :
    let sys := runSched (start s0 progs) sched
    sys.thr[i]? = some ti → sys.thr[j]? = some tj → ti.cur ≠ none → tj.cur ≠ none → i = j := by
  intro sys hi hj hci hcj
  have h1 := inv_cur_holder (inv_reach s0 progs sched) hi hci
  have h2 := inv_cur_holder (inv_reach s0 progs sched) hj hcj
  rw [h1] at h2
  exact Option.some.inj h2

/-- no deadlock: as long as some thread is unfinished, some thread can take a step -/
theorem progress (s0 : S) (progs : List (List (Op S L))) (sched : List Nat) :
    let sys := runSched (start s0 progs) sched
    (∃ (i : Nat) (t : Thr S L), sys.thr[i]? = some t ∧ (t.cur ≠ none ∨ t.todo ≠ [])) → ∃ i, step sys i ≠ sys := by
  intro sys hex
  obtain ⟨i, t, ht, hu⟩ := hex
  have hinv : Inv s0 sys := inv_reach s0 progs sched
  cases hg : sys.g with
  | none =>
    have hc : t.cur = none := (inv_free hinv hg).1 t (List.mem_of_getElem? ht)
    have htodo : t.todo ≠ [] := by
      rcases hu with h | h
      · exact absurd hc h
      · exact h
    cases htd : t.todo with
    | nil => exact absurd htd htodo
    | cons op rest =>
      refine ⟨i, fun heq => ?_⟩
      have hs : (step sys i).g = some i := by rw [step_acquire ht hc htd hg]
      rw [heq, hg] at hs
      cases hs
  | some h =>
    obtain ⟨th, r, loc, hth, hch⟩ := inv_holder hinv hg
    refine ⟨h, fun heq => ?_⟩
    cases r with
    | nil =>
      have hs : (step sys h).g = none := by rw [step_release hth hch]
      rw [heq, hg] at hs
      cases hs
    | cons ins r' =>
      have hs : (step sys h).thr[h]? = some ⟨th.todo, some (r', (execInstr sys.sh loc ins).2)⟩ := by
        rw [step_instr hth hch]
        simp [lt_length_of_getElem? hth]
      rw [heq, hth] at hs
      have h3 : th.cur = some (r', (execInstr sys.sh loc ins).2) := by
        rw [Option.some.inj hs]
      rw [hch] at h3
      have h4 : (ins :: r').length = r'.length := by
        have := congrArg (fun c => c.1.length) (Option.some.inj h3)
        exact this
      simp at h4

/-- the acquisition order is an interleaving of the programs (tagged version: the programs are
`progs.map (·.map f)`) -/
theorem log_interleaving {α : Type} (f : α → Op S L) (s0 : S) (progs : List (List α)) (sched : List Nat) :
    let fin := runSched (start s0 (progs.map (·.map f))) sched
    allDone fin → ∃ order : List α, fin.log = order.map f ∧ order.Perm progs.flatten ∧
      ∀ (k : Nat) (p : List α), progs[k]? = some p → List.Sublist p order := by
  intro fin hd
  exact invP_done (invP_reach f progs s0 sched) (allDone_todos hd)

theorem map_map_id {α : Type} (progs : List (List α)) : progs.map (·.map id) = progs := by
  induction progs with
  | nil => rfl
  | cons p r ih => simp

/-- every operation ran exactly once -/
theorem log_complete (s0 : S) (progs : List (List (Op S L))) (sched : List Nat) :
    let fin := runSched (start s0 progs) sched
    allDone fin → fin.log.Perm progs.flatten := by
  intro fin hd
  have h := log_interleaving id s0 progs sched
  rw [map_map_id] at h
  obtain ⟨order, hl, hperm, _⟩ := h hd
  rw [List.map_id] at hl
  show fin.log.Perm progs.flatten
  rw [hl]; exact hperm

/-- each thread's operations appear in its program order -/
theorem log_respects_program_order (s0 : S) (progs : List (List (Op S L))) (sched : List Nat)
    (k : Nat) (p : List (Op S L)) :
    let fin := runSched (start s0 progs) sched
    allDone fin → progs[k]? = some p → p.Sublist fin.log := by
  intro fin hd hk
  have h := log_interleaving id s0 progs sched
  rw [map_map_id] at h
  obtain ⟨order, hl, _, hsub⟩ := h hd
  rw [List.map_id] at hl
  show p.Sublist fin.log
  rw [hl]; exact hsub k p hk

theorem applyOp_trackerOp (st : Tr.St) (op : Tr.Op) : applyOp st (trackerOp op) = (Tr.step st op).1 := rfl

/-- for every schedule of concurrent RemoteLogin / AuditdEvent / cleanup calls, the tracker's final
state (in particular its emitted events `out`) is that of SOME sequential ordering of the same
calls that respects each caller's own order -/
theorem tracker_serialisable (failAt : Option Nat) (progs : List (List Tr.Op)) (sched : List Nat) :
    let fin := runSched (start ({ failAt := failAt } : Tr.St) (progs.map (·.map trackerOp))) sched
    allDone fin → ∃ order : List Tr.Op, order.Perm progs.flatten ∧
      (∀ (k : Nat) (p : List Tr.Op), progs[k]? = some p → p.Sublist order) ∧
      fin.sh = order.foldl (fun st op => (Tr.step st op).1) { failAt := failAt } := by
  intro fin hd
  obtain ⟨order, hl, hperm, hsub⟩ := log_interleaving trackerOp _ progs sched hd
  refine ⟨order, hperm, hsub, ?_⟩
  have hinv := inv_reach ({ failAt := failAt } : Tr.St) (progs.map (·.map trackerOp)) sched
  have hs := (inv_free hinv (allDone_free hinv hd)).2
  show fin.sh = _
  rw [hs, hl, List.foldl_map]
  rfl

theorem foldl_preserves {σ β : Type} (P : σ → Prop) (g : σ → β → σ) (l : List β)
    (hstep : ∀ s, P s → ∀ b ∈ l, P (g s b)) : ∀ s, P s → P (l.foldl g s) := by
  induction l with
  | nil => intro s hs; exact hs
  | cons b r ih =>
    intro s hs
    exact ih (fun s' hs' b' hb' => hstep s' hs' b' (List.mem_cons_of_mem _ hb')) _
      (hstep s hs b (List.mem_cons_self ..))

/-- every answer of the readiness endpoint is the answer for ONE state of the map (a consistent
snapshot), whatever the interleaving of registrations, ready-marks and requests -/
theorem health_snapshot (progs : List (List (Op HS Unit)))
    (hp : ∀ p ∈ progs, ∀ op ∈ p, (∃ o, op = healthStore o) ∨ op = healthLen ∨ op = healthIterate)
    (sched : List Nat) :
    let fin := runSched (start (([], []) : HS) progs) sched
    fin.g = none → ∀ r ∈ fin.sh.2, ∃ m : Health.M, r = Health.respond m := by
  intro fin hg
  have hs : fin.sh = fin.log.foldl applyOp (([], []) : HS) := serialisable _ progs sched hg
  have hmem : ∀ op ∈ fin.log, (∃ o, op = healthStore o) ∨ op = healthLen ∨ op = healthIterate := by
    intro op hop
    have h := invP_reach id progs (([], []) : HS) sched
    rw [map_map_id] at h
    obtain ⟨a, ha, rfl⟩ := invP_mem h op hop
    obtain ⟨p, hpp, hap⟩ := List.mem_flatten.1 ha
    exact hp p hpp a hap
  rw [hs]
  refine foldl_preserves (fun s : HS => ∀ r ∈ s.2, ∃ m : Health.M, r = Health.respond m)
    applyOp fin.log ?_ _ ?_
  · intro s hsP op hop r hr
    rcases hmem op hop with ⟨o, rfl⟩ | rfl | rfl
    · exact hsP r hr
    · exact hsP r hr
    · have : r ∈ s.2 ++ [Health.respond s.1] := hr
      rcases List.mem_append.1 this with h | h
      · exact hsP r h
      · exact ⟨s.1, by simpa using h⟩
  · intro r hr; cases hr

/-! ### the discipline the theorems assume, read off the current source

`tools/extract` regenerates `AM.Gen.trackerLocked` on every run: for each exported method of the
session tracker, whether its body begins by taking the tracker mutex and releases it with a
deferred unlock (only deferred calls may come before). `serialisable` speaks about operations
bracketed by one mutex; this obligation re-checks that the four operations of the code as it is
now are so bracketed. The controlled-scheduler runs observe the same thing dynamically. -/
theorem gen_tracker_operations_locked :
    AM.Gen.trackerLocked.length = 4 ∧ AM.Gen.trackerLocked.all (·.2) = true := by decide

end AM.C03
