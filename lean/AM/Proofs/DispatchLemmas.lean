import AM.Spec.Sshd
import AM.Rx.Find
/-! Lemmas for walking the generated dispatch tables: a case is skipped when its literal prefix
(or, for end-anchored expressions, its literal suffix) visibly mismatches the line. -/
namespace AM.Sshd
open AM AM.Rx AM.Gen

/-- the two strings differ at some position both have -/
def mismatch : Str → Str → Bool
  | a :: as, b :: bs => a != b || mismatch as bs
  | _, _ => false

theorem not_prefix_of_mismatch : ∀ (l hd x : Str), mismatch l hd = true → l.isPrefixOf (hd ++ x) = false
  | [], _, _, h => by simp [mismatch] at h
  | _ :: _, [], _, h => by simp [mismatch] at h
  | a :: as, b :: bs, x, h => by
    simp only [mismatch, Bool.or_eq_true, bne_iff_ne, ne_eq] at h
    simp only [List.cons_append, List.isPrefixOf, Bool.and_eq_false_iff, beq_eq_false_iff_ne, ne_eq]
    rcases h with h | h
    · exact Or.inl h
    · exact Or.inr (not_prefix_of_mismatch as bs x h)

theorem not_suffix_of_mismatch (l tl x : Str) (h : mismatch l.reverse tl.reverse = true) :
    ¬ l <:+ (x ++ tl) := by
  intro hs
  have := List.reverse_prefix.mpr hs
  rw [List.reverse_append] at this
  have h2 := not_prefix_of_mismatch l.reverse tl.reverse x.reverse h
  rw [List.isPrefixOf_iff_prefix.mpr this] at h2
  cases h2

/-- the condition certainly fails on every line that starts with `hd` and ends with `tl` -/
def _root_.AM.Gen.Cond.rejects (c : Cond) (hd tl : Str) : Bool :=
  match c with
  | .pfx s => mismatch s hd
  | .re p =>
    p.anchS && ((match p.items with
      | .lit l :: _ => mismatch l hd
      | _ => false) ||
    (p.anchE && match p.items.getLast? with
      | some (.lit l) => mismatch l.reverse tl.reverse
      | _ => false))

theorem getLast_lit_split : ∀ (items : List Item) (l : Str), items.getLast? = some (.lit l) →
    ∃ is, items = is ++ [.lit l] := by
  intro items l h
  refine ⟨items.dropLast, ?_⟩
  have hne : items ≠ [] := by intro h0; simp [h0] at h
  have := List.dropLast_concat_getLast hne
  rw [List.getLast?_eq_some_getLast hne] at h
  simp only [Option.some.injEq] at h
  rw [h] at this; exact this.symm

theorem _root_.AM.Gen.Cond.rejects_sound (c : Cond) (hd mid tl : Str) (h : c.rejects hd tl = true) :
    c.holds (hd ++ (mid ++ tl)) = false := by
  cases c with
  | pfx s => exact not_prefix_of_mismatch s hd _ h
  | re p =>
    simp only [Cond.rejects, Bool.and_eq_true, Bool.or_eq_true] at h
    obtain ⟨hs, h⟩ := h
    simp only [Cond.holds]
    rcases h with h | ⟨he, h⟩
    · split at h
      · rename_i l is hi
        exact isMatch_false_of_lit p l is _ hs hi (not_prefix_of_mismatch l hd _ h)
      · cases h
    · split at h
      · rename_i l hl
        obtain ⟨is, hi⟩ := getLast_lit_split _ _ hl
        apply isMatch_false_of_suffix p is l _ hs he hi
        have := not_suffix_of_mismatch l tl (hd ++ mid) h
        simpa [List.append_assoc] using this
      · cases h

/-- number of leading cases that visibly reject the line's head/tail -/
def skipCount (t : List DCase) (hd tl : Str) : Nat :=
  match t with
  | [] => 0
  | c :: r => if c.cond.rejects hd tl then skipCount r hd tl + 1 else 0

theorem firstCase_skip (t : List DCase) (hd mid tl : Str) :
    firstCase t (hd ++ (mid ++ tl)) = firstCase (t.drop (skipCount t hd tl)) (hd ++ (mid ++ tl)) := by
  induction t with
  | nil => simp [skipCount]
  | cons c r ih =>
    simp only [skipCount]
    split
    · rename_i h
      have := Cond.rejects_sound c.cond hd mid tl h
      simp only [firstCase, List.find?, this, List.drop_succ_cons]
      exact ih
    · simp

theorem firstCase_hit (c : DCase) (r : List DCase) (line : Str) (h : c.cond.holds line = true) :
    firstCase (c :: r) line = some c := by
  simp [firstCase, List.find?, h]

end AM.Sshd
