import AM.Gen.Consts
import AM.Model.Handoff
import AM.Proofs.TrackerInv
/-! # C10 — whole events in causal order

`causal`: for EVERY schedule of the sshd thread, the hand-off and the audit threads (any
interleaving, any audit input, write failures on either side, cancellations, clean-ups), every
UserAction in the shared output is preceded by the UserLogin event of the very login whose
identity it carries. `login_once`: the UserLogin events in the output are exactly the logins the
sshd thread processed successfully, in order, each once. `output_only_grows`: nothing written is
ever retracted or rewritten.

*Partial*: that a line is never torn or interleaved with another rests on `encoding/json` doing
one `Write` per event and on `O_APPEND` writes of one buffer being atomic with respect to the other
Go routine; no executable model can establish that. It is exercised by the harness on a real
`O_APPEND` file (in-process and through the built daemon). -/
namespace AM.C10
open AM AM.HO

/-- the hand-off is modelled as a rendezvous (`Handoff.Act.handoff`: the sshd thread stays blocked until the correlator
takes the login): the `logins` channel of `RunNamedPipe` is unbuffered in the working tree (regenerated fact) -/
theorem gen_logins_rendezvous : AM.Gen.loginsChanUnbuffered = true := rfl

/-- the model has ONE output that both pipelines append to (`HO.St.out`): `RunNamedPipe` creates one event writer — one
file handle, one encoder — and hands that same writer to the sshd processor and to the audit processor (regenerated
fact). With a writer (and file handle) per pipeline the descriptor's write lock no longer orders the two pipelines'
writes, and whole lines rest on the kernel alone (on a FIFO: only up to PIPE_BUF bytes). -/
theorem gen_one_shared_writer : AM.Gen.oneSharedEventWriter = true := rfl

open AM.Tr (Login Emitted AEvent Time Inv loginsOf loginsOf_append inv_init inv_step out_step)

/-- every UserAction is preceded by the UserLogin of the login it carries -/
def Causal (out : List Item) : Prop :=
  ∀ pre post em, out = pre ++ .action em :: post → .login em.login ∈ pre

theorem causal_nil : Causal [] := by
  intro pre post em h; simp at h

theorem causal_append_login {out : List Item} (l : Login) (h : Causal out) : Causal (out ++ [.login l]) := by
  intro pre post em he
  rcases List.append_eq_append_iff.mp he with ⟨a, h1, h2⟩ | ⟨c, h1, h2⟩
  · -- pre = out ++ a: the action would be in [.login l]
    cases a with
    | nil => simp at h2
    | cons x a =>
      simp only [List.cons_append, List.cons.injEq] at h2
      have : a ++ Item.action em :: post = [] := h2.2.symm
      simp at this
  · -- out = pre ++ c
    cases c with
    | nil => simp at h2
    | cons x c =>
      simp only [List.cons_append, List.cons.injEq] at h2
      obtain ⟨rfl, h3⟩ := h2
      exact h pre c em h1

theorem causal_append_actions {out : List Item} (new : List Emitted) (h : Causal out)
    (hn : ∀ em ∈ new, Item.login em.login ∈ out) : Causal (out ++ new.map .action) := by
  induction new generalizing out with
  | nil => simpa using h
  | cons a new ih =>
    have h1 : Causal (out ++ [.action a]) := by
      intro pre post em he
      rcases List.append_eq_append_iff.mp he with ⟨x, h1, h2⟩ | ⟨c, h1, h2⟩
      · cases x with
        | nil =>
          simp only [List.nil_append, List.cons.injEq, Item.action.injEq] at h2
          obtain ⟨rfl, _⟩ := h2
          rw [h1]; simpa using hn a List.mem_cons_self
        | cons y x =>
          simp only [List.cons_append, List.cons.injEq] at h2
          have : x ++ Item.action em :: post = [] := h2.2.symm
          simp at this
      · cases c with
        | nil =>
          simp only [List.nil_append, List.cons.injEq, Item.action.injEq] at h2
          obtain ⟨rfl, _⟩ := h2
          have hp : out = pre := by simpa using h1
          rw [← hp]; exact hn _ List.mem_cons_self
        | cons y c =>
          simp only [List.cons_append, List.cons.injEq] at h2
          obtain ⟨rfl, _⟩ := h2
          exact h pre c em h1
    have := ih (out := out ++ [.action a]) h1
      (fun em hem => List.mem_append_left _ (hn em (List.mem_cons_of_mem _ hem)))
    simpa [List.append_assoc] using this

/-- the invariant of the composition -/
structure J (st : HO.St) : Prop where
  inv : Inv st.hist st.tr
  delivered : ∀ l ∈ loginsOf st.hist, Item.login l ∈ st.out
  inflight : ∀ l, st.inflight = some l → Item.login l ∈ st.out
  causal : Causal st.out

theorem j_init (failAt : Option Nat) (todo : List Login) (evs : List (AEvent × Time)) :
    J { sshdTodo := todo, auditTodo := evs, tr := { failAt := failAt } } :=
  ⟨inv_init failAt, by simp [loginsOf], by simp, causal_nil⟩

/-- a tracker operation whose login (if any) has its UserLogin in the output keeps the invariant -/
theorem j_track (st : HO.St) (op : Tr.Op) (h : J st)
    (hl : ∀ l, op = .remoteLogin l → Item.login l ∈ st.out) :
    Inv (track st op).hist (track st op).tr ∧
    (∀ l ∈ loginsOf (track st op).hist, Item.login l ∈ (track st op).out) ∧
    Causal (track st op).out ∧ (∀ x ∈ st.out, x ∈ (track st op).out) := by
  have hi := inv_step st.hist st.tr op h.inv
  obtain ⟨new, hnew⟩ := out_step st.tr op
  have hdrop : (Tr.step st.tr op).1.out.drop st.tr.out.length = new := by
    rw [hnew]; simp
  have hdel : ∀ l ∈ loginsOf (st.hist ++ [op]), Item.login l ∈ st.out := by
    intro l hl'
    rw [loginsOf_append] at hl'
    rcases List.mem_append.mp hl' with hl' | hl'
    · exact h.delivered l hl'
    · cases op with
      | remoteLogin l' =>
        simp only [loginsOf, List.mem_singleton] at hl'
        subst hl'
        exact hl l rfl
      | audit e now => simp [loginsOf] at hl'
      | cleanSessions t => simp [loginsOf] at hl'
      | cleanLogins t => simp [loginsOf] at hl'
  simp only [track, hdrop]
  refine ⟨hi, fun l hl' => List.mem_append_left _ (hdel l hl'), ?_, fun x hx => List.mem_append_left _ hx⟩
  apply causal_append_actions new h.causal
  intro em hem
  have : em ∈ (Tr.step st.tr op).1.out := by rw [hnew]; exact List.mem_append_right _ hem
  exact hdel em.login (hi.outOk em this).2.1

theorem j_step (st : HO.St) (a : Act) (h : J st) : J (HO.step st a) := by
  cases a with
  | sshdWrite =>
    simp only [HO.step]
    split
    · rename_i l rest hin htodo
      refine ⟨h.inv, fun x hx => List.mem_append_left _ (h.delivered x hx), ?_, causal_append_login l h.causal⟩
      intro x hx
      simp only [Option.some.injEq] at hx
      subst hx
      simp
    · exact h
  | sshdWriteFail =>
    simp only [HO.step]
    split
    · exact ⟨h.inv, h.delivered, h.inflight, h.causal⟩
    · exact h
  | handoff =>
    simp only [HO.step]
    split
    · rename_i l hin
      split
      · exact h
      · obtain ⟨a, b, c, _⟩ := j_track st (.remoteLogin l) h (fun l' he => by cases he; exact h.inflight l hin)
        exact ⟨a, b, by simp, c⟩
    · exact h
  | sshdCancel =>
    exact ⟨h.inv, h.delivered, by simp [HO.step], h.causal⟩
  | audit =>
    simp only [HO.step]
    split
    · rename_i e now rest htodo
      split
      · exact h
      · obtain ⟨a, b, c, d⟩ := j_track st (.audit e now) h (fun l' he => by cases he)
        exact ⟨a, b, fun l hl => d _ (h.inflight l (by simpa [track] using hl)), c⟩
    · exact h
  | cleanS t =>
    simp only [HO.step]
    split
    · exact h
    · obtain ⟨a, b, c, d⟩ := j_track st (.cleanSessions t) h (fun l' he => by cases he)
      exact ⟨a, b, fun l hl => d _ (h.inflight l (by simpa [track] using hl)), c⟩
  | cleanL t =>
    simp only [HO.step]
    split
    · exact h
    · obtain ⟨a, b, c, d⟩ := j_track st (.cleanLogins t) h (fun l' he => by cases he)
      exact ⟨a, b, fun l hl => d _ (h.inflight l (by simpa [track] using hl)), c⟩

theorem j_run (st : HO.St) (sched : List Act) (h : J st) : J (HO.run st sched) := by
  induction sched generalizing st with
  | nil => exact h
  | cons a rest ih => exact ih (HO.step st a) (j_step st a h)

/-- **Causal order, for every schedule.** -/
theorem causal (failAt : Option Nat) (todo : List Login) (evs : List (AEvent × Time)) (sched : List Act)
    (pre post : List Item) (em : Emitted)
    (h : (HO.run { sshdTodo := todo, auditTodo := evs, tr := { failAt := failAt } } sched).out =
      pre ++ .action em :: post) : Item.login em.login ∈ pre :=
  (j_run _ sched (j_init failAt todo evs)).causal pre post em h

/-- … and the login whose identity the event carries is one the sshd thread really handed over -/
theorem action_login_delivered (failAt : Option Nat) (todo : List Login) (evs : List (AEvent × Time))
    (sched : List Act) (em : Emitted)
    (h : Item.action em ∈ (HO.run { sshdTodo := todo, auditTodo := evs, tr := { failAt := failAt } } sched).out) :
    Item.login em.login ∈ (HO.run { sshdTodo := todo, auditTodo := evs, tr := { failAt := failAt } } sched).out := by
  obtain ⟨pre, post, he⟩ := List.append_of_mem h
  have := causal failAt todo evs sched pre post em he
  rw [he]; exact List.mem_append_left _ this

/-! ### nothing is written twice, nothing is retracted -/

def loginsIn (out : List Item) : List Login :=
  out.filterMap fun x => match x with | .login l => some l | _ => none

theorem loginsIn_append (a b : List Item) : loginsIn (a ++ b) = loginsIn a ++ loginsIn b := by
  simp [loginsIn, List.filterMap_append]

theorem loginsIn_actions (new : List Emitted) : loginsIn (new.map .action) = [] := by
  induction new with
  | nil => rfl
  | cons a t ih => simpa [loginsIn] using ih

/-- the UserLogin events written so far, the login being handed over excluded or included, and the
logins still to do make up the sshd thread's work list: each processed login is written at most
once, in order -/
theorem login_once_step (st : HO.St) (a : Act) :
    (∃ l, loginsIn (HO.step st a).out = loginsIn st.out ++ [l] ∧ st.sshdTodo = l :: (HO.step st a).sshdTodo) ∨
    (loginsIn (HO.step st a).out = loginsIn st.out ∧
      ((HO.step st a).sshdTodo = st.sshdTodo ∨ ∃ l, st.sshdTodo = l :: (HO.step st a).sshdTodo)) := by
  have htrack : ∀ op, loginsIn (track st op).out = loginsIn st.out ∧ (track st op).sshdTodo = st.sshdTodo := by
    intro op
    refine ⟨?_, rfl⟩
    simp only [track]
    rw [loginsIn_append, loginsIn_actions, List.append_nil]
  cases a with
  | sshdWrite =>
    simp only [HO.step]
    split
    · rename_i l rest _ htodo
      exact Or.inl ⟨l, by simp [loginsIn_append, loginsIn], htodo⟩
    · exact Or.inr ⟨rfl, Or.inl rfl⟩
  | sshdWriteFail =>
    simp only [HO.step]
    split
    · rename_i x rest _ htodo
      exact Or.inr ⟨rfl, Or.inr ⟨x, htodo⟩⟩
    · exact Or.inr ⟨rfl, Or.inl rfl⟩
  | handoff =>
    simp only [HO.step]
    split
    · rename_i l _
      split
      · exact Or.inr ⟨rfl, Or.inl rfl⟩
      · exact Or.inr ⟨(htrack (.remoteLogin l)).1, Or.inl (htrack (.remoteLogin l)).2⟩
    · exact Or.inr ⟨rfl, Or.inl rfl⟩
  | sshdCancel => exact Or.inr ⟨rfl, Or.inl rfl⟩
  | audit =>
    simp only [HO.step]
    split
    · rename_i e now _ _
      split
      · exact Or.inr ⟨rfl, Or.inl rfl⟩
      · exact Or.inr ⟨(htrack (.audit e now)).1, Or.inl (htrack (.audit e now)).2⟩
    · exact Or.inr ⟨rfl, Or.inl rfl⟩
  | cleanS t =>
    simp only [HO.step]
    split
    · exact Or.inr ⟨rfl, Or.inl rfl⟩
    · exact Or.inr ⟨(htrack (.cleanSessions t)).1, Or.inl (htrack (.cleanSessions t)).2⟩
  | cleanL t =>
    simp only [HO.step]
    split
    · exact Or.inr ⟨rfl, Or.inl rfl⟩
    · exact Or.inr ⟨(htrack (.cleanLogins t)).1, Or.inl (htrack (.cleanLogins t)).2⟩

/-- **No UserLogin is written twice.** For every schedule the UserLogin events in the output are a
subsequence of the sshd thread's work list (in order, each at most once). -/
theorem login_once (st : HO.St) (sched : List Act) :
    ∃ done, (loginsIn (HO.run st sched).out = loginsIn st.out ++ done) ∧
      List.Sublist (done ++ (HO.run st sched).sshdTodo) st.sshdTodo := by
  induction sched generalizing st with
  | nil => exact ⟨[], by simp [HO.run], by simp [HO.run]⟩
  | cons a rest ih =>
    obtain ⟨done, h1, h2⟩ := ih (HO.step st a)
    simp only [HO.run, List.foldl_cons] at h1 h2 ⊢
    rcases login_once_step st a with ⟨l, ha, hb⟩ | ⟨ha, hb | ⟨l, hb⟩⟩
    · refine ⟨l :: done, by rw [h1, ha]; simp, ?_⟩
      rw [hb]; simpa using h2
    · exact ⟨done, by rw [h1, ha], by rw [← hb]; exact h2⟩
    · refine ⟨done, by rw [h1, ha], ?_⟩
      rw [hb]; exact List.Sublist.cons _ h2

/-- what has been written is never retracted or changed -/
theorem output_only_grows (st : HO.St) (a : Act) : ∃ new, (HO.step st a).out = st.out ++ new := by
  cases a with
  | sshdWrite =>
    simp only [HO.step]
    split
    · exact ⟨_, rfl⟩
    · exact ⟨[], by simp⟩
  | sshdWriteFail => simp only [HO.step]; split <;> exact ⟨[], by simp⟩
  | handoff =>
    simp only [HO.step]
    split
    · split
      · exact ⟨[], by simp⟩
      · exact ⟨_, rfl⟩
    · exact ⟨[], by simp⟩
  | sshdCancel => exact ⟨[], by simp [HO.step]⟩
  | audit =>
    simp only [HO.step]
    split
    · split
      · exact ⟨[], by simp⟩
      · exact ⟨_, rfl⟩
    · exact ⟨[], by simp⟩
  | cleanS t =>
    simp only [HO.step]
    split
    · exact ⟨[], by simp⟩
    · exact ⟨_, rfl⟩
  | cleanL t =>
    simp only [HO.step]
    split
    · exact ⟨[], by simp⟩
    · exact ⟨_, rfl⟩

/-! ### a non-trivial schedule -/

def demoLogin (pid : Int) (who : String) : Login :=
  { pid := pid, cred := who.toList, hasSource := true, subjects := [("userID", who.toList)],
    srcType := "IP".toList, srcValue := "10.0.0.1".toList, srcExtra := [], target := [], loggedAt := 0 }

def demoEv (ts : Int) (ses : String) (typ : AM.Tr.EvType) (pid : String) : AEvent :=
  { ts := ts, ses := ses.toList, typ := typ, pidTok := pid.toList, result := "success".toList,
    action := [], how := [], object := [], args := [] }

/-- two sessions; the audit side runs ahead for session 1 (its events are held and released by the
hand-off), the sshd side runs ahead for session 2 -/
def demoInit : HO.St :=
  { sshdTodo := [demoLogin 100 "alice", demoLogin 200 "bob"],
    auditTodo := [(demoEv 1 "1" .login "100", 1), (demoEv 2 "1" .other "100", 2), (demoEv 3 "2" .login "200", 3),
                  (demoEv 4 "2" .other "200", 4), (demoEv 5 "1" .credDisp "100", 5)] }

def demoSched : List Act :=
  [.audit, .audit, .sshdWrite, .audit, .handoff, .sshdWrite, .handoff, .audit, .audit]

/-- the output of that schedule: alice's UserLogin, the two held events of session 1, bob's
UserLogin, then session 2's events and the end of session 1 — every action after its own login -/
example :
    (HO.run demoInit demoSched).out.map (fun x => match x with
      | .login l => (0, l.pid) | .action em => (em.ev.ts, em.login.pid)) =
    [(0, 100), (1, 100), (2, 100), (0, 200), (3, 200), (4, 200), (5, 100)] := by decide

end AM.C10
