import AM.Proofs.AuditProcLemmas
import AM.Proofs.TrackerInv
/-! # The audit processor refines the session tracker

Whatever the processor does — any input list, interleaving of records, expiry, overflow, errors,
the flush at `Read`'s return — the correlator inside it has executed exactly the operation list
recorded in `trHist`: its state is the fold of `Tr.step` over that list, the audit events in the
list are exactly the events handed over (`handed`, in order), and its logins are logins that arrived
on the `Logins` channel. Hence the tracker's invariant (and with it C01 / C04 at the level of the
processor) holds of everything the processor ever writes: `emitted_justified`. -/
namespace AM.C15
open AM AM.AP
open AM.Tr (Inv loginsOf auditsOf isOpener inv_step inv_init loginsOf_append auditsOf_append)

/-- the correlator's state is determined by the operations it was asked to perform -/
def foldTr (failAt : Option Nat) (h : List Tr.Op) : Tr.St :=
  h.foldl (fun s op => (Tr.step s op).1) { failAt := failAt }

theorem foldTr_append (failAt : Option Nat) (h : List Tr.Op) (op : Tr.Op) :
    foldTr failAt (h ++ [op]) = (Tr.step (foldTr failAt h) op).1 := by
  simp [foldTr, List.foldl_append]

theorem inv_foldl (h0 h : List Tr.Op) (s : Tr.St) (hi : Inv h0 s) :
    Inv (h0 ++ h) (h.foldl (fun s op => (Tr.step s op).1) s) := by
  induction h generalizing h0 s with
  | nil => simpa using hi
  | cons op rest ih =>
    have := ih (h0 ++ [op]) (Tr.step s op).1 (inv_step h0 s op hi)
    simpa [List.append_assoc] using this

theorem inv_foldTr (failAt : Option Nat) (h : List Tr.Op) : Inv h (foldTr failAt h) := by
  have := inv_foldl [] h { failAt := failAt } (inv_init failAt)
  simpa [foldTr] using this

/-- logins that arrived on the `Logins` channel -/
def loginsIn : List In → List Tr.Login
  | [] => []
  | .login l :: rest => l :: loginsIn rest
  | _ :: rest => loginsIn rest

structure Lift (failAt : Option Nat) (ls : List Tr.Login) (st : AP.St) : Prop where
  tr : st.tr = foldTr failAt st.trHist
  audits : auditsOf st.trHist = st.handed
  logins : ∀ l ∈ loginsOf st.trHist, l ∈ ls

theorem lift_mono {f : Option Nat} {ls ls' : List Tr.Login} {st : AP.St} (h : Lift f ls st)
    (hs : ∀ l ∈ ls, l ∈ ls') : Lift f ls' st :=
  ⟨h.tr, h.audits, fun l hl => hs l (h.logins l hl)⟩

theorem lift_audit {f : Option Nat} {ls : List Tr.Login} {st st' : AP.St} {ev : Tr.AEvent} {n : Tr.Time}
    (h : Lift f ls st) (h1 : st'.tr = (Tr.audit st.tr ev n).1) (h2 : st'.trHist = st.trHist ++ [.audit ev n])
    (h3 : st'.handed = st.handed ++ [ev]) : Lift f ls st' := by
  refine ⟨?_, ?_, ?_⟩
  · rw [h1, h2, foldTr_append, ← h.tr]; rfl
  · rw [h2, h3, auditsOf_append, h.audits]; simp [auditsOf]
  · intro l hl
    rw [h2, loginsOf_append] at hl
    simp only [loginsOf, List.append_nil] at hl
    exact h.logins l hl

theorem lift_callback (f : Option Nat) (ls : List Tr.Login) (a : Tr.Time) (st : AP.St) (g : List Rec)
    (h : Lift f ls st) : Lift f ls (callback a st g) := by
  unfold callback
  split
  · exact ⟨h.tr, h.audits, h.logins⟩
  · split
    · exact ⟨h.tr, h.audits, h.logins⟩
    · dsimp only
      split
      · exact lift_audit h rfl rfl rfl
      · exact lift_audit h rfl rfl rfl

theorem lift_foldl (f : Option Nat) (ls : List Tr.Login) (a : Tr.Time) (gs : List (List Rec)) (st : AP.St)
    (h : Lift f ls st) : Lift f ls (gs.foldl (callback a) st) := by
  induction gs generalizing st with
  | nil => exact h
  | cons g gs ih => exact ih _ (lift_callback f ls a st g h)

theorem lift_stepIn (f : Option Nat) (c : Cfg) (ls : List Tr.Login) (st : AP.St) (i : In) (h : Lift f ls st) :
    Lift f (ls ++ loginsIn [i]) (stepIn c st i).1 := by
  have hm : ∀ l ∈ ls, l ∈ ls ++ loginsIn [i] := fun l hl => List.mem_append_left _ hl
  cases i with
  | line raw p =>
    simp only [stepIn]
    split
    · exact lift_mono h hm
    · cases p with
      | none => exact lift_mono ⟨h.tr, h.audits, h.logins⟩ hm
      | some r =>
        simp only [push]
        exact lift_mono (lift_foldl f ls _ _ _ ⟨h.tr, h.audits, h.logins⟩) hm
  | empty => exact lift_mono h hm
  | login l =>
    simp only [stepIn]
    refine ⟨?_, ?_, ?_⟩
    · show (Tr.remoteLogin st.tr l).1 = foldTr f (st.trHist ++ [.remoteLogin l])
      rw [foldTr_append, ← h.tr]; rfl
    · show auditsOf (st.trHist ++ [.remoteLogin l]) = st.handed
      rw [auditsOf_append, h.audits]; simp [auditsOf]
    · intro x hx
      have : x ∈ loginsOf (st.trHist ++ [Tr.Op.remoteLogin l]) := hx
      rw [loginsOf_append] at this
      simp only [loginsOf, List.mem_append, List.mem_singleton] at this
      rcases this with hx' | rfl
      · exact List.mem_append_left _ (h.logins x hx')
      · simp [loginsIn]
  | tick t =>
    simp only [stepIn]
    refine lift_mono ⟨?_, ?_, ?_⟩ hm
    · show (Tr.step (Tr.step st.tr (.cleanSessions t)).1 (.cleanLogins t)).1 =
        foldTr f (st.trHist ++ [.cleanSessions t, .cleanLogins t])
      have : st.trHist ++ [Tr.Op.cleanSessions t, Tr.Op.cleanLogins t] =
          (st.trHist ++ [Tr.Op.cleanSessions t]) ++ [Tr.Op.cleanLogins t] := by simp
      rw [this, foldTr_append, foldTr_append, ← h.tr]
    · show auditsOf (st.trHist ++ [.cleanSessions t, .cleanLogins t]) = st.handed
      rw [auditsOf_append, h.audits]; simp [auditsOf]
    · intro x hx
      have : x ∈ loginsOf (st.trHist ++ [Tr.Op.cleanSessions t, Tr.Op.cleanLogins t]) := hx
      rw [loginsOf_append] at this
      simp only [loginsOf, List.append_nil] at this
      exact h.logins x this
  | expire =>
    simp only [stepIn]
    exact lift_mono (lift_foldl f ls _ _ _ ⟨h.tr, h.audits, h.logins⟩) hm
  | poll =>
    simp only [stepIn]
    split
    · exact lift_mono h hm
    · exact lift_mono ⟨h.tr, h.audits, h.logins⟩ hm
    · exact lift_mono h hm
  | cancel => exact lift_mono h hm

theorem loginsIn_append (a b : List In) : loginsIn (a ++ b) = loginsIn a ++ loginsIn b := by
  induction a with
  | nil => rfl
  | cons i rest ih => cases i <;> simp [loginsIn, ih]

theorem lift_runCore (f : Option Nat) (c : Cfg) (ins : List In) (ls : List Tr.Login) (st : AP.St)
    (h : Lift f ls st) : Lift f (ls ++ loginsIn ins) (runCore c st ins).1 := by
  induction ins generalizing st ls with
  | nil => simpa [runCore, loginsIn] using h
  | cons i rest ih =>
    have h1 := lift_stepIn f c ls st i h
    simp only [runCore]
    generalize stepIn c st i = r at h1
    obtain ⟨st', e⟩ := r
    have hsub : ∀ l ∈ ls ++ loginsIn [i], l ∈ ls ++ loginsIn (i :: rest) := by
      intro l hl
      rw [show i :: rest = [i] ++ rest from rfl, loginsIn_append, ← List.append_assoc]
      exact List.mem_append_left _ hl
    cases e with
    | some e => exact lift_mono h1 hsub
    | none =>
      have := ih (ls ++ loginsIn [i]) st' h1
      rw [show i :: rest = [i] ++ rest from rfl, loginsIn_append, ← List.append_assoc]
      exact this

/-- **Refinement.** For every run — to the very end, flush included — the correlator inside the
processor is the tracker model run on `trHist`, and `trHist` carries exactly the events handed over
and only logins that arrived on the channel. -/
theorem processor_refines_tracker (failAt : Option Nat) (c : Cfg) (ins : List In) :
    Lift failAt (loginsIn ins) (AP.run c { tr := { failAt := failAt } } ins).1 := by
  have h0 : Lift failAt [] ({ tr := { failAt := failAt } } : AP.St) := ⟨rfl, rfl, by simp [loginsOf]⟩
  have h1 := lift_runCore failAt c ins [] _ h0
  simp only [List.nil_append] at h1
  unfold AP.run
  generalize runCore c { tr := { failAt := failAt } } ins = x at h1
  obtain ⟨s, r, k⟩ := x
  cases r with
  | none => exact h1
  | some e =>
    simp only [close]
    exact lift_foldl failAt _ _ _ _ ⟨h1.tr, h1.audits, h1.logins⟩

/-- **Everything the processor writes is justified.** An emitted UserAction carries an event that
was handed to the correlator (i.e. coalesced from a delivered group), under a valid login that
arrived on the `Logins` channel and whose PID is the PID of a LOGIN-type event of that session
that was handed over too — for every input list, write oracle and configuration. -/
theorem emitted_justified (failAt : Option Nat) (c : Cfg) (ins : List In) (em : Tr.Emitted)
    (hem : em ∈ (AP.run c { tr := { failAt := failAt } } ins).1.tr.out) :
    em.ev ∈ (AP.run c { tr := { failAt := failAt } } ins).1.handed ∧
    em.login ∈ loginsIn ins ∧ em.login.valid = true ∧
    ∃ r ∈ (AP.run c { tr := { failAt := failAt } } ins).1.handed, isOpener r em.ev.ses em.login.pid := by
  have hl := processor_refines_tracker failAt c ins
  have hi := inv_foldTr failAt (AP.run c { tr := { failAt := failAt } } ins).1.trHist
  rw [← hl.tr] at hi
  obtain ⟨h1, h2, h3, r, hr, ho⟩ := hi.outOk em hem
  rw [hl.audits] at h1 hr
  exact ⟨h1, hl.logins _ h2, h3, r, hr, ho⟩

end AM.C15
