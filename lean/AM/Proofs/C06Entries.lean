import AM.Gen.Entries
import AM.Model.Sshd
/-! The bodies of the sixteen simple entry functions of `processors/sshd` are TRANSLATED from the source on
every run (`AM.Gen.Entries`: which capture group, constant or configuration value goes into which field
of the one event the function writes). Each theorem below says that the hand-written model of that
function (`AM.Sshd.entryOf`, the one every other theorem of the sshd family is about) IS the
interpretation of the regenerated descriptor. A change of the wiring in the source — another group,
another constant, a dropped field, the outcome — regenerates a different descriptor and the equation no
longer type-checks. The four remaining functions (accepted public key / password, invalid certificate,
invalid user: `Atoi`, slicing, counters, the hand-off) stay hand-modelled; the list of what is not
translated is itself an obligation. -/
namespace AM.C06E
open AM AM.Rx AM.Gen AM.Sshd

/-- the value of a field -/
def EVal.eval (p : Pat) (cfg : Cfg) (pid : Str) (caps : List Str) : EVal → Str
  | .cap g => grp p caps g
  | .lit s => strOf s
  | .pid => pid
  | .node => cfg.node
  | .mid => cfg.mid

/-- the function a descriptor stands for: match the line with the expression, nothing without a match,
otherwise write the one event -/
def interp (p : Pat) (d : EntryDesc) : EntryFn :=
  simple p fun cfg pid caps =>
    let ev := EVal.eval p cfg pid caps
    { typ := d.typ, outcome := d.outcome, component := d.component,
      srcType := ev d.srcType, srcValue := ev d.srcValue,
      srcExtra := d.srcExtra.map fun kv => (kv.1, ev kv.2),
      subjects := d.subjects.map fun kv => (kv.1, ev kv.2),
      target := d.target.map fun kv => (kv.1, ev kv.2),
      data := [],
      metaExtra := d.metaExtra.map fun kv => (kv.1, ev kv.2) }

theorem entry_processNotInAllowUsersEntry :
    entryOf "processNotInAllowUsersEntry" = some (interp notInAllowUsersRE entry_processNotInAllowUsersEntry) := rfl
theorem entry_userNonExistentShell :
    entryOf "userNonExistentShell" = some (interp userNonExistentShellRE entry_userNonExistentShell) := rfl
theorem entry_userNonExecutableShell :
    entryOf "userNonExecutableShell" = some (interp userNonExecutableShellRE entry_userNonExecutableShell) := rfl
theorem entry_userInDenyUsers :
    entryOf "userInDenyUsers" = some (interp userInDenyUsersRE entry_userInDenyUsers) := rfl
theorem entry_userNotInAnyGroup :
    entryOf "userNotInAnyGroup" = some (interp userNotInAnyGroupRE entry_userNotInAnyGroup) := rfl
theorem entry_userGroupInDenyGroups :
    entryOf "userGroupInDenyGroups" = some (interp userGroupInDenyGroupsRE entry_userGroupInDenyGroups) := rfl
theorem entry_userGroupNotListedInAllowGroups :
    entryOf "userGroupNotListedInAllowGroups" =
      some (interp userGroupNotListedInAllowGroupsRE entry_userGroupNotListedInAllowGroups) := rfl
theorem entry_rootLoginRefused :
    entryOf "rootLoginRefused" = some (interp rootLoginRefusedRE entry_rootLoginRefused) := rfl
theorem entry_badOwnerOrModesForHostFile :
    entryOf "badOwnerOrModesForHostFile" =
      some (interp badOwnerOrModesForHostFileRE entry_badOwnerOrModesForHostFile) := rfl
theorem entry_nastyPTRRecord :
    entryOf "nastyPTRRecord" = some (interp nastyPTRRecordRE entry_nastyPTRRecord) := rfl
theorem entry_reverseMappingCheckFailed :
    entryOf "reverseMappingCheckFailed" = some (interp reverseMappingCheckFailedRE entry_reverseMappingCheckFailed) := rfl
theorem entry_doesNotMapBackToAddr :
    entryOf "doesNotMapBackToAddr" = some (interp doesNotMapBackToAddrRE entry_doesNotMapBackToAddr) := rfl
theorem entry_maxAuthAttemptsExceeded :
    entryOf "maxAuthAttemptsExceeded" = some (interp maxAuthAttemptsExceededRE entry_maxAuthAttemptsExceeded) := rfl
theorem entry_revokedPublicKeyByFile :
    entryOf "revokedPublicKeyByFile" = some (interp revokedPublicKeyByFileRE entry_revokedPublicKeyByFile) := rfl
theorem entry_revokedPublicKeyByFileErr :
    entryOf "revokedPublicKeyByFileErr" = some (interp revokedPublicKeyByFileErrRE entry_revokedPublicKeyByFileErr) := rfl
theorem entry_failedPasswordAuth :
    entryOf "failedPasswordAuth" = some (interp failedPasswordAuthRE entry_failedPasswordAuth) := rfl

/-! ### the two functions of the extended shape -/

/-- the event a descriptor builds -/
def mkEv (p : Pat) (d : EntryDesc) (cfg : Cfg) (pid : Str) (caps : List Str) : Ev :=
  let ev := EVal.eval p cfg pid caps
  { typ := d.typ, outcome := d.outcome, component := d.component,
    srcType := ev d.srcType, srcValue := ev d.srcValue,
    srcExtra := d.srcExtra.map fun kv => (kv.1, ev kv.2),
    subjects := d.subjects.map fun kv => (kv.1, ev kv.2),
    target := d.target.map fun kv => (kv.1, ev kv.2),
    data := [],
    metaExtra := d.metaExtra.map fun kv => (kv.1, ev kv.2) }

/-- the capture groups a descriptor reads -/
def capsOf (d : EntryDesc) : List String :=
  ([d.srcType, d.srcValue] ++ (d.srcExtra ++ d.subjects ++ d.target ++ d.metaExtra).map (·.2)).filterMap fun
    | .cap g => some g
    | _ => none

/-- the extended shape: the PID parsed first (nothing happens if it is not a number), captures that are taken
without a guard (an absent group is an index-out-of-range panic, before anything is counted or written), a counter
between the event and its write, and the hand-off of the login after a successful write -/
def interpX (p : Pat) (fn : String) (d : EntryDescX) : EntryFn := fun cfg pid line ok h =>
  let body : Int → Out := fun n =>
    match find p line with
    | none => ⟨[], .nil⟩
    | some (_, _, caps) =>
      if d.unguarded && !((capsOf d.base).all fun g => (p.group g caps).isSome) then ⟨[], .panic⟩ else
      let pre := if d.incFirst then incAt fn 0 else []
      match d.send with
      | none => let o := writeOnly (mkEv p d.base cfg pid caps) ok; ⟨pre ++ o.effs, o.res⟩
      | some c => writeAndSend pre (mkEv p d.base cfg pid caps) ok h n (EVal.eval p cfg pid caps c)
  if d.atoiFirst then
    match atoi pid with
    | none => ⟨[], .nil⟩
    | some n => body n
  else body 0

theorem entry_processAcceptedPasswordEntry :
    entryOf "processAcceptedPasswordEntry" =
      some (interpX passwordLoginRE "processAcceptedPasswordEntry" entryX_processAcceptedPasswordEntry) := by
  rfl

theorem entry_processInvalidUserEntry :
    entryOf "processInvalidUserEntry" =
      some (interpX invalidUserRE "processInvalidUserEntry" entryX_processInvalidUserEntry) := by
  show some invalidUser = _
  congr 1
  funext cfg pid line ok h
  simp only [invalidUser, interpX, entryX_processInvalidUserEntry, Bool.false_eq_true, if_false, Bool.true_and, if_true]
  cases find invalidUserRE line with
  | none => rfl
  | some r =>
    obtain ⟨a, b, caps⟩ := r
    simp only
    cases hu : invalidUserRE.group "Username" caps <;> cases hs : invalidUserRE.group "Source" caps <;>
      cases hp : invalidUserRE.group "Port" caps <;>
      simp [capsOf, Gen.entry_processInvalidUserEntry, hu, hs, hp, mkEv, EVal.eval, grp, loginEv, target, subj3, unknown,
        writeOnly]

/-- every descriptor names the expression its function was paired with above -/
theorem entries_expressions :
    Gen.entries.map (fun x => (x.1, x.2.re)) =
      [("badOwnerOrModesForHostFile", "badOwnerOrModesForHostFileRE"), ("doesNotMapBackToAddr", "doesNotMapBackToAddrRE"),
       ("failedPasswordAuth", "failedPasswordAuthRE"), ("maxAuthAttemptsExceeded", "maxAuthAttemptsExceededRE"),
       ("nastyPTRRecord", "nastyPTRRecordRE"), ("processNotInAllowUsersEntry", "notInAllowUsersRE"),
       ("reverseMappingCheckFailed", "reverseMappingCheckFailedRE"), ("revokedPublicKeyByFile", "revokedPublicKeyByFileRE"),
       ("revokedPublicKeyByFileErr", "revokedPublicKeyByFileErrRE"), ("rootLoginRefused", "rootLoginRefusedRE"),
       ("userGroupInDenyGroups", "userGroupInDenyGroupsRE"), ("userGroupNotListedInAllowGroups", "userGroupNotListedInAllowGroupsRE"),
       ("userInDenyUsers", "userInDenyUsersRE"), ("userNonExecutableShell", "userNonExecutableShellRE"),
       ("userNonExistentShell", "userNonExistentShellRE"), ("userNotInAnyGroup", "userNotInAnyGroupRE")] := by decide

/-- what is not translated: the two functions with slicing / certificate parsing / JSON extra data; and what is translated in the extended shape -/
theorem untranslated :
    Gen.untranslatedEntries.map (·.1) = ["processAcceptPublicKeyEntry", "processCertificateInvalidEntry"] ∧
    Gen.entriesX.map (fun x => (x.1, x.2.base.re)) =
      [("processAcceptedPasswordEntry", "passwordLoginRE"), ("processInvalidUserEntry", "invalidUserRE")] := by decide

end AM.C06E
