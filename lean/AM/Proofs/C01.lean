import AM.Proofs.TrackerInv
/-! C01: an emitted event carries the identity of exactly the SSH login whose PID equals the PID
in the LOGIN record that opened the event's session — for every history in which each sshd PID
logs in once and a session has one opener PID, and every write oracle. -/
namespace AM.C01
open AM AM.Tr

/-- the strong form: for *every* LOGIN record of the event's session (not just some) -/
theorem identity_all (failAt : Option Nat) (h : List Op) (em : Emitted)
    (hu : ∀ l₁ ∈ loginsOf h, ∀ l₂ ∈ loginsOf h, l₁.pid = l₂.pid → l₁ = l₂)
    (ho : ∀ r₁ ∈ auditsOf h, ∀ r₂ ∈ auditsOf h, r₁.typ = .login → r₂.typ = .login →
      r₁.ses = r₂.ses → atoi r₁.pidTok = atoi r₂.pidTok) :
    em ∈ (run { failAt := failAt } h).1.out →
      (∃ r ∈ auditsOf h, r.typ = .login ∧ r.ses = em.ev.ses) ∧
      ∀ r ∈ auditsOf h, r.typ = .login → r.ses = em.ev.ses →
        ∀ l ∈ loginsOf h, atoi r.pidTok = some l.pid → l = em.login := by
  intro hem
  obtain ⟨_, h2, _, r0, hr0, ht0, hs0, hp0, _, _⟩ := (inv_run_init failAt h).outOk em hem
  refine ⟨⟨r0, hr0, ht0, hs0⟩, ?_⟩
  intro r hr ht hs l hl hp
  have := ho r hr r0 hr0 ht ht0 (hs.trans hs0.symm)
  rw [hp, hp0] at this
  exact hu l hl em.login h2 (Option.some.inj this)

theorem identity (failAt : Option Nat) (h : List Op) (em : Emitted)
    (hu : ∀ l₁ ∈ loginsOf h, ∀ l₂ ∈ loginsOf h, l₁.pid = l₂.pid → l₁ = l₂)
    (ho : ∀ r₁ ∈ auditsOf h, ∀ r₂ ∈ auditsOf h, r₁.typ = .login → r₂.typ = .login →
      r₁.ses = r₂.ses → atoi r₁.pidTok = atoi r₂.pidTok) :
    em ∈ (run { failAt := failAt } h).1.out →
      ∃ r ∈ auditsOf h, r.typ = .login ∧ r.ses = em.ev.ses ∧
        ∀ l ∈ loginsOf h, atoi r.pidTok = some l.pid → l = em.login := by
  intro hem
  obtain ⟨⟨r, hr, ht, hs⟩, hall⟩ := identity_all failAt h em hu ho hem
  exact ⟨r, hr, ht, hs, hall r hr ht hs⟩

/-- … and that login exists: it is the event's own, delivered by the history -/
theorem identity_exists (failAt : Option Nat) (h : List Op) (em : Emitted) :
    em ∈ (run { failAt := failAt } h).1.out →
      ∃ r ∈ auditsOf h, r.typ = .login ∧ r.ses = em.ev.ses ∧
        em.login ∈ loginsOf h ∧ atoi r.pidTok = some em.login.pid := by
  intro hem
  obtain ⟨_, h2, _, r0, hr0, ht0, hs0, hp0, _, _⟩ := (inv_run_init failAt h).outOk em hem
  exact ⟨r0, hr0, ht0, hs0, h2, hp0⟩

/-! ### the hypotheses are satisfiable by a non-trivial history -/

def mkLogin (pid : Int) (who : String) : Login :=
  { pid := pid, cred := strOf who, hasSource := true, subjects := [("userID", strOf who)],
    srcType := strOf "IP", srcValue := strOf "10.0.0.1", srcExtra := [], target := [], loggedAt := 0 }

def mkEv (ts : Int) (ses : String) (typ : EvType) (pid : String) : AEvent :=
  { ts := ts, ses := strOf ses, typ := typ, pidTok := strOf pid, result := strOf "success",
    action := [], how := [], object := [], args := [] }

/-- two sessions, two logins, interleaved: session 1's LOGIN record comes before its SSH login
(the records are cached and flushed), session 2's after -/
def demo : List Op :=
  [ .audit (mkEv 1 "1" .login "100") 1,
    .remoteLogin (mkLogin 200 "bob"),
    .audit (mkEv 2 "1" .other "100") 2,
    .audit (mkEv 3 "2" .login "200") 3,
    .remoteLogin (mkLogin 100 "alice"),
    .audit (mkEv 4 "2" .other "200") 4,
    .audit (mkEv 5 "1" .credDisp "100") 5,
    .audit (mkEv 6 "2" .credDisp "200") 6 ]

/-- the demo history satisfies both hypotheses of `identity`, runs without error, and emits six
events: three per session, each under the right login (the first column is the event's tag `ts`,
the second the PID of the login it carries) -/
example :
    (∀ l₁ ∈ loginsOf demo, ∀ l₂ ∈ loginsOf demo, l₁.pid = l₂.pid → l₁ = l₂) ∧
    (∀ r₁ ∈ auditsOf demo, ∀ r₂ ∈ auditsOf demo, r₁.typ = .login → r₂.typ = .login →
      r₁.ses = r₂.ses → atoi r₁.pidTok = atoi r₂.pidTok) ∧
    (run {} demo).2 = none ∧
    3 ≤ (run {} demo).1.out.length ∧
    (run {} demo).1.out.map (fun em => (em.ev.ts, em.login.pid)) =
      [(3, 200), (1, 100), (2, 100), (4, 200), (5, 100), (6, 200)] := by
  refine ⟨by decide, by decide, by decide, by decide, by decide⟩

/-- with the third write failing the run stops there; what was emitted is still attributed -/
example :
    (run { failAt := some 2 } demo).2 = some .write ∧
    (run { failAt := some 2 } demo).1.out.map (fun em => (em.ev.ts, em.login.pid)) =
      [(3, 200), (1, 100)] := by
  refine ⟨by decide, by decide⟩

end AM.C01
