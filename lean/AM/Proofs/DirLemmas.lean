import AM.Model.DirReader
import AM.Proofs.C12
/-! Helper lemmas for C20 (directory reader): facts about `records`/`split`, the order `strLe` /
`before`, and decimal parsing. -/
namespace AM.DirLemmas
open AM AM.Pipe AM.Dir

/-! ### `records` -/

theorem records_nodelim (d : Char) (a b : Str) (hb : d ∉ b) : records d a b = ([], a ++ b) := by
  induction b generalizing a with
  | nil => simp [records]
  | cons x r ih =>
    simp only [records]
    have hx : x ≠ d := fun e => hb (e ▸ List.mem_cons_self)
    simp only [hx, if_false]
    rw [ih _ (fun hm => hb (List.mem_cons_of_mem _ hm))]
    simp

theorem records_acc (d : Char) (acc xs : Str) (h : d ∉ acc) :
    records d [] (acc ++ xs) = records d acc xs := by
  rw [AM.C12.records_append, records_nodelim d [] acc h]; simp

theorem records_pending_nodelim (d : Char) (acc xs : Str) (h : d ∉ acc) :
    d ∉ (records d acc xs).2 :=
  (AM.C12.records_partition d acc xs h).2.2

theorem records_flatten (d : Char) (acc xs : Str) :
    (records d acc xs).1.flatten ++ (records d acc xs).2 = acc ++ xs := by
  induction xs generalizing acc with
  | nil => simp [records]
  | cons x r ih =>
    simp only [records]
    split
    · have := ih []
      simp at this ⊢
      rw [this]
    · have := ih (acc ++ [x])
      simpa using this

/-- total length is conserved: records + pending = acc + input -/
theorem records_length (d : Char) (acc xs : Str) :
    (records d acc xs).1.flatten.length + (records d acc xs).2.length = acc.length + xs.length := by
  have := congrArg List.length (records_flatten d acc xs)
  simpa only [List.length_append] using this

/-! ### `split` -/

theorem split_pending_nonl (p bs : Str) (hp : NL ∉ p) : NL ∉ (split p bs).2 :=
  records_pending_nodelim NL p bs hp

theorem split_lines_nonl (p bs : Str) (hp : NL ∉ p) : ∀ l ∈ (split p bs).1, NL ∉ l := by
  intro l hl
  simp only [split, List.mem_map] at hl
  obtain ⟨r, hr, rfl⟩ := hl
  obtain ⟨body, rfl, hb⟩ := (AM.C12.records_partition NL p bs hp).2.1 r hr
  simpa using hb

/-! ### the order on names -/

theorem strLe_refl (a : Str) : strLe a a = true := by
  induction a with
  | nil => rfl
  | cons x r ih => simp [strLe, ih]

theorem strLe_total (a b : Str) : (strLe a b || strLe b a) = true := by
  induction a generalizing b with
  | nil => simp [strLe]
  | cons x r ih =>
    cases b with
    | nil => simp [strLe]
    | cons y s =>
      have := ih s
      simp only [strLe, Bool.or_eq_true, Bool.and_eq_true, decide_eq_true_eq, beq_iff_eq] at this ⊢
      by_cases hxy : x = y
      · subst hxy
        rcases this with h | h
        · exact Or.inl (Or.inr ⟨rfl, h⟩)
        · exact Or.inr (Or.inr ⟨rfl, h⟩)
      · have : x.toNat ≠ y.toNat := fun e => hxy (Char.toNat_inj.mp e)
        rcases Nat.lt_or_gt_of_ne this with h | h
        · exact Or.inl (Or.inl h)
        · exact Or.inr (Or.inl h)

theorem strLe_trans (a b c : Str) (h1 : strLe a b = true) (h2 : strLe b c = true) :
    strLe a c = true := by
  induction a generalizing b c with
  | nil => simp [strLe]
  | cons x r ih =>
    cases b with
    | nil => simp [strLe] at h1
    | cons y s =>
      cases c with
      | nil => simp [strLe] at h2
      | cons z t =>
        simp only [strLe, Bool.or_eq_true, Bool.and_eq_true, decide_eq_true_eq, beq_iff_eq] at h1 h2 ⊢
        rcases h1 with h1 | ⟨rfl, h1⟩
        · rcases h2 with h2 | ⟨rfl, _⟩
          · exact Or.inl (Nat.lt_trans h1 h2)
          · exact Or.inl h1
        · rcases h2 with h2 | ⟨rfl, h2⟩
          · exact Or.inl h2
          · exact Or.inr ⟨rfl, ih s t h1 h2⟩

theorem strLe_antisymm (a b : Str) (h1 : strLe a b = true) (h2 : strLe b a = true) : a = b := by
  induction a generalizing b with
  | nil => cases b with
    | nil => rfl
    | cons y s => simp [strLe] at h2
  | cons x r ih =>
    cases b with
    | nil => simp [strLe] at h1
    | cons y s =>
      simp only [strLe, Bool.or_eq_true, Bool.and_eq_true, decide_eq_true_eq, beq_iff_eq] at h1 h2
      rcases h1 with h1 | ⟨rfl, h1⟩
      · rcases h2 with h2 | ⟨rfl, _⟩
        · omega
        · omega
      · rcases h2 with h2 | ⟨_, h2⟩
        · omega
        · rw [ih s h1 h2]

theorem before_iff (a b : Str) : before a b = true ↔
    rotationNumber a > rotationNumber b ∨ (rotationNumber a = rotationNumber b ∧ strLe b a = true) := by
  simp [before]

theorem before_total (a b : Str) : (before a b || before b a) = true := by
  rw [Bool.or_eq_true, before_iff, before_iff]
  have ht := strLe_total a b
  rw [Bool.or_eq_true] at ht
  rcases Nat.lt_trichotomy (rotationNumber a) (rotationNumber b) with h | h | h
  · exact Or.inr (Or.inl h)
  · rcases ht with ht | ht
    · exact Or.inr (Or.inr ⟨h.symm, ht⟩)
    · exact Or.inl (Or.inr ⟨h, ht⟩)
  · exact Or.inl (Or.inl h)

theorem before_trans (a b c : Str) (h1 : before a b = true) (h2 : before b c = true) :
    before a c = true := by
  rw [before_iff] at h1 h2 ⊢
  rcases h1 with h1 | ⟨e1, s1⟩
  · rcases h2 with h2 | ⟨e2, _⟩
    · exact Or.inl (by omega)
    · exact Or.inl (by omega)
  · rcases h2 with h2 | ⟨e2, s2⟩
    · exact Or.inl (by omega)
    · exact Or.inr ⟨by omega, strLe_trans c b a s2 s1⟩

theorem before_antisymm (a b : Str) (h1 : before a b = true) (h2 : before b a = true) : a = b := by
  rw [before_iff] at h1 h2
  rcases h1 with h1 | ⟨e1, s1⟩
  · rcases h2 with h2 | ⟨e2, _⟩ <;> omega
  · rcases h2 with h2 | ⟨_, s2⟩
    · omega
    · exact strLe_antisymm a b s2 s1

/-! ### decimal parsing -/

theorem foldl_digits_eq (s : Str) (init : Nat) :
    s.foldl (fun acc c => acc * 10 + (c.toNat - 48)) init = Nat.ofDigitChars 10 s init := by
  induction s generalizing init with
  | nil => simp [Nat.ofDigitChars]
  | cons c r ih =>
    rw [List.foldl_cons, ih, Nat.ofDigitChars_cons]
    congr 1
    simp [Nat.mul_comm]

theorem parseUint_toDigits (n : Nat) (hn : n ≤ maxU64) : parseUint (Nat.toDigits 10 n) = some n := by
  have hne : (Nat.toDigits 10 n).isEmpty = false := by
    have := @Nat.toDigits_ne_nil n 10
    cases h : Nat.toDigits 10 n with
    | nil => exact absurd h this
    | cons _ _ => rfl
  have hall : (Nat.toDigits 10 n).all Char.isDigit = true := by
    rw [List.all_eq_true]
    intro c hc
    exact Nat.isDigit_of_mem_toDigits (by decide) (by decide) hc
  simp only [parseUint, hne, hall, Bool.not_true, Bool.or_self, Bool.false_eq_true, if_false]
  rw [foldl_digits_eq, Nat.ofDigitChars_ten_toDigits]
  simp [hn]

theorem rotationNumber_numbered (n : Nat) (hn : n ≤ maxU64) :
    rotationNumber (logPrefix ++ '.' :: (Nat.toDigits 10 n)) = n := by
  have hpre : logPrefix.isPrefixOf (logPrefix ++ '.' :: Nat.toDigits 10 n) = true := by
    rw [List.isPrefixOf_iff_prefix]; exact List.prefix_append _ _
  have hdrop : (logPrefix ++ '.' :: Nat.toDigits 10 n).drop logPrefix.length = '.' :: Nat.toDigits 10 n :=
    List.drop_left
  simp only [rotationNumber, hpre, if_true, hdrop, List.isEmpty_cons, Bool.false_eq_true, if_false,
    parseUint_toDigits n hn, Option.getD_some]

end AM.DirLemmas
