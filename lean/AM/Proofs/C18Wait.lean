import AM.Model.Health
/-! C18, last clause: waiting for readiness completes only after every registered component was ready, and
yields the context's error if the context is cancelled first — for every interleaving of registrations,
ready-marks, ticks and the cancellation. -/
namespace AM.C18W
open AM AM.Health

/-- the result, once set, never changes -/
theorem result_sticky (st : WSt) (i : WIn) (r : WRes) (h : st.res = some r) : (wstep st i).res = some r := by
  cases i <;> simp [wstep, h]

theorem run_sticky (st : WSt) (ins : List WIn) (r : WRes) (h : st.res = some r) : (wrun st ins).res = some r := by
  induction ins generalizing st with
  | nil => exact h
  | cons i is ih => exact ih (wstep st i) (result_sticky st i r h)

/-- what has been seen so far: the channel is closed only if some tick found every component ready;
the error is handed over only after the cancellation -/
structure WInv (seen : List WIn) (st : WSt) : Prop where
  closed : st.res = some .closed →
    ∃ pre post, seen = pre ++ .tick :: post ∧ isReady (wrun {} pre).m = true
  err : st.res = some .ctxErr → st.cancelled = true
  canc : st.cancelled = true → WIn.cancel ∈ seen
  same : st.m = (wrun {} seen).m

theorem wrun_append (st : WSt) (a b : List WIn) : wrun st (a ++ b) = wrun (wrun st a) b := by
  simp [wrun, List.foldl_append]

theorem wrun_m_step (st : WSt) (i : WIn) : (wstep st i).m = match i with | .op o => apply st.m o | _ => st.m := by
  cases i <;> simp [wstep] <;> split <;> rfl

theorem inv_step (seen : List WIn) (st : WSt) (i : WIn) (h : WInv seen st) : WInv (seen ++ [i]) (wstep st i) := by
  have hm : (wrun {} (seen ++ [i])).m = (wstep (wrun {} seen) i).m := by
    rw [wrun_append]; rfl
  have hsame : (wstep st i).m = (wrun {} (seen ++ [i])).m := by
    rw [hm, wrun_m_step, wrun_m_step, h.same]
  refine ⟨?_, ?_, ?_, hsame⟩
  · intro hc
    cases i with
    | tick =>
      by_cases hold : st.res = some .closed
      · obtain ⟨pre, post, hs, hr⟩ := h.closed hold
        exact ⟨pre, post ++ [.tick], by rw [hs]; simp, hr⟩
      · -- closed by this very tick
        simp only [wstep] at hc
        split at hc
        · rename_i hcond
          simp only [Bool.and_eq_true] at hcond
          exact ⟨seen, [], rfl, by rw [← h.same]; exact hcond.2⟩
        · exact absurd hc hold
    | op o =>
      have : st.res = some .closed := by simpa [wstep] using hc
      obtain ⟨pre, post, hs, hr⟩ := h.closed this
      exact ⟨pre, post ++ [.op o], by rw [hs]; simp, hr⟩
    | cancel =>
      have : st.res = some .closed := by simpa [wstep] using hc
      obtain ⟨pre, post, hs, hr⟩ := h.closed this
      exact ⟨pre, post ++ [.cancel], by rw [hs]; simp, hr⟩
    | ctxArm =>
      have : st.res = some .closed := by
        simp only [wstep] at hc
        split at hc
        · simp at hc
        · exact hc
      obtain ⟨pre, post, hs, hr⟩ := h.closed this
      exact ⟨pre, post ++ [.ctxArm], by rw [hs]; simp, hr⟩
  · intro he
    cases i with
    | tick =>
      simp only [wstep] at he ⊢
      split at he
      · simp at he
      · rename_i hn; simp only [hn]; exact h.err he
    | op o => exact h.err (by simpa [wstep] using he)
    | cancel => simp [wstep]
    | ctxArm =>
      simp only [wstep] at he ⊢
      split
      · rename_i hcond
        simp only [Bool.and_eq_true] at hcond
        exact hcond.2
      · rename_i hn
        simp only [hn] at he
        exact h.err he
  · intro hcn
    cases i with
    | cancel => simp
    | tick =>
      have : st.cancelled = true := by
        simp only [wstep] at hcn
        split at hcn <;> exact hcn
      exact List.mem_append_left _ (h.canc this)
    | op o => exact List.mem_append_left _ (h.canc (by simpa [wstep] using hcn))
    | ctxArm =>
      have : st.cancelled = true := by
        simp only [wstep] at hcn
        split at hcn <;> exact hcn
      exact List.mem_append_left _ (h.canc this)

theorem inv_run (ins : List WIn) : WInv ins (wrun {} ins) := by
  have key : ∀ (seen rest : List WIn) (st : WSt), WInv seen st → WInv (seen ++ rest) (wrun st rest) := by
    intro seen rest
    induction rest generalizing seen with
    | nil => intro st h; simpa [wrun] using h
    | cons i is ih =>
      intro st h
      have := ih (seen ++ [i]) (wstep st i) (inv_step seen st i h)
      simpa [wrun, List.append_assoc] using this
  have h0 : WInv [] ({} : WSt) := ⟨by simp, by simp, by simp, rfl⟩
  simpa using key [] ins {} h0

/-- **Waiting completes only after the condition held**: if the channel is closed, some tick found every
registered component ready (in the state reached by the registrations and ready-marks before it) -/
theorem wait_closed_only_when_ready (ins : List WIn) (h : (wrun {} ins).res = some .closed) :
    ∃ pre post, ins = pre ++ .tick :: post ∧ isReady (wrun {} pre).m = true :=
  (inv_run ins).closed h

/-- the context's error is what the caller gets only if the context was cancelled -/
theorem wait_error_only_after_cancel (ins : List WIn) (h : (wrun {} ins).res = some .ctxErr) :
    WIn.cancel ∈ ins :=
  (inv_run ins).canc ((inv_run ins).err h)

/-- **… and yields the context's error if cancelled first**: if no tick before the waiter's `ctx.Done()` arm
found every component ready, the caller gets the error — whatever happens afterwards (later ticks, late
ready-marks, however late the caller looks) -/
theorem cancelled_first_yields_error (pre post : List WIn) (hc : WIn.cancel ∈ pre)
    (hnone : (wrun {} pre).res = none) :
    (wrun {} (pre ++ .ctxArm :: post)).res = some .ctxErr := by
  rw [wrun_append]
  have hcan : (wrun {} pre).cancelled = true := by
    -- the flag is set by `cancel` and never cleared
    have key : ∀ (l : List WIn) (st : WSt), (st.cancelled = true ∨ WIn.cancel ∈ l) → (wrun st l).cancelled = true := by
      intro l
      induction l with
      | nil => intro st h; rcases h with h | h; exact h; cases h
      | cons i is ih =>
        intro st h
        apply ih
        rcases h with h | h
        · left; cases i <;> simp [wstep, h] <;> split <;> simp [h]
        · rcases List.mem_cons.mp h with rfl | h
          · left; simp [wstep]
          · right; exact h
    exact key pre {} (Or.inr hc)
  have : (wstep (wrun {} pre) .ctxArm).res = some .ctxErr := by simp [wstep, hnone, hcan]
  exact run_sticky _ post _ this

/-- the bounded send is NOT equivalent: one tick without a receiver after the cancellation and the caller is
told "ready" although a component never became ready -/
theorem bounded_send_reports_ready :
    let ins := [WIn.op (.add "auditd".toList), .cancel, .ctxArm, .tick]
    (ins.foldl wstepBounded {}).res = some .closed ∧ (wrun {} ins).res = some .ctxErr ∧
      isReady (wrun {} ins).m = false := by decide

end AM.C18W
