import AM.Spec.Tracker
import AM.Proofs.C02
import AM.Proofs.TrackerInv
/-! C02, the judge and the theorem meet, for EVERY history (no hypothesis on LOGIN records, PIDs or cleanups): with a
writer that works, the events emitted for a session are some of the session's records, in the order in which they
were delivered, none more often than delivered — `emitted ++ held` is always a sublist of the session's records.
(WHICH records are emitted — all of them from the LOGIN record on, once both halves are there — is
`C02.conservation_partial`.) The executable clause `Spec.Tracker.specOrderOnce`, the one the check evaluates on the
implementation's observations, holds of the model's own observation. -/
namespace AM.C02S
open AM AM.Tr AM.C02 AM.Spec.Tracker

/-- the records of session `s` delivered by `h`, in processing order -/
def recsOf (h : List Op) (s : Str) : List AEvent := (C02.auditsOf h).filter fun e => e.ses = s

structure InvS (h : List Op) (st : St) : Prop where
  nofail : st.failAt = none
  uniq : aUnique st.sessions
  cachedSes : ∀ s u, (s, u) ∈ st.sessions → ∀ e ∈ u.cached, e.ses = s
  subOut : ∀ s, (outOf st s).Sublist (recsOf h s)
  subAll : ∀ s u, (s, u) ∈ st.sessions → (outOf st s ++ u.cached).Sublist (recsOf h s)

theorem invS_init : InvS [] {} :=
  ⟨rfl, (by simp [aUnique]), (fun s u hm => by cases hm), (fun s => by simp [outOf]), (fun s u hm => by cases hm)⟩

theorem recsOf_audit (h : List Op) (e : AEvent) (now : Time) (s : Str) :
    recsOf (h ++ [.audit e now]) s = recsOf h s ++ (if e.ses = s then [e] else []) := by
  simp only [recsOf, auditsOf_snoc_audit, List.filter_append, List.filter_cons, List.filter_nil]
  by_cases hs : e.ses = s <;> simp [hs]

theorem recsOf_other (h : List Op) (op : Op) (s : Str) (hno : ∀ e now, op ≠ .audit e now) :
    recsOf (h ++ [op]) s = recsOf h s := by
  simp only [recsOf, auditsOf_snoc_other h op hno]

theorem recsOf_mono (h : List Op) (op : Op) (s : Str) : (recsOf h s).Sublist (recsOf (h ++ [op]) s) := by
  cases op with
  | audit e now => rw [recsOf_audit]; exact List.sublist_append_left _ _
  | remoteLogin l => rw [recsOf_other _ _ _ (by intro e now; simp)]; exact List.Sublist.refl _
  | cleanSessions t => rw [recsOf_other _ _ _ (by intro e now; simp)]; exact List.Sublist.refl _
  | cleanLogins t => rw [recsOf_other _ _ _ (by intro e now; simp)]; exact List.Sublist.refl _

/-- a step that emits nothing and only removes sessions (or leaves them alone) -/
theorem invS_same {h : List Op} {op : Op} {st st' : St} (hi : InvS h st)
    (hf : st'.failAt = none) (hout : st'.out = st.out) (hsub : st'.sessions.Sublist st.sessions) :
    InvS (h ++ [op]) st' := by
  refine ⟨hf, List.Nodup.sublist (hsub.map _) hi.uniq, fun s u hm => hi.cachedSes s u (hsub.subset hm), ?_, ?_⟩
  · intro s; rw [outOf_same st st' s hout]; exact (hi.subOut s).trans (recsOf_mono h op s)
  · intro s u hm; rw [outOf_same st st' s hout]; exact (hi.subAll s u (hsub.subset hm)).trans (recsOf_mono h op s)

/-- a step that emits `es` (all of session `s0`) and stores or erases the entry of `s0` -/
theorem invS_upd {h : List Op} {op : Op} {st st' : St} (hi : InvS h st) (s0 : Str) (es : List AEvent)
    (l : Login) (hf : st'.failAt = none)
    (hout : st'.out = st.out ++ es.map (fun e => ⟨e, l⟩))
    (hes : ∀ e ∈ es, e.ses = s0)
    (huniq : aUnique st'.sessions)
    (hs0 : (outOf st s0 ++ es).Sublist (recsOf (h ++ [op]) s0))
    (hmem : ∀ s u, (s, u) ∈ st'.sessions → ((s, u) ∈ st.sessions ∧ s ≠ s0) ∨
      (s = s0 ∧ (∀ e ∈ u.cached, e.ses = s0) ∧ (outOf st s0 ++ es ++ u.cached).Sublist (recsOf (h ++ [op]) s0))) :
    InvS (h ++ [op]) st' := by
  refine ⟨hf, huniq, ?_, ?_, ?_⟩
  · intro s u hm
    rcases hmem s u hm with ⟨hm0, _⟩ | ⟨rfl, h1, _⟩
    · exact hi.cachedSes s u hm0
    · exact h1
  · intro s
    by_cases hs : s = s0
    · subst hs; rw [outOf_emit_same st st' l es s hout hes]; exact hs0
    · rw [outOf_emit_other st st' l es s s0 hout hes hs]; exact (hi.subOut s).trans (recsOf_mono h op s)
  · intro s u hm
    rcases hmem s u hm with ⟨hm0, hne⟩ | ⟨rfl, _, h2⟩
    · rw [outOf_emit_other st st' l es s s0 hout hes hne]; exact (hi.subAll s u hm0).trans (recsOf_mono h op s)
    · rw [outOf_emit_same st st' l es s hout hes]; exact h2

private def noLogin : Login := ⟨0, [], false, [], [], [], [], [], 0⟩

theorem invS_step (h : List Op) (st : St) (op : Op) (hi : InvS h st) : InvS (h ++ [op]) (step st op).1 := by
  have hf := hi.nofail
  cases op with
  | cleanSessions t => exact invS_same hi hf rfl List.filter_sublist
  | cleanLogins t => exact invS_same hi hf rfl (List.Sublist.refl _)
  | remoteLogin l =>
    have hrec : ∀ s, recsOf (h ++ [Op.remoteLogin l]) s = recsOf h s :=
      fun s => recsOf_other h _ s (by intro e now; simp)
    simp only [step, remoteLogin]
    split
    · exact invS_same hi hf rfl (List.Sublist.refl _)
    · split
      · rename_i s0 u0 more hfil
        have hmem0 : (s0, u0) ∈ st.sessions := by
          have : (s0, u0) ∈ st.sessions.filter (fun p => p.2.srcPID == l.pid) := by
            rw [hfil]; exact List.mem_cons_self
          exact (List.mem_filter.mp this).1
        have hall := hi.subAll s0 u0 hmem0
        simp only [writeAll_ok { st with ambiguous := st.ambiguous || !more.isEmpty } l u0.cached hf]
        refine invS_upd hi s0 u0.cached l hf rfl (hi.cachedSes s0 u0 hmem0) ?_ (by rw [hrec]; exact hall) ?_
        · simp only
          split
          · exact aUnique_erase hi.uniq
          · exact aUnique_store hi.uniq
        · intro s u hm
          simp only at hm
          split at hm
          · left; exact mem_aErase hm
          · rcases mem_aStore hm with heq | hm'
            · right
              cases heq
              exact ⟨rfl, by simp, by rw [hrec]; simpa using hall⟩
            · left; exact hm'
      · exact invS_same hi hf rfl (List.Sublist.refl _)
  | audit e now =>
    have hr : recsOf (h ++ [Op.audit e now]) e.ses = recsOf h e.ses ++ [e] := by rw [recsOf_audit]; simp
    simp only [step, audit]
    split
    · exact invS_same hi hf rfl (List.Sublist.refl _)
    · split
      · rename_i u0 hlook
        have hmem0 := aLookup_mem hlook
        have hall := hi.subAll _ _ hmem0
        have hcs := hi.cachedSes _ _ hmem0
        split
        · -- tracked, login not yet known: cache
          refine invS_upd hi e.ses [] noLogin hf (by simp) (by simp) (aUnique_store hi.uniq) ?_ ?_
          · simpa using (hi.subOut e.ses).trans (recsOf_mono h _ _)
          · intro s u hm
            rcases mem_aStore hm with heq | hm'
            · right
              cases heq
              refine ⟨rfl, ?_, ?_⟩
              · intro e' he'
                rcases List.mem_append.mp he' with he' | he'
                · exact hcs e' he'
                · rw [List.mem_singleton.mp he']
              · rw [hr]
                simpa [List.append_assoc] using hall.append (List.Sublist.refl [e])
            · left; exact hm'
        · -- tracked, login known: flush the cache and emit
          rename_i l0 hl0
          simp only [writeAll_ok st l0 u0.cached hf]
          simp (disch := exact hf) only [write1_ok]
          have hsub : (outOf st e.ses ++ (u0.cached ++ [e])).Sublist (recsOf (h ++ [Op.audit e now]) e.ses) := by
            rw [hr]
            simpa [List.append_assoc] using hall.append (List.Sublist.refl [e])
          refine invS_upd hi e.ses (u0.cached ++ [e]) l0 hf (by simp) ?_ ?_ hsub ?_
          · intro e' he'
            rcases List.mem_append.mp he' with he' | he'
            · exact hcs e' he'
            · rw [List.mem_singleton.mp he']
          · simp only
            split
            · exact aUnique_erase hi.uniq
            · exact aUnique_store hi.uniq
          · intro s u hm
            simp only at hm
            split at hm
            · left; exact mem_aErase hm
            · rcases mem_aStore hm with heq | hm'
              · right
                cases heq
                exact ⟨rfl, by simp, by simpa using hsub⟩
              · left; exact hm'
      · split
        · exact invS_same hi hf rfl (List.Sublist.refl _)
        · have hout1 : (outOf st e.ses ++ [e]).Sublist (recsOf (h ++ [Op.audit e now]) e.ses) := by
            rw [hr]; exact (hi.subOut e.ses).append (List.Sublist.refl [e])
          split
          · exact invS_same hi hf rfl (List.Sublist.refl _)
          · split
            · -- the login is parked: correlate and emit
              rename_i l0 hl0
              simp (disch := exact hf) only [write1_ok]
              refine invS_upd hi e.ses [e] l0 hf (by simp) (by simp) (aUnique_store hi.uniq) hout1 ?_
              intro s u hm
              rcases mem_aStore hm with heq | hm'
              · right
                cases heq
                exact ⟨rfl, by simp, by simpa using hout1⟩
              · left; exact hm'
            · -- no login yet: open the session and cache the LOGIN record
              refine invS_upd hi e.ses [] noLogin hf (by simp) (by simp) (aUnique_store hi.uniq) ?_ ?_
              · simpa using (hi.subOut e.ses).trans (recsOf_mono h _ _)
              · intro s u hm
                rcases mem_aStore hm with heq | hm'
                · right
                  cases heq
                  exact ⟨rfl, by simp, by simpa using hout1⟩
                · left; exact hm'


/-! ### whole runs, and the judge's clause -/

theorem recsOf_prefix (h h' : List Op) (s : Str) : (recsOf h s).Sublist (recsOf (h ++ h') s) := by
  simp only [recsOf, C02.auditsOf_append, List.filter_append]
  exact List.sublist_append_left _ _

/-- `runTrace` ends in a state that satisfies the invariant for a prefix of the history, and what it collected is
that state's output -/
theorem runTrace_out (rest : List Op) : ∀ (done : List Op) (st : St) (k : Nat) (acc : List (Emitted × Nat)),
    InvS done st → acc.map (·.1) = st.out →
    ∃ done' more st', done ++ rest = done' ++ more ∧ InvS done' st' ∧ (runTrace st k rest acc).2.1 = st' ∧
      (runTrace st k rest acc).1.map (·.1) = st'.out := by
  induction rest with
  | nil => intro done st k acc hi hacc; exact ⟨done, [], st, rfl, hi, rfl, hacc⟩
  | cons op ops ih =>
    intro done st k acc hi hacc
    have hI := invS_step done st op hi
    obtain ⟨new, hnew⟩ := out_step st op
    have hdrop : (step st op).1.out.drop st.out.length = new := by rw [hnew]; simp
    have hacc' : (acc ++ ((step st op).1.out.drop st.out.length).map (fun em => (em, k))).map (·.1) = (step st op).1.out := by
      rw [hdrop, hnew, List.map_append, hacc]
      congr 1
      simp [List.map_map, Function.comp_def]
    simp only [runTrace]
    generalize hs : step st op = r at hI hacc' ⊢
    obtain ⟨st', e⟩ := r
    cases e with
    | none =>
      obtain ⟨d', m, s', h1, h2, h3, h4⟩ := ih (done ++ [op]) st' (k + 1) _ hI hacc'
      exact ⟨d', m, s', by simpa using h1, h2, h3, h4⟩
    | some er => exact ⟨done ++ [op], ops, st', by simp, hI, rfl, hacc'⟩

theorem auditRecs_events (h : List Op) : (auditRecs h).map (·.2) = C02.auditsOf h := by
  have gen : ∀ (l : List Op) (is : List Nat),
      ((is.zip l).filterMap fun p => match p.2 with | .audit e _ => some (p.1, e) | _ => none).map (·.2) =
        (C02.auditsOf (l.take is.length)) := by
    intro l
    induction l with
    | nil => intro is; cases is <;> simp [C02.auditsOf]
    | cons op r ih =>
      intro is
      cases is with
      | nil => simp [C02.auditsOf]
      | cons i is =>
        cases op <;> simp [C02.auditsOf, ih is]
  have := gen h (List.range h.length)
  simp only [List.length_range, List.take_length] at this
  rw [auditRecs, idxOps]
  refine Eq.trans ?_ this
  congr 2

theorem recs_ts (h : List Op) (s : Str) :
    ((auditRecs h).filterMap fun r => if r.2.ses = s then some r.2.ts else none) = (recsOf h s).map (·.ts) := by
  rw [recsOf, ← auditRecs_events]
  induction auditRecs h with
  | nil => rfl
  | cons r l ih =>
    by_cases hs : r.2.ses = s <;> simp [hs, ih]

/-- **The judge accepts the model, for every history.** -/
theorem order_spec_holds (h : List Op) : specOrderOnce h none (modelObs none h).1 = none := by
  obtain ⟨done', more, st', hh, hi, _, hout⟩ := runTrace_out h [] {} 0 [] invS_init rfl
  simp only [List.nil_append] at hh
  unfold specOrderOnce modelObs
  generalize runTrace { failAt := none } 0 h [] = r at hout
  obtain ⟨ems, st, e, eat⟩ := r
  simp only at hout
  simp only [Option.isSome_none, Bool.false_eq_true, if_false]
  apply List.findSome?_eq_none_iff.mpr
  intro a ha
  have haid : ∀ p : Emitted × Nat, (toAuditEvent p.1.login p.1.ev).2.1 = p.1.ev.ses := fun _ => rfl
  have hts : ∀ p : Emitted × Nat, (toAuditEvent p.1.login p.1.ev).2.2 = p.1.ev.ts := fun _ => rfl
  have hgot : ((ems.map fun p => (⟨(toAuditEvent p.1.login p.1.ev).1, (toAuditEvent p.1.login p.1.ev).2.1,
        (toAuditEvent p.1.login p.1.ev).2.2, p.2⟩ : ObsAction)).filter fun b => b.aid = a.aid).map (·.ts) =
      (outOf st' a.aid).map (·.ts) := by
    rw [outOf, ← hout]
    simp only [List.filter_map, List.map_map]
    rfl
  have hsub : ((outOf st' a.aid).map (·.ts)).Sublist ((recsOf h a.aid).map (·.ts)) := by
    apply List.Sublist.map
    rw [hh]
    exact (hi.subOut a.aid).trans (recsOf_prefix done' more a.aid)
  simp only [hgot, recs_ts]
  rw [if_pos (List.isSublist_iff_sublist.mpr hsub)]


/-! ### the clause is not vacuous: it rejects an observation with a repeated or a reordered event (on a history with
PID 77 used by two sessions, outside `wfNoReuse`) -/

def exH : List Op :=
  [ .remoteLogin exAlice,
    .audit (exEv 1 "5" .login "77") 1,
    .audit (exEv 2 "5" .other "77") 2,
    .audit (exEv 3 "6" .login "77") 3,
    .audit (exEv 4 "5" .other "77") 4 ]

def obsOf (tss : List (Int × String)) : Obs :=
  ⟨tss.map fun p => ⟨{ typ := "UserAction", outcome := "succeeded", component := "auditd", srcType := [], srcValue := [], srcExtra := [], subjects := [], target := [], data := [], metaExtra := [] },
      strOf p.2, p.1, 0⟩, "nil", none⟩

example : wfNoReuse exH = false := by decide
example : specOrderOnce exH none (obsOf [(1, "5"), (2, "5"), (4, "5")]) = none := by decide
example : specOrderOnce exH none (obsOf [(1, "5"), (2, "5"), (2, "5"), (4, "5")]) =
    some "events-of-a-session-reordered-or-repeated" := by decide
example : specOrderOnce exH none (obsOf [(2, "5"), (1, "5"), (4, "5")]) =
    some "events-of-a-session-reordered-or-repeated" := by decide
example : specOrderOnce exH none (obsOf [(1, "5"), (3, "5")]) =
    some "events-of-a-session-reordered-or-repeated" := by decide

end AM.C02S
