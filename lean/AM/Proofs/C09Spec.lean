import AM.Proofs.C14Spec
import AM.Proofs.C02Spec
import AM.Proofs.C16Late
/-! C09's judge starts with the three clauses that hold of the model for EVERY history — reused PIDs or not — before the
clauses that need `wfReuse`: they are the theorems of `C14Spec`, `C02Spec` and `C16Late`, restated here so that C09's
obligations name them. -/
namespace AM.C09S
open AM AM.Tr AM.Spec.Tracker

theorem whole_identity_spec_holds (failAt : Option Nat) (h : List Op) :
    specWholeIdentity h (modelObs failAt h).1 = none := AM.C14S.whole_identity_spec_holds failAt h

theorem order_spec_holds (h : List Op) : specOrderOnce h none (modelObs none h).1 = none := AM.C02S.order_spec_holds h

theorem not_late_spec_holds (failAt : Option Nat) (h : List Op) :
    specNotLate h (modelObs failAt h).1 = none := AM.C16L.not_late_spec_holds failAt h

/-- the first part of `specC09` on the model's own observation, with a working writer -/
theorem free_clauses_hold (h : List Op) :
    ((specWholeIdentity h (modelObs none h).1).orElse fun _ =>
      (specOrderOnce h none (modelObs none h).1).orElse fun _ => specNotLate h (modelObs none h).1) = none := by
  rw [whole_identity_spec_holds, order_spec_holds, not_late_spec_holds]; rfl

end AM.C09S
