import AM.Proofs.TrackerInv
/-! C09: a session that has ended is gone. Once the credential-disposal record of a session is
emitted — directly, or when a late SSH login releases it from the hold queue — the session is
removed from the tracker, so a later reuse of the PID or of the session id cannot be attributed to
the old login; records for absent sessions are ignored; a login emits only for sessions that are
present under its PID. Step-local statements: they hold in every state, for every write oracle. -/
namespace AM.C09
open AM AM.Tr

theorem aLookup_aErase_self {κ α} [DecidableEq κ] (k : κ) (m : List (κ × α)) :
    aLookup k (aErase k m) = none := by
  induction m with
  | nil => rfl
  | cons y r ih =>
    obtain ⟨k', v⟩ := y
    simp only [aErase]
    split
    · exact ih
    · rename_i hne
      simp only [aLookup, hne, if_false]
      exact ih

/-- once the disposal record is emitted directly the session is gone -/
theorem ended_gone (st : St) (e : AEvent) (now : Time) (em : Emitted) :
    em ∈ (step st (.audit e now)).1.out → em ∉ st.out → em.ev.typ = .credDisp → em.ev = e →
      aLookup e.ses (step st (.audit e now)).1.sessions = none := by
  intro hem hnot htyp hev
  rw [hev] at htyp
  revert hem
  simp only [step, audit]
  split
  · intro hem; exact absurd hem hnot
  · split
    · rename_i u hlook
      split
      · intro hem; exact absurd hem hnot
      · rename_i l hsome
        split
        · intro _
          exact aLookup_aErase_self _ _
        · generalize write1 _ l e = r
          intro _
          exact aLookup_aErase_self _ _
    · split
      · intro hem; exact absurd hem hnot
      · rename_i hlogin
        simp [htyp] at hlogin

/-- … whatever the writes did: processing the disposal record of a bound session removes it even
when nothing could be written -/
theorem ended_gone_bound (st : St) (e : AEvent) (now : Time) (u : User) (l : Login)
    (hne : e.ses ≠ [] ∧ e.ses ≠ strOf "unset")
    (hlook : aLookup e.ses st.sessions = some u) (hl : u.login = some l) (htyp : e.typ = .credDisp) :
    aLookup e.ses (step st (.audit e now)).1.sessions = none := by
  simp only [step, audit, hne.1, hne.2, hlook, hl, htyp]
  simp only [decide_false, Bool.or_self, Bool.false_eq_true, if_false, if_true]
  split
  · exact aLookup_aErase_self _ _
  · exact aLookup_aErase_self _ _

/-- … and also when it is released from the hold queue by a late login. (The login must be one
that the tracker accepts: an invalid login is rejected with `badLogin` and changes nothing, see
the example below.) -/
theorem flushed_gone (st : St) (l : Login) (s : Str) (u : User) (more : List (Str × User))
    (hv : l.valid = true)
    (hf : st.sessions.filter (fun p => p.2.srcPID == l.pid) = (s, u) :: more)
    (hd : hasDisp u.cached = true) :
    aLookup s (step st (.remoteLogin l)).1.sessions = none := by
  simp only [step, remoteLogin, hv, hf, hd]
  exact aLookup_aErase_self _ _

/-- with unique keys (an invariant, `Inv.uniqS`): no entry for the session is left -/
theorem flushed_gone_mem (st : St) (l : Login) (s : Str) (u : User) (more : List (Str × User))
    (hv : l.valid = true)
    (hf : st.sessions.filter (fun p => p.2.srcPID == l.pid) = (s, u) :: more)
    (hd : hasDisp u.cached = true) :
    ∀ u', (s, u') ∉ (step st (.remoteLogin l)).1.sessions :=
  fun u' hm => aLookup_none (flushed_gone st l s u more hv hf hd) (s, u') hm rfl

theorem ended_gone_mem (st : St) (e : AEvent) (now : Time) (em : Emitted)
    (hem : em ∈ (step st (.audit e now)).1.out) (hnot : em ∉ st.out)
    (htyp : em.ev.typ = .credDisp) (hev : em.ev = e) :
    ∀ u', (e.ses, u') ∉ (step st (.audit e now)).1.sessions :=
  fun u' hm => aLookup_none (ended_gone st e now em hem hnot htyp hev) (e.ses, u') hm rfl

/-- events emitted by a login all belong to a session that is present with the login's PID (and
carry that login) -/
theorem absent_session_silent (st : St) (l : Login) (new : List Emitted)
    (hnew : (step st (.remoteLogin l)).1.out = st.out ++ new) :
    ∀ em ∈ new, em.login = l ∧
      ∃ s u, (s, u) ∈ st.sessions ∧ u.srcPID = l.pid ∧ em.ev ∈ u.cached := by
  obtain ⟨new', h1, h2⟩ := out_remoteLogin st l
  have : new = new' := List.append_cancel_left (hnew.symm.trans h1)
  subst this
  intro em hem
  obtain ⟨hl, _, s, u, more, hf, hc⟩ := h2 em hem
  have hmem : (s, u) ∈ st.sessions.filter (fun p => p.2.srcPID == l.pid) := by
    rw [hf]; exact List.mem_cons_self
  have hsu := List.mem_filter.mp hmem
  exact ⟨hl, s, u, hsu.1, by simpa using hsu.2, hc⟩

/-- in a reachable state the event's own session id is that session's key -/
theorem absent_session_silent_ses (h : List Op) (st : St) (hi : Inv h st) (l : Login)
    (new : List Emitted) (hnew : (step st (.remoteLogin l)).1.out = st.out ++ new) :
    ∀ em ∈ new, em.login = l ∧
      ∃ u, (em.ev.ses, u) ∈ st.sessions ∧ u.srcPID = l.pid ∧ em.ev ∈ u.cached := by
  intro em hem
  obtain ⟨hl, s, u, hm, hp, hc⟩ := absent_session_silent st l new hnew em hem
  have := (hi.cachedOk s u em.ev hm hc).1
  exact ⟨hl, u, this ▸ hm, hp, hc⟩

/-- no session under the login's PID: nothing is emitted -/
theorem no_session_no_output (st : St) (l : Login)
    (hno : ∀ x ∈ st.sessions, x.2.srcPID ≠ l.pid) :
    (step st (.remoteLogin l)).1.out = st.out := by
  obtain ⟨new, h1⟩ := out_step st (.remoteLogin l)
  cases new with
  | nil => simpa using h1
  | cons em r =>
    obtain ⟨_, s, u, hm, hp, _⟩ := absent_session_silent st l (em :: r) h1 em List.mem_cons_self
    exact absurd hp (hno (s, u) hm)

/-- a record (other than a LOGIN record) for a session that is not present is ignored -/
theorem late_record_ignored (st : St) (e : AEvent) (now : Time) :
    aLookup e.ses st.sessions = none → e.typ ≠ .login →
      (step st (.audit e now)).1.out = st.out ∧ (step st (.audit e now)).1.sessions = st.sessions := by
  intro hlook htyp
  simp only [step, audit, hlook]
  split
  · simp
  · simp

/-- … the whole state is unchanged and there is no error -/
theorem late_record_ignored_state (st : St) (e : AEvent) (now : Time) :
    aLookup e.ses st.sessions = none → e.typ ≠ .login → step st (.audit e now) = (st, none) := by
  intro hlook htyp
  simp only [step, audit, hlook]
  split
  · simp
  · simp

/-! `flushed_gone` needs `l.valid`: an invalid login (no credential) leaves the ended session in
place (and is answered with `badLogin`). -/
def heldDisp : AEvent :=
  { ts := 1, ses := strOf "7", typ := .credDisp, pidTok := strOf "9", result := [], action := [],
    how := [], object := [], args := [] }
def heldSt : St := { sessions := [(strOf "7", ⟨0, 9, none, [heldDisp]⟩)] }
def badL : Login :=
  { pid := 9, cred := [], hasSource := true, subjects := [], srcType := [], srcValue := [],
    srcExtra := [], target := [], loggedAt := 0 }

example : heldSt.sessions.filter (fun p => p.2.srcPID == badL.pid) = [(strOf "7", ⟨0, 9, none, [heldDisp]⟩)] ∧
    hasDisp [heldDisp] = true ∧
    (step heldSt (.remoteLogin badL)).2 = some .badLogin ∧
    aLookup (strOf "7") (step heldSt (.remoteLogin badL)).1.sessions ≠ none := by
  refine ⟨by decide, by decide, by decide, by decide⟩

end AM.C09
