import AM.Model.Health
import AM.Proofs.C03
/-! # C18 — readiness is reported only when every registered component is ready

`status`: for EVERY sequence of registrations and ready-marks (any names, re-registration and
ready-marks of unregistered names included) the endpoint answers 200 with overall `ok` exactly when
every component has been marked ready since its last registration, and 503 / `not-ready`
otherwise; the body lists exactly the components of the folded log plus `overall`, and `overall`
is `ok` iff every listed component is `ok`. -/
namespace AM.C18
open AM AM.Health

/-- the last operation on `c` in the log decides its state -/
def lastOp (log : List Op) (c : Str) : Option Bool :=
  log.foldl (fun acc op => match op with
    | .add c' => if c' = c then some false else acc
    | .ready c' => if c' = c then some true else acc) none

theorem aLookup_aStore_self {κ α} [DecidableEq κ] (k : κ) (v : α) (m : List (κ × α)) :
    aLookup k (aStore k v m) = some v := by simp [aStore, aLookup]

theorem aLookup_aErase_ne {κ α} [DecidableEq κ] (k k' : κ) (m : List (κ × α)) (h : k' ≠ k) :
    aLookup k (aErase k' m) = aLookup k m := by
  induction m with
  | nil => simp [aErase]
  | cons x r ih =>
    obtain ⟨a, b⟩ := x
    simp only [aErase]
    split
    · rename_i ha; subst ha
      simp [aLookup, h, ih]
    · simp only [aLookup]; split <;> simp [ih]

theorem aLookup_aStore_ne {κ α} [DecidableEq κ] (k k' : κ) (v : α) (m : List (κ × α)) (h : k' ≠ k) :
    aLookup k (aStore k' v m) = aLookup k m := by
  simp [aStore, aLookup, h, aLookup_aErase_ne k k' m h]

/-- the folded map holds, for every name, what its last operation says -/
theorem fold_lookup (log : List Op) (c : Str) : aLookup c (fold log) = lastOp log c := by
  unfold fold lastOp
  suffices h : ∀ (m : M) (acc : Option Bool), aLookup c m = acc →
      aLookup c (log.foldl apply m) = log.foldl (fun acc op => match op with
        | .add c' => if c' = c then some false else acc
        | .ready c' => if c' = c then some true else acc) acc from h [] none rfl
  induction log with
  | nil => intro m acc h; simpa using h
  | cons op r ih =>
    intro m acc h
    simp only [List.foldl_cons]
    apply ih
    cases op with
    | add c' =>
      simp only [apply]
      by_cases hc : c' = c
      · subst hc; simp [aLookup_aStore_self]
      · simp [hc, aLookup_aStore_ne c c' false m hc, h]
    | ready c' =>
      simp only [apply]
      by_cases hc : c' = c
      · subst hc; simp [aLookup_aStore_self]
      · simp [hc, aLookup_aStore_ne c c' true m hc, h]

theorem fold_unique (log : List Op) : aUnique (fold log) := by
  unfold fold
  suffices h : ∀ m : M, aUnique m → aUnique (log.foldl apply m) from h [] (by simp [aUnique])
  induction log with
  | nil => intro m h; simpa using h
  | cons op r ih =>
    intro m h
    simp only [List.foldl_cons]
    apply ih
    cases op <;> exact aUnique_store h

/-- 200 exactly when no registered component is waiting for its ready-mark -/
theorem status (log : List Op) :
    ((respond (fold log)).1 = 200 ↔ ∀ c, lastOp log c ≠ some false) ∧
    ((respond (fold log)).1 = 503 ↔ ∃ c, lastOp log c = some false) ∧
    ((respond (fold log)).1 = 200 ∨ (respond (fold log)).1 = 503) := by
  have key : isReady (fold log) = true ↔ ∀ c, lastOp log c ≠ some false := by
    simp only [isReady, List.all_eq_true]
    constructor
    · intro h c hc
      rw [← fold_lookup] at hc
      have := h _ (aLookup_mem hc)
      simp at this
    · intro h x hx
      obtain ⟨c, b⟩ := x
      have hl := aLookup_of_mem (fold_unique log) hx
      rw [fold_lookup] at hl
      cases b with
      | true => rfl
      | false => exact absurd hl (h c)
  refine ⟨?_, ?_, ?_⟩
  · simp only [respond]; rw [← key]
    cases hr : isReady (fold log) <;> simp
  · simp only [respond]
    have : (∃ c, lastOp log c = some false) ↔ ¬ (∀ c, lastOp log c ≠ some false) := by
      constructor
      · rintro ⟨c, hc⟩ h; exact h c hc
      · intro h
        apply Classical.byContradiction
        intro hne
        apply h
        intro c hc
        exact hne ⟨c, hc⟩
    rw [this, ← key]
    cases hr : isReady (fold log) <;> simp
  · simp only [respond]; split <;> simp

/-- the body's `overall` entry agrees with the status code -/
theorem overall_entry (m : M) :
    aLookup overallKey (respond m).2 = some (if (respond m).1 = 200 then ok else notReady) := by
  simp only [respond, statusMap, aLookup_aStore_self]
  split <;> simp

/-- every component of the folded log is listed with its own state (unless it is literally called
"overall", whose entry is the overall status) -/
theorem listed (m : M) (hu : aUnique m) (c : Str) (b : Bool) (hc : c ≠ overallKey) (hm : (c, b) ∈ m) :
    aLookup c (respond m).2 = some (if b then ok else notReady) := by
  simp only [respond, statusMap]
  rw [aLookup_aStore_ne c overallKey _ _ (Ne.symm hc)]
  have hu' : aUnique (m.map fun kv => (kv.1, if kv.2 then ok else notReady)) := by
    simpa [aUnique, List.map_map, Function.comp_def] using hu
  exact aLookup_of_mem hu' (List.mem_map.mpr ⟨(c, b), hm, rfl⟩)

/-- nothing else is listed -/
theorem only_listed (m : M) (c v : Str) (hc : c ≠ overallKey) (h : (c, v) ∈ (respond m).2) :
    ∃ b, (c, b) ∈ m ∧ v = (if b then ok else notReady) := by
  simp only [respond, statusMap] at h
  rcases mem_aStore h with h | ⟨h, _⟩
  · cases h; exact absurd rfl hc
  · obtain ⟨kv, hkv, heq⟩ := List.mem_map.mp h
    cases heq
    exact ⟨kv.2, hkv, rfl⟩

/-- snapshot consistency: overall is `ok` iff every listed component is `ok` -/
theorem consistent (m : M) :
    (respond m).1 = 200 ↔ ∀ kv ∈ (respond m).2, kv.2 = ok := by
  constructor
  · intro h kv hkv
    have hr : isReady m = true := by
      simp only [respond] at h; split at h <;> simp_all
    simp only [respond, statusMap, hr, if_true] at hkv
    rcases mem_aStore hkv with h1 | ⟨h1, _⟩
    · cases h1; rfl
    · obtain ⟨x, hx, heq⟩ := List.mem_map.mp h1
      have := (List.all_eq_true.mp hr) x hx
      cases heq; simp [this]
  · intro h
    have := h (overallKey, if isReady m then ok else notReady) (by
      simp only [respond, statusMap]; exact List.mem_cons_self)
    simp only [respond]
    split
    · rfl
    · rename_i hr
      simp only [hr] at this
      exact absurd this (by decide)

/-- non-vacuity: re-registration makes the component wait for a new ready-mark -/
example : (respond (fold [.add "a".toList, .ready "a".toList, .add "a".toList])).1 = 503 := by decide
example : (respond (fold [.add "a".toList, .add "b".toList, .ready "b".toList, .ready "a".toList])).1 = 200 := by
  decide

/-- snapshot consistency under concurrency: for EVERY interleaving (at lock granularity) of
registrations, ready-marks and status requests, every answer of the endpoint is the answer for one
single state of the map — hence (by `consistent`) its `overall` entry is `ok` iff every listed
component is `ok` -/
theorem snapshot (progs : List (List (AM.Conc.Op AM.Conc.HS Unit)))
    (hp : ∀ p ∈ progs, ∀ op ∈ p, (∃ o, op = AM.Conc.healthStore o) ∨ op = AM.Conc.healthLen ∨
      op = AM.Conc.healthIterate) (sched : List Nat) :
    let fin := AM.Conc.runSched (AM.Conc.start (([], []) : AM.Conc.HS) progs) sched
    fin.g = none → ∀ r ∈ fin.sh.2, (r.1 = 200 ↔ ∀ kv ∈ r.2, kv.2 = ok) := by
  intro fin hg r hr
  obtain ⟨m, rfl⟩ := AM.C03.health_snapshot progs hp sched hg r hr
  exact consistent m

/-- the discipline `snapshot` assumes, read off the current source on every run: each locking method
of `GenericSyncMap` (the map behind the readiness registry) is one critical section — it takes the
map's mutex first and releases it with a deferred unlock -/
theorem gen_syncmap_methods_locked :
    AM.Gen.syncMapLocked.length = 7 ∧ AM.Gen.syncMapLocked.all (·.2) = true := by decide

end AM.C18
