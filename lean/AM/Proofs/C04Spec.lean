import AM.Spec.Tracker
import AM.Proofs.TrackerInv
/-! C04, the judge and the theorem meet: the executable clause `Spec.Tracker.specSilence` — the one the check
evaluates on the implementation's observations — holds of the model's own observation for EVERY history and
every write oracle. (Indices included: the LOGIN record and the login were delivered no later than the operation
that wrote the event.) -/
namespace AM.C04S
open AM AM.Tr AM.Spec.Tracker

theorem mem_zip_range {α} (l : List α) (i : Nat) (x : α) :
    (i, x) ∈ (List.range l.length).zip l ↔ l[i]? = some x := by
  constructor
  · intro h
    obtain ⟨n, hn⟩ := List.mem_iff_getElem?.mp h
    rw [List.getElem?_zip_eq_some] at hn
    obtain ⟨h1, h2⟩ := hn
    have hlt : n < l.length := by
      rcases Nat.lt_or_ge n l.length with hlt | hge
      · exact hlt
      · rw [List.getElem?_eq_none hge] at h2; cases h2
    rw [List.getElem?_range hlt] at h1
    simp only [Option.some.injEq] at h1
    subst h1
    exact h2
  · intro h
    apply List.mem_iff_getElem?.mpr
    refine ⟨i, ?_⟩
    rw [List.getElem?_zip_eq_some]
    have hi : i < l.length := by
      rcases Nat.lt_or_ge i l.length with hlt | hge
      · exact hlt
      · rw [List.getElem?_eq_none hge] at h; cases h
    exact ⟨by rw [List.getElem?_range hi], h⟩

/-- an audit event delivered by the first `n` operations sits at some index below `n` -/
theorem auditsOf_take (h : List Op) (n : Nat) (e : AEvent) (he : e ∈ auditsOf (h.take n)) :
    ∃ i now, i < n ∧ h[i]? = some (.audit e now) := by
  induction h generalizing n with
  | nil => simp [auditsOf] at he
  | cons op r ih =>
    cases n with
    | zero => simp [auditsOf] at he
    | succ n =>
      simp only [List.take_succ_cons] at he
      cases op with
      | audit e' now =>
        simp only [auditsOf, List.mem_cons] at he
        rcases he with rfl | he
        · exact ⟨0, now, by omega, rfl⟩
        · obtain ⟨i, nw, hi, hg⟩ := ih n he
          exact ⟨i + 1, nw, by omega, by simpa using hg⟩
      | remoteLogin l =>
        simp only [auditsOf] at he
        obtain ⟨i, nw, hi, hg⟩ := ih n he
        exact ⟨i + 1, nw, by omega, by simpa using hg⟩
      | cleanSessions t =>
        simp only [auditsOf] at he
        obtain ⟨i, nw, hi, hg⟩ := ih n he
        exact ⟨i + 1, nw, by omega, by simpa using hg⟩
      | cleanLogins t =>
        simp only [auditsOf] at he
        obtain ⟨i, nw, hi, hg⟩ := ih n he
        exact ⟨i + 1, nw, by omega, by simpa using hg⟩

theorem loginsOf_take (h : List Op) (n : Nat) (l : Login) (hl : l ∈ loginsOf (h.take n)) :
    ∃ i, i < n ∧ h[i]? = some (.remoteLogin l) := by
  induction h generalizing n with
  | nil => simp [loginsOf] at hl
  | cons op r ih =>
    cases n with
    | zero => simp [loginsOf] at hl
    | succ n =>
      simp only [List.take_succ_cons] at hl
      cases op with
      | remoteLogin l' =>
        simp only [loginsOf, List.mem_cons] at hl
        rcases hl with rfl | hl
        · exact ⟨0, by omega, rfl⟩
        · obtain ⟨i, hi, hg⟩ := ih n hl
          exact ⟨i + 1, by omega, by simpa using hg⟩
      | audit e now =>
        simp only [loginsOf] at hl
        obtain ⟨i, hi, hg⟩ := ih n hl
        exact ⟨i + 1, by omega, by simpa using hg⟩
      | cleanSessions t =>
        simp only [loginsOf] at hl
        obtain ⟨i, hi, hg⟩ := ih n hl
        exact ⟨i + 1, by omega, by simpa using hg⟩
      | cleanLogins t =>
        simp only [loginsOf] at hl
        obtain ⟨i, hi, hg⟩ := ih n hl
        exact ⟨i + 1, by omega, by simpa using hg⟩

/-- what `runTrace` attaches to an emitted event: the index of the operation that wrote it, by which time the
history prefix justifies it -/
def Tagged (h0 : List Op) (p : Emitted × Nat) : Prop := OutOk (h0.take (p.2 + 1)) p.1

theorem runTrace_tagged (h0 done rest : List Op) (st : St) (acc : List (Emitted × Nat))
    (hh : h0 = done ++ rest) (hi : Inv done st) (hacc : ∀ p ∈ acc, Tagged h0 p) :
    ∀ p ∈ (runTrace st done.length rest acc).1, Tagged h0 p := by
  induction rest generalizing done st acc with
  | nil => simpa [runTrace] using hacc
  | cons op ops ih =>
    have hI := inv_step done st op hi
    obtain ⟨new, hnew⟩ := out_step st op
    have hdrop : (step st op).1.out.drop st.out.length = new := by rw [hnew]; simp
    have htake : h0.take (done.length + 1) = done ++ [op] := by
      rw [hh]
      have : done.length + 1 = (done ++ [op]).length := by simp
      rw [this, show done ++ op :: ops = (done ++ [op]) ++ ops by simp, List.take_left']
      rfl
    have hacc' : ∀ p ∈ acc ++ ((step st op).1.out.drop st.out.length).map (fun em => (em, done.length)), Tagged h0 p := by
      intro p hp
      rcases List.mem_append.mp hp with hp | hp
      · exact hacc p hp
      · obtain ⟨em, hem, rfl⟩ := List.mem_map.mp hp
        simp only [Tagged, htake]
        apply hI.outOk
        rw [hdrop] at hem
        rw [hnew]; exact List.mem_append_right _ hem
    simp only [runTrace]
    generalize hs : step st op = r at hI hacc' ⊢
    obtain ⟨st', e⟩ := r
    cases e with
    | none =>
      have := ih (done ++ [op]) st' _ (by rw [hh]; simp) hI hacc'
      simpa using this
    | some er => exact hacc'

/-- **The judge accepts the model, for every history.** -/
theorem silence_spec_holds (failAt : Option Nat) (h : List Op) :
    specSilence h (modelObs failAt h).1 = none := by
  have htag := runTrace_tagged h [] h { failAt := failAt } [] rfl (inv_init failAt) (by simp)
  simp only [List.length_nil] at htag
  unfold specSilence modelObs
  generalize runTrace { failAt := failAt } 0 h [] = r at htag
  obtain ⟨ems, st, e, eat⟩ := r
  simp only
  apply List.findSome?_eq_none_iff.mpr
  intro a ha
  obtain ⟨p, hp, rfl⟩ := List.mem_map.mp ha
  obtain ⟨hev, hlg, hval, r, hr, hty, hses, hpid, hne, hnu⟩ := htag p hp
  have haid : (toAuditEvent p.1.login p.1.ev).2.1 = p.1.ev.ses := rfl
  simp only [haid]
  have h1 : (p.1.ev.ses = [] || p.1.ev.ses = strOf "unset") = false := by simp [hne, hnu]
  simp only [h1]
  -- the LOGIN record and the login, with their indices
  obtain ⟨i, now, hi, hgi⟩ := auditsOf_take h (p.2 + 1) r hr
  obtain ⟨j, hj, hgj⟩ := loginsOf_take h (p.2 + 1) p.1.login hlg
  have hrec : (i, r) ∈ loginRecs h := by
    unfold loginRecs idxOps
    apply List.mem_filterMap.mpr
    refine ⟨(i, .audit r now), (mem_zip_range h i _).mpr hgi, ?_⟩
    simp [hty, hses, hne, hnu]
  have hlog : (j, p.1.login) ∈ loginOps h := by
    unfold loginOps idxOps
    apply List.mem_filterMap.mpr
    exact ⟨(j, .remoteLogin p.1.login), (mem_zip_range h j _).mpr hgj, rfl⟩
  have hany : ((loginRecs h).any fun r' => r'.2.ses = p.1.ev.ses && r'.1 ≤ p.2 &&
      (loginOps h).any fun l => some l.2.pid = atoi r'.2.pidTok && l.1 ≤ p.2 &&
        decide (identOf l.2 = (⟨(toAuditEvent p.1.login p.1.ev).1, p.1.ev.ses, (toAuditEvent p.1.login p.1.ev).2.2, p.2⟩ : ObsAction).identity)) = true := by
    apply List.any_eq_true.mpr
    refine ⟨(i, r), hrec, ?_⟩
    simp only [Bool.and_eq_true, decide_eq_true_eq]
    refine ⟨⟨hses, by omega⟩, ?_⟩
    apply List.any_eq_true.mpr
    refine ⟨(j, p.1.login), hlog, ?_⟩
    simp only [Bool.and_eq_true, decide_eq_true_eq]
    exact ⟨⟨hpid.symm, by omega⟩, rfl⟩
  simp [hany]

end AM.C04S
