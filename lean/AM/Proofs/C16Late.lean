import AM.Spec.Tracker
import AM.Proofs.C04Spec
import AM.Proofs.C16Hist
/-! C16, the judge's clause "dropped, not emitted late" (`Spec.Tracker.specNotLate`) as a theorem: for EVERY history and
every write oracle, an event the model emits was delivered no later than it was written, and every session cleanup
between its delivery and its emission has a cut-off no later than the stamp of a LOGIN-type record of its session
delivered before it — the stamp of the session entry that held it. -/
namespace AM.C16L
open AM AM.Tr AM.Spec.Tracker

/-- the session entry `(s, u)` was created by a LOGIN-type record of `s` delivered before operation `b`, and carries
that operation's time as its stamp -/
def Stamped (h0 : List Op) (b : Nat) (s : Str) (stamp : Time) : Prop :=
  ∃ i r, i ≤ b ∧ h0[i]? = some (.audit r stamp) ∧ r.typ = .login ∧ r.ses = s

/-- `e` was delivered by operation `q`, and no session cleanup between `q` and `n` overtakes `stamp` -/
def Kept (h0 : List Op) (n : Nat) (e : AEvent) (q : Nat) (stamp : Time) : Prop :=
  (∃ nq, h0[q]? = some (.audit e nq)) ∧ ∀ k t, q < k → k < n → h0[k]? = some (.cleanSessions t) → t ≤ stamp

structure InvN (h0 : List Op) (n : Nat) (st : St) : Prop where
  ses : ∀ s u, (s, u) ∈ st.sessions → ∃ b, b < n ∧ Stamped h0 b s u.added
  held : ∀ s u e, (s, u) ∈ st.sessions → e ∈ u.cached →
    e.ses = s ∧ ∃ q, q < n ∧ Kept h0 n e q u.added ∧ Stamped h0 q s u.added
  flushed : ∀ s u, (s, u) ∈ st.sessions → u.login ≠ none → u.cached = []

theorem invN_init (h0 : List Op) (failAt : Option Nat) : InvN h0 0 { failAt := failAt } :=
  ⟨by simp, by simp, by simp⟩

/-- what `runTrace` attaches to an emitted event -/
def Tag (h0 : List Op) (p : Emitted × Nat) : Prop :=
  ∃ q, q ≤ p.2 ∧ (∃ nq, h0[q]? = some (.audit p.1.ev nq)) ∧
    ∀ k t, q < k → k < p.2 → h0[k]? = some (.cleanSessions t) → ∃ stamp, Stamped h0 q p.1.ev.ses stamp ∧ t ≤ stamp

theorem tag_of_held {h0 : List Op} {n : Nat} {st : St} (hi : InvN h0 n st) {s : Str} {u : User} {e : AEvent}
    (hm : (s, u) ∈ st.sessions) (he : e ∈ u.cached) (l : Login) : Tag h0 (⟨e, l⟩, n) := by
  obtain ⟨hs, q, hq, ⟨hdel, hkeep⟩, hst⟩ := hi.held s u e hm he
  refine ⟨q, Nat.le_of_lt hq, hdel, fun k t h1 h2 h3 => ⟨u.added, ?_, hkeep k t h1 h2 h3⟩⟩
  show Stamped h0 q e.ses u.added
  rw [hs]; exact hst

theorem tag_direct {h0 : List Op} {n : Nat} {e : AEvent} {now : Time} (hop : h0[n]? = some (.audit e now)) (l : Login) :
    Tag h0 (⟨e, l⟩, n) :=
  ⟨n, Nat.le_refl _, ⟨now, hop⟩, fun k t h1 h2 => by omega⟩


/-- (A) whatever operation `n` emits is tagged -/
theorem step_tags (h0 : List Op) (n : Nat) (st : St) (op : Op) (hi : InvN h0 n st) (hop : h0[n]? = some op) :
    ∃ new, (step st op).1.out = st.out ++ new ∧ ∀ em ∈ new, Tag h0 (em, n) := by
  obtain ⟨⟨new, ho, hn⟩, _⟩ := AM.C16H.step_from st op
  refine ⟨new, ho, fun em hem => ?_⟩
  rcases hn em hem with ⟨s, u, hm, he⟩ | ⟨now, rfl⟩
  · exact tag_of_held hi hm he em.login
  · exact tag_direct hop em.login

theorem Stamped.mono {h0 : List Op} {b b' : Nat} {s : Str} {stamp : Time} (h : Stamped h0 b s stamp) (hb : b ≤ b') :
    Stamped h0 b' s stamp := by
  obtain ⟨i, r, hi, h1, h2, h3⟩ := h
  exact ⟨i, r, Nat.le_trans hi hb, h1, h2, h3⟩

/-- (B), generic form: every entry of the new table is an old entry carried over, a modified entry of an existing
session, or a new entry created by the LOGIN-type record being delivered -/
theorem invN_of {h0 : List Op} {n : Nat} {st st' : St} {op : Op} (hi : InvN h0 n st) (hop : h0[n]? = some op)
    (hall : ∀ s u, (s, u) ∈ st'.sessions →
      ((s, u) ∈ st.sessions ∧ (∀ t, op = .cleanSessions t → u.cached ≠ [] → t ≤ u.added)) ∨
      (∃ u0, (s, u0) ∈ st.sessions ∧ u.added = u0.added ∧ (u.login ≠ none → u.cached = []) ∧
        (∀ e ∈ u.cached, e ∈ u0.cached ∨ (∃ now, op = .audit e now ∧ e.ses = s)) ∧ (∀ t, op ≠ .cleanSessions t)) ∨
      (∃ e now, op = .audit e now ∧ e.typ = .login ∧ e.ses = s ∧ u.added = now ∧ (u.login ≠ none → u.cached = []) ∧
        (∀ e' ∈ u.cached, e' = e))) :
    InvN h0 (n + 1) st' := by
  refine ⟨?_, ?_, ?_⟩
  · intro s u hm
    rcases hall s u hm with ⟨hm0, _⟩ | ⟨u0, hm0, hadd, _, _, _⟩ | ⟨e, now, rfl, hty, hs, hadd, _, _⟩
    · obtain ⟨b, hb, hst⟩ := hi.ses s u hm0; exact ⟨b, by omega, hst⟩
    · obtain ⟨b, hb, hst⟩ := hi.ses s u0 hm0; exact ⟨b, by omega, by rw [hadd]; exact hst⟩
    · exact ⟨n, by omega, n, e, Nat.le_refl _, by rw [hadd]; exact hop, hty, hs⟩
  · intro s u e hm he
    rcases hall s u hm with ⟨hm0, hcl⟩ | ⟨u0, hm0, hadd, _, hc, hnc⟩ | ⟨e0, now, rfl, hty, hs, hadd, _, hc⟩
    · obtain ⟨hs, q, hq, ⟨hdel, hkeep⟩, hst⟩ := hi.held s u e hm0 he
      refine ⟨hs, q, by omega, ⟨hdel, fun k t h1 h2 h3 => ?_⟩, hst⟩
      by_cases hk : k < n
      · exact hkeep k t h1 hk h3
      · have : k = n := by omega
        subst this
        rw [hop] at h3
        exact hcl t (Option.some.inj h3) (List.ne_nil_of_mem he)
    · rcases hc e he with he0 | ⟨now, rfl, hs⟩
      · obtain ⟨hs, q, hq, ⟨hdel, hkeep⟩, hst⟩ := hi.held s u0 e hm0 he0
        refine ⟨hs, q, by omega, ⟨hdel, fun k t h1 h2 h3 => ?_⟩, by rw [hadd]; exact hst⟩
        by_cases hk : k < n
        · rw [hadd]; exact hkeep k t h1 hk h3
        · have : k = n := by omega
          subst this
          rw [hop] at h3
          exact absurd (Option.some.inj h3) (hnc t)
      · obtain ⟨b, hb, hst⟩ := hi.ses s u0 hm0
        refine ⟨hs, n, by omega, ⟨⟨now, hop⟩, fun k t h1 h2 _ => by omega⟩, ?_⟩
        rw [hadd]; exact hst.mono (by omega)
    · have := hc e he
      subst this
      refine ⟨hs, n, by omega, ⟨⟨now, hop⟩, fun k t h1 h2 _ => by omega⟩, ?_⟩
      exact ⟨n, e, Nat.le_refl _, by rw [hadd]; exact hop, hty, hs⟩
  · intro s u hm hl
    rcases hall s u hm with ⟨hm0, _⟩ | ⟨u0, _, _, hf, _, _⟩ | ⟨e, now, _, _, _, _, hf, _⟩
    · exact hi.flushed s u hm0 hl
    · exact hf hl
    · exact hf hl


/-- (B) a step that reports no error keeps the invariant -/
theorem invN_step (h0 : List Op) (n : Nat) (st : St) (op : Op) (hi : InvN h0 n st) (hop : h0[n]? = some op)
    (hok : (step st op).2 = none) : InvN h0 (n + 1) (step st op).1 := by
  have carried : ∀ {s : Str} {u : User}, (s, u) ∈ st.sessions → (∀ t, op ≠ .cleanSessions t) →
      ((s, u) ∈ st.sessions ∧ (∀ t, op = .cleanSessions t → u.cached ≠ [] → t ≤ u.added)) :=
    fun hm hne => ⟨hm, fun t ht => absurd ht (hne t)⟩
  cases op with
  | cleanLogins t =>
    exact invN_of hi hop (fun s u hm => Or.inl (carried hm (by intro t; simp)))
  | cleanSessions t =>
    refine invN_of hi hop (fun s u hm => Or.inl ?_)
    simp only [step] at hm
    obtain ⟨hm0, hkeep⟩ := List.mem_filter.mp hm
    refine ⟨hm0, fun t' ht' hne => ?_⟩
    injection ht' with ht'
    subst ht'
    have hnone : u.login = none := by
      cases hl : u.login with
      | none => rfl
      | some l => exact absurd (hi.flushed s u hm0 (by rw [hl]; simp)) hne
    have : ¬ u.added < t := by
      intro hlt
      simp [hnone, hlt] at hkeep
    exact Int.not_lt.mp this
  | remoteLogin l =>
    have hne : ∀ t, Op.remoteLogin l ≠ .cleanSessions t := by intro t; simp
    simp only [step, remoteLogin] at hok ⊢
    split
    · exact invN_of hi hop (fun s u hm => Or.inl (carried hm hne))
    · rename_i hv
      simp only [hv] at hok
      split
      · rename_i s0 u0 more hfil
        simp only [hfil] at hok
        have hmem0 : (s0, u0) ∈ st.sessions := by
          have : (s0, u0) ∈ st.sessions.filter (fun p => p.2.srcPID == l.pid) := by
            rw [hfil]; exact List.mem_cons_self
          exact (List.mem_filter.mp this).1
        have hwr := writeAll_wrote { st with ambiguous := st.ambiguous || !more.isEmpty } l u0.cached
        generalize writeAll { st with ambiguous := st.ambiguous || !more.isEmpty } l u0.cached = r at hwr hok ⊢
        obtain ⟨st', ok⟩ := r
        have hs : st'.sessions = st.sessions := hwr.sessions
        cases ok with
        | false => simp at hok
        | true =>
          refine invN_of hi hop (fun s u hm => ?_)
          simp only at hm
          split at hm
          · rw [hs] at hm; exact Or.inl (carried (mem_aErase hm).1 hne)
          · rcases mem_aStore hm with heq | ⟨hm', _⟩
            · cases heq
              exact Or.inr (Or.inl ⟨u0, hmem0, rfl, by simp, by simp, hne⟩)
            · rw [hs] at hm'; exact Or.inl (carried hm' hne)
      · exact invN_of hi hop (fun s u hm => Or.inl (carried hm hne))
  | audit e now =>
    have hne : ∀ t, Op.audit e now ≠ .cleanSessions t := by intro t; simp
    simp only [step, audit] at hok ⊢
    split
    · exact invN_of hi hop (fun s u hm => Or.inl (carried hm hne))
    · rename_i hign
      simp only [hign] at hok
      split
      · rename_i u0 hlook
        simp only [hlook] at hok
        have hmem0 := aLookup_mem hlook
        split
        · -- cached
          refine invN_of hi hop (fun s u hm => ?_)
          rcases mem_aStore hm with heq | ⟨hm', _⟩
          · cases heq
            rename_i hnone
            refine Or.inr (Or.inl ⟨u0, hmem0, rfl, ?_, ?_, hne⟩)
            · intro h; exact absurd hnone h
            · intro e' he'
              rcases List.mem_append.mp he' with he' | he'
              · exact Or.inl he'
              · right; exact ⟨now, by rw [List.mem_singleton.mp he'], by rw [List.mem_singleton.mp he']⟩
          · exact Or.inl (carried hm' hne)
        · rename_i l0 hl0
          simp only [hl0] at hok
          have hwr := writeAll_wrote st l0 u0.cached
          generalize writeAll st l0 u0.cached = r at hwr hok ⊢
          obtain ⟨st', ok⟩ := r
          have hs : st'.sessions = st.sessions := hwr.sessions
          cases ok with
          | false => simp at hok
          | true =>
            simp only at hok ⊢
            have hw2 := write1_wrote st' l0 e
            generalize write1 st' l0 e = r2 at hw2 hok ⊢
            obtain ⟨st'', okw⟩ := r2
            have hs2 : st''.sessions = st.sessions := hw2.sessions.trans hs
            refine invN_of hi hop (fun s u hm => ?_)
            simp only at hm
            split at hm
            · rw [hs2] at hm; exact Or.inl (carried (mem_aErase hm).1 hne)
            · rcases mem_aStore hm with heq | ⟨hm', _⟩
              · cases heq
                exact Or.inr (Or.inl ⟨u0, hmem0, rfl, by simp, by simp, hne⟩)
              · rw [hs2] at hm'; exact Or.inl (carried hm' hne)
      · rename_i hlook
        simp only [hlook] at hok
        split
        · exact invN_of hi hop (fun s u hm => Or.inl (carried hm hne))
        · rename_i htyp
          have htyp' : e.typ = .login := Decidable.of_not_not htyp
          split
          · exact invN_of hi hop (fun s u hm => Or.inl (carried hm hne))
          · rename_i p hp
            split
            · rename_i l0 hl0
              generalize hst1 : ({ st with
                logins := aErase p st.logins
                sessions := aStore e.ses ⟨now, p, some l0, []⟩ st.sessions } : St) = st1
              have hs1 : st1.sessions = aStore e.ses ⟨now, p, some l0, []⟩ st.sessions := by rw [← hst1]
              have hw := write1_wrote st1 l0 e
              generalize write1 st1 l0 e = r at hw ⊢
              obtain ⟨st2, okw⟩ := r
              refine invN_of hi hop (fun s u hm => ?_)
              simp only at hm
              rw [hw.sessions, hs1] at hm
              rcases mem_aStore hm with heq | ⟨hm', _⟩
              · cases heq
                exact Or.inr (Or.inr ⟨e, now, rfl, htyp', rfl, rfl, by simp, by simp⟩)
              · exact Or.inl (carried hm' hne)
            · refine invN_of hi hop (fun s u hm => ?_)
              rcases mem_aStore hm with heq | ⟨hm', _⟩
              · cases heq
                exact Or.inr (Or.inr ⟨e, now, rfl, htyp', rfl, rfl, by simp, by simp⟩)
              · exact Or.inl (carried hm' hne)


theorem runTrace_tag (h0 done rest : List Op) (st : St) (acc : List (Emitted × Nat))
    (hh : h0 = done ++ rest) (hi : InvN h0 done.length st) (hacc : ∀ p ∈ acc, Tag h0 p) :
    ∀ p ∈ (runTrace st done.length rest acc).1, Tag h0 p := by
  induction rest generalizing done st acc with
  | nil => simpa [runTrace] using hacc
  | cons op ops ih =>
    have hop : h0[done.length]? = some op := by rw [hh]; simp
    obtain ⟨new, hnew, htag⟩ := step_tags h0 done.length st op hi hop
    have hdrop : (step st op).1.out.drop st.out.length = new := by rw [hnew]; simp
    have hacc' : ∀ p ∈ acc ++ ((step st op).1.out.drop st.out.length).map (fun em => (em, done.length)), Tag h0 p := by
      intro p hp
      rcases List.mem_append.mp hp with hp | hp
      · exact hacc p hp
      · obtain ⟨em, hem, rfl⟩ := List.mem_map.mp hp
        rw [hdrop] at hem
        exact htag em hem
    have hstep := invN_step h0 done.length st op hi hop
    simp only [runTrace]
    generalize hs : step st op = r at hstep hacc' ⊢
    obtain ⟨st', e⟩ := r
    cases e with
    | none =>
      have := ih (done ++ [op]) st' _ (by rw [hh]; simp) (by simpa using hstep rfl) hacc'
      simpa using this
    | some er => exact hacc'

/-- **The judge accepts the model, for every history and every write oracle.** -/
theorem not_late_spec_holds (failAt : Option Nat) (h : List Op) :
    specNotLate h (modelObs failAt h).1 = none := by
  have htag := runTrace_tag h [] h { failAt := failAt } [] rfl (invN_init h failAt) (by simp)
  simp only [List.length_nil] at htag
  unfold specNotLate modelObs
  generalize runTrace { failAt := failAt } 0 h [] = r at htag
  obtain ⟨ems, st, e, eat⟩ := r
  simp only
  apply List.findSome?_eq_none_iff.mpr
  intro a ha
  obtain ⟨p, hp, rfl⟩ := List.mem_map.mp ha
  obtain ⟨q, hq, ⟨nq, hdel⟩, hcl⟩ := htag p hp
  have hmemq : (q, Op.audit p.1.ev nq) ∈ idxOps h := (AM.C04S.mem_zip_range h q _).mpr hdel
  rw [if_pos]
  apply List.any_eq_true.mpr
  refine ⟨(q, Op.audit p.1.ev nq), hmemq, ?_⟩
  have h1 : (toAuditEvent p.1.login p.1.ev).2.2 = p.1.ev.ts := rfl
  have h2 : (toAuditEvent p.1.login p.1.ev).2.1 = p.1.ev.ses := rfl
  simp only [h1, h2, decide_true, Bool.true_and, Bool.and_eq_true, decide_eq_true_eq]
  refine ⟨hq, ?_⟩
  apply List.all_eq_true.mpr
  intro c hc
  obtain ⟨kk, opc⟩ := c
  have hgk : h[kk]? = some opc := (AM.C04S.mem_zip_range h kk _).mp hc
  cases opc with
  | cleanSessions t =>
    simp only
    apply Bool.or_eq_true_iff.mpr
    by_cases hr : q < kk ∧ kk < p.2
    · right
      obtain ⟨stamp, ⟨i, r, hiq, hgi, hty, hses⟩, hle⟩ := hcl kk t hr.1 hr.2 hgk
      have hmemi : (i, Op.audit r stamp) ∈ idxOps h := (AM.C04S.mem_zip_range h i _).mpr hgi
      apply List.any_eq_true.mpr
      refine ⟨(i, Op.audit r stamp), hmemi, ?_⟩
      simp [hiq, hty, hses, hle]
    · left
      have : (decide (q < kk) && decide (kk < p.2)) = false := by
        simp only [Bool.and_eq_false_iff, decide_eq_false_iff_not]
        by_cases h1 : q < kk
        · right; exact fun h2 => hr ⟨h1, h2⟩
        · left; exact h1
      simp [this]
  | remoteLogin l => rfl
  | audit e' n' => rfl
  | cleanLogins t => rfl

end AM.C16L
