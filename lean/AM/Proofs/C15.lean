import AM.Gen.Facts
import AM.Proofs.AuditProcLemmas
/-! # C15 — no audit record is skipped silently

Theorems about the audit-processor model (`AM.Model.AuditProc`), for every input list (lines with
what the parser makes of them, empty lines, logins, ticks, expiry, polls of the main loop,
cancellation), every write oracle of the correlator and every configuration:

* `pushed_characterised` / `parse_error_names_first_rejected` / `rejected_line_then_poll_stops`:
  every accepted non-empty line consumed before the first rejected one is pushed into the
  reassembler, in order; a rejected line makes the next look of the main loop return the error
  that carries exactly that line; `Read` cannot get past it.
* `conservation` / `every_record_in_one_group` / `flushed_at_return`: per sequence number, what was
  handed to the callback followed by what is in flight is exactly what was pushed, in order
  (nothing lost, duplicated or reordered); when `Read` returns the table is flushed.
* `groups_are_whole_events` / `one_group_per_event`: when records of a kernel event never arrive
  after its completing record and nothing was evicted by overflow or expiry, every group handed over
  is exactly the records of one kernel event and no event is split over two groups — for any
  interleaving of the events' records.
* `first_error_kept` / `pending_error_stops` / `ctx_means_no_error_pending`: the error `Read`
  returns for a correlator failure is the first one the callback produced (the one-slot channel
  never replaces it), a pending error makes the next look of the main loop return, and `Read`
  returning the context's error means no callback or parser error was pending.
* `invalid_login_stops`, `correlator_error_noted`, `coalesce_error_noted`. -/
namespace AM.C15
open AM AM.AP AM.Tr

/-- the raw text of the first rejected line -/
def firstRej : List In → Option Str
  | [] => none
  | .line raw none :: _ => some raw
  | _ :: rest => firstRej rest

/-- the records of the accepted lines before the first rejected one -/
def acceptedUpto : List In → List Rec
  | [] => []
  | .line _ none :: _ => []
  | .line _ (some r) :: rest => r :: acceptedUpto rest
  | _ :: rest => acceptedUpto rest

def isRejected : In → Bool
  | .line _ none => true
  | _ => false

theorem firstRej_cons_of_not (i : In) (rest : List In) (h : isRejected i = false) :
    firstRej (i :: rest) = firstRej rest := by
  cases i with
  | line raw p => cases p <;> simp_all [firstRej, isRejected]
  | _ => rfl

theorem acceptedUpto_cons_of_not (i : In) (rest : List In) (h : isRejected i = false) :
    acceptedUpto (i :: rest) = acceptedUpto [i] ++ acceptedUpto rest := by
  cases i with
  | line raw p => cases p <;> simp_all [acceptedUpto, isRejected]
  | _ => simp [acceptedUpto]

/-- one input, parser alive -/
theorem step_parser_alive (c : Cfg) (st : AP.St) (i : In) (h : st.parserErr = none) :
    (stepIn c st i).1.pushed = st.pushed ++ acceptedUpto [i] ∧
    (stepIn c st i).1.parserErr = (firstRej [i]).map .parse := by
  cases i with
  | line raw p =>
    cases p with
    | none => simp [stepIn, h, acceptedUpto, firstRej]
    | some r =>
      have hf := foldl_callback_fields c.after (cleanUp c.max false (put st.fl r)).2.1
        { st with fl := (cleanUp c.max false (put st.fl r)).1, pushed := st.pushed ++ [r],
                  forced := st.forced || (cleanUp c.max false (put st.fl r)).2.2 }
      have hnp : st.parserErr.isSome = false := by simp [h]
      simp only [stepIn, hnp, Bool.false_eq_true, if_false, push, acceptedUpto, firstRej,
        Option.map_none]
      exact ⟨hf.2.1, by rw [hf.2.2.2.1]; exact h⟩
  | empty => simp [stepIn, acceptedUpto, firstRej, h]
  | login l => simp [stepIn, acceptedUpto, firstRej, h]
  | tick t => simp [stepIn, acceptedUpto, firstRej, h]
  | expire =>
    have hf := foldl_callback_fields c.after (cleanUp c.max true st.fl).2.1
      { st with fl := (cleanUp c.max true st.fl).1, forced := st.forced || (cleanUp c.max true st.fl).2.2 }
    simp only [stepIn, acceptedUpto, firstRej, Option.map_none, List.append_nil]
    exact ⟨hf.2.1, by rw [hf.2.2.2.1]; exact h⟩
  | poll =>
    simp only [stepIn, h, acceptedUpto, firstRej, Option.map_none, List.append_nil]
    split <;> simp_all
  | cancel => simp [stepIn, acceptedUpto, firstRej, h]

/-- one input, parser gone: nothing is pushed any more -/
theorem step_parser_dead (c : Cfg) (st : AP.St) (i : In) (e : PErr) (h : st.parserErr = some e) :
    (stepIn c st i).1.pushed = st.pushed ∧ (stepIn c st i).1.parserErr = some e := by
  cases i with
  | line raw p => simp [stepIn, h]
  | empty => simp [stepIn, h]
  | login l => simp [stepIn, h]
  | tick t => simp [stepIn, h]
  | expire =>
    have hf := foldl_callback_fields c.after (cleanUp c.max true st.fl).2.1
      { st with fl := (cleanUp c.max true st.fl).1, forced := st.forced || (cleanUp c.max true st.fl).2.2 }
    simp only [stepIn]
    exact ⟨hf.2.1, by rw [hf.2.2.2.1]; exact h⟩
  | poll => simp [stepIn, h]
  | cancel => simp [stepIn, h]

theorem runCore_parser_dead (c : Cfg) (ins : List In) (st s : AP.St) (e : PErr) (r : Option PErr) (k : Nat)
    (h : st.parserErr = some e) (hrun : runCore c st ins = (s, r, k)) :
    s.pushed = st.pushed ∧ s.parserErr = some e := by
  induction ins generalizing st k with
  | nil => simp [runCore] at hrun; obtain ⟨rfl, _, _⟩ := hrun; exact ⟨rfl, h⟩
  | cons i rest ih =>
    have hs := step_parser_dead c st i e h
    rcases runCore_cons_cases hrun with ⟨x, h1, _, _⟩ | ⟨st', k', h1, h2, _⟩
    · rw [h1] at hs; exact hs
    · rw [h1] at hs
      have := ih st' k' hs.2 h2
      exact ⟨this.1.trans hs.1, this.2⟩

/-- **No silent skip.** Whatever else happens, the records pushed into the reassembler are exactly
the accepted lines among the consumed inputs up to the first rejected line, in order, and the
parser's pending error is that first rejected line. -/
theorem pushed_characterised (c : Cfg) (ins : List In) (st s : AP.St) (r : Option PErr) (k : Nat)
    (h : st.parserErr = none) (hrun : runCore c st ins = (s, r, k)) :
    s.pushed = st.pushed ++ acceptedUpto (ins.take k) ∧
    s.parserErr = (firstRej (ins.take k)).map .parse := by
  induction ins generalizing st k with
  | nil =>
    simp [runCore] at hrun
    obtain ⟨rfl, _, rfl⟩ := hrun
    simp [acceptedUpto, firstRej, h]
  | cons i rest ih =>
    have hs := step_parser_alive c st i h
    rcases runCore_cons_cases hrun with ⟨x, h1, _, rfl⟩ | ⟨st1, k', h1, h2, rfl⟩
    · rw [h1] at hs; simpa using hs
    · rw [h1] at hs
      simp only [List.take_succ_cons]
      by_cases hr : isRejected i = true
      · cases i with
        | line raw p =>
          cases p with
          | some r => simp [isRejected] at hr
          | none =>
            have hd : st1.parserErr = some (.parse raw) := by simpa [firstRej] using hs.2
            have := runCore_parser_dead c rest st1 s _ r k' hd h2
            refine ⟨?_, ?_⟩
            · rw [this.1, hs.1]; simp [acceptedUpto]
            · rw [this.2]; simp [firstRej]
        | _ => simp [isRejected] at hr
      · have hr' : isRejected i = false := by simpa using hr
        have hal : st1.parserErr = none := by
          have := hs.2
          rw [show firstRej [i] = firstRej [] from firstRej_cons_of_not i [] hr'] at this
          simpa [firstRej] using this
        obtain ⟨a, b⟩ := ih st1 k' hal h2
        refine ⟨?_, ?_⟩
        · rw [a, hs.1, List.append_assoc]
          congr 1
          exact (acceptedUpto_cons_of_not i _ hr').symm
        · rw [b, firstRej_cons_of_not i _ hr']

/-- the invariant of the error channels holds wherever `Read` is still running, and the result of
a stopped run is explained by the state it stopped in -/
theorem run_errInv (c : Cfg) (ins : List In) (st s : AP.St) (r : Option PErr) (k : Nat)
    (h : ErrInv st) (hrun : runCore c st ins = (s, r, k)) :
    (r = none → ErrInv s) ∧
    (∀ e, r = some e → cbKind e → s.cbErrs.head? = some e) ∧
    (∀ raw, r = some (.parse raw) → s.parserErr = some (.parse raw)) := by
  induction ins generalizing st k with
  | nil =>
    simp [runCore] at hrun
    obtain ⟨rfl, rfl, _⟩ := hrun
    exact ⟨fun _ => h, by simp, by simp⟩
  | cons i rest ih =>
    rcases runCore_cons_cases hrun with ⟨x, h1, rfl, _⟩ | ⟨st1, k', h1, h2, _⟩
    · have hk := stop_kinds c st i h x (by rw [h1])
      refine ⟨by simp, ?_, ?_⟩
      · intro e he hcb
        cases he
        obtain ⟨_, _, hsl, hcbs⟩ := hk.1 hcb
        rw [h1] at hcbs
        simp only at hcbs
        rw [hcbs, ← h.slot_head, hsl]
      · intro raw he
        cases he
        obtain ⟨rfl, hp⟩ := hk.2 raw rfl
        have : s.parserErr = st.parserErr := by
          have := congrArg (fun p => p.1.parserErr) h1
          simpa [stepIn, hp] using this.symm
        rw [this, hp]
    · have := errInv_stepIn c st i h (by rw [h1])
      rw [h1] at this
      exact ih st1 k' this h2

/-- **The error identifies the offending line.** If `Read` returns a parse error, it carries the
first rejected line among the inputs consumed, and every accepted line before it was pushed. -/
theorem parse_error_names_first_rejected (c : Cfg) (ins : List In) (s : AP.St) (raw : Str) (k : Nat)
    (hrun : runCore c {} ins = (s, some (.parse raw), k)) :
    firstRej (ins.take k) = some raw ∧ s.pushed = acceptedUpto (ins.take k) := by
  obtain ⟨a, b⟩ := pushed_characterised c ins {} s _ k rfl hrun
  have hp := (run_errInv c ins {} s _ k errInv_init hrun).2.2 raw rfl
  rw [hp] at b
  refine ⟨?_, by simpa using a⟩
  cases hf : firstRej (ins.take k) with
  | none => rw [hf] at b; simp at b
  | some x => rw [hf] at b; simp at b; rw [b]

theorem runCore_append_go (c : Cfg) (pre post : List In) (st s1 : AP.St) (k1 : Nat)
    (h : runCore c st pre = (s1, none, k1)) :
    runCore c st (pre ++ post) =
      ((runCore c s1 post).1, (runCore c s1 post).2.1, (runCore c s1 post).2.2 + pre.length) := by
  induction pre generalizing st k1 with
  | nil => simp [runCore] at h; obtain ⟨rfl, _⟩ := h; simp
  | cons i rest ih =>
    rcases runCore_cons_cases h with ⟨x, _, hx, _⟩ | ⟨st1, k', h1, h2, _⟩
    · cases hx
    · have := ih st1 k' h2
      simp only [List.cons_append, runCore, h1, this, List.length_cons]
      simp [Nat.add_assoc]

theorem runCore_append_stop (c : Cfg) (pre post : List In) (st s1 : AP.St) (e : PErr) (k1 : Nat)
    (h : runCore c st pre = (s1, some e, k1)) : runCore c st (pre ++ post) = (s1, some e, k1) := by
  induction pre generalizing st k1 with
  | nil => simp [runCore] at h
  | cons i rest ih =>
    rcases runCore_cons_cases h with ⟨x, h1, hx, rfl⟩ | ⟨st1, k', h1, h2, rfl⟩
    · cases hx; simp [runCore, h1]
    · have := ih st1 k' h2
      simp [runCore, h1, this]

/-- **A rejected line is never skipped.** Whatever comes before and after it, the run does not get
past the main loop's next look at its channels: `Read` has returned by then. -/
theorem rejected_line_then_poll_stops (c : Cfg) (pre post : List In) (raw : Str) (st s : AP.St)
    (r : Option PErr) (k : Nat)
    (hrun : runCore c st (pre ++ .line raw none :: .poll :: post) = (s, r, k)) :
    r.isSome ∧ k ≤ pre.length + 2 := by
  generalize hp : runCore c st pre = x
  obtain ⟨s1, r1, k1⟩ := x
  have hlen := runCore_len hp
  cases r1 with
  | some e =>
    rw [runCore_append_stop c pre _ st s1 e k1 hp] at hrun
    simp only [Prod.mk.injEq] at hrun
    obtain ⟨_, rfl, rfl⟩ := hrun
    exact ⟨rfl, by omega⟩
  | none =>
    rw [runCore_append_go c pre _ st s1 k1 hp] at hrun
    -- from any state: the line sets (or leaves) the parser's error, the poll returns it
    have key : ∃ s2 e, runCore c s1 (.line raw none :: .poll :: post) = (s2, some e, 2) := by
      cases hpe : s1.parserErr with
      | some e => exact ⟨s1, e, by simp [runCore, stepIn, hpe]⟩
      | none => exact ⟨{ s1 with parserErr := some (.parse raw) }, .parse raw, by simp [runCore, stepIn, hpe]⟩
    obtain ⟨s2, e, hk⟩ := key
    rw [hk] at hrun
    simp only [Prod.mk.injEq] at hrun
    obtain ⟨_, rfl, rfl⟩ := hrun
    exact ⟨rfl, by omega⟩

/-! ### the error channel has a slot (regenerated fact)

The model's `slot : Option PErr` stands for `reassemblerErrors`, into which the callback sends WITHOUT blocking.
Such a send succeeds iff the loop of `Read` happens to be waiting in its `select` at that instant or the channel
has room. The loop is not always waiting — it may be inside `tracker.RemoteLogin`, held up by the very callback
that is about to fail — so the first error survives only because the channel has capacity. `AM.Gen.reassemblerErrorsCap`
is read off `make(chan error, n)` in `Read` on every run. -/

/-- a non-blocking send on a channel of capacity `cap` currently holding `len` values -/
def trySend (cap len : Nat) (receiverWaiting : Bool) : Bool := receiverWaiting || decide (len < cap)

/-- with the capacity found in the working tree the first error is accepted even while the loop is busy … -/
theorem gen_error_slot : trySend Gen.reassemblerErrorsCap 0 false = true := by decide

/-- the correspondence runs let "everything in flight expire" by waiting 3.2 s: that is longer than the reassembler's
time-out plus one maintenance period as found in the working tree (nanoseconds) -/
theorem gen_expiry_within_harness_wait : Gen.eventTimeout + Gen.reassemblerInterval ≤ 3200000000 := by decide

/-- … and without a slot it would be dropped (the `default` arm), `Read` running on with the event lost -/
theorem no_slot_drops_error : trySend 0 0 false = false := by decide

/-- **The first correlator error is the one reported.** If `Read` returns a callback error, it is
the first error the callback produced: later ones never replace it in the one-slot channel. -/
theorem first_error_kept (c : Cfg) (ins : List In) (s : AP.St) (e : PErr) (k : Nat)
    (hrun : runCore c {} ins = (s, some e, k)) (hcb : cbKind e) : s.cbErrs.head? = some e :=
  (run_errInv c ins {} s _ k errInv_init hrun).2.1 e rfl hcb

/-- **A pending error stops `Read`.** In every state reached while `Read` is running, once the
callback has produced an error or the parser has stopped, the main loop's next look returns. -/
theorem pending_error_stops (c : Cfg) (ins : List In) (s : AP.St) (k : Nat)
    (hrun : runCore c {} ins = (s, none, k)) (hpend : s.cbErrs ≠ [] ∨ s.parserErr.isSome) :
    (stepIn c s .poll).2.isSome := by
  have hinv := (run_errInv c ins {} s _ k errInv_init hrun).1 rfl
  cases hp : s.parserErr with
  | some e => simp [stepIn, hp]
  | none =>
    rcases hpend with hne | hps
    · have := hinv.slot_head
      cases hc : s.cbErrs with
      | nil => exact absurd hc hne
      | cons a b =>
        rw [hc] at this
        simp [stepIn, hp, this]
    · simp [hp] at hps

/-- with the main loop looking after every input: `Read` returns the context's error only if no
callback error was produced and no line was rejected before -/
theorem ctx_means_no_error_pending (c : Cfg) (ins : List In) (st s : AP.St) (k : Nat)
    (hinv : ErrInv st) (h0 : st.cbErrs = []) (hp0 : st.parserErr = none)
    (hrun : runCore c st (polled ins ++ [.cancel]) = (s, some .ctx, k)) :
    s.cbErrs = [] ∧ s.parserErr = none := by
  induction ins generalizing st k with
  | nil =>
    simp [polled, runCore, stepIn] at hrun
    obtain ⟨rfl, _⟩ := hrun
    exact ⟨h0, hp0⟩
  | cons i rest ih =>
    simp only [polled, List.cons_append] at hrun
    rcases runCore_cons_cases hrun with ⟨x, h1, hx, _⟩ | ⟨st1, k1, h1, h2, _⟩
    · -- the input itself returned ctx: it is `cancel`, the state is unchanged
      cases hx
      have hk := stop_kinds c st i hinv .ctx (by rw [h1])
      cases i with
      | cancel => simp [stepIn] at h1; obtain ⟨rfl⟩ := h1; exact ⟨h0, hp0⟩
      | poll =>
        simp only [stepIn, hp0] at h1
        have hs0 : st.slot = none := by rw [hinv.slot_head, h0]; rfl
        simp [hs0] at h1
      | login l =>
        simp only [stepIn, Prod.mk.injEq, Option.map_eq_some_iff] at h1
        obtain ⟨_, _, _, hh⟩ := h1
        cases hh
      | line raw p =>
        simp only [stepIn] at h1
        split at h1
        · simp at h1
        · cases p <;> simp at h1
      | empty => simp [stepIn] at h1
      | tick t => simp [stepIn] at h1
      | expire => simp [stepIn] at h1
    · have hinv1 := errInv_stepIn c st i hinv (by rw [h1])
      rw [h1] at hinv1
      simp only at hinv1
      rcases runCore_cons_cases h2 with ⟨x, h3, hx, _⟩ | ⟨st2, k2, h3, h4, _⟩
      · -- the poll returned ctx: impossible
        cases hx
        have hk := stop_kinds c st1 .poll hinv1 .ctx (by rw [h3])
        cases hp : st1.parserErr with
        | some e =>
          obtain ⟨raw, rfl⟩ := hinv1.parser_kind e hp
          simp [stepIn, hp] at h3
        | none =>
          cases hs : st1.slot with
          | none => simp [stepIn, hp, hs] at h3
          | some e =>
            simp only [stepIn, hp, hs, Prod.mk.injEq, Option.some.injEq] at h3
            obtain ⟨_, rfl⟩ := h3
            have : cbKind .ctx := by
              have hh := hinv1.slot_head
              rw [hs] at hh
              cases hc : st1.cbErrs with
              | nil => rw [hc] at hh; simp at hh
              | cons a b =>
                rw [hc] at hh
                simp only [List.head?_cons, Option.some.injEq] at hh
                subst hh
                exact hinv1.cb_kinds _ (by rw [hc]; exact List.mem_cons_self)
            exact absurd this not_cbKind_ctx
      · -- the poll let the run go on: nothing was pending
        have hp1 : st1.parserErr = none := by
          cases hp : st1.parserErr with
          | some e => simp [stepIn, hp] at h3
          | none => rfl
        have hs1 : st1.slot = none := by
          cases hs : st1.slot with
          | some e => simp [stepIn, hp1, hs] at h3
          | none => rfl
        have hst2 : st2 = st1 := by
          simp only [stepIn, hp1, hs1, Prod.mk.injEq] at h3
          exact h3.1.symm
        subst hst2
        have hcb : st2.cbErrs = [] := by
          have := hinv1.slot_head
          rw [hs1] at this
          cases hc : st2.cbErrs with
          | nil => rfl
          | cons a b => rw [hc] at this; simp at this
        exact ih st2 k2 hinv1 hcb hp1 h4

/-- an invalid login stops the processor with the validation error -/
theorem invalid_login_stops (c : Cfg) (st : AP.St) (l : Login) (h : l.valid = false) :
    (stepIn c st (.login l)).2 = some (.login .badLogin) := by
  simp [stepIn, Tr.remoteLogin, h]

/-- … and any error of the correlator on a login is `Read`'s result -/
theorem login_error_stops (c : Cfg) (st : AP.St) (l : Login) (e : Tr.Err)
    (h : (Tr.remoteLogin st.tr l).2 = some e) : (stepIn c st (.login l)).2 = some (.login e) := by
  simp [stepIn, h]

/-- a correlator failure inside the callback is recorded (and is in the slot unless an earlier
error already is) -/
theorem correlator_error_noted (a : Time) (st : AP.St) (g : List Rec) (ev : AEvent) (e : Tr.Err)
    (hc : coalesce g = some ev) (ha : ¬ ev.ts < a) (he : (Tr.audit st.tr ev st.clock).2 = some e) :
    (callback a st g).cbErrs = st.cbErrs ++ [.cb e] ∧
    (callback a st g).slot = st.slot.orElse (fun _ => some (.cb e)) := by
  simp [callback, hc, ha, he, noteErr]

theorem coalesce_error_noted (a : Time) (st : AP.St) (g : List Rec) (hc : coalesce g = none) :
    (callback a st g).cbErrs = st.cbErrs ++ [.coalesce] ∧
    (callback a st g).slot = st.slot.orElse (fun _ => some .coalesce) := by
  simp [callback, hc, noteErr]

/-! ### conservation -/

/-- **Every pushed record is in exactly one place.** Per sequence number: the groups handed to the
callback, concatenated, followed by what is in flight, is exactly the list of non-EOE records
pushed, in arrival order — at every point of every run. -/
theorem conservation (c : Cfg) (ins : List In) (s : AP.St) (r : Option PErr) (k : Nat)
    (hrun : runCore c {} ins = (s, r, k)) (q : Nat) :
    s.delivered.flatten.filter (fun x => decide (x.seq = q)) ++ inflight s.fl q =
      s.pushed.filter (fun x => decide (x.seq = q) && (x.kind != .eoe)) := by
  have := cons_runCore c ins {} cons_init
  rw [hrun] at this
  exact this.bal q

/-- when `Read` returns, the table is flushed: nothing stays in flight -/
theorem flushed_at_return (c : Cfg) (ins : List In) (s : AP.St) (e : PErr) (k : Nat)
    (hrun : AP.run c {} ins = (s, some e, k)) (q : Nat) :
    s.fl = [] ∧
    s.delivered.flatten.filter (fun x => decide (x.seq = q)) =
      s.pushed.filter (fun x => decide (x.seq = q) && (x.kind != .eoe)) := by
  unfold AP.run at hrun
  generalize hc : runCore c {} ins = x at hrun
  obtain ⟨s1, r1, k1⟩ := x
  have h1 := cons_runCore c ins {} cons_init
  rw [hc] at h1
  cases r1 with
  | none => simp at hrun
  | some e1 =>
    simp only [Prod.mk.injEq] at hrun
    obtain ⟨rfl, _, _⟩ := hrun
    obtain ⟨h2, h3⟩ := cons_close c s1 h1
    refine ⟨h3, ?_⟩
    have := h2.bal q
    rw [h3] at this
    simpa [inflight] using this

/-- counting form: a non-EOE record was handed to the callback as often as it was pushed once the
table is flushed — never more, never less -/
theorem every_record_in_one_group (c : Cfg) (ins : List In) (s : AP.St) (e : PErr) (k : Nat)
    (hrun : AP.run c {} ins = (s, some e, k)) (x : Rec) (hx : x.kind ≠ .eoe) :
    s.delivered.flatten.count x = s.pushed.count x := by
  have h := (flushed_at_return c ins s e k hrun x.seq).2
  have h1 : (s.delivered.flatten.filter (fun y => decide (y.seq = x.seq))).count x = s.delivered.flatten.count x := by
    rw [List.count_filter]; simp
  have h2 : (s.pushed.filter (fun y => decide (y.seq = x.seq) && (y.kind != .eoe))).count x = s.pushed.count x := by
    rw [List.count_filter]; simp [hx]
  rw [← h1, ← h2, h]

/-- every group handed to the callback holds records of one sequence number only -/
theorem groups_uniform (c : Cfg) (ins : List In) (s : AP.St) (r : Option PErr) (k : Nat)
    (hrun : runCore c {} ins = (s, r, k)) :
    ∀ g ∈ s.delivered, ∀ x ∈ g, ∀ y ∈ g, x.seq = y.seq := by
  have := cons_runCore c ins {} cons_init
  rw [hrun] at this
  exact this.uniform

/-! ### grouping -/

/-- the grouping invariant of a state, conditional on what the theorem assumes about the run -/
def GrpIf (st : AP.St) : Prop := NoLate st.pushed → st.forced = false → GrpT st.fl st.delivered st.pushed

theorem grpIf_of_fields {st st' : AP.St} (h : GrpIf st) (h1 : st'.fl = st.fl) (h2 : st'.delivered = st.delivered)
    (h3 : st'.pushed = st.pushed) (h4 : st'.forced = st.forced) : GrpIf st' := by
  intro hn hf
  rw [h1, h2, h3]
  rw [h3] at hn
  rw [h4] at hf
  exact h hn hf

theorem grpIf_push (c : Cfg) (st : AP.St) (r : Rec) (hc : Cons st) (h : GrpIf st) : GrpIf (push c st r) := by
  unfold push
  obtain ⟨hw, _, _⟩ := put_spec st.fl r hc.wf
  obtain ⟨pre, h1, h2, h3, _⟩ := cleanUp_spec c.max false (put st.fl r)
  generalize hcu : cleanUp c.max false (put st.fl r) = res at h1 h2 h3
  obtain ⟨fl', out, forced⟩ := res
  simp only at h1 h2 h3 ⊢
  have hf := foldl_callback_fields c.after out
    { st with fl := fl', pushed := st.pushed ++ [r], forced := st.forced || forced }
  simp only at hf
  intro hn hforced
  rw [hf.1, hf.2.1, hf.2.2.1]
  rw [hf.2.1] at hn
  rw [hf.2.2.2.2] at hforced
  simp only [Bool.or_eq_false_iff] at hforced
  have hg := h hn.prefix hforced.1
  have hp := grpT_put r hc.wf hg hn
  rw [h1] at hw hp
  rw [h2]
  exact grpT_evict hw hp (h3 hforced.2)

theorem grpIf_expire (c : Cfg) (st : AP.St) (hc : Cons st) (h : GrpIf st) : GrpIf (stepIn c st .expire).1 := by
  simp only [stepIn]
  obtain ⟨pre, h1, h2, h3, _⟩ := cleanUp_spec c.max true st.fl
  generalize hcu : cleanUp c.max true st.fl = res at h1 h2 h3
  obtain ⟨fl', out, forced⟩ := res
  simp only at h1 h2 h3 ⊢
  have hf := foldl_callback_fields c.after out { st with fl := fl', forced := st.forced || forced }
  simp only at hf
  intro hn hforced
  rw [hf.1, hf.2.1, hf.2.2.1]
  rw [hf.2.1] at hn
  rw [hf.2.2.2.2] at hforced
  simp only [Bool.or_eq_false_iff] at hforced
  have hg := h hn hforced.1
  have hw := hc.wf
  rw [h1] at hw hg
  rw [h2]
  exact grpT_evict hw hg (h3 hforced.2)

theorem grpIf_stepIn (c : Cfg) (st : AP.St) (i : In) (hc : Cons st) (h : GrpIf st) : GrpIf (stepIn c st i).1 := by
  cases i with
  | line raw p =>
    simp only [stepIn]
    split
    · exact h
    · cases p with
      | none => exact grpIf_of_fields h rfl rfl rfl rfl
      | some r => exact grpIf_push c st r hc h
  | empty => exact h
  | login l => simp only [stepIn]; exact grpIf_of_fields h rfl rfl rfl rfl
  | tick t => simp only [stepIn]; exact grpIf_of_fields h rfl rfl rfl rfl
  | expire => exact grpIf_expire c st hc h
  | poll =>
    simp only [stepIn]
    split
    · exact h
    · exact grpIf_of_fields h rfl rfl rfl rfl
    · exact h
  | cancel => exact h

theorem grpIf_runCore (c : Cfg) (ins : List In) (st : AP.St) (hc : Cons st) (h : GrpIf st) :
    GrpIf (runCore c st ins).1 := by
  induction ins generalizing st with
  | nil => exact h
  | cons i rest ih =>
    simp only [runCore]
    have h1 := grpIf_stepIn c st i hc h
    have h2 := cons_stepIn c st i hc
    generalize stepIn c st i = r at h1 h2
    obtain ⟨st', e⟩ := r
    cases e with
    | some e => exact h1
    | none => exact ih st' h2 h1

/-- **Records of one kernel event form a single group, however they are interleaved with other
events.** If no non-EOE record of an event arrived after the record that ends it and nothing was
evicted by overflow or expiry, then when `Read` returns every group that was handed to the
callback is exactly the list of records of one kernel event (all of them, in order), and no two
groups belong to the same event. -/
theorem groups_are_whole_events (c : Cfg) (ins : List In) (s : AP.St) (e : PErr) (k : Nat)
    (hrun : AP.run c {} ins = (s, some e, k)) (hn : NoLate s.pushed) (hf : s.forced = false) :
    (∀ g ∈ s.delivered, g ≠ [] ∧
      g = s.pushed.filter (fun x => decide (x.seq = gseq g) && (x.kind != .eoe))) ∧
    (s.delivered.map gseq).Nodup := by
  have hflush := flushed_at_return c ins s e k hrun
  unfold AP.run at hrun
  generalize hc : runCore c {} ins = x at hrun
  obtain ⟨s1, r1, k1⟩ := x
  have hcons := cons_runCore c ins {} cons_init
  have hgrp := grpIf_runCore c ins {} cons_init (fun _ _ => grpT_init)
  rw [hc] at hcons hgrp
  cases r1 with
  | none => simp at hrun
  | some e1 =>
    simp only [Prod.mk.injEq] at hrun
    obtain ⟨rfl, _, _⟩ := hrun
    have hfields := foldl_callback_fields c.after (clear s1.fl) { s1 with fl := [] }
    simp only at hfields
    have hp : (close c s1).pushed = s1.pushed := hfields.2.1
    have hd : (close c s1).delivered = s1.delivered ++ s1.fl.map (·.2.msgs) := hfields.2.2.1
    have hfo : (close c s1).forced = s1.forced := hfields.2.2.2.2
    rw [hp] at hn
    rw [hfo] at hf
    have hg := hgrp hn hf
    obtain ⟨hne, hnd⟩ := grpT_flush hcons.wf hg
    rw [← hd] at hne hnd
    have hu := (cons_close c s1 hcons).1.uniform
    refine ⟨fun g hgm => ⟨hne g hgm, ?_⟩, hnd⟩
    rw [← (hflush (gseq g)).2]
    exact (flatten_filter_group _ hne hu hnd g hgm).symm

/-- in particular no kernel event is split: two groups never share a sequence number -/
theorem one_group_per_event (c : Cfg) (ins : List In) (s : AP.St) (e : PErr) (k : Nat)
    (hrun : AP.run c {} ins = (s, some e, k)) (hn : NoLate s.pushed) (hf : s.forced = false)
    (g₁ g₂ : List Rec) (h₁ : g₁ ∈ s.delivered) (h₂ : g₂ ∈ s.delivered) (hs : gseq g₁ = gseq g₂) : g₁ = g₂ := by
  obtain ⟨hall, _⟩ := groups_are_whole_events c ins s e k hrun hn hf
  rw [(hall g₁ h₁).2, (hall g₂ h₂).2, hs]

/-- without expiry inputs and with fewer distinct events than the table holds, nothing is evicted
by force — the hypothesis `forced = false` of the grouping theorem is met -/
theorem no_force_of_small (c : Cfg) (fl : List (Nat × Entry)) (h : fl.length ≤ c.max) :
    (cleanUp c.max false fl).2.2 = false := by
  obtain ⟨_, _, _, _, h4, _⟩ := cleanUp_spec c.max false fl
  exact h4 rfl h

/-! ### the hypotheses are met by a non-trivial run -/

def mkRec (tag seq : Nat) (k : Kind) (ses pid : String) : Rec :=
  { seq := seq, kind := k, tag := tag, ts := 1600000000 + seq, typ := if k = .single then .login else .other,
    ses := ses.toList, pidTok := pid.toList, result := "success".toList, args := if k = .execve then ["a".toList] else [] }

def demoLogin : Login :=
  { pid := 77, cred := "alice".toList, hasSource := true, subjects := [("userID", "alice".toList)],
    srcType := "IP".toList, srcValue := "10.0.0.1".toList, srcExtra := [], target := [], loggedAt := 0 }

/-- a login, the LOGIN record of its session, then the records of three kernel events (2, 3, 4)
interleaved round-robin, then a rejected line -/
def demo : List In :=
  [ .login demoLogin,
    .line [] (some (mkRec 0 1 .single "5" "77")),
    .line [] (some (mkRec 1 2 .syscall "5" "77")), .line [] (some (mkRec 2 3 .syscall "5" "77")),
    .line [] (some (mkRec 3 4 .syscall "5" "77")),
    .line [] (some (mkRec 4 2 .execve "" "")), .line [] (some (mkRec 5 3 .execve "" "")),
    .line [] (some (mkRec 6 4 .execve "" "")),
    .empty,
    .line [] (some (mkRec 7 2 .title "" "")), .line [] (some (mkRec 8 3 .eoe "" "")),
    .line [] (some (mkRec 9 4 .title "" "")), .line [] (some (mkRec 10 4 .eoe "" "")),
    .line "garbage".toList none ]

/-- executable form of `NoLate` -/
def noLateAux (pre : List Rec) : List Rec → Bool
  | [] => true
  | r :: post =>
    (r.kind == .eoe || pre.all (fun x => x.seq != r.seq || !closing x)) && noLateAux (pre ++ [r]) post

theorem noLateAux_sound (pre rs : List Rec) (h : noLateAux pre rs = true) :
    ∀ p r post, rs = p ++ r :: post → r.kind ≠ .eoe → ∀ x ∈ pre ++ p, x.seq = r.seq → closing x = false := by
  induction rs generalizing pre with
  | nil => intro p r post he; simp at he
  | cons a t ih =>
    simp only [noLateAux, Bool.and_eq_true, Bool.or_eq_true, beq_iff_eq, List.all_eq_true, bne_iff_ne,
      Bool.not_eq_eq_eq_not, Bool.not_true] at h
    intro p r post he hk x hx hs
    cases p with
    | nil =>
      simp only [List.nil_append, List.cons.injEq] at he
      obtain ⟨rfl, rfl⟩ := he
      rcases h.1 with h1 | h1
      · exact absurd h1 hk
      · simp only [List.append_nil] at hx
        rcases h1 x hx with h2 | h2
        · exact absurd hs h2
        · exact h2
    | cons b p' =>
      simp only [List.cons_append, List.cons.injEq] at he
      obtain ⟨rfl, rfl⟩ := he
      exact ih (pre ++ [a]) h.2 p' r post rfl hk x (by simpa [List.append_assoc] using hx) hs

theorem noLate_of_aux (rs : List Rec) (h : noLateAux [] rs = true) : NoLate rs := by
  intro p r post he hk x hx hs
  exact noLateAux_sound [] rs h p r post he hk x (by simpa using hx) hs

/-- the demo stream satisfies the hypothesis of the grouping theorem -/
example : NoLate (AP.run {} {} (polled demo ++ [.cancel])).1.pushed := noLate_of_aux _ (by decide)

/-- the demo run stops with the parse error naming the rejected line, after handing over four
groups (sizes 1, 3, 2, 3: the LOGIN record and the three interleaved events, each whole) and
writing four events; nothing was force-evicted -/
example :
    (AP.run {} {} (polled demo ++ [.cancel])).2.1 = some (.parse "garbage".toList) ∧
    (AP.run {} {} (polled demo ++ [.cancel])).1.forced = false ∧
    (AP.run {} {} (polled demo ++ [.cancel])).1.delivered.map (fun g => (gseq g, g.length)) = [(1, 1), (2, 3), (3, 2), (4, 3)] ∧
    (AP.run {} {} (polled demo ++ [.cancel])).1.tr.out.length = 4 ∧
    (AP.run {} {} (polled demo ++ [.cancel])).1.cbErrs = [] := by
  refine ⟨by decide, by decide, by decide, by decide, by decide⟩

end AM.C15
