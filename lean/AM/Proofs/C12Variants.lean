import AM.Proofs.C12
/-! C12: why the read loop must not give up on a read that has not finished. `bufio.Reader.ReadString` returns the
bytes it has consumed together with its error; a loop that sets a read deadline and simply tries again on
`os.ErrDeadlineExceeded` (to poll the context, or to log that the pipe is idle — both were proposed) throws the head
of the record away. In the model: a `timeout` input that clears the pending bytes. -/
namespace AM.C12V
open AM AM.Pipe

inductive PIn where
  | chunk (bs : Str)   -- the reader obtains more bytes
  | timeout            -- a read deadline fires while a record is incomplete
  deriving Repr

/-- the read loop with a deadline; `keep` = what is done with the bytes already consumed when the deadline fires -/
def feedT (keep : Bool) (d : Char) (st : PSt) : PIn → PSt
  | .chunk bs => feed d none st bs
  | .timeout => if keep then st else setPending st []

def runT (keep : Bool) (d : Char) (ins : List PIn) : List Str := (ins.foldl (feedT keep d) {}).out

def chunksOf : List PIn → List Str
  | [] => []
  | .chunk bs :: r => bs :: chunksOf r
  | .timeout :: r => chunksOf r

/-- a loop that keeps what it has read is the loop of the model, whenever the deadlines fire: the records delivered
are those of the byte stream (C12.run_eq_expected applies) -/
theorem keeping_is_harmless (d : Char) (ins : List PIn) :
    runT true d ins = (Pipe.run d none (chunksOf ins)).1 := by
  have key : ∀ (st : PSt), (ins.foldl (feedT true d) st).out = ((chunksOf ins).foldl (feed d none) st).out := by
    induction ins with
    | nil => intro st; rfl
    | cons i r ih =>
      intro st
      cases i with
      | chunk bs => simpa [feedT, chunksOf] using ih (feed d none st bs)
      | timeout => simpa [feedT, chunksOf] using ih st
  exact key {}

/-- dropping them is not: a writer that stalls in the middle of "hello world" makes the callback receive "world" -/
theorem dropping_loses_the_head :
    runT false '\n' [.chunk "first\nhello ".toList, .timeout, .chunk "world\n".toList] =
      ["first\n".toList, "world\n".toList] ∧
    runT true '\n' [.chunk "first\nhello ".toList, .timeout, .chunk "world\n".toList] =
      ["first\n".toList, "hello world\n".toList] := by
  constructor <;> decide

/-! ### a view into the reader's buffer is not a record

`ReadSlice` returns a slice OF the reader's internal buffer, valid until the next read. Two independent "save a copy"
rewrites kept the first fragment of a long record (the whole buffer, returned with `ErrBufferFull`), read the rest with
`ReadBytes` — which refills that very buffer — and only then copied the fragment (`append(frag, rest...)`). A pure
function cannot alias; the model below makes the buffer explicit: a view is an offset and a length, and it is READ when
it is copied. -/

/-- the reader: its buffer (capacity = its length) and the bytes of the stream not yet read -/
structure Rd where
  buf : Str
  todo : Str
  deriving Repr

/-- `fill` on an empty buffer: the next bytes of the stream overwrite the buffer from its start (what lies beyond
them stays as it was) -/
def Rd.fill (r : Rd) : Rd × Nat :=
  let k := min r.buf.length r.todo.length
  ({ buf := r.todo.take k ++ r.buf.drop k, todo := r.todo.drop k }, k)

/-- `ReadBytes(d)` after a full buffer: refill, COPY each fragment, until the delimiter (fuel: the stream's length) -/
def Rd.readBytes (d : Char) : Nat → Rd → Str → Rd × Str
  | 0, r, acc => (r, acc)
  | fuel + 1, r, acc =>
    let (r', k) := r.fill
    let got := r'.buf.take k
    match got.idxOf? d with
    | some i => ({ r' with todo := got.drop (i + 1) ++ r'.todo }, acc ++ got.take (i + 1))   -- (the unread tail goes back: it is still buffered)
    | none => if k = 0 then (r', acc ++ got) else Rd.readBytes d fuel r' (acc ++ got)

/-- a record longer than the buffer, read the way of the rewrite: the first fragment is a VIEW (offset 0, the whole
buffer), the rest is read, and then the view is copied in front of it -/
def recordByView (cap : Nat) (stream : Str) (d : Char) : Str :=
  let r0 : Rd := (({ buf := List.replicate cap ' ', todo := stream } : Rd).fill).1   -- ReadSlice filled the buffer: no delimiter in it
  let (r1, rest) := Rd.readBytes d stream.length r0 []
  r1.buf.take cap ++ rest        -- append(frag, rest...): the view is read NOW

/-- … and the way of `ReadString`: the fragment is copied when it is returned -/
def recordByCopy (cap : Nat) (stream : Str) (d : Char) : Str :=
  let r0 : Rd := (({ buf := List.replicate cap ' ', todo := stream } : Rd).fill).1
  let frag := r0.buf.take cap
  let (_, rest) := Rd.readBytes d stream.length r0 []
  frag ++ rest

/-- same length, same tail, wrong head: the record's first bytes have become bytes of its own end -/
theorem view_is_overwritten :
    recordByView 4 "abcdefghij\nnext".toList '\n' = "ij\nnefghij\n".toList ∧
    recordByCopy 4 "abcdefghij\nnext".toList '\n' = "abcdefghij\n".toList := by
  constructor <;> decide

end AM.C12V
