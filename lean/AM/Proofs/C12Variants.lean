import AM.Proofs.C12
/-! C12: why the read loop must not give up on a read that has not finished. `bufio.Reader.ReadString` returns the
bytes it has consumed together with its error; a loop that sets a read deadline and simply tries again on
`os.ErrDeadlineExceeded` (to poll the context, or to log that the pipe is idle — both were proposed) throws the head
of the record away. In the model: a `timeout` input that clears the pending bytes. -/
namespace AM.C12V
open AM AM.Pipe

inductive PIn where
  | chunk (bs : Str)   -- the reader obtains more bytes
  | timeout            -- a read deadline fires while a record is incomplete
  deriving Repr

/-- the read loop with a deadline; `keep` = what is done with the bytes already consumed when the deadline fires -/
def feedT (keep : Bool) (d : Char) (st : PSt) : PIn → PSt
  | .chunk bs => feed d none st bs
  | .timeout => if keep then st else setPending st []

def runT (keep : Bool) (d : Char) (ins : List PIn) : List Str := (ins.foldl (feedT keep d) {}).out

def chunksOf : List PIn → List Str
  | [] => []
  | .chunk bs :: r => bs :: chunksOf r
  | .timeout :: r => chunksOf r

/-- a loop that keeps what it has read is the loop of the model, whenever the deadlines fire: the records delivered
are those of the byte stream (C12.run_eq_expected applies) -/
theorem keeping_is_harmless (d : Char) (ins : List PIn) :
    runT true d ins = (Pipe.run d none (chunksOf ins)).1 := by
  have key : ∀ (st : PSt), (ins.foldl (feedT true d) st).out = ((chunksOf ins).foldl (feed d none) st).out := by
    induction ins with
    | nil => intro st; rfl
    | cons i r ih =>
      intro st
      cases i with
      | chunk bs => simpa [feedT, chunksOf] using ih (feed d none st bs)
      | timeout => simpa [feedT, chunksOf] using ih st
  exact key {}

/-- dropping them is not: a writer that stalls in the middle of "hello world" makes the callback receive "world" -/
theorem dropping_loses_the_head :
    runT false '\n' [.chunk "first\nhello ".toList, .timeout, .chunk "world\n".toList] =
      ["first\n".toList, "world\n".toList] ∧
    runT true '\n' [.chunk "first\nhello ".toList, .timeout, .chunk "world\n".toList] =
      ["first\n".toList, "hello world\n".toList] := by
  constructor <;> decide

end AM.C12V
