import AM.Spec.Sshd
import AM.Rx.Find
/-! Structural analysis of `Sshd.process` for EVERY line: the number of captures a match returns,
the shapes of what each entry function emits, and the four shapes an observation can have
(`process_shape`). C05, C11 and C19 are corollaries. -/
namespace AM.Rx

/-- number of capturing repetitions of an item list -/
def nCaps : List Item → Nat
  | [] => 0
  | .rep _ _ true :: is => nCaps is + 1
  | _ :: is => nCaps is

theorem parse_caps_length {is e s caps r} (h : Parse is e s caps r) : caps.length = nCaps is := by
  induction h with
  | nilOpen s => rfl
  | nilEnd => rfl
  | lit _ ih => simpa [nCaps] using ih
  | one _ _ ih => simpa [nCaps] using ih
  | @rep c mn cap is e s caps r x _ _ _ ih =>
    cases cap <;> simp [nCaps, ih]

theorem matchItems_caps_length (is : List Item) (e : Bool) (s : Str) (caps : List Str) (r : Str)
    (h : matchItems is e s = some (caps, r)) : caps.length = nCaps is :=
  parse_caps_length (sound _ _ _ _ _ h)

theorem findFrom_caps_length (items : List Item) (e : Bool) :
    ∀ (fuel off : Nat) (s : Str) (o l : Nat) (caps : List Str),
      findFrom items e fuel off s = some (o, l, caps) → caps.length = nCaps items := by
  intro fuel
  induction fuel with
  | zero => intro off s o l caps h; simp [findFrom] at h
  | succ n ih =>
    intro off s o l caps h
    simp only [findFrom] at h
    split at h
    · rename_i caps' rest hm
      simp only [Option.some.injEq, Prod.mk.injEq] at h
      obtain ⟨_, _, rfl⟩ := h
      exact matchItems_caps_length _ _ _ _ _ hm
    · split at h
      · cases h
      · exact ih _ _ _ _ _ h

theorem find_caps_length (p : Pat) (s : Str) (o l : Nat) (caps : List Str)
    (h : find p s = some (o, l, caps)) : caps.length = nCaps p.items := by
  simp only [find] at h
  split at h
  · cases hm : matchItems p.items p.anchE s with
    | none => simp [hm] at h
    | some res =>
      simp only [hm, Option.map_some, Option.some.injEq, Prod.mk.injEq] at h
      obtain ⟨_, _, rfl⟩ := h
      exact matchItems_caps_length _ _ _ _ _ hm
  · exact findFrom_caps_length _ _ _ _ _ _ _ _ h

end AM.Rx

namespace AM.Sshd
open AM AM.Rx AM.Spec AM.Gen

/-! ### shapes of what the entry functions emit -/

def toInc (mo : String × String) : Eff := .inc mo.1 mo.2

/-- the fields of an event that do not depend on the line -/
def Fixed (cfg : Cfg) (e : Ev) : Prop :=
  e.target = target cfg ∧ e.component = "sshd" ∧ e.typ = "UserLogin"

theorem fixed_loginEv (cfg : Cfg) (oc : String) (sv : Str) (se su da me : SMap) :
    Fixed cfg (loginEv cfg oc sv se su da me) := ⟨rfl, rfl, rfl⟩

/-- entry functions that only ever report failed logins: nothing, or the increments `pre`
(`Q pre`) and one write of a failed event -/
inductive FShape (cfg : Cfg) (ok : Bool) (Q : List (String × String) → Prop) : Out → Prop
  | nothing : FShape cfg ok Q ⟨[], .nil⟩
  | wr (pre : List (String × String)) (e : Ev) : Q pre → Fixed cfg e → e.outcome = "failed" →
      FShape cfg ok Q ⟨pre.map toInc ++ [.write e ok], if ok then .nil else .err⟩

/-- entry functions for accepted logins: nothing, or `writeAndSend` of a succeeded event with the
line's PID and the event's `userID` -/
inductive SShape (cfg : Cfg) (pid : Str) (ok : Bool) (h : Handoff) (Q : List (String × String) → Prop) :
    Out → Prop
  | nothing : SShape cfg pid ok h Q ⟨[], .nil⟩
  | ws (pre : List (String × String)) (e : Ev) (n : Int) (c : Str) : Q pre → Fixed cfg e →
      e.outcome = "succeeded" → atoi pid = some n → aLookup "userID" e.subjects = some c →
      SShape cfg pid ok h Q (writeAndSend (pre.map toInc) e ok h n c)

theorem simple_shape (p : Pat) (mk : Cfg → Str → List Str → Ev)
    (hmk : ∀ cfg pid caps, Fixed cfg (mk cfg pid caps) ∧ (mk cfg pid caps).outcome = "failed")
    (cfg : Cfg) (pid line : Str) (ok : Bool) (h : Handoff) :
    FShape cfg ok (· = []) (simple p mk cfg pid line ok h) := by
  simp only [simple]
  split
  · exact .nothing
  · rename_i caps _
    have := FShape.wr (cfg := cfg) (ok := ok) (Q := (· = [])) [] (mk cfg pid caps) rfl
      (hmk cfg pid caps).1 (hmk cfg pid caps).2
    simpa [writeOnly] using this

theorem userFrom_shape (p : Pat) (cfg : Cfg) (pid line : Str) (ok : Bool) (h : Handoff) :
    FShape cfg ok (· = []) (userFrom p cfg pid line ok h) :=
  simple_shape _ _ (fun _ _ _ => ⟨fixed_loginEv .., rfl⟩) ..

theorem userShell_shape (p : Pat) (cfg : Cfg) (pid line : Str) (ok : Bool) (h : Handoff) :
    FShape cfg ok (· = []) (userShell p cfg pid line ok h) :=
  simple_shape _ _ (fun _ _ _ => ⟨fixed_loginEv .., rfl⟩) ..

theorem srcPort_shape (p : Pat) (la : List Str → Str) (cfg : Cfg) (pid line : Str) (ok : Bool) (h : Handoff) :
    FShape cfg ok (· = []) (srcPort p la cfg pid line ok h) :=
  simple_shape _ _ (fun _ _ _ => ⟨fixed_loginEv .., rfl⟩) ..

theorem dnsForm_shape (p : Pat) (cfg : Cfg) (pid line : Str) (ok : Bool) (h : Handoff) :
    FShape cfg ok (· = []) (dnsForm p cfg pid line ok h) :=
  simple_shape _ _ (fun _ _ _ => ⟨fixed_loginEv .., rfl⟩) ..

theorem revokedForm_shape (p : Pat) (cfg : Cfg) (pid line : Str) (ok : Bool) (h : Handoff) :
    FShape cfg ok (· = []) (revokedForm p cfg pid line ok h) :=
  simple_shape _ _ (fun _ _ _ => ⟨fixed_loginEv .., rfl⟩) ..

theorem badOwner_shape (cfg : Cfg) (pid line : Str) (ok : Bool) (h : Handoff) :
    FShape cfg ok (· = []) (badOwner cfg pid line ok h) :=
  simple_shape _ _ (fun _ _ _ => ⟨fixed_loginEv .., rfl⟩) ..

theorem certificateInvalid_shape (cfg : Cfg) (pid line : Str) (ok : Bool) (h : Handoff) :
    FShape cfg ok (· = [("ssh-cert", "failure")]) (certificateInvalid cfg pid line ok h) := by
  simp only [certificateInvalid, writeOnly]
  exact FShape.wr [("ssh-cert", "failure")] _ rfl (fixed_loginEv ..) rfl

theorem invalidUser_shape (cfg : Cfg) (pid line : Str) (ok : Bool) (h : Handoff) :
    FShape cfg ok (· = [("unknown", "failure")]) (invalidUser cfg pid line ok h) := by
  simp only [invalidUser]
  split
  · exact .nothing
  · rename_i o l caps hf
    have hl := find_caps_length _ _ _ _ _ hf
    simp only [invalidUserRE, nCaps] at hl
    match caps, hl with
    | [a, b, c], _ =>
      have g1 : invalidUserRE.group "Username" [a, b, c] = some a := by simp [Pat.group, invalidUserRE, lookupCap]
      have g2 : invalidUserRE.group "Source" [a, b, c] = some b := by simp [Pat.group, invalidUserRE, lookupCap]
      have g3 : invalidUserRE.group "Port" [a, b, c] = some c := by simp [Pat.group, invalidUserRE, lookupCap]
      simp only [g1, g2, g3, writeOnly]
      exact FShape.wr [("unknown", "failure")] _ rfl (fixed_loginEv ..) rfl

theorem acceptedPassword_shape (cfg : Cfg) (pid line : Str) (ok : Bool) (h : Handoff) :
    SShape cfg pid ok h (· = []) (acceptedPassword cfg pid line ok h) := by
  simp only [acceptedPassword]
  split
  · exact .nothing
  · rename_i n hn
    split
    · exact .nothing
    · exact SShape.ws [] _ n unknown rfl (fixed_loginEv ..) rfl hn
        (by simp [loginEv, subj3, aLookup])

def keyPre (pre : List (String × String)) : Prop :=
  pre = [("ssh-key", "success")] ∨ pre = [("ssh-cert", "success")]

theorem incAt_key0S : incAt "processAcceptPublicKeyEntry" 0 = [("ssh-key", "success")].map toInc := by decide
theorem incAt_key1 : incAt "processAcceptPublicKeyEntry" 1 = [("ssh-cert", "success")].map toInc := by decide
theorem incAt_key2S : incAt "processAcceptPublicKeyEntry" 2 = [("ssh-cert", "success")].map toInc := by decide

theorem acceptPublicKey_shape (cfg : Cfg) (pid line : Str) (ok : Bool) (h : Handoff) :
    SShape cfg pid ok h keyPre (acceptPublicKey cfg pid line ok h) := by
  simp only [acceptPublicKey]
  split
  · exact .nothing
  · rename_i o mlen caps hf
    split
    · exact .nothing
    · rename_i n hn
      have hl := find_caps_length _ _ _ _ _ hf
      simp only [loginRE, nCaps] at hl
      match caps, hl with
      | [a, b, c, d, e], _ =>
        have g1 : loginRE.group "Username" [a, b, c, d, e] = some a := by simp [Pat.group, loginRE, lookupCap]
        have g2 : loginRE.group "Source" [a, b, c, d, e] = some b := by simp [Pat.group, loginRE, lookupCap]
        have g3 : loginRE.group "Port" [a, b, c, d, e] = some c := by simp [Pat.group, loginRE, lookupCap]
        have g4 : loginRE.group "Alg" [a, b, c, d, e] = some d := by simp [Pat.group, loginRE, lookupCap]
        have g5 : loginRE.group "SSHKeySum" [a, b, c, d, e] = some e := by simp [Pat.group, loginRE, lookupCap]
        simp only [g1, g2, g3, g4, g5]
        split
        · rw [incAt_key0S]
          exact SShape.ws _ _ n unknown (Or.inl rfl) (fixed_loginEv ..) rfl hn
            (by simp [loginEv, aLookup])
        · split
          · rw [incAt_key1]
            exact SShape.ws _ _ n unknown (Or.inr rfl) (fixed_loginEv ..) rfl hn
              (by simp [loginEv, aLookup])
          · rename_i o2 l2 idCaps hf2
            have hl2 := find_caps_length _ _ _ _ _ hf2
            simp only [certIDRE, nCaps] at hl2
            match idCaps, hl2 with
            | [x, y, z], _ =>
              have k1 : certIDRE.group "UserID" [x, y, z] = some x := by simp [Pat.group, certIDRE, lookupCap]
              have k2 : certIDRE.group "Serial" [x, y, z] = some y := by simp [Pat.group, certIDRE, lookupCap]
              have k3 : certIDRE.group "CA" [x, y, z] = some z := by simp [Pat.group, certIDRE, lookupCap]
              simp only [k1, k2, k3]
              rw [incAt_key2S]
              exact SShape.ws _ _ n x (Or.inr rfl) (fixed_loginEv ..) rfl hn
                (by simp [loginEv, aLookup])

end AM.Sshd

namespace AM.Sshd
open AM AM.Rx AM.Spec AM.Gen

/-! ### keywords -/

/-- the literal a line must start with for the condition to hold -/
def _root_.AM.Gen.Cond.kw : Cond → Option Str
  | .pfx s => some s
  | .re p => if p.anchS then (match p.items with | .lit l :: _ => some l | _ => none) else none

theorem _root_.AM.Gen.Cond.kw_prefix (c : Cond) (k line : Str) (hk : c.kw = some k)
    (h : c.holds line = true) : k.isPrefixOf line = true := by
  cases c with
  | pfx s => simp only [Cond.kw, Option.some.injEq] at hk; subst hk; exact h
  | re p =>
    simp only [Cond.kw] at hk
    split at hk
    · rename_i hs
      split at hk
      · rename_i l is hi
        simp only [Option.some.injEq] at hk; subst hk
        cases hp : List.isPrefixOf l line with
        | true => rfl
        | false =>
          have := isMatch_false_of_lit p l is line hs hi hp
          simp only [Cond.holds] at h
          rw [this] at h; cases h
      · cases hk
    · cases hk

theorem dispatch_kw : dispatch.all (fun c => match c.cond.kw with
    | some k => keywords.contains k | none => false) = true := by decide

theorem holds_hasKeyword (c : DCase) (line : Str) (hc : c ∈ dispatch) (h : c.cond.holds line = true) :
    hasKeyword line = true := by
  have := List.all_eq_true.mp dispatch_kw c hc
  split at this
  · rename_i k hk
    simp only [hasKeyword, List.any_eq_true]
    exact ⟨k, by simpa using this, Cond.kw_prefix _ _ _ hk h⟩
  · cases this

theorem firstCase_some {t : List DCase} {line : Str} {c : DCase} (h : firstCase t line = some c) :
    c ∈ t ∧ c.cond.holds line = true :=
  ⟨List.mem_of_find?_eq_some h, by simpa using List.find?_some h⟩

/-! ### the shapes of an observation of `process` -/

def MethodOK (line : Str) (m : String) : Prop :=
  ((s "Accepted password").isPrefixOf line = true ∧ m = "password") ∨
  ((s "Accepted publickey").isPrefixOf line = true ∧ (m = "ssh-key" ∨ m = "ssh-cert"))

/-- the single increment `(m, oc)` that accompanies a written event `e` (only lines with a keyword
produce events) -/
def Label (line : Str) (e : Ev) (m oc : String) : Prop :=
  (oc = "success" ↔ e.outcome = "succeeded") ∧ (oc = "success" ∨ oc = "failure") ∧
  (e.outcome = "succeeded" → MethodOK line m) ∧ hasKeyword line = true

/-- the only shapes an observation can have -/
inductive Shape (cfg : Cfg) (pid line : Str) (ok : Bool) (h : Handoff) : Out → Prop
  | quiet (is : List (String × String)) : (hasKeyword line = false → is = []) →
      Shape cfg pid line ok h ⟨is.map toInc, .nil⟩
  | wfail (m oc : String) (e : Ev) : Fixed cfg e → Label line e m oc → ok = false →
      Shape cfg pid line ok h ⟨[.inc m oc, .write e false], .err⟩
  | wok (m oc : String) (e : Ev) : Fixed cfg e → Label line e m oc → ok = true →
      (e.outcome = "succeeded" → h = .cancel) →
      Shape cfg pid line ok h ⟨[.inc m oc, .write e true], .nil⟩
  | wsend (m oc : String) (e : Ev) (n : Int) (c : Str) : Fixed cfg e → Label line e m oc → ok = true →
      h = .ready → e.outcome = "succeeded" → atoi pid = some n →
      aLookup "userID" e.subjects = some c →
      Shape cfg pid line ok h ⟨[.inc m oc, .write e true, .send n c], .nil⟩

theorem shape_of_fshape {cfg : Cfg} {pid line : Str} {ok : Bool} {h : Handoff}
    {Q : List (String × String) → Prop} {o : Out} (hk : hasKeyword line = true)
    (is : List (String × String)) (hs : FShape cfg ok Q o)
    (hQ : ∀ pre, Q pre → ∃ m, is ++ pre = [(m, "failure")]) :
    Shape cfg pid line ok h ⟨is.map toInc ++ o.effs, o.res⟩ := by
  cases hs with
  | nothing =>
    simp only [List.append_nil]
    exact .quiet is (by intro h0; rw [hk] at h0; cases h0)
  | wr pre e hq hfix hout =>
    obtain ⟨m, hm⟩ := hQ pre hq
    have hl : Label line e m "failure" := by
      refine ⟨?_, Or.inr rfl, ?_, hk⟩
      · rw [hout]; decide
      · rw [hout]; intro h0; exact absurd h0 (by decide)
    have he : is.map toInc ++ (pre.map toInc ++ [Eff.write e ok]) =
        [.inc m "failure", .write e ok] := by
      rw [← List.append_assoc, ← List.map_append, hm]; rfl
    simp only [he]
    cases ok with
    | false => exact .wfail m "failure" e hfix hl rfl
    | true =>
      exact .wok m "failure" e hfix hl rfl (by rw [hout]; intro h0; exact absurd h0 (by decide))

theorem shape_of_sshape {cfg : Cfg} {pid line : Str} {ok : Bool} {h : Handoff}
    {Q : List (String × String) → Prop} {o : Out} (hk : hasKeyword line = true)
    (is : List (String × String)) (hs : SShape cfg pid ok h Q o)
    (hQ : ∀ pre, Q pre → ∃ m, is ++ pre = [(m, "success")] ∧ MethodOK line m) :
    Shape cfg pid line ok h ⟨is.map toInc ++ o.effs, o.res⟩ := by
  cases hs with
  | nothing =>
    simp only [List.append_nil]
    exact .quiet is (by intro h0; rw [hk] at h0; cases h0)
  | ws pre e n c hq hfix hout hn hc =>
    obtain ⟨m, hm, hmeth⟩ := hQ pre hq
    have hl : Label line e m "success" := ⟨by simp [hout], Or.inl rfl, fun _ => hmeth, hk⟩
    have he : ∀ tl, is.map toInc ++ (pre.map toInc ++ tl) = .inc m "success" :: tl := by
      intro tl
      rw [← List.append_assoc, ← List.map_append, hm]; rfl
    cases ok with
    | false =>
      simp only [writeAndSend, Bool.not_false, if_true, he]
      exact .wfail m "success" e hfix hl rfl
    | true =>
      cases h with
      | ready =>
        simp only [writeAndSend, Bool.not_true, Bool.false_eq_true, if_false, he]
        exact .wsend m "success" e n c hfix hl rfl rfl hout hn hc
      | cancel =>
        simp only [writeAndSend, Bool.not_true, Bool.false_eq_true, if_false, he]
        exact .wok m "success" e hfix hl rfl (fun _ => rfl)

end AM.Sshd

namespace AM.Sshd
open AM AM.Rx AM.Spec AM.Gen

theorem incEffs_eq (c : DCase) : incEffs c = c.incs.map toInc := rfl

/-- every case of `userTypeLogAuditFn` has a modelled entry function that only reports failures -/
theorem userDispatch_entry (u : DCase) (hu : u ∈ userDispatch) :
    u.incs = [] ∧ ∃ f, entryOf u.fn = some f ∧
      ∀ cfg pid line ok h, FShape cfg ok (· = []) (f cfg pid line ok h) := by
  simp only [userDispatch, List.mem_cons, List.not_mem_nil, or_false] at hu
  rcases hu with rfl | rfl | rfl | rfl | rfl | rfl | rfl
  · exact ⟨rfl, _, rfl, fun _ _ _ _ _ => userFrom_shape ..⟩
  · exact ⟨rfl, _, rfl, fun _ _ _ _ _ => userShell_shape ..⟩
  · exact ⟨rfl, _, rfl, fun _ _ _ _ _ => userShell_shape ..⟩
  · exact ⟨rfl, _, rfl, fun _ _ _ _ _ => userFrom_shape ..⟩
  · exact ⟨rfl, _, rfl, fun _ _ _ _ _ => userFrom_shape ..⟩
  · exact ⟨rfl, _, rfl, fun _ _ _ _ _ => userFrom_shape ..⟩
  · exact ⟨rfl, _, rfl, fun _ _ _ _ _ => userFrom_shape ..⟩

/-- what each non-`User ` case of `ProcessEntry` does -/
inductive CaseKind (c : DCase) (f : EntryFn) : Prop
  | key : c.cond = .pfx (s "Accepted publickey") → c.incs = [] →
      (∀ cfg pid line ok h, SShape cfg pid ok h keyPre (f cfg pid line ok h)) → CaseKind c f
  | password : c.cond = .pfx (s "Accepted password") → c.incs = [("password", "success")] →
      (∀ cfg pid line ok h, SShape cfg pid ok h (· = []) (f cfg pid line ok h)) → CaseKind c f
  | failing (Q : List (String × String) → Prop) :
      (∀ pre, Q pre → ∃ m, c.incs ++ pre = [(m, "failure")]) →
      (∀ cfg pid line ok h, FShape cfg ok Q (f cfg pid line ok h)) → CaseKind c f

theorem dispatch_entry (c : DCase) (hc : c ∈ dispatch) (hn : c.fn ≠ "userTypeLogAuditFn()") :
    ∃ f, entryOf c.fn = some f ∧ CaseKind c f := by
  simp only [dispatch, List.mem_cons, List.not_mem_nil, or_false] at hc
  rcases hc with rfl | rfl | rfl | rfl | rfl | rfl | rfl | rfl | rfl | rfl | rfl | rfl | rfl | rfl
  · exact ⟨_, rfl, .key rfl rfl fun _ _ _ _ _ => acceptPublicKey_shape ..⟩
  · exact ⟨_, rfl, .password rfl rfl fun _ _ _ _ _ => acceptedPassword_shape ..⟩
  · exact ⟨_, rfl, .failing _ (by rintro _ rfl; exact ⟨_, rfl⟩)
      fun _ _ _ _ _ => certificateInvalid_shape ..⟩
  · exact ⟨_, rfl, .failing _ (by rintro _ rfl; exact ⟨_, rfl⟩)
      fun _ _ _ _ _ => invalidUser_shape ..⟩
  · exact absurd rfl hn
  · exact ⟨_, rfl, .failing _ (by rintro _ rfl; exact ⟨_, rfl⟩) fun _ _ _ _ _ => srcPort_shape ..⟩
  · exact ⟨_, rfl, .failing _ (by rintro _ rfl; exact ⟨_, rfl⟩) fun _ _ _ _ _ => badOwner_shape ..⟩
  · exact ⟨_, rfl, .failing _ (by rintro _ rfl; exact ⟨_, rfl⟩) fun _ _ _ _ _ => dnsForm_shape ..⟩
  · exact ⟨_, rfl, .failing _ (by rintro _ rfl; exact ⟨_, rfl⟩) fun _ _ _ _ _ => dnsForm_shape ..⟩
  · exact ⟨_, rfl, .failing _ (by rintro _ rfl; exact ⟨_, rfl⟩) fun _ _ _ _ _ => dnsForm_shape ..⟩
  · exact ⟨_, rfl, .failing _ (by rintro _ rfl; exact ⟨_, rfl⟩) fun _ _ _ _ _ => srcPort_shape ..⟩
  · exact ⟨_, rfl, .failing _ (by rintro _ rfl; exact ⟨_, rfl⟩) fun _ _ _ _ _ => revokedForm_shape ..⟩
  · exact ⟨_, rfl, .failing _ (by rintro _ rfl; exact ⟨_, rfl⟩) fun _ _ _ _ _ => revokedForm_shape ..⟩
  · exact ⟨_, rfl, .failing _ (by rintro _ rfl; exact ⟨_, rfl⟩) fun _ _ _ _ _ => srcPort_shape ..⟩

theorem user_case_incs (c : DCase) (hc : c ∈ dispatch) (hn : c.fn = "userTypeLogAuditFn()") :
    c.incs = [("unknown", "failure")] := by
  simp only [dispatch, List.mem_cons, List.not_mem_nil, or_false] at hc
  rcases hc with rfl | rfl | rfl | rfl | rfl | rfl | rfl | rfl | rfl | rfl | rfl | rfl | rfl | rfl <;>
    first | rfl | exact absurd hn (by decide)

/-- **the shape theorem**: whatever the line, the observation has one of the four shapes -/
theorem process_shape (cfg : Cfg) (pid line : Str) (ok : Bool) (h : Handoff) :
    Shape cfg pid line ok h (process cfg pid line ok h) := by
  simp only [process]
  split
  · exact .quiet [] (fun _ => rfl)
  · rename_i c hfc
    obtain ⟨hc, hholds⟩ := firstCase_some hfc
    have hk := holds_hasKeyword c line hc hholds
    have hnk : hasKeyword line = false → ∀ is : List (String × String), is = [] := by
      intro h0; rw [hk] at h0; cases h0
    split
    · rename_i hn
      have hci := user_case_incs c hc hn
      split
      · exact .quiet c.incs (fun h0 => hnk h0 _)
      · rename_i u hfu
        obtain ⟨hu, _⟩ := firstCase_some hfu
        obtain ⟨hui, f, hf, hsh⟩ := userDispatch_entry u hu
        simp only [hf, incEffs_eq, hui, List.map_nil, List.append_nil]
        exact shape_of_fshape hk c.incs (hsh cfg pid line ok h)
          (by rintro _ rfl; exact ⟨_, by rw [hci]; rfl⟩)
    · rename_i hn
      obtain ⟨f, hf, kind⟩ := dispatch_entry c hc hn
      simp only [hf, incEffs_eq]
      cases kind with
      | key hcond hi hsh =>
        refine shape_of_sshape hk c.incs (hsh cfg pid line ok h) ?_
        have hp : (s "Accepted publickey").isPrefixOf line = true := by
          simpa [hcond, Cond.holds] using hholds
        rintro pre (rfl | rfl)
        · exact ⟨_, by rw [hi]; rfl, Or.inr ⟨hp, Or.inl rfl⟩⟩
        · exact ⟨_, by rw [hi]; rfl, Or.inr ⟨hp, Or.inr rfl⟩⟩
      | password hcond hi hsh =>
        refine shape_of_sshape hk c.incs (hsh cfg pid line ok h) ?_
        have hp : (s "Accepted password").isPrefixOf line = true := by
          simpa [hcond, Cond.holds] using hholds
        rintro pre rfl
        exact ⟨_, by rw [hi]; rfl, Or.inl ⟨hp, rfl⟩⟩
      | failing Q hQ hsh => exact shape_of_fshape hk c.incs (hsh cfg pid line ok h) hQ

end AM.Sshd

namespace AM.Sshd
open AM AM.Rx AM.Spec AM.Gen

/-! ### projections of an increments-only trace -/

theorem writes_incs (is : List (String × String)) (r : Res) : writes ⟨is.map toInc, r⟩ = [] := by
  induction is with
  | nil => rfl
  | cons a t ih => simp [writes, toInc]

theorem sends_incs (is : List (String × String)) (r : Res) : sends ⟨is.map toInc, r⟩ = [] := by
  induction is with
  | nil => rfl
  | cons a t ih => simp [sends, toInc]

theorem incs_incs (is : List (String × String)) (r : Res) : incs ⟨is.map toInc, r⟩ = is := by
  induction is with
  | nil => rfl
  | cons a t ih => simpa [incs, toInc] using ih

theorem sendsFollowSuccess_incs (is : List (String × String)) :
    sendsFollowSuccess (is.map toInc) = true := by
  induction is with
  | nil => rfl
  | cons a t ih => simpa [sendsFollowSuccess, toInc] using ih

/-- the two accept keywords exclude each other -/
theorem accept_prefixes_disjoint (line : Str) (h1 : (s "Accepted password").isPrefixOf line = true)
    (h2 : (s "Accepted publickey").isPrefixOf line = true) : False := by
  obtain ⟨t, rfl⟩ := List.isPrefixOf_iff_prefix.mp h1
  simp [s] at h2

end AM.Sshd
