import AM.Proofs.C10Daemon
import AM.Proofs.C07
import AM.Proofs.C07Audit
/-! The assembled daemon fed with BYTES: whatever pieces the two pipes deliver their byte streams in, the
sshd pipeline sees the (PID, message) pairs of the framed records and the audit pipeline sees lines that split
as the bare audit lines do — so `C10D.end_to_end` applies to the daemon as it is wired in `RunNamedPipe`:
pipe ingester ∘ syslog ingester ∘ sshd processor on one side, pipe ingester ∘ audit log ingester ∘ audit
processor on the other. (Composition of C12, C07 and C10D; no new model.) -/
namespace AM.C10B
open AM AM.C07 AM.Dm

/-- what the sshd pipeline is given: every record the pipe ingester delivers, parsed by the syslog ingester -/
def sshdTodoOfPipe (chunks : List Str) : List (Str × Str × Bool) :=
  (Pipe.run '\n' none chunks).1.map fun rec => ((Syslog.parse rec).1, (Syslog.parse rec).2, true)

theorem sshdTodo_of_frames (recs : List (Str × Str × Str)) (chunks : List Str)
    (hwf : ∀ r ∈ recs, WfRec r) (hc : chunks.flatten = (recs.map frame).flatten) :
    sshdTodoOfPipe chunks = recs.map fun r => (r.1, r.2.2, true) := by
  have hframes : ∀ f ∈ recs.map frame, ∃ body, f = body ++ ['\n'] ∧ '\n' ∉ body := by
    intro f hf
    obtain ⟨r, hr, rfl⟩ := List.mem_map.mp hf
    obtain ⟨_, h2, _, h4, h5, _⟩ := hwf r hr
    refine ⟨r.1 ++ r.2.1 ++ r.2.2, rfl, ?_⟩
    intro hm
    simp only [List.mem_append] at hm
    rcases hm with (hm | hm) | hm
    · exact h2 hm
    · have := h4 _ hm; cases this
    · exact h5 hm
  unfold sshdTodoOfPipe
  rw [AM.C12.run_eq_expected, hc]
  simp only [Pipe.expected, records_of_frames '\n' _ hframes, List.map_map]
  apply List.map_congr_left
  intro r hr
  obtain ⟨h1, _, h3, h4, _, h6⟩ := hwf r hr
  have := parse_framed r.1 r.2.1 r.2.2 h1 h3 h4 h6
  simp only [Function.comp, frame, this]

/-- **End to end, from bytes.** The sshd pipe carries framed records (any chunking); whatever the audit side
is fed and whatever the schedule, every UserAction in the output is preceded by the UserLogin event written for
one of those records, carries exactly that event's identity, and belongs to a session opened by a LOGIN record
with that record's PID. -/
theorem end_to_end_bytes (cfg : Sshd.Cfg) (f : Option Nat) (c : AP.Cfg)
    (recs : List (Str × Str × Str)) (chunks : List Str)
    (hwf : ∀ r ∈ recs, WfRec r) (hc : chunks.flatten = (recs.map frame).flatten)
    (ins : List AP.In) (sched : List Act) (pre post : List Item) (em : Tr.Emitted)
    (hout : (Dm.run cfg c { sshdTodo := sshdTodoOfPipe chunks, auditTodo := ins, ap := { tr := { failAt := f } } } sched).out =
      pre ++ .action em :: post) :
    ∃ r ∈ recs, ∃ e n cr,
      sentOf (Sshd.process cfg r.1 r.2.2 true .ready).effs = some (e, n, cr) ∧
      e.outcome = "succeeded" ∧ atoi r.1 = some n ∧
      Item.sshd e ∈ pre ∧ em.login = loginOf e n cr := by
  obtain ⟨e, pid, msg, n, cr, hin, hsent, hsucc, hatoi, hpre, hlogin, _⟩ :=
    AM.C10D.end_to_end cfg f c (sshdTodoOfPipe chunks) ins sched pre post em hout
  rw [sshdTodo_of_frames recs chunks hwf hc] at hin
  obtain ⟨r, hr, heq⟩ := List.mem_map.mp hin
  simp only [Prod.mk.injEq, and_true] at heq
  obtain ⟨h1, h2⟩ := heq
  subst h1 h2
  exact ⟨r, hr, e, n, cr, hsent, hsucc, hatoi, hpre, hlogin⟩

end AM.C10B
