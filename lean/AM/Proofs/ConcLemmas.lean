import AM.Model.Conc
/-! Lemmas for C03: the mutual-exclusion / serialisation invariant `Inv` of the concurrency model,
and the bookkeeping invariant `InvP` (ghost log = interleaving of the executed prefixes of the
programs). -/
namespace AM.Conc

variable {S L : Type}

/-! ### list helpers -/

theorem set_self_of_getElem? {α : Type} : ∀ {l : List α} {i : Nat} {a : α}, l[i]? = some a → l.set i a = l
  | [], _, _, h => by simp at h
  | x :: l, 0, a, h => by simp at h; subst h; rfl
  | x :: l, i+1, a, h => by
      simp at h
      simp [set_self_of_getElem? h]

theorem perm_flatten_set {α : Type} : ∀ (l : List (List α)) (i : Nat) (a : α) (td : List α),
    l[i]? = some (a :: td) → (a :: (l.set i td).flatten).Perm l.flatten
  | [], _, _, _, h => by simp at h
  | x :: l, 0, a, td, h => by simp at h; subst h; simp
  | x :: l, i+1, a, td, h => by
      simp at h
      have ih := perm_flatten_set l i a td h
      simp only [List.set_cons_succ, List.flatten_cons]
      exact (List.perm_middle.symm).trans (List.Perm.append_left x ih)

theorem flatten_eq_nil_of_all_nil {α : Type} : ∀ (l : List (List α)), (∀ x ∈ l, x = []) → l.flatten = []
  | [], _ => rfl
  | x :: l, h => by
      have hx : x = [] := h x (by simp)
      have := flatten_eq_nil_of_all_nil l (fun y hy => h y (by simp [hy]))
      simp [hx, this]

theorem lt_length_of_getElem? {α : Type} {l : List α} {i : Nat} {a : α} (h : l[i]? = some a) : i < l.length := by
  rcases Nat.lt_or_ge i l.length with h' | h'
  · exact h'
  · simp [List.getElem?_eq_none h'] at h

/-! ### the mutual-exclusion / serialisation invariant (ported from the spike) -/

/-- what the shared state must be, given the ghost log and who (if anyone) is mid-operation -/
def Inv (s0 : S) (sys : Sys S L) : Prop :=
  match sys.g with
  | none => (∀ t ∈ sys.thr, t.cur = none) ∧ sys.sh = sys.log.foldl applyOp s0
  | some h =>
      ∃ t r loc pre op, sys.thr[h]? = some t ∧ t.cur = some (r, loc) ∧
        (∀ j t', j ≠ h → sys.thr[j]? = some t' → t'.cur = none) ∧
        sys.log = pre ++ [op] ∧
        runBody r sys.sh loc = applyOp (pre.foldl applyOp s0) op

theorem inv_step (s0 : S) (sys : Sys S L) (i : Nat) (h : Inv s0 sys) : Inv s0 (step sys i) := by
  unfold step
  split
  · exact h
  · rename_i t ht
    split
    · -- idle thread
      rename_i hcur
      split
      · exact h
      · rename_i op rest htodo
        split
        · exact h
        · rename_i hg
          -- acquire
          simp only [Inv, hg] at h
          simp only [Inv]
          have hi : i < sys.thr.length := lt_length_of_getElem? ht
          refine ⟨⟨rest, some (op.body, op.init)⟩, op.body, op.init, sys.log, op, ?_, rfl, ?_, rfl, ?_⟩
          · simp [hi]
          · intro j t' hj hjt
            rw [List.getElem?_set_ne (Ne.symm hj)] at hjt
            exact h.1 t' (List.mem_of_getElem? hjt)
          · rw [h.2]; rfl
    · -- release
      rename_i loc hcur
      simp only [Inv]
      cases hg : sys.g with
      | none =>
        simp only [Inv, hg] at h
        have := h.1 t (List.mem_of_getElem? ht)
        rw [hcur] at this; cases this
      | some hh =>
        simp only [Inv, hg] at h
        obtain ⟨t0, r, loc0, pre, op, ht0, hc0, hothers, hlog, hrun⟩ := h
        by_cases hih : i = hh
        · subst hih
          rw [ht] at ht0; cases ht0
          rw [hcur] at hc0; cases hc0
          refine ⟨?_, ?_⟩
          · intro t' ht'
            obtain ⟨j, hj, hjt⟩ := List.getElem_of_mem ht'
            have hj' : j < sys.thr.length := by simpa using hj
            by_cases hji : j = i
            · subst hji; simp at hjt; rw [← hjt]
            · have : (sys.thr.set i ⟨t.todo, none⟩)[j]? = sys.thr[j]? := List.getElem?_set_ne (Ne.symm hji)
              have h2 : sys.thr[j]? = some t' := by rw [← this]; simp [List.getElem?_eq_getElem hj, hjt]
              exact hothers j t' hji h2
          · rw [hlog, List.foldl_append]; simpa [runBody] using hrun
        · have := hothers i t hih ht
          rw [hcur] at this; cases this
    · -- body instruction
      rename_i ins r loc hcur
      cases hg : sys.g with
      | none =>
        simp only [Inv, hg] at h
        have := h.1 t (List.mem_of_getElem? ht)
        rw [hcur] at this; cases this
      | some hh =>
        simp only [Inv, hg] at h ⊢
        obtain ⟨t0, r0, loc0, pre, op, ht0, hc0, hothers, hlog, hrun⟩ := h
        by_cases hih : i = hh
        · subst hih
          rw [ht] at ht0; cases ht0
          rw [hcur] at hc0; cases hc0
          have hi : i < sys.thr.length := lt_length_of_getElem? ht
          refine ⟨⟨t.todo, some (r, (execInstr sys.sh loc ins).2)⟩, r, _, pre, op, ?_, rfl, ?_, hlog, ?_⟩
          · simp [hi]
          · intro j t' hj hjt
            rw [List.getElem?_set_ne (Ne.symm hj)] at hjt
            exact hothers j t' hj hjt
          · simpa [runBody] using hrun
        · have := hothers i t hih ht
          rw [hcur] at this; cases this

theorem inv_run (s0 : S) (sys : Sys S L) (sched : List Nat) (h : Inv s0 sys) : Inv s0 (runSched sys sched) := by
  induction sched generalizing sys with
  | nil => exact h
  | cons i r ih => exact ih (step sys i) (inv_step s0 sys i h)

theorem inv_start (s0 : S) (progs : List (List (Op S L))) : Inv s0 (start s0 progs) := by
  simp only [Inv, start]
  refine ⟨?_, rfl⟩
  intro t ht
  obtain ⟨p, _, rfl⟩ := List.mem_map.1 ht
  rfl

theorem inv_reach (s0 : S) (progs : List (List (Op S L))) (sched : List Nat) :
    Inv s0 (runSched (start s0 progs) sched) := inv_run s0 _ sched (inv_start s0 progs)

/-- a thread in the middle of an operation holds the mutex -/
theorem inv_cur_holder {s0 : S} {sys : Sys S L} (h : Inv s0 sys) {i : Nat} {t : Thr S L}
    (ht : sys.thr[i]? = some t) (hc : t.cur ≠ none) : sys.g = some i := by
  cases hg : sys.g with
  | none =>
    simp only [Inv, hg] at h
    exact absurd (h.1 t (List.mem_of_getElem? ht)) hc
  | some hh =>
    simp only [Inv, hg] at h
    obtain ⟨t0, r, loc0, pre, op, ht0, hc0, hothers, hlog, hrun⟩ := h
    by_cases hih : i = hh
    · rw [hih]
    · exact absurd (hothers i t hih ht) hc

/-- the holder of the mutex exists and is in the middle of an operation -/
theorem inv_holder {s0 : S} {sys : Sys S L} (h : Inv s0 sys) {hh : Nat} (hg : sys.g = some hh) :
    ∃ t r loc, sys.thr[hh]? = some t ∧ t.cur = some (r, loc) := by
  simp only [Inv, hg] at h
  obtain ⟨t0, r, loc0, pre, op, ht0, hc0, _⟩ := h
  exact ⟨t0, r, loc0, ht0, hc0⟩

theorem inv_free {s0 : S} {sys : Sys S L} (h : Inv s0 sys) (hg : sys.g = none) :
    (∀ t ∈ sys.thr, t.cur = none) ∧ sys.sh = sys.log.foldl applyOp s0 := by
  simpa only [Inv, hg] using h

theorem allDone_free {s0 : S} {sys : Sys S L} (h : Inv s0 sys) (hd : allDone sys) : sys.g = none := by
  cases hg : sys.g with
  | none => rfl
  | some hh =>
    obtain ⟨t, r, loc, ht, hc⟩ := inv_holder h hg
    have := (hd t (List.mem_of_getElem? ht)).1
    rw [hc] at this; cases this

/-! ### step equations -/

theorem step_acquire {sys : Sys S L} {i : Nat} {t : Thr S L} {op : Op S L} {rest : List (Op S L)}
    (ht : sys.thr[i]? = some t) (hc : t.cur = none) (htd : t.todo = op :: rest) (hg : sys.g = none) :
    step sys i = { sys with g := some i, thr := sys.thr.set i ⟨rest, some (op.body, op.init)⟩,
                            log := sys.log ++ [op] } := by
  obtain ⟨todo, cur⟩ := t
  simp only at hc htd; subst hc; subst htd
  simp only [step, ht, hg]

theorem step_release {sys : Sys S L} {i : Nat} {t : Thr S L} {loc : L}
    (ht : sys.thr[i]? = some t) (hc : t.cur = some ([], loc)) :
    step sys i = { sys with g := none, thr := sys.thr.set i ⟨t.todo, none⟩ } := by
  obtain ⟨todo, cur⟩ := t
  simp only at hc; subst hc
  simp only [step, ht]

theorem step_instr {sys : Sys S L} {i : Nat} {t : Thr S L} {ins : Instr S L} {r : List (Instr S L)} {loc : L}
    (ht : sys.thr[i]? = some t) (hc : t.cur = some (ins :: r, loc)) :
    step sys i = { sys with sh := (execInstr sys.sh loc ins).1,
                            thr := sys.thr.set i ⟨t.todo, some (r, (execInstr sys.sh loc ins).2)⟩ } := by
  obtain ⟨todo, cur⟩ := t
  simp only at hc; subst hc
  simp only [step, ht]

/-! ### bookkeeping: the log against the programs -/

/-- what each thread still has to start -/
def todos (sys : Sys S L) : List (List (Op S L)) := sys.thr.map (·.todo)

/-- a step either leaves the log and the remaining programs alone, or moves the head of thread
`i`'s remaining program to the end of the log -/
theorem step_todos (sys : Sys S L) (i : Nat) :
    ((step sys i).log = sys.log ∧ todos (step sys i) = todos sys) ∨
    ∃ op rest, (todos sys)[i]? = some (op :: rest) ∧ (step sys i).log = sys.log ++ [op] ∧
      todos (step sys i) = (todos sys).set i rest := by
  have hself : ∀ (t : Thr S L) c, sys.thr[i]? = some t →
      (sys.thr.set i ⟨t.todo, c⟩).map (·.todo) = sys.thr.map (·.todo) := by
    intro t c ht
    rw [List.map_set]
    exact set_self_of_getElem? (by simp [ht])
  unfold step
  split
  · left; exact ⟨rfl, rfl⟩
  · rename_i t ht
    split
    · split
      · left; exact ⟨rfl, rfl⟩
      · rename_i op rest htodo
        split
        · left; exact ⟨rfl, rfl⟩
        · right
          refine ⟨op, rest, ?_, rfl, ?_⟩
          · simp [todos, ht, htodo]
          · simp [todos, List.map_set]
    · left; exact ⟨rfl, hself t _ ht⟩
    · left; exact ⟨rfl, hself t _ ht⟩

/-- the programs are `progs.map (·.map f)`; `order` = the tags of the logged operations, `rem` = the
tags of what each thread has still to start -/
def InvP {α : Type} (f : α → Op S L) (progs : List (List α)) (log : List (Op S L))
    (tds : List (List (Op S L))) : Prop :=
  ∃ (order : List α) (rem : List (List α)),
    log = order.map f ∧ tds = rem.map (·.map f) ∧
    (order ++ rem.flatten).Perm progs.flatten ∧
    ∀ (k : Nat) (p : List α), progs[k]? = some p → ∃ (d td : List α), rem[k]? = some td ∧ d ++ td = p ∧ List.Sublist d order

theorem invP_acquire {α : Type} {f : α → Op S L} {progs : List (List α)} {log : List (Op S L)}
    {tds : List (List (Op S L))} {i : Nat} {op : Op S L} {rest : List (Op S L)}
    (h : InvP f progs log tds) (hi : tds[i]? = some (op :: rest)) :
    InvP f progs (log ++ [op]) (tds.set i rest) := by
  obtain ⟨order, rem, hl, ht, hperm, hsub⟩ := h
  subst hl; subst ht
  rw [List.getElem?_map] at hi
  cases hri : rem[i]? with
  | none => rw [hri] at hi; cases hi
  | some td =>
    rw [hri] at hi
    simp only [Option.map_some, Option.some.injEq] at hi
    cases td with
    | nil => cases hi
    | cons a td' =>
      simp only [List.map_cons, List.cons.injEq] at hi
      obtain ⟨ha, htd'⟩ := hi
      refine ⟨order ++ [a], rem.set i td', ?_, ?_, ?_, ?_⟩
      · simp [ha]
      · simp [List.map_set, htd']
      · have h1 : (order ++ [a] ++ (rem.set i td').flatten).Perm (order ++ rem.flatten) := by
          rw [List.append_assoc]
          exact List.Perm.append_left order (perm_flatten_set rem i a td' hri)
        exact h1.trans hperm
      · intro k p hk
        obtain ⟨d, td, hrk, hdp, hds⟩ := hsub k p hk
        by_cases hki : k = i
        · subst hki
          rw [hri] at hrk; cases hrk
          refine ⟨d ++ [a], td', ?_, ?_, ?_⟩
          · simp [lt_length_of_getElem? hri]
          · rw [← hdp]; simp
          · exact List.Sublist.append hds (List.Sublist.refl _)
        · refine ⟨d, td, ?_, hdp, ?_⟩
          · rw [List.getElem?_set_ne (Ne.symm hki)]; exact hrk
          · exact hds.trans (List.sublist_append_left order [a])

theorem invP_step {α : Type} (f : α → Op S L) (progs : List (List α)) (sys : Sys S L) (i : Nat)
    (h : InvP f progs sys.log (todos sys)) : InvP f progs (step sys i).log (todos (step sys i)) := by
  rcases step_todos sys i with ⟨h1, h2⟩ | ⟨op, rest, h0, h1, h2⟩
  · rw [h1, h2]; exact h
  · rw [h1, h2]; exact invP_acquire h h0

theorem invP_run {α : Type} (f : α → Op S L) (progs : List (List α)) (sys : Sys S L) (sched : List Nat)
    (h : InvP f progs sys.log (todos sys)) :
    InvP f progs (runSched sys sched).log (todos (runSched sys sched)) := by
  induction sched generalizing sys with
  | nil => exact h
  | cons i r ih => exact ih (step sys i) (invP_step f progs sys i h)

theorem invP_start {α : Type} (f : α → Op S L) (progs : List (List α)) (s0 : S) :
    InvP f progs (start s0 (progs.map (·.map f))).log (todos (start s0 (progs.map (·.map f)))) := by
  refine ⟨[], progs, rfl, ?_, by simp, ?_⟩
  · simp [todos, start, Function.comp_def]
  · intro k p hk
    exact ⟨[], p, hk, rfl, List.Sublist.refl _⟩

theorem invP_reach {α : Type} (f : α → Op S L) (progs : List (List α)) (s0 : S) (sched : List Nat) :
    let fin := runSched (start s0 (progs.map (·.map f))) sched
    InvP f progs fin.log (todos fin) :=
  invP_run f progs _ sched (invP_start f progs s0)

/-- every logged operation comes from the programs -/
theorem invP_mem {α : Type} {f : α → Op S L} {progs : List (List α)} {log : List (Op S L)}
    {tds : List (List (Op S L))} (h : InvP f progs log tds) :
    ∀ op ∈ log, ∃ a ∈ progs.flatten, f a = op := by
  obtain ⟨order, rem, hl, _, hperm, _⟩ := h
  intro op hop
  rw [hl] at hop
  obtain ⟨a, ha, rfl⟩ := List.mem_map.1 hop
  exact ⟨a, hperm.subset (List.mem_append_left _ ha), rfl⟩

/-- when nothing remains to be started, the log is an interleaving of the programs -/
theorem invP_done {α : Type} {f : α → Op S L} {progs : List (List α)} {log : List (Op S L)}
    {tds : List (List (Op S L))} (h : InvP f progs log tds) (hd : ∀ td ∈ tds, td = []) :
    ∃ order : List α, log = order.map f ∧ order.Perm progs.flatten ∧
      ∀ (k : Nat) (p : List α), progs[k]? = some p → List.Sublist p order := by
  obtain ⟨order, rem, hl, ht, hperm, hsub⟩ := h
  have hrem : ∀ td ∈ rem, td = [] := by
    intro td htd
    have : td.map f ∈ tds := by rw [ht]; exact List.mem_map.2 ⟨td, htd, rfl⟩
    exact List.map_eq_nil_iff.1 (hd _ this)
  refine ⟨order, hl, ?_, ?_⟩
  · rw [flatten_eq_nil_of_all_nil rem hrem, List.append_nil] at hperm
    exact hperm
  · intro k p hk
    obtain ⟨d, td, hrk, hdp, hds⟩ := hsub k p hk
    have := hrem td (List.mem_of_getElem? hrk)
    subst this
    rw [List.append_nil] at hdp
    rw [← hdp]; exact hds

theorem allDone_todos {sys : Sys S L} (hd : allDone sys) : ∀ td ∈ todos sys, td = [] := by
  intro td htd
  obtain ⟨t, ht, rfl⟩ := List.mem_map.1 htd
  exact (hd t ht).2

end AM.Conc
