import AM.Proofs.SshdInfix
/-! C11 for EVERY line: an event is written only for a line that begins with a recognised keyword,
and every value extracted into the event is a verbatim substring of the line (or what
`encoding/json` makes of one) or one of the fixed placeholders. -/
namespace AM.C11P
open AM AM.Rx AM.Spec AM.Gen AM.Sshd

/-! ### the dispatch table and the keyword list -/

/-- the literal a dispatch condition demands at the start of the line -/
def condKeyword : Cond → Option Str
  | .pfx s => some s
  | .re p => if p.anchS then
      (match p.items with
       | .lit l :: _ => some l
       | _ => none) else none

/-- every case of `ProcessEntry` is a prefix test for a keyword, or an anchored expression whose
first literal is a keyword -/
theorem keywords_cover_dec : ∀ c ∈ dispatch, ∃ k, condKeyword c.cond = some k ∧ k ∈ keywords := by
  decide

theorem condKeyword_spec (c : Cond) (k : Str) (hk : condKeyword c = some k) :
    c = .pfx k ∨ ∃ p is, c = .re p ∧ p.anchS = true ∧ p.items = .lit k :: is := by
  cases c with
  | pfx s0 =>
    simp only [condKeyword, Option.some.injEq] at hk
    subst hk; exact Or.inl rfl
  | re p =>
    simp only [condKeyword] at hk
    split at hk
    · rename_i hs
      split at hk
      · rename_i l is hi
        cases hk
        exact Or.inr ⟨p, is, rfl, hs, hi⟩
      · cases hk
    · cases hk

/-- the same, spelled out: every case is `.pfx s` with `s ∈ keywords`, or `.re p` with `p`
start-anchored and its first item a literal in `keywords` -/
theorem keywords_cover : ∀ c ∈ dispatch,
    (∃ s, c.cond = .pfx s ∧ s ∈ keywords) ∨
    (∃ p l is, c.cond = .re p ∧ p.anchS = true ∧ p.items = .lit l :: is ∧ l ∈ keywords) := by
  intro c hc
  obtain ⟨k, hk, hkw⟩ := keywords_cover_dec c hc
  rcases condKeyword_spec _ _ hk with h | ⟨p, is, h1, h2, h3⟩
  · exact Or.inl ⟨k, h, hkw⟩
  · exact Or.inr ⟨p, k, is, h1, h2, h3, hkw⟩

theorem condKeyword_prefix (c : Cond) (k line : Str) (hk : condKeyword c = some k)
    (hh : c.holds line = true) : k.isPrefixOf line = true := by
  rcases condKeyword_spec _ _ hk with rfl | ⟨p, is, rfl, hs, hi⟩
  · exact hh
  · exact isMatch_lit_prefix p _ is line hs hi hh

theorem firstCase_some {t : List DCase} {line : Str} {c : DCase} (h : firstCase t line = some c) :
    c ∈ t ∧ c.cond.holds line = true := by
  unfold firstCase at h
  exact ⟨List.mem_of_find?_eq_some h, by simpa using List.find?_some h⟩

theorem hasKeyword_of_case {line : Str} {c : DCase} (h : firstCase dispatch line = some c) :
    hasKeyword line = true := by
  obtain ⟨hm, hh⟩ := firstCase_some h
  obtain ⟨k, hk, hkw⟩ := keywords_cover_dec c hm
  simp only [hasKeyword, List.any_eq_true]
  exact ⟨k, hkw, condKeyword_prefix _ _ _ hk hh⟩

theorem writes_nil (r : Res) : writes ⟨[], r⟩ = [] := rfl

theorem keyword (cfg : Cfg) (pid line : Str) (ok : Bool) (h : Handoff) :
    writes (process cfg pid line ok h) ≠ [] → hasKeyword line = true := by
  intro hw
  cases hc : firstCase dispatch line with
  | none => simp [process, hc, writes] at hw
  | some c => exact hasKeyword_of_case hc

/-! ### provenance -/

/-- where a field value may come from -/
def Prov (cfg : Cfg) (pid line v : Str) : Prop :=
  v ∈ placeholders cfg pid ∨ ∃ t, t <:+: line ∧ (v = t ∨ v = jsonCoerce t)

def EvOK (cfg : Cfg) (pid line : Str) (e : Ev) : Prop := ∀ v ∈ evValues e, Prov cfg pid line v

def OutOK (cfg : Cfg) (pid line : Str) (o : Out) : Prop :=
  ∀ e b, (e, b) ∈ writes o → EvOK cfg pid line e

theorem prov_infix {cfg : Cfg} {pid line v : Str} (h : v <:+: line) : Prov cfg pid line v :=
  Or.inr ⟨v, h, Or.inl rfl⟩

theorem prov_json {cfg : Cfg} {pid line t : Str} (h : t <:+: line) : Prov cfg pid line (jsonCoerce t) :=
  Or.inr ⟨t, h, Or.inr rfl⟩

theorem prov_unknown {cfg : Cfg} {pid line : Str} : Prov cfg pid line unknown :=
  Or.inl (by simp [placeholders])

theorem prov_pid {cfg : Cfg} {pid line : Str} : Prov cfg pid line pid :=
  Or.inl (by simp [placeholders])

theorem prov_root {cfg : Cfg} {pid line : Str} : Prov cfg pid line (strOf "root") :=
  Or.inl (by simp [placeholders, Spec.s, strOf])

theorem prov_certInvalid {cfg : Cfg} {pid line : Str} : Prov cfg pid line (strOf "certificate invalid") :=
  Or.inl (by simp [placeholders, Spec.s, strOf])

theorem jsonCoerce_unknownReason : jsonCoerce (strOf "unknown reason") = strOf "unknown reason" := by
  decide

theorem prov_unknownReason {cfg : Cfg} {pid line : Str} :
    Prov cfg pid line (jsonCoerce (strOf "unknown reason")) := by
  rw [jsonCoerce_unknownReason]
  exact Or.inl (by simp [placeholders, Spec.s, strOf])

theorem prov_grp {cfg : Cfg} {pid line : Str} (p : Pat) (caps : List Str) (name : String)
    (hc : ∀ c ∈ caps, c <:+: line) : Prov cfg pid line (grp p caps name) := by
  unfold grp
  cases hg : p.group name caps with
  | none => exact prov_infix (by simp)
  | some c => exact prov_infix (hc c (group_mem p name caps c hg))

/-! writes of the output shapes -/

def isInc : Eff → Bool
  | .inc _ _ => true
  | _ => false

theorem mem_writes {o : Out} {e : Ev} {b : Bool} : (e, b) ∈ writes o ↔ Eff.write e b ∈ o.effs := by
  simp only [writes, List.mem_filterMap]
  constructor
  · rintro ⟨x, hx, hm⟩
    cases x <;> simp at hm
    obtain ⟨rfl, rfl⟩ := hm
    exact hx
  · intro h
    exact ⟨_, h, rfl⟩

theorem incEffs_inc (c : DCase) : ∀ x ∈ incEffs c, isInc x = true := by
  intro x hx
  simp only [incEffs, List.mem_map] at hx
  obtain ⟨_, _, rfl⟩ := hx
  rfl

theorem incAt_inc (fn : String) (i : Nat) : ∀ x ∈ incAt fn i, isInc x = true := by
  intro x hx
  unfold incAt at hx
  split at hx
  · simp only [List.mem_singleton] at hx; subst hx; rfl
  · cases hx

theorem outOK_nil {cfg : Cfg} {pid line : Str} (r : Res) : OutOK cfg pid line ⟨[], r⟩ := by
  intro e b h; cases h

theorem outOK_pre {cfg : Cfg} {pid line : Str} (pre effs : List Eff) (r r' : Res)
    (hp : ∀ x ∈ pre, isInc x = true) (h : OutOK cfg pid line ⟨effs, r'⟩) :
    OutOK cfg pid line ⟨pre ++ effs, r⟩ := by
  intro e b hm
  rw [mem_writes] at hm
  rcases List.mem_append.mp hm with hm | hm
  · cases hp _ hm
  · exact h e b (mem_writes.mpr hm)

theorem outOK_single {cfg : Cfg} {pid line : Str} (e : Ev) (ok : Bool) (r : Res) (tl : List Eff)
    (ht : ∀ x ∈ tl, ∀ e' b', x ≠ .write e' b')
    (h : EvOK cfg pid line e) : OutOK cfg pid line ⟨.write e ok :: tl, r⟩ := by
  intro e' b hm
  rw [mem_writes] at hm
  rcases List.mem_cons.mp hm with hm | hm
  · cases hm; exact h
  · exact absurd rfl (ht _ hm e' b)

theorem outOK_writeOnly {cfg : Cfg} {pid line : Str} (e : Ev) (ok : Bool) (h : EvOK cfg pid line e) :
    OutOK cfg pid line (writeOnly e ok) :=
  outOK_single e ok _ [] (by intro x hx; cases hx) h

theorem outOK_writeAndSend {cfg : Cfg} {pid line : Str} (pre : List Eff) (e : Ev) (ok : Bool)
    (hd : Handoff) (n : Int) (cred : Str) (hp : ∀ x ∈ pre, isInc x = true)
    (h : EvOK cfg pid line e) : OutOK cfg pid line (writeAndSend pre e ok hd n cred) := by
  unfold writeAndSend
  split
  · exact outOK_pre pre _ _ .err hp (outOK_single e _ _ [] (by intro x hx; cases hx) h)
  · split
    · refine outOK_pre pre _ _ .nil hp (outOK_single e _ _ _ ?_ h)
      intro x hx e' b'
      simp only [List.mem_singleton] at hx
      subst hx; intro h'; cases h'
    · exact outOK_pre pre _ _ .nil hp (outOK_single e _ _ [] (by intro x hx; cases hx) h)


/-! ### the entry functions -/

theorem simple_ok {cfg : Cfg} {pid line : Str} (p : Pat) (mk : Cfg → Str → List Str → Ev) (ok : Bool)
    (h : Handoff)
    (H : ∀ caps, (∀ c ∈ caps, c <:+: line) → EvOK cfg pid line (mk cfg pid caps)) :
    OutOK cfg pid line (simple p mk cfg pid line ok h) := by
  unfold simple
  split
  · exact outOK_nil _
  · rename_i o l caps hf
    exact outOK_writeOnly _ _ (H caps (find_caps_infix p line o l caps hf))

/-- reduce `EvOK` of a concrete event to a conjunction over its values -/
macro "ev_split" : tactic => `(tactic|
  (unfold EvOK
   simp only [evValues, loginEv, subj3, List.cons_append, List.nil_append, List.append_nil,
     List.map_cons, List.map_nil, List.mem_cons, List.not_mem_nil, or_false, forall_eq_or_imp,
     forall_eq]))

theorem userFrom_ok {cfg : Cfg} {pid line : Str} (p : Pat) (ok : Bool) (h : Handoff) :
    OutOK cfg pid line (userFrom p cfg pid line ok h) := by
  apply simple_ok
  intro caps hc
  ev_split
  exact ⟨prov_grp _ _ _ hc, prov_grp _ _ _ hc, prov_pid, prov_unknown⟩

theorem userShell_ok {cfg : Cfg} {pid line : Str} (p : Pat) (ok : Bool) (h : Handoff) :
    OutOK cfg pid line (userShell p cfg pid line ok h) := by
  apply simple_ok
  intro caps hc
  ev_split
  exact ⟨prov_unknown, prov_grp _ _ _ hc, prov_pid, prov_unknown, prov_grp _ _ _ hc⟩

theorem srcPort_ok {cfg : Cfg} {pid line : Str} (p : Pat) (la : List Str → Str) (ok : Bool) (h : Handoff)
    (hla : ∀ caps, (∀ c ∈ caps, c <:+: line) → Prov cfg pid line (la caps)) :
    OutOK cfg pid line (srcPort p la cfg pid line ok h) := by
  apply simple_ok
  intro caps hc
  ev_split
  exact ⟨prov_grp _ _ _ hc, prov_grp _ _ _ hc, hla caps hc, prov_pid, prov_unknown⟩

theorem dnsForm_ok {cfg : Cfg} {pid line : Str} (p : Pat) (ok : Bool) (h : Handoff) :
    OutOK cfg pid line (dnsForm p cfg pid line ok h) := by
  apply simple_ok
  intro caps hc
  ev_split
  exact ⟨prov_grp _ _ _ hc, prov_grp _ _ _ hc, prov_unknown, prov_pid, prov_unknown⟩

theorem revokedForm_ok {cfg : Cfg} {pid line : Str} (p : Pat) (ok : Bool) (h : Handoff) :
    OutOK cfg pid line (revokedForm p cfg pid line ok h) := by
  apply simple_ok
  intro caps hc
  ev_split
  exact ⟨prov_unknown, prov_grp _ _ _ hc, prov_grp _ _ _ hc, prov_grp _ _ _ hc, prov_unknown, prov_pid,
    prov_unknown⟩

theorem badOwner_ok {cfg : Cfg} {pid line : Str} (ok : Bool) (h : Handoff) :
    OutOK cfg pid line (badOwner cfg pid line ok h) := by
  apply simple_ok
  intro caps hc
  ev_split
  exact ⟨prov_unknown, prov_grp _ _ _ hc, prov_grp _ _ _ hc, prov_pid, prov_unknown⟩

theorem acceptedPassword_ok {cfg : Cfg} {pid line : Str} (ok : Bool) (h : Handoff) :
    OutOK cfg pid line (acceptedPassword cfg pid line ok h) := by
  unfold acceptedPassword
  split
  · exact outOK_nil _
  · split
    · exact outOK_nil _
    · rename_i o l caps hf
      have hc := find_caps_infix _ line o l caps hf
      apply outOK_writeAndSend _ _ _ _ _ _ (by intro x hx; cases hx)
      ev_split
      exact ⟨prov_grp _ _ _ hc, prov_grp _ _ _ hc, prov_grp _ _ _ hc, prov_pid, prov_unknown⟩

theorem certificateInvalid_ok {cfg : Cfg} {pid line : Str} (ok : Bool) (h : Handoff) :
    OutOK cfg pid line (certificateInvalid cfg pid line ok h) := by
  unfold certificateInvalid
  apply outOK_pre _ _ _ _ (incAt_inc _ _)
  apply outOK_writeOnly
  ev_split
  refine ⟨prov_unknown, prov_unknown, prov_unknown, prov_pid, prov_unknown, prov_certInvalid, ?_⟩
  split
  · exact prov_unknownReason
  · exact prov_json (List.drop_suffix _ _).isInfix

theorem invalidUser_ok {cfg : Cfg} {pid line : Str} (ok : Bool) (h : Handoff) :
    OutOK cfg pid line (invalidUser cfg pid line ok h) := by
  unfold invalidUser
  split
  · exact outOK_nil _
  · rename_i o l caps hf
    have hc := find_caps_infix _ line o l caps hf
    split
    · rename_i user src port hu hs hp
      apply outOK_pre _ _ _ _ (incAt_inc _ _)
      apply outOK_writeOnly
      ev_split
      exact ⟨prov_infix (hc _ (group_mem _ _ _ _ hs)), prov_infix (hc _ (group_mem _ _ _ _ hp)),
        prov_infix (hc _ (group_mem _ _ _ _ hu)), prov_pid, prov_unknown⟩
    · exact outOK_nil _


theorem acceptPublicKey_ok {cfg : Cfg} {pid line : Str} (ok : Bool) (h : Handoff) :
    OutOK cfg pid line (acceptPublicKey cfg pid line ok h) := by
  unfold acceptPublicKey
  split
  · exact outOK_nil _
  · rename_i o mlen caps hf
    have hc := find_caps_infix _ line o mlen caps hf
    split
    · exact outOK_nil _
    · split
      · rename_i user src port alg sum hu hs hp ha hk
        have pu := hc _ (group_mem _ _ _ _ hu)
        have ps := hc _ (group_mem _ _ _ _ hs)
        have pp := hc _ (group_mem _ _ _ _ hp)
        have pa := hc _ (group_mem _ _ _ _ ha)
        have pk := hc _ (group_mem _ _ _ _ hk)
        split
        · apply outOK_writeAndSend _ _ _ _ _ _ (incAt_inc _ _)
          ev_split
          exact ⟨prov_infix ps, prov_infix pp, prov_infix pu, prov_pid, prov_unknown, prov_json pa,
            prov_json pk⟩
        · dsimp only
          split
          · apply outOK_writeAndSend _ _ _ _ _ _ (incAt_inc _ _)
            ev_split
            exact ⟨prov_infix ps, prov_infix pp, prov_infix pu, prov_pid, prov_unknown, prov_json pa,
              prov_json pk⟩
          · rename_i o2 l2 idCaps hf2
            have hc2 : ∀ c ∈ idCaps, c <:+: line := fun c hm =>
              (find_caps_infix _ _ o2 l2 idCaps hf2 c hm).trans (List.drop_suffix _ _).isInfix
            split
            · rename_i uid serial ca h1 h2 h3
              apply outOK_writeAndSend _ _ _ _ _ _ (incAt_inc _ _)
              ev_split
              exact ⟨prov_infix ps, prov_infix pp, prov_infix pu, prov_pid,
                prov_infix (hc2 _ (group_mem _ _ _ _ h1)), prov_json pa,
                prov_json (hc2 _ (group_mem _ _ _ _ h3)), prov_json pk,
                prov_json (hc2 _ (group_mem _ _ _ _ h2))⟩
            · exact outOK_nil _
      · exact outOK_nil _


theorem entry_ok {cfg : Cfg} {pid line : Str} (fn : String) (f : EntryFn) (ok : Bool) (h : Handoff)
    (hf : entryOf fn = some f) : OutOK cfg pid line (f cfg pid line ok h) := by
  unfold entryOf at hf
  split at hf <;> cases hf <;>
      (first
        | with_reducible exact acceptPublicKey_ok ok h
        | with_reducible exact acceptedPassword_ok ok h
        | with_reducible exact certificateInvalid_ok ok h
        | with_reducible exact invalidUser_ok ok h
        | with_reducible exact userFrom_ok _ ok h
        | with_reducible exact userShell_ok _ ok h
        | with_reducible exact dnsForm_ok _ ok h
        | with_reducible exact revokedForm_ok _ ok h
        | with_reducible exact badOwner_ok ok h
        | with_reducible exact srcPort_ok _ _ ok h (fun _ _ => prov_root)
        | with_reducible exact srcPort_ok _ _ ok h (fun caps hc => prov_grp _ _ _ hc))

theorem outOK_incs {cfg : Cfg} {pid line : Str} (pre : List Eff) (r : Res)
    (hp : ∀ x ∈ pre, isInc x = true) : OutOK cfg pid line ⟨pre, r⟩ := by
  intro e b hm
  rw [mem_writes] at hm
  cases hp _ hm

theorem process_ok (cfg : Cfg) (pid line : Str) (ok : Bool) (h : Handoff) :
    OutOK cfg pid line (process cfg pid line ok h) := by
  unfold process
  split
  · exact outOK_nil _
  · rename_i c hc
    split
    · split
      · exact outOK_incs _ _ (incEffs_inc c)
      · rename_i u hu
        split
        · exact outOK_incs _ _ (incEffs_inc c)
        · rename_i f hf
          dsimp only
          rw [List.append_assoc]
          apply outOK_pre _ _ _ (f cfg pid line ok h).res (incEffs_inc c)
          apply outOK_pre _ _ _ (f cfg pid line ok h).res (incEffs_inc u)
          exact entry_ok _ f ok h hf
    · split
      · exact outOK_incs _ _ (incEffs_inc c)
      · rename_i f hf
        dsimp only
        apply outOK_pre _ _ _ (f cfg pid line ok h).res (incEffs_inc c)
        exact entry_ok _ f ok h hf

theorem provenance (cfg : Cfg) (pid line : Str) (ok : Bool) (h : Handoff) (e : Ev) (b : Bool) :
    (e, b) ∈ writes (process cfg pid line ok h) →
      ∀ v ∈ evValues e, v ∈ placeholders cfg pid ∨ ∃ t, t <:+: line ∧ (v = t ∨ v = jsonCoerce t) :=
  fun hm => process_ok cfg pid line ok h e b hm

/-! ### the run-time check `provB` accepts everything the theorem allows -/

theorem isInfix_of_infix {p x : Str} (h : p <:+: x) : isInfix p x = true := by
  obtain ⟨a, b, rfl⟩ := h
  simp only [isInfix, List.any_eq_true, List.mem_range]
  refine ⟨a.length, by simp; omega, ?_⟩
  rw [List.append_assoc, List.drop_left]
  exact List.isPrefixOf_iff_prefix.mpr (List.prefix_append _ _)

theorem mem_substrings_of_infix {t x : Str} (h : t <:+: x) : t ∈ substrings x := by
  obtain ⟨a, b, rfl⟩ := h
  simp only [substrings, List.mem_flatMap, List.mem_range, List.mem_map]
  refine ⟨a.length, by simp; omega, t.length, by simp; omega, ?_⟩
  rw [List.append_assoc, List.drop_left, List.take_left]

theorem provB_complete (line v : Str) :
    (∃ t, t <:+: line ∧ (v = t ∨ v = jsonCoerce t)) → provB line v = true := by
  rintro ⟨t, ht, rfl | rfl⟩
  · simp [provB, isInfix_of_infix ht]
  · simp only [provB, Bool.or_eq_true, List.any_eq_true, beq_iff_eq]
    exact Or.inr ⟨t, mem_substrings_of_infix ht, rfl⟩

/-- the `field-not-from-line` clause of `specC11` never fires on the model's own output -/
theorem provenance_check (cfg : Cfg) (pid line : Str) (ok : Bool) (h : Handoff) :
    ((writes (process cfg pid line ok h)).any fun w => (evValues w.1).any fun v =>
      !((placeholders cfg pid).contains v) && !provB line v) = false := by
  simp only [List.any_eq_false, List.any_eq_true, Bool.and_eq_true, Bool.not_eq_true', not_exists,
    not_and, Bool.not_eq_false, Prod.forall]
  intro e b hm v hv hc
  rcases provenance cfg pid line ok h e b hm v hv with hp | hp
  · rw [List.contains_iff_mem.mpr hp] at hc; cases hc
  · exact provB_complete line v hp

end AM.C11P
