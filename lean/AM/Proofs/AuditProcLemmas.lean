import AM.Model.AuditProc
/-! Helper lemmas about the audit-processor model: what the callback and the flushes leave
untouched, and the reassembler's bookkeeping invariants. -/
namespace AM.AP
open AM AM.Tr

/-! ### the callback touches only the tracker, the error slot and the ghost history -/

theorem callback_fields (a : Time) (st : St) (g : List Rec) :
    (callback a st g).fl = st.fl ∧ (callback a st g).pushed = st.pushed ∧
    (callback a st g).delivered = st.delivered ++ [g] ∧
    (callback a st g).parserErr = st.parserErr ∧ (callback a st g).forced = st.forced := by
  unfold callback
  split
  · simp [noteErr]
  · split
    · simp
    · dsimp only
      split <;> simp [noteErr]

theorem foldl_callback_fields (a : Time) (gs : List (List Rec)) (st : St) :
    (gs.foldl (callback a) st).fl = st.fl ∧ (gs.foldl (callback a) st).pushed = st.pushed ∧
    (gs.foldl (callback a) st).delivered = st.delivered ++ gs ∧
    (gs.foldl (callback a) st).parserErr = st.parserErr ∧
    (gs.foldl (callback a) st).forced = st.forced := by
  induction gs generalizing st with
  | nil => simp
  | cons g gs ih =>
    have h := callback_fields a st g
    have := ih (callback a st g)
    simp only [List.foldl_cons]
    refine ⟨by rw [this.1, h.1], by rw [this.2.1, h.2.1], ?_, by rw [this.2.2.2.1, h.2.2.2.1],
      by rw [this.2.2.2.2, h.2.2.2.2]⟩
    rw [this.2.2.1, h.2.2.1]; simp


/-! ### the in-flight table -/

/-- the records in flight for sequence number `s` -/
def inflight (fl : List (Nat × Entry)) (s : Nat) : List Rec :=
  fl.flatMap fun p => if p.1 = s then p.2.msgs else []

/-- keys strictly increasing; every entry holds only non-EOE records of its own sequence number -/
structure WfFl (fl : List (Nat × Entry)) : Prop where
  sorted : fl.Pairwise (fun a b => a.1 < b.1)
  own : ∀ p ∈ fl, ∀ r ∈ p.2.msgs, r.seq = p.1 ∧ r.kind ≠ .eoe

theorem wfFl_nil : WfFl [] := ⟨List.Pairwise.nil, by simp⟩

theorem WfFl.tail {p : Nat × Entry} {fl : List (Nat × Entry)} (h : WfFl (p :: fl)) : WfFl fl :=
  ⟨(List.pairwise_cons.mp h.sorted).2, fun q hq => h.own q (List.mem_cons_of_mem _ hq)⟩

theorem inflight_nil (s : Nat) : inflight [] s = [] := rfl

theorem inflight_cons (p : Nat × Entry) (fl : List (Nat × Entry)) (s : Nat) :
    inflight (p :: fl) s = (if p.1 = s then p.2.msgs else []) ++ inflight fl s := by
  simp [inflight]

theorem inflight_append (a b : List (Nat × Entry)) (s : Nat) :
    inflight (a ++ b) s = inflight a s ++ inflight b s := by
  simp [inflight]

/-- in a well-formed table nothing is in flight for a key below the head's -/
theorem inflight_of_lt {fl : List (Nat × Entry)} {s : Nat} (h : ∀ p ∈ fl, s < p.1) : inflight fl s = [] := by
  induction fl with
  | nil => rfl
  | cons p fl ih =>
    rw [inflight_cons]
    have hp := h p List.mem_cons_self
    have : ¬ p.1 = s := by omega
    simp [this, ih (fun q hq => h q (List.mem_cons_of_mem _ hq))]

/-- what `Put` adds for `r` -/
def added (r : Rec) (s : Nat) : List Rec := if r.seq = s ∧ r.kind ≠ .eoe then [r] else []

theorem put_spec (fl : List (Nat × Entry)) (r : Rec) (h : WfFl fl) :
    WfFl (put fl r) ∧ (∀ s, inflight (put fl r) s = inflight fl s ++ added r s) ∧
    (∀ q ∈ put fl r, r.seq ≤ q.1 ∨ q ∈ fl) := by
  induction fl with
  | nil =>
    simp only [put]
    split
    · rename_i he
      refine ⟨wfFl_nil, fun s => by simp [inflight, added, he], by simp⟩
    · rename_i he
      refine ⟨⟨by simp, ?_⟩, fun s => ?_, ?_⟩
      · intro p hp r' hr'
        simp only [List.mem_singleton] at hp
        subst hp
        simp only [List.mem_singleton] at hr'
        subst hr'
        exact ⟨rfl, he⟩
      · by_cases hs : r.seq = s <;> simp [inflight, added, hs, he]
      · intro q hq
        simp only [List.mem_singleton] at hq
        subst hq
        exact Or.inl (Nat.le_refl _)
  | cons p fl ih =>
    obtain ⟨k, e⟩ := p
    have ht := h.tail
    have hsort := List.pairwise_cons.mp h.sorted
    simp only [put]
    by_cases h1 : r.seq = k
    · simp only [h1, if_true]
      by_cases he : r.kind = .eoe
      · simp only [he, if_true]
        refine ⟨⟨?_, ?_⟩, fun s => ?_, ?_⟩
        · exact List.pairwise_cons.mpr ⟨fun q hq => hsort.1 q hq, hsort.2⟩
        · intro q hq r' hr'
          rcases List.mem_cons.mp hq with rfl | hq
          · exact h.own (k, e) List.mem_cons_self r' hr'
          · exact h.own q (List.mem_cons_of_mem _ hq) r' hr'
        · simp [inflight_cons, added, he]
        · intro q hq
          rcases List.mem_cons.mp hq with rfl | hq
          · exact Or.inl (by simp)
          · exact Or.inr (List.mem_cons_of_mem _ hq)
      · simp only [he, if_false]
        refine ⟨⟨?_, ?_⟩, fun s => ?_, ?_⟩
        · exact List.pairwise_cons.mpr ⟨fun q hq => hsort.1 q hq, hsort.2⟩
        · intro q hq r' hr'
          rcases List.mem_cons.mp hq with rfl | hq
          · simp only [List.mem_append, List.mem_singleton] at hr'
            rcases hr' with hr' | rfl
            · exact h.own (k, e) List.mem_cons_self r' hr'
            · exact ⟨h1, he⟩
          · exact h.own q (List.mem_cons_of_mem _ hq) r' hr'
        · by_cases hs : k = s
          · subst hs
            have hz : inflight fl k = [] := inflight_of_lt (fun q hq => hsort.1 q hq)
            simp [inflight_cons, added, h1, he, hz]
          · have : ¬ r.seq = s := by omega
            simp [inflight_cons, added, hs, this]
        · intro q hq
          rcases List.mem_cons.mp hq with rfl | hq
          · exact Or.inl (by simp)
          · exact Or.inr (List.mem_cons_of_mem _ hq)
    · simp only [h1, if_false]
      by_cases h2 : r.seq < k
      · simp only [h2, if_true]
        by_cases he : r.kind = .eoe
        · simp only [he, if_true]
          refine ⟨h, fun s => by simp [added, he], fun q hq => Or.inr hq⟩
        · simp only [he, if_false]
          refine ⟨⟨?_, ?_⟩, fun s => ?_, ?_⟩
          · refine List.pairwise_cons.mpr ⟨?_, h.sorted⟩
            intro q hq
            rcases List.mem_cons.mp hq with rfl | hq
            · exact h2
            · exact Nat.lt_trans h2 (hsort.1 q hq)
          · intro q hq r' hr'
            rcases List.mem_cons.mp hq with rfl | hq
            · simp only [List.mem_singleton] at hr'
              subst hr'
              exact ⟨rfl, he⟩
            · exact h.own q hq r' hr'
          · rw [inflight_cons]
            by_cases hs : r.seq = s
            · subst hs
              have hz : inflight ((k, e) :: fl) r.seq = [] := by
                apply inflight_of_lt
                intro q hq
                rcases List.mem_cons.mp hq with rfl | hq
                · exact h2
                · exact Nat.lt_trans h2 (hsort.1 q hq)
              simp [added, he, hz]
            · simp [added, hs]
          · intro q hq
            rcases List.mem_cons.mp hq with rfl | hq
            · exact Or.inl (Nat.le_refl _)
            · exact Or.inr hq
      · simp only [h2, if_false]
        obtain ⟨ih1, ih2, ih3⟩ := ih ht
        refine ⟨⟨?_, ?_⟩, fun s => ?_, ?_⟩
        · refine List.pairwise_cons.mpr ⟨?_, ih1.sorted⟩
          intro q hq
          rcases ih3 q hq with hle | hq
          · show k < q.1
            omega
          · exact hsort.1 q hq
        · intro q hq r' hr'
          rcases List.mem_cons.mp hq with rfl | hq
          · exact h.own (k, e) List.mem_cons_self r' hr'
          · exact ih1.own q hq r' hr'
        · rw [inflight_cons, inflight_cons, ih2 s, List.append_assoc]
        · intro q hq
          rcases List.mem_cons.mp hq with rfl | hq
          · exact Or.inr List.mem_cons_self
          · rcases ih3 q hq with hle | hq
            · exact Or.inl hle
            · exact Or.inr (List.mem_cons_of_mem _ hq)


/-- `CleanUp` evicts a prefix of the table, in order -/
theorem cleanUp_spec (max : Nat) (exp : Bool) (fl : List (Nat × Entry)) :
    ∃ pre, fl = pre ++ (cleanUp max exp fl).1 ∧ (cleanUp max exp fl).2.1 = pre.map (·.2.msgs) ∧
      ((cleanUp max exp fl).2.2 = false → ∀ p ∈ pre, p.2.complete = true) ∧
      (exp = false → fl.length ≤ max → (cleanUp max exp fl).2.2 = false) ∧
      (exp = false → ∀ p, (cleanUp max exp fl).1.head? = some p → p.2.complete = false) := by
  induction fl with
  | nil => exact ⟨[], by simp [cleanUp]⟩
  | cons p fl ih =>
    obtain ⟨k, e⟩ := p
    obtain ⟨pre, h1, h2, h3, h4, h5⟩ := ih
    simp only [cleanUp]
    split
    · rename_i hc
      refine ⟨(k, e) :: pre, by simp [← h1], by simp [h2], ?_, ?_, ?_⟩
      · intro hf p hp
        simp only [Bool.or_eq_false_iff, Bool.not_eq_false'] at hf
        rcases List.mem_cons.mp hp with rfl | hp
        · exact hf.2
        · exact h3 hf.1 p hp
      · intro hexp hlen
        simp only [List.length_cons] at hlen
        have hov : ¬ (fl.length + 1 > max) := by omega
        simp only [hexp, hov, decide_false, Bool.or_false] at hc
        simp [h4 hexp (by omega), hc]
      · intro hexp q hq
        exact h5 hexp q hq
    · rename_i hc
      refine ⟨[], by simp, by simp, by simp, by simp, ?_⟩
      intro _ q hq
      simp only [List.head?_cons, Option.some.injEq] at hq
      subst hq
      simp only [Bool.or_eq_true, decide_eq_true_eq, not_or, Bool.not_eq_true] at hc
      exact hc.1.1


/-! ### conservation: delivered ++ in flight = pushed, per sequence number, in order -/

theorem filter_msgs_of_own {p : Nat × Entry} (h : ∀ r ∈ p.2.msgs, r.seq = p.1 ∧ r.kind ≠ .eoe) (s : Nat) :
    p.2.msgs.filter (fun r => decide (r.seq = s)) = if p.1 = s then p.2.msgs else [] := by
  split
  · rename_i hs
    apply List.filter_eq_self.mpr
    intro r hr
    simp [(h r hr).1, hs]
  · rename_i hs
    apply List.filter_eq_nil_iff.mpr
    intro r hr
    simp [(h r hr).1, hs]

theorem flatten_filter_eq_inflight (pre : List (Nat × Entry))
    (h : ∀ p ∈ pre, ∀ r ∈ p.2.msgs, r.seq = p.1 ∧ r.kind ≠ .eoe) (s : Nat) :
    (pre.map (·.2.msgs)).flatten.filter (fun r => decide (r.seq = s)) = inflight pre s := by
  induction pre with
  | nil => rfl
  | cons p pre ih =>
    simp only [List.map_cons, List.flatten_cons, List.filter_append, inflight_cons]
    rw [filter_msgs_of_own (h p List.mem_cons_self) s,
      ih (fun q hq => h q (List.mem_cons_of_mem _ hq))]

structure Cons (st : St) : Prop where
  wf : WfFl st.fl
  bal : ∀ s, st.delivered.flatten.filter (fun r => decide (r.seq = s)) ++ inflight st.fl s =
    st.pushed.filter (fun r => decide (r.seq = s) && (r.kind != .eoe))
  uniform : ∀ g ∈ st.delivered, ∀ r ∈ g, ∀ r' ∈ g, r.seq = r'.seq

theorem cons_init : Cons {} := ⟨wfFl_nil, fun s => by simp [inflight], by simp⟩

theorem added_eq_filter (r : Rec) (s : Nat) :
    added r s = [r].filter (fun r => decide (r.seq = s) && (r.kind != .eoe)) := by
  unfold added
  by_cases h1 : r.seq = s <;> by_cases h2 : r.kind = .eoe <;> simp [h1, h2]

/-- moving a well-formed prefix of the table to the end of `delivered` keeps the balance -/
theorem cons_evict {st : St} {fl' : List (Nat × Entry)} {pre : List (Nat × Entry)} {gs : List (List Rec)}
    {pushed : List Rec} {tbl : List (Nat × Entry)}
    (hw : WfFl tbl) (htbl : tbl = pre ++ fl') (hgs : gs = pre.map (·.2.msgs))
    (hbal : ∀ s, st.delivered.flatten.filter (fun r => decide (r.seq = s)) ++ inflight tbl s =
      pushed.filter (fun r => decide (r.seq = s) && (r.kind != .eoe)))
    (hu : ∀ g ∈ st.delivered, ∀ r ∈ g, ∀ r' ∈ g, r.seq = r'.seq) :
    WfFl fl' ∧
    (∀ s, (st.delivered ++ gs).flatten.filter (fun r => decide (r.seq = s)) ++ inflight fl' s =
      pushed.filter (fun r => decide (r.seq = s) && (r.kind != .eoe))) ∧
    (∀ g ∈ st.delivered ++ gs, ∀ r ∈ g, ∀ r' ∈ g, r.seq = r'.seq) := by
  subst htbl
  have hown : ∀ p ∈ pre, ∀ r ∈ p.2.msgs, r.seq = p.1 ∧ r.kind ≠ .eoe :=
    fun p hp => hw.own p (List.mem_append_left _ hp)
  refine ⟨⟨(List.pairwise_append.mp hw.sorted).2.1, fun p hp => hw.own p (List.mem_append_right _ hp)⟩, ?_, ?_⟩
  · intro s
    rw [List.flatten_append, List.filter_append, hgs, flatten_filter_eq_inflight pre hown s,
      List.append_assoc, ← inflight_append]
    exact hbal s
  · intro g hg r hr r' hr'
    rcases List.mem_append.mp hg with hg | hg
    · exact hu g hg r hr r' hr'
    · rw [hgs] at hg
      obtain ⟨p, hp, rfl⟩ := List.mem_map.mp hg
      rw [(hown p hp r hr).1, (hown p hp r' hr').1]

theorem cons_push (c : Cfg) (st : St) (r : Rec) (h : Cons st) : Cons (push c st r) := by
  unfold push
  obtain ⟨hw, hadd, _⟩ := put_spec st.fl r h.wf
  obtain ⟨pre, h1, h2, _⟩ := cleanUp_spec c.max false (put st.fl r)
  generalize hcu : cleanUp c.max false (put st.fl r) = res at h1 h2
  obtain ⟨fl', out, forced⟩ := res
  simp only at h1 h2 ⊢
  have hf := foldl_callback_fields c.after out
    { st with fl := fl', pushed := st.pushed ++ [r], forced := st.forced || forced }
  simp only at hf
  have hbal : ∀ s, st.delivered.flatten.filter (fun r => decide (r.seq = s)) ++ inflight (put st.fl r) s =
      (st.pushed ++ [r]).filter (fun r => decide (r.seq = s) && (r.kind != .eoe)) := by
    intro s
    rw [hadd s, ← List.append_assoc, h.bal s, List.filter_append, added_eq_filter]
  obtain ⟨a, b, d⟩ := cons_evict (st := st) hw h1 h2 hbal h.uniform
  refine ⟨by rw [hf.1]; exact a, ?_, by rw [hf.2.2.1]; exact d⟩
  intro s
  rw [hf.1, hf.2.1, hf.2.2.1]
  exact b s

theorem cons_expire (c : Cfg) (st : St) (h : Cons st) : Cons (stepIn c st .expire).1 := by
  simp only [stepIn]
  obtain ⟨pre, h1, h2, _⟩ := cleanUp_spec c.max true st.fl
  generalize hcu : cleanUp c.max true st.fl = res at h1 h2
  obtain ⟨fl', out, forced⟩ := res
  simp only at h1 h2 ⊢
  have hf := foldl_callback_fields c.after out { st with fl := fl', forced := st.forced || forced }
  simp only at hf
  obtain ⟨a, b, d⟩ := cons_evict (st := st) h.wf h1 h2 h.bal h.uniform
  refine ⟨by rw [hf.1]; exact a, ?_, by rw [hf.2.2.1]; exact d⟩
  intro s
  rw [hf.1, hf.2.1, hf.2.2.1]
  exact b s

theorem cons_close (c : Cfg) (st : St) (h : Cons st) : Cons (close c st) ∧ (close c st).fl = [] := by
  unfold close clear
  have hf := foldl_callback_fields c.after (st.fl.map (·.2.msgs)) { st with fl := [] }
  simp only at hf
  obtain ⟨a, b, d⟩ := cons_evict (st := st) (fl' := []) (pre := st.fl) h.wf (by simp) rfl h.bal h.uniform
  refine ⟨⟨by rw [hf.1]; exact a, ?_, by rw [hf.2.2.1]; exact d⟩, hf.1⟩
  intro s
  rw [hf.1, hf.2.1, hf.2.2.1]
  exact b s

theorem cons_stepIn (c : Cfg) (st : St) (i : In) (h : Cons st) : Cons (stepIn c st i).1 := by
  cases i with
  | line raw p =>
    simp only [stepIn]
    split
    · exact h
    · cases p with
      | none => exact ⟨h.wf, h.bal, h.uniform⟩
      | some r => exact cons_push c st r h
  | empty => exact h
  | login l => simp only [stepIn]; exact ⟨h.wf, h.bal, h.uniform⟩
  | tick t => simp only [stepIn]; exact ⟨h.wf, h.bal, h.uniform⟩
  | expire => exact cons_expire c st h
  | poll =>
    simp only [stepIn]
    split
    · exact h
    · exact ⟨h.wf, h.bal, h.uniform⟩
    · exact h
  | cancel => exact h

theorem cons_runCore (c : Cfg) (ins : List In) (st : St) (h : Cons st) : Cons (runCore c st ins).1 := by
  induction ins generalizing st with
  | nil => exact h
  | cons i rest ih =>
    simp only [runCore]
    have h1 := cons_stepIn c st i h
    generalize stepIn c st i = r at h1
    obtain ⟨st', e⟩ := r
    cases e with
    | some e => exact h1
    | none => exact ih st' h1


/-! ### the error channels -/

def cbKind (e : PErr) : Prop := e = .coalesce ∨ ∃ x, e = .cb x

/-- while `Read` is running: the slot holds the first error the callback ever produced -/
structure ErrInv (st : St) : Prop where
  slot_head : st.slot = st.cbErrs.head?
  cb_kinds : ∀ e ∈ st.cbErrs, cbKind e
  parser_kind : ∀ e, st.parserErr = some e → ∃ raw, e = .parse raw

theorem errInv_init : ErrInv {} := ⟨rfl, by simp, by simp⟩

theorem errInv_noteErr {st : St} {e : PErr} (h : ErrInv st) (he : cbKind e) : ErrInv (noteErr st e) := by
  refine ⟨?_, ?_, h.parser_kind⟩
  · simp only [noteErr]
    have := h.slot_head
    cases hs : st.slot with
    | none =>
      rw [hs] at this
      have : st.cbErrs = [] := by
        cases hc : st.cbErrs with
        | nil => rfl
        | cons a b => rw [hc] at this; simp at this
      simp [this]
    | some x =>
      rw [hs] at this
      cases hc : st.cbErrs with
      | nil => rw [hc] at this; simp at this
      | cons a b => rw [hc] at this; simpa using this
  · intro x hx
    simp only [noteErr, List.mem_append, List.mem_singleton] at hx
    rcases hx with hx | rfl
    · exact h.cb_kinds x hx
    · exact he

theorem errInv_callback (a : Time) (st : St) (g : List Rec) (h : ErrInv st) : ErrInv (callback a st g) := by
  unfold callback
  have h0 : ErrInv { st with delivered := st.delivered ++ [g] } := ⟨h.slot_head, h.cb_kinds, h.parser_kind⟩
  split
  · exact errInv_noteErr h0 (Or.inl rfl)
  · split
    · exact h0
    · dsimp only
      split
      · exact ⟨h.slot_head, h.cb_kinds, h.parser_kind⟩
      · exact errInv_noteErr (st := { st with delivered := st.delivered ++ [g], tr := _, clock := _, handed := _, trHist := _ })
          ⟨h.slot_head, h.cb_kinds, h.parser_kind⟩ (Or.inr ⟨_, rfl⟩)

theorem errInv_foldl (a : Time) (gs : List (List Rec)) (st : St) (h : ErrInv st) :
    ErrInv (gs.foldl (callback a) st) := by
  induction gs generalizing st with
  | nil => exact h
  | cons g gs ih => exact ih _ (errInv_callback a st g h)

/-- a step that lets `Read` go on keeps the invariant -/
theorem errInv_stepIn (c : Cfg) (st : St) (i : In) (h : ErrInv st) (hgo : (stepIn c st i).2 = none) :
    ErrInv (stepIn c st i).1 := by
  cases i with
  | line raw p =>
    simp only [stepIn]
    split
    · exact h
    · cases p with
      | none => exact ⟨h.slot_head, h.cb_kinds, fun e he => ⟨raw, by simpa using he.symm⟩⟩
      | some r =>
        simp only [push]
        exact errInv_foldl _ _ _ ⟨h.slot_head, h.cb_kinds, h.parser_kind⟩
  | empty => exact h
  | login l => simp only [stepIn]; exact ⟨h.slot_head, h.cb_kinds, h.parser_kind⟩
  | tick t => simp only [stepIn]; exact ⟨h.slot_head, h.cb_kinds, h.parser_kind⟩
  | expire =>
    simp only [stepIn]
    exact errInv_foldl _ _ _ ⟨h.slot_head, h.cb_kinds, h.parser_kind⟩
  | poll =>
    simp only [stepIn] at hgo ⊢
    split at hgo <;> simp_all
  | cancel => simp [stepIn] at hgo

theorem not_cbKind_login (x : Tr.Err) : ¬ cbKind (.login x) := by
  rintro (h | ⟨_, h⟩) <;> cases h
theorem not_cbKind_ctx : ¬ cbKind .ctx := by
  rintro (h | ⟨_, h⟩) <;> cases h
theorem not_cbKind_parse (raw : Str) : ¬ cbKind (.parse raw) := by
  rintro (h | ⟨_, h⟩) <;> cases h

/-- what a stopping step returns -/
theorem stop_kinds (c : Cfg) (st : St) (i : In) (h : ErrInv st) (e : PErr) (hs : (stepIn c st i).2 = some e) :
    (cbKind e → i = .poll ∧ st.parserErr = none ∧ st.slot = some e ∧ (stepIn c st i).1.cbErrs = st.cbErrs) ∧
    (∀ raw, e = .parse raw → i = .poll ∧ st.parserErr = some (.parse raw)) := by
  cases i with
  | line raw p =>
    simp only [stepIn] at hs
    split at hs
    · simp at hs
    · cases p <;> simp at hs
  | empty => simp [stepIn] at hs
  | login l =>
    simp only [stepIn, Option.map_eq_some_iff] at hs
    obtain ⟨x, _, rfl⟩ := hs
    exact ⟨fun hk => absurd hk (not_cbKind_login x), fun raw hr => by cases hr⟩
  | tick t => simp [stepIn] at hs
  | expire => simp [stepIn] at hs
  | poll =>
    cases hp : st.parserErr with
    | some e' =>
      simp only [stepIn, hp, Option.some.injEq] at hs
      subst hs
      obtain ⟨raw, rfl⟩ := h.parser_kind _ hp
      refine ⟨fun hk => absurd hk (not_cbKind_parse raw), fun raw' hr => ?_⟩
      cases hr
      exact ⟨rfl, rfl⟩
    | none =>
      cases hsl : st.slot with
      | none => simp [stepIn, hp, hsl] at hs
      | some e' =>
        simp only [stepIn, hp, hsl, Option.some.injEq] at hs
        subst hs
        have hk : cbKind e' := by
          have := h.slot_head
          rw [hsl] at this
          cases hc : st.cbErrs with
          | nil => rw [hc] at this; simp at this
          | cons a b =>
            rw [hc] at this
            simp only [List.head?_cons, Option.some.injEq] at this
            subst this
            exact h.cb_kinds _ (by rw [hc]; exact List.mem_cons_self)
        refine ⟨fun _ => ⟨rfl, rfl, rfl, by simp [stepIn, hp, hsl]⟩, fun raw hr => ?_⟩
        subst hr
        exact absurd hk (not_cbKind_parse raw)
  | cancel =>
    simp only [stepIn, Option.some.injEq] at hs
    subst hs
    exact ⟨fun hk => absurd hk not_cbKind_ctx, fun raw hr => by cases hr⟩


/-! ### unfolding the run -/

theorem runCore_cons_stop {c : Cfg} {st st' : St} {i : In} {e : PErr} (rest : List In)
    (h : stepIn c st i = (st', some e)) : runCore c st (i :: rest) = (st', some e, 1) := by
  simp [runCore, h]

theorem runCore_cons_go {c : Cfg} {st st' s : St} {i : In} {rest : List In} {r : Option PErr} {k : Nat}
    (h : stepIn c st i = (st', none)) (h2 : runCore c st' rest = (s, r, k)) :
    runCore c st (i :: rest) = (s, r, k + 1) := by
  simp [runCore, h, h2]

/-- case analysis on the first input of a run -/
theorem runCore_cons_cases {c : Cfg} {st s : St} {i : In} {rest : List In} {r : Option PErr} {k : Nat}
    (h : runCore c st (i :: rest) = (s, r, k)) :
    (∃ e, stepIn c st i = (s, some e) ∧ r = some e ∧ k = 1) ∨
    (∃ st' k', stepIn c st i = (st', none) ∧ runCore c st' rest = (s, r, k') ∧ k = k' + 1) := by
  simp only [runCore] at h
  generalize hs : stepIn c st i = x at h
  obtain ⟨st', e⟩ := x
  cases e with
  | some e =>
    simp only [Prod.mk.injEq] at h
    obtain ⟨rfl, rfl, rfl⟩ := h
    exact Or.inl ⟨e, rfl, rfl, rfl⟩
  | none =>
    simp only [Prod.mk.injEq] at h
    obtain ⟨rfl, rfl, rfl⟩ := h
    exact Or.inr ⟨st', _, rfl, rfl, rfl⟩

theorem runCore_len {c : Cfg} {ins : List In} {st s : St} {r : Option PErr} {k : Nat}
    (h : runCore c st ins = (s, r, k)) : k ≤ ins.length := by
  induction ins generalizing st k with
  | nil => simp [runCore] at h; omega
  | cons i rest ih =>
    rcases runCore_cons_cases h with ⟨e, _, _, rfl⟩ | ⟨st', k', _, h2, rfl⟩
    · simp
    · have := ih h2; simp; omega


/-! ### grouping: one group per kernel event -/

/-- the record ends its kernel event (`event.Add` sets `complete`, or it is the EOE record) -/
def closing (x : Rec) : Bool := completes x.kind || x.kind == .eoe

/-- the sequence number of a (non-empty, uniform) group -/
def gseq : List Rec → Nat
  | [] => 0
  | r :: _ => r.seq

/-- no non-EOE record of a kernel event arrives after a record that ends the event -/
def NoLate (rs : List Rec) : Prop :=
  ∀ pre r post, rs = pre ++ r :: post → r.kind ≠ .eoe → ∀ x ∈ pre, x.seq = r.seq → closing x = false

theorem NoLate.prefix {a b : List Rec} (h : NoLate (a ++ b)) : NoLate a := by
  intro pre r post he hk x hx hs
  exact h pre r (post ++ b) (by rw [he]; simp) hk x hx hs

/-- where an entry of the table after `Put` comes from -/
theorem put_mem (fl : List (Nat × Entry)) (r : Rec) (h : WfFl fl) : ∀ q ∈ put fl r,
    q ∈ fl ∨
    (q.1 = r.seq ∧ r.kind = .eoe ∧ ∃ e, (r.seq, e) ∈ fl ∧ q.2 = { e with complete := true }) ∨
    (q.1 = r.seq ∧ r.kind ≠ .eoe ∧ ∃ e, (r.seq, e) ∈ fl ∧ q.2 = ⟨e.msgs ++ [r], e.complete || completes r.kind⟩) ∨
    (q.1 = r.seq ∧ r.kind ≠ .eoe ∧ q.2 = ⟨[r], completes r.kind⟩ ∧ ∀ p ∈ fl, p.1 ≠ r.seq) := by
  induction fl with
  | nil =>
    intro q hq
    simp only [put] at hq
    split at hq
    · cases hq
    · rename_i he
      simp only [List.mem_singleton] at hq
      subst hq
      exact Or.inr (Or.inr (Or.inr ⟨rfl, he, rfl, by simp⟩))
  | cons p fl ih =>
    obtain ⟨k, e⟩ := p
    have hsort := List.pairwise_cons.mp h.sorted
    intro q hq
    simp only [put] at hq
    by_cases h1 : r.seq = k
    · simp only [h1, if_true] at hq
      by_cases he : r.kind = .eoe
      · rw [if_pos he] at hq
        rcases List.mem_cons.mp hq with rfl | hq
        · exact Or.inr (Or.inl ⟨h1.symm, he, e, by rw [h1]; exact List.mem_cons_self, rfl⟩)
        · exact Or.inl (List.mem_cons_of_mem _ hq)
      · rw [if_neg he] at hq
        rcases List.mem_cons.mp hq with rfl | hq
        · exact Or.inr (Or.inr (Or.inl ⟨h1.symm, he, e, by rw [h1]; exact List.mem_cons_self, rfl⟩))
        · exact Or.inl (List.mem_cons_of_mem _ hq)
    · simp only [h1, if_false] at hq
      by_cases h2 : r.seq < k
      · simp only [h2, if_true] at hq
        by_cases he : r.kind = .eoe
        · simp only [he, if_true] at hq
          exact Or.inl hq
        · simp only [he, if_false] at hq
          rcases List.mem_cons.mp hq with rfl | hq
          · refine Or.inr (Or.inr (Or.inr ⟨rfl, he, rfl, ?_⟩))
            intro p hp
            rcases List.mem_cons.mp hp with rfl | hp
            · exact fun hh => h1 hh.symm
            · have := hsort.1 p hp
              show p.1 ≠ r.seq
              simp only at this
              omega
          · exact Or.inl hq
      · simp only [h2, if_false] at hq
        rcases List.mem_cons.mp hq with rfl | hq
        · exact Or.inl List.mem_cons_self
        · rcases ih h.tail q hq with hq | ⟨a, b, e', he', d⟩ | ⟨a, b, e', he', d⟩ | ⟨a, b, d, f⟩
          · exact Or.inl (List.mem_cons_of_mem _ hq)
          · exact Or.inr (Or.inl ⟨a, b, e', List.mem_cons_of_mem _ he', d⟩)
          · exact Or.inr (Or.inr (Or.inl ⟨a, b, e', List.mem_cons_of_mem _ he', d⟩))
          · refine Or.inr (Or.inr (Or.inr ⟨a, b, d, ?_⟩))
            intro p hp
            rcases List.mem_cons.mp hp with rfl | hp
            · exact fun hh => h1 hh.symm
            · exact f p hp

/-- the grouping invariant over (table, delivered groups, pushed records) -/
structure GrpT (fl : List (Nat × Entry)) (dl : List (List Rec)) (ps : List Rec) : Prop where
  ne_fl : ∀ p ∈ fl, p.2.msgs ≠ []
  ne_dl : ∀ g ∈ dl, g ≠ []
  closed_fl : ∀ p ∈ fl, p.2.complete = true → ∃ x ∈ ps, x.seq = p.1 ∧ closing x = true
  closed_dl : ∀ g ∈ dl, ∃ x ∈ ps, x.seq = gseq g ∧ closing x = true
  nodup : (dl.map gseq).Nodup
  disj : ∀ g ∈ dl, ∀ p ∈ fl, gseq g ≠ p.1

theorem grpT_init : GrpT [] [] [] := ⟨by simp, by simp, by simp, by simp, by simp, by simp⟩

theorem grpT_put {fl : List (Nat × Entry)} {dl : List (List Rec)} {ps : List Rec} (r : Rec)
    (hw : WfFl fl) (hg : GrpT fl dl ps) (hn : NoLate (ps ++ [r])) : GrpT (put fl r) dl (ps ++ [r]) := by
  have hm := put_mem fl r hw
  refine ⟨?_, hg.ne_dl, ?_, ?_, hg.nodup, ?_⟩
  · intro q hq
    rcases hm q hq with hq | ⟨_, _, e, he, d⟩ | ⟨_, _, e, he, d⟩ | ⟨_, _, d, _⟩
    · exact hg.ne_fl q hq
    · rw [d]; exact hg.ne_fl _ he
    · rw [d]; simp
    · rw [d]; simp
  · intro q hq hc
    rcases hm q hq with hq' | ⟨a, b, e, he, d⟩ | ⟨a, b, e, he, d⟩ | ⟨a, b, d, _⟩
    · obtain ⟨x, hx, h1, h2⟩ := hg.closed_fl q hq' hc
      exact ⟨x, List.mem_append_left _ hx, h1, h2⟩
    · exact ⟨r, by simp, a.symm, by simp [closing, b]⟩
    · rw [d] at hc
      simp only [Bool.or_eq_true] at hc
      rcases hc with hc | hc
      · obtain ⟨x, hx, h1, h2⟩ := hg.closed_fl _ he hc
        exact ⟨x, List.mem_append_left _ hx, by rw [h1, a], h2⟩
      · exact ⟨r, by simp, a.symm, by simp [closing, hc]⟩
    · rw [d] at hc
      exact ⟨r, by simp, a.symm, by simp only [closing]; simp only at hc; simp [hc]⟩
  · intro g hgm
    obtain ⟨x, hx, h1, h2⟩ := hg.closed_dl g hgm
    exact ⟨x, List.mem_append_left _ hx, h1, h2⟩
  · intro g hgm q hq
    rcases hm q hq with hq' | ⟨a, _, e, he, _⟩ | ⟨a, _, e, he, _⟩ | ⟨a, b, _, _⟩
    · exact hg.disj g hgm q hq'
    · rw [a]; exact hg.disj g hgm _ he
    · rw [a]; exact hg.disj g hgm _ he
    · intro heq
      obtain ⟨x, hx, h1, h2⟩ := hg.closed_dl g hgm
      have := hn ps r [] rfl b x hx (by rw [h1, heq, a])
      rw [this] at h2
      cases h2

theorem gseq_msgs_of_own {p : Nat × Entry} (hne : p.2.msgs ≠ [])
    (ho : ∀ r ∈ p.2.msgs, r.seq = p.1 ∧ r.kind ≠ .eoe) : gseq p.2.msgs = p.1 := by
  cases hm : p.2.msgs with
  | nil => exact absurd hm hne
  | cons a b =>
    simp only [gseq]
    exact (ho a (by rw [hm]; exact List.mem_cons_self)).1

/-- evicting a prefix of complete entries -/
theorem grpT_evict {pre fl' : List (Nat × Entry)} {dl : List (List Rec)} {ps : List Rec}
    (hw : WfFl (pre ++ fl')) (hg : GrpT (pre ++ fl') dl ps)
    (hc : ∀ p ∈ pre, p.2.complete = true) : GrpT fl' (dl ++ pre.map (·.2.msgs)) ps := by
  have hgs : ∀ p ∈ pre, gseq p.2.msgs = p.1 := fun p hp =>
    gseq_msgs_of_own (hg.ne_fl p (List.mem_append_left _ hp)) (hw.own p (List.mem_append_left _ hp))
  have hsorted := List.pairwise_append.mp hw.sorted
  refine ⟨fun p hp => hg.ne_fl p (List.mem_append_right _ hp), ?_,
    fun p hp => hg.closed_fl p (List.mem_append_right _ hp), ?_, ?_, ?_⟩
  · intro g hgm
    rcases List.mem_append.mp hgm with hgm | hgm
    · exact hg.ne_dl g hgm
    · obtain ⟨p, hp, rfl⟩ := List.mem_map.mp hgm
      exact hg.ne_fl p (List.mem_append_left _ hp)
  · intro g hgm
    rcases List.mem_append.mp hgm with hgm | hgm
    · exact hg.closed_dl g hgm
    · obtain ⟨p, hp, rfl⟩ := List.mem_map.mp hgm
      rw [hgs p hp]
      exact hg.closed_fl p (List.mem_append_left _ hp) (hc p hp)
  · rw [List.map_append, List.map_map]
    refine List.nodup_append.mpr ⟨hg.nodup, ?_, ?_⟩
    · have : pre.map (gseq ∘ fun x => x.2.msgs) = pre.map (·.1) :=
        List.map_congr_left (fun p hp => hgs p hp)
      rw [this]
      exact (List.Pairwise.map _ (fun a b hab => Nat.ne_of_lt hab) hsorted.1 : (pre.map (·.1)).Pairwise (· ≠ ·))
    · intro a ha b hb
      obtain ⟨g, hgm, rfl⟩ := List.mem_map.mp ha
      obtain ⟨p, hp, rfl⟩ := List.mem_map.mp hb
      simp only [Function.comp]
      rw [hgs p hp]
      exact hg.disj g hgm p (List.mem_append_left _ hp)
  · intro g hgm p hp
    rcases List.mem_append.mp hgm with hgm | hgm
    · exact hg.disj g hgm p (List.mem_append_right _ hp)
    · obtain ⟨q, hq, rfl⟩ := List.mem_map.mp hgm
      rw [hgs q hq]
      exact Nat.ne_of_lt (hsorted.2.2 q hq p hp)


/-- flushing the whole table (`Close`): the groups stay non-empty and pairwise of different events -/
theorem grpT_flush {fl : List (Nat × Entry)} {dl : List (List Rec)} {ps : List Rec}
    (hw : WfFl fl) (hg : GrpT fl dl ps) :
    (∀ g ∈ dl ++ fl.map (·.2.msgs), g ≠ []) ∧ ((dl ++ fl.map (·.2.msgs)).map gseq).Nodup := by
  have hgs : ∀ p ∈ fl, gseq p.2.msgs = p.1 := fun p hp => gseq_msgs_of_own (hg.ne_fl p hp) (hw.own p hp)
  refine ⟨?_, ?_⟩
  · intro g hgm
    rcases List.mem_append.mp hgm with hgm | hgm
    · exact hg.ne_dl g hgm
    · obtain ⟨p, hp, rfl⟩ := List.mem_map.mp hgm
      exact hg.ne_fl p hp
  · rw [List.map_append, List.map_map]
    refine List.nodup_append.mpr ⟨hg.nodup, ?_, ?_⟩
    · have : fl.map (gseq ∘ fun x => x.2.msgs) = fl.map (·.1) := List.map_congr_left (fun p hp => hgs p hp)
      rw [this]
      exact (List.Pairwise.map _ (fun a b hab => Nat.ne_of_lt hab) hw.sorted : (fl.map (·.1)).Pairwise (· ≠ ·))
    · intro a ha b hb
      obtain ⟨g, hgm, rfl⟩ := List.mem_map.mp ha
      obtain ⟨p, hp, rfl⟩ := List.mem_map.mp hb
      simp only [Function.comp]
      rw [hgs p hp]
      exact hg.disj g hgm p hp

/-- in a list of non-empty uniform groups of pairwise different events, the records of one event
are exactly its group -/
theorem flatten_filter_group (gs : List (List Rec)) (hne : ∀ g ∈ gs, g ≠ [])
    (hu : ∀ g ∈ gs, ∀ x ∈ g, ∀ y ∈ g, x.seq = y.seq) (hnd : (gs.map gseq).Nodup) :
    ∀ g ∈ gs, gs.flatten.filter (fun x => decide (x.seq = gseq g)) = g := by
  have hall : ∀ g ∈ gs, ∀ x ∈ g, x.seq = gseq g := by
    intro g hg x hx
    cases hgm : g with
    | nil => exact absurd hgm (hne g hg)
    | cons a b =>
      simp only [gseq]
      rw [hgm] at hx
      exact hu g hg x (by rw [hgm]; exact hx) a (by rw [hgm]; exact List.mem_cons_self)
  induction gs with
  | nil => intro g hg; cases hg
  | cons h t ih =>
    intro g hg
    simp only [List.map_cons, List.nodup_cons] at hnd
    have iht := ih (fun g hg => hne g (List.mem_cons_of_mem _ hg)) (fun g hg => hu g (List.mem_cons_of_mem _ hg))
      hnd.2 (fun g hg => hall g (List.mem_cons_of_mem _ hg))
    simp only [List.flatten_cons, List.filter_append]
    rcases List.mem_cons.mp hg with rfl | hg'
    · have h1 : g.filter (fun x => decide (x.seq = gseq g)) = g :=
        List.filter_eq_self.mpr (fun x hx => by simp [hall g List.mem_cons_self x hx])
      have h2 : t.flatten.filter (fun x => decide (x.seq = gseq g)) = [] := by
        apply List.filter_eq_nil_iff.mpr
        intro x hx
        obtain ⟨g', hg', hxg⟩ := List.mem_flatten.mp hx
        have := hall g' (List.mem_cons_of_mem _ hg') x hxg
        simp only [decide_eq_true_eq]
        intro heq
        exact hnd.1 (List.mem_map.mpr ⟨g', hg', by rw [← this, heq]⟩)
      rw [h1, h2, List.append_nil]
    · have h1 : h.filter (fun x => decide (x.seq = gseq g)) = [] := by
        apply List.filter_eq_nil_iff.mpr
        intro x hx
        have := hall h List.mem_cons_self x hx
        simp only [decide_eq_true_eq]
        intro heq
        exact hnd.1 (List.mem_map.mpr ⟨g, hg', by rw [← heq, this]⟩)
      rw [h1, List.nil_append]
      exact iht g hg'

end AM.AP
