import AM.Gen.Templates
import AM.Proofs.C07
import AM.Proofs.C07Audit
/-! C07 stated for what the repository's own rsyslog configuration writes to the two pipes: the string
templates `sshd` and `auditlog` of `contrib/rsyslog/config/rsyslog.d` are regenerated from the working
tree (`AM.Gen.Templates`); a record produced by instantiating them is processed exactly as the
(PID, message) pair / the bare audit line. -/
namespace AM.C07T
open AM AM.Gen

/-- rsyslog's string template, instantiated (properties other than PROCID and msg do not occur) -/
def instantiate (t : List TplTok) (procid msg : Str) : Str :=
  t.flatMap fun
    | .procid => procid
    | .msg => msg
    | .prop _ => []
    | .lit s => s.toList

/-- the sshd template of the working tree frames a record as `framed_eq_direct` expects: PID, a blank,
the message, the terminator -/
theorem sshd_template_shape (pid m : Str) :
    instantiate sshdTemplate pid m = pid ++ [' '] ++ m ++ ['\n'] := by
  simp [instantiate, sshdTemplate]

theorem auditlog_template_shape (pid m : Str) :
    instantiate auditlogTemplate pid m = m ++ ['\n'] := by
  simp [instantiate, auditlogTemplate]

/-- a line written by rsyslog with the repository's `sshd` template — `%msg%` being the message text
preceded by any number of blanks (rsyslog keeps the blank that follows the tag) — is processed exactly as
the sshd processor processes (PID, message) -/
theorem sshd_record (cfg : Sshd.Cfg) (pid pad msg : Str) (ok : Bool) (h : Sshd.Handoff)
    (hpid : ' ' ∉ pid) (hpad : ∀ c ∈ pad, c = ' ') (hmsg : msg.head? ≠ some ' ') :
    Syslog.process cfg (instantiate sshdTemplate pid (pad ++ msg)) ok h = Sshd.process cfg pid msg ok h := by
  rw [sshd_template_shape]
  have := AM.C07.framed_eq_direct cfg pid (' ' :: pad) msg ok h hpid (by simp)
    (by intro c hc; rcases List.mem_cons.mp hc with rfl | hc; rfl; exact hpad c hc) hmsg
  simpa [List.append_assoc] using this

/-- a line written with the repository's `auditlog` template parses as the bare audit line -/
theorem audit_record (pid l : Str) :
    AuditLine.split (instantiate auditlogTemplate pid l) = AuditLine.split l := by
  rw [auditlog_template_shape]; exact AM.C07A.audit_line l

end AM.C07T
