import AM.Model.TrackerVariants
/-! The knobs of `AM.Model.TrackerVariants`: at the code's setting the parametrised tracker is the model the
theorems are about; each other setting breaks a property on a concrete history. -/
namespace AM.C09V
open AM AM.Tr AM.TrV

theorem stepV_code (st : St) (op : Op) : stepV .code st op = step st op := by
  cases op with
  | remoteLogin l =>
    show remoteLoginV .code st l = remoteLogin st l
    unfold remoteLoginV remoteLogin
    simp only [hasDispV, Variant.code, Bool.false_eq_true, if_false, Bool.false_and]
    cases hf : List.filter (fun p => p.2.srcPID == l.pid) st.sessions with
    | nil => rfl
    | cons x more => obtain ⟨s, u⟩ := x; rfl
  | audit e now =>
    show auditV .code st e now = audit st e now
    unfold auditV audit
    simp only [Variant.code, Bool.false_eq_true, if_false]
    rfl
  | cleanSessions t => rfl
  | cleanLogins t => rfl

theorem runV_code (st : St) (h : List Op) : runV .code st h = run st h := by
  induction h generalizing st with
  | nil => rfl
  | cons op ops ih => simp only [runV, run, stepV_code]; split <;> simp_all

def login (pid : Int) (who : String) (at_ : Time := 0) : Login :=
  { pid := pid, cred := strOf who, hasSource := true, subjects := [("userID", strOf who)],
    srcType := strOf "IP", srcValue := strOf "10.0.0.1", srcExtra := [], target := [], loggedAt := at_ }

def ev (ts : Int) (ses : String) (typ : EvType) (pid : String) : AEvent :=
  { ts := ts, ses := strOf ses, typ := typ, pidTok := strOf pid, result := strOf "success",
    action := [], how := [], object := [], args := [] }

/-- C09 / C04: session 1 (sshd PID 7) is over before its login arrives, and one more record of it (USER_END, which
Red-Hat-style sshd logs after the credential disposal) was held behind the disposal; alice's late login releases the
queue; bob's sshd then gets PID 7, opens session 2; a straggler of session 1 comes last -/
def reuse : List Op :=
  [ .audit (ev 1 "1" .login "7") 1, .audit (ev 2 "1" .credDisp "7") 2, .audit (ev 3 "1" .other "7") 3,
    .remoteLogin (login 7 "alice"), .remoteLogin (login 7 "bob"),
    .audit (ev 4 "2" .login "7") 4, .audit (ev 5 "2" .other "7") 5, .audit (ev 6 "1" .other "7") 6 ]

/-- the code: alice's three events, then bob's two; the straggler is ignored -/
theorem reuse_code :
    emitted .code reuse = [(1, strOf "alice"), (2, strOf "alice"), (3, strOf "alice"), (4, strOf "bob"), (5, strOf "bob")] := by
  decide

/-- "ended only if the queue ENDS with the disposal": the dead session keeps PID 7, swallows bob's login, session 2 is
never emitted and the straggler of alice's session is written under bob's name -/
theorem end_by_last_breaks_C09 :
    emitted { endByLast := true } reuse = [(1, strOf "alice"), (2, strOf "alice"), (3, strOf "alice"), (6, strOf "bob")] := by
  decide

/-- C01: alice's login is left waiting (her session's records never arrive), bob's sshd gets the same PID, then the
LOGIN record with that PID opens session 1 -/
def superseded : List Op :=
  [ .remoteLogin (login 77 "alice"), .remoteLogin (login 77 "bob"),
    .audit (ev 1 "1" .login "77") 1, .audit (ev 2 "1" .other "77") 2 ]

theorem superseded_code : emitted .code superseded = [(1, strOf "bob"), (2, strOf "bob")] := by decide

/-- "keep the login that is already waiting": bob's session is written under alice's name -/
theorem keep_parked_breaks_C01 :
    emitted { keepParked := true } superseded = [(1, strOf "alice"), (2, strOf "alice")] := by decide

/-- C02 / C16: the audit stream is behind — a LOGIN record stamped 10 is processed at 1000; the stale-data sweep with
cut-off 940 (one minute before 1000) runs; the sshd login arrives a moment later -/
def lagging : List Op :=
  [ .audit (ev 10 "1" .login "7") 1000, .cleanSessions 940, .cleanLogins 940,
    .remoteLogin (login 7 "alice" 1001), .audit (ev 11 "1" .other "7") 1002 ]

theorem lagging_code : emitted .code lagging = [(10, strOf "alice"), (11, strOf "alice")] := by decide

/-- "a session is as old as its LOGIN record": the sweep discards a session that arrived a moment ago, the two halves
that arrived within a second of each other are never correlated -/
theorem stamp_by_event_breaks_C16 : emitted { stampByEvent := true } lagging = [] := by decide

end AM.C09V
