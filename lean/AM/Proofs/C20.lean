import AM.Model.DirReader
import AM.Proofs.DirLemmas
/-! # C20 — directory reader: every complete line once, in order; start-up order of the files

`lines`: for any set of initial files and any sequence of appends (of arbitrary, possibly partial,
chunks), rotations and truncations of the live file, the model of `dirreader` delivers the complete
lines of the initial files in start-up order and then every line completed in the live file, exactly
once, in order, without its newline. `order_sorted`, `rotation_*`, `numbered_order`, `live_last`:
the start-up order is a sort by descending rotation number with the live log last. -/
namespace AM.C20
open AM AM.Pipe AM.Dir AM.DirLemmas

/-! ### the invariant of the tail reader -/

/-- the file is `pre ++ pend`, `pre` being whole lines already delivered (`pre.length = offset`),
`pend` the spec's pending partial line -/
structure Inv (w : World) (pend : Str) : Prop where
  pendOk : NL ∉ pend
  fileEq : w.file.drop w.rf.offset = pend
  offLe  : w.rf.offset ≤ w.file.length
  szOk   : w.rf.lastSz ≤ w.file.length ∨ w.rf.offset = 0

/-- reading `data = pend ++ bs` from offset `off` of `file` -/
theorem read_from (file : Str) (off : Nat) (pend bs : Str) (hp : NL ∉ pend)
    (hle : off ≤ file.length) (hd : file.drop off = pend ++ bs) :
    (split [] (file.drop off)).1 = (split pend bs).1 ∧
    (split [] (file.drop off)).2 = (split pend bs).2 ∧
    file.drop (off + ((file.drop off).length - (split [] (file.drop off)).2.length)) = (split pend bs).2 ∧
    off + ((file.drop off).length - (split [] (file.drop off)).2.length) ≤ file.length := by
  rw [hd]
  simp only [split]
  rw [records_acc NL pend bs hp]
  refine ⟨rfl, rfl, ?_, ?_⟩
  · have hfl := records_flatten NL pend bs
    have hlen := records_length NL pend bs
    have hsplit : file = file.take off ++ ((records NL pend bs).1.flatten ++ (records NL pend bs).2) := by
      rw [hfl, ← hd, List.take_append_drop]
    have htake : (file.take off).length = off := by simp; omega
    have hnum : off + ((pend ++ bs).length - (records NL pend bs).2.length)
        = (file.take off ++ (records NL pend bs).1.flatten).length := by
      simp only [List.length_append] at hlen ⊢
      rw [htake]; omega
    rw [hnum]
    conv => lhs; arg 2; rw [hsplit]
    rw [← List.append_assoc, List.drop_left]
  · have hlen := records_length NL pend bs
    have hdl : (pend ++ bs).length = file.length - off := by rw [← hd]; simp
    simp only [List.length_append] at hlen hdl ⊢
    omega

theorem onWrite_append (w : World) (pend bs : Str) (hi : Inv w pend) :
    (onWrite { w with file := w.file ++ bs }).out = w.out ++ (split pend bs).1 ∧
    Inv (onWrite { w with file := w.file ++ bs }) (split pend bs).2 := by
  obtain ⟨hp, hf, hle, hsz⟩ := hi
  -- the reset, if it happens, is harmless (the offset is already 0)
  have hoff : (if (w.file ++ bs).length < w.rf.lastSz || (w.file ++ bs).length < w.rf.offset
      then 0 else w.rf.offset) = w.rf.offset := by
    split
    · rename_i hc
      simp only [Bool.or_eq_true, decide_eq_true_eq, List.length_append] at hc
      rcases hc with h1 | h2
      · rcases hsz with h | h
        · omega
        · exact h.symm
      · omega
    · rfl
  have hdrop : (w.file ++ bs).drop w.rf.offset = pend ++ bs := by
    rw [List.drop_append_of_le_length hle, hf]
  have hle' : w.rf.offset ≤ (w.file ++ bs).length := by simp only [List.length_append]; omega
  obtain ⟨r1, r2, r3, r4⟩ := read_from (w.file ++ bs) w.rf.offset pend bs hp hle' hdrop
  simp only [onWrite, hoff]
  refine ⟨by rw [r1], ?_⟩
  exact ⟨split_pending_nonl pend bs hp, r3, r4, Or.inl (Nat.le_refl _)⟩

theorem onWrite_truncate (w : World) :
    (onWrite { w with file := [] }).out = w.out ∧ Inv (onWrite { w with file := [] }) [] := by
  simp only [onWrite, List.length_nil, List.drop_nil, split, records, List.map_nil, List.append_nil,
    Nat.sub_self, Nat.add_zero]
  have hoff : (if 0 < w.rf.lastSz || 0 < w.rf.offset then 0 else w.rf.offset) = 0 := by
    split
    · rfl
    · rename_i hc
      simp only [Bool.or_eq_true, decide_eq_true_eq, not_or] at hc
      omega
  rw [hoff]
  exact ⟨trivial, ⟨by simp, rfl, Nat.le_refl _, Or.inl (Nat.le_refl _)⟩⟩

/-- what the specification emits for one operation, and its next pending line -/
def specStep (p : Str) : FsOp → List Str × Str
  | .append bs => split p bs
  | .rotate => ([], [])
  | .truncate => ([], [])

theorem spec_cons (p : Str) (op : FsOp) (ops : List FsOp) :
    spec p (op :: ops) = (specStep p op).1 ++ spec (specStep p op).2 ops := by
  cases op <;> simp [spec, specStep]

theorem step_inv (w : World) (pend : Str) (op : FsOp) (hi : Inv w pend) :
    (step w op).out = w.out ++ (specStep pend op).1 ∧ Inv (step w op) (specStep pend op).2 := by
  cases op with
  | append bs => exact onWrite_append w pend bs hi
  | rotate =>
    simp only [step, specStep, List.append_nil]
    exact ⟨trivial, ⟨by simp, rfl, Nat.le_refl _, Or.inr rfl⟩⟩
  | truncate =>
    obtain ⟨h1, h2⟩ := onWrite_truncate w
    simp only [step, specStep, List.append_nil]
    exact ⟨h1, h2⟩

theorem fold_inv (ops : List FsOp) (w : World) (pend : Str) (hi : Inv w pend) :
    (ops.foldl step w).out = w.out ++ spec pend ops := by
  induction ops generalizing w pend with
  | nil => simp [spec]
  | cons op ops ih =>
    obtain ⟨h1, h2⟩ := step_inv w pend op hi
    rw [List.foldl_cons, ih _ _ h2, h1, spec_cons, List.append_assoc]

theorem startup_inv (files : List (Str × Str)) :
    Inv (startup files) (split [] ((aLookup logPrefix files).getD [])).2 := by
  generalize hl : (aLookup logPrefix files).getD [] = live
  have hnil : NL ∉ ([] : Str) := by simp
  obtain ⟨_, _, r3, r4⟩ := read_from live 0 [] live hnil (Nat.zero_le _) (by simp)
  simp only [List.drop_zero, Nat.zero_add] at r3 r4
  simp only [startup, hl]
  exact ⟨split_pending_nonl [] live hnil, r3, r4, Or.inl (Nat.zero_le _)⟩

/-- C20: the delivered sequence is the complete lines of the initial files in start-up order, then
every line completed in the live file, once, in order, without its newline -/
theorem lines (files : List (Str × Str)) (ops : List FsOp) :
    Dir.run files ops = Dir.expected files ops := by
  unfold Dir.run Dir.expected
  rw [fold_inv ops (startup files) _ (startup_inv files)]
  rfl

/-- a delivered line contains no newline -/
theorem delivered_lines_are_complete (p : Str) (ops : List FsOp) (hp : '\n' ∉ p) :
    ∀ l ∈ spec p ops, '\n' ∉ l := by
  induction ops generalizing p with
  | nil => simp [spec]
  | cons op ops ih =>
    intro l hl
    cases op with
    | append bs =>
      simp only [spec, List.mem_append] at hl
      rcases hl with hl | hl
      · exact split_lines_nonl p bs hp l hl
      · exact ih _ (split_pending_nonl p bs hp) l hl
    | rotate => exact ih [] (by simp) l (by simpa [spec] using hl)
    | truncate => exact ih [] (by simp) l (by simpa [spec] using hl)

theorem spec_append_complete (p bs : Str) (ops : List FsOp) :
    spec p (.append bs :: ops) = (split p bs).1 ++ spec (split p bs).2 ops := rfl

/-! ### start-up order -/

theorem order_sorted (names : List Str) :
    (sortNames names).Pairwise (fun a b => before a b = true) ∧
    (sortNames names).Perm (names.filter fun n => logPrefix.isPrefixOf n) :=
  ⟨List.pairwise_mergeSort before_trans before_total _, List.mergeSort_perm _ _⟩

theorem rotation_live : rotationNumber logPrefix = 0 := by decide

theorem rotation_numbered (n : Nat) (hn : n ≤ maxU64) :
    rotationNumber (logPrefix ++ '.' :: (Nat.toDigits 10 n)) = n :=
  rotationNumber_numbered n hn

theorem numbered_order (n m : Nat) (hn : n ≤ maxU64) (hm : m ≤ maxU64) :
    before (logPrefix ++ '.' :: Nat.toDigits 10 n) (logPrefix ++ '.' :: Nat.toDigits 10 m) = true ↔
      (n > m ∨ (n = m)) := by
  rw [before_iff, rotation_numbered n hn, rotation_numbered m hm]
  constructor
  · rintro (h | ⟨h, _⟩)
    · exact Or.inl h
    · exact Or.inr h
  · rintro (h | h)
    · exact Or.inl h
    · subst h; exact Or.inr ⟨rfl, strLe_refl _⟩

theorem live_last (n : Nat) (hn : 1 ≤ n) (hn' : n ≤ maxU64) :
    before (logPrefix ++ '.' :: Nat.toDigits 10 n) logPrefix = true ∧
    before logPrefix (logPrefix ++ '.' :: Nat.toDigits 10 n) = false := by
  constructor
  · rw [before_iff, rotation_numbered n hn', rotation_live]; exact Or.inl (by omega)
  · rw [← Bool.not_eq_true, before_iff, rotation_numbered n hn', rotation_live]
    rintro (h | ⟨h, _⟩) <;> omega

/-- a list sorted by `before` that is a permutation of the log names is the start-up order -/
theorem sortNames_eq_of_sorted (names l : List Str) (hs : l.Pairwise (fun a b => before a b = true))
    (hp : l.Perm (names.filter fun n => logPrefix.isPrefixOf n)) : sortNames names = l :=
  List.Perm.eq_of_pairwise (le := fun a b => before a b = true)
    (fun a b _ _ h1 h2 => before_antisymm a b h1 h2)
    (order_sorted names).1 hs ((order_sorted names).2.trans hp.symm)

/-! ### non-vacuity -/

/-- numeric, not lexicographic: 11, 10, 9, 2, 1, then the live log -/
example : sortNames ["audit.log".toList, "audit.log.1".toList, "audit.log.2".toList,
      "audit.log.9".toList, "audit.log.10".toList, "audit.log.11".toList] =
    ["audit.log.11".toList, "audit.log.10".toList, "audit.log.9".toList,
      "audit.log.2".toList, "audit.log.1".toList, "audit.log".toList] := by
  apply sortNames_eq_of_sorted
  · decide
  · have hf : (["audit.log".toList, "audit.log.1".toList, "audit.log.2".toList,
        "audit.log.9".toList, "audit.log.10".toList, "audit.log.11".toList].filter
          fun n => logPrefix.isPrefixOf n) =
        ["audit.log.11".toList, "audit.log.10".toList, "audit.log.9".toList,
          "audit.log.2".toList, "audit.log.1".toList, "audit.log".toList].reverse := by decide
    rw [hf]
    exact (List.reverse_perm _).symm

/-- start-up leaves offset = 2, lastSz = 0; the truncation is noticed through `size < offset` -/
example : Dir.run [("audit.log".toList, "a\n".toList)]
      [.truncate, .append "b\n".toList, .append "c\n".toList] =
    ["a".toList, "b".toList, "c".toList] := by
  have hs : sortNames ([("audit.log".toList, "a\n".toList)].map (·.1)) = ["audit.log".toList] :=
    sortNames_eq_of_sorted _ _ (by decide) (by decide)
  rw [lines]
  unfold Dir.expected
  rw [hs]
  decide

end AM.C20
