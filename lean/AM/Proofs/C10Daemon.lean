import AM.Model.Daemon
import AM.Proofs.C15Lift
import AM.Proofs.SshdShape
/-! # End to end: the assembled daemon (C10 and C01 at the level of `cmd/namedpipe.go`)

`AM.Model.Daemon` composes the sshd pipeline model (`Sshd.process` over the regenerated
expressions and dispatch tables), the hand-off and the audit-processor model with the tracker
inside. For EVERY schedule of the three parties, every content of the two pipes, every write
oracle on either side and every cancellation:

`end_to_end`: a UserAction in the output is preceded by the UserLogin event that the sshd pipeline
wrote for a record of the sshd pipe whose processing handed a login over (an accepted
authentication: the event's outcome is `succeeded`); the action carries exactly the subjects,
source and target of that event; the record's PID token parses to the PID of a LOGIN-type audit
event of the action's session that was handed to the correlator. -/
namespace AM.C10D
open AM AM.Dm
open AM.C15 (Lift foldTr loginsIn lift_stepIn lift_foldl lift_mono inv_foldTr)
open AM.Tr (Inv loginsOf auditsOf isOpener out_step)

/-! ### the correlator's output only grows inside the processor -/

theorem fold_out (s : Tr.St) (ops : List Tr.Op) :
    ∃ new, (ops.foldl (fun s op => (Tr.step s op).1) s).out = s.out ++ new := by
  induction ops generalizing s with
  | nil => exact ⟨[], by simp⟩
  | cons op rest ih =>
    obtain ⟨n1, h1⟩ := out_step s op
    obtain ⟨n2, h2⟩ := ih (Tr.step s op).1
    exact ⟨n1 ++ n2, by simp only [List.foldl_cons]; rw [h2, h1, List.append_assoc]⟩

theorem foldTr_out (f : Option Nat) (h ops : List Tr.Op) :
    ∃ new, (foldTr f (h ++ ops)).out = (foldTr f h).out ++ new := by
  simp only [foldTr, List.foldl_append]
  exact fold_out _ ops

theorem callback_hist (a : Tr.Time) (st : AP.St) (g : List AP.Rec) :
    ∃ ops, (AP.callback a st g).trHist = st.trHist ++ ops := by
  unfold AP.callback
  split
  · exact ⟨[], by simp [AP.noteErr]⟩
  · split
    · exact ⟨[], by simp⟩
    · dsimp only
      split
      · exact ⟨_, rfl⟩
      · rename_i ev _ _ _ _ _
        exact ⟨[Tr.Op.audit ev st.clock], by simp [AP.noteErr]⟩

theorem foldl_callback_hist (a : Tr.Time) (gs : List (List AP.Rec)) (st : AP.St) :
    ∃ ops, (gs.foldl (AP.callback a) st).trHist = st.trHist ++ ops := by
  induction gs generalizing st with
  | nil => exact ⟨[], by simp⟩
  | cons g gs ih =>
    obtain ⟨o1, h1⟩ := callback_hist a st g
    obtain ⟨o2, h2⟩ := ih (AP.callback a st g)
    exact ⟨o1 ++ o2, by simp only [List.foldl_cons]; rw [h2, h1, List.append_assoc]⟩

theorem stepIn_hist (c : AP.Cfg) (st : AP.St) (i : AP.In) :
    ∃ ops, (AP.stepIn c st i).1.trHist = st.trHist ++ ops := by
  cases i with
  | line raw p =>
    simp only [AP.stepIn]
    split
    · exact ⟨[], by simp⟩
    · cases p with
      | none => exact ⟨[], by simp⟩
      | some r =>
        simp only [AP.push]
        exact foldl_callback_hist _ _ _
  | empty => exact ⟨[], by simp [AP.stepIn]⟩
  | login l => exact ⟨_, rfl⟩
  | tick t => exact ⟨_, rfl⟩
  | expire =>
    simp only [AP.stepIn]
    exact foldl_callback_hist _ _ _
  | poll =>
    simp only [AP.stepIn]
    split <;> exact ⟨[], by simp⟩
  | cancel => exact ⟨[], by simp [AP.stepIn]⟩

theorem close_hist (c : AP.Cfg) (st : AP.St) : ∃ ops, (AP.close c st).trHist = st.trHist ++ ops := by
  simp only [AP.close]
  exact foldl_callback_hist _ _ _

/-- one input of the processor inside the daemon: the refinement is kept, the correlator's output grows -/
theorem apStep_lift (f : Option Nat) (c : AP.Cfg) (st : Dm.St) (i : AP.In) (ls : List Tr.Login)
    (h : Lift f ls st.ap) :
    Lift f (ls ++ loginsIn [i]) (apStep c st i).ap ∧
    ∃ new, (apStep c st i).ap.tr.out = st.ap.tr.out ++ new ∧
      (apStep c st i).out = st.out ++ new.map .action := by
  have h1 := lift_stepIn f c ls st.ap i h
  have hl : Lift f (ls ++ loginsIn [i]) (apStep c st i).ap := by
    simp only [apStep]
    split
    · simp only [AP.close]
      exact lift_foldl f _ _ _ _ ⟨h1.tr, h1.audits, h1.logins⟩
    · exact h1
  refine ⟨hl, ?_⟩
  -- the history grew by appending, hence so did the output
  obtain ⟨o1, ho1⟩ := stepIn_hist c st.ap i
  have hh : ∃ ops, (apStep c st i).ap.trHist = st.ap.trHist ++ ops := by
    simp only [apStep]
    split
    · obtain ⟨o2, ho2⟩ := close_hist c (AP.stepIn c st.ap i).1
      exact ⟨o1 ++ o2, by rw [ho2, ho1, List.append_assoc]⟩
    · exact ⟨o1, ho1⟩
  obtain ⟨ops, hops⟩ := hh
  obtain ⟨new, hnew⟩ := foldTr_out f st.ap.trHist ops
  have hout : (apStep c st i).ap.tr.out = st.ap.tr.out ++ new := by
    rw [hl.tr, hops, hnew, ← h.tr]
  refine ⟨new, hout, ?_⟩
  have : newActions st.ap (apStep c st i).ap = new.map .action := by
    simp only [newActions, hout]; simp
  simp only [apStep] at this ⊢
  rw [this]

/-! ### provenance of a login and of an action -/

/-- the login was produced by processing a record of the sshd pipe, whose trace wrote event `e`
successfully and sent the login right after it -/
def Prov (cfg : Sshd.Cfg) (done : List (Str × Str × Bool × Bool)) (l : Tr.Login) (e : Ev) (pid : Str) (n : Int) : Prop :=
  ∃ msg ok cn cr, (pid, msg, ok, cn) ∈ done ∧
    sentOf (Sshd.process cfg pid msg ok (if cn then .cancel else .ready)).effs = some (e, n, cr) ∧
    l = loginOf e n cr

/-- the action is justified by what precedes it in the output -/
def Justified (cfg : Sshd.Cfg) (done : List (Str × Str × Bool × Bool)) (pre : List Item) (em : Tr.Emitted) : Prop :=
  ∃ e pid n, Prov cfg done em.login e pid n ∧ Item.sshd e ∈ pre

def CausalD (cfg : Sshd.Cfg) (done : List (Str × Str × Bool × Bool)) (out : List Item) : Prop :=
  ∀ pre post em, out = pre ++ .action em :: post → Justified cfg done pre em

theorem prov_mono {cfg : Sshd.Cfg} {d d' : List (Str × Str × Bool × Bool)} {l : Tr.Login} {e : Ev} {pid : Str} {n : Int}
    (h : Prov cfg d l e pid n) (hs : ∀ x ∈ d, x ∈ d') : Prov cfg d' l e pid n := by
  obtain ⟨msg, ok, cn, cr, hm, h2, h3⟩ := h
  exact ⟨msg, ok, cn, cr, hs _ hm, h2, h3⟩

theorem causalD_mono {cfg : Sshd.Cfg} {d d' : List (Str × Str × Bool × Bool)} {out : List Item}
    (h : CausalD cfg d out) (hs : ∀ x ∈ d, x ∈ d') : CausalD cfg d' out := by
  intro pre post em he
  obtain ⟨e, pid, n, hp, hm⟩ := h pre post em he
  exact ⟨e, pid, n, prov_mono hp hs, hm⟩

theorem causalD_append_sshd {cfg : Sshd.Cfg} {d : List (Str × Str × Bool × Bool)} {out : List Item}
    (es : List Ev) (h : CausalD cfg d out) : CausalD cfg d (out ++ es.map .sshd) := by
  intro pre post em he
  -- the action lies in `out`: no action among the appended items
  rcases List.append_eq_append_iff.mp he with ⟨a, h1, h2⟩ | ⟨c, h1, h2⟩
  · -- pre = out ++ a, a ++ action :: post = es.map sshd : impossible
    have : Item.action em ∈ es.map Item.sshd := by
      rw [h2]; simp
    obtain ⟨x, _, hx⟩ := List.mem_map.mp this
    cases hx
  · cases c with
    | nil =>
      simp only [List.nil_append] at h2
      have : Item.action em ∈ es.map Item.sshd := by rw [← h2]; simp
      obtain ⟨x, _, hx⟩ := List.mem_map.mp this
      cases hx
    | cons y c =>
      simp only [List.cons_append, List.cons.injEq] at h2
      obtain ⟨rfl, _⟩ := h2
      exact h pre c em h1

theorem causalD_append_actions {cfg : Sshd.Cfg} {d : List (Str × Str × Bool × Bool)} {out : List Item}
    (new : List Tr.Emitted) (h : CausalD cfg d out)
    (hn : ∀ em ∈ new, Justified cfg d out em) : CausalD cfg d (out ++ new.map .action) := by
  induction new generalizing out with
  | nil => simpa using h
  | cons a new ih =>
    have h1 : CausalD cfg d (out ++ [.action a]) := by
      intro pre post em he
      rcases List.append_eq_append_iff.mp he with ⟨x, h1, h2⟩ | ⟨c, h1, h2⟩
      · cases x with
        | nil =>
          simp only [List.nil_append, List.cons.injEq, Item.action.injEq] at h2
          obtain ⟨rfl, _⟩ := h2
          rw [h1]; simpa using hn _ List.mem_cons_self
        | cons y x =>
          simp only [List.cons_append, List.cons.injEq] at h2
          have : x ++ Item.action em :: post = [] := h2.2.symm
          simp at this
      · cases c with
        | nil =>
          simp only [List.nil_append, List.cons.injEq, Item.action.injEq] at h2
          obtain ⟨rfl, _⟩ := h2
          have hp : out = pre := by simpa using h1
          rw [← hp]; exact hn _ List.mem_cons_self
        | cons y c =>
          simp only [List.cons_append, List.cons.injEq] at h2
          obtain ⟨rfl, _⟩ := h2
          exact h pre c em h1
    have := ih (out := out ++ [.action a]) h1 (fun em hem => by
      obtain ⟨e, pid, n, hp, hm⟩ := hn em (List.mem_cons_of_mem _ hem)
      exact ⟨e, pid, n, hp, List.mem_append_left _ hm⟩)
    simpa [List.append_assoc] using this

/-! ### the invariant of the composition -/

structure K (cfg : Sshd.Cfg) (f : Option Nat) (st : Dm.St) : Prop where
  lift : Lift f st.handed st.ap
  handedOk : ∀ l ∈ st.handed, ∃ e pid n, Prov cfg st.done l e pid n ∧ Item.sshd e ∈ st.out
  inflightOk : ∀ l, st.inflight = some l → ∃ e pid n, Prov cfg st.done l e pid n ∧ Item.sshd e ∈ st.out
  causal : CausalD cfg st.done st.out

theorem sentOf_written (effs : List Sshd.Eff) (e : Ev) (n : Int) (c : Str) (h : sentOf effs = some (e, n, c)) :
    e ∈ written effs := by
  induction effs with
  | nil => simp [sentOf] at h
  | cons x rest ih =>
    cases x with
    | inc m o => simp only [sentOf] at h; simpa [written] using ih h
    | send p q => simp only [sentOf] at h; simpa [written] using ih h
    | write ev ok =>
      cases ok with
      | false => simp only [sentOf] at h; simpa [written] using ih h
      | true =>
        cases rest with
        | nil => simp [sentOf] at h
        | cons y rest' =>
          cases y with
          | send p q =>
            simp only [sentOf, Option.some.injEq, Prod.mk.injEq] at h
            obtain ⟨rfl, _, _⟩ := h
            simp [written]
          | inc m o => simp only [sentOf] at h; simp only [written]; exact List.mem_cons_of_mem _ (ih h)
          | write ev2 ok2 => simp only [sentOf] at h; simp only [written]; exact List.mem_cons_of_mem _ (ih h)

theorem k_apStep {cfg : Sshd.Cfg} {f : Option Nat} {c : AP.Cfg} {st : Dm.St} (i : AP.In) (h : K cfg f st)
    (hls : ∀ l ∈ loginsIn [i], ∃ e pid n, Prov cfg st.done l e pid n ∧ Item.sshd e ∈ st.out) :
    Lift f (st.handed ++ loginsIn [i]) (apStep c st i).ap ∧
    CausalD cfg st.done (apStep c st i).out ∧ (∀ x ∈ st.out, x ∈ (apStep c st i).out) := by
  obtain ⟨hl, new, hout, hitems⟩ := apStep_lift f c st i st.handed h.lift
  refine ⟨hl, ?_, ?_⟩
  · rw [hitems]
    apply causalD_append_actions new h.causal
    intro em hem
    -- the emitted event's login was delivered to the correlator: handed over before, or by this input
    have hinv := inv_foldTr f (apStep c st i).ap.trHist
    rw [← hl.tr] at hinv
    have hmem : em ∈ (apStep c st i).ap.tr.out := by rw [hout]; exact List.mem_append_right _ hem
    have hlog := hl.logins _ (hinv.outOk em hmem).2.1
    rcases List.mem_append.mp hlog with hh | hh
    · exact h.handedOk _ hh
    · exact hls _ hh
  · intro x hx
    rw [hitems]; exact List.mem_append_left _ hx

theorem k_step (cfg : Sshd.Cfg) (f : Option Nat) (c : AP.Cfg) (st : Dm.St) (a : Act) (h : K cfg f st) :
    K cfg f (Dm.step cfg c st a) := by
  cases a with
  | sshdLine cancelled =>
    simp only [Dm.step]
    split
    · exact h
    · split
      · exact h
      · rename_i pid msg ok rest _
        have hsub : ∀ x ∈ st.done, x ∈ st.done ++ [(pid, msg, ok, cancelled)] :=
          fun x hx => List.mem_append_left _ hx
        refine ⟨h.lift, ?_, ?_, ?_⟩
        · intro l hl
          obtain ⟨e, p, n, hp, hm⟩ := h.handedOk l hl
          exact ⟨e, p, n, prov_mono hp hsub, List.mem_append_left _ hm⟩
        · intro l hl
          simp only [Option.map_eq_some_iff] at hl
          obtain ⟨⟨e, n, cr⟩, hs, rfl⟩ := hl
          refine ⟨e, pid, n, ⟨msg, ok, cancelled, cr, by simp, hs, rfl⟩, ?_⟩
          exact List.mem_append_right _ (List.mem_map.mpr ⟨e, sentOf_written _ e n cr hs, rfl⟩)
        · exact causalD_mono (causalD_append_sshd _ h.causal) hsub
  | handoff =>
    simp only [Dm.step]
    split
    · exact h
    · rename_i l hin
      split
      · exact h
      · obtain ⟨hl, hc, hmono⟩ := k_apStep (c := c) (.login l) h (by
          intro x hx
          simp only [loginsIn, List.mem_singleton] at hx
          subst hx
          exact h.inflightOk _ hin)
        have hd : (apStep c st (.login l)).done = st.done := rfl
        refine ⟨by simpa [loginsIn] using hl, ?_, by simp, by rw [hd]; exact hc⟩
        intro x hx
        simp only [List.mem_append, List.mem_singleton] at hx
        rcases hx with hx | rfl
        · obtain ⟨e, p, n, hp, hm⟩ := h.handedOk x hx
          exact ⟨e, p, n, hp, hmono _ hm⟩
        · obtain ⟨e, p, n, hp, hm⟩ := h.inflightOk _ hin
          exact ⟨e, p, n, hp, hmono _ hm⟩
  | sshdCancel =>
    exact ⟨h.lift, h.handedOk, by simp [Dm.step], h.causal⟩
  | audit =>
    simp only [Dm.step]
    split
    · exact h
    · split
      · exact h
      · exact ⟨h.lift, h.handedOk, h.inflightOk, h.causal⟩
      · rename_i i rest hnl _
        have hno : loginsIn [i] = [] := by
          cases i with
          | login l => exact absurd rfl (hnl l)
          | _ => rfl
        obtain ⟨hl, hc, hmono⟩ := k_apStep (c := c) i h (by rw [hno]; simp)
        rw [hno, List.append_nil] at hl
        refine ⟨hl, ?_, ?_, hc⟩
        · intro x hx
          obtain ⟨e, p, n, hp, hm⟩ := h.handedOk x hx
          exact ⟨e, p, n, hp, hmono _ hm⟩
        · intro x hx
          obtain ⟨e, p, n, hp, hm⟩ := h.inflightOk x hx
          exact ⟨e, p, n, hp, hmono _ hm⟩

theorem k_init (cfg : Sshd.Cfg) (f : Option Nat) (todo : List (Str × Str × Bool)) (ins : List AP.In) :
    K cfg f { sshdTodo := todo, auditTodo := ins, ap := { tr := { failAt := f } } } :=
  ⟨⟨rfl, rfl, by simp [loginsOf]⟩, by simp, by simp, by intro pre post em he; simp at he⟩

theorem k_run (cfg : Sshd.Cfg) (f : Option Nat) (c : AP.Cfg) (st : Dm.St) (sched : List Act) (h : K cfg f st) :
    K cfg f (Dm.run cfg c st sched) := by
  induction sched generalizing st with
  | nil => exact h
  | cons a rest ih => exact ih _ (k_step cfg f c st a h)

/-- what a hand-off in a trace of the sshd processor implies (from the shape theorem for ALL lines):
the write succeeded, the correlator was reachable, the event is a `succeeded` one and the PID
token parses to the PID that was sent -/
theorem sent_facts (cfg : Sshd.Cfg) (pid msg : Str) (ok : Bool) (hd : Sshd.Handoff) (e : Ev) (n : Int) (cr : Str)
    (h : sentOf (Sshd.process cfg pid msg ok hd).effs = some (e, n, cr)) :
    ok = true ∧ hd = .ready ∧ e.outcome = "succeeded" ∧ atoi pid = some n ∧
    aLookup "userID" e.subjects = some cr := by
  have hs := Sshd.process_shape cfg pid msg ok hd
  generalize Sshd.process cfg pid msg ok hd = o at hs h
  cases hs with
  | quiet is _ =>
    exfalso
    have hno : ∀ l : List (String × String), sentOf (l.map Sshd.toInc) = none := by
      intro l
      induction l with
      | nil => rfl
      | cons x rest ih => simpa [Sshd.toInc, sentOf] using ih
    rw [hno] at h
    cases h
  | wfail m oc e' _ _ _ => simp [sentOf] at h
  | wok m oc e' _ _ _ _ => simp [sentOf] at h
  | wsend m oc e' n' c' _ _ hok hready hout hn hc =>
    simp only [sentOf, Option.some.injEq, Prod.mk.injEq] at h
    obtain ⟨rfl, rfl, rfl⟩ := h
    exact ⟨hok, hready, hout, hn, hc⟩

/-- **End to end.** -/
theorem end_to_end (cfg : Sshd.Cfg) (f : Option Nat) (c : AP.Cfg) (todo : List (Str × Str × Bool))
    (ins : List AP.In) (sched : List Act) (pre post : List Item) (em : Tr.Emitted)
    (hout : (Dm.run cfg c { sshdTodo := todo, auditTodo := ins, ap := { tr := { failAt := f } } } sched).out =
      pre ++ .action em :: post) :
    ∃ e pid msg n cr,
      -- an `Accepted …` record of the sshd pipe, processed with a working writer and a live correlator
      (pid, msg, true) ∈ todo ∧
      sentOf (Sshd.process cfg pid msg true .ready).effs = some (e, n, cr) ∧
      e.outcome = "succeeded" ∧ atoi pid = some n ∧
      -- its UserLogin event comes first in the output, and the action carries exactly its identity
      Item.sshd e ∈ pre ∧ em.login = loginOf e n cr ∧
      -- and the action's session was opened by a LOGIN record with that PID, handed to the correlator
      ∃ r ∈ (Dm.run cfg c { sshdTodo := todo, auditTodo := ins, ap := { tr := { failAt := f } } } sched).ap.handed,
        isOpener r em.ev.ses n := by
  have hk := k_run cfg f c _ sched (k_init cfg f todo ins)
  generalize hfin : Dm.run cfg c { sshdTodo := todo, auditTodo := ins, ap := { tr := { failAt := f } } } sched = fin
    at hk hout ⊢
  obtain ⟨e, pid, n, ⟨msg, ok, cn, cr, hdone, hsent, hlog⟩, hpre⟩ := hk.causal pre post em hout
  obtain ⟨hok, hready, hsucc, hatoi, _⟩ := sent_facts cfg pid msg ok _ e n cr hsent
  have hcn : cn = false := by cases cn <;> simp_all
  subst hok hcn
  -- processed records come from the pipe's content
  have hsub : ∀ (st : Dm.St) (sched : List Act), (∀ x ∈ st.done, (x.1, x.2.1, x.2.2.1) ∈ todo) →
      (∀ x ∈ st.sshdTodo, x ∈ todo) →
      ∀ x ∈ (Dm.run cfg c st sched).done, (x.1, x.2.1, x.2.2.1) ∈ todo := by
    intro st sched
    induction sched generalizing st with
    | nil => intro h1 _; exact h1
    | cons a rest ih =>
      intro h1 h2
      apply ih (Dm.step cfg c st a)
      · cases a with
        | sshdLine cancelled =>
          simp only [Dm.step]
          split
          · exact h1
          · split
            · exact h1
            · rename_i p m o rs htd
              intro x hx
              rcases List.mem_append.mp hx with hx | hx
              · exact h1 x hx
              · simp only [List.mem_singleton] at hx
                subst hx
                exact h2 _ (by rw [htd]; exact List.mem_cons_self)
        | handoff =>
          simp only [Dm.step]
          split
          · exact h1
          · split
            · exact h1
            · exact h1
        | sshdCancel => exact h1
        | audit =>
          simp only [Dm.step]
          split
          · exact h1
          · split <;> exact h1
      · cases a with
        | sshdLine cancelled =>
          simp only [Dm.step]
          split
          · exact h2
          · split
            · exact h2
            · rename_i p m o rs htd
              intro x hx
              exact h2 x (by rw [htd]; exact List.mem_cons_of_mem _ hx)
        | handoff =>
          simp only [Dm.step]
          split
          · exact h2
          · split
            · exact h2
            · exact h2
        | sshdCancel => exact h2
        | audit =>
          simp only [Dm.step]
          split
          · exact h2
          · split <;> exact h2
  have hin : (pid, msg, true) ∈ todo := by
    have := hsub { sshdTodo := todo, auditTodo := ins, ap := { tr := { failAt := f } } } sched
      (by simp) (by intro x hx; exact hx)
    rw [hfin] at this
    exact this _ hdone
  -- the opener: from the tracker invariant inside the processor
  have hinv := inv_foldTr f fin.ap.trHist
  rw [← hk.lift.tr] at hinv
  have hem : em ∈ fin.ap.tr.out := by
    -- every action in the output was emitted by the correlator: shown through the invariant below
    have hall : ∀ (st : Dm.St) (sched : List Act),
        (∀ x, Item.action x ∈ st.out → x ∈ st.ap.tr.out) → K cfg f st →
        ∀ x, Item.action x ∈ (Dm.run cfg c st sched).out → x ∈ (Dm.run cfg c st sched).ap.tr.out := by
      intro st sched
      induction sched generalizing st with
      | nil => intro h1 _; exact h1
      | cons a rest ih =>
        intro h1 hk1
        apply ih (Dm.step cfg c st a) _ (k_step cfg f c st a hk1)
        have hap : ∀ i, ∀ x, Item.action x ∈ (apStep c st i).out → x ∈ (apStep c st i).ap.tr.out := by
          intro i x hx
          obtain ⟨_, new, ho, hi⟩ := apStep_lift f c st i st.handed hk1.lift
          rw [hi] at hx
          rw [ho]
          rcases List.mem_append.mp hx with hx | hx
          · exact List.mem_append_left _ (h1 x hx)
          · obtain ⟨y, hy, hyx⟩ := List.mem_map.mp hx
            cases hyx
            exact List.mem_append_right _ hy
        cases a with
        | sshdLine cancelled =>
          simp only [Dm.step]
          split
          · exact h1
          · split
            · exact h1
            · intro x hx
              rcases List.mem_append.mp hx with hx | hx
              · exact h1 x hx
              · obtain ⟨y, _, hy⟩ := List.mem_map.mp hx
                cases hy
        | handoff =>
          simp only [Dm.step]
          split
          · exact h1
          · split
            · exact h1
            · exact hap _
        | sshdCancel => exact h1
        | audit =>
          simp only [Dm.step]
          split
          · exact h1
          · split
            · exact h1
            · exact h1
            · exact hap _
    have := hall { sshdTodo := todo, auditTodo := ins, ap := { tr := { failAt := f } } } sched
      (by simp) (k_init cfg f todo ins) em
    rw [hfin] at this
    exact this (by rw [hout]; simp)
  obtain ⟨_, _, _, r, hr, ho⟩ := hinv.outOk em hem
  rw [hk.lift.audits] at hr
  refine ⟨e, pid, msg, n, cr, hin, by simpa using hsent, hsucc, hatoi, hpre, hlog, r, hr, ?_⟩
  rw [hlog] at ho
  simpa [loginOf] using ho

/-! ### the sshd pipeline's own events: each written once, in the order of the records -/

def sshdIn (out : List Item) : List Ev :=
  out.filterMap fun x => match x with | .sshd e => some e | _ => none

def eventsOf (cfg : Sshd.Cfg) (done : List (Str × Str × Bool × Bool)) : List Ev :=
  done.flatMap fun r => written (Sshd.process cfg r.1 r.2.1 r.2.2.1 (if r.2.2.2 then .cancel else .ready)).effs

theorem sshdIn_append (a b : List Item) : sshdIn (a ++ b) = sshdIn a ++ sshdIn b := by
  simp [sshdIn, List.filterMap_append]

theorem sshdIn_actions (l : List Tr.Emitted) : sshdIn (l.map .action) = [] := by
  induction l with
  | nil => rfl
  | cons a t ih => simpa [sshdIn] using ih

theorem sshdIn_sshd (l : List Ev) : sshdIn (l.map .sshd) = l := by
  induction l with
  | nil => rfl
  | cons a t ih => simp only [List.map_cons, sshdIn, List.filterMap_cons]; congr 1

theorem apStep_sshdIn (f : Option Nat) (c : AP.Cfg) (st : Dm.St) (i : AP.In) (h : Lift f st.handed st.ap) :
    sshdIn (apStep c st i).out = sshdIn st.out ∧ (apStep c st i).done = st.done := by
  obtain ⟨_, new, _, hi⟩ := apStep_lift f c st i st.handed h
  exact ⟨by rw [hi, sshdIn_append, sshdIn_actions, List.append_nil], rfl⟩

/-- **Every event of the sshd pipeline is written exactly once, in the order of the records of the
pipe**: the UserLogin events in the output are, for every schedule, the events written while
processing the records consumed so far (one per record that produces an event — C11/C06), in order. -/
theorem sshd_events_once (cfg : Sshd.Cfg) (f : Option Nat) (c : AP.Cfg) (st : Dm.St) (sched : List Act)
    (hk : K cfg f st) (h0 : sshdIn st.out = eventsOf cfg st.done) :
    sshdIn (Dm.run cfg c st sched).out = eventsOf cfg (Dm.run cfg c st sched).done := by
  induction sched generalizing st with
  | nil => exact h0
  | cons a rest ih =>
    apply ih (Dm.step cfg c st a) (k_step cfg f c st a hk)
    cases a with
    | sshdLine cancelled =>
      simp only [Dm.step]
      split
      · exact h0
      · split
        · exact h0
        · simp only [sshdIn_append, sshdIn_sshd, eventsOf, List.flatMap_append, List.flatMap_cons,
            List.flatMap_nil, List.append_nil]
          rw [h0]; rfl
    | handoff =>
      simp only [Dm.step]
      split
      · exact h0
      · rename_i l _
        split
        · exact h0
        · obtain ⟨h1, h2⟩ := apStep_sshdIn f c st (.login l) hk.lift
          show sshdIn (apStep c st (.login l)).out = eventsOf cfg (apStep c st (.login l)).done
          rw [h1, h2]; exact h0
    | sshdCancel => exact h0
    | audit =>
      simp only [Dm.step]
      split
      · exact h0
      · split
        · exact h0
        · exact h0
        · rename_i i _ _ _
          obtain ⟨h1, h2⟩ := apStep_sshdIn f c st i hk.lift
          show sshdIn (apStep c st i).out = eventsOf cfg (apStep c st i).done
          rw [h1, h2]; exact h0

/-! ### a concrete run (the statement is not vacuous) -/

def demoCfg : Sshd.Cfg := ⟨"node-1".toList, "0123".toList⟩

def demoRec (tag seq : Nat) (typ : Tr.EvType) : AP.Rec :=
  { seq := seq, kind := .single, tag := tag, ts := 1600000000 + seq, typ := typ, ses := "7".toList,
    pidTok := "4242".toList, result := "success".toList, args := [] }

/-- the sshd pipe carries a failed attempt and then the accepted login of PID 4242; the audit pipe
carries that session's LOGIN record, a command and the end of the session -/
def demoInit : Dm.St :=
  { sshdTodo := [("4242".toList, "Failed password for bob from 10.0.0.9 port 2200 ssh2".toList, true),
                 ("4242".toList, "Accepted password for bob from 10.0.0.9 port 2200 ssh2".toList, true)],
    auditTodo := [.line [] (some (demoRec 0 1 .login)), .line [] (some (demoRec 1 2 .other)),
                  .line [] (some (demoRec 2 3 .credDisp))] }

/-- the audit side runs ahead (the session's events are held), then the sshd side writes both its
events and hands the login over, which releases the held events -/
def demoSched : List Act := [.audit, .audit, .sshdLine false, .sshdLine false, .handoff, .audit]

theorem demo_output :
    (Dm.run demoCfg {} demoInit demoSched).out.map (fun x => match x with
      | .sshd e => (e.outcome, (0 : Int)) | .action em => ("action", em.ev.ts)) =
    [("failed", 0), ("succeeded", 0), ("action", 1600000001), ("action", 1600000002), ("action", 1600000003)] := by
  decide +kernel

end AM.C10D
