import AM.Model.Health
/-! C18, a token ring of registrations: components `c₀ … cₙ₋₁` are all registered, all but `c₀` are marked ready, and
then, for i = 0, 1, 2, …, component `c₍ᵢ₊₁₎` is registered again (pending) BEFORE `cᵢ` is marked ready. In every state
this log passes through some component is pending, so a readiness probe that sees ONE state of the map — what the
mutex around `Iterate` gives (`C18.snapshot`) — answers "not ready" every time, however it is timed. (A probe that
reads each entry at a different moment can see `cᵢ` before the step and `c₍ᵢ₊₁₎` after it: all ready. The harness
runs this ring against free-running probers: `ring:<n>:<probers>:<ms>`.) -/
namespace AM.C18R
open AM AM.Health

/-- every state visited while `ops` is applied from `m` is "not ready" -/
def allPending (m : M) : List Op → Bool
  | [] => true
  | o :: r => !isReady (apply m o) && allPending (apply m o) r

theorem allPending_append (m : M) (a b : List Op) :
    allPending m (a ++ b) = (allPending m a && allPending (a.foldl apply m) b) := by
  induction a generalizing m with
  | nil => simp [allPending]
  | cons o r ih => simp [allPending, ih, Bool.and_assoc]

/-- `c` is registered and pending -/
def Pend (c : Str) (m : M) : Prop := (c, false) ∈ m

theorem not_ready_of_pend {c : Str} {m : M} (h : Pend c m) : isReady m = false := by
  simp only [isReady]
  cases hall : m.all (·.2) with
  | false => rfl
  | true => have := List.all_eq_true.mp hall _ h; simp at this

theorem pend_add (c : Str) (m : M) : Pend c (apply m (.add c)) := List.mem_cons_self

theorem pend_keep {c : Str} {m : M} (h : Pend c m) (o : Op) (hne : o ≠ .ready c) : Pend c (apply m o) := by
  cases o with
  | add c' =>
    by_cases hc : c' = c
    · subst hc; exact pend_add _ _
    · exact List.mem_cons_of_mem _ (mem_aErase_of h (fun h' => hc h'.symm))
  | ready c' =>
    have hc : c' ≠ c := fun h' => hne (by rw [h'])
    exact List.mem_cons_of_mem _ (mem_aErase_of h (fun h' => hc h'.symm))

/-- a run of operations none of which marks `c` ready keeps `c` pending, and every state on the way is not ready -/
theorem keep_run {c : Str} (ops : List Op) : ∀ {m : M}, Pend c m → (∀ o ∈ ops, o ≠ .ready c) →
    allPending m ops = true ∧ Pend c (ops.foldl apply m) := by
  induction ops with
  | nil => intro m h _; exact ⟨rfl, h⟩
  | cons o r ih =>
    intro m h hno
    have h1 := pend_keep h o (hno o List.mem_cons_self)
    have := ih h1 (fun o' ho' => hno o' (List.mem_cons_of_mem _ ho'))
    simp only [allPending, not_ready_of_pend h1, Bool.not_false, Bool.true_and, List.foldl_cons]
    exact this

def name (names : List Str) (i : Nat) : Str := names.getD (i % names.length) []

/-- step `i`: register the next component again, then mark the current one ready -/
def ringStep (names : List Str) (i : Nat) : List Op := [.add (name names (i + 1)), .ready (name names i)]

def ringLog (names : List Str) (k : Nat) : List Op :=
  names.map .add ++ (names.drop 1).map .ready ++ (List.range k).flatMap (ringStep names)

theorem name_succ_ne (names : List Str) (hn : names.Nodup) (h2 : 2 ≤ names.length) (i : Nat) :
    name names (i + 1) ≠ name names i := by
  unfold name
  have hl : 0 < names.length := by omega
  have h1 : (i + 1) % names.length < names.length := Nat.mod_lt _ hl
  have h0 : i % names.length < names.length := Nat.mod_lt _ hl
  have e1 : names.getD ((i + 1) % names.length) [] = names[(i + 1) % names.length] := by simp [List.getD, h1]
  have e0 : names.getD (i % names.length) [] = names[i % names.length] := by simp [List.getD, h0]
  rw [e1, e0]
  intro h
  have := (List.getElem_inj hn).mp h
  have hmod : (i + 1) % names.length = (i % names.length + 1) % names.length := by
    have hd := Nat.div_add_mod i names.length
    have : i + 1 = names.length * (i / names.length) + (i % names.length + 1) := by omega
    rw [this, Nat.mul_add_mod]
  by_cases hw : i % names.length + 1 < names.length
  · rw [hmod, Nat.mod_eq_of_lt hw] at this; omega
  · have hfull : i % names.length + 1 = names.length := by omega
    rw [hmod, hfull, Nat.mod_self] at this
    omega

/-- the steps of the ring from a state in which the current component is pending -/
theorem steps (names : List Str) (hn : names.Nodup) (h2 : 2 ≤ names.length) (k : Nat) :
    ∀ m : M, Pend (name names 0) m →
      allPending m ((List.range k).flatMap (ringStep names)) = true ∧
      Pend (name names k) (((List.range k).flatMap (ringStep names)).foldl apply m) := by
  induction k with
  | zero => intro m h; exact ⟨rfl, h⟩
  | succ k ih =>
    intro m h
    obtain ⟨ha, hp⟩ := ih m h
    rw [List.range_succ, List.flatMap_append, allPending_append, ha, List.foldl_append]
    generalize ((List.range k).flatMap (ringStep names)).foldl apply m = m1 at hp ⊢
    simp only [List.flatMap_cons, List.flatMap_nil, List.append_nil, ringStep, Bool.true_and]
    have hq : Pend (name names (k + 1)) (apply m1 (.add (name names (k + 1)))) := pend_add _ _
    have hne : Op.ready (name names k) ≠ Op.ready (name names (k + 1)) := by
      intro h'; injection h' with h'; exact name_succ_ne names hn h2 k h'.symm
    have hq2 := pend_keep hq (.ready (name names k)) hne
    refine ⟨?_, by simpa using hq2⟩
    simp [allPending, not_ready_of_pend hq, not_ready_of_pend hq2]

/-- **In every state of the ring some component is pending.** -/
theorem ring_never_ready (names : List Str) (hn : names.Nodup) (h2 : 2 ≤ names.length) (k : Nat) :
    allPending [] (ringLog names k) = true := by
  obtain ⟨c0, rest, rfl⟩ : ∃ c0 rest, names = c0 :: rest := by
    cases names with
    | nil => simp at h2
    | cons a r => exact ⟨a, r, rfl⟩
  have hname0 : name (c0 :: rest) 0 = c0 := by simp [name]
  have hnot : ∀ c ∈ rest, c ≠ c0 := fun c hc h => by
    subst h; exact (List.nodup_cons.mp hn).1 hc
  unfold ringLog
  rw [allPending_append, allPending_append]
  -- the registrations: `c0` first, the others keep it pending
  have h0 : Pend c0 (apply [] (.add c0)) := pend_add _ _
  have hreg := keep_run (c := c0) (rest.map .add) h0 (by
    intro o ho; obtain ⟨c, _, rfl⟩ := List.mem_map.mp ho; simp)
  have hrdy := keep_run (c := c0) (rest.map .ready) hreg.2 (by
    intro o ho; obtain ⟨c, hc, rfl⟩ := List.mem_map.mp ho
    intro h; injection h with h; exact hnot c hc h)
  have hst := steps (c0 :: rest) hn h2 k _ (by rw [hname0]; exact hrdy.2)
  simp only [List.map_cons, List.drop_succ_cons, List.drop_zero, allPending, List.foldl_cons, not_ready_of_pend h0,
    Bool.not_false, Bool.true_and, hreg.1, hrdy.1]
  simpa using hst.1

/-- a concrete ring -/
example : allPending [] (ringLog ["a".toList, "b".toList, "c".toList] 7) = true := by decide

/-- reading entry by entry is not a snapshot: `a` read before step 0 (ready… no, pending) — concretely, with the ring
`[a, b]` after its set-up (`a` pending, `b` ready), a probe that reads `b` first (ready), lets step 0 happen
(`b` registered again, `a` marked ready) and then reads `a` (ready) has seen "all ready" although no state was -/
theorem torn_read_sees_ready :
    let s0 := fold (ringLog ["a".toList, "b".toList] 0)
    let s1 := fold (ringLog ["a".toList, "b".toList] 1)
    aLookup "b".toList s0 = some true ∧ aLookup "a".toList s1 = some true ∧
    isReady s0 = false ∧ isReady s1 = false := by decide

end AM.C18R
