import AM.Proofs.Forms.AcceptedKey
import AM.Proofs.Forms.AcceptedCert
import AM.Proofs.Forms.AcceptedPassword
import AM.Proofs.C11
/-! C05 — for EVERY line: a login is handed to the correlator only right after the successful
write of a succeeded event, with the line's PID and that event's `userID`; a failed write is
returned as an error and nothing is forwarded; a written succeeded event is forwarded unless the
context is cancelled. Corollaries of `Sshd.process_shape`. -/
namespace AM.C05
open AM AM.Sshd AM.Spec

theorem no_forward_without_success (cfg : Cfg) (pid line : Str) (ok : Bool) (h : Handoff) :
    sendsFollowSuccess (process cfg pid line ok h).effs = true :=
  C11.login_only_with_succeeded_event cfg pid line ok h

theorem write_failure (cfg : Cfg) (pid line : Str) (h : Handoff) :
    sends (process cfg pid line false h) = [] ∧
      (writes (process cfg pid line false h) ≠ [] → (process cfg pid line false h).res = .err) := by
  have hs := process_shape cfg pid line false h
  generalize process cfg pid line false h = o at hs
  cases hs with
  | quiet is _ => exact ⟨sends_incs _ _, fun hw => absurd (writes_incs _ _) hw⟩
  | wfail => exact ⟨by simp [sends], fun _ => rfl⟩
  | wok _ _ _ _ _ hok => cases hok
  | wsend _ _ _ _ _ _ _ hok => cases hok

theorem forwarded_login_matches (cfg : Cfg) (pid line : Str) (ok : Bool) (h : Handoff) (n : Int) (c : Str) :
    (n, c) ∈ sends (process cfg pid line ok h) →
      atoi pid = some n ∧ ∃ e, (e, true) ∈ writes (process cfg pid line ok h) ∧
        e.outcome = "succeeded" ∧ aLookup "userID" e.subjects = some c := by
  have hs := process_shape cfg pid line ok h
  generalize process cfg pid line ok h = o at hs
  intro hm
  cases hs with
  | quiet is _ => simp [sends_incs] at hm
  | wfail => simp [sends] at hm
  | wok => simp [sends] at hm
  | wsend m oc e n' c' _ _ _ _ hout hn hc =>
    simp [sends] at hm
    obtain ⟨rfl, rfl⟩ := hm
    exact ⟨hn, e, by simp [writes], hout, hc⟩

theorem succeeded_event_is_forwarded (cfg : Cfg) (pid line : Str) (e : Ev) :
    (e, true) ∈ writes (process cfg pid line true .ready) → e.outcome = "succeeded" →
      (sends (process cfg pid line true .ready)).length = 1 := by
  have hs := process_shape cfg pid line true .ready
  generalize process cfg pid line true .ready = o at hs
  intro hm hout
  cases hs with
  | quiet is _ => simp [writes_incs] at hm
  | wfail _ _ _ _ _ hok => cases hok
  | wok _ _ e' _ _ _ hcan =>
    simp [writes] at hm
    subst hm
    cases hcan hout
  | wsend => simp [sends]

theorem cancel_is_honoured (cfg : Cfg) (pid line : Str) :
    sends (process cfg pid line true .cancel) = [] ∧ (process cfg pid line true .cancel).res = .nil := by
  have hs := process_shape cfg pid line true .cancel
  generalize process cfg pid line true .cancel = o at hs
  cases hs with
  | quiet is _ => exact ⟨sends_incs _ _, rfl⟩
  | wfail _ _ _ _ _ hok => cases hok
  | wok => exact ⟨by simp [sends], rfl⟩
  | wsend _ _ _ _ _ _ _ _ hr => cases hr

theorem spec_holds (cfg : Cfg) (pid line : Str) (ok : Bool) (h : Handoff) :
    specC05 pid ok h (process cfg pid line ok h) = none := by
  have hs := process_shape cfg pid line ok h
  generalize process cfg pid line ok h = o at hs
  cases hs with
  | quiet is _ =>
    simp only [specC05, sendsFollowSuccess_incs, sends_incs, writes_incs]
    simp
  | wfail m oc e _ _ hok =>
    subst hok
    simp [specC05, sendsFollowSuccess, sends, writes]
  | wok m oc e _ _ hok hcan =>
    subst hok
    simp only [specC05, sendsFollowSuccess, sends, writes]
    cases h with
    | cancel => simp
    | ready =>
      have : e.outcome ≠ "succeeded" := fun h0 => by cases hcan h0
      simp [this]
  | wsend m oc e n c _ _ hok hr hout hn hc =>
    subst hok; subst hr
    simp [specC05, sendsFollowSuccess, sends, writes, hout, hn, hc]

/-- the full trace of the three accepted-authentication forms, for all field values of C06's
domain and every PID token that parses: the metric increment, ONE succeeded event with exactly
the message's fields, then — unless the write fails or the context is cancelled — exactly one
login with the line's PID, the certificate key ID (or `unknown`) and the event just written -/
theorem accepted_forms (cfg : Cfg) (pid : Str) (f : Form) (fs : List Str) (ok : Bool) (h : Handoff)
    (ha : f.accepted = true) (hd : inDomain f fs = true) (hpid : ∃ n, atoi pid = some n) :
    ∀ line, lineOf f fs = some line →
      some (process cfg pid line ok h) = expectedOut cfg pid f fs ok h := by
  cases f <;> simp [Form.accepted] at ha
  · rcases fs with _ | ⟨x0, _ | ⟨x1, _ | ⟨x2, _ | ⟨x3, _ | ⟨x4, _ | ⟨x5, _ | ⟨x6, _ | ⟨y, ys⟩⟩⟩⟩⟩⟩⟩⟩ <;>
      simp [inDomain] at hd
    exact acceptedKey_process cfg pid x0 x1 x2 x3 x4 x5 x6 ok h (by simp [inDomain, hd]) hpid
  · rcases fs with _ | ⟨x0, _ | ⟨x1, _ | ⟨x2, _ | ⟨x3, _ | ⟨x4, _ | ⟨x5, _ | ⟨x6, _ | ⟨x7, _ | ⟨x8, _ | ⟨x9, _ | ⟨x10, _ | ⟨y, ys⟩⟩⟩⟩⟩⟩⟩⟩⟩⟩⟩⟩ <;>
      simp [inDomain] at hd
    exact acceptedCert_process cfg pid x0 x1 x2 x3 x4 x5 x6 x7 x8 x9 x10 ok h (by simp [inDomain, hd]) hpid
  · rcases fs with _ | ⟨x0, _ | ⟨x1, _ | ⟨x2, _ | ⟨x3, _ | ⟨y, ys⟩⟩⟩⟩⟩ <;> simp [inDomain] at hd
    exact acceptedPassword_process cfg pid x0 x1 x2 x3 ok h (by simp [inDomain, hd]) hpid

end AM.C05
