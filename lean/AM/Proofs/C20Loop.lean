import AM.Model.DirLoop
import AM.Proofs.C20
/-! C20, the start-up phase: events that arrive while the files present at start are still being read
are not acted on, so the loop ends start-up in exactly the state `Dir.startup` describes and the
delivered lines are the expected ones — however many events arrive early. With the tempting guard
("all start-up reads launched") the live log's lines are delivered twice. -/
namespace AM.C20L
open AM AM.Dir AM.DirLoop

/-- during start-up an early event changes nothing -/
theorem step_spurious_early (files : List (Str × Str)) (st : LSt) (h : st.over = false) :
    DirLoop.step .namesNil files st .spurious = st := by
  simp [DirLoop.step, honoured, h]

theorem spurious_ignored (files : List (Str × Str)) (st : LSt) (h : st.over = false) (k : Nat) :
    (List.replicate k LIn.spurious).foldl (DirLoop.step .namesNil files) st = st := by
  induction k with
  | zero => rfl
  | succ k ih =>
    rw [List.replicate_succ, List.foldl_cons, step_spurious_early files st h]
    exact ih

/-- the state while the files `n :: r` remain (n in flight), having delivered `pre` -/
def during (files : List (Str × Str)) (off : Nat) (pre : List Str) (n : Str) (r : List Str) : LSt :=
  { todo := r, inflight := some n, over := false,
    w := { file := (aLookup logPrefix files).getD [], rf := { offset := off, lastSz := 0 }, out := pre } }

def liveOff (files : List (Str × Str)) : Nat :=
  ((aLookup logPrefix files).getD []).length - (split [] ((aLookup logPrefix files).getD [])).2.length

/-- offset after the start-up reads of `ns`, starting from `off` -/
def offAfter (files : List (Str × Str)) (off : Nat) (ns : List Str) : Nat :=
  if logPrefix ∈ ns then liveOff files else off

theorem startup_phase (files : List (Str × Str)) (ns : List Str) (early : List Nat)
    (hlen : early.length = ns.length) :
    ∀ (n : Str) (off : Nat) (pre : List Str), ns ≠ [] → ns.head? = some n →
      ((early.flatMap fun k => List.replicate k LIn.spurious ++ [LIn.done]).foldl (DirLoop.step .namesNil files)
        (during files off pre n ns.tail)) =
      { todo := [], inflight := none, over := true,
        w := { file := (aLookup logPrefix files).getD [],
               rf := { offset := offAfter files off ns, lastSz := 0 },
               out := pre ++ ns.flatMap (linesOf files) } } := by
  induction ns generalizing early with
  | nil => intro n off pre h; exact absurd rfl h
  | cons a r ih =>
    intro n off pre _ hn
    simp only [List.head?_cons, Option.some.injEq] at hn
    subst hn
    cases early with
    | nil => simp at hlen
    | cons k ks =>
      simp only [List.length_cons, Nat.add_right_cancel_iff] at hlen
      simp only [List.flatMap_cons, List.foldl_append, List.tail_cons]
      rw [spurious_ignored files _ rfl k]
      cases r with
      | nil =>
        have hks : ks = [] := List.eq_nil_of_length_eq_zero (by simpa using hlen)
        subst hks
        by_cases ha : a = logPrefix
        · subst ha
          simp [during, DirLoop.step, offAfter, liveOff, linesOf]
        · have : logPrefix ≠ a := fun h => ha h.symm
          simp [during, DirLoop.step, offAfter, ha, this, linesOf]
      | cons b r' =>
        have step1 : [LIn.done].foldl (DirLoop.step .namesNil files) (during files off pre a (b :: r')) =
            during files (if a = logPrefix then liveOff files else off) (pre ++ linesOf files a) b r' := by
          by_cases ha : a = logPrefix
          · subst ha; simp [during, DirLoop.step, liveOff]
          · simp [during, DirLoop.step, ha]
        rw [step1]
        have := ih ks hlen b (if a = logPrefix then liveOff files else off) (pre ++ linesOf files a) (by simp) rfl
        simp only [List.tail_cons] at this
        rw [this]
        congr 2
        · congr 1
          simp only [offAfter, List.mem_cons]
          by_cases ha : a = logPrefix
          · subst ha; simp
          · have : logPrefix ≠ a := fun h => ha h.symm
            simp [ha, this]
        · simp [List.append_assoc]

theorem mem_sortNames_live (names : List Str) : logPrefix ∈ sortNames names ↔ logPrefix ∈ names := by
  unfold sortNames
  rw [(List.mergeSort_perm _ _).mem_iff, List.mem_filter]
  constructor
  · exact fun h => h.1
  · intro h; exact ⟨h, by decide⟩

theorem liveOff_zero_of_absent (files : List (Str × Str)) (h : logPrefix ∉ files.map (·.1)) :
    liveOff files = 0 := by
  have : aLookup logPrefix files = none := by
    cases hl : aLookup logPrefix files with
    | none => rfl
    | some c =>
      exfalso; apply h
      exact List.mem_map.mpr ⟨(logPrefix, c), aLookup_mem hl, rfl⟩
  simp [liveOff, this]

/-- start-up ends in exactly the state the atomic model `Dir.startup` describes, however many events
arrive while the files are being read -/
theorem loop_startup (files : List (Str × Str)) (early : List Nat)
    (hlen : early.length = (sortNames (files.map (·.1))).length) :
    (DirLoop.run .namesNil files (script early [])).w = Dir.startup files ∧
    (DirLoop.run .namesNil files (script early [])).over = true := by
  unfold DirLoop.run script
  simp only [List.map_nil, List.append_nil]
  cases hs : sortNames (files.map (·.1)) with
  | nil =>
    rw [hs] at hlen
    have he : early = [] := List.eq_nil_of_length_eq_zero (by simpa using hlen)
    subst he
    have hno : logPrefix ∉ files.map (·.1) := by
      intro hc
      have := (mem_sortNames_live _).mpr hc
      rw [hs] at this; cases this
    have hz := liveOff_zero_of_absent files hno
    simp only [liveOff] at hz
    constructor
    · simp [DirLoop.start, hs, Dir.startup, hz]
    · simp [DirLoop.start, hs]
  | cons n r =>
    have hstart : DirLoop.start files = during files 0 [] n r := by
      simp [DirLoop.start, hs, during]
    rw [hstart]
    have := startup_phase files (n :: r) early (by rw [hlen, hs]) n 0 [] (by simp) rfl
    simp only [List.tail_cons] at this
    rw [this]
    refine ⟨?_, rfl⟩
    simp only [Dir.startup, hs, List.nil_append]
    congr 1
    congr 1
    simp only [offAfter]
    split
    · rfl
    · rename_i hno
      have hno' : logPrefix ∉ files.map (·.1) := by
        intro hc
        apply hno
        have := (mem_sortNames_live _).mpr hc
        rwa [hs] at this
      exact (liveOff_zero_of_absent files hno').symm

/-- once start-up is over the loop acts on every change exactly as `Dir.step` does -/
theorem after_startup (files : List (Str × Str)) (st : LSt) (h : st.over = true) (ops : List FsOp) :
    ((ops.map LIn.event).foldl (DirLoop.step .namesNil files) st).w = ops.foldl Dir.step st.w ∧
    ((ops.map LIn.event).foldl (DirLoop.step .namesNil files) st).over = true := by
  induction ops generalizing st with
  | nil => exact ⟨rfl, h⟩
  | cons op ops ih =>
    simp only [List.map_cons, List.foldl_cons]
    have hs : DirLoop.step .namesNil files st (.event op) = { st with w := Dir.step st.w op } := by
      simp [DirLoop.step, honoured, h]
    rw [hs]
    exact ih _ h

/-- C20 for the loop: the lines received are the expected ones — the complete lines of the files present at
start, oldest rotation first, then every line completed in the live log, once, in order — whatever number
of events arrives while start-up is still reading -/
theorem loop_lines (files : List (Str × Str)) (early : List Nat) (ops : List FsOp)
    (hlen : early.length = (sortNames (files.map (·.1))).length) :
    (DirLoop.run .namesNil files (script early ops)).w.out = Dir.expected files ops := by
  have h0 := loop_startup files early hlen
  unfold DirLoop.run script at h0 ⊢
  simp only [List.map_nil, List.append_nil] at h0
  rw [List.foldl_append]
  have h1 := after_startup files _ h0.2 ops
  rw [h1.1, h0.1]
  exact AM.C20.lines files ops

/-- the guard matters: acting on events as soon as the last start-up read has been LAUNCHED delivers the live
log's lines twice when an event arrives while that read is in flight -/
theorem sort_single : sortNames ([(logPrefix, "a\nb\n".toList)].map (·.1)) = [logPrefix] := by
  have : logPrefix.isPrefixOf logPrefix = true := by decide
  simp [sortNames, this]

theorem tempting_guard_duplicates :
    (DirLoop.run .allLaunched [(logPrefix, "a\nb\n".toList)] (script [1] [])).w.out =
      ["a".toList, "b".toList, "a".toList, "b".toList] ∧
    Dir.expected [(logPrefix, "a\nb\n".toList)] [] = ["a".toList, "b".toList] := by
  constructor
  · simp only [DirLoop.run, script, DirLoop.start, sort_single]
    decide
  · simp only [Dir.expected, sort_single]
    decide

end AM.C20L
