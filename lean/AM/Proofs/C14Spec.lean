import AM.Spec.Tracker
import AM.Proofs.C04Spec
/-! C14, the judge and the theorem meet: the executable rendering clause `Spec.Tracker.specRender` holds of the
model's own observation for EVERY history and every write oracle. -/
namespace AM.C14S
open AM AM.Tr AM.Spec.Tracker

/-- what `toAuditEvent` produces passes every rendering clause against the event it was produced from -/
theorem renders (l : Login) (e : AEvent) (idx : Nat) :
    renderClause e ⟨(toAuditEvent l e).1, (toAuditEvent l e).2.1, (toAuditEvent l e).2.2, idx⟩ = none := by
  simp only [renderClause, toAuditEvent]
  by_cases hr : e.result = strOf "success" <;> by_cases ha : e.args.isEmpty = true <;>
    simp [hr, ha, aLookup]

theorem render_spec_holds (failAt : Option Nat) (h : List Op) :
    specRender h (modelObs failAt h).1 = none := by
  have htag := AM.C04S.runTrace_tagged h [] h { failAt := failAt } [] rfl (inv_init failAt) (by simp)
  simp only [List.length_nil] at htag
  unfold specRender modelObs
  generalize runTrace { failAt := failAt } 0 h [] = r at htag
  obtain ⟨ems, st, e, eat⟩ := r
  simp only
  apply List.findSome?_eq_none_iff.mpr
  intro a ha
  obtain ⟨p, hp, rfl⟩ := List.mem_map.mp ha
  obtain ⟨hev, _⟩ := htag p hp
  obtain ⟨i, now, _, hgi⟩ := AM.C04S.auditsOf_take h (p.2 + 1) p.1.ev hev
  have hrec : (i, p.1.ev) ∈ auditRecs h := by
    unfold auditRecs idxOps
    apply List.mem_filterMap.mpr
    exact ⟨(i, .audit p.1.ev now), (AM.C04S.mem_zip_range h i _).mpr hgi, rfl⟩
  have hany : ((auditRecs h).any fun r => r.2.ts = (toAuditEvent p.1.login p.1.ev).2.2 &&
      (renderClause r.2 ⟨(toAuditEvent p.1.login p.1.ev).1, (toAuditEvent p.1.login p.1.ev).2.1,
        (toAuditEvent p.1.login p.1.ev).2.2, p.2⟩).isNone) = true := by
    apply List.any_eq_true.mpr
    refine ⟨(i, p.1.ev), hrec, ?_⟩
    simp only [Bool.and_eq_true, decide_eq_true_eq]
    exact ⟨rfl, by rw [renders]; rfl⟩
  simp only [hany, if_true]


/-- **Every emitted event carries, as a whole, the identity of one delivered login** — for every history and every
write oracle. -/
theorem whole_identity_spec_holds (failAt : Option Nat) (h : List Op) :
    specWholeIdentity h (modelObs failAt h).1 = none := by
  have htag := AM.C04S.runTrace_tagged h [] h { failAt := failAt } [] rfl (inv_init failAt) (by simp)
  simp only [List.length_nil] at htag
  unfold specWholeIdentity modelObs
  generalize runTrace { failAt := failAt } 0 h [] = r at htag
  obtain ⟨ems, st, e, eat⟩ := r
  simp only
  apply List.findSome?_eq_none_iff.mpr
  intro a ha
  obtain ⟨p, hp, rfl⟩ := List.mem_map.mp ha
  obtain ⟨_, hlg, _⟩ := htag p hp
  obtain ⟨j, _, hgj⟩ := AM.C04S.loginsOf_take h (p.2 + 1) p.1.login hlg
  have hlog : (j, p.1.login) ∈ loginOps h := by
    unfold loginOps idxOps
    apply List.mem_filterMap.mpr
    exact ⟨(j, .remoteLogin p.1.login), (AM.C04S.mem_zip_range h j _).mpr hgj, rfl⟩
  have hany : ((loginOps h).any fun l => decide (identOf l.2 =
      (⟨(toAuditEvent p.1.login p.1.ev).1, (toAuditEvent p.1.login p.1.ev).2.1,
        (toAuditEvent p.1.login p.1.ev).2.2, p.2⟩ : ObsAction).identity)) = true := by
    apply List.any_eq_true.mpr
    exact ⟨(j, p.1.login), hlog, by simp [identOf, ObsAction.identity, toAuditEvent]⟩
  simp only [hany, if_true]

end AM.C14S
