import AM.Model.Workers
/-! # C13 — workers stop promptly on cancellation in every state, incl. back-pressure

The worker automata of `AM.Model.Workers` take their blocking behaviour from the facts that
`tools/extract` regenerates from the working tree on every run. `gen_good` is therefore an
obligation *about the current source*: it fails to check as soon as a send loses its `ctx.Done()`
arm, the closer Go routine disappears, the open is no longer raced against the context, `Read` stops
joining its Go routines, or a worker function gains a `return nil`.

* `ingester_stops`: for both pipe ingesters, in each blocking state — waiting for a writer to open
  the pipe, blocked reading an idle pipe, blocked handing a record downstream — for EVERY buffer
  capacity and occupancy (empty … full), once the context is cancelled every maximal sequence of the
  worker's own steps (no writer, no data, no consumer) ends in `returned` within 3 steps.
* `processor_stops`: the audit processor returns within 8 own steps of its three Go routines from
  every state of them, and nothing is delivered after it has returned (`late` stays false).
* `nothing_after_return`: `returned` has no successor.
* `bare_send_stuck`, `no_closer_stuck`, `blocking_open_stuck`, `no_join_delivers_late`: each fact
  is necessary — without it the corresponding state never settles (these are the shapes of F3/F7). -/
namespace AM.C13
open AM.Wk AM.Gen

/-- the regenerated facts satisfy what the theorems need (checked against the current source) -/
theorem gen_good : fromGen.good = true := by decide

theorem good_core (f : Facts) (h : f.good = true) : f.core = Core.ok := by
  simp only [Facts.good, Bool.and_eq_true, decide_eq_true_eq, beq_iff_eq] at h
  obtain ⟨⟨⟨⟨⟨⟨⟨⟨⟨⟨⟨⟨⟨⟨⟨h1, h2⟩, h3⟩, h4⟩, h5⟩, h6⟩, h7⟩, h8⟩, h9⟩, h10⟩, h11⟩, h12⟩, _⟩, _⟩, _⟩, _⟩ := h
  simp [Facts.core, Core.ok, h1, h2, h3, h4, h5, h6, h7, h8, h9, h10, h11, h12]

/-- **Pipe ingesters.** Every blocking state, every capacity, every occupancy. -/
theorem ingester_stops_core (cb : Callback) (cap : Nat) (s : IS) :
    isettles Core.ok cb true cap 3 s = true := by
  obtain ⟨ph, len⟩ := s
  cases ph with
  | opening => simp [isettles, istep, Core.ok]
  | reading => simp [isettles, istep, Core.ok]
  | returned e => simp [isettles]
  | handing =>
    cases cb with
    | sshd => simp [isettles, istep, Core.ok]
    | audit =>
      by_cases h : len < cap <;> simp [isettles, istep, Core.ok, h]

theorem ingester_stops (f : Facts) (h : f.good = true) (cb : Callback) (cap : Nat) (s : IS) :
    isettles f.core cb true cap 3 s = true := by
  rw [good_core f h]; exact ingester_stops_core cb cap s

/-- … for the current source -/
theorem ingester_stops_now (cb : Callback) (cap : Nat) (s : IS) :
    isettles fromGen.core cb true cap 3 s = true := ingester_stops fromGen gen_good cb cap s

/-- a worker that has returned does nothing more -/
theorem nothing_after_return (f : Core) (cb : Callback) (c : Bool) (cap len : Nat) (e : Bool) :
    istep f cb c cap ⟨.returned e, len⟩ = [] := rfl

/-- whenever an ingester returns, it returns a non-nil error (so the group is cancelled) -/
theorem ingester_returns_error (f : Core) (cb : Callback) (c : Bool) (cap : Nat) (s s' : IS) (e : Bool)
    (h : s' ∈ istep f cb c cap s) (hr : s'.ph = .returned e) : e = true := by
  obtain ⟨ph, len⟩ := s
  cases ph with
  | opening => simp only [istep] at h; split at h <;> simp_all
  | reading => simp only [istep] at h; split at h <;> simp_all
  | returned e' => simp [istep] at h
  | handing =>
    cases cb with
    | sshd => simp only [istep] at h; split at h <;> simp_all
    | audit =>
      simp only [istep, List.mem_append] at h
      rcases h with h | h <;> (split at h <;> simp_all)

/-- **The audit processor.** From every state of its Go routines (in their `select` or busy with an
item), after cancellation: `Read` returns within 8 own steps and nothing is delivered afterwards. -/
theorem processor_stops_core (p m : GPhase) :
    rsettles Core.ok true 8 ⟨.selecting, p, m, false, false⟩ = true := by
  cases p <;> cases m <;> decide

/-- the same when `Read` returns because of an error of its own (no outside cancellation): its Go
routines run on the context it cancels, so it does not wait for ever -/
theorem processor_fails_core (p m : GPhase) :
    rsettles Core.ok false 8 ⟨.failing, p, m, false, false⟩ = true := by
  cases p <;> cases m <;> decide

theorem processor_stops (f : Facts) (h : f.good = true) (p m : GPhase) :
    rsettles f.core true 8 ⟨.selecting, p, m, false, false⟩ = true ∧
    rsettles f.core false 8 ⟨.failing, p, m, false, false⟩ = true := by
  rw [good_core f h]; exact ⟨processor_stops_core p m, processor_fails_core p m⟩

theorem processor_stops_now (p m : GPhase) :
    rsettles fromGen.core true 8 ⟨.selecting, p, m, false, false⟩ = true :=
  (processor_stops fromGen gen_good p m).1

/-! ### each fact is necessary (the shapes of the defects F3 and F7) -/

/-- a bare send: with the buffer full and the consumer gone the ingester never returns -/
theorem bare_send_stuck (n cap : Nat) :
    isettles { Core.ok with auditOk := false } .audit true cap n ⟨.handing, cap⟩ = false := by
  cases n <;> simp [isettles, istep]

theorem no_closer_stuck (n cap len : Nat) (cb : Callback) :
    isettles { Core.ok with closerOk := false } cb true cap n ⟨.reading, len⟩ = false := by
  cases n <;> simp [isettles, istep]

/-- … and so is a closer whose `Close` cannot reach the reader: one call of `Fd()` on the pipe (it puts the
descriptor into blocking mode, off the runtime poller) and the worker blocked on an idle pipe never returns -/
theorem fd_call_stuck (f : Facts) (hfd : f.fdCalls ≠ 0) (n cap len : Nat) (cb : Callback) :
    isettles f.core cb true cap n ⟨.reading, len⟩ = false := by
  have hc : f.core.closerOk = false := by
    cases hcl : f.closerOnCtx <;> simp [Facts.core, hcl, hfd]
  cases n <;> simp [isettles, istep, hc]

theorem blocking_open_stuck (n cap len : Nat) (cb : Callback) :
    isettles { Core.ok with openOk := false } cb true cap n ⟨.opening, len⟩ = false := by
  cases n <;> simp [isettles, istep]

/-- without the join a busy parser delivers after `Read` has returned -/
theorem no_join_delivers_late :
    rsettles { Core.ok with joins := false } true 8 ⟨.selecting, .busy, .idle, false, false⟩ = false := by
  decide

/-- the hypotheses are met: the states quantified over are the blocking states of the property -/
example : isettles fromGen.core .audit true 4 3 ⟨.handing, 4⟩ = true ∧      -- full buffer, capacity 4
          isettles fromGen.core .audit true 0 3 ⟨.handing, 0⟩ = true ∧      -- unbuffered
          isettles fromGen.core .sshd true 0 3 ⟨.handing, 0⟩ = true ∧       -- unready correlator
          isettles fromGen.core .sshd true 0 3 ⟨.opening, 0⟩ = true ∧
          isettles fromGen.core .audit false 4 3 ⟨.handing, 4⟩ = false :=     -- not cancelled: really blocked
  ⟨by decide, by decide, by decide, by decide, by decide⟩

end AM.C13
