import AM.Proofs.Forms.HelpersC
/-! `User <user> not allowed because shell <shell> is not executable` — for every user name and shell
without a newline where the shell neither contains the separator ` not allowed because shell ` nor
the separator without its leading blank (which would overlap the separator's trailing blank), the
event carries exactly those values. -/
namespace AM.Sshd
open AM AM.Rx AM.Spec AM.Gen

theorem nonExecShell_forced (u sh : Str)
    (hd : inDomain .nonExecShell [u, sh] = true) :
    Forced userNonExecutableShellRE.items true [u, sh] [] := by
  simp only [inDomain, Bool.and_eq_true] at hd
  obtain ⟨⟨⟨⟨hu, hsh⟩, _⟩, hl1⟩, hl2⟩ := hd
  simp only [userNonExecutableShellRE, Forced, build, List.append_nil]
  refine ⟨noNL_any hu, Nat.zero_le _, ⟨noNL_any hsh, Nat.zero_le _, by simp, ?_⟩, ?_⟩
  · apply noLater_lit_len
    intro j hj hlen
    simp [minLen] at hlen
    omega
  · apply noLater_lit_len
    intro j hj hlen hp
    simp only [minLen, List.length_append] at hlen
    rw [← List.append_assoc] at hp
    have := prefix_drop_trunc _ _ _ j (by simp only [List.length_append]; omega) hp
    exact shellSep_no_occ sh hl1 hl2 j hj this

theorem nonExecShell_process (cfg : Cfg) (pid u sh : Str) (ok : Bool) (h : Handoff)
    (hd : inDomain .nonExecShell [u, sh] = true) :
    ∀ line, lineOf .nonExecShell [u, sh] = some line →
      some (process cfg pid line ok h) = expectedOut cfg pid .nonExecShell [u, sh] ok h := by
  intro line hl
  have hf := nonExecShell_forced u sh hd
  have hfind := find_of_forced userNonExecutableShellRE [u, sh] [] hf
  have hline : line = build userNonExecutableShellRE.items [u, sh] ++ [] := by
    simp [lineOf, Spec.s] at hl
    simp [userNonExecutableShellRE, build, ← hl]
  rw [← hline] at hfind
  have hl2 : "User ".toList ++
      ((u ++ (" not allowed because shell ".toList ++ sh)) ++ " is not executable".toList) = line := by
    simp [lineOf, Spec.s] at hl
    simp [← hl]
  have hdisp : firstCase dispatch line = dispatch[4]? := by
    have h1 := firstCase_skip dispatch "User ".toList
      (u ++ (" not allowed because shell ".toList ++ sh)) " is not executable".toList
    have hs : skipCount dispatch "User ".toList " is not executable".toList = 4 := by decide
    rw [hs, hl2] at h1
    rw [h1]
    simp only [dispatch, List.drop_succ_cons, List.drop_zero]
    rw [firstCase_hit]
    · rfl
    · simp [Cond.holds, ← hl2]
  have hudisp : firstCase userDispatch line = userDispatch[2]? := by
    have h1 := firstCase_skip userDispatch "User ".toList
      (u ++ (" not allowed because shell ".toList ++ sh)) " is not executable".toList
    have hs : skipCount userDispatch "User ".toList " is not executable".toList = 2 := by decide
    rw [hs, hl2] at h1
    rw [h1]
    simp only [userDispatch, List.drop_succ_cons, List.drop_zero]
    rw [firstCase_hit]
    · rfl
    · simp [Cond.holds, Pat.isMatch, hfind]
  rw [process_of_user_case cfg pid line ok h _ _ _ hdisp (by decide) hudisp rfl]
  simp only [userShell]
  rw [simple_hit _ _ cfg pid line ok h _ _ _ hfind]
  cases ok <;> simp [writeOnly, incEffs, expectedOut, expectedEv, Form.accepted, expectedInc,
    capsOf, userNonExecutableShellRE, grp, Pat.group, lookupCap]

end AM.Sshd
