import AM.Proofs.SshdCommon
/-! `Accepted password for <user> from <addr> port <port> ssh<ver>` — for every user name without
a newline, every address without white space and every decimal port, the succeeded event carries
exactly those values and the login is handed off with the line's PID. -/
namespace AM.Sshd
open AM AM.Rx AM.Spec AM.Gen

theorem acceptedPassword_forced (u a p v : Str)
    (hd : inDomain .acceptedPassword [u, a, p, v] = true) :
    Forced passwordLoginRE.items passwordLoginRE.anchE [u, a, p, v] [] := by
  simp only [inDomain, noSpace, digits, alnums, Bool.and_eq_true, Bool.not_eq_true',
    List.isEmpty_eq_false_iff] at hd
  obtain ⟨⟨⟨hu, ha⟩, hp0, hp⟩, hv0, hv⟩ := hd
  have ha' := allIn_of_all ha
  have hp' := allIn_of_all hp
  have hv' := allIn_of_all hv
  have cp := count_zero_of_allIn _ ' ' p hp' mem_sp_digit
  have cv := count_zero_of_allIn _ ' ' v hv' mem_sp_alnum
  have ca := count_zero_of_allIn _ ' ' a ha' mem_sp_nonspace
  simp only [passwordLoginRE, Forced, build, List.append_nil]
  refine ⟨noNL_any hu, Nat.zero_le _, ⟨allIn_mono ha' nonspace_any, Nat.zero_le _,
      ⟨hp', ?_, ⟨hv', ?_, by simp, ?_⟩, ?_⟩, ?_⟩, ?_⟩
  · exact List.length_pos_iff.mpr hp0
  · exact List.length_pos_iff.mpr hv0
  · exact noLater_boundary _ _ _ _ (Or.inl rfl)
  · exact noLater_boundary _ _ _ _ (Or.inr ⟨' ', _, rfl, by decide⟩)
  · exact noLater_count ' ' _ _ _ _ _ rfl (by simp [litCount, List.count_append, cp, cv])
  · exact noLater_count ' ' _ _ _ _ _ rfl (by simp [litCount, List.count_append, cp, cv, ca])

theorem acceptedPassword_process (cfg : Cfg) (pid u a p v : Str) (ok : Bool) (h : Handoff)
    (hd : inDomain .acceptedPassword [u, a, p, v] = true)
    (hpid : ∃ n, atoi pid = some n) :
    ∀ line, lineOf .acceptedPassword [u, a, p, v] = some line →
      some (process cfg pid line ok h) = expectedOut cfg pid .acceptedPassword [u, a, p, v] ok h := by
  intro line hl
  obtain ⟨n, hn⟩ := hpid
  have hf := acceptedPassword_forced u a p v hd
  have hfind := find_of_forced passwordLoginRE [u, a, p, v] [] hf
  have hline : line = build passwordLoginRE.items [u, a, p, v] ++ [] := by
    simp [lineOf, Spec.s] at hl
    simp [passwordLoginRE, build, ← hl]
  rw [← hline] at hfind
  have hdisp : firstCase dispatch line = dispatch[1]? := by
    have h1 := firstCase_skip dispatch "Accepted password for ".toList
      (u ++ (" from ".toList ++ (a ++ (" port ".toList ++ (p ++ (" ssh".toList ++ v)))))) []
    have hs : skipCount dispatch "Accepted password for ".toList [] = 1 := by decide
    have hl2 : "Accepted password for ".toList ++
        ((u ++ (" from ".toList ++ (a ++ (" port ".toList ++ (p ++ (" ssh".toList ++ v)))))) ++ []) = line := by
      simp [lineOf, Spec.s] at hl
      simp [← hl]
    rw [hs, hl2] at h1
    rw [h1]
    simp only [dispatch, List.drop_succ_cons, List.drop_zero]
    rw [firstCase_hit]
    · rfl
    · simp [Cond.holds, ← hl2]
  rw [process_of_case cfg pid line ok h _ _ hdisp (by decide) rfl]
  simp only [acceptedPassword, hn, hfind]
  cases ok <;> cases h <;> simp [writeAndSend, incEffs, expectedOut, expectedEv, Form.accepted,
    expectedInc, expectedCred, hn, capsOf, passwordLoginRE, grp, Pat.group, lookupCap]

end AM.Sshd
