import AM.Proofs.Forms.HelpersC
/-! `Authentication refused for <user>: bad owner or modes for <file>` — for every user name
without a newline and every file path without a newline that does not contain the separator
`: bad owner or modes for `, the event carries exactly those values. -/
namespace AM.Sshd
open AM AM.Rx AM.Spec AM.Gen

theorem badOwner_forced (u f : Str)
    (hd : inDomain .badOwner [u, f] = true) :
    Forced badOwnerOrModesForHostFileRE.items true [u, f] [] := by
  simp only [inDomain, Bool.and_eq_true] at hd
  obtain ⟨⟨⟨hu, hf⟩, _⟩, hlf⟩ := hd
  have hlf' := lacks_spec f _ hlf
  simp only [badOwnerOrModesForHostFileRE, Forced, build, List.append_nil]
  refine ⟨noNL_any hu, Nat.zero_le _, ⟨noNL_any hf, Nat.zero_le _, by simp, ?_⟩, ?_⟩
  · exact noLater_boundary _ _ _ _ (Or.inl rfl)
  · apply noLater_lit
    intro j hj _ _
    apply no_occ_append _ _ _ hlf' _ j hj
    intro k hk0 hk
    apply not_prefix_of_mismatch'
    have : ∀ k, k < 25 → 0 < k →
        mismatch ": bad owner or modes for ".toList (": bad owner or modes for ".toList.drop k) = true := by
      decide
    exact this k (by simpa using hk) hk0

theorem badOwner_process (cfg : Cfg) (pid u f : Str) (ok : Bool) (h : Handoff)
    (hd : inDomain .badOwner [u, f] = true) :
    ∀ line, lineOf .badOwner [u, f] = some line →
      some (process cfg pid line ok h) = expectedOut cfg pid .badOwner [u, f] ok h := by
  intro line hl
  have hf := badOwner_forced u f hd
  have hfind := find_of_forced badOwnerOrModesForHostFileRE [u, f] [] hf
  have hline : line = build badOwnerOrModesForHostFileRE.items [u, f] ++ [] := by
    simp [lineOf, Spec.s] at hl
    simp [badOwnerOrModesForHostFileRE, build, ← hl]
  rw [← hline] at hfind
  have hdisp : firstCase dispatch line = dispatch[6]? := by
    have h1 := firstCase_skip dispatch "Authentication refused for ".toList
      (u ++ (": bad owner or modes for ".toList ++ f)) []
    have hs : skipCount dispatch "Authentication refused for ".toList [] = 6 := by decide
    have hl2 : "Authentication refused for ".toList ++
        ((u ++ (": bad owner or modes for ".toList ++ f)) ++ []) = line := by
      simp [lineOf, Spec.s] at hl
      simp [← hl]
    rw [hs, hl2] at h1
    rw [h1]
    simp only [dispatch, List.drop_succ_cons, List.drop_zero]
    rw [firstCase_hit]
    · rfl
    · simp [Cond.holds, Pat.isMatch, hfind]
  rw [process_of_case cfg pid line ok h _ _ hdisp (by decide) rfl]
  simp only [badOwner]
  rw [simple_hit _ _ cfg pid line ok h _ _ _ hfind]
  cases ok <;> simp [writeOnly, incEffs, expectedOut, expectedEv, Form.accepted, expectedInc,
    capsOf, badOwnerOrModesForHostFileRE, grp, Pat.group, lookupCap]

end AM.Sshd
