import AM.Proofs.SshdCommon
/-! General-purpose helpers for the `User … shell …`, `bad owner` and `Certificate invalid` proofs:
a length-aware variant of `noLater_lit` and lemmas on occurrences of a literal in `a ++ x`. -/
namespace AM.Sshd
open AM AM.Rx AM.Spec AM.Gen

/-- least number of bytes a parse of the items consumes (a `.one` item is counted as 0) -/
def minLen : List Item → Nat
  | [] => 0
  | .lit l :: is => l.length + minLen is
  | .one _ :: is => minLen is
  | .rep _ mn _ :: is => mn + minLen is

theorem parse_minLen {is e s caps r} (h : Parse is e s caps r) : minLen is ≤ s.length := by
  induction h with
  | nilOpen s => simp [minLen]
  | nilEnd => simp [minLen]
  | lit _ ih => simp only [minLen, List.length_append]; omega
  | @one c is e b t caps r _ _ ih =>
    simp only [minLen]
    have := List.length_drop (i := runeWidth (b :: t)) (l := b :: t)
    omega
  | rep x _ hmn _ ih => simp only [minLen, List.length_append]; omega

/-- literal occurrence, length-aware: the next literal `l` does not occur at any later offset `j`
that still leaves room for the remaining items -/
theorem noLater_lit_len (c : Cls) (l : Str) (is : List Item) (e : Bool) (t : Str)
    (h : ∀ j, 0 < j → j + (l.length + minLen is) ≤ t.length → ¬ l <+: t.drop j) :
    NoLater c (.lit l :: is) e t := by
  intro j hj hjl _ caps r hp
  have h1 := parse_minLen hp
  simp only [minLen, List.length_drop] at h1
  exact h j hj (by omega) (parse_lit_prefix hp)

/-- an occurrence at offset `j` of `y ++ z` that ends inside `y` is an occurrence in `y` -/
theorem prefix_drop_trunc (l y z : Str) (j : Nat) (hlen : j + l.length ≤ y.length)
    (h : l <+: (y ++ z).drop j) : l <+: y.drop j := by
  rw [List.drop_append] at h
  exact List.prefix_of_prefix_length_le h (List.prefix_append _ _) (by simp; omega)

/-- `l` occurs in `a ++ x` at no positive offset if it does not occur in `x` and no proper
suffix of `a` followed by `x` starts with `l` -/
theorem no_occ_append (l a x : Str) (hx : ∀ i, ¬ l <+: x.drop i)
    (hov : ∀ k, 0 < k → k < a.length → ¬ l <+: a.drop k ++ x) :
    ∀ j, 0 < j → ¬ l <+: (a ++ x).drop j := by
  intro j hj h
  rw [List.drop_append] at h
  by_cases hja : j < a.length
  · have : j - a.length = 0 := by omega
    rw [this, List.drop_zero] at h
    exact hov j hj hja h
  · rw [List.drop_eq_nil_of_le (by omega), List.nil_append] at h
    exact hx _ h

theorem not_prefix_of_mismatch' (l hd x : Str) (h : mismatch l hd = true) : ¬ l <+: hd ++ x := by
  intro hp
  have := not_prefix_of_mismatch l hd x h
  rw [List.isPrefixOf_iff_prefix.mpr hp] at this
  cases this

/-- the separator ` not allowed because shell ` occurs in `sep ++ sh` at no positive offset -/
theorem shellSep_no_occ (sh : Str)
    (h1 : lacks sh " not allowed because shell " = true)
    (h2 : lacks sh "not allowed because shell " = true) :
    ∀ j, 0 < j → ¬ " not allowed because shell ".toList <+:
      (" not allowed because shell ".toList ++ sh).drop j := by
  apply no_occ_append _ _ _ (lacks_spec sh _ h1)
  intro k hk0 hk
  by_cases h26 : k = 26
  · subst h26
    intro hp
    have hp' : "not allowed because shell ".toList <+: sh.drop 0 := by
      have : " not allowed because shell ".toList.drop 26 ++ sh = ' ' :: sh := by
        simp
      rw [this] at hp
      have : " not allowed because shell ".toList = ' ' :: "not allowed because shell ".toList := by
        simp
      rw [this] at hp
      simpa using (List.cons_prefix_cons.mp hp).2
    exact lacks_spec sh _ h2 0 hp'
  · apply not_prefix_of_mismatch'
    have : ∀ k, k < 27 → 0 < k → k ≠ 26 →
        mismatch " not allowed because shell ".toList (" not allowed because shell ".toList.drop k) = true := by
      decide
    exact this k (by simpa using hk) hk0 h26

end AM.Sshd
