import AM.Proofs.SshdCommon
import AM.Proofs.Forms.HelpersB
/-! `User <user> from <addr> not allowed because not in any group` — for EVERY user name
without a newline (blanks and embedded ` from ` included) and every address without white space,
the event carries exactly those values. -/
namespace AM.Sshd
open AM AM.Rx AM.Spec AM.Gen

theorem notInAnyGroup_forced (u a : Str)
    (hd : inDomain .notInAnyGroup [u, a] = true) :
    Forced userNotInAnyGroupRE.items userNotInAnyGroupRE.anchE [u, a] [] := by
  simp only [inDomain, Bool.and_eq_true] at hd
  exact userFrom_forced_items _ _ rfl u a hd.1 hd.2

theorem notInAnyGroup_process (cfg : Cfg) (pid u a : Str) (ok : Bool) (h : Handoff)
    (hd : inDomain .notInAnyGroup [u, a] = true) :
    ∀ line, lineOf .notInAnyGroup [u, a] = some line →
      some (process cfg pid line ok h) = expectedOut cfg pid .notInAnyGroup [u, a] ok h := by
  intro line hl
  have hf := notInAnyGroup_forced u a hd
  have hfind := find_of_forced userNotInAnyGroupRE [u, a] [] hf
  have hline : line = build userNotInAnyGroupRE.items [u, a] ++ [] := by
    simp [lineOf, Spec.s] at hl
    simp [userNotInAnyGroupRE, build, ← hl]
  rw [← hline] at hfind
  have hl2 : "User ".toList ++ ((u ++ (" from ".toList ++ a)) ++
      " not allowed because not in any group".toList) = line := by
    simp [lineOf, Spec.s] at hl
    simp [← hl]
  have hdisp : firstCase dispatch line = dispatch[4]? := by
    have h1 := firstCase_skip dispatch "User ".toList (u ++ (" from ".toList ++ a))
      " not allowed because not in any group".toList
    have hs : skipCount dispatch "User ".toList
        " not allowed because not in any group".toList = 4 := by decide
    rw [hs, hl2] at h1
    rw [h1]
    simp only [dispatch, List.drop_succ_cons, List.drop_zero]
    rw [firstCase_hit]
    · rfl
    · rw [← hl2]; simp [Cond.holds]
  have hudisp : firstCase userDispatch line = userDispatch[4]? := by
    have h1 := firstCase_skip userDispatch "User ".toList (u ++ (" from ".toList ++ a))
      " not allowed because not in any group".toList
    have hs : skipCount userDispatch "User ".toList
        " not allowed because not in any group".toList = 4 := by decide
    rw [hs, hl2] at h1
    rw [h1]
    simp only [userDispatch, List.drop_succ_cons, List.drop_zero]
    rw [firstCase_hit]
    · rfl
    · simp [Cond.holds, Pat.isMatch, hfind]
  rw [process_of_user_case cfg pid line ok h _ _ _ hdisp (by decide) hudisp rfl]
  simp only [userFrom]
  rw [simple_hit _ _ cfg pid line ok h _ _ _ hfind]
  cases ok <;> simp [writeOnly, incEffs, expectedOut, expectedEv, Form.accepted, expectedInc,
    capsOf, userNotInAnyGroupRE, grp, Pat.group, lookupCap]

end AM.Sshd
