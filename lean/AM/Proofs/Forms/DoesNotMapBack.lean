import AM.Proofs.SshdCommon
import AM.Proofs.Forms.HelpersD
/-! `Address <addr> maps to <dns>, but this does not map back to the address.` — for every
address without white space and every DNS name without a newline that does not contain
`maps to ` the event carries exactly those values. -/
namespace AM.Sshd
open AM AM.Rx AM.Spec AM.Gen

theorem doesNotMapBack_forced (a d : Str)
    (hd : inDomain .doesNotMapBack [a, d] = true) :
    Forced doesNotMapBackToAddrRE.items doesNotMapBackToAddrRE.anchE [a, d, ['.']] [] := by
  simp only [inDomain, noSpace, Bool.and_eq_true] at hd
  obtain ⟨⟨⟨⟨ha, hd1⟩, hl1⟩, _⟩, hl2⟩ := hd
  have ha' := allIn_of_all ha
  simp only [doesNotMapBackToAddrRE, Forced, build, List.append_nil]
  refine ⟨allIn_mono ha' nonspace_any, Nat.zero_le _, ⟨noNL_any hd1, Nat.zero_le _,
    ⟨⟨'.', rfl, by decide, by decide⟩, by simp⟩, ?_⟩, ?_⟩
  · exact noLater_count ',' _ _ _ _ _ rfl (by decide)
  · apply noLater_lit_occ
    apply no_occ_after _ _ 8 (by decide)
    · intro j h1 h2
      have hlen : " maps to ".toList.length = 9 := by decide
      have hj : j = 8 := by omega
      subst hj
      intro hp
      have hp' : "maps to ".toList <+:
          d ++ ',' :: " but this does not map back to the address.".toList := by
        simpa using hp
      exact lacks_spec d "maps to " hl2 0 (prefix_of_prefix_append_notMem _ _ _ _ (by decide) hp')
    · exact no_occ_appendD _ d _ ',' _ rfl (by decide)
        (lacks_spec d " maps to " hl1)
        (lacks_spec _ " maps to " (by decide))

theorem doesNotMapBack_process (cfg : Cfg) (pid a d : Str) (ok : Bool) (h : Handoff)
    (hd : inDomain .doesNotMapBack [a, d] = true) :
    ∀ line, lineOf .doesNotMapBack [a, d] = some line →
      some (process cfg pid line ok h) = expectedOut cfg pid .doesNotMapBack [a, d] ok h := by
  intro line hl
  have hf := doesNotMapBack_forced a d hd
  have hfind := find_of_forced doesNotMapBackToAddrRE [a, d, ['.']] [] hf
  have hline : line = build doesNotMapBackToAddrRE.items [a, d, ['.']] ++ [] := by
    simp [lineOf, Spec.s] at hl
    simp [doesNotMapBackToAddrRE, build, ← hl]
  rw [← hline] at hfind
  have hdisp : firstCase dispatch line = dispatch[9]? := by
    have h1 := firstCase_skip dispatch "Address ".toList
      (a ++ (" maps to ".toList ++
        (d ++ ", but this does not map back to the address.".toList))) []
    have hs : skipCount dispatch "Address ".toList [] = 9 := by decide
    have hl2 : "Address ".toList ++
        ((a ++ (" maps to ".toList ++
          (d ++ ", but this does not map back to the address.".toList))) ++ []) = line := by
      simp [lineOf, Spec.s] at hl
      simp [← hl]
    rw [hs, hl2] at h1
    rw [h1]
    simp only [dispatch, List.drop_succ_cons, List.drop_zero]
    rw [firstCase_hit]
    · rfl
    · simp [Cond.holds, Pat.isMatch, hfind]
  rw [process_of_case cfg pid line ok h _ _ hdisp (by decide) rfl]
  simp only [dnsForm]
  rw [simple_hit _ _ cfg pid line ok h _ _ _ hfind]
  cases ok <;> simp [writeOnly, incEffs, expectedOut, expectedEv, Form.accepted, expectedInc,
    capsOf, doesNotMapBackToAddrRE, grp, Pat.group, lookupCap]

end AM.Sshd
