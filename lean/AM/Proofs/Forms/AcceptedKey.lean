import AM.Proofs.Forms.HelpersE
/-! `Accepted publickey for <user> from <addr> port <port> ssh<ver>: <keytype> <hash>:<sum>` — the
plain-key form. `loginRE` is not anchored at the end, so the `.*` groups are forced by the
"no proper suffix parses" argument of `HelpersE` (the separator count does not work: the `Alg`
group itself contains a space). -/
namespace AM.Sshd
open AM AM.Rx AM.Spec AM.Gen

theorem acceptedKey_forced (u a p v kt h sum : Str)
    (hd : inDomain .acceptedKey [u, a, p, v, kt, h, sum] = true) :
    Forced loginRE.items loginRE.anchE [u, a, p, v, kt ++ s " " ++ h, sum] [] := by
  simp only [inDomain, noSpace, digits, alnums, keyTypeLike, Bool.and_eq_true, Bool.not_eq_true',
    List.isEmpty_eq_false_iff] at hd
  obtain ⟨⟨⟨⟨⟨⟨⟨hu, ha⟩, _, hp⟩, hv0, hv⟩, _, hkt⟩, _, hh⟩, hsum⟩, hs0⟩ := hd
  have := login_forced u a p v kt h sum [] hu (allIn_of_all ha) (allIn_of_all hp) (allIn_of_all hv) hv0
    (allIn_of_all hkt) (allIn_of_all hh) (allIn_of_all hsum) hs0 (noSuf_nil _ _ _ _) (Or.inl rfl)
  simpa [Spec.s, loginRE] using this

theorem acceptedKey_process (cfg : Cfg) (pid u a p v kt h sum : Str) (ok : Bool) (hh : Handoff)
    (hd : inDomain .acceptedKey [u, a, p, v, kt, h, sum] = true)
    (hpid : ∃ n, atoi pid = some n) :
    ∀ line, lineOf .acceptedKey [u, a, p, v, kt, h, sum] = some line →
      some (process cfg pid line ok hh) =
        expectedOut cfg pid .acceptedKey [u, a, p, v, kt, h, sum] ok hh := by
  intro line hl
  obtain ⟨n, hn⟩ := hpid
  have hf := acceptedKey_forced u a p v kt h sum hd
  have hfind := find_of_forced loginRE [u, a, p, v, kt ++ s " " ++ h, sum] [] hf
  have hline : line = build loginRE.items [u, a, p, v, kt ++ s " " ++ h, sum] ++ [] := by
    simp [lineOf, Spec.s] at hl
    simp [loginRE, build, Spec.s, ← hl]
  rw [← hline, loginRE_capsOf] at hfind
  have hfind' : find loginRE line = some (0, line.length, [u, a, p, kt ++ s " " ++ h, sum]) := by
    rw [hfind]; simp [loginRE]
  have hdisp : firstCase dispatch line = dispatch[0]? := by
    simp only [dispatch]
    rw [firstCase_hit]
    · rfl
    · simp [lineOf, Spec.s] at hl
      simp [Cond.holds, ← hl]
  rw [process_of_case cfg pid line ok hh _ _ hdisp (by decide) rfl,
    acceptPublicKey_key cfg pid line ok hh 0 _ _ _ _ _ n hfind' hn]
  cases ok <;> cases hh <;>
    simp [writeAndSend, incEffs, expectedOut, expectedEv, Form.accepted, expectedInc, expectedCred, hn]

end AM.Sshd
