import AM.Proofs.SshdCommon
import AM.Proofs.Forms.HelpersD
/-! `Error checking authentication key <type> <fingerprint> in revoked keys file <path>` — for every key type over
`[a-zA-Z0-9_-]`, every fingerprint without white space and every path without a newline that
does not contain `in revoked keys file ` the event carries exactly those values. -/
namespace AM.Sshd
open AM AM.Rx AM.Spec AM.Gen

theorem revokedErr_forced (kt fp f : Str)
    (hd : inDomain .revokedErr [kt, fp, f] = true) :
    Forced revokedPublicKeyByFileErrRE.items revokedPublicKeyByFileErrRE.anchE [kt, fp, f] [] := by
  simp only [inDomain, noSpace, keyTypeLike, Bool.and_eq_true, Bool.not_eq_true',
    List.isEmpty_eq_false_iff] at hd
  obtain ⟨⟨⟨⟨⟨hk0, hk⟩, hfp⟩, hf⟩, hl1⟩, hl2⟩ := hd
  have hk' := allIn_of_all hk
  have hfp' := allIn_of_all hfp
  simp only [revokedPublicKeyByFileErrRE, Forced, build, List.append_nil]
  refine ⟨hk', List.length_pos_iff.mpr hk0, ⟨allIn_mono hfp' nonspace_any, Nat.zero_le _,
    ⟨noNL_any hf, Nat.zero_le _, by simp, ?_⟩, ?_⟩, ?_⟩
  · exact noLater_boundary _ _ _ _ (Or.inl rfl)
  · apply noLater_lit_occ
    apply no_occ_after _ _ 21 (by decide)
    · intro j h1 h2
      have hlen : " in revoked keys file ".toList.length = 22 := by decide
      have hj : j = 21 := by omega
      subst hj
      intro hp
      have hp' : "in revoked keys file ".toList <+: f := by simpa using hp
      exact lacks_spec f "in revoked keys file " hl2 0 hp'
    · exact lacks_spec f " in revoked keys file " hl1
  · exact noLater_boundary _ _ _ _ (Or.inr ⟨' ', _, rfl, by decide⟩)

theorem revokedErr_process (cfg : Cfg) (pid kt fp f : Str) (ok : Bool) (h : Handoff)
    (hd : inDomain .revokedErr [kt, fp, f] = true) :
    ∀ line, lineOf .revokedErr [kt, fp, f] = some line →
      some (process cfg pid line ok h) = expectedOut cfg pid .revokedErr [kt, fp, f] ok h := by
  intro line hl
  have hf := revokedErr_forced kt fp f hd
  have hfind := find_of_forced revokedPublicKeyByFileErrRE [kt, fp, f] [] hf
  have hline : line = build revokedPublicKeyByFileErrRE.items [kt, fp, f] ++ [] := by
    simp [lineOf, Spec.s] at hl
    simp [revokedPublicKeyByFileErrRE, build, ← hl]
  rw [← hline] at hfind
  have hdisp : firstCase dispatch line = dispatch[12]? := by
    have h1 := firstCase_skip dispatch "Error checking authentication key ".toList
      (kt ++ (" ".toList ++ (fp ++ (" in revoked keys file ".toList ++ f)))) []
    have hs : skipCount dispatch "Error checking authentication key ".toList [] = 12 := by decide
    have hl2 : "Error checking authentication key ".toList ++
        ((kt ++ (" ".toList ++ (fp ++ (" in revoked keys file ".toList ++ f)))) ++ []) = line := by
      simp [lineOf, Spec.s] at hl
      simp [← hl]
    rw [hs, hl2] at h1
    rw [h1]
    simp only [dispatch, List.drop_succ_cons, List.drop_zero]
    rw [firstCase_hit]
    · rfl
    · simp [Cond.holds, Pat.isMatch, hfind]
  rw [process_of_case cfg pid line ok h _ _ hdisp (by decide) rfl]
  simp only [revokedForm]
  rw [simple_hit _ _ cfg pid line ok h _ _ _ hfind]
  cases ok <;> simp [writeOnly, incEffs, expectedOut, expectedEv, Form.accepted, expectedInc,
    capsOf, revokedPublicKeyByFileErrRE, grp, Pat.group, lookupCap]

end AM.Sshd
