import AM.Proofs.SshdCommon
/-! General-purpose helpers for the forms whose expression is NOT end-anchored (`loginRE`,
`certIDRE`): there the separator-count argument is unavailable (the trailing text is arbitrary), so
the `.*` groups are forced by showing that NO proper suffix of the rest of the line has a parse
(`NoSuf`), walking the rest of the line from right to left. -/
namespace AM.Sshd
open AM AM.Rx AM.Spec AM.Gen

/-- no suffix of `t` (including `t` itself) has a parse -/
def NoSuf (is : List Item) (e : Bool) (t : Str) : Prop :=
  ∀ s, s <:+ t → ∀ caps r, ¬ Parse is e s caps r

theorem noLater_of_noSuf (c : Cls) (is : List Item) (e : Bool) (t t' : Str) (ch : Char)
    (ht : t = ch :: t') (h : NoSuf is e t') : NoLater c is e t := by
  subst ht
  intro j hj _ _ caps r hp
  cases j with
  | zero => omega
  | succ j =>
    simp only [List.drop_succ_cons] at hp
    exact h _ (List.drop_suffix j t') caps r hp

theorem parse_lit_inv {l : Str} {is e s caps r} (h : Parse (.lit l :: is) e s caps r) :
    ∃ s', s = l ++ s' ∧ Parse is e s' caps r := by
  cases h with
  | lit h' => exact ⟨_, rfl, h'⟩

theorem parse_rep_inv {c : Cls} {mn : Nat} {cap : Bool} {is e s caps r}
    (h : Parse (.rep c mn cap :: is) e s caps r) :
    ∃ x s' caps', s = x ++ s' ∧ (∀ ch ∈ x, c.mem ch = true) ∧ mn ≤ x.length ∧
      Parse is e s' caps' r := by
  cases h with
  | rep x hx hmn h' => exact ⟨x, _, _, rfl, hx, hmn, h'⟩

theorem parse_lit_head {c d : Char} {l : Str} {is e s caps r}
    (h : Parse (.lit (c :: l) :: is) e (d :: s) caps r) : c = d := by
  have := parse_lit_prefix h
  rw [List.cons_prefix_cons] at this
  exact this.1

theorem noSuf_nil (c : Char) (l : Str) (is : List Item) (e : Bool) :
    NoSuf (.lit (c :: l) :: is) e [] := by
  intro s hs caps r hp
  have hs' : s = [] := List.suffix_nil.mp hs
  subst hs'
  have := parse_lit_prefix hp
  simp at this

theorem noSuf_cons {is : List Item} {e : Bool} {t : Str} (d : Char) (h : NoSuf is e t)
    (hd : ∀ caps r, ¬ Parse is e (d :: t) caps r) : NoSuf is e (d :: t) := by
  intro s hs caps r hp
  rcases List.suffix_cons_iff.mp hs with rfl | hs
  · exact hd _ _ hp
  · exact h s hs _ _ hp

/-- a byte other than the first byte of the leading literal cannot start a parse -/
theorem noSuf_cons_ne {c : Char} {l : Str} {is : List Item} {e : Bool} {t : Str} (d : Char)
    (hne : c ≠ d) (h : NoSuf (.lit (c :: l) :: is) e t) : NoSuf (.lit (c :: l) :: is) e (d :: t) :=
  noSuf_cons d h (fun _ _ hp => hne (parse_lit_head hp))

/-- a field all of whose bytes differ from the first byte of the leading literal -/
theorem noSuf_field (cls : Cls) {c : Char} {l : Str} {is : List Item} {e : Bool} {t : Str}
    (hc : cls.mem c = false) (x : Str) (hx : ∀ ch ∈ x, cls.mem ch = true)
    (h : NoSuf (.lit (c :: l) :: is) e t) : NoSuf (.lit (c :: l) :: is) e (x ++ t) := by
  induction x with
  | nil => simpa using h
  | cons d x ih =>
    rw [List.cons_append]
    apply noSuf_cons_ne d _ (ih (fun ch hch => hx ch (List.mem_cons_of_mem _ hch)))
    intro hcd
    have := hx d List.mem_cons_self
    rw [← hcd, hc] at this
    cases this

/-- an arbitrary field: every non-empty suffix of it (followed by the rest) must be refuted -/
theorem noSuf_any {is : List Item} {e : Bool} {t : Str} (x : Str) (h : NoSuf is e t)
    (hx : ∀ j, j < x.length → ∀ caps r, ¬ Parse is e (x.drop j ++ t) caps r) :
    NoSuf is e (x ++ t) := by
  induction x with
  | nil => simpa using h
  | cons d x ih =>
    rw [List.cons_append]
    apply noSuf_cons d
    · apply ih
      intro j hj
      have := hx (j + 1) (by simp; omega)
      simpa using this
    · have := hx 0 (by simp)
      simpa using this

/-- prefixing `lit · rep` to the items: the rest still has to be parsed by a (shorter) suffix -/
theorem noSuf_skip {l : Str} {c : Cls} {mn : Nat} {cap : Bool} {is : List Item} {e : Bool} {t : Str}
    (h : NoSuf is e t) : NoSuf (.lit l :: .rep c mn cap :: is) e t := by
  intro s hs caps r hp
  obtain ⟨s1, rfl, hp1⟩ := parse_lit_inv hp
  obtain ⟨x, s2, caps', rfl, _, _, hp2⟩ := parse_rep_inv hp1
  refine h s2 ?_ _ _ hp2
  have : s2 <:+ l ++ (x ++ s2) := ⟨l ++ x, by simp⟩
  exact this.trans hs

/-- the maximal run of class bytes at the start of a string is unique -/
theorem span_unique (c : Cls) : ∀ (x x' : Str) (d d' : Char) (r r' : Str),
    (∀ ch ∈ x, c.mem ch = true) → (∀ ch ∈ x', c.mem ch = true) →
    c.mem d = false → c.mem d' = false →
    x ++ d :: r = x' ++ d' :: r' → x = x' ∧ d = d' ∧ r = r' := by
  intro x
  induction x with
  | nil =>
    intro x' d d' r r' _ hx' hd hd' heq
    cases x' with
    | nil => simpa using heq
    | cons a x' =>
      simp only [List.nil_append, List.cons_append, List.cons.injEq] at heq
      have := hx' a List.mem_cons_self
      rw [← heq.1, hd] at this; cases this
  | cons a x ih =>
    intro x' d d' r r' hx hx' hd hd' heq
    cases x' with
    | nil =>
      simp only [List.nil_append, List.cons_append, List.cons.injEq] at heq
      have := hx a List.mem_cons_self
      rw [heq.1, hd'] at this; cases this
    | cons a' x' =>
      simp only [List.cons_append, List.cons.injEq] at heq
      obtain ⟨h1, h2, h3⟩ := ih x' d d' r r' (fun ch hch => hx ch (List.mem_cons_of_mem _ hch))
        (fun ch hch => hx' ch (List.mem_cons_of_mem _ hch)) hd hd' heq.2
      exact ⟨by rw [heq.1, h1], h2, h3⟩

theorem alnum_keytype (ch : Char) (h : clsAlnum.mem ch = true) : clsKeyType.mem ch = true := by
  simp only [clsAlnum, clsKeyType, Cls.mem, List.any_cons, List.any_nil, Bool.or_false, Bool.or_eq_true,
    Bool.and_eq_true, decide_eq_true_eq] at *
  omega

theorem suffix_eq_drop {x' x : Str} (h : x' <:+ x) : ∃ j, x' = x.drop j := by
  obtain ⟨pre, rfl⟩ := h
  exact ⟨pre.length, by simp⟩

/-! ### the tail of `loginRE` (shared by the acceptedKey and acceptedCert forms) -/

def R5 : List Item := [.lit [' ', 's', 's', 'h'], .rep clsAlnum 1 false, .lit [':', ' '],
  .rep clsWordSpDash 1 true, .lit [':'], .rep clsNonSpace 1 true]
def R3 : List Item := .lit [' ', 'p', 'o', 'r', 't', ' '] :: .rep clsAny 0 true :: R5
def R1 : List Item := .lit [' ', 'f', 'r', 'o', 'm', ' '] :: .rep clsAny 0 true :: R3

theorem R1_eq : R1 = loginRE.items.drop 2 := by
  simp [R1, R3, R5, loginRE]

theorem parse_R5_inv {e : Bool} {s : Str} {caps r} (h : Parse R5 e s caps r) :
    ∃ x y w, s = ' ' :: 's' :: 's' :: 'h' :: (x ++ ':' :: ' ' :: (y ++ ':' :: w)) ∧
      (∀ ch ∈ x, clsAlnum.mem ch = true) ∧ (∀ ch ∈ y, clsWordSpDash.mem ch = true) ∧ 1 ≤ y.length := by
  obtain ⟨s1, rfl, h1⟩ := parse_lit_inv h
  obtain ⟨x, s2, _, rfl, hx, _, h2⟩ := parse_rep_inv h1
  obtain ⟨s3, rfl, h3⟩ := parse_lit_inv h2
  obtain ⟨y, s4, _, rfl, hy, hy1, h4⟩ := parse_rep_inv h3
  obtain ⟨s5, rfl, h5⟩ := parse_lit_inv h4
  exact ⟨x, y, s5, by simp, hx, hy, hy1⟩

theorem ssh_alnum_keytype {x : Str} (hx : ∀ ch ∈ x, clsAlnum.mem ch = true) :
    ∀ ch ∈ 's' :: 's' :: 'h' :: x, clsKeyType.mem ch = true := by
  intro ch hch
  simp only [List.mem_cons] at hch
  rcases hch with rfl | rfl | rfl | hch
  · decide
  · decide
  · decide
  · exact alnum_keytype ch (hx ch hch)

theorem noSuf_R5_login (e : Bool) (v kt h sum tr : Str)
    (hv : ∀ ch ∈ v, clsAlnum.mem ch = true) (hkt : ∀ ch ∈ kt, clsKeyType.mem ch = true)
    (hh : ∀ ch ∈ h, clsKeyType.mem ch = true) (hsum : ∀ ch ∈ sum, clsNonSpace.mem ch = true)
    (hs0 : sum ≠ []) (htr : NoSuf R5 e tr) :
    NoSuf R5 e ('s' :: 's' :: 'h' :: (v ++ ':' :: ' ' :: (kt ++ ' ' :: (h ++ ':' :: (sum ++ tr))))) := by
  unfold R5 at htr ⊢
  apply noSuf_cons_ne 's' (by decide)
  apply noSuf_cons_ne 's' (by decide)
  apply noSuf_cons_ne 'h' (by decide)
  apply noSuf_field clsAlnum (by decide) v hv
  apply noSuf_cons_ne ':' (by decide)
  apply noSuf_cons ' '
  · apply noSuf_field clsKeyType (by decide) kt hkt
    apply noSuf_cons ' '
    · apply noSuf_field clsKeyType (by decide) h hh
      apply noSuf_cons_ne ':' (by decide)
      exact noSuf_field clsNonSpace (by decide) sum hsum htr
    · intro caps r hp
      obtain ⟨x, y, w, heq, hx, _, _⟩ := parse_R5_inv hp
      simp only [List.cons.injEq, true_and] at heq
      obtain ⟨_, _, h3⟩ := span_unique clsKeyType h ('s' :: 's' :: 'h' :: x) ':' ':' _ _ hh
        (ssh_alnum_keytype hx) (by decide) (by decide) (by simpa using heq)
      cases sum with
      | nil => exact hs0 rfl
      | cons c sum =>
        simp only [List.cons_append, List.cons.injEq] at h3
        have := hsum c List.mem_cons_self
        rw [h3.1] at this
        revert this; decide
  · intro caps r hp
    obtain ⟨x, y, w, heq, hx, _, _⟩ := parse_R5_inv hp
    simp only [List.cons.injEq, true_and] at heq
    obtain ⟨_, h2, _⟩ := span_unique clsKeyType kt ('s' :: 's' :: 'h' :: x) ' ' ':' _ _ hkt
      (ssh_alnum_keytype hx) (by decide) (by decide) (by simpa using heq)
    revert h2; decide


theorem noSuf_R3_login (e : Bool) (p rest : Str) (hp : ∀ ch ∈ p, clsDigit.mem ch = true)
    (h5 : NoSuf R5 e ('s' :: rest)) :
    NoSuf R3 e ('p' :: 'o' :: 'r' :: 't' :: ' ' :: (p ++ ' ' :: 's' :: rest)) := by
  have h3 : NoSuf R3 e ('s' :: rest) := noSuf_skip h5
  unfold R3 at h3 ⊢
  apply noSuf_cons_ne 'p' (by decide)
  apply noSuf_cons_ne 'o' (by decide)
  apply noSuf_cons_ne 'r' (by decide)
  apply noSuf_cons_ne 't' (by decide)
  apply noSuf_cons ' '
  · apply noSuf_field clsDigit (by decide) p hp
    apply noSuf_cons ' ' h3
    intro caps r hq
    have := parse_lit_prefix hq
    simp at this
  · intro caps r hq
    have hpre := parse_lit_prefix hq
    cases p with
    | nil => simp at hpre
    | cons d p =>
      have hd := hp d List.mem_cons_self
      simp at hpre
      rw [← hpre.1] at hd
      revert hd; decide

theorem noSuf_R1_login (e : Bool) (a rest : Str) (ha : ∀ ch ∈ a, clsNonSpace.mem ch = true)
    (h3 : NoSuf R3 e ('p' :: rest)) :
    NoSuf R1 e ('f' :: 'r' :: 'o' :: 'm' :: ' ' :: (a ++ ' ' :: 'p' :: rest)) := by
  have h1 : NoSuf R1 e ('p' :: rest) := noSuf_skip h3
  unfold R1 at h1 ⊢
  apply noSuf_cons_ne 'f' (by decide)
  apply noSuf_cons_ne 'r' (by decide)
  apply noSuf_cons_ne 'o' (by decide)
  apply noSuf_cons_ne 'm' (by decide)
  apply noSuf_cons ' '
  · apply noSuf_field clsNonSpace (by decide) a ha
    apply noSuf_cons ' ' h1
    intro caps r hq
    have := parse_lit_prefix hq
    simp at this
  · intro caps r hq
    obtain ⟨s1, heq, hq1⟩ := parse_lit_inv hq
    obtain ⟨x, s2, caps', rfl, _, _, hq2⟩ := parse_rep_inv hq1
    have heq' : a ++ ' ' :: ('p' :: rest) = ['f', 'r', 'o', 'm'] ++ ' ' :: (x ++ s2) := by
      simpa using heq
    obtain ⟨_, _, h3'⟩ := span_unique clsNonSpace a ['f', 'r', 'o', 'm'] ' ' ' ' _ _ ha
      (by decide) (by decide) (by decide) heq'
    exact h3 s2 ⟨x, h3'.symm⟩ _ _ hq2

theorem login_forced (u a p v kt h sum tr : Str) (hu : noNL u = true)
    (ha : ∀ ch ∈ a, clsNonSpace.mem ch = true) (hp : ∀ ch ∈ p, clsDigit.mem ch = true)
    (hv : ∀ ch ∈ v, clsAlnum.mem ch = true) (hv0 : v ≠ [])
    (hkt : ∀ ch ∈ kt, clsKeyType.mem ch = true) (hh : ∀ ch ∈ h, clsKeyType.mem ch = true)
    (hsum : ∀ ch ∈ sum, clsNonSpace.mem ch = true) (hs0 : sum ≠ [])
    (htr : NoSuf R5 false tr) (hb : tr = [] ∨ ∃ t', tr = ' ' :: t') :
    Forced loginRE.items false [u, a, p, v, kt ++ ' ' :: h, sum] tr := by
  have h5 := noSuf_R5_login false v kt h sum tr hv hkt hh hsum hs0 htr
  have h3 := noSuf_R3_login false p _ hp h5
  have h1 := noSuf_R1_login false a _ ha h3
  simp only [loginRE, Forced, build, List.append_nil, String.reduceToList]
  refine ⟨noNL_any hu, Nat.zero_le _, ⟨allIn_mono ha nonspace_any, Nat.zero_le _,
    ⟨allIn_mono hp (fun ch hc => nonspace_any ch (digit_nonspace ch hc)), Nat.zero_le _,
      ⟨hv, List.length_pos_iff.mpr hv0, ⟨?_, by simp; omega, ⟨hsum, List.length_pos_iff.mpr hs0, by simp, ?_⟩, ?_⟩,
        ?_⟩, ?_⟩, ?_⟩, ?_⟩
  · intro ch hch
    rcases List.mem_append.mp hch with hc | hc
    · exact keytype_wordSpDash ch (hkt ch hc)
    · rcases List.mem_cons.mp hc with rfl | hc
      · decide
      · exact keytype_wordSpDash ch (hh ch hc)
  · rcases hb with rfl | ⟨t', rfl⟩
    · exact noLater_boundary _ _ _ _ (Or.inl rfl)
    · exact noLater_boundary _ _ _ _ (Or.inr ⟨' ', _, rfl, by decide⟩)
  · exact noLater_boundary _ _ _ _ (Or.inr ⟨':', _, rfl, by decide⟩)
  · exact noLater_boundary _ _ _ _ (Or.inr ⟨':', _, rfl, by decide⟩)
  · exact noLater_of_noSuf _ _ _ _ _ ' ' (by simp) h5
  · exact noLater_of_noSuf _ _ _ _ _ ' ' (by simp) h3
  · exact noLater_of_noSuf _ _ _ _ _ ' ' (by simp) h1

/-! ### unfolding `processAcceptPublicKeyEntry` once the two `find`s are known -/

theorem incAt_key0 : incAt "processAcceptPublicKeyEntry" 0 = [.inc "ssh-key" "success"] := by
  decide
theorem incAt_key2 : incAt "processAcceptPublicKeyEntry" 2 = [.inc "ssh-cert" "success"] := by
  decide

theorem loginRE_capsOf (u a p v alg sum : Str) :
    capsOf loginRE.items [u, a, p, v, alg, sum] = [u, a, p, alg, sum] := by
  simp [loginRE, capsOf]

/-- the plain-key branch of `processAcceptPublicKeyEntry` -/
theorem acceptPublicKey_key (cfg : Cfg) (pid line : Str) (ok : Bool) (hh : Handoff) (o : Nat)
    (user src port alg sum : Str) (n : Int)
    (hfind : find loginRE line = some (o, line.length, [user, src, port, alg, sum]))
    (hn : atoi pid = some n) :
    acceptPublicKey cfg pid line ok hh =
      writeAndSend [.inc "ssh-key" "success"]
        (loginEv cfg "succeeded" src [("port", port)]
          [("loggedAs", user), ("pid", pid), ("userID", unknown)]
          [("Alg", jsonCoerce alg), ("SSHKeySum", jsonCoerce sum)]) ok hh n unknown := by
  simp only [acceptPublicKey, hfind, hn]
  simp [Pat.group, lookupCap, loginRE, incAt_key0]

theorem certIDRE_capsOf (k n sp ca : Str) :
    capsOf certIDRE.items [k, n, sp, ca] = [k, n, ca] := by
  simp [certIDRE, capsOf]

/-- the certificate branch of `processAcceptPublicKeyEntry` -/
theorem acceptPublicKey_cert (cfg : Cfg) (pid line : Str) (ok : Bool) (hh : Handoff) (o mlen o' l' : Nat)
    (user src port alg sum uid serial ca : Str) (n : Int)
    (hfind : find loginRE line = some (o, mlen, [user, src, port, alg, sum]))
    (hlen : line.length ≠ mlen)
    (hfind2 : find certIDRE (line.drop (mlen + 1)) = some (o', l', [uid, serial, ca]))
    (hn : atoi pid = some n) :
    acceptPublicKey cfg pid line ok hh =
      writeAndSend [.inc "ssh-cert" "success"]
        (loginEv cfg "succeeded" src [("port", port)]
          [("loggedAs", user), ("pid", pid), ("userID", uid)]
          [("Alg", jsonCoerce alg), ("CA", jsonCoerce ca), ("SSHKeySum", jsonCoerce sum),
           ("Serial", jsonCoerce serial)]) ok hh n uid := by
  simp only [acceptPublicKey, hfind, hn]
  simp only [Pat.group, lookupCap, show loginRE.caps = ["Username", "Source", "Port", "Alg", "SSHKeySum"] from rfl]
  simp only [hlen, hfind2]
  simp [lookupCap, certIDRE, incAt_key2]

end AM.Sshd
