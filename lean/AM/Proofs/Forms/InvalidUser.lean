import AM.Proofs.SshdCommon
/-! `Invalid user <user> from <addr> port <port>` — for every user name without a newline, every
non-empty address without white space and every decimal port the event carries exactly those
values. -/
namespace AM.Sshd
open AM AM.Rx AM.Spec AM.Gen

theorem invalidUser_forced (u a p : Str)
    (hd : inDomain .invalidUser [u, a, p] = true) :
    Forced invalidUserRE.items invalidUserRE.anchE [u, a, p] [] := by
  simp only [inDomain, noSpace, digits, Bool.and_eq_true, Bool.not_eq_true',
    List.isEmpty_eq_false_iff] at hd
  obtain ⟨⟨⟨hu, ha⟩, ha0⟩, hp0, hp⟩ := hd
  have ha' := allIn_of_all ha
  have hp' := allIn_of_all hp
  have cp := count_zero_of_allIn _ ' ' p hp' mem_sp_digit
  have ca := count_zero_of_allIn _ ' ' a ha' mem_sp_nonspace
  simp only [invalidUserRE, Forced, build, List.append_nil]
  refine ⟨noNL_any hu, Nat.zero_le _, ⟨ha', ?_, ⟨hp', ?_, by simp, ?_⟩, ?_⟩, ?_⟩
  · exact List.length_pos_iff.mpr ha0
  · exact List.length_pos_iff.mpr hp0
  · exact noLater_boundary _ _ _ _ (Or.inl rfl)
  · exact noLater_boundary _ _ _ _ (Or.inr ⟨' ', _, rfl, by decide⟩)
  · exact noLater_count ' ' _ _ _ _ _ rfl (by simp [litCount, List.count_append, cp, ca])

theorem invalidUser_process (cfg : Cfg) (pid u a p : Str) (ok : Bool) (h : Handoff)
    (hd : inDomain .invalidUser [u, a, p] = true) :
    ∀ line, lineOf .invalidUser [u, a, p] = some line →
      some (process cfg pid line ok h) = expectedOut cfg pid .invalidUser [u, a, p] ok h := by
  intro line hl
  have hf := invalidUser_forced u a p hd
  have hfind := find_of_forced invalidUserRE [u, a, p] [] hf
  have hline : line = build invalidUserRE.items [u, a, p] ++ [] := by
    simp [lineOf, Spec.s] at hl
    simp [invalidUserRE, build, ← hl]
  rw [← hline] at hfind
  have hdisp : firstCase dispatch line = dispatch[3]? := by
    have h1 := firstCase_skip dispatch "Invalid user ".toList
      (u ++ (" from ".toList ++ (a ++ (" port ".toList ++ p)))) []
    have hs : skipCount dispatch "Invalid user ".toList [] = 3 := by decide
    have hl2 : "Invalid user ".toList ++
        ((u ++ (" from ".toList ++ (a ++ (" port ".toList ++ p)))) ++ []) = line := by
      simp [lineOf, Spec.s] at hl
      simp [← hl]
    rw [hs, hl2] at h1
    rw [h1]
    simp only [dispatch, List.drop_succ_cons, List.drop_zero]
    rw [firstCase_hit]
    · rfl
    · simp [Cond.holds, ← hl2]
  rw [process_of_case cfg pid line ok h _ _ hdisp (by decide) rfl]
  simp only [invalidUser, hfind]
  cases ok <;> simp [writeOnly, incEffs, expectedOut, expectedEv, Form.accepted, expectedInc,
    capsOf, invalidUserRE, Pat.group, lookupCap, incAt, incsOf, fnIncs, aLookup]

end AM.Sshd
