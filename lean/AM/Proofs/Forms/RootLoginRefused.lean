import AM.Proofs.SshdCommon
/-! `ROOT LOGIN REFUSED FROM <addr> port <port>` — for every address without white space and every
decimal port the event carries exactly those values. -/
namespace AM.Sshd
open AM AM.Rx AM.Spec AM.Gen

theorem rootLoginRefused_forced (a p : Str)
    (hd : inDomain .rootLoginRefused [a, p] = true) :
    Forced rootLoginRefusedRE.items rootLoginRefusedRE.anchE [a, p] [] := by
  simp only [inDomain, noSpace, digits, Bool.and_eq_true, Bool.not_eq_true',
    List.isEmpty_eq_false_iff] at hd
  obtain ⟨ha, _, hp⟩ := hd
  have ha' := allIn_of_all ha
  have hp' := allIn_of_all hp
  have cp := count_zero_of_allIn _ ' ' p hp' mem_sp_digit
  simp only [rootLoginRefusedRE, Forced, build, List.append_nil]
  refine ⟨allIn_mono ha' nonspace_any, Nat.zero_le _,
      ⟨allIn_mono (allIn_mono hp' digit_nonspace) nonspace_any, Nat.zero_le _, by simp, ?_⟩, ?_⟩
  · exact noLater_boundary _ _ _ _ (Or.inl rfl)
  · exact noLater_count ' ' _ _ _ _ _ rfl (by simp [litCount, cp])

theorem rootLoginRefused_process (cfg : Cfg) (pid a p : Str) (ok : Bool) (h : Handoff)
    (hd : inDomain .rootLoginRefused [a, p] = true) :
    ∀ line, lineOf .rootLoginRefused [a, p] = some line →
      some (process cfg pid line ok h) = expectedOut cfg pid .rootLoginRefused [a, p] ok h := by
  intro line hl
  have hf := rootLoginRefused_forced a p hd
  have hfind := find_of_forced rootLoginRefusedRE [a, p] [] hf
  have hline : line = build rootLoginRefusedRE.items [a, p] ++ [] := by
    simp [lineOf, Spec.s] at hl
    simp [rootLoginRefusedRE, build, ← hl]
  rw [← hline] at hfind
  have hdisp : firstCase dispatch line = dispatch[5]? := by
    have h1 := firstCase_skip dispatch "ROOT LOGIN REFUSED FROM ".toList
      (a ++ (" port ".toList ++ p)) []
    have hs : skipCount dispatch "ROOT LOGIN REFUSED FROM ".toList [] = 5 := by decide
    have hl2 : "ROOT LOGIN REFUSED FROM ".toList ++ ((a ++ (" port ".toList ++ p)) ++ []) = line := by
      simp [lineOf, Spec.s] at hl
      simp [← hl]
    rw [hs, hl2] at h1
    rw [h1]
    simp only [dispatch, List.drop_succ_cons, List.drop_zero]
    rw [firstCase_hit]
    · rfl
    · simp [Cond.holds, Pat.isMatch, hfind]
  rw [process_of_case cfg pid line ok h _ _ hdisp (by decide) rfl]
  simp only [srcPort]
  rw [simple_hit _ _ cfg pid line ok h _ _ _ hfind]
  cases ok <;> simp [writeOnly, incEffs, expectedOut, expectedEv, Form.accepted, expectedInc,
    capsOf, rootLoginRefusedRE, grp, Pat.group, lookupCap, strOf, Spec.s]

end AM.Sshd
