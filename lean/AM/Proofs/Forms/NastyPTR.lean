import AM.Proofs.SshdCommon
import AM.Proofs.Forms.HelpersD
/-! `Nasty PTR record "<dns>" is set up for <addr>, ignoring` — for every DNS name without a
newline and every address without white space the event carries exactly those values. -/
namespace AM.Sshd
open AM AM.Rx AM.Spec AM.Gen

theorem nastyPTR_forced (d a : Str)
    (hd : inDomain .nastyPTR [d, a] = true) :
    Forced nastyPTRRecordRE.items nastyPTRRecordRE.anchE [d, a] [] := by
  simp only [inDomain, noSpace, Bool.and_eq_true] at hd
  obtain ⟨⟨hd1, ha⟩, _⟩ := hd
  have ha' := allIn_of_all ha
  simp only [nastyPTRRecordRE, Forced, build, List.append_nil]
  refine ⟨noNL_any hd1, Nat.zero_le _, ⟨allIn_mono ha' nonspace_any, Nat.zero_le _, by simp, ?_⟩, ?_⟩
  · exact noLater_count ',' _ _ _ _ _ rfl (by decide)
  · apply noLater_lit_occ
    apply no_occ_after _ _ 16 (by decide)
    · intro j h1 h2
      have : "\" is set up for ".toList.length = 16 := by decide
      omega
    · exact no_occ_appendD _ a _ ',' _ rfl (by decide)
        (no_occ_of_allIn clsNonSpace ' ' _ a ha' (by decide) (by decide))
        (lacks_spec _ "\" is set up for " (by decide))

theorem nastyPTR_process (cfg : Cfg) (pid d a : Str) (ok : Bool) (h : Handoff)
    (hd : inDomain .nastyPTR [d, a] = true) :
    ∀ line, lineOf .nastyPTR [d, a] = some line →
      some (process cfg pid line ok h) = expectedOut cfg pid .nastyPTR [d, a] ok h := by
  intro line hl
  have hf := nastyPTR_forced d a hd
  have hfind := find_of_forced nastyPTRRecordRE [d, a] [] hf
  have hline : line = build nastyPTRRecordRE.items [d, a] ++ [] := by
    simp [lineOf, Spec.s] at hl
    simp [nastyPTRRecordRE, build, ← hl]
  rw [← hline] at hfind
  have hdisp : firstCase dispatch line = dispatch[7]? := by
    have h1 := firstCase_skip dispatch "Nasty PTR record \"".toList
      (d ++ ("\" is set up for ".toList ++ (a ++ ", ignoring".toList))) []
    have hs : skipCount dispatch "Nasty PTR record \"".toList [] = 7 := by decide
    have hl2 : "Nasty PTR record \"".toList ++
        ((d ++ ("\" is set up for ".toList ++ (a ++ ", ignoring".toList))) ++ []) = line := by
      simp [lineOf, Spec.s] at hl
      simp [← hl]
    rw [hs, hl2] at h1
    rw [h1]
    simp only [dispatch, List.drop_succ_cons, List.drop_zero]
    rw [firstCase_hit]
    · rfl
    · simp [Cond.holds, Pat.isMatch, hfind]
  rw [process_of_case cfg pid line ok h _ _ hdisp (by decide) rfl]
  simp only [dnsForm]
  rw [simple_hit _ _ cfg pid line ok h _ _ _ hfind]
  cases ok <;> simp [writeOnly, incEffs, expectedOut, expectedEv, Form.accepted, expectedInc,
    capsOf, nastyPTRRecordRE, grp, Pat.group, lookupCap]

end AM.Sshd
