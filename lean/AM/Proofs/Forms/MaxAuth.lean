import AM.Proofs.SshdCommon
/-! `maximum authentication attempts exceeded for <user> from <addr> port <port> ssh<ver>` — for
every user name without a newline, every address without white space and every decimal port the
event carries exactly those values (the port group is `.*` here, forced by the separator count). -/
namespace AM.Sshd
open AM AM.Rx AM.Spec AM.Gen

theorem maxAuth_forced (u a p v : Str)
    (hd : inDomain .maxAuth [u, a, p, v] = true) :
    Forced maxAuthAttemptsExceededRE.items maxAuthAttemptsExceededRE.anchE [u, a, p, v] [] := by
  simp only [inDomain, noSpace, digits, alnums, Bool.and_eq_true, Bool.not_eq_true',
    List.isEmpty_eq_false_iff] at hd
  obtain ⟨⟨⟨hu, ha⟩, _, hp⟩, hv0, hv⟩ := hd
  have ha' := allIn_of_all ha
  have hp' := allIn_of_all hp
  have hv' := allIn_of_all hv
  have cp := count_zero_of_allIn _ ' ' p hp' mem_sp_digit
  have cv := count_zero_of_allIn _ ' ' v hv' mem_sp_alnum
  have ca := count_zero_of_allIn _ ' ' a ha' mem_sp_nonspace
  simp only [maxAuthAttemptsExceededRE, Forced, build, List.append_nil]
  refine ⟨noNL_any hu, Nat.zero_le _, ⟨allIn_mono ha' nonspace_any, Nat.zero_le _,
      ⟨allIn_mono (allIn_mono hp' digit_nonspace) nonspace_any, Nat.zero_le _,
        ⟨hv', ?_, by simp, ?_⟩, ?_⟩, ?_⟩, ?_⟩
  · exact List.length_pos_iff.mpr hv0
  · exact noLater_boundary _ _ _ _ (Or.inl rfl)
  · exact noLater_count ' ' _ _ _ _ _ rfl (by simp [litCount, cv])
  · exact noLater_count ' ' _ _ _ _ _ rfl (by simp [litCount, List.count_append, cp, cv])
  · exact noLater_count ' ' _ _ _ _ _ rfl (by simp [litCount, List.count_append, cp, cv, ca])

theorem maxAuth_process (cfg : Cfg) (pid u a p v : Str) (ok : Bool) (h : Handoff)
    (hd : inDomain .maxAuth [u, a, p, v] = true) :
    ∀ line, lineOf .maxAuth [u, a, p, v] = some line →
      some (process cfg pid line ok h) = expectedOut cfg pid .maxAuth [u, a, p, v] ok h := by
  intro line hl
  have hf := maxAuth_forced u a p v hd
  have hfind := find_of_forced maxAuthAttemptsExceededRE [u, a, p, v] [] hf
  have hline : line = build maxAuthAttemptsExceededRE.items [u, a, p, v] ++ [] := by
    simp [lineOf, Spec.s] at hl
    simp [maxAuthAttemptsExceededRE, build, ← hl]
  rw [← hline] at hfind
  have hdisp : firstCase dispatch line = dispatch[10]? := by
    have h1 := firstCase_skip dispatch "maximum authentication attempts exceeded for ".toList
      (u ++ (" from ".toList ++ (a ++ (" port ".toList ++ (p ++ (" ssh".toList ++ v)))))) []
    have hs : skipCount dispatch "maximum authentication attempts exceeded for ".toList [] = 10 := by
      decide
    have hl2 : "maximum authentication attempts exceeded for ".toList ++
        ((u ++ (" from ".toList ++ (a ++ (" port ".toList ++ (p ++ (" ssh".toList ++ v)))))) ++ []) = line := by
      simp [lineOf, Spec.s] at hl
      simp [← hl]
    rw [hs, hl2] at h1
    rw [h1]
    simp only [dispatch, List.drop_succ_cons, List.drop_zero]
    rw [firstCase_hit]
    · rfl
    · simp [Cond.holds, Pat.isMatch, hfind]
  rw [process_of_case cfg pid line ok h _ _ hdisp (by decide) rfl]
  simp only [srcPort]
  rw [simple_hit _ _ cfg pid line ok h _ _ _ hfind]
  cases ok <;> simp [writeOnly, incEffs, expectedOut, expectedEv, Form.accepted, expectedInc,
    capsOf, maxAuthAttemptsExceededRE, grp, Pat.group, lookupCap]

end AM.Sshd
