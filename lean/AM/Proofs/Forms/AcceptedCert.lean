import AM.Proofs.Forms.HelpersE
/-! `Accepted publickey for <user> from <addr> port <port> ssh<ver>: <keytype> <hash>:<sum> ID <keyid>
(serial <n>) CA <catype> <cafp>` — the certificate form. `loginRE` matches a prefix of the line (it is
not end-anchored), so its `.*` groups are forced only if NO later part of the line — the certificate
part included — can be read as ` ssh<alnum>+: <alg>:<sum>`; then `certIDRE` is matched on the text after
the first match. -/
namespace AM.Sshd
open AM AM.Rx AM.Spec AM.Gen

theorem noSuf_R5_certTail (e : Bool) (k n ct cf : Str)
    (hk1 : lacks k " ssh" = true) (hk2 : lacks k ": " = true)
    (hn : ∀ ch ∈ n, clsDigit.mem ch = true) (hct : ∀ ch ∈ ct, clsKeyType.mem ch = true)
    (hcf : ∀ ch ∈ cf, clsNonSpace.mem ch = true) :
    NoSuf R5 e (' ' :: 'I' :: 'D' :: ' ' :: (k ++ ' ' :: '(' :: 's' :: 'e' :: 'r' :: 'i' :: 'a' :: 'l' :: ' ' ::
      (n ++ ')' :: ' ' :: 'C' :: 'A' :: ' ' :: (ct ++ ' ' :: cf)))) := by
  have hcf' : NoSuf R5 e cf := by
    have := noSuf_field clsNonSpace (c := ' ') (by decide) cf hcf (noSuf_nil ' ' ['s', 's', 'h'] R5.tail e)
    rw [List.append_nil] at this
    exact this
  have hl1 := lacks_spec k " ssh" hk1
  have hl2 := lacks_spec k ": " hk2
  simp only [String.reduceToList] at hl1 hl2
  unfold R5 at hcf' ⊢
  apply noSuf_cons ' '
  · apply noSuf_cons_ne 'I' (by decide)
    apply noSuf_cons_ne 'D' (by decide)
    apply noSuf_cons ' '
    · apply noSuf_any k
      · apply noSuf_cons ' '
        · apply noSuf_cons_ne '(' (by decide)
          apply noSuf_cons_ne 's' (by decide)
          apply noSuf_cons_ne 'e' (by decide)
          apply noSuf_cons_ne 'r' (by decide)
          apply noSuf_cons_ne 'i' (by decide)
          apply noSuf_cons_ne 'a' (by decide)
          apply noSuf_cons_ne 'l' (by decide)
          apply noSuf_cons ' '
          · apply noSuf_field clsDigit (by decide) n hn
            apply noSuf_cons_ne ')' (by decide)
            apply noSuf_cons ' '
            · apply noSuf_cons_ne 'C' (by decide)
              apply noSuf_cons_ne 'A' (by decide)
              apply noSuf_cons ' '
              · apply noSuf_field clsKeyType (by decide) ct hct
                apply noSuf_cons ' ' hcf'
                -- " cf"
                intro caps r hp
                obtain ⟨x, y, w, heq, _, _, _⟩ := parse_R5_inv hp
                simp only [List.cons.injEq, true_and] at heq
                have : ' ' ∈ cf := by rw [heq]; simp
                have := hcf _ this
                revert this; decide
              · -- " ct cf"
                intro caps r hp
                obtain ⟨x, y, w, heq, hx, _, _⟩ := parse_R5_inv hp
                simp only [List.cons.injEq, true_and] at heq
                obtain ⟨_, h2, _⟩ := span_unique clsKeyType ct ('s' :: 's' :: 'h' :: x) ' ' ':' _ _ hct
                  (ssh_alnum_keytype hx) (by decide) (by decide) (by simpa using heq)
                revert h2; decide
            · -- " CA …"
              intro caps r hp
              have := parse_lit_prefix hp
              simp at this
          · -- " n) CA …"
            intro caps r hp
            have hpre := parse_lit_prefix hp
            cases n with
            | nil => simp at hpre
            | cons d n =>
              have hd := hn d List.mem_cons_self
              simp at hpre
              rw [← hpre.1] at hd
              revert hd; decide
        · -- " (serial …"
          intro caps r hp
          have := parse_lit_prefix hp
          simp at this
      · -- inside k
        intro j hj caps r hp
        have hpre := parse_lit_prefix hp
        have hl := hl1 j
        generalize k.drop j = d at hpre hl
        rcases d with _ | ⟨c1, _ | ⟨c2, _ | ⟨c3, _ | ⟨c4, d⟩⟩⟩⟩ <;> simp at hpre hl
        exact hl hpre.1 hpre.2.1 hpre.2.2.1 hpre.2.2.2
    · -- " k (serial …": the space before the key ID
      intro caps r hp
      obtain ⟨x, y, w, heq, hx, hy, hy1⟩ := parse_R5_inv hp
      simp only [List.cons.injEq, true_and] at heq
      have heq' : k ++ ' ' :: '(' :: 's' :: 'e' :: 'r' :: 'i' :: 'a' :: 'l' :: ' ' ::
          (n ++ ')' :: ' ' :: 'C' :: 'A' :: ' ' :: (ct ++ ' ' :: cf)) =
          ('s' :: 's' :: 'h' :: x) ++ ':' :: ' ' :: (y ++ ':' :: w) := by simpa using heq
      rcases List.append_eq_append_iff.mp heq' with ⟨as, h1, h2⟩ | ⟨bs, h1, h2⟩
      · cases as with
        | nil => simp at h2
        | cons c as =>
          simp only [List.cons_append, List.cons.injEq] at h2
          have hm : ' ' ∈ 's' :: 's' :: 'h' :: x := by rw [h1, ← h2.1]; simp
          have := ssh_alnum_keytype hx _ hm
          revert this; decide
      · rcases bs with _ | ⟨b1, _ | ⟨b2, bs⟩⟩
        · simp at h2
        · simp only [List.cons_append, List.nil_append, List.cons.injEq] at h2
          cases y with
          | nil => simp at hy1
          | cons c y =>
            have hc := hy c List.mem_cons_self
            simp only [List.cons_append, List.cons.injEq] at h2
            rw [h2.2.2.1] at hc
            revert hc; decide
        · simp only [List.cons_append, List.cons.injEq] at h2
          apply hl2 ('s' :: 's' :: 'h' :: x).length
          rw [h1, List.drop_left, ← h2.1, ← h2.2.1]
          simp
  · -- " ID …"
    intro caps r hp
    have := parse_lit_prefix hp
    simp at this

/-- the items of `certIDRE` after the `UserID` group -/
def RK : List Item := [.lit [' ', '(', 's', 'e', 'r', 'i', 'a', 'l', ' '], .rep clsDigit 1 true, .lit [')'],
  .rep clsSpace 1 false, .rep clsAny 1 true]

theorem noSuf_RK (e : Bool) (n ct cf : Str)
    (hn : ∀ ch ∈ n, clsDigit.mem ch = true) (hct : ∀ ch ∈ ct, clsKeyType.mem ch = true)
    (hcf : ∀ ch ∈ cf, clsNonSpace.mem ch = true) :
    NoSuf RK e ('(' :: 's' :: 'e' :: 'r' :: 'i' :: 'a' :: 'l' :: ' ' ::
      (n ++ ')' :: ' ' :: 'C' :: 'A' :: ' ' :: (ct ++ ' ' :: cf))) := by
  have hcf' : NoSuf RK e cf := by
    have := noSuf_field clsNonSpace (c := ' ') (by decide) cf hcf
      (noSuf_nil ' ' ['(', 's', 'e', 'r', 'i', 'a', 'l', ' '] RK.tail e)
    rw [List.append_nil] at this
    exact this
  unfold RK at hcf' ⊢
  apply noSuf_cons_ne '(' (by decide)
  apply noSuf_cons_ne 's' (by decide)
  apply noSuf_cons_ne 'e' (by decide)
  apply noSuf_cons_ne 'r' (by decide)
  apply noSuf_cons_ne 'i' (by decide)
  apply noSuf_cons_ne 'a' (by decide)
  apply noSuf_cons_ne 'l' (by decide)
  apply noSuf_cons ' '
  · apply noSuf_field clsDigit (by decide) n hn
    apply noSuf_cons_ne ')' (by decide)
    apply noSuf_cons ' '
    · apply noSuf_cons_ne 'C' (by decide)
      apply noSuf_cons_ne 'A' (by decide)
      apply noSuf_cons ' '
      · apply noSuf_field clsKeyType (by decide) ct hct
        apply noSuf_cons ' ' hcf'
        intro caps r hp
        obtain ⟨t, ht⟩ := parse_lit_prefix hp
        simp only [List.cons_append, List.nil_append, List.cons.injEq, true_and] at ht
        have : ' ' ∈ cf := by rw [← ht]; simp
        have := hcf _ this
        revert this; decide
      · intro caps r hp
        have hpre := parse_lit_prefix hp
        cases ct with
        | nil => simp at hpre
        | cons d ct =>
          have hd := hct d List.mem_cons_self
          simp at hpre
          rw [← hpre.1] at hd
          revert hd; decide
    · intro caps r hp
      have := parse_lit_prefix hp
      simp at this
  · intro caps r hp
    have hpre := parse_lit_prefix hp
    cases n with
    | nil => simp at hpre
    | cons d n =>
      have hd := hn d List.mem_cons_self
      simp at hpre
      rw [← hpre.1] at hd
      revert hd; decide

theorem certID_forced (k n ct cf : Str) (hk : noNL k = true)
    (hn : ∀ ch ∈ n, clsDigit.mem ch = true) (hn0 : n ≠ [])
    (hct : ∀ ch ∈ ct, clsKeyType.mem ch = true) (hcf : ∀ ch ∈ cf, clsNonSpace.mem ch = true) :
    Forced certIDRE.items certIDRE.anchE [k, n, [' '], 'C' :: 'A' :: ' ' :: (ct ++ ' ' :: cf)] [] := by
  have hK := noSuf_RK false n ct cf hn hct hcf
  simp only [certIDRE, Forced, build, List.append_nil, String.reduceToList]
  refine ⟨noNL_any hk, Nat.zero_le _, ⟨hn, List.length_pos_iff.mpr hn0, ⟨by decide, by decide,
    ⟨?_, by simp, by simp, ?_⟩, ?_⟩, ?_⟩, ?_⟩
  · intro ch hch
    simp only [List.mem_cons, List.mem_append] at hch
    rcases hch with rfl | rfl | rfl | hc | rfl | hc
    · decide
    · decide
    · decide
    · exact nonspace_any ch (keytype_nonspace ch (hct ch hc))
    · decide
    · exact nonspace_any ch (hcf ch hc)
  · exact noLater_boundary _ _ _ _ (Or.inl rfl)
  · exact noLater_boundary _ _ _ _ (Or.inr ⟨'C', _, rfl, by decide⟩)
  · exact noLater_boundary _ _ _ _ (Or.inr ⟨')', _, rfl, by decide⟩)
  · exact noLater_of_noSuf _ _ _ _ _ ' ' (by simp) hK

theorem drop_length_add (b t : Str) (i : Nat) : (b ++ t).drop (b.length + i) = t.drop i := by
  induction b with
  | nil => simp
  | cons c b ih => simp [Nat.succ_add, ih]

theorem acceptedCert_forced (u a p v kt h sum k n ct cf : Str)
    (hd : inDomain .acceptedCert [u, a, p, v, kt, h, sum, k, n, ct, cf] = true) :
    Forced loginRE.items loginRE.anchE [u, a, p, v, kt ++ s " " ++ h, sum]
      (s " ID " ++ k ++ s " (serial " ++ n ++ s ") CA " ++ ct ++ s " " ++ cf) := by
  simp only [inDomain, noSpace, digits, alnums, keyTypeLike, Bool.and_eq_true, Bool.not_eq_true',
    List.isEmpty_eq_false_iff] at hd
  obtain ⟨⟨⟨⟨⟨⟨⟨⟨⟨⟨⟨⟨⟨⟨⟨hu, ha⟩, _, hp⟩, hv0, hv⟩, _, hkt⟩, _, hh⟩, hsum⟩, hs0⟩, _⟩, _⟩, hk1⟩, hk2⟩,
    _, hn⟩, _, hct⟩, hcf⟩, _⟩ := hd
  have htr := noSuf_R5_certTail false k n ct cf hk1 hk2 (allIn_of_all hn) (allIn_of_all hct)
    (allIn_of_all hcf)
  have := login_forced u a p v kt h sum _ hu (allIn_of_all ha) (allIn_of_all hp) (allIn_of_all hv) hv0
    (allIn_of_all hkt) (allIn_of_all hh) (allIn_of_all hsum) hs0 htr (Or.inr ⟨_, rfl⟩)
  simpa [Spec.s, loginRE] using this

theorem acceptedCert_process (cfg : Cfg) (pid u a p v kt h sum k n ct cf : Str) (ok : Bool) (hh : Handoff)
    (hd : inDomain .acceptedCert [u, a, p, v, kt, h, sum, k, n, ct, cf] = true)
    (hpid : ∃ m, atoi pid = some m) :
    ∀ line, lineOf .acceptedCert [u, a, p, v, kt, h, sum, k, n, ct, cf] = some line →
      some (process cfg pid line ok hh) =
        expectedOut cfg pid .acceptedCert [u, a, p, v, kt, h, sum, k, n, ct, cf] ok hh := by
  intro line hl
  obtain ⟨m, hm⟩ := hpid
  have hf := acceptedCert_forced u a p v kt h sum k n ct cf hd
  have hfind := find_of_forced loginRE [u, a, p, v, kt ++ s " " ++ h, sum] _ hf
  have hline : line = build loginRE.items [u, a, p, v, kt ++ s " " ++ h, sum] ++
      (s " ID " ++ k ++ s " (serial " ++ n ++ s ") CA " ++ ct ++ s " " ++ cf) := by
    simp [lineOf, Spec.s] at hl
    simp [loginRE, build, Spec.s, ← hl]
  -- the certificate part, matched by `certIDRE`
  have hf2 : Forced certIDRE.items certIDRE.anchE [k, n, [' '], 'C' :: 'A' :: ' ' :: (ct ++ ' ' :: cf)] [] := by
    simp only [inDomain, noSpace, digits, alnums, keyTypeLike, Bool.and_eq_true, Bool.not_eq_true',
      List.isEmpty_eq_false_iff] at hd
    obtain ⟨⟨⟨⟨⟨⟨⟨⟨_, hk⟩, _⟩, _⟩, _⟩, hn0, hn⟩, _, hct⟩, hcf⟩, _⟩ := hd
    exact certID_forced k n ct cf hk (allIn_of_all hn) hn0 (allIn_of_all hct) (allIn_of_all hcf)
  have hfind2 := find_of_forced certIDRE _ [] hf2
  generalize hB : build loginRE.items [u, a, p, v, kt ++ s " " ++ h, sum] = B at hfind hline
  have hmlen : ((B ++ (s " ID " ++ k ++ s " (serial " ++ n ++ s ") CA " ++ ct ++ s " " ++ cf)).length -
      if loginRE.anchE = true then 0
      else (s " ID " ++ k ++ s " (serial " ++ n ++ s ") CA " ++ ct ++ s " " ++ cf).length) = B.length := by
    simp [loginRE]
  rw [hmlen, ← hline, loginRE_capsOf] at hfind
  have hne : line.length ≠ B.length := by
    rw [hline]; simp [Spec.s]
  have hdrop : line.drop (B.length + 1) =
      build certIDRE.items [k, n, [' '], 'C' :: 'A' :: ' ' :: (ct ++ ' ' :: cf)] ++ [] := by
    rw [hline, drop_length_add]
    simp [certIDRE, build, Spec.s]
  rw [← hdrop, certIDRE_capsOf] at hfind2
  have hdisp : firstCase dispatch line = dispatch[0]? := by
    simp only [dispatch]
    rw [firstCase_hit]
    · rfl
    · simp [lineOf, Spec.s] at hl
      simp [Cond.holds, ← hl]
  rw [process_of_case cfg pid line ok hh _ _ hdisp (by decide) rfl,
    acceptPublicKey_cert cfg pid line ok hh 0 _ _ _ _ _ _ _ _ _ _ _ m hfind hne hfind2 hm]
  cases ok <;> cases hh <;>
    simp [writeAndSend, incEffs, expectedOut, expectedEv, Form.accepted, expectedInc, expectedCred, hm,
      Spec.s]

end AM.Sshd
