import AM.Proofs.SshdCommon
/-! General-purpose lemmas about occurrences of a literal in a concatenation, used to discharge
`NoLater` by literal occurrence (`noLater_lit`) when the text after the group is
`literal ++ field ++ literal`. -/
namespace AM.Sshd
open AM AM.Rx AM.Spec AM.Gen

/-- a literal that is a prefix of `x ++ c :: y`, where `c` does not occur in the literal, is a
prefix of `x` (it cannot straddle the boundary) -/
theorem prefix_of_prefix_append_notMem (l x y : Str) (c : Char) (hc : c ∉ l)
    (h : l <+: x ++ c :: y) : l <+: x := by
  by_cases hlen : l.length ≤ x.length
  · exact List.prefix_of_prefix_length_le h (List.prefix_append _ _) hlen
  · exfalso
    obtain ⟨r, hr⟩ := h
    have h1 : (l ++ r)[x.length]? = some c := by rw [hr]; simp
    rw [List.getElem?_append_left (by omega)] at h1
    exact hc (List.mem_of_getElem? h1)

/-- `l` occurs neither in `x` nor in `y`, and cannot straddle them: it does not occur in `x ++ y` -/
theorem no_occ_appendD (l x y : Str) (c : Char) (y' : Str) (hy : y = c :: y') (hc : c ∉ l)
    (hx : ∀ j, ¬ l <+: x.drop j) (hyl : ∀ j, ¬ l <+: y.drop j) :
    ∀ j, ¬ l <+: (x ++ y).drop j := by
  intro j h
  by_cases hj : j ≤ x.length
  · rw [List.drop_append_of_le_length hj, hy] at h
    exact hx j (prefix_of_prefix_append_notMem _ _ _ _ hc h)
  · rw [List.drop_append, List.drop_eq_nil_of_le (by omega), List.nil_append] at h
    exact hyl _ h

/-- a literal containing a byte outside the class of `x` does not occur in `x` -/
theorem no_occ_of_allIn (c : Cls) (sp : Char) (l x : Str) (hx : ∀ ch ∈ x, c.mem ch = true)
    (hs : c.mem sp = false) (hl : sp ∈ l) : ∀ j, ¬ l <+: x.drop j := by
  intro j h
  have h1 : sp ∈ x.drop j := h.subset hl
  have h2 := hx sp (List.mem_of_mem_drop h1)
  rw [hs] at h2; cases h2

/-- the literal visibly mismatches each of its own proper suffixes at offsets `0 < j < n` -/
def selfFree (l : Str) (n : Nat) : Bool :=
  (List.range n).all fun j => j == 0 || mismatch l (l.drop j)

/-- no second occurrence of `l` in `l ++ x` at a positive offset: offsets below `n` are excluded
by `selfFree`, offsets `n ≤ j < |l|` by `hrest`, offsets inside `x` by `hx` -/
theorem no_occ_after (l x : Str) (n : Nat) (hself : selfFree l n = true)
    (hrest : ∀ j, n ≤ j → j < l.length → ¬ l <+: l.drop j ++ x)
    (hx : ∀ j, ¬ l <+: x.drop j) : ∀ j, 0 < j → ¬ l <+: (l ++ x).drop j := by
  intro j hj h
  by_cases hlt : j < l.length
  · rw [List.drop_append_of_le_length (by omega)] at h
    by_cases hn : j < n
    · have h1 := List.all_eq_true.mp hself j (List.mem_range.mpr hn)
      simp only [Bool.or_eq_true, beq_iff_eq] at h1
      rcases h1 with h0 | hm
      · omega
      · have h2 := not_prefix_of_mismatch l (l.drop j) x hm
        rw [List.isPrefixOf_iff_prefix.mpr h] at h2; cases h2
    · exact hrest j (by omega) hlt h
  · rw [List.drop_append, List.drop_eq_nil_of_le (by omega), List.nil_append] at h
    exact hx _ h

/-- `noLater_lit` without the class side condition -/
theorem noLater_lit_occ (c : Cls) (l : Str) (is : List Item) (e : Bool) (t : Str)
    (h : ∀ j, 0 < j → ¬ l <+: t.drop j) : NoLater c (.lit l :: is) e t :=
  noLater_lit c l is e t (fun j hj _ _ => h j hj)

end AM.Sshd
