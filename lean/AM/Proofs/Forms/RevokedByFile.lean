import AM.Proofs.SshdCommon
import AM.Proofs.Forms.HelpersD
/-! `Authentication key <type> <fingerprint> revoked by file <path>` — for every key type over
`[a-zA-Z0-9_-]`, every fingerprint without white space and every path without a newline that
does not contain `revoked by file ` the event carries exactly those values. -/
namespace AM.Sshd
open AM AM.Rx AM.Spec AM.Gen

theorem revokedByFile_forced (kt fp f : Str)
    (hd : inDomain .revokedByFile [kt, fp, f] = true) :
    Forced revokedPublicKeyByFileRE.items revokedPublicKeyByFileRE.anchE [kt, fp, f] [] := by
  simp only [inDomain, noSpace, keyTypeLike, Bool.and_eq_true, Bool.not_eq_true',
    List.isEmpty_eq_false_iff] at hd
  obtain ⟨⟨⟨⟨⟨hk0, hk⟩, hfp⟩, hf⟩, hl1⟩, hl2⟩ := hd
  have hk' := allIn_of_all hk
  have hfp' := allIn_of_all hfp
  simp only [revokedPublicKeyByFileRE, Forced, build, List.append_nil]
  refine ⟨hk', List.length_pos_iff.mpr hk0, ⟨allIn_mono hfp' nonspace_any, Nat.zero_le _,
    ⟨noNL_any hf, Nat.zero_le _, by simp, ?_⟩, ?_⟩, ?_⟩
  · exact noLater_boundary _ _ _ _ (Or.inl rfl)
  · apply noLater_lit_occ
    apply no_occ_after _ _ 16 (by decide)
    · intro j h1 h2
      have hlen : " revoked by file ".toList.length = 17 := by decide
      have hj : j = 16 := by omega
      subst hj
      intro hp
      have hp' : "revoked by file ".toList <+: f := by simpa using hp
      exact lacks_spec f "revoked by file " hl2 0 hp'
    · exact lacks_spec f " revoked by file " hl1
  · exact noLater_boundary _ _ _ _ (Or.inr ⟨' ', _, rfl, by decide⟩)

theorem revokedByFile_process (cfg : Cfg) (pid kt fp f : Str) (ok : Bool) (h : Handoff)
    (hd : inDomain .revokedByFile [kt, fp, f] = true) :
    ∀ line, lineOf .revokedByFile [kt, fp, f] = some line →
      some (process cfg pid line ok h) = expectedOut cfg pid .revokedByFile [kt, fp, f] ok h := by
  intro line hl
  have hf := revokedByFile_forced kt fp f hd
  have hfind := find_of_forced revokedPublicKeyByFileRE [kt, fp, f] [] hf
  have hline : line = build revokedPublicKeyByFileRE.items [kt, fp, f] ++ [] := by
    simp [lineOf, Spec.s] at hl
    simp [revokedPublicKeyByFileRE, build, ← hl]
  rw [← hline] at hfind
  have hdisp : firstCase dispatch line = dispatch[11]? := by
    have h1 := firstCase_skip dispatch "Authentication key ".toList
      (kt ++ (" ".toList ++ (fp ++ (" revoked by file ".toList ++ f)))) []
    have hs : skipCount dispatch "Authentication key ".toList [] = 11 := by decide
    have hl2 : "Authentication key ".toList ++
        ((kt ++ (" ".toList ++ (fp ++ (" revoked by file ".toList ++ f)))) ++ []) = line := by
      simp [lineOf, Spec.s] at hl
      simp [← hl]
    rw [hs, hl2] at h1
    rw [h1]
    simp only [dispatch, List.drop_succ_cons, List.drop_zero]
    rw [firstCase_hit]
    · rfl
    · simp [Cond.holds, Pat.isMatch, hfind]
  rw [process_of_case cfg pid line ok h _ _ hdisp (by decide) rfl]
  simp only [revokedForm]
  rw [simple_hit _ _ cfg pid line ok h _ _ _ hfind]
  cases ok <;> simp [writeOnly, incEffs, expectedOut, expectedEv, Form.accepted, expectedInc,
    capsOf, revokedPublicKeyByFileRE, grp, Pat.group, lookupCap]

end AM.Sshd
