import AM.Proofs.Forms.HelpersC
/-! `Certificate invalid: <reason>` — no expression is involved: for EVERY reason (any bytes) the
event carries the reason (or `unknown reason` when it is empty), JSON-coerced. There is no
`certInvalid_forced` theorem because the entry function does not use a regular expression. -/
namespace AM.Sshd
open AM AM.Rx AM.Spec AM.Gen

theorem certInvalid_process (cfg : Cfg) (pid r : Str) (ok : Bool) (h : Handoff)
    (_hd : inDomain .certInvalid [r] = true) :
    ∀ line, lineOf .certInvalid [r] = some line →
      some (process cfg pid line ok h) = expectedOut cfg pid .certInvalid [r] ok h := by
  intro line hl
  have hl2 : "Certificate invalid: ".toList ++ (r ++ []) = line := by
    simp [lineOf, Spec.s] at hl
    simp [← hl]
  have hdisp : firstCase dispatch line = dispatch[2]? := by
    have h1 := firstCase_skip dispatch "Certificate invalid: ".toList r []
    have hs : skipCount dispatch "Certificate invalid: ".toList [] = 2 := by decide
    rw [hs, hl2] at h1
    rw [h1]
    simp only [dispatch, List.drop_succ_cons, List.drop_zero]
    rw [firstCase_hit]
    · rfl
    · simp [Cond.holds, ← hl2]
  rw [process_of_case cfg pid line ok h _ _ hdisp (by decide) rfl]
  have hlen : line.length = 21 + r.length := by
    rw [← hl2]; simp; omega
  have hdrop : line.drop 21 = r := by
    rw [← hl2]; simp
  have hreason : (if line.length ≤ certInvalidPrefixLen then strOf "unknown reason"
      else line.drop certInvalidPrefixLen) = (if r.isEmpty then Spec.s "unknown reason" else r) := by
    have : certInvalidPrefixLen = 21 := by decide
    rw [this, hdrop, hlen]
    cases r with
    | nil => simp [strOf, Spec.s]
    | cons c t =>
      have : ¬ (21 + (c :: t).length ≤ 21) := by simp
      rw [if_neg this]; simp
  simp only [certificateInvalid, hreason]
  cases ok <;> simp [writeOnly, incEffs, expectedOut, expectedEv, Form.accepted, expectedInc,
    incAt, incsOf, fnIncs, aLookup, strOf, Spec.s]

end AM.Sshd
