import AM.Proofs.SshdCommon
import AM.Proofs.Forms.HelpersD
/-! `reverse mapping checking getaddrinfo for <dns> [<addr>] failed.` — for every DNS name
without a newline and every address without white space the event carries exactly those values. -/
namespace AM.Sshd
open AM AM.Rx AM.Spec AM.Gen

theorem reverseMapping_forced (d a : Str)
    (hd : inDomain .reverseMapping [d, a] = true) :
    Forced reverseMappingCheckFailedRE.items reverseMappingCheckFailedRE.anchE [d, a, ['.']] [] := by
  simp only [inDomain, noSpace, Bool.and_eq_true] at hd
  obtain ⟨⟨⟨hd1, ha⟩, _⟩, _⟩ := hd
  have ha' := allIn_of_all ha
  have ca := count_zero_of_allIn _ ' ' a ha' mem_sp_nonspace
  simp only [reverseMappingCheckFailedRE, Forced, build, List.append_nil]
  refine ⟨noNL_any hd1, Nat.zero_le _, ⟨allIn_mono ha' nonspace_any, Nat.zero_le _,
    ⟨⟨'.', rfl, by decide, by decide⟩, by simp⟩, ?_⟩, ?_⟩
  · exact noLater_count ']' _ _ _ _ _ rfl (by decide)
  · exact noLater_count ' ' _ _ _ _ _ rfl (by simp [litCount, List.count_append, ca])

theorem reverseMapping_process (cfg : Cfg) (pid d a : Str) (ok : Bool) (h : Handoff)
    (hd : inDomain .reverseMapping [d, a] = true) :
    ∀ line, lineOf .reverseMapping [d, a] = some line →
      some (process cfg pid line ok h) = expectedOut cfg pid .reverseMapping [d, a] ok h := by
  intro line hl
  have hf := reverseMapping_forced d a hd
  have hfind := find_of_forced reverseMappingCheckFailedRE [d, a, ['.']] [] hf
  have hline : line = build reverseMappingCheckFailedRE.items [d, a, ['.']] ++ [] := by
    simp [lineOf, Spec.s] at hl
    simp [reverseMappingCheckFailedRE, build, ← hl]
  rw [← hline] at hfind
  have hdisp : firstCase dispatch line = dispatch[8]? := by
    have h1 := firstCase_skip dispatch "reverse mapping checking getaddrinfo for ".toList
      (d ++ (" [".toList ++ (a ++ "] failed.".toList))) []
    have hs : skipCount dispatch "reverse mapping checking getaddrinfo for ".toList [] = 8 := by decide
    have hl2 : "reverse mapping checking getaddrinfo for ".toList ++
        ((d ++ (" [".toList ++ (a ++ "] failed.".toList))) ++ []) = line := by
      simp [lineOf, Spec.s] at hl
      simp [← hl]
    rw [hs, hl2] at h1
    rw [h1]
    simp only [dispatch, List.drop_succ_cons, List.drop_zero]
    rw [firstCase_hit]
    · rfl
    · simp [Cond.holds, Pat.isMatch, hfind]
  rw [process_of_case cfg pid line ok h _ _ hdisp (by decide) rfl]
  simp only [dnsForm]
  rw [simple_hit _ _ cfg pid line ok h _ _ _ hfind]
  cases ok <;> simp [writeOnly, incEffs, expectedOut, expectedEv, Form.accepted, expectedInc,
    capsOf, reverseMappingCheckFailedRE, grp, Pat.group, lookupCap]

end AM.Sshd
