import AM.Proofs.SshdCommon
/-! Helpers shared by the `User <user> from <addr> not allowed because …` forms: all five
expressions have the shape `^User (.*) from (.*)<tail>$` where `<tail>` starts with a blank. -/
namespace AM.Sshd
open AM AM.Rx AM.Spec AM.Gen

/-- the forced split for `^User (.*) from (.*)<tail>$`: the user name may contain anything but a
newline (blanks and ` from ` included), the address contains no white space; the blank count
pins both groups. -/
theorem userFrom_forced_items (tail t' : Str) (ht : tail = ' ' :: t') (u a : Str)
    (hu : noNL u = true) (ha : noSpace a = true) :
    Forced [.lit "User ".toList, .rep clsAny 0 true, .lit " from ".toList, .rep clsAny 0 true,
      .lit tail] true [u, a] [] := by
  have ha' := allIn_of_all ha
  have ca := count_zero_of_allIn _ ' ' a ha' mem_sp_nonspace
  simp only [Forced, build, List.append_nil]
  refine ⟨noNL_any hu, Nat.zero_le _, ⟨allIn_mono ha' nonspace_any, Nat.zero_le _, by simp, ?_⟩, ?_⟩
  · exact noLater_count ' ' _ _ _ _ t' ht (by simp [litCount])
  · exact noLater_count ' ' _ _ _ _ _ rfl (by simp [litCount, List.count_append, ca]; omega)

end AM.Sshd
