import AM.Proofs.SshdShape
/-! C19 — for EVERY line: an event is counted exactly once, under the outcome label that agrees
with the event and the method label of the accept keyword the line starts with; lines without a
keyword count nothing. Corollaries of `Sshd.process_shape`. -/
namespace AM.C19
open AM AM.Sshd AM.Spec

/-- the model counts first and writes afterwards (`incAt … ++ [write …]`), which is why an event that is
written is counted whatever happens to the hand-off that follows: in the working tree every `IncLogins`
call inside an entry function stands before the event write of its branch and outside any `select`
(regenerated placement facts) -/
theorem gen_incs_precede_the_write :
    (AM.Gen.incPlacement.all fun x => x.2.all (· == "before-write")) = true := by decide

theorem counted_once (cfg : Cfg) (pid line : Str) (ok : Bool) (h : Handoff) (e : Ev) (b : Bool) :
    (e, b) ∈ writes (process cfg pid line ok h) →
      ∃ m oc, incs (process cfg pid line ok h) = [(m, oc)] ∧
        ((oc = "success") ↔ (e.outcome = "succeeded")) ∧ (oc = "success" ∨ oc = "failure") := by
  have hs := process_shape cfg pid line ok h
  generalize process cfg pid line ok h = o at hs
  intro hm
  cases hs with
  | quiet is _ => simp [writes_incs] at hm
  | wfail m oc e' _ hl =>
    simp [writes] at hm; obtain ⟨rfl, _⟩ := hm
    exact ⟨m, oc, by simp [incs], hl.1, hl.2.1⟩
  | wok m oc e' _ hl =>
    simp [writes] at hm; obtain ⟨rfl, _⟩ := hm
    exact ⟨m, oc, by simp [incs], hl.1, hl.2.1⟩
  | wsend m oc e' _ _ _ hl =>
    simp [writes] at hm; obtain ⟨rfl, _⟩ := hm
    exact ⟨m, oc, by simp [incs], hl.1, hl.2.1⟩

theorem method_label (cfg : Cfg) (pid line : Str) (ok : Bool) (h : Handoff) (e : Ev) (b : Bool)
    (m oc : String) :
    (e, b) ∈ writes (process cfg pid line ok h) → e.outcome = "succeeded" →
      incs (process cfg pid line ok h) = [(m, oc)] →
      ((s "Accepted password").isPrefixOf line = true ∧ m = "password") ∨
      ((s "Accepted publickey").isPrefixOf line = true ∧ (m = "ssh-key" ∨ m = "ssh-cert")) := by
  have hs := process_shape cfg pid line ok h
  generalize process cfg pid line ok h = o at hs
  intro hm hout hi
  cases hs with
  | quiet is _ => simp [writes_incs] at hm
  | wfail m' oc' e' _ hl =>
    simp [writes] at hm; obtain ⟨rfl, _⟩ := hm
    simp [incs] at hi; obtain ⟨rfl, _⟩ := hi
    exact hl.2.2.1 hout
  | wok m' oc' e' _ hl =>
    simp [writes] at hm; obtain ⟨rfl, _⟩ := hm
    simp [incs] at hi; obtain ⟨rfl, _⟩ := hi
    exact hl.2.2.1 hout
  | wsend m' oc' e' _ _ _ hl =>
    simp [writes] at hm; obtain ⟨rfl, _⟩ := hm
    simp [incs] at hi; obtain ⟨rfl, _⟩ := hi
    exact hl.2.2.1 hout

theorem quiet (cfg : Cfg) (pid line : Str) (ok : Bool) (h : Handoff) :
    hasKeyword line = false → incs (process cfg pid line ok h) = [] := by
  have hs := process_shape cfg pid line ok h
  generalize process cfg pid line ok h = o at hs
  intro hk
  cases hs with
  | quiet is hq => rw [incs_incs]; exact hq hk
  | wfail _ _ _ _ hl => rw [hl.2.2.2] at hk; cases hk
  | wok _ _ _ _ hl => rw [hl.2.2.2] at hk; cases hk
  | wsend _ _ _ _ _ _ hl => rw [hl.2.2.2] at hk; cases hk

/-- the C19 clauses on one written event and its single increment -/
theorem spec_label (line : Str) (e : Ev) (m oc : String) (hl : Label line e m oc) :
    (if (oc == "success") != (e.outcome == "succeeded") then some "outcome-label" else
      if e.outcome == "succeeded" then
        if (s "Accepted password").isPrefixOf line then
          (if m == "password" then none else some "method-label")
        else if (s "Accepted publickey").isPrefixOf line then
          (if m == "ssh-key" || m == "ssh-cert" then none else some "method-label")
        else some "succeeded-event-for-non-accept-line"
      else if oc == "failure" then none else some "outcome-label") = (none : Option String) := by
  obtain ⟨hiff, hoc, hmeth, _⟩ := hl
  by_cases hout : e.outcome = "succeeded"
  · have hsucc : oc = "success" := hiff.mpr hout
    subst hsucc
    rcases hmeth hout with ⟨hp, rfl⟩ | ⟨hp, hm⟩
    · simp [hout, hp]
    · have hnp : (s "Accepted password").isPrefixOf line = false := by
        cases hpp : (s "Accepted password").isPrefixOf line with
        | false => rfl
        | true => exact (accept_prefixes_disjoint line hpp hp).elim
      rcases hm with rfl | rfl <;> simp [hout, hp, hnp]
  · have hns : oc ≠ "success" := fun h0 => hout (hiff.mp h0)
    have hf : oc = "failure" := by rcases hoc with h0 | h0; exact absurd h0 hns; exact h0
    subst hf
    simp [hout]

theorem spec_holds (cfg : Cfg) (pid line : Str) (ok : Bool) (h : Handoff) :
    specC19 line (process cfg pid line ok h) = none := by
  have hs := process_shape cfg pid line ok h
  generalize process cfg pid line ok h = o at hs
  cases hs with
  | quiet is hq =>
    simp only [specC19, writes_incs, incs_incs]
    cases hk : hasKeyword line with
    | false => simp [hq hk]
    | true => simp
  | wfail m oc e _ hl =>
    simp only [specC19, writes, incs, List.filterMap_cons, List.filterMap_nil]
    exact spec_label line e m oc hl
  | wok m oc e _ hl =>
    simp only [specC19, writes, incs, List.filterMap_cons, List.filterMap_nil]
    exact spec_label line e m oc hl
  | wsend m oc e _ _ _ hl =>
    simp only [specC19, writes, incs, List.filterMap_cons, List.filterMap_nil]
    exact spec_label line e m oc hl

end AM.C19
