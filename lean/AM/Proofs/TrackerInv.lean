import AM.Model.Tracker
/-! The identity invariant of the session tracker (core of C01, C04, C09): everything the tracker
holds or has emitted is justified by the history that was delivered to it. Holds for all histories,
all write-failure oracles, and in the states returned together with an error. -/
namespace AM.Tr
open AM

/-! ### history projections -/

/-- logins delivered by the history, in order -/
def loginsOf : List Op → List Login
  | [] => []
  | .remoteLogin l :: r => l :: loginsOf r
  | _ :: r => loginsOf r

/-- audit events delivered by the history, in order -/
def auditsOf : List Op → List AEvent
  | [] => []
  | .audit e _ :: r => e :: auditsOf r
  | _ :: r => auditsOf r

theorem loginsOf_append (h h' : List Op) : loginsOf (h ++ h') = loginsOf h ++ loginsOf h' := by
  induction h with
  | nil => simp [loginsOf]
  | cons o r ih => cases o <;> simp [loginsOf, ih]

theorem auditsOf_append (h h' : List Op) : auditsOf (h ++ h') = auditsOf h ++ auditsOf h' := by
  induction h with
  | nil => simp [auditsOf]
  | cons o r ih => cases o <;> simp [auditsOf, ih]

theorem mem_loginsOf_append {h : List Op} (h' : List Op) {l : Login} (hl : l ∈ loginsOf h) :
    l ∈ loginsOf (h ++ h') := by
  rw [loginsOf_append]; exact List.mem_append_left _ hl

theorem mem_auditsOf_append {h : List Op} (h' : List Op) {e : AEvent} (he : e ∈ auditsOf h) :
    e ∈ auditsOf (h ++ h') := by
  rw [auditsOf_append]; exact List.mem_append_left _ he

/-- `e` is a LOGIN record that opens session `s` for PID `p` -/
def isOpener (e : AEvent) (s : Str) (p : Int) : Prop :=
  e.typ = .login ∧ e.ses = s ∧ atoi e.pidTok = some p ∧ s ≠ [] ∧ s ≠ strOf "unset"

/-! ### the writer -/

/-- what a sequence of writes of events from `es` under login `l` may do to the state: append
events paired with `l` to `out`, count; nothing else -/
structure Wrote (st st' : St) (l : Login) (es : List AEvent) : Prop where
  sessions : st'.sessions = st.sessions
  logins : st'.logins = st.logins
  failAt : st'.failAt = st.failAt
  ambiguous : st'.ambiguous = st.ambiguous
  out : ∃ new, st'.out = st.out ++ new ∧ ∀ em ∈ new, em.login = l ∧ em.ev ∈ es

theorem write1_wrote (st : St) (l : Login) (e : AEvent) : Wrote st (write1 st l e).1 l [e] := by
  simp only [write1]
  split
  · exact ⟨rfl, rfl, rfl, rfl, [], by simp, by simp⟩
  · refine ⟨rfl, rfl, rfl, rfl, [⟨e, l⟩], rfl, ?_⟩
    intro em hem
    simp only [List.mem_singleton] at hem
    subst hem
    simp

theorem Wrote.trans {st st' st'' : St} {l : Login} {es es' : List AEvent}
    (h1 : Wrote st st' l es) (h2 : Wrote st' st'' l es') : Wrote st st'' l (es ++ es') := by
  obtain ⟨n1, ho1, hn1⟩ := h1.out
  obtain ⟨n2, ho2, hn2⟩ := h2.out
  refine ⟨h2.sessions.trans h1.sessions, h2.logins.trans h1.logins, h2.failAt.trans h1.failAt,
    h2.ambiguous.trans h1.ambiguous, n1 ++ n2, by rw [ho2, ho1, List.append_assoc], ?_⟩
  intro em hem
  rcases List.mem_append.mp hem with hm | hm
  · exact ⟨(hn1 em hm).1, List.mem_append_left _ (hn1 em hm).2⟩
  · exact ⟨(hn2 em hm).1, List.mem_append_right _ (hn2 em hm).2⟩

theorem Wrote.refl (st : St) (l : Login) (es : List AEvent) : Wrote st st l es :=
  ⟨rfl, rfl, rfl, rfl, [], by simp, by simp⟩

theorem writeAll_wrote (st : St) (l : Login) (es : List AEvent) :
    Wrote st (writeAll st l es).1 l es := by
  induction es generalizing st with
  | nil => exact Wrote.refl _ _ _
  | cons e es ih =>
    have h1 := write1_wrote st l e
    simp only [writeAll]
    split
    · rename_i st' heq
      rw [heq] at h1
      exact Wrote.trans h1 (ih st')
    · rename_i st' heq
      rw [heq] at h1
      obtain ⟨n1, ho1, hn1⟩ := h1.out
      refine ⟨h1.sessions, h1.logins, h1.failAt, h1.ambiguous, n1, ho1, ?_⟩
      intro em hem
      have := hn1 em hem
      exact ⟨this.1, by
        have h2 := this.2
        simp only [List.mem_singleton] at h2
        rw [h2]; exact List.mem_cons_self⟩

/-- a successful `writeAll` wrote every event, in order -/
theorem writeAll_ok (st : St) (l : Login) (es : List AEvent) :
    (writeAll st l es).2 = true → (writeAll st l es).1.out = st.out ++ es.map (fun e => ⟨e, l⟩) := by
  induction es generalizing st with
  | nil => simp [writeAll]
  | cons e es ih =>
    simp only [writeAll]
    split
    · rename_i st' heq
      intro hok
      rw [ih st' hok]
      have : st'.out = st.out ++ [⟨e, l⟩] := by
        simp only [write1] at heq
        split at heq
        · simp at heq
        · simp only [Prod.mk.injEq, and_true] at heq
          rw [← heq]
      rw [this]; simp
    · intro h; simp at h

/-! ### the invariant -/

/-- an emitted event is justified by the history `h` -/
def OutOk (h : List Op) (em : Emitted) : Prop :=
  em.ev ∈ auditsOf h ∧ em.login ∈ loginsOf h ∧ em.login.valid = true ∧
    ∃ r ∈ auditsOf h, isOpener r em.ev.ses em.login.pid

/-- everything held in the state or emitted was delivered by the history, under its own PID and
session -/
structure Inv (h : List Op) (st : St) : Prop where
  parked : ∀ p l, (p, l) ∈ st.logins → l ∈ loginsOf h ∧ l.pid = p ∧ l.valid = true
  bound : ∀ s u l, (s, u) ∈ st.sessions → u.login = some l →
    l ∈ loginsOf h ∧ l.pid = u.srcPID ∧ l.valid = true
  opened : ∀ s u, (s, u) ∈ st.sessions → ∃ e ∈ auditsOf h, isOpener e s u.srcPID
  cachedOk : ∀ s u e, (s, u) ∈ st.sessions → e ∈ u.cached → e.ses = s ∧ e ∈ auditsOf h
  outOk : ∀ em ∈ st.out, em.ev ∈ auditsOf h ∧ em.login ∈ loginsOf h ∧ em.login.valid = true ∧
    ∃ r ∈ auditsOf h, isOpener r em.ev.ses em.login.pid
  uniqS : aUnique st.sessions
  uniqL : aUnique st.logins

theorem inv_init (failAt : Option Nat) : Inv [] { failAt := failAt } :=
  ⟨by simp, by simp, by simp, by simp, by simp, by simp [aUnique], by simp [aUnique]⟩

/-- the three per-session clauses, bundled -/
def SesOk (h : List Op) (s : Str) (u : User) : Prop :=
  (∀ l, u.login = some l → l ∈ loginsOf h ∧ l.pid = u.srcPID ∧ l.valid = true) ∧
  (∃ e ∈ auditsOf h, isOpener e s u.srcPID) ∧
  (∀ e ∈ u.cached, e.ses = s ∧ e ∈ auditsOf h)

theorem Inv.sesOk {h : List Op} {st : St} (hi : Inv h st) {s : Str} {u : User}
    (hm : (s, u) ∈ st.sessions) : SesOk h s u :=
  ⟨fun l hl => hi.bound s u l hm hl, hi.opened s u hm, fun e he => hi.cachedOk s u e hm he⟩

theorem Inv.ofParts {h : List Op} {st : St}
    (parked : ∀ p l, (p, l) ∈ st.logins → l ∈ loginsOf h ∧ l.pid = p ∧ l.valid = true)
    (ses : ∀ x ∈ st.sessions, SesOk h x.1 x.2)
    (outOk : ∀ em ∈ st.out, OutOk h em)
    (uniqS : aUnique st.sessions) (uniqL : aUnique st.logins) : Inv h st :=
  ⟨parked, fun s u l hm hl => (ses (s, u) hm).1 l hl, fun s u hm => (ses (s, u) hm).2.1,
    fun s u e hm he => (ses (s, u) hm).2.2 e he, outOk, uniqS, uniqL⟩

theorem Inv.ses {h : List Op} {st : St} (hi : Inv h st) : ∀ x ∈ st.sessions, SesOk h x.1 x.2 :=
  fun x hx => hi.sesOk (s := x.1) (u := x.2) hx

theorem sesOk_store {h : List Op} {m : List (Str × User)} {s : Str} {u : User}
    (hm : ∀ x ∈ m, SesOk h x.1 x.2) (hu : SesOk h s u) : ∀ x ∈ aStore s u m, SesOk h x.1 x.2 := by
  intro x hx
  rcases mem_aStore hx with rfl | ⟨hx', _⟩
  · exact hu
  · exact hm x hx'

theorem sesOk_erase {h : List Op} {m : List (Str × User)} {s : Str}
    (hm : ∀ x ∈ m, SesOk h x.1 x.2) : ∀ x ∈ aErase s m, SesOk h x.1 x.2 :=
  fun x hx => hm x (mem_aErase hx).1

theorem aUnique_filter {κ α} {m : List (κ × α)} (p : κ × α → Bool) (h : aUnique m) :
    aUnique (m.filter p) :=
  List.Nodup.sublist (List.Sublist.map _ List.filter_sublist) h

theorem SesOk.mono {h : List Op} (h' : List Op) {s : Str} {u : User} (hs : SesOk h s u) :
    SesOk (h ++ h') s u := by
  obtain ⟨h1, ⟨e, he, ho⟩, h3⟩ := hs
  exact ⟨fun l hl => ⟨mem_loginsOf_append h' (h1 l hl).1, (h1 l hl).2⟩,
    ⟨e, mem_auditsOf_append h' he, ho⟩,
    fun e he => ⟨(h3 e he).1, mem_auditsOf_append h' (h3 e he).2⟩⟩

theorem OutOk.mono {h : List Op} (h' : List Op) {em : Emitted} (ho : OutOk h em) :
    OutOk (h ++ h') em := by
  obtain ⟨h1, h2, h3, r, hr, hop⟩ := ho
  exact ⟨mem_auditsOf_append h' h1, mem_loginsOf_append h' h2, h3, r, mem_auditsOf_append h' hr, hop⟩

/-- the invariant survives extending the history (the state is justified by less than it may be) -/
theorem Inv.mono {h : List Op} {st : St} (h' : List Op) (hi : Inv h st) : Inv (h ++ h') st :=
  Inv.ofParts
    (fun p l hm => ⟨mem_loginsOf_append h' (hi.parked p l hm).1, (hi.parked p l hm).2⟩)
    (fun x hx => (hi.ses x hx).mono h')
    (fun em hem => OutOk.mono h' (hi.outOk em hem))
    hi.uniqS hi.uniqL

/-- writing cached events of a justified session under its login keeps `out` justified -/
theorem outOk_wrote {h : List Op} {st st' : St} {l : Login} {es : List AEvent} {s : Str}
    (ho : ∀ em ∈ st.out, OutOk h em) (hw : Wrote st st' l es)
    (hl : l ∈ loginsOf h) (hv : l.valid = true)
    (hes : ∀ e ∈ es, e.ses = s ∧ e ∈ auditsOf h)
    (hop : ∃ r ∈ auditsOf h, isOpener r s l.pid) : ∀ em ∈ st'.out, OutOk h em := by
  obtain ⟨new, hout, hnew⟩ := hw.out
  intro em hem
  rw [hout] at hem
  rcases List.mem_append.mp hem with hm | hm
  · exact ho em hm
  · obtain ⟨h1, h2⟩ := hnew em hm
    obtain ⟨h3, h4⟩ := hes _ h2
    refine ⟨h4, h1 ▸ hl, h1 ▸ hv, ?_⟩
    rw [h1, h3]; exact hop

/-! ### preservation -/

theorem inv_remoteLogin {h : List Op} {st : St} {l : Login} (hi : Inv h st)
    (hl : l ∈ loginsOf h) : Inv h (remoteLogin st l).1 := by
  simp only [remoteLogin]
  split
  · exact hi
  · rename_i hv
    have hv : l.valid = true := by simpa using hv
    split
    · rename_i s u more hf
      have hmem : (s, u) ∈ st.sessions.filter (fun p => p.2.srcPID == l.pid) := by
        rw [hf]; exact List.mem_cons_self
      have hsu := List.mem_filter.mp hmem
      have hpid : u.srcPID = l.pid := by simpa using hsu.2
      have hs := hi.sesOk hsu.1
      have hw := writeAll_wrote { st with ambiguous := st.ambiguous || !more.isEmpty } l u.cached
      generalize writeAll { st with ambiguous := st.ambiguous || !more.isEmpty } l u.cached = r at hw ⊢
      obtain ⟨st', ok⟩ := r
      simp only at hw ⊢
      have hout : ∀ em ∈ st'.out, OutOk h em :=
        outOk_wrote (s := s) (st := { st with ambiguous := st.ambiguous || !more.isEmpty })
          hi.outOk hw hl hv hs.2.2 (hpid ▸ hs.2.1)
      have hss : st'.sessions = st.sessions := hw.sessions
      have hll : st'.logins = st.logins := hw.logins
      refine Inv.ofParts (by simpa only [hll] using hi.parked) ?_ hout ?_
        (by simpa only [hll] using hi.uniqL)
      · simp only [hss]
        split
        · exact sesOk_erase hi.ses
        · refine sesOk_store hi.ses ⟨?_, hs.2.1, ?_⟩
          · intro l' hl'
            simp only [Option.some.injEq] at hl'
            subst hl'
            exact ⟨hl, hpid.symm, hv⟩
          · intro e he
            simp only at he
            split at he
            · simp at he
            · exact hs.2.2 e he
      · simp only [hss]
        split
        · exact aUnique_erase hi.uniqS
        · exact aUnique_store hi.uniqS
    · refine Inv.ofParts ?_ hi.ses hi.outOk hi.uniqS (aUnique_store hi.uniqL)
      intro p l' hm
      rcases mem_aStore hm with heq | ⟨hm', _⟩
      · cases heq; exact ⟨hl, rfl, hv⟩
      · exact hi.parked p l' hm'

theorem inv_audit {h : List Op} {st : St} {e : AEvent} {now : Time} (hi : Inv h st)
    (he : e ∈ auditsOf h) : Inv h (audit st e now).1 := by
  simp only [audit]
  split
  · exact hi
  · rename_i hses
    have hses : e.ses ≠ [] ∧ e.ses ≠ strOf "unset" := by simpa using hses
    split
    · rename_i u hlook
      have hmem := aLookup_mem hlook
      have hs := hi.sesOk hmem
      split
      · -- not yet bound: cache
        rename_i hnone
        refine Inv.ofParts hi.parked (sesOk_store hi.ses ⟨?_, hs.2.1, ?_⟩) hi.outOk
          (aUnique_store hi.uniqS) hi.uniqL
        · intro l hl; simp [hnone] at hl
        · intro e' he'
          simp only [List.mem_append, List.mem_singleton] at he'
          rcases he' with he' | rfl
          · exact hs.2.2 e' he'
          · exact ⟨rfl, he⟩
      · rename_i l hsome
        have hb := hs.1 l hsome
        have hop : ∃ r ∈ auditsOf h, isOpener r e.ses l.pid := hb.2.1 ▸ hs.2.1
        split
        · rename_i st' heq
          have hw := writeAll_wrote st l u.cached
          rw [heq] at hw
          simp only at hw
          have hout := outOk_wrote (s := e.ses) hi.outOk hw hb.1 hb.2.2 hs.2.2 hop
          refine Inv.ofParts (by simpa only [hw.logins] using hi.parked) ?_ hout ?_
            (by simpa only [hw.logins] using hi.uniqL)
          · simp only [hw.sessions]
            split
            · exact sesOk_erase hi.ses
            · exact sesOk_store hi.ses hs
          · simp only [hw.sessions]
            split
            · exact aUnique_erase hi.uniqS
            · exact aUnique_store hi.uniqS
        · rename_i st' heq
          have hw := writeAll_wrote st l u.cached
          rw [heq] at hw
          simp only at hw
          have hw2 := write1_wrote st' l e
          generalize write1 st' l e = r at hw2 ⊢
          obtain ⟨st'', okw⟩ := r
          simp only at hw2 ⊢
          have hw3 := hw.trans hw2
          have hes : ∀ e' ∈ u.cached ++ [e], e'.ses = e.ses ∧ e' ∈ auditsOf h := by
            intro e' he'
            simp only [List.mem_append, List.mem_singleton] at he'
            rcases he' with he' | rfl
            · exact hs.2.2 e' he'
            · exact ⟨rfl, he⟩
          have hout := outOk_wrote (s := e.ses) hi.outOk hw3 hb.1 hb.2.2 hes hop
          refine Inv.ofParts (by simpa only [hw3.logins] using hi.parked) ?_ hout ?_
            (by simpa only [hw3.logins] using hi.uniqL)
          · simp only [hw3.sessions]
            split
            · exact sesOk_erase hi.ses
            · exact sesOk_store hi.ses ⟨hs.1, hs.2.1, by simp⟩
          · simp only [hw3.sessions]
            split
            · exact aUnique_erase hi.uniqS
            · exact aUnique_store hi.uniqS
    · rename_i hlook
      split
      · exact hi
      · rename_i htyp
        have htyp : e.typ = .login := by simpa using htyp
        split
        · exact hi
        · rename_i p hp
          have hopen : isOpener e e.ses p := ⟨htyp, rfl, hp, hses.1, hses.2⟩
          split
          · rename_i l hl
            have hpl := hi.parked p l (aLookup_mem hl)
            generalize hst1 : ({ st with
              logins := aErase p st.logins
              sessions := aStore e.ses ⟨now, p, some l, []⟩ st.sessions } : St) = st1
            have hs1 : st1.sessions = aStore e.ses ⟨now, p, some l, []⟩ st.sessions := by
              rw [← hst1]
            have hl1 : st1.logins = aErase p st.logins := by rw [← hst1]
            have ho1 : st1.out = st.out := by rw [← hst1]
            have hw := write1_wrote st1 l e
            generalize write1 st1 l e = r at hw ⊢
            obtain ⟨st2, okw⟩ := r
            simp only at hw ⊢
            have hout := outOk_wrote (s := e.ses) (st := st1) (ho1 ▸ hi.outOk) hw hpl.1 hpl.2.2
              (by intro e' he'; simp only [List.mem_singleton] at he'; subst he'; exact ⟨rfl, he⟩)
              ⟨e, he, hpl.2.1 ▸ hopen⟩
            refine Inv.ofParts ?_ ?_ hout ?_ ?_
            · rw [hw.logins, hl1]
              exact fun p' l' hm => hi.parked p' l' (mem_aErase hm).1
            · rw [hw.sessions, hs1]
              refine sesOk_store hi.ses ⟨?_, ⟨e, he, hopen⟩, by simp⟩
              intro l' hl'
              simp only [Option.some.injEq] at hl'
              subst hl'
              exact hpl
            · rw [hw.sessions, hs1]; exact aUnique_store hi.uniqS
            · rw [hw.logins, hl1]; exact aUnique_erase hi.uniqL
          · refine Inv.ofParts hi.parked (sesOk_store hi.ses ⟨by simp, ⟨e, he, hopen⟩, ?_⟩) hi.outOk
              (aUnique_store hi.uniqS) hi.uniqL
            intro e' he'
            simp only [List.mem_singleton] at he'
            subst he'
            exact ⟨rfl, he⟩

/-- one operation, with whatever outcome (the state returned with an error included) -/
theorem inv_step (h : List Op) (st : St) (op : Op) (hi : Inv h st) :
    Inv (h ++ [op]) (step st op).1 := by
  have keep : Inv (h ++ [op]) st := hi.mono [op]
  cases op with
  | remoteLogin l =>
    exact inv_remoteLogin keep (by rw [loginsOf_append]; simp [loginsOf])
  | audit e now =>
    exact inv_audit keep (by rw [auditsOf_append]; simp [auditsOf])
  | cleanSessions t =>
    simp only [step]
    exact Inv.ofParts keep.parked (fun x hx => keep.ses x (List.mem_filter.mp hx).1) keep.outOk
      (aUnique_filter _ keep.uniqS) keep.uniqL
  | cleanLogins t =>
    simp only [step]
    exact Inv.ofParts (fun p l hm => keep.parked p l (List.mem_filter.mp hm).1) keep.ses keep.outOk
      keep.uniqS (aUnique_filter _ keep.uniqL)

/-- the operations `run` executed: up to and including the first one that returned an error -/
def executed : St → List Op → List Op
  | _, [] => []
  | st, op :: ops =>
    match step st op with
    | (st', none) => op :: executed st' ops
    | (_, some _) => [op]

theorem executed_prefix (st : St) (ops : List Op) : executed st ops <+: ops := by
  induction ops generalizing st with
  | nil => simp [executed]
  | cons op ops ih =>
    simp only [executed]
    split
    · rename_i st' _
      exact (List.prefix_cons_inj op).mpr (ih st')
    · simp

theorem executed_of_ok (st : St) (ops : List Op) (h : (run st ops).2 = none) :
    executed st ops = ops := by
  induction ops generalizing st with
  | nil => simp [executed]
  | cons op ops ih =>
    simp only [run, executed] at h ⊢
    split
    · rename_i st' heq
      rw [heq] at h
      simp only at h
      rw [ih st' h]
    · rename_i st' e heq
      rw [heq] at h
      simp at h

/-- the final state of a run is justified by exactly the operations that were executed -/
theorem inv_run_executed (done : List Op) (st : St) (ops : List Op) (hi : Inv done st) :
    Inv (done ++ executed st ops) (run st ops).1 := by
  induction ops generalizing done st with
  | nil => simpa [executed, run] using hi
  | cons op ops ih =>
    have h1 := inv_step done st op hi
    simp only [run, executed]
    generalize step st op = r at h1 ⊢
    obtain ⟨st', e⟩ := r
    cases e with
    | none =>
      have := ih (done ++ [op]) st' h1
      simpa [List.append_assoc] using this
    | some e => exact h1

theorem inv_run (done : List Op) (st : St) (ops : List Op) (hi : Inv done st) :
    Inv (done ++ ops) (run st ops).1 := by
  obtain ⟨rest, hr⟩ := executed_prefix st ops
  have := (inv_run_executed done st ops hi).mono rest
  rwa [List.append_assoc, hr] at this

/-- from the empty state -/
theorem inv_run_init (failAt : Option Nat) (h : List Op) :
    Inv h (run { failAt := failAt } h).1 := by
  simpa using inv_run [] { failAt := failAt } h (inv_init failAt)

/-! ### `out` only grows -/

theorem out_remoteLogin (st : St) (l : Login) :
    ∃ new, (remoteLogin st l).1.out = st.out ++ new ∧
      ∀ em ∈ new, em.login = l ∧ l.valid = true ∧ ∃ s u more,
        st.sessions.filter (fun p => p.2.srcPID == l.pid) = (s, u) :: more ∧ em.ev ∈ u.cached := by
  simp only [remoteLogin]
  split
  · exact ⟨[], by simp, by simp⟩
  · rename_i hv
    have hv : l.valid = true := by simpa using hv
    split
    · rename_i s u more hf
      have hw := writeAll_wrote { st with ambiguous := st.ambiguous || !more.isEmpty } l u.cached
      generalize writeAll { st with ambiguous := st.ambiguous || !more.isEmpty } l u.cached = r at hw ⊢
      obtain ⟨st', ok⟩ := r
      obtain ⟨new, ho, hn⟩ := hw.out
      exact ⟨new, ho, fun em hem => ⟨(hn em hem).1, hv, s, u, more, hf, (hn em hem).2⟩⟩
    · exact ⟨[], by simp, by simp⟩

theorem out_audit (st : St) (e : AEvent) (now : Time) :
    ∃ new, (audit st e now).1.out = st.out ++ new := by
  simp only [audit]
  split
  · exact ⟨[], by simp⟩
  · split
    · rename_i u hlook
      split
      · exact ⟨[], by simp⟩
      · rename_i l hsome
        split
        · rename_i st' heq
          have hw := writeAll_wrote st l u.cached
          rw [heq] at hw
          obtain ⟨new, ho, _⟩ := hw.out
          exact ⟨new, ho⟩
        · rename_i st' heq
          have hw := writeAll_wrote st l u.cached
          rw [heq] at hw
          have hw2 := write1_wrote st' l e
          generalize write1 st' l e = r at hw2 ⊢
          obtain ⟨st'', okw⟩ := r
          obtain ⟨new, ho, _⟩ := (hw.trans hw2).out
          exact ⟨new, ho⟩
    · split
      · exact ⟨[], by simp⟩
      · split
        · exact ⟨[], by simp⟩
        · rename_i p hp
          split
          · rename_i l hl
            generalize hst1 : ({ st with
              logins := aErase p st.logins
              sessions := aStore e.ses ⟨now, p, some l, []⟩ st.sessions } : St) = st1
            have ho1 : st1.out = st.out := by rw [← hst1]
            have hw := write1_wrote st1 l e
            generalize write1 st1 l e = r at hw ⊢
            obtain ⟨st2, okw⟩ := r
            obtain ⟨new, ho, _⟩ := hw.out
            exact ⟨new, by rw [← ho1]; exact ho⟩
          · exact ⟨[], by simp⟩

/-- emitted events are never retracted -/
theorem out_step (st : St) (op : Op) : ∃ new, (step st op).1.out = st.out ++ new := by
  cases op with
  | remoteLogin l => obtain ⟨new, h, _⟩ := out_remoteLogin st l; exact ⟨new, h⟩
  | audit e now => exact out_audit st e now
  | cleanSessions t => exact ⟨[], by simp [step]⟩
  | cleanLogins t => exact ⟨[], by simp [step]⟩

theorem out_run (st : St) (ops : List Op) : ∃ new, (run st ops).1.out = st.out ++ new := by
  induction ops generalizing st with
  | nil => exact ⟨[], by simp [run]⟩
  | cons op ops ih =>
    obtain ⟨n1, h1⟩ := out_step st op
    simp only [run]
    split
    · rename_i st' heq
      rw [heq] at h1
      obtain ⟨n2, h2⟩ := ih st'
      exact ⟨n1 ++ n2, by rw [h2, h1, List.append_assoc]⟩
    · rename_i st' e heq
      rw [heq] at h1
      exact ⟨n1, h1⟩

theorem run_append (st : St) (h1 h2 : List Op) :
    run st (h1 ++ h2) =
      match run st h1 with
      | (st', none) => run st' h2
      | (st', some e) => (st', some e) := by
  induction h1 generalizing st with
  | nil => simp [run]
  | cons op ops ih =>
    simp only [List.cons_append, run]
    generalize step st op = r
    obtain ⟨st', e⟩ := r
    cases e with
    | none => exact ih st'
    | some e => rfl

/-- what was emitted while running a prefix is still there, in place, after the whole run -/
theorem out_run_prefix (st : St) (h1 h2 : List Op) :
    ∃ new, (run st (h1 ++ h2)).1.out = (run st h1).1.out ++ new := by
  rw [run_append]
  generalize run st h1 = r
  obtain ⟨st', e⟩ := r
  cases e with
  | none => exact out_run st' h2
  | some e => exact ⟨[], by simp⟩

end AM.Tr
