import AM.Proofs.TrackerInv
/-! C01, second reading ("it never carries the identity of any other login" when a PID is used by
several logins): if at most one LOGIN-type record of the history names PID `p`, then every event
emitted under a login with PID `p` carries the identity of the LAST valid login with PID `p` that
had been delivered when the event was written — a newer login replaces one that is still waiting
and re-binds the session an older one was bound to; a superseded login never lends its identity.
For every history, every write oracle, cleanup anywhere. (`Spec.Tracker.specLatest` is the
executable form judged on implementation observations.) -/
namespace AM.C01L
open AM AM.Tr

/-- the last valid login with PID `p` delivered by `h` -/
def lastValid (p : Int) (h : List Op) : Option Login :=
  ((loginsOf h).filter fun l => l.valid && l.pid == p).getLast?

/-- the LOGIN-type records of `h` that name PID `p` and carry a session -/
def isOpenerOf (p : Int) (e : AEvent) : Bool :=
  e.typ == .login && atoi e.pidTok == some p && !(e.ses = [] || e.ses = strOf "unset")

def openers (p : Int) (h : List Op) : List AEvent := (auditsOf h).filter (isOpenerOf p)

theorem lastValid_login (p : Int) (h : List Op) (l : Login) :
    lastValid p (h ++ [.remoteLogin l]) = if l.valid && l.pid == p then some l else lastValid p h := by
  simp only [lastValid, loginsOf_append, loginsOf, List.filter_append, List.filter_cons, List.filter_nil]
  split <;> simp

theorem lastValid_audit (p : Int) (h : List Op) (e : AEvent) (now : Time) :
    lastValid p (h ++ [.audit e now]) = lastValid p h := by
  simp [lastValid, loginsOf_append, loginsOf]

theorem lastValid_cleanS (p : Int) (h : List Op) (t : Time) :
    lastValid p (h ++ [.cleanSessions t]) = lastValid p h := by
  simp [lastValid, loginsOf_append, loginsOf]

theorem lastValid_cleanL (p : Int) (h : List Op) (t : Time) :
    lastValid p (h ++ [.cleanLogins t]) = lastValid p h := by
  simp [lastValid, loginsOf_append, loginsOf]

theorem openers_audit (p : Int) (h : List Op) (e : AEvent) (now : Time) :
    openers p (h ++ [.audit e now]) =
      openers p h ++ (if isOpenerOf p e then [e] else []) := by
  simp only [openers, auditsOf_append, auditsOf, List.filter_append, List.filter_cons, List.filter_nil]

theorem openers_other (p : Int) (h : List Op) (op : Op) (hno : ∀ e now, op ≠ .audit e now) :
    openers p (h ++ [op]) = openers p h := by
  cases op with
  | audit e now => exact absurd rfl (hno e now)
  | remoteLogin l => simp [openers, auditsOf_append, auditsOf]
  | cleanSessions t => simp [openers, auditsOf_append, auditsOf]
  | cleanLogins t => simp [openers, auditsOf_append, auditsOf]

/-- the invariant, for one PID `p` -/
structure InvL (p : Int) (h : List Op) (st : St) : Prop where
  parked : ∀ l, (p, l) ∈ st.logins → lastValid p h = some l
  bound : ∀ s u l, (s, u) ∈ st.sessions → u.srcPID = p → u.login = some l → lastValid p h = some l
  excl : ∀ l s u, (p, l) ∈ st.logins → (s, u) ∈ st.sessions → u.srcPID ≠ p
  fresh : openers p h = [] → ∀ s u, (s, u) ∈ st.sessions → u.srcPID ≠ p
  one : ∀ s u s' u', (s, u) ∈ st.sessions → (s', u') ∈ st.sessions → u.srcPID = p → u'.srcPID = p → s = s'

theorem invL_init (p : Int) (failAt : Option Nat) : InvL p [] { failAt := failAt } :=
  ⟨by simp, by simp, by simp, by simp, by simp⟩

/-! ### the ways an operation changes the two tables -/

/-- nothing that the invariant looks at changes -/
theorem keep {p : Int} {h h' : List Op} {st st' : St} (hi : InvL p h st)
    (hs : st'.sessions = st.sessions) (hl : st'.logins = st.logins)
    (hlv : lastValid p h' = lastValid p h) (hop : openers p h' = [] → openers p h = []) : InvL p h' st' :=
  ⟨fun l hm => by rw [hlv]; exact hi.parked l (hl ▸ hm),
   fun s u l hm hp hb => by rw [hlv]; exact hi.bound s u l (hs ▸ hm) hp hb,
   fun l s u hm hm' => hi.excl l s u (hl ▸ hm) (hs ▸ hm'),
   fun ho s u hm => hi.fresh (hop ho) s u (hs ▸ hm),
   fun s u s' u' hm hm' => hi.one s u s' u' (hs ▸ hm) (hs ▸ hm')⟩

/-- the tables shrink (cleanup) -/
theorem shrink {p : Int} {h h' : List Op} {st st' : St} (hi : InvL p h st)
    (hs : ∀ x ∈ st'.sessions, x ∈ st.sessions) (hl : ∀ x ∈ st'.logins, x ∈ st.logins)
    (hlv : lastValid p h' = lastValid p h) (hop : openers p h' = [] → openers p h = []) : InvL p h' st' :=
  ⟨fun l hm => by rw [hlv]; exact hi.parked l (hl _ hm),
   fun s u l hm hp hb => by rw [hlv]; exact hi.bound s u l (hs _ hm) hp hb,
   fun l s u hm hm' => hi.excl l s u (hl _ hm) (hs _ hm'),
   fun ho s u hm => hi.fresh (hop ho) s u (hs _ hm),
   fun s u s' u' hm hm' => hi.one s u s' u' (hs _ hm) (hs _ hm')⟩

/-- a session present in the table is replaced by one with the same source PID (or erased); its
login either stays or becomes `lnew`, which is then the last valid login of its PID -/
theorem update {p : Int} {h h' : List Op} {st st' : St} {s : Str} {u u' : User} (hi : InvL p h st)
    (hm : (s, u) ∈ st.sessions) (hpid : u'.srcPID = u.srcPID)
    (hs : st'.sessions = aStore s u' st.sessions ∨ st'.sessions = aErase s st.sessions)
    (hl : st'.logins = st.logins)
    (hop : openers p h' = [] → openers p h = [])
    (hlogin : ∀ l, u'.login = some l → u.srcPID = p → lastValid p h' = some l)
    (hlv : u.srcPID ≠ p → lastValid p h' = lastValid p h)
    (hlv' : u.srcPID = p → ∀ s2 u2 l2, (s2, u2) ∈ st.sessions → s2 ≠ s → u2.srcPID = p → u2.login = some l2 →
      lastValid p h' = some l2) : InvL p h' st' := by
  -- membership in the new table, mapped back
  have back : ∀ s2 u2, (s2, u2) ∈ st'.sessions →
      (s2 = s ∧ u2 = u') ∨ ((s2, u2) ∈ st.sessions ∧ s2 ≠ s) := by
    intro s2 u2 h2
    rcases hs with hs | hs
    · rw [hs] at h2
      rcases mem_aStore h2 with heq | ⟨hin, hne⟩
      · left; exact ⟨(Prod.mk.inj heq).1, (Prod.mk.inj heq).2⟩
      · right; exact ⟨hin, hne⟩
    · rw [hs] at h2
      right; exact ⟨(mem_aErase h2).1, (mem_aErase h2).2⟩
  have pidOf : ∀ s2 u2, (s2, u2) ∈ st'.sessions → ∃ u0, (s2, u0) ∈ st.sessions ∧ u0.srcPID = u2.srcPID := by
    intro s2 u2 h2
    rcases back s2 u2 h2 with ⟨rfl, rfl⟩ | ⟨hin, _⟩
    · exact ⟨u, hm, hpid.symm⟩
    · exact ⟨u2, hin, rfl⟩
  refine ⟨?_, ?_, ?_, ?_, ?_⟩
  · intro l hml
    rw [hl] at hml
    have hne : u.srcPID ≠ p := hi.excl l s u hml hm
    rw [hlv hne]; exact hi.parked l hml
  · intro s2 u2 l2 h2 hp hb
    rcases back s2 u2 h2 with ⟨rfl, rfl⟩ | ⟨hin, hne⟩
    · exact hlogin l2 hb (hpid ▸ hp)
    · by_cases hup : u.srcPID = p
      · exact hlv' hup s2 u2 l2 hin hne hp hb
      · rw [hlv hup]; exact hi.bound s2 u2 l2 hin hp hb
  · intro l s2 u2 hml h2
    rw [hl] at hml
    obtain ⟨u0, hin, hp0⟩ := pidOf s2 u2 h2
    rw [← hp0]; exact hi.excl l s2 u0 hml hin
  · intro ho s2 u2 h2
    obtain ⟨u0, hin, hp0⟩ := pidOf s2 u2 h2
    rw [← hp0]; exact hi.fresh (hop ho) s2 u0 hin
  · intro s2 u2 s3 u3 h2 h3 hp2 hp3
    obtain ⟨a, ha, hpa⟩ := pidOf s2 u2 h2
    obtain ⟨b, hb, hpb⟩ := pidOf s3 u3 h3
    exact hi.one s2 a s3 b ha hb (hpa.trans hp2) (hpb.trans hp3)

/-! ### the operations -/

theorem invL_remoteLogin {p : Int} {h : List Op} {st : St} (l : Login) (hi : InvL p h st) :
    InvL p (h ++ [.remoteLogin l]) (remoteLogin st l).1 := by
  have hop : openers p (h ++ [.remoteLogin l]) = [] → openers p h = [] := by
    rw [openers_other p h _ (by intro e now hc; cases hc)]; exact id
  simp only [remoteLogin]
  split
  · rename_i hv
    have hv : l.valid = false := by simpa using hv
    exact keep hi rfl rfl (by rw [lastValid_login]; simp [hv]) hop
  · rename_i hv
    have hv : l.valid = true := by simpa using hv
    split
    · rename_i s u more hf
      have hmem : (s, u) ∈ st.sessions ∧ u.srcPID = l.pid := by
        have : (s, u) ∈ st.sessions.filter (fun x => x.2.srcPID == l.pid) := by rw [hf]; exact List.mem_cons_self
        have := List.mem_filter.mp this
        exact ⟨this.1, by simpa using this.2⟩
      have hw := writeAll_wrote { st with ambiguous := st.ambiguous || !more.isEmpty } l u.cached
      generalize writeAll { st with ambiguous := st.ambiguous || !more.isEmpty } l u.cached = r at hw ⊢
      obtain ⟨st', ok⟩ := r
      have hs' : st'.sessions = st.sessions := hw.sessions
      have hl' : st'.logins = st.logins := hw.logins
      refine update (s := s) (u := u)
        (u' := { u with login := some l, cached := if ok then [] else u.cached }) hi hmem.1 rfl ?_ hl' hop ?_ ?_ ?_
      · simp only
        split
        · right; rw [hs']
        · left; rw [hs']
      · intro l2 hl2 hp
        simp only [Option.some.injEq] at hl2
        subst hl2
        rw [lastValid_login]
        have : l.pid = p := hmem.2 ▸ hp
        simp [hv, this]
      · intro hne
        rw [lastValid_login]
        have : ¬ (l.pid = p) := fun hc => hne (hmem.2.trans hc)
        simp [this]
      · intro hp s2 u2 l2 hin hne hp2 _
        exact absurd (hi.one s2 u2 s u hin hmem.1 hp2 hp) hne
    · rename_i hf
      -- no session with this PID: the login is parked (replacing an older one)
      have nos : ∀ s u, (s, u) ∈ st.sessions → u.srcPID ≠ l.pid := by
        intro s u hm hc
        have : (s, u) ∈ st.sessions.filter (fun x => x.2.srcPID == l.pid) :=
          List.mem_filter.mpr ⟨hm, by simpa using hc⟩
        rw [hf] at this; cases this
      by_cases hp : l.pid = p
      · subst hp
        refine ⟨?_, ?_, ?_, ?_, ?_⟩
        · intro l0 hm
          rcases mem_aStore hm with heq | ⟨_, hne⟩
          · rw [lastValid_login]; simp [hv, (Prod.mk.inj heq).2]
          · exact absurd rfl hne
        · intro s u l0 hm hpu _
          exact absurd hpu (nos s u hm)
        · intro l0 s u _ hm
          exact nos s u hm
        · intro _ s u hm
          exact nos s u hm
        · intro s u s' u' hm _ hpu _
          exact absurd hpu (nos s u hm)
      · have hlv : lastValid p (h ++ [.remoteLogin l]) = lastValid p h := by
          rw [lastValid_login]; simp [hp]
        refine ⟨?_, ?_, ?_, ?_, ?_⟩
        · intro l0 hm
          rcases mem_aStore hm with heq | ⟨hin, _⟩
          · exact absurd (Prod.mk.inj heq).1.symm hp
          · rw [hlv]; exact hi.parked l0 hin
        · intro s u l0 hm hpu hb
          rw [hlv]; exact hi.bound s u l0 hm hpu hb
        · intro l0 s u hm hm'
          rcases mem_aStore hm with heq | ⟨hin, _⟩
          · exact absurd (Prod.mk.inj heq).1.symm hp
          · exact hi.excl l0 s u hin hm'
        · intro ho s u hm
          exact hi.fresh (hop ho) s u hm
        · exact hi.one

theorem invL_audit {p : Int} {h : List Op} {st : St} (e : AEvent) (now : Time) (hi : InvL p h st)
    (hu : (openers p (h ++ [.audit e now])).length ≤ 1) :
    InvL p (h ++ [.audit e now]) (audit st e now).1 := by
  have hlv := lastValid_audit p h e now
  have hop : openers p (h ++ [.audit e now]) = [] → openers p h = [] := by
    rw [openers_audit]; intro hc; exact (List.append_eq_nil_iff.mp hc).1
  simp only [audit]
  split
  · exact keep hi rfl rfl hlv hop
  · rename_i hses
    have hopen : ∀ q', q' = p → e.typ = .login → atoi e.pidTok = some q' → isOpenerOf p e = true := by
      intro q' hq' ht ha
      have : (e.ses = [] || e.ses = strOf "unset") = false := by simpa using hses
      simp [isOpenerOf, ht, ha, hq', this]
    split
    · rename_i u hlook
      have hm : (e.ses, u) ∈ st.sessions := aLookup_mem hlook
      split
      · -- cached: same PID, still no login
        rename_i hnone
        refine update (s := e.ses) (u := u) (u' := { u with cached := u.cached ++ [e] }) hi hm rfl (Or.inl rfl) rfl hop ?_ ?_ ?_
        · intro l hl; simp [hnone] at hl
        · intro _; exact hlv
        · intro _ s2 u2 l2 hin _ hp2 hb; rw [hlv]; exact hi.bound s2 u2 l2 hin hp2 hb
      · rename_i l hsome
        have old : ∀ l0, u.login = some l0 → u.srcPID = p → lastValid p (h ++ [.audit e now]) = some l0 := by
          intro l0 h0 hp; rw [hlv]; exact hi.bound e.ses u l0 hm hp h0
        have others : u.srcPID = p → ∀ s2 u2 l2, (s2, u2) ∈ st.sessions → s2 ≠ e.ses → u2.srcPID = p →
            u2.login = some l2 → lastValid p (h ++ [.audit e now]) = some l2 := by
          intro _ s2 u2 l2 hin _ hp2 hb; rw [hlv]; exact hi.bound s2 u2 l2 hin hp2 hb
        split
        · rename_i st' heq
          have hw := writeAll_wrote st l u.cached
          rw [heq] at hw
          refine update (s := e.ses) (u := u) (u' := u) hi hm rfl ?_ hw.logins hop old (fun _ => hlv) others
          simp only
          split
          · right; rw [hw.sessions]
          · left; rw [hw.sessions]
        · rename_i st' heq
          have hw := writeAll_wrote st l u.cached
          rw [heq] at hw
          have hw2 := write1_wrote st' l e
          generalize write1 st' l e = r at hw2 ⊢
          obtain ⟨st'', okw⟩ := r
          have hww := hw.trans hw2
          refine update (s := e.ses) (u := u) (u' := { u with cached := [] }) hi hm rfl ?_ hww.logins hop
            (fun l0 h0 => old l0 h0) (fun _ => hlv) others
          simp only
          split
          · right; rw [hww.sessions]
          · left; rw [hww.sessions]
    · rename_i hlook
      have nokey : ∀ x ∈ st.sessions, x.1 ≠ e.ses := aLookup_none hlook
      split
      · exact keep hi rfl rfl hlv hop
      · rename_i hty
        have hty : e.typ = .login := by simpa using hty
        split
        · exact keep hi rfl rfl hlv hop
        · rename_i q hq
          -- a new session for PID q
          have isOp : q = p → openers p h = [] := by
            intro hqp
            have : (openers p (h ++ [.audit e now])) = openers p h ++ [e] := by
              rw [openers_audit]; simp [hopen q hqp hty hq]
            rw [this] at hu
            simp only [List.length_append, List.length_cons, List.length_nil] at hu
            exact List.eq_nil_of_length_eq_zero (by omega)
          have mem_new : ∀ {unew : User} {x : Str × User}, x ∈ aStore e.ses unew st.sessions →
              x = (e.ses, unew) ∨ x ∈ st.sessions := by
            intro unew x hx
            rcases mem_aStore hx with heq | ⟨hin, _⟩
            · exact Or.inl heq
            · exact Or.inr hin
          split
          · rename_i l hl
            have hlm : (q, l) ∈ st.logins := aLookup_mem hl
            generalize hst1 : ({ st with
              logins := aErase q st.logins
              sessions := aStore e.ses ⟨now, q, some l, []⟩ st.sessions } : St) = st1
            have hw := write1_wrote st1 l e
            generalize write1 st1 l e = r at hw ⊢
            obtain ⟨st2, okw⟩ := r
            have hs2 : st2.sessions = aStore e.ses ⟨now, q, some l, []⟩ st.sessions := by
              rw [hw.sessions, ← hst1]
            have hl2 : st2.logins = aErase q st.logins := by rw [hw.logins, ← hst1]
            refine ⟨?_, ?_, ?_, ?_, ?_⟩
            · intro l0 hm0
              rw [hl2] at hm0
              rw [hlv]; exact hi.parked l0 (mem_aErase hm0).1
            · intro s2 u2 l2 hm2 hp2 hb
              rw [hs2] at hm2
              rcases mem_new hm2 with heq | hin
              · have hu2 : u2 = ⟨now, q, some l, []⟩ := (Prod.mk.inj heq).2
                subst hu2
                simp only [Option.some.injEq] at hb
                subst hb
                simp only at hp2
                subst hp2
                rw [hlv]; exact hi.parked l hlm
              · rw [hlv]; exact hi.bound s2 u2 l2 hin hp2 hb
            · intro l0 s2 u2 hm0 hm2
              rw [hl2] at hm0
              rw [hs2] at hm2
              have hin0 := mem_aErase hm0
              rcases mem_new hm2 with heq | hin
              · have hu2 : u2 = ⟨now, q, some l, []⟩ := (Prod.mk.inj heq).2
                subst hu2
                intro hc
                exact hin0.2 hc.symm
              · exact hi.excl l0 s2 u2 hin0.1 hin
            · intro ho s2 u2 hm2
              rw [hs2] at hm2
              rcases mem_new hm2 with heq | hin
              · have hu2 : u2 = ⟨now, q, some l, []⟩ := (Prod.mk.inj heq).2
                subst hu2
                intro hc
                rw [openers_audit] at ho
                have := (List.append_eq_nil_iff.mp ho).2
                simp only at hc
                simp [hopen q hc hty hq] at this
              · exact hi.fresh (hop ho) s2 u2 hin
            · intro s2 u2 s3 u3 hm2 hm3 hp2 hp3
              rw [hs2] at hm2 hm3
              rcases mem_new hm2 with heq2 | hin2 <;> rcases mem_new hm3 with heq3 | hin3
              · rw [(Prod.mk.inj heq2).1, (Prod.mk.inj heq3).1]
              · have hu2 : u2 = ⟨now, q, some l, []⟩ := (Prod.mk.inj heq2).2
                subst hu2
                simp only at hp2
                exact absurd hp3 (hi.fresh (isOp hp2) s3 u3 hin3)
              · have hu3 : u3 = ⟨now, q, some l, []⟩ := (Prod.mk.inj heq3).2
                subst hu3
                simp only at hp3
                exact absurd hp2 (hi.fresh (isOp hp3) s2 u2 hin2)
              · exact hi.one s2 u2 s3 u3 hin2 hin3 hp2 hp3
          · rename_i hl
            have nol : ∀ x ∈ st.logins, x.1 ≠ q := aLookup_none hl
            refine ⟨?_, ?_, ?_, ?_, ?_⟩
            · intro l0 hm0; rw [hlv]; exact hi.parked l0 hm0
            · intro s2 u2 l2 hm2 hp2 hb
              rcases mem_new hm2 with heq | hin
              · have hu2 : u2 = ⟨now, q, none, [e]⟩ := (Prod.mk.inj heq).2
                subst hu2
                simp at hb
              · rw [hlv]; exact hi.bound s2 u2 l2 hin hp2 hb
            · intro l0 s2 u2 hm0 hm2
              rcases mem_new hm2 with heq | hin
              · have hu2 : u2 = ⟨now, q, none, [e]⟩ := (Prod.mk.inj heq).2
                subst hu2
                intro hc
                simp only at hc
                exact nol (p, l0) hm0 hc.symm
              · exact hi.excl l0 s2 u2 hm0 hin
            · intro ho s2 u2 hm2
              rcases mem_new hm2 with heq | hin
              · have hu2 : u2 = ⟨now, q, none, [e]⟩ := (Prod.mk.inj heq).2
                subst hu2
                intro hc
                rw [openers_audit] at ho
                have := (List.append_eq_nil_iff.mp ho).2
                simp only at hc
                simp [hopen q hc hty hq] at this
              · exact hi.fresh (hop ho) s2 u2 hin
            · intro s2 u2 s3 u3 hm2 hm3 hp2 hp3
              rcases mem_new hm2 with heq2 | hin2 <;> rcases mem_new hm3 with heq3 | hin3
              · rw [(Prod.mk.inj heq2).1, (Prod.mk.inj heq3).1]
              · have hu2 : u2 = ⟨now, q, none, [e]⟩ := (Prod.mk.inj heq2).2
                subst hu2
                simp only at hp2
                exact absurd hp3 (hi.fresh (isOp hp2) s3 u3 hin3)
              · have hu3 : u3 = ⟨now, q, none, [e]⟩ := (Prod.mk.inj heq3).2
                subst hu3
                simp only at hp3
                exact absurd hp2 (hi.fresh (isOp hp3) s2 u2 hin2)
              · exact hi.one s2 u2 s3 u3 hin2 hin3 hp2 hp3

theorem invL_step {p : Int} {h : List Op} {st : St} (op : Op) (hi : InvL p h st)
    (hu : (openers p (h ++ [op])).length ≤ 1) : InvL p (h ++ [op]) (step st op).1 := by
  cases op with
  | remoteLogin l => exact invL_remoteLogin l hi
  | audit e now => exact invL_audit e now hi hu
  | cleanSessions t =>
    simp only [step]
    exact shrink hi (fun x hx => (List.mem_filter.mp hx).1) (fun x hx => hx) (lastValid_cleanS p h t)
      (by rw [openers_other p h _ (by intro e now hc; cases hc)]; exact id)
  | cleanLogins t =>
    simp only [step]
    exact shrink hi (fun x hx => hx) (fun x hx => (List.mem_filter.mp hx).1) (lastValid_cleanL p h t)
      (by rw [openers_other p h _ (by intro e now hc; cases hc)]; exact id)

/-! ### what is written, and under which login -/

/-- the login under which `audit` writes: the one bound to the event's session, or the waiting one
it binds to the session it opens -/
theorem out_audit_login (st : St) (e : AEvent) (now : Time) :
    ∃ new, (audit st e now).1.out = st.out ++ new ∧ ∀ em ∈ new,
      (∃ u, (e.ses, u) ∈ st.sessions ∧ u.login = some em.login) ∨
      (∃ q, (q, em.login) ∈ st.logins ∧ atoi e.pidTok = some q) := by
  simp only [audit]
  split
  · exact ⟨[], by simp, by simp⟩
  · split
    · rename_i u hlook
      have hm : (e.ses, u) ∈ st.sessions := aLookup_mem hlook
      split
      · exact ⟨[], by simp, by simp⟩
      · rename_i l hsome
        split
        · rename_i st' heq
          have hw := writeAll_wrote st l u.cached
          rw [heq] at hw
          obtain ⟨new, ho, hn⟩ := hw.out
          exact ⟨new, ho, fun em hem => Or.inl ⟨u, hm, by rw [(hn em hem).1]; exact hsome⟩⟩
        · rename_i st' heq
          have hw := writeAll_wrote st l u.cached
          rw [heq] at hw
          have hw2 := write1_wrote st' l e
          generalize write1 st' l e = r at hw2 ⊢
          obtain ⟨st'', okw⟩ := r
          obtain ⟨new, ho, hn⟩ := (hw.trans hw2).out
          exact ⟨new, ho, fun em hem => Or.inl ⟨u, hm, by rw [(hn em hem).1]; exact hsome⟩⟩
    · split
      · exact ⟨[], by simp, by simp⟩
      · split
        · exact ⟨[], by simp, by simp⟩
        · rename_i q hq
          split
          · rename_i l hl
            generalize hst1 : ({ st with
              logins := aErase q st.logins
              sessions := aStore e.ses ⟨now, q, some l, []⟩ st.sessions } : St) = st1
            have ho1 : st1.out = st.out := by rw [← hst1]
            have hw := write1_wrote st1 l e
            generalize write1 st1 l e = r at hw ⊢
            obtain ⟨st2, okw⟩ := r
            obtain ⟨new, ho, hn⟩ := hw.out
            exact ⟨new, by rw [← ho1]; exact ho,
              fun em hem => Or.inr ⟨q, by rw [(hn em hem).1]; exact aLookup_mem hl, hq⟩⟩
          · exact ⟨[], by simp, by simp⟩

/-- one operation: whatever it writes under a login with PID `p` is written under the last valid
login with PID `p` delivered so far (this operation included) -/
theorem emitted_latest {p : Int} {h : List Op} {st : St} (op : Op) (hI : Inv h st) (hi : InvL p h st) :
    ∃ new, (step st op).1.out = st.out ++ new ∧
      ∀ em ∈ new, em.login.pid = p → lastValid p (h ++ [op]) = some em.login := by
  cases op with
  | remoteLogin l =>
    obtain ⟨new, ho, hn⟩ := out_remoteLogin st l
    refine ⟨new, ho, fun em hem hp => ?_⟩
    obtain ⟨hl, hv, _⟩ := hn em hem
    rw [lastValid_login, ← hl]
    simp [hl ▸ hv, hp]
  | audit e now =>
    obtain ⟨new, ho, hn⟩ := out_audit_login st e now
    refine ⟨new, ho, fun em hem hp => ?_⟩
    rw [lastValid_audit]
    rcases hn em hem with ⟨u, hm, hb⟩ | ⟨q, hm, _⟩
    · have := (hI.bound e.ses u em.login hm hb).2.1
      exact hi.bound e.ses u em.login hm (this ▸ hp) hb
    · have := (hI.parked q em.login hm).2.1
      have hq : q = p := this ▸ hp
      subst hq
      exact hi.parked em.login hm
  | cleanSessions t => exact ⟨[], by simp [step], by simp⟩
  | cleanLogins t => exact ⟨[], by simp [step], by simp⟩

theorem openers_append (p : Int) (a b : List Op) : openers p (a ++ b) = openers p a ++ openers p b := by
  simp [openers, auditsOf_append]

/-- an emitted event was written, at some point of the history, under the last valid login of its PID
delivered up to that point -/
def Good (p : Int) (H : List Op) (em : Emitted) : Prop :=
  ∃ h₁ op h₂, H = h₁ ++ op :: h₂ ∧ lastValid p (h₁ ++ [op]) = some em.login

theorem latest_run (p : Int) (done : List Op) (st : St) (ops : List Op) (hI : Inv done st)
    (hi : InvL p done st) (hu : (openers p (done ++ ops)).length ≤ 1)
    (hout : ∀ em ∈ st.out, em.login.pid = p → Good p (done ++ ops) em) :
    ∀ em ∈ (run st ops).1.out, em.login.pid = p → Good p (done ++ ops) em := by
  induction ops generalizing done st with
  | nil => simpa [run] using hout
  | cons op rest ih =>
    have hsplit : done ++ op :: rest = (done ++ [op]) ++ rest := by simp
    have hu1 : (openers p (done ++ [op])).length ≤ 1 := by
      rw [hsplit, openers_append, List.length_append] at hu; omega
    have hI' := inv_step done st op hI
    have hi' := invL_step op hi hu1
    obtain ⟨new, ho, hn⟩ := emitted_latest (p := p) op hI hi
    have hout' : ∀ em ∈ (step st op).1.out, em.login.pid = p → Good p (done ++ op :: rest) em := by
      intro em hem hp
      rw [ho] at hem
      rcases List.mem_append.mp hem with hm | hm
      · exact hout em hm hp
      · exact ⟨done, op, rest, rfl, hn em hm hp⟩
    simp only [run]
    generalize step st op = r at hI' hi' hout' ⊢
    obtain ⟨st', e⟩ := r
    cases e with
    | none =>
      have := ih (done ++ [op]) st' hI' hi' (by rw [← hsplit]; exact hu) (by rw [← hsplit]; exact hout')
      rw [← hsplit] at this
      exact this
    | some e => exact hout'

/-- C01 for PIDs used by several logins: if at most one LOGIN-type record of the history names PID `p`,
every event emitted under a login with PID `p` carries the identity of the last valid login with that
PID delivered when it was written — for every history and every write oracle -/
theorem latest_login (failAt : Option Nat) (h : List Op) (p : Int)
    (hu : (openers p h).length ≤ 1) :
    ∀ em ∈ (run { failAt := failAt } h).1.out, em.login.pid = p →
      ∃ h₁ op h₂, h = h₁ ++ op :: h₂ ∧ lastValid p (h₁ ++ [op]) = some em.login := by
  have := latest_run p [] { failAt := failAt } h (inv_init failAt) (invL_init p failAt)
    (by simpa using hu) (by simp)
  simpa [Good] using this

/-! ### the hypothesis is satisfiable and the statement bites: two logins under one PID -/

def mkLogin (pid : Int) (who : String) : Login :=
  { pid := pid, cred := strOf who, hasSource := true, subjects := [("userID", strOf who)],
    srcType := strOf "IP", srcValue := strOf "10.0.0.1", srcExtra := [], target := [], loggedAt := 0 }

def mkEv (ts : Int) (ses : String) (typ : EvType) (pid : String) : AEvent :=
  { ts := ts, ses := strOf ses, typ := typ, pidTok := strOf pid, result := strOf "success",
    action := [], how := [], object := [], args := [] }

/-- alice's login is left waiting (her session's records never arrive); bob's sshd gets the same PID;
then the LOGIN record with that PID opens session 1 -/
def demo : List Op :=
  [ .remoteLogin (mkLogin 77 "alice"), .remoteLogin (mkLogin 77 "bob"),
    .audit (mkEv 1 "1" .login "77") 1, .audit (mkEv 2 "1" .other "77") 2 ]

example : (openers 77 demo).length ≤ 1 := by decide

example : ((run {} demo).1.out.map fun em => em.login.cred) = [strOf "bob", strOf "bob"] := by decide

end AM.C01L
