import AM.Proofs.SshdCommon
/-! Every captured group is a verbatim substring of the text the expression was applied to; an
anchored expression that starts with a literal matches only texts that start with it. -/
namespace AM.Rx

/-- the captures of a parse are substrings of the parsed text -/
theorem parse_caps_infix {is e s caps r} (h : Parse is e s caps r) : ∀ c ∈ caps, c <:+: s := by
  induction h with
  | nilOpen s => intro c hc; cases hc
  | nilEnd => intro c hc; cases hc
  | @lit l is e s caps r _ ih =>
    intro c hc
    exact (ih c hc).trans (List.suffix_append l s).isInfix
  | @one cl is e b t caps r _ _ ih =>
    intro c hc
    exact (ih c hc).trans (List.drop_suffix _ _).isInfix
  | @rep cl mn cap is e s caps r x _ _ _ ih =>
    intro c hc
    cases cap with
    | true =>
      simp only [if_true, List.mem_cons] at hc
      rcases hc with rfl | hc
      · exact (List.prefix_append c s).isInfix
      · exact (ih c hc).trans (List.suffix_append x s).isInfix
    | false =>
      simp only [Bool.false_eq_true, if_false] at hc
      exact (ih c hc).trans (List.suffix_append x s).isInfix

theorem matchItems_caps_infix {is e s caps r} (h : matchItems is e s = some (caps, r)) :
    ∀ c ∈ caps, c <:+: s :=
  parse_caps_infix (sound _ _ _ _ _ h)

theorem findFrom_caps_infix (items : List Item) (e : Bool) :
    ∀ (fuel off : Nat) (s : Str) (o l : Nat) (caps : List Str),
      findFrom items e fuel off s = some (o, l, caps) → ∀ c ∈ caps, c <:+: s := by
  intro fuel
  induction fuel with
  | zero => intro off s o l caps h; simp [findFrom] at h
  | succ n ih =>
    intro off s o l caps h
    simp only [findFrom] at h
    split at h
    · rename_i caps' rest hm
      simp only [Option.some.injEq, Prod.mk.injEq] at h
      obtain ⟨_, _, rfl⟩ := h
      exact matchItems_caps_infix hm
    · split at h
      · cases h
      · intro c hc
        exact (ih _ _ _ _ _ h c hc).trans (List.suffix_cons _ _).isInfix

/-- `FindStringSubmatch` returns substrings of its argument -/
theorem find_caps_infix (p : Pat) (s : Str) (o l : Nat) (caps : List Str)
    (h : find p s = some (o, l, caps)) : ∀ c ∈ caps, c <:+: s := by
  unfold find at h
  split at h
  · cases hm : matchItems p.items p.anchE s with
    | none => simp [hm] at h
    | some res =>
      obtain ⟨caps', rest⟩ := res
      simp only [hm, Option.map_some, Option.some.injEq, Prod.mk.injEq] at h
      obtain ⟨_, _, rfl⟩ := h
      exact matchItems_caps_infix hm
  · exact findFrom_caps_infix _ _ _ _ _ _ _ _ h

theorem lookupCap_mem : ∀ (ns : List String) (cs : List Str) (name : String) (c : Str),
    lookupCap ns cs name = some c → c ∈ cs
  | [], _, _, _, h => by simp [lookupCap] at h
  | _ :: _, [], _, _, h => by simp [lookupCap] at h
  | n :: ns, c' :: cs, name, c, h => by
    simp only [lookupCap] at h
    split at h
    · cases h; exact List.mem_cons_self
    · exact List.mem_cons_of_mem _ (lookupCap_mem ns cs name c h)

theorem group_mem (p : Pat) (name : String) (caps : List Str) (c : Str)
    (h : p.group name caps = some c) : c ∈ caps :=
  lookupCap_mem _ _ _ _ h

/-- a start-anchored expression whose first item is a literal matches only texts that begin
with the literal (converse of `isMatch_false_of_lit`) -/
theorem isMatch_lit_prefix (p : Pat) (l : Str) (is : List Item) (s : Str)
    (hs : p.anchS = true) (hi : p.items = .lit l :: is) (hm : p.isMatch s = true) :
    l.isPrefixOf s = true := by
  cases hl : l.isPrefixOf s with
  | true => rfl
  | false =>
    rw [isMatch_false_of_lit p l is s hs hi hl] at hm
    cases hm

end AM.Rx
