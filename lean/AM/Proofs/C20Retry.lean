import AM.Model.DirReader
/-! C20 and the reader's retry (`readWithRetry`, `backoff.Retry`): an attempt that fails before a byte was read —
the `Open` fails, or the first `Read` does — followed by the retry delivers exactly what one successful attempt
delivers and leaves the same state. (The order of `o.lastSz = size` and the read is harmless for this reason only;
a guard "the size has not changed, nothing to read" breaks it: `size_guard_loses_the_retry`.) -/
namespace AM.C20R
open AM AM.Dir

/-- an attempt whose `Open` fails changes nothing; one whose first `Read` fails is `onWriteFailed` -/
theorem retry_after_failed_attempt (w : World) : onWrite (onWriteFailed w) = onWrite w := by
  unfold onWrite onWriteFailed
  simp only
  by_cases h : (w.file.length < w.rf.lastSz || w.file.length < w.rf.offset) = true
  · simp [h]
  · have h' : (w.file.length < w.rf.lastSz || w.file.length < w.rf.offset) = false := by simpa using h
    simp only [h', Bool.false_eq_true, if_false]
    have h2 : ¬ w.file.length < w.rf.offset := by
      intro hc; simp [hc] at h'
    simp [h2]

/-- any number of failed attempts before the successful one -/
theorem retries (w : World) (n : Nat) : onWrite (Nat.repeat onWriteFailed n w) = onWrite w := by
  induction n with
  | zero => rfl
  | succ n ih =>
    show onWrite (onWriteFailed (Nat.repeat onWriteFailed n w)) = onWrite w
    rw [retry_after_failed_attempt, ih]

/-- the tempting guard "the size is the one recorded at the previous event: nothing new" -/
def onWriteGuarded (w : World) : World :=
  if w.file.length > 0 && w.file.length = w.rf.lastSz then w else onWrite w

/-- with the guard, the retry after a failed first read delivers nothing: the appended line is lost -/
theorem size_guard_loses_the_retry :
    let w : World := { file := "a\nb\n".toList, rf := { offset := 2, lastSz := 2 }, out := ["a".toList] }
    (onWrite (onWriteFailed w)).out = ["a".toList, "b".toList] ∧
    (onWriteGuarded (onWriteFailed w)).out = ["a".toList] := by decide

end AM.C20R
