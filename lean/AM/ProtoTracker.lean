import AM.Spec.Tracker
import AM.Proto
/-! Line protocol of the tracker family: case lines ↦ operations, observations ↦ `Obs` -/
namespace AM.Proto
open AM AM.Tr AM.Spec.Tracker

def trTarget : SMap := [("host", strOf "node-1"), ("machine-id", strOf "0123456789abcdef0123456789abcdef")]

/-- logical time of a time reference used by operation `k` -/
def refTime (r : String) (k : Nat) : Option Time :=
  if r == "z" then some (-1)
  else if r == "f" then some 1000000000000
  else if r == "n" then some (2 * k)
  else if r.startsWith "i" then ((r.drop 1).toString.toNat?).map fun i => (2 * (i : Int) + 2)
  else none

def mkLogin (p : Int) (c : Str) (hs : Bool) (tag : String) (t : Time) : Login :=
  { pid := p, cred := c, hasSource := hs,
    subjects := [("loggedAs", strOf ("user" ++ tag)), ("pid", strOf (toString p)), ("userID", c)],
    srcType := strOf "IP", srcValue := strOf ("10.0.0." ++ tag), srcExtra := [("port", strOf tag)],
    target := trTarget, loggedAt := t }

def mkEvent (t : Int) (ts : String) (s : Str) (typ : String) (pt r : Str) (n : Nat) : AEvent :=
  let ty := if typ == "l" then EvType.login else if typ == "d" then EvType.credDisp else EvType.other
  { ts := t, ses := s, typ := ty, pidTok := pt, result := r,
    action := strOf ("act" ++ ts), how := strOf ("how" ++ ts),
    object := strOf "file" ++ nul ++ strOf ("/p/" ++ ts) ++ nul,
    args := (List.range n).map fun i => strOf ("arg" ++ toString i ++ " " ++ ts) }

def parseOp (k : Nat) (x : String) : Option Op :=
  match x.splitOn ":" with
  | ["L", pid, cred, hs, ref, tag] => do
    let p ← pid.toInt?
    let c ← ofHex cred
    let t ← refTime ref k
    pure (.remoteLogin (mkLogin p c (hs == "1") tag t))
  | ["A", ts, ses, typ, pidTok, result, nargs] => do
    let t ← ts.toInt?
    let s ← ofHex ses
    let pt ← ofHex pidTok
    let r ← ofHex result
    let n ← nargs.toNat?
    pure (.audit (mkEvent t ts s typ pt r n) (2 * k + 1))
  | ["X", ts, ses, typ, pidTok, result, action, how, object, args] => do
    -- an event spelled out field by field (a real coalesced event)
    let t ← ts.toInt?
    let s ← ofHex ses
    let pt ← ofHex pidTok
    let r ← ofHex result
    let a ← ofHex action
    let h ← ofHex how
    let o ← ofHex object
    let as ← (if args == "-" then some [] else (args.splitOn ",").mapM ofHex)
    let ty := if typ == "l" then EvType.login else if typ == "d" then EvType.credDisp else EvType.other
    pure (.audit { ts := t, ses := s, typ := ty, pidTok := pt, result := r, action := a, how := h, object := o, args := as }
            (2 * k + 1))
  | ["S", ref] => (refTime ref k).map .cleanSessions
  | ["R", ref] => (refTime ref k).map .cleanLogins
  | _ => none

def parseOps (x : String) : Option (List Op) :=
  let parts := x.splitOn ";"
  ((List.range parts.length).zip parts).mapM fun p => parseOp p.1 p.2

def parseAction (x : String) : Option ObsAction :=
  -- A:<10 event fields>|<aidhex>|<ts>@<k>
  if !x.startsWith "A:" then none else
  let body := (x.drop 2).toString
  match body.splitOn "@" with
  | [b, k] =>
    let fs := b.splitOn "|"
    if fs.length ≠ 12 then none else do
      let ev ← parseEv (String.intercalate "|" (fs.take 10))
      let aid ← ofHex (fs.getD 10 "")
      let ts ← (fs.getD 11 "").toInt?
      let kk ← k.toNat?
      pure ⟨ev, aid, ts, kk⟩
  | _ => none

def parseTrackerObs (x : String) : Option Obs :=
  let parts := x.splitOn ";"
  match parts.getLast? with
  | none => none
  | some e =>
    if !e.startsWith "E:" then none else
    match ((e.drop 2).toString).splitOn "@" with
    | [kind, k] => do
      let acts ← parts.dropLast.mapM parseAction
      pure ⟨acts, kind, k.toNat?⟩
    | [kind] => do
      let acts ← parts.dropLast.mapM parseAction
      pure ⟨acts, kind, none⟩
    | _ => none

end AM.Proto
