import AM.Basic
/-! Flat fragment of Go `regexp` (RE2 syntax, leftmost-first semantics) over byte strings.

A pattern is `^`? item* `$`? where an item is a literal, one rune of a class, or a greedy
repetition (`*` / `+`) of a class, optionally the whole body of one capture group. All
22 expressions in `processors/sshd/openssh_regex.go` are of this shape (checked by
`tools/extract` on every run; anything else is reported as unsupported). -/
namespace AM.Rx

/-- a character class as a list of inclusive code ranges (bytes are the characters 0–255; the
non-ASCII part of a class is all-or-nothing, written `(128, 0x10FFFF)`) -/
abbrev Cls := List (Nat × Nat)

def Cls.mem (c : Cls) (ch : Char) : Bool := c.any fun r => r.1 ≤ ch.toNat && ch.toNat ≤ r.2

inductive Item where
  | lit (s : Str)
  | one (c : Cls)
  | rep (c : Cls) (min : Nat) (cap : Bool)
  deriving Repr, DecidableEq

structure Pat where
  name   : String
  anchS  : Bool
  anchE  : Bool
  items  : List Item
  caps   : List String      -- names of the capture groups, in order
  deriving Repr

/-- width in bytes of the first rune of `s` as `utf8.DecodeRuneInString` reports it
(1 for ASCII and for every invalid or truncated sequence) -/
def runeWidth : Str → Nat
  | [] => 0
  | b0 :: r =>
    let n := b0.toNat
    let cont (c : Char) : Bool := 0x80 ≤ c.toNat && c.toNat ≤ 0xBF
    let inr (c : Char) (lo hi : Nat) : Bool := lo ≤ c.toNat && c.toNat ≤ hi
    if n < 0xC2 then 1
    else if n ≤ 0xDF then
      match r with
      | b1 :: _ => if cont b1 then 2 else 1
      | _ => 1
    else if n ≤ 0xEF then
      let lo := if n = 0xE0 then 0xA0 else 0x80
      let hi := if n = 0xED then 0x9F else 0xBF
      match r with
      | b1 :: b2 :: _ => if inr b1 lo hi && cont b2 then 3 else 1
      | _ => 1
    else if n ≤ 0xF4 then
      let lo := if n = 0xF0 then 0x90 else 0x80
      let hi := if n = 0xF4 then 0x8F else 0xBF
      match r with
      | b1 :: b2 :: b3 :: _ => if inr b1 lo hi && cont b2 && cont b3 then 4 else 1
      | _ => 1
    else 1

def runLen (p : Char → Bool) : Str → Nat
  | [] => 0
  | c :: cs => if p c then runLen p cs + 1 else 0

/-- first success among hi, hi-1, …, lo (greedy: longest first) -/
def tryDown {α} (f : Nat → Option α) (lo : Nat) : Nat → Option α
  | 0 => if lo = 0 then f 0 else none
  | k+1 => if k+1 < lo then none else
      match f (k+1) with
      | some r => some r
      | none => tryDown f lo k

/-- backtracking matcher anchored at the start of `s`; returns captures and the unconsumed rest.
`e` = the pattern ends with `$`. -/
def matchItems : List Item → Bool → Str → Option (List Str × Str)
  | [], e, s => if e then (if s = [] then some ([], []) else none) else some ([], s)
  | .lit l :: is, e, s => if l.isPrefixOf s then matchItems is e (s.drop l.length) else none
  | .one c :: is, e, s =>
      match s with
      | [] => none
      | b :: _ => if c.mem b then matchItems is e (s.drop (runeWidth s)) else none
  | .rep c mn cap :: is, e, s =>
      tryDown (fun k => (matchItems is e (s.drop k)).map
        (fun r => (if cap then s.take k :: r.1 else r.1, r.2))) mn (runLen c.mem s)

/-- try the start offsets left to right (`fuel` = remaining offsets) -/
def findFrom (items : List Item) (e : Bool) : Nat → Nat → Str → Option (Nat × Nat × List Str)
  | 0, _, _ => none
  | fuel+1, off, s =>
      match matchItems items e s with
      | some (caps, rest) => some (off, s.length - rest.length, caps)
      | none =>
        match s with
        | [] => none
        | _ :: t => findFrom items e fuel (off+1) t

/-- `FindStringSubmatch`: start offset, length of the whole match, captured groups -/
def find (p : Pat) (s : Str) : Option (Nat × Nat × List Str) :=
  if p.anchS then
    (matchItems p.items p.anchE s).map fun r => (0, s.length - r.2.length, r.1)
  else findFrom p.items p.anchE (s.length + 1) 0 s

def Pat.isMatch (p : Pat) (s : Str) : Bool := (find p s).isSome

def lookupCap : List String → List Str → String → Option Str
  | n :: ns, c :: cs, name => if n = name then some c else lookupCap ns cs name
  | _, _, _ => none

/-- `matches[SubexpIndex(name)]` on the submatch slice (group 0 excluded); `none` = no such group -/
def Pat.group (p : Pat) (name : String) (caps : List Str) : Option Str := lookupCap p.caps caps name

end AM.Rx
