import AM.Rx.Theory
/-! Named character classes (as byte ranges) that the extractor emits, and their basic facts -/
namespace AM.Rx

/-- `.` : any byte but `\n` -/
def clsAny : Cls := [(0, 9), (11, 1114111)]
/-- `\S` -/
def clsNonSpace : Cls := [(0, 8), (11, 11), (14, 31), (33, 1114111)]
/-- `\s` -/
def clsSpace : Cls := [(9, 10), (12, 13), (32, 32)]
/-- `\d` -/
def clsDigit : Cls := [(48, 57)]
/-- `[[:alnum:]]` -/
def clsAlnum : Cls := [(48, 57), (65, 90), (97, 122)]
/-- `[\w -]` -/
def clsWordSpDash : Cls := [(32, 32), (45, 45), (48, 57), (65, 90), (95, 95), (97, 122)]
/-- `[a-zA-Z0-9_-]` -/
def clsKeyType : Cls := [(45, 45), (48, 57), (65, 90), (95, 95), (97, 122)]

/-- all bytes of `s` are in class `c` -/
def allIn (c : Cls) (s : Str) : Prop := ∀ ch ∈ s, c.mem ch = true

instance (c : Cls) (s : Str) : Decidable (allIn c s) := by unfold allIn; infer_instance

theorem mem_ranges1 (a b : Nat) (ch : Char) :
    Cls.mem [(a, b)] ch = true ↔ a ≤ ch.toNat ∧ ch.toNat ≤ b := by
  simp [Cls.mem]

theorem char_lt (c : Char) : c.toNat < 0x110000 := by
  have := c.valid
  simp only [UInt32.isValidChar, Nat.isValidChar] at this
  have h : c.toNat = c.val.toNat := rfl
  omega

theorem clsAny_mem (ch : Char) : clsAny.mem ch = true ↔ ch.toNat ≠ 10 := by
  have := char_lt ch
  simp only [clsAny, Cls.mem, List.any_cons, List.any_nil, Bool.or_false, Bool.or_eq_true,
    Bool.and_eq_true, decide_eq_true_eq]
  omega

end AM.Rx
