import AM.Rx.Classes
/-! Lemmas that lift `greedy_forced` to `find`, and small facts used by the per-form proofs -/
namespace AM.Rx

theorem findFrom_zero_of_match (items : List Item) (e : Bool) (n off : Nat) (s : Str) (caps : List Str) (r : Str)
    (h : matchItems items e s = some (caps, r)) :
    findFrom items e (n+1) off s = some (off, s.length - r.length, caps) := by
  simp [findFrom, h]

/-- a forced split is what `FindStringSubmatch` returns, at offset 0 -/
theorem find_of_forced (p : Pat) (ps : List Str) (tr : Str) (hf : Forced p.items p.anchE ps tr) :
    find p (build p.items ps ++ tr) =
      some (0, (build p.items ps ++ tr).length - (if p.anchE then 0 else tr.length), capsOf p.items ps) := by
  have hm := greedy_forced p.items p.anchE ps tr hf
  unfold find
  split
  · simp [hm]
    cases p.anchE <;> simp
  · rw [findFrom_zero_of_match _ _ _ _ _ _ _ hm]
    cases p.anchE <;> simp

/-- a start-anchored pattern whose first literal is not a prefix of the text does not match -/
theorem isMatch_false_of_lit (p : Pat) (l : Str) (is : List Item) (s : Str)
    (hs : p.anchS = true) (hi : p.items = .lit l :: is) (hl : l.isPrefixOf s = false) :
    p.isMatch s = false := by
  simp [Pat.isMatch, find, hs, hi, matchItems, hl]

/-- a parse of an end-anchored item list whose last item is a literal ends with that literal -/
theorem parse_suffix : ∀ (is : List Item) (l : Str) (s : Str) (caps : List Str) (r : Str),
    Parse (is ++ [.lit l]) true s caps r → l <:+ s := by
  intro is
  induction is with
  | nil =>
    intro l s caps r h
    cases h with
    | lit h' => cases h'; simp
  | cons it is ih =>
    intro l s caps r h
    cases h with
    | lit h' => exact List.suffix_append_of_suffix (ih _ _ _ _ h')
    | one _ h' => exact (ih _ _ _ _ h').trans (List.drop_suffix _ _)
    | rep x _ _ h' => exact List.suffix_append_of_suffix (ih _ _ _ _ h')

/-- an end-anchored pattern ending in a literal that is not a suffix of the text does not match
(anchored start) -/
theorem isMatch_false_of_suffix (p : Pat) (is : List Item) (l : Str) (s : Str)
    (hs : p.anchS = true) (he : p.anchE = true) (hi : p.items = is ++ [.lit l]) (hl : ¬ l <:+ s) :
    p.isMatch s = false := by
  simp only [Pat.isMatch, find, hs, if_true, Option.isSome_map]
  cases hm : matchItems p.items p.anchE s with
  | none => rfl
  | some res =>
    exfalso
    have := sound _ _ _ _ _ hm
    rw [hi, he] at this
    exact hl (parse_suffix _ _ _ _ _ this)

/-! ### counting separators -/

theorem count_zero_of_allIn (c : Cls) (sep : Char) (x : Str) (h : ∀ ch ∈ x, c.mem ch = true)
    (hs : c.mem sep = false) : x.count sep = 0 := by
  apply List.count_eq_zero.mpr
  intro hm
  have := h sep hm
  rw [hs] at this; cases this

theorem allIn_of_all {c : Cls} {x : Str} (h : x.all (fun ch => c.mem ch) = true) :
    ∀ ch ∈ x, c.mem ch = true := by
  simpa [List.all_eq_true] using h

/-- membership in a sub-class -/
theorem allIn_mono {c d : Cls} {x : Str} (h : ∀ ch ∈ x, c.mem ch = true)
    (hcd : ∀ ch, c.mem ch = true → d.mem ch = true) : ∀ ch ∈ x, d.mem ch = true :=
  fun ch hch => hcd ch (h ch hch)

end AM.Rx
