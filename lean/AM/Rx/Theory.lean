import AM.Rx.Core
/-! Theory of the flat matcher: soundness, completeness, and the "forced greedy split" theorem -/
namespace AM.Rx

/-! ### tryDown characterisation -/

theorem tryDown_eq_some {α} (f : Nat → Option α) (lo hi : Nat) (r : α) :
    tryDown f lo hi = some r ↔
      ∃ k, lo ≤ k ∧ k ≤ hi ∧ f k = some r ∧ ∀ k', k < k' → k' ≤ hi → f k' = none := by
  induction hi with
  | zero =>
    simp only [tryDown]
    constructor
    · intro h
      split at h
      · exact ⟨0, by omega, by omega, h, by intro k' h1 h2; omega⟩
      · cases h
    · rintro ⟨k, h1, h2, h3, _⟩
      have : k = 0 := by omega
      subst this
      have : lo = 0 := by omega
      simp [this, h3]
  | succ n ih =>
    simp only [tryDown]
    constructor
    · intro h
      split at h
      · cases h
      · rename_i hlo
        split at h
        · rename_i r' hf
          cases h
          exact ⟨n+1, by omega, by omega, hf, by intro k' h1 h2; omega⟩
        · rename_i hf
          obtain ⟨k, h1, h2, h3, h4⟩ := ih.mp h
          refine ⟨k, h1, by omega, h3, ?_⟩
          intro k' hk hk'
          by_cases hk'' : k' = n+1
          · subst hk''; exact hf
          · exact h4 k' hk (by omega)
    · rintro ⟨k, h1, h2, h3, h4⟩
      by_cases hk : k = n+1
      · subst hk
        have : ¬ (n+1 < lo) := by omega
        simp [this, h3]
      · have hlt : ¬ (n+1 < lo) := by omega
        have hn : f (n+1) = none := h4 (n+1) (by omega) (by omega)
        simp only [hlt, if_false, hn]
        exact ih.mpr ⟨k, h1, by omega, h3, fun k' a b => h4 k' a (by omega)⟩

theorem tryDown_eq_none {α} (f : Nat → Option α) (lo hi : Nat) :
    tryDown f lo hi = none ↔ ∀ k, lo ≤ k → k ≤ hi → f k = none := by
  induction hi with
  | zero =>
    simp only [tryDown]
    constructor
    · intro h k h1 h2
      have : k = 0 := by omega
      subst this
      have : lo = 0 := by omega
      simpa [this] using h
    · intro h
      split
      · exact h 0 (by omega) (by omega)
      · rfl
  | succ n ih =>
    simp only [tryDown]
    constructor
    · intro h k h1 h2
      split at h
      · omega
      · split at h
        · cases h
        · rename_i hf
          by_cases hk : k = n+1
          · subst hk; exact hf
          · exact ih.mp h k h1 (by omega)
    · intro h
      split
      · rfl
      · rw [h (n+1) (by omega) (by omega)]
        exact ih.mpr (fun k a b => h k a (by omega))

/-! ### declarative parses -/

inductive Parse : List Item → Bool → Str → List Str → Str → Prop
  | nilOpen (s) : Parse [] false s [] s
  | nilEnd : Parse [] true [] [] []
  | lit {l is e s caps r} : Parse is e s caps r → Parse (.lit l :: is) e (l ++ s) caps r
  | one {c is e b t caps r} : c.mem b = true →
      Parse is e ((b :: t).drop (runeWidth (b :: t))) caps r → Parse (.one c :: is) e (b :: t) caps r
  | rep {c mn cap is e s caps r} (x : Str) : (∀ ch ∈ x, c.mem ch = true) → mn ≤ x.length →
      Parse is e s caps r → Parse (.rep c mn cap :: is) e (x ++ s) (if cap then x :: caps else caps) r

theorem runLen_le (p : Char → Bool) (s : Str) : runLen p s ≤ s.length := by
  induction s with
  | nil => simp [runLen]
  | cons c cs ih => simp only [runLen]; split <;> simp <;> omega

theorem take_runLen_all (p : Char → Bool) (s : Str) (k : Nat) (hk : k ≤ runLen p s) :
    ∀ ch ∈ s.take k, p ch = true := by
  induction s generalizing k with
  | nil => simp
  | cons c cs ih =>
    cases k with
    | zero => simp
    | succ k =>
      simp only [runLen] at hk
      split at hk
      · rename_i hp
        intro ch hch
        simp only [List.take_succ_cons, List.mem_cons] at hch
        rcases hch with rfl | h
        · exact hp
        · exact ih k (by omega) ch h
      · omega

theorem runLen_append_ge (p : Char → Bool) (x s : Str) (hx : ∀ ch ∈ x, p ch = true) :
    x.length ≤ runLen p (x ++ s) := by
  induction x with
  | nil => simp
  | cons c cs ih =>
    have hc : p c = true := hx c (by simp)
    simp only [List.cons_append, runLen, hc, if_true, List.length_cons]
    have := ih (fun ch h => hx ch (by simp [h]))
    omega

theorem sound : ∀ (is : List Item) (e : Bool) (s : Str) (caps : List Str) (r : Str),
    matchItems is e s = some (caps, r) → Parse is e s caps r := by
  intro is
  induction is with
  | nil =>
    intro e s caps r h
    simp only [matchItems] at h
    split at h
    · split at h
      · rename_i he hs; cases h; subst hs; subst he; exact Parse.nilEnd
      · cases h
    · rename_i he
      cases h
      have : e = false := by cases e <;> simp_all
      subst this; exact Parse.nilOpen _
  | cons it is ih =>
    intro e s caps r h
    cases it with
    | lit l =>
      simp only [matchItems] at h
      split at h
      · rename_i hp
        have := ih e _ caps r h
        have hs : s = l ++ s.drop l.length := by
          have := List.isPrefixOf_iff_prefix.mp hp
          obtain ⟨t, rfl⟩ := this
          simp
        rw [hs]; exact Parse.lit this
      · cases h
    | one c =>
      simp only [matchItems] at h
      split at h
      · cases h
      · rename_i b t
        split at h
        · rename_i hc
          exact Parse.one hc (ih e _ caps r h)
        · cases h
    | rep c mn cap =>
      simp only [matchItems] at h
      obtain ⟨k, h1, h2, h3, _⟩ := (tryDown_eq_some _ _ _ _).mp h
      cases hm : matchItems is e (s.drop k) with
      | none => simp [hm] at h3
      | some res =>
        simp only [hm, Option.map_some, Option.some.injEq, Prod.mk.injEq] at h3
        obtain ⟨hc, hr⟩ := h3
        have hp := ih e _ res.1 res.2 (by rw [hm])
        have hlen : (s.take k).length = k := by
          have := runLen_le c.mem s
          simp; omega
        have := Parse.rep (c := c) (mn := mn) (cap := cap) (s.take k)
          (take_runLen_all _ _ _ h2) (by omega) hp
        rw [List.take_append_drop] at this
        rw [← hc, ← hr]; exact this

/-- if any parse exists, the matcher finds one -/
theorem complete : ∀ (is : List Item) (e : Bool) (s : Str) (caps : List Str) (r : Str),
    Parse is e s caps r → (matchItems is e s).isSome = true := by
  intro is e s caps r h
  induction h with
  | nilOpen s => simp [matchItems]
  | nilEnd => simp [matchItems]
  | @lit l is e s caps r _ ih =>
    simp only [matchItems]
    have : l.isPrefixOf (l ++ s) = true := List.isPrefixOf_iff_prefix.mpr (List.prefix_append _ _)
    simp [this, ih]
  | @one c is e b t caps r hc _ ih =>
    simp only [matchItems, hc, if_true]
    exact ih
  | @rep c mn cap is e s caps r x hx hmn _ ih =>
    simp only [matchItems]
    cases ht : tryDown (fun k => (matchItems is e ((x ++ s).drop k)).map
        (fun r => (if cap = true then (x ++ s).take k :: r.1 else r.1, r.2))) mn (runLen c.mem (x ++ s)) with
    | some _ => rfl
    | none =>
      have := (tryDown_eq_none _ _ _).mp ht x.length hmn (runLen_append_ge _ _ _ hx)
      simp at this
      simp [this] at ih

theorem none_of_no_parse (is : List Item) (e : Bool) (s : Str)
    (h : ∀ caps r, ¬ Parse is e s caps r) : matchItems is e s = none := by
  cases hm : matchItems is e s with
  | none => rfl
  | some res => exact absurd (sound is e s res.1 res.2 hm) (h _ _)

theorem lit_step (l : Str) (is : List Item) (e : Bool) (t : Str) :
    matchItems (.lit l :: is) e (l ++ t) = matchItems is e t := by
  simp only [matchItems]
  have : l.isPrefixOf (l ++ t) = true := List.isPrefixOf_iff_prefix.mpr (List.prefix_append _ _)
  simp [this]

/-- an ASCII byte of the class is consumed as one rune of width 1 -/
theorem one_step (c : Cls) (is : List Item) (e : Bool) (b : Char) (t : Str)
    (hb : b.toNat < 0xC2) (hc : c.mem b = true) :
    matchItems (.one c :: is) e (b :: t) = matchItems is e t := by
  simp only [matchItems, hc, if_true, runeWidth, hb, List.drop_succ_cons, List.drop_zero]

/-- no *longer* piece of class `c` leaves a parsable rest -/
def NoLater (c : Cls) (is : List Item) (e : Bool) (t : Str) : Prop :=
  ∀ j, 0 < j → j ≤ t.length → (∀ ch ∈ t.take j, c.mem ch = true) →
    ∀ caps r, ¬ Parse is e (t.drop j) caps r

/-- greedy step: the matcher takes piece `x` for the group if the rest matches after it and no
longer piece (staying inside the class) admits a parse of the rest -/
theorem rep_step (c : Cls) (mn : Nat) (cap : Bool) (is : List Item) (e : Bool) (x t : Str)
    (caps : List Str) (r : Str)
    (hx : ∀ ch ∈ x, c.mem ch = true) (hmn : mn ≤ x.length)
    (hrest : matchItems is e t = some (caps, r))
    (hmax : NoLater c is e t) :
    matchItems (.rep c mn cap :: is) e (x ++ t) = some (if cap then x :: caps else caps, r) := by
  simp only [matchItems]
  apply (tryDown_eq_some _ _ _ _).mpr
  refine ⟨x.length, hmn, runLen_append_ge _ _ _ hx, ?_, ?_⟩
  · simp [hrest]
  · intro k' hk hk'
    have hle := runLen_le c.mem (x ++ t)
    have hd : (x ++ t).drop k' = t.drop (k' - x.length) := by
      rw [List.drop_append]; simp [List.drop_eq_nil_of_le (Nat.le_of_lt hk)]
    rw [hd, none_of_no_parse]
    · rfl
    · apply hmax (k' - x.length) (by omega) (by simp at hle; omega)
      intro ch hch
      have hall := take_runLen_all c.mem (x ++ t) k' hk'
      apply hall
      have : (x ++ t).take k' = x ++ t.take (k' - x.length) := by
        rw [List.take_append]; simp [List.take_of_length_le (Nat.le_of_lt hk)]
      rw [this]; exact List.mem_append_right _ hch

/-! ### the line built from field values, and the forced split -/

def build : List Item → List Str → Str
  | [], _ => []
  | .lit l :: is, ps => l ++ build is ps
  | .one _ :: is, x :: ps => x ++ build is ps
  | .one _ :: is, [] => build is []
  | .rep _ _ _ :: is, x :: ps => x ++ build is ps
  | .rep _ _ _ :: is, [] => build is []

def capsOf : List Item → List Str → List Str
  | [], _ => []
  | .lit _ :: is, ps => capsOf is ps
  | .one _ :: is, _ :: ps => capsOf is ps
  | .one _ :: is, [] => capsOf is []
  | .rep _ _ cap :: is, x :: ps => if cap then x :: capsOf is ps else capsOf is ps
  | .rep _ _ _ :: is, [] => capsOf is []

/-- the intended split is the one a greedy leftmost-first matcher is forced into -/
def Forced : List Item → Bool → List Str → Str → Prop
  | [], e, _, tr => e = true → tr = []
  | .lit _ :: is, e, ps, tr => Forced is e ps tr
  | .one c :: is, e, x :: ps, tr =>
      (∃ b, x = [b] ∧ b.toNat < 0xC2 ∧ c.mem b = true) ∧ Forced is e ps tr
  | .one _ :: _, _, [], _ => False
  | .rep c mn _ :: is, e, x :: ps, tr =>
      (∀ ch ∈ x, c.mem ch = true) ∧ mn ≤ x.length ∧ Forced is e ps tr ∧
        NoLater c is e (build is ps ++ tr)
  | .rep _ _ _ :: _, _, [], _ => False

theorem greedy_forced : ∀ (is : List Item) (e : Bool) (ps : List Str) (tr : Str),
    Forced is e ps tr →
      matchItems is e (build is ps ++ tr) = some (capsOf is ps, if e then [] else tr) := by
  intro is
  induction is with
  | nil =>
    intro e ps tr h
    cases e with
    | true => simp [Forced] at h; subst h; simp [matchItems, build, capsOf]
    | false => simp [matchItems, build, capsOf]
  | cons it is ih =>
    intro e ps tr h
    cases it with
    | lit l =>
      simp only [build, capsOf, List.append_assoc]
      rw [lit_step]; exact ih e ps tr h
    | one c =>
      cases ps with
      | nil => exact absurd h (by simp [Forced])
      | cons x ps =>
        obtain ⟨⟨b, rfl, hb, hc⟩, hf⟩ := h
        simp only [build, capsOf, List.cons_append, List.nil_append]
        rw [one_step c is e b _ hb hc]; exact ih e ps tr hf
    | rep c mn cap =>
      cases ps with
      | nil => exact absurd h (by simp [Forced])
      | cons x ps =>
        obtain ⟨hx, hmn, hf, hnl⟩ := h
        simp only [build, capsOf, List.append_assoc]
        have := rep_step c mn cap is e x (build is ps ++ tr) _ _ hx hmn (ih e ps tr hf) hnl
        rw [this]

/-! ### three ways to establish `NoLater` -/

/-- class boundary: the byte after the piece is outside the class (or the text ends) -/
theorem noLater_boundary (c : Cls) (is : List Item) (e : Bool) (t : Str)
    (h : t = [] ∨ ∃ ch t', t = ch :: t' ∧ c.mem ch = false) : NoLater c is e t := by
  intro j hj hjl hall
  rcases h with rfl | ⟨ch, t', rfl, hc⟩
  · simp at hjl; omega
  · have : ch ∈ (ch :: t').take j := by
      cases j with
      | zero => omega
      | succ j => simp
    have := hall ch this
    rw [hc] at this; cases this

def litCount (ch : Char) : List Item → Nat
  | [] => 0
  | .lit l :: is => l.count ch + litCount ch is
  | .one _ :: is => litCount ch is
  | .rep _ _ _ :: is => litCount ch is

theorem count_drop_le (ch : Char) (s : Str) (j : Nat) : (s.drop j).count ch ≤ s.count ch := by
  have := List.count_append (a := ch) (l₁ := s.take j) (l₂ := s.drop j)
  rw [List.take_append_drop] at this; omega

theorem parse_count (ch : Char) {is e s caps r} (h : Parse is e s caps r) :
    litCount ch is ≤ s.count ch := by
  induction h with
  | nilOpen s => simp [litCount]
  | nilEnd => simp [litCount]
  | lit _ ih => simp [litCount, List.count_append]; omega
  | @one c is e b t caps r _ _ ih =>
    simp only [litCount]
    have := count_drop_le ch (b :: t) (runeWidth (b :: t))
    omega
  | rep x _ _ _ ih => simp [litCount, List.count_append]; omega

theorem count_drop_pos_lt (ch : Char) (t : Str) (j : Nat) (hj : 0 < j) :
    ((ch :: t).drop j).count ch < (ch :: t).count ch := by
  cases j with
  | zero => omega
  | succ j =>
    simp only [List.drop_succ_cons, List.count_cons_self]
    have := count_drop_le ch t j; omega

/-- separator count: the rest starts with `sep` and contains no more `sep`s than the
remaining literals need, so no later split can be parsed -/
theorem noLater_count (sep : Char) (c : Cls) (is : List Item) (e : Bool) (t t' : Str)
    (ht : t = sep :: t') (hc : t.count sep ≤ litCount sep is) : NoLater c is e t := by
  intro j hj _ _ caps r hp
  have h1 := parse_count sep hp
  subst ht
  have h2 := count_drop_pos_lt sep t' j hj
  omega

/-- a parse of items that begin with a literal starts with that literal -/
theorem parse_lit_prefix {l is e s caps r} (h : Parse (.lit l :: is) e s caps r) :
    l <+: s := by
  cases h with
  | lit _ => exact List.prefix_append _ _

/-- literal occurrence: the next literal `l` does not occur at any later offset `j` that the
class can reach, so no later split can be parsed -/
theorem noLater_lit (c : Cls) (l : Str) (is : List Item) (e : Bool) (t : Str)
    (h : ∀ j, 0 < j → j ≤ t.length → (∀ ch ∈ t.take j, c.mem ch = true) → ¬ l <+: t.drop j) :
    NoLater c (.lit l :: is) e t := by
  intro j hj hjl hall caps r hp
  exact h j hj hjl hall (parse_lit_prefix hp)

end AM.Rx
