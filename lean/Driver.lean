import AM.Model.Sshd
/-! `amdriver <mode>`: runs the executable model on cases read from stdin, one per line, and
prints one canonical observation per case (same line protocol as the Go harness). -/
open AM

def sshdCfg : Sshd.Cfg := ⟨strOf "node-1", strOf "0123456789abcdef0123456789abcdef"⟩

def sortIncsFirst (effs : List Sshd.Eff) : List String :=
  let incs := (effs.filterMap fun e => match e with | .inc m o => some s!"I:{m}:{o}" | _ => none)
  let rest := (effs.filterMap fun e => match e with | .inc _ _ => none | e => some e.render)
  (incs.toArray.qsort (· < ·)).toList ++ rest

def renderOut (o : Sshd.Out) : String :=
  String.intercalate ";" (sortIncsFirst o.effs ++ [o.res.render])

def handoffOf (s : String) : Sshd.Handoff := if s == "cancel" then .cancel else .ready

def sshdLine (f : List String) : String :=
  match f with
  | id :: pid :: line :: ok :: h :: _ =>
    match ofHex pid, ofHex line with
    | some p, some l => s!"{id} {renderOut (Sshd.process sshdCfg p l (ok == "ok") (handoffOf h))}"
    | _, _ => s!"{id} !badhex"
  | _ => "!badline"

partial def loop (h : IO.FS.Stream) (out : IO.FS.Stream) (f : List String → String) : IO Unit := do
  let line ← h.getLine
  if line.isEmpty then return ()
  let fs := (line.trimAscii.toString.splitOn " ").filter (· ≠ "")
  if !fs.isEmpty then out.putStrLn (f fs)
  loop h out f

def main (args : List String) : IO UInt32 := do
  let stdin ← IO.getStdin
  let stdout ← IO.getStdout
  match args with
  | ["sshd"] => loop stdin stdout sshdLine; return 0
  | _ => IO.eprintln "usage: amdriver <mode>"; return 2
