import Std.Data.HashSet
import AM.Spec.Sshd
import AM.Model.Syslog
import AM.Proto
import AM.ProtoTracker
import AM.Model.Pipe
import AM.Model.DirReader
import AM.Model.DirLoop
import AM.Model.Health
import AM.Proofs.C18Ring
import AM.Model.Conc
import AM.Spec.AuditProc
import AM.Model.Workers
import AM.Model.Handoff
import AM.Model.Daemon
import AM.Model.AuditLine
/-! `amdriver <mode> [property]`: runs the executable model on cases read from stdin, one per line,
prints the model's canonical observation, the verdict of the property's executable `Spec` on it
and — when the case carries the implementation's observation (`obs=`) — the verdict on that. -/
open AM

def sshdCfg : Sshd.Cfg := ⟨strOf "node-1", strOf "0123456789abcdef0123456789abcdef"⟩

def sortIncsFirst (effs : List Sshd.Eff) : List String :=
  let incs := (effs.filterMap fun e => match e with | .inc m o => some s!"I:{m}:{o}" | _ => none)
  let rest := (effs.filterMap fun e => match e with | .inc _ _ => none | e => some e.render)
  (incs.toArray.qsort (· < ·)).toList ++ rest

def renderOut (o : Sshd.Out) : String :=
  String.intercalate ";" (sortIncsFirst o.effs ++ [o.res.render])

def handoffOf (s : String) : Sshd.Handoff := if s == "cancel" then .cancel else .ready

/-- trailing `key=value` fields -/
def kv (fs : List String) (k : String) : Option String :=
  fs.findSome? fun f => if f.startsWith (k ++ "=") then some ((f.drop (k.length + 1)).toString) else none

def verdict : Option String → String
  | none => "ok"
  | some c => "FAIL:" ++ c

def parseForm (x : String) : Option (Spec.Form × List Str) :=
  match x.splitOn ":" with
  | [f, fields] => do
    let form ← Spec.Form.ofString f
    let fs ← (if fields == "" then some [] else (fields.splitOn ",").mapM ofHex)
    pure (form, fs)
  | _ => none

/-- the spec of a property of the sshd family on one observation -/
def sshdSpec (prop : String) (pid line : Str) (ok : Bool) (h : Sshd.Handoff)
    (form : Option (Spec.Form × List Str)) (o : Sshd.Out) : Option String :=
  match prop with
  | "C11" => Spec.specC11 sshdCfg pid line ok o
  | "C19" => Spec.specC19 line o
  | "C05" =>
    -- lines reporting failures and unrecognised lines never forward a login: only a line that IS an
    -- "Accepted …" message can (stated on the line itself, independently of the regenerated dispatch)
    if !(Spec.sends o).isEmpty && !((strOf "Accepted publickey").isPrefixOf line || (strOf "Accepted password").isPrefixOf line)
    then some "line-that-is-not-an-accepted-login-forwarded-a-login" else
    match Spec.specC05 pid ok h o with
    | some c => some c
    | none =>
      match form with
      | some (f, fs) =>
        if f.accepted && Spec.inDomain f fs && (match atoi pid with | some n => n > 0 | none => false)
        then Spec.specForm sshdCfg pid f fs ok h o else none
      | none => none
  | "C06" | "C17" =>
    match form with
    | some (f, fs) =>
      -- the theorem's domain; outside it no claim is made (DESIGN C06, "observation outside the domain")
      if Spec.inDomain f fs && Spec.lineOf f fs == some line && (!f.accepted || (atoi pid).isSome)
      then Spec.specForm sshdCfg pid f fs ok h o else none
    | none => some "case-without-form"
  | _ => none

def sshdLine (prop : String) (f : List String) : String :=
  match f with
  | id :: pid :: line :: ok :: h :: rest =>
    match ofHex pid, ofHex line with
    | some p, some l =>
      let okb := ok == "ok"
      let hh := handoffOf h
      let form := (kv rest "form").bind parseForm
      let o := Sshd.process sshdCfg p l okb hh
      let sp := sshdSpec prop p l okb hh form o
      let isp := match kv rest "obs" with
        | none => "-"
        | some x => match Proto.parseOut x with
          | none => "FAIL:unparsable-observation"
          | some io => verdict (sshdSpec prop p l okb hh form io)
      let dom := match form with
        | some (fm, fs) => if Spec.inDomain fm fs && Spec.lineOf fm fs == some l then "1" else "0"
        | none => "-"
      let nt := if (Spec.writes o).isEmpty then "0" else "1"
      s!"{id} {renderOut o} spec={verdict sp} ispec={isp} dom={dom} nt={nt}"
    | _, _ => s!"{id} !badhex"
  | _ => "!badline"

/-- C07: `<id> <pidhex> <padhex> <msghex> <ok|fail> <ready|cancel> [obs=<framed impl obs> dobs=<direct impl obs>]` -/
def c07Line (f : List String) : String :=
  match f with
  | id :: pid :: pad :: msg :: ok :: h :: rest =>
    match ofHex pid, ofHex pad, ofHex msg with
    | some p, some pd, some m =>
      let okb := ok == "ok"
      let hh := handoffOf h
      let direct := Sshd.process sshdCfg p m okb hh
      let framed := Syslog.process sshdCfg (p ++ pd ++ m ++ ['\n']) okb hh
      let sp := if framed = direct then none else some "framed-differs-from-direct"
      let isp := match kv rest "obs", kv rest "dobs" with
        | some a, some b => if a == b then "ok" else "FAIL:framed-differs-from-direct"
        | _, _ => "-"
      let nt := if (Spec.writes direct).isEmpty then "0" else "1"
      -- the domain of `C07.framed_eq_direct`
      let dom := !p.contains ' ' && !p.contains '\n' && !pd.isEmpty && pd.all (· == ' ') &&
        !m.contains '\n' && m.head? != some ' '
      s!"{id} {renderOut framed} spec={verdict sp} ispec={isp} dom={if dom then 1 else 0} nt={nt}"
    | _, _, _ => s!"{id} !badhex"
  | _ => "!badline"

/-- tracker family: `<id> <failat:-|k> <ops> [obs=…]` -/
def trackerSpec (prop : String) (h : List Tr.Op) (failAt : Option Nat) (o : Spec.Tracker.Obs) : Option String :=
  match prop with
  | "C01" => Spec.Tracker.specC01 h o
  | "C02" | "C16" => Spec.Tracker.specC02 h failAt o
  | "C04" => Spec.Tracker.specC04 h o
  | "C09" => Spec.Tracker.specC09 h failAt o
  | "C14" => Spec.Tracker.specC14 h o
  | _ => none

def trackerLine (prop : String) (f : List String) : String :=
  match f with
  | id :: fa :: ops :: rest =>
    match Proto.parseOps ops with
    | none => s!"{id} !badops"
    | some h =>
      let failAt := if fa == "-" then none else fa.toNat?
      let (o, amb) := Spec.Tracker.modelObs failAt h
      let sp := trackerSpec prop h failAt o
      let isp := match kv rest "obs" with
        | none => "-"
        | some x => match Proto.parseTrackerObs x with
          | none => "FAIL:unparsable-observation"
          | some io => verdict (trackerSpec prop h failAt io)
      let dom := match prop with
        | "C01" | "C02" | "C16" => if Spec.Tracker.wfNoReuse h then "1" else "0"
        | "C09" => if Spec.Tracker.wfReuse h && !Spec.Tracker.wfNoReuse h then "1" else "0"
        | _ => "1"
      let sess := (o.acts.map (·.aid)).eraseDups.length
      let nt := if sess ≥ 1 && o.acts.length ≥ 2 then "1" else "0"
      s!"{id} {o.render} spec={verdict sp} ispec={isp} dom={dom} nt={nt} amb={if amb then "1" else "0"}"
  | _ => "!badline"

/-- C12: `<id> <delim dec> <cbfail:-|k> <chunkhex>,… [pauses=…] [obs=…]` -/
def pipeLine (f : List String) : String :=
  match f with
  | id :: d :: fa :: chunks :: rest =>
    match d.toNat?, (chunks.splitOn ",").mapM ofHex with
    | some dn, some cs =>
      let delim := Char.ofNat dn
      let failAt := if fa == "-" then none else fa.toNat?
      let o := Pipe.run delim failAt cs
      let exp := Pipe.expected delim failAt cs.flatten
      let sp := if o = exp then "ok" else "FAIL:model-differs-from-expected"
      let isp := match kv rest "obs" with
        | none => "-"
        | some x => if x == Pipe.render exp then "ok" else
            if (x.splitOn ";").getLast? != (Pipe.render exp |>.splitOn ";").getLast? then "FAIL:result"
            else "FAIL:deliveries"
      let nt := if o.1.length ≥ 2 then "1" else "0"
      s!"{id} {Pipe.render o} spec={sp} ispec={isp} dom=1 nt={nt}"
    | _, _ => s!"{id} !badcase"
  | _ => "!badline"

/-- C20: `<id> <name=hex,…> <op;op;…|-> [obs=…]` -/
def dirLine (f : List String) : String :=
  match f with
  | id :: files :: ops :: rest =>
    let fs := (files.splitOn ",").mapM fun kv =>
      match kv.splitOn "=" with
      | [n, c] => (ofHex c).map fun b => (n.toList, b)
      | _ => none
    -- `early:<n>` (first operation): a write event without a change arrives when the consumer has taken n lines of the
    -- start-up read — the loop model `DirLoop` is run on the corresponding script (the event falls before the completion
    -- of the start-up read that is in flight at that moment, or after start-up)
    let opl := if ops == "-" then [] else ops.splitOn ";"
    let earlyN : Option Nat := match opl with
      | o :: _ => if o.startsWith "early:" then (o.drop 6).toString.toNat? else none
      | [] => none
    let opl := match earlyN with | some _ => opl.drop 1 | none => opl
    let os := opl.mapM fun o =>
      if o == "rot" then some Dir.FsOp.rotate
      else if o == "trunc" then some Dir.FsOp.truncate
      else if o.startsWith "a:" then (ofHex (o.drop 2).toString).map Dir.FsOp.append
      -- an append whose first read attempt fails before any byte was read and is retried: `C20R.retry_after_failed_attempt`
      else if o.startsWith "fa:" || o.startsWith "fo:" then (ofHex (o.drop 3).toString).map Dir.FsOp.append
      else none
    match fs, os with
    | some fs, some os =>
      let o := match earlyN with
        | none => Dir.run fs os
        | some n =>
          let order := Dir.sortNames (fs.map (·.1))
          let counts := order.map fun nm => (DirLoop.linesOf fs nm).length
          -- index of the start-up read in flight once n lines have been taken: the first file whose lines are not all taken
          let rec idx (cs : List Nat) (k acc : Nat) : Option Nat :=
            match cs with
            | [] => none
            | c :: r => if n < acc + c then some k else idx r (k + 1) (acc + c)
          let atK := idx counts 0 0
          let ins : List DirLoop.LIn :=
            ((List.range order.length).flatMap fun k =>
              (if atK == some k then [DirLoop.LIn.spurious] else []) ++ [DirLoop.LIn.done]) ++
            (if atK.isNone then [DirLoop.LIn.spurious] else []) ++ os.map DirLoop.LIn.event
          (DirLoop.run .namesNil fs ins).w.out
      let exp := Dir.expected fs os
      let sp := if o = exp then "ok" else "FAIL:model-differs-from-expected"
      let isp := match kv rest "obs" with
        | none => "-"
        | some x =>
          if x == Dir.render exp then "ok" else
          let got := x.splitOn ";"
          let want := (Dir.render exp).splitOn ";"
          if x.contains '!' then "FAIL:reader-died-or-hung"
          else if got.length < want.length then "FAIL:lines-lost"
          else if got.length > want.length then "FAIL:lines-duplicated-or-partial"
          else "FAIL:wrong-order-or-content"
      let nt := if o.length ≥ 2 && !os.isEmpty then "1" else "0"
      s!"{id} {Dir.render o} spec={sp} ispec={isp} dom=1 nt={nt}"
    | _, _ => s!"{id} !badcase"
  | _ => "!badline"

/-- C18 (sequential): `<id> <op;op;…> [obs=…]` -/
def healthLine (f : List String) : String :=
  match f with
  | id :: ops :: rest =>
    let go := (ops.splitOn ";").foldl (fun (acc : Health.M × List String × Bool) o =>
      let (m, out, okp) := acc
      if o.startsWith "add:" then
        match ofHex (o.drop 4).toString with
        | some c => (Health.apply m (.add c), out, okp)
        | none => (m, out, false)
      else if o.startsWith "ready:" then
        match ofHex (o.drop 6).toString with
        | some c => (Health.apply m (.ready c), out, okp)
        | none => (m, out, false)
      else if o.startsWith "ring:" then
        -- a token ring on a fresh Health, probed by free-running Go routines: the number of "ready" answers. Every state
        -- of the ring has a pending component (`C18R.ring_never_ready`; evaluated here for this ring as well), and a probe
        -- sees one state (`C18.snapshot`): 0
        match (o.splitOn ":") with
        | [_, n, _, _] =>
          match n.toNat? with
          | some nn =>
            let names := (List.range nn).map fun i => s!"r{i}".toList
            (m, out ++ [if C18R.allPending [] (C18R.ringLog names (3 * nn)) then "G:0" else "G:some"], okp)
          | none => (m, out, false)
        | _ => (m, out, false)
      else if o == "get" then (m, out ++ [Health.render (Health.respond m)], okp)
      else if o == "isready" then (m, out ++ [s!"R:{Health.isReady m}"], okp)
      else if o == "wait" then
        -- the waiter model: a tick, then the cancellation and the waiter's `ctx.Done()` arm (a late look changes nothing)
        let r := (Health.wrun { m := m } [.tick, .cancel, .ctxArm, .tick]).res
        (m, out ++ [if r == some .closed then "W:closed" else if r == some .ctxErr then "W:ctxerr" else "W:none"], okp)
      else (m, out, false)) ([], [], true)
    let (_, out, okp) := go
    if !okp then s!"{id} !badcase" else
    let obs := if out.isEmpty then "none" else String.intercalate ";" out
    let isp := match kv rest "obs" with
      | none => "-"
      | some x => if x == obs then "ok" else "FAIL:readiness-answer-differs-from-the-fold-of-the-log"
    s!"{id} {obs} spec=ok ispec={isp} dom=1 nt={if out.length ≥ 2 then "1" else "0"}"
  | _ => "!badline"

/-! ### C03 / C18: concurrent programs — the set of outcomes of all sequential orders -/

/-- all interleavings of the threads' operation lists (each element tagged with its thread) -/
partial def merges {α} (ths : List (List α)) : List (List (Nat × α)) :=
  if ths.all List.isEmpty then [[]] else
  ((List.range ths.length).zip ths).flatMap fun p =>
    match p.2 with
    | [] => []
    | x :: r => (merges (ths.set p.1 r)).map fun m => (p.1, x) :: m

def trackerOutcome (ops : List String) : Option String :=
  let parsed := ((List.range ops.length).zip ops).mapM fun p => Proto.parseOp p.1 p.2
  parsed.map fun h =>
    let st := (Tr.run {} h).1
    if st.out.isEmpty then "-" else
    String.intercalate "," (st.out.map fun em =>
      s!"{em.ev.ts}/{String.ofList ((aLookup "loggedAs" em.login.subjects).getD [])}")

def healthOutcome (nthreads : Nat) (ops : List (Nat × String)) : Option String :=
  let r := ops.foldl (fun (acc : Option (Health.M × List (Nat × String))) o =>
    acc.bind fun (m, ans) =>
      let x := o.2
      if x.startsWith "add:" then (ofHex (x.drop 4).toString).map fun c => (Health.apply m (.add c), ans)
      else if x.startsWith "ready:" then (ofHex (x.drop 6).toString).map fun c => (Health.apply m (.ready c), ans)
      else if x == "get" then some (m, ans ++ [(o.1, Health.render (Health.respond m))])
      else if x == "isready" then some (m, ans ++ [(o.1, s!"R:{Health.isReady m}")])
      else none) (some ([], []))
  r.map fun (_, ans) =>
    let s := String.intercalate "/" ((List.range nthreads).map fun i =>
      String.intercalate "+" ((ans.filter fun a => a.1 == i).map (·.2)))
    if s == "" then "-" else s

def dedupS (l : List String) : List String :=
  (l.toArray.qsort (· < ·)).toList.eraseDups

/-- `<id> <tracker|health> <max> <thread>|<thread>|… [obs=outcomes=…;n=…]` (obs fields joined by `;`) -/
def concLine (f : List String) : String :=
  match f with
  | id :: sys :: _max :: prog :: rest =>
    let ths := (prog.splitOn "|").map fun t => t.splitOn ";"
    let ms := merges ths
    -- `post=op;op`: run sequentially after all threads have finished
    let post := match kv rest "post" with
      | some p => if p == "" then [] else p.splitOn ";"
      | none => []
    let pre := match kv rest "pre" with
      | some p => if p == "" then [] else p.splitOn ";"
      | none => []
    let outs := ms.map fun m =>
      if sys == "tracker" then trackerOutcome (pre ++ m.map (·.2) ++ post)
      else healthOutcome (ths.length + (if post.isEmpty then 0 else 1)) (m ++ post.map fun o => (ths.length, o))
    if outs.any Option.isNone then s!"{id} !badcase" else
    let model := dedupS (outs.filterMap fun o => o)
    let obsFields := ((kv rest "obs").getD "").splitOn ";"
    let implOut := ((kv obsFields "outcomes").getD "").splitOn "~" |>.map fun o => (o.splitOn "@").headD ""
    let exhaustive := kv obsFields "exhaustive" == some "1"
    let haveObs := (kv rest "obs").isSome
    let shown := if !haveObs || exhaustive then model else model.filter fun o => implOut.contains o
    let isp :=
      if !haveObs then "-" else
      if kv obsFields "deadlock" == some "true" then "FAIL:deadlock" else
      match implOut.find? fun o => !(model.contains o) with
      | some o => if o.startsWith "PANIC" then "FAIL:panic" else "FAIL:outcome-of-no-sequential-order"
      | none => if (kv obsFields "shape").isSome then "ok" else "FAIL:unparsable-observation"
    let nt := if model.length ≥ 2 || ms.length ≥ 6 then "1" else "0"
    s!"{id} {String.intercalate "~" shown} spec=ok ispec={isp} dom=1 nt={nt} merges={ms.length}"
  | _ => "!badline"

/-- the reassembler callback handed groups from several Go routines at once: rendering is a function of
(login, event) (C14.render), so every delivery renders as it does sequentially.
`<id> <goroutines> <deliveries> <variant> [obs=…]` -/
def cbLine (f : List String) : String :=
  match f with
  | id :: _ :: _ :: _ :: rest =>
    let isp := match kv rest "obs" with
      | none => "-"
      | some o => if o == "same-as-sequential" then "ok" else "FAIL:concurrent-deliveries-render-differently"
    s!"{id} same-as-sequential spec=ok ispec={isp} dom=1 nt=1"
  | _ => "!badline"

/-- C07, audit side: `<id> <hexline>,<hexline>,… [obs=<direct>~<with newline>~<through the pipe>,…]`.
The model's observation of a line is what `AuditLine.split` makes of it; the implementation's direct
observation `S:<type>|<raw message>|<ns>|<seq>` agrees with it when type name and trimmed message are the
same (a line the header parse rejects — `E` — is consistent with any split). -/
def auLine (f : List String) : String :=
  match f with
  | id :: ls :: rest =>
    let lines := (ls.splitOn ",").map fun h => (ofHex h).getD []
    let obs := match kv rest "obs" with
      | some o => (o.splitOn ",").map fun (t : String) => t.splitOn "~"
      | none => []
    let rend := fun (l : Str) => match AuditLine.split l with
      | none => "E"
      | some (t, m) => s!"S:{toHex t}|{toHex m}"
    let per := (List.range lines.length).map fun i =>
      let l := lines.getD i []
      let m := rend l
      match obs[i]? with
      | some [d, n, p] =>
        -- `UNKNOWN[n]` is how auparse names a numeric type it has no name for, however the line spelled it
        let dparts := (d.drop 2).toString.splitOn "|"
        let mparts := (m.drop 2).toString.splitOn "|"
        let sameMsg := dparts.length ≥ 2 && mparts.length ≥ 2 && dparts[1]? == mparts[1]?
        let consistent := d == "E" || (m != "E" && (d.startsWith m ||
          (sameMsg && (dparts.headD "").startsWith (toHex "UNKNOWN[".toList))))
        let shown := if consistent then d else m
        let v := if n != d then "FAIL:the-terminator-changes-what-the-line-parses-to"
                 else if p != d then "FAIL:the-record-through-the-pipe-parses-differently"
                 else "ok"
        (shown, v, d != "E")
      | _ => (m, "-", m != "E")
    let isp := match per.find? fun x => x.2.1 != "ok" && x.2.1 != "-" with
      | some x => x.2.1
      | none => if obs.isEmpty then "-" else "ok"
    let nl := lines.all fun l => rend (l ++ ['\n']) == rend l
    s!"{id} {String.intercalate "," (per.map (·.1))} spec={if nl then "ok" else "FAIL:model"} ispec={isp} dom=1 nt={if per.any (·.2.2) then "1" else "0"}"
  | _ => "!badline"

/-- C15: `<id> <failat:-|k> <op;op;…> [obs=…]` -/
def apLine (f : List String) : String :=
  match f with
  | id :: fa :: ops :: rest =>
    match Spec.AP.parseIns ops with
    | none => s!"{id} !badops"
    | some ins =>
      let failAt := if fa == "-" then none else fa.toNat?
      -- `after=<seq>`: events stamped before that instant are ignored (`Auditd.After`)
      let cfg : AP.Cfg := match (kv rest "after").bind String.toNat? with
        | some n => if n > 0 then { after := Spec.AP.tsOf n } else {}
        | none => {}
      let (o, amb, forced) := Spec.AP.modelObs cfg failAt ins
      let sp := Spec.AP.specC15 cfg failAt ins o
      let isp := match kv rest "obs" with
        | none => "-"
        | some x => match Spec.AP.parseObs x with
          | none => "FAIL:unparsable-observation"
          | some io => verdict (Spec.AP.specC15 cfg failAt ins io)
      let dom := if Spec.AP.noForce cfg ins && !forced then "1" else "0"
      let nt := if o.acts.length ≥ 2 || o.err != "ctx" then "1" else "0"
      s!"{id} {o.render} spec={verdict sp} ispec={isp} dom={dom} nt={nt} amb={if amb then "1" else "0"}"
  | _ => "!badline"

/-! ### C13 / C08: worker automata instantiated from the regenerated blocking facts -/

def wkCore : Wk.Core := Wk.fromGen.core

def phaseOf : String → Option Wk.IPhase
  | "opening" | "precancelled" => some .opening | "reading" => some .reading | "handing" => some .handing | _ => none

/-- `R:<returned>:<late deliveries>:<non-nil error>:<was blocked>` must be `R:1:0:1:1` -/
def specWorkers (obs : String) : Option String :=
  match obs.splitOn ":" with
  | ["R", r, late, err, blocked] =>
    if blocked != "1" then some "returned-before-cancellation"
    else if r != "1" then some "did-not-return-after-cancellation"
    else if late != "0" then some "delivered-after-returning"
    else if err != "1" then some "returned-nil"
    else none
  | _ => some "unparsable-observation"

/-- C13: `<id> <audit|sshd|proc> <state> <cap> <fill> [obs=…]` -/
def workersLine (f : List String) : String :=
  match f with
  | id :: worker :: state :: cap :: fill :: rest =>
    match cap.toNat?, fill.toNat? with
    | some c, some n =>
      let settles : Option Bool :=
        if worker == "proc" then
          let p := if state == "busy" then Wk.GPhase.busy else Wk.GPhase.idle
          some (Wk.rsettles wkCore true 8 ⟨.selecting, p, .idle, false, false⟩)
        else
          (phaseOf state).map fun ph =>
            Wk.isettles wkCore (if worker == "audit" then .audit else .sshd) true c 3 ⟨ph, min n c⟩
      match settles with
      | none => s!"{id} !badcase"
      | some ok =>
        let obs := if ok then "R:1:0:1:1" else "R:0:0:0:1"
        let isp := match kv rest "obs" with
          | none => "-"
          | some x => verdict (specWorkers x)
        s!"{id} {obs} spec={verdict (specWorkers obs)} ispec={isp} dom=1 nt=1"
    | _, _ => s!"{id} !badcase"
  | _ => "!badline"

def groupOf (cause : String) (load : Bool) : Option Wk.Group :=
  let cap := Gen.auditLogChanCap
  let auditBusy : Wk.IS := if load then ⟨.handing, cap⟩ else ⟨.reading, 0⟩
  let procBusy : Wk.RS := ⟨.selecting, if load then .busy else .idle, .idle, false, false⟩
  match cause with
  | "eof-sshd" | "notfifo-sshd" | "writeerr" => some ⟨⟨.returned true, 0⟩, auditBusy, procBusy, false⟩
  | "eof-audit" | "notfifo-audit" => some ⟨⟨.reading, 0⟩, ⟨.returned true, if load then cap else 0⟩, procBusy, false⟩
  | "badline" | "writeerr-audit" | "writeerr-audit-burst" => some ⟨⟨.reading, 0⟩, auditBusy, { procBusy with main := .failing }, false⟩
  | "sigterm" | "sigint" => some ⟨⟨.reading, 0⟩, auditBusy, procBusy, true⟩
  | _ => none

def specDaemon (obs : String) : Option String :=
  match obs.splitOn ":" with
  | ["X", exited, nonzero] =>
    if exited != "1" then some "daemon-kept-running"
    else if nonzero != "1" then some "exit-status-zero"
    else none
  | _ => some "unparsable-observation"

/-- C08: `<id> <cause> <load 0|1> [obs=…]` -/
def daemonLine (f : List String) : String :=
  match f with
  | id :: cause :: load :: rest =>
    match groupOf cause (load == "1") with
    | none => s!"{id} !badcase"
    | some g =>
      let ok := g.cancelled &&
        Wk.isettles wkCore .sshd true 0 3 g.sshdIng &&
        Wk.isettles wkCore .audit true Gen.auditLogChanCap 3 g.auditIng &&
        Wk.rsettles wkCore (g.proc.main != .failing) 8 g.proc
      let nz := Wk.exitNonZero Wk.fromGen true
      let obs := s!"X:{if ok then 1 else 0}:{if nz then 1 else 0}"
      let isp := match kv rest "obs" with
        | none => "-"
        | some x => verdict (specDaemon x)
      s!"{id} {obs} spec={verdict (specDaemon obs)} ispec={isp} dom=1 nt=1"
  | _ => "!badline"

/-! ### C10: the hand-off composition -/

structure HSess where
  pid : Int
  ses : String
  k   : Nat        -- commands between the LOGIN and the CRED_DISP record
  base : Nat       -- first sequence number of the session's records

def parseSess (x : String) : Option HSess :=
  match x.splitOn ":" with
  | [pid, ses, k, base] => do
    let p ← pid.toInt?
    let kk ← k.toNat?
    let b ← base.toNat?
    pure ⟨p, ses, kk, b⟩
  | _ => none

def hoLogin (s : HSess) : Tr.Login := Spec.AP.mkLogin s.pid (strOf "unknown") true (toString s.pid)

def hoEvents (s : HSess) : List (Tr.AEvent × Tr.Time) :=
  let mk := fun (i : Nat) (typ : Tr.EvType) =>
    (({ ts := 1600000000 + (s.base + i : Nat), ses := strOf s.ses, typ := typ, pidTok := strOf (toString s.pid),
        result := strOf "success", action := [], how := [], object := [], args := [] } : Tr.AEvent), ((s.base + i : Nat) : Int))
  [mk 0 .login] ++ (List.range s.k).map (fun i => mk (i + 1) .other) ++ [mk (s.k + 1) .credDisp]

def hoItem : HO.Item → String
  | .login l => s!"L:{l.pid}"
  | .action em => s!"A:{String.ofList em.ev.ses}:{em.ev.ts}"

/-- C10 on the sequence of lines of the output file -/
def noiseItems (n : Nat) : List String := (List.range n).map fun i => s!"F:{20000 + i}"

def specHandoff (ss : List HSess) (noise : Nat) (torn : String) (raw : List String) : Option String :=
  let expected := (ss.flatMap fun s => s!"L:{s.pid}" :: (hoEvents s).map fun e => s!"A:{s.ses}:{e.1.ts}") ++ noiseItems noise
  -- (hash sets: the observations of the saturated cases have tens of thousands of lines)
  let expectedSet : Std.HashSet String := Std.HashSet.ofList expected
  let rawSet : Std.HashSet String := Std.HashSet.ofList raw
  if torn != "0" then some "torn-or-interleaved-line"
  else if rawSet.size ≠ raw.length then some "event-written-twice"
  else if !(raw.all fun x => expectedSet.contains x) then some "unexpected-event"
  else
    -- causal order: a UserAction of session s comes after the UserLogin of s's login
    let idx := (List.range raw.length).zip raw
    let bad := ss.any fun s =>
      let li := idx.find? fun p => p.2 == s!"L:{s.pid}"
      idx.any fun p => p.2.startsWith s!"A:{s.ses}:" && (match li with | some q => p.1 < q.1 | none => true)
    if bad then some "action-before-its-login"
    else
      -- per session: in processing order
      let unordered := ss.any fun s =>
        let mine := raw.filter fun x => x.startsWith s!"A:{s.ses}:"
        let want := (hoEvents s).map fun e => s!"A:{s.ses}:{e.1.ts}"
        mine != want.filter fun x => mine.contains x
      if unordered then some "session-events-out-of-order"
      else if !(expected.all fun x => rawSet.contains x) then some "event-missing"
      else none

/-- `<id> <mode> <sess,sess,…> <delays> [obs=T:n;sorted items] [raw=T:n|items in file order]` -/
def handoffLine (f : List String) : String :=
  match f with
  | id :: _mode :: sess :: _delays :: rest =>
    match (sess.splitOn ",").mapM parseSess with
    | none => s!"{id} !badcase"
    | some ss =>
      -- the assembled daemon model (`AM.Model.Daemon`): the records the harness writes to the sshd
      -- pipe go through `Sshd.process` (regenerated expressions), the audit records through the
      -- audit-processor model with the tracker inside; canonical schedule (the compared observation
      -- is the multiset of output lines, which does not depend on the schedule)
      let noise := ((kv rest "noise").bind String.toNat?).getD 0
      let per := if ss.isEmpty then 0 else noise / ss.length
      let sshdMsg := fun (s : HSess) =>
        let p := s.pid.toNat
        strOf s!"Accepted publickey for user{p} from 10.0.{p / 250}.{p % 250} port {1024 + p % 60000} ssh2: ED25519 SHA256:abcdefghijklmnopqrstuvwxyz0123456789ABCDEFG"
      let noiseMsg := fun (i : Nat) => strOf s!"Invalid user n{i} from 10.1.1.1 port {20000 + i}"
      let idx := (List.range ss.length).zip ss
      let sshdRecs : List (Str × Str × Bool) := idx.flatMap fun (i, s) =>
        let lo := i * per
        let hi := if i + 1 == ss.length then noise else (i + 1) * per
        (strOf (toString s.pid), sshdMsg s, true) ::
          ((List.range (hi - lo)).map fun j => (strOf "5", noiseMsg (lo + j), true))
      let auditIns : List AP.In := (ss.flatMap hoEvents).map fun (e, _) =>
        AP.In.line [] (some { seq := (e.ts - 1600000000).toNat, kind := .single, tag := 0, ts := e.ts, typ := e.typ,
                              ses := e.ses, pidTok := e.pidTok, result := e.result, args := [] })
      let st0 : Dm.St := { sshdTodo := sshdRecs, auditTodo := auditIns }
      let sched := (sshdRecs.flatMap fun _ => [Dm.Act.sshdLine false, Dm.Act.handoff]) ++ auditIns.map fun _ => Dm.Act.audit
      let fin := Dm.run sshdCfg {} st0 sched
      let items := fin.out.map fun it => match it with
        | .sshd e =>
          if e.outcome == "succeeded" then "L:" ++ String.ofList ((aLookup "pid" e.subjects).getD [])
          else "F:" ++ String.ofList ((aLookup "port" e.srcExtra).getD [])
        | .action em => s!"A:{String.ofList em.ev.ses}:{em.ev.ts}"
      let sorted := (items.toArray.qsort (· < ·)).toList
      let obs := String.intercalate ";" ("T:0" :: sorted)
      let sp := specHandoff ss noise "0" items
      let isp := match kv rest "raw" with
        | none => "-"
        | some x =>
          match x.splitOn "|" with
          | [t, its] =>
            let raw := if its == "" then [] else its.splitOn ";"
            verdict (specHandoff ss noise ((t.drop 2).toString) raw)
          | _ => "FAIL:unparsable-observation"
      s!"{id} {obs} spec={verdict sp} ispec={isp} dom=1 nt={if ss.length ≥ 2 then 1 else 0}"
  | _ => "!badline"

/-- the reassembler model alone: `<id> <max> <timeout_ms> <op;op;…> [obs=…]`; ops `N:…` (as in the
audit-processor protocol), `W` (everything in flight expires, `Maintain`), `M` (`Maintain`) -/
def reasmLine (f : List String) : String :=
  match f with
  | id :: max :: _to :: ops :: rest =>
    match max.toNat?, Spec.AP.parseIns ops with
    | some mx, some ins =>
      let render := fun (g : List AP.Rec) => "G:" ++ String.intercalate "," (g.map fun r => toString r.tag)
      let (fl, out) := ins.foldl (fun (acc : List (Nat × AP.Entry) × List String) i =>
        match i with
        | .line _ (some r) =>
          let (fl', gs, _) := AP.cleanUp mx false (AP.put acc.1 r)
          (fl', acc.2 ++ gs.map render)
        | .expire =>
          let (fl', gs, _) := AP.cleanUp mx true acc.1
          (fl', acc.2 ++ gs.map render)
        | _ =>
          let (fl', gs, _) := AP.cleanUp mx false acc.1
          (fl', acc.2 ++ gs.map render)) ([], [])
      let all := out ++ ["|"] ++ (AP.clear fl).map render
      let obs := String.intercalate ";" all
      -- the property on an observation: every non-EOE record in exactly one group; a group holds one sequence number
      let recs := Spec.AP.recsOf ins
      let judge := fun (x : String) =>
        let gs := (x.splitOn ";").filter (· != "|")
        let tags := gs.flatMap fun g => ((g.drop 2).toString.splitOn ",").filterMap String.toNat?
        let want := (recs.filter (·.kind != .eoe)).map (·.tag)
        if tags.length != tags.eraseDups.length then some "record-in-two-groups"
        else if !(want.all tags.contains) then some "record-lost"
        else if !(tags.all want.contains) then some "unknown-record"
        else
          let mixed := gs.any fun g =>
            let ts := ((g.drop 2).toString.splitOn ",").filterMap String.toNat?
            let seqs := ts.filterMap fun t => (recs.find? (·.tag == t)).map (·.seq)
            seqs.eraseDups.length > 1
          if mixed then some "group-mixes-events" else none
      let isp := match kv rest "obs" with
        | none => "-"
        | some x => verdict (judge x)
      s!"{id} {obs} spec={verdict (judge obs)} ispec={isp} dom=1 nt={if out.length ≥ 2 then 1 else 0}"
    | _, _ => s!"{id} !badcase"
  | _ => "!badline"

/-- C07 at FIFO level: `<id> <ok|fail> <chunkhex,…> [pauses=…] [obs=…]` — the records of the
concatenated stream (any chunking), each through the syslog ingester model, until the first error -/
def c07fifoLine (f : List String) : String :=
  match f with
  | id :: ok :: chunks :: rest =>
    match (chunks.splitOn ",").mapM ofHex with
    | none => s!"{id} !badhex"
    | some cs =>
      let okb := ok == "ok"
      let recs := (Pipe.recordsFast '\n' [] cs.flatten).1
      let (effs, res) := recs.foldl (fun (acc : List Sshd.Eff × Option String) r =>
        match acc.2 with
        | some _ => acc
        | none =>
          let o := Syslog.process sshdCfg r okb .ready
          (acc.1 ++ o.effs, match o.res with | .nil => none | x => some x.render)) ([], none)
      let obs := String.intercalate ";" (sortIncsFirst effs ++ [res.getD "R:eof"])
      -- the same stream handed over record by record, directly (pid, message) — the property itself
      let direct := recs.foldl (fun (acc : List Sshd.Eff × Option String) r =>
        match acc.2 with
        | some _ => acc
        | none =>
          let (pid, msg) := Syslog.parse r
          let o := Sshd.process sshdCfg pid msg okb .ready
          (acc.1 ++ o.effs, match o.res with | .nil => none | x => some x.render)) ([], none)
      let dobs := String.intercalate ";" (sortIncsFirst direct.1 ++ [direct.2.getD "R:eof"])
      let isp := match kv rest "obs" with
        | none => "-"
        | some x => if x == dobs then "ok" else "FAIL:delivered-through-the-pipe-differs-from-direct"
      s!"{id} {obs} spec={if obs == dobs then "ok" else "FAIL:model"} ispec={isp} dom=1 nt={if effs.length ≥ 2 then 1 else 0}"
  | _ => "!badline"

/-- C16 in real time: `<id> <gap_s> <noise_s> [obs=C:n]` — with the extracted ticker period `I` and cut-off:
halves at most `I` apart are correlated (all 3 events of the session emitted), halves more than `2·I`
apart are not (nothing emitted); in between either (`window_daemon`) -/
def timedLine (f : List String) : String :=
  match f with
  | id :: gap :: _noise :: rest =>
    match gap.toNat? with
    | none => s!"{id} !badcase"
    | some g =>
      let i : Int := Gen.cleanupTickerNs
      let back : Int := Gen.cleanupCutoffBackNs
      let gns : Int := (g : Int) * 1000000000
      let want := if gns ≤ back then "C:3" else if gns > i + back then "C:0" else "C:*"
      let isp := match kv rest "obs" with
        | none => "-"
        | some x => if want == "C:*" || x == want then "ok" else
            (if want == "C:3" then "FAIL:halves-within-the-window-not-correlated" else "FAIL:stale-half-correlated-after-the-window")
      s!"{id} {want} spec=ok ispec={isp} dom=1 nt=1"
  | _ => "!badline"

partial def loop (h : IO.FS.Stream) (out : IO.FS.Stream) (f : List String → String) : IO Unit := do
  let line ← h.getLine
  if line.isEmpty then return ()
  let fs := (line.trimAscii.toString.splitOn " ").filter (· ≠ "")
  if !fs.isEmpty then out.putStrLn (f fs)
  loop h out f

def main (args : List String) : IO UInt32 := do
  let stdin ← IO.getStdin
  let stdout ← IO.getStdout
  match args with
  | ["sshd", prop] => loop stdin stdout (sshdLine prop); return 0
  | ["c07fifo"] => loop stdin stdout c07fifoLine; return 0
  | ["c07"] => loop stdin stdout c07Line; return 0
  | ["conc"] => loop stdin stdout concLine; return 0
  | ["cbconc"] => loop stdin stdout cbLine; return 0
  | ["auline"] => loop stdin stdout auLine; return 0
  | ["health"] => loop stdin stdout healthLine; return 0
  | ["dir"] => loop stdin stdout dirLine; return 0
  | ["pipe"] => loop stdin stdout pipeLine; return 0
  | ["timed"] => loop stdin stdout timedLine; return 0
  | ["reasm"] => loop stdin stdout reasmLine; return 0
  | ["handoff"] => loop stdin stdout handoffLine; return 0
  | ["workers"] => loop stdin stdout workersLine; return 0
  | ["daemon"] => loop stdin stdout daemonLine; return 0
  | ["auditproc"] => loop stdin stdout apLine; return 0
  | ["tracker", prop] => loop stdin stdout (trackerLine prop); return 0
  | _ => IO.eprintln "usage: amdriver <mode> [property]"; return 2
