import AM.Basic
