-- This module serves as the root of the `AM` library.
-- Import modules here that should be built as part of the library.
import AM.Basic
