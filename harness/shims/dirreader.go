//go:build verif

// In-memory file system and watcher for the verification harness. This file lives under
// /verif/harness/shims and is overlaid into the dirreader package at build time
// (go build -overlay); it is not part of the repository.
package dirreader

import (
	"bytes"
	"context"
	"io/fs"
	"os"
	"sync"
	"syscall"
	"time"

	"github.com/fsnotify/fsnotify"
)

type VerifFS struct {
	mu    sync.Mutex
	Files map[string][]byte
	// transient faults: the next Open fails once / the first Read of the file opened next fails once (EIO)
	FailOpen, FailRead int
}

// Arm makes the next Open (open=true) or the first Read of the next opened file fail once.
func (v *VerifFS) Arm(open bool) {
	v.mu.Lock()
	defer v.mu.Unlock()
	if open {
		v.FailOpen++
	} else {
		v.FailRead++
	}
}

func (v *VerifFS) Set(p string, b []byte) {
	v.mu.Lock()
	defer v.mu.Unlock()
	v.Files[p] = b
}

func (v *VerifFS) Get(p string) []byte {
	v.mu.Lock()
	defer v.mu.Unlock()
	return v.Files[p]
}

func (v *VerifFS) Del(p string) {
	v.mu.Lock()
	defer v.mu.Unlock()
	delete(v.Files, p)
}

type verifFile struct {
	r    *bytes.Reader
	fail bool
}

type verifStat struct{ sz int64 }

func (s verifStat) Name() string       { return "x" }
func (s verifStat) Size() int64        { return s.sz }
func (s verifStat) Mode() fs.FileMode  { return 0 }
func (s verifStat) ModTime() time.Time { return time.Time{} }
func (s verifStat) IsDir() bool        { return false }
func (s verifStat) Sys() any           { return nil }

func (v *VerifFS) Open(p string) (statReadSeekCloser, error) {
	v.mu.Lock()
	defer v.mu.Unlock()
	b, ok := v.Files[p]
	if !ok {
		return nil, os.ErrNotExist
	}
	if v.FailOpen > 0 {
		v.FailOpen--
		return nil, syscall.EIO
	}
	f := &verifFile{r: bytes.NewReader(append([]byte(nil), b...))}
	if v.FailRead > 0 {
		v.FailRead--
		f.fail = true
	}
	return f, nil
}

func (f *verifFile) Stat() (fs.FileInfo, error) { return verifStat{f.r.Size()}, nil }
func (f *verifFile) Read(p []byte) (int, error) {
	if f.fail {
		f.fail = false
		return 0, syscall.EIO
	}
	return f.r.Read(p)
}
func (f *verifFile) Seek(o int64, w int) (int64, error) { return f.r.Seek(o, w) }
func (f *verifFile) Close() error                       { return nil }

type VerifWatcher struct{ Ch chan fsnotify.Event }

func (w *VerifWatcher) Events() <-chan fsnotify.Event { return w.Ch }
func (w *VerifWatcher) Close() error                  { return nil }

type verifDirEntry struct{ n string }

func (o verifDirEntry) Name() string               { return o.n }
func (o verifDirEntry) IsDir() bool                { return false }
func (o verifDirEntry) Type() fs.FileMode          { return 0 }
func (o verifDirEntry) Info() (fs.FileInfo, error) { return nil, nil }

// VerifNew starts a LogDirReader over the in-memory file system, as StartLogDirReader does
// over the real one.
func VerifNew(ctx context.Context, v *VerifFS, w *VerifWatcher, dir string, names []string) *LogDirReader {
	var es []os.DirEntry
	for _, n := range names {
		es = append(es, verifDirEntry{n})
	}
	r := &LogDirReader{
		dirPath:       dir,
		initFileNames: sortLogNamesOldToNew(es),
		watcher:       w,
		fs:            v,
		lines:         make(chan string),
		initFilesDone: make(chan struct{}),
		done:          make(chan struct{}),
	}
	go r.loop(ctx)
	return r
}

// VerifDone is closed when the reader's loop has exited.
func VerifDone(r *LogDirReader) <-chan struct{} { return r.done }
