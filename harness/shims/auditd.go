//go:build verif

// Access to the audit processor's reassembler callback for the verification harness. This file lives
// under /verif/harness/shims and is overlaid into the auditd package at build time (go build -overlay);
// it is not part of the repository.
package auditd

import (
	"time"

	libaudit "github.com/elastic/go-libaudit/v2"

	"github.com/metal-toolbox/audito-maldito/processors/auditd/sessiontracker"
)

// VerifNewCallback: the callback Auditd.Read hands to the reassembler, wired as Read wires it.
func VerifNewCallback(au sessiontracker.Auditor, errs chan<- error, after time.Time) libaudit.Stream {
	return &reassemblerCB{au: au, errors: errs, after: after}
}
