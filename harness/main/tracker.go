package main

import (
	"bufio"
	"errors"
	"fmt"
	"strconv"
	"strings"
	"sync"
	"time"

	"github.com/elastic/go-libaudit/v2/aucoalesce"
	"github.com/elastic/go-libaudit/v2/auparse"
	"github.com/metal-toolbox/auditevent"
	"go.uber.org/zap"

	"github.com/metal-toolbox/audito-maldito/internal/common"
	"github.com/metal-toolbox/audito-maldito/processors/auditd/sessiontracker"
)

// trackerAPI is the exported surface of the session tracker the harness uses.
type trackerAPI interface {
	RemoteLogin(common.RemoteUserLogin) error
	AuditdEvent(*aucoalesce.Event) error
	DeleteUsersWithoutLoginsBefore(time.Time)
	DeleteRemoteUserLoginsBefore(time.Time)
}

// actionLog records UserAction events at the encoder; the k-th Encode call fails if failAt == k.
type actionLog struct {
	mu     sync.Mutex
	out    []string
	calls  int
	failAt int
	cur    int // index of the operation being executed
}

func renderObject(v any) (string, bool) {
	if o, ok := v.(aucoalesce.Object); ok {
		return o.Type + "\x00" + o.Primary + "\x00" + o.Secondary, true
	}
	return "", false
}

func renderAction(e *auditevent.AuditEvent) string {
	extra := map[string]string{}
	for k, v := range e.Metadata.Extra {
		if s, ok := renderObject(v); ok {
			extra[k] = s
			continue
		}
		for kk, vv := range anyMap(map[string]any{k: v}) {
			extra[kk] = vv
		}
	}
	data := "-"
	if e.Data != nil {
		data = "!data"
	}
	body := strings.Join([]string{e.Type, e.Outcome, e.Component, hx(e.Source.Type), hx(e.Source.Value),
		renderMap(anyMap(e.Source.Extra)), renderMap(e.Subjects), renderMap(e.Target), data, renderMap(extra)}, "|")
	return fmt.Sprintf("A:%s|%s|%d", body, hx(e.Metadata.AuditID), e.LoggedAt.Unix())
}

func (l *actionLog) Encode(v any) error {
	l.mu.Lock()
	defer l.mu.Unlock()
	k := l.calls
	l.calls++
	if k == l.failAt {
		return errInjected
	}
	if e, ok := v.(*auditevent.AuditEvent); ok {
		l.out = append(l.out, fmt.Sprintf("%s@%d", renderAction(e), l.cur))
	} else {
		l.out = append(l.out, "!notevent")
	}
	return nil
}

// clock hands out strictly increasing wall-clock instants.
type clock struct{ last time.Time }

func (c *clock) tick() time.Time {
	for {
		t := time.Now()
		if t.After(c.last) {
			c.last = t
			return t
		}
	}
}

func evTime(ts int64) time.Time { return time.Unix(ts, 0).UTC() }

func mkLogin(pid int, cred string, hasSource bool, loggedAt time.Time, tag string) common.RemoteUserLogin {
	l := common.RemoteUserLogin{PID: pid, CredUserID: cred}
	if hasSource {
		ev := auditevent.NewAuditEvent(common.ActionLoginIdentifier,
			auditevent.EventSource{Type: "IP", Value: "10.0.0." + tag, Extra: map[string]any{"port": tag}},
			auditevent.OutcomeSucceeded,
			map[string]string{"loggedAs": "user" + tag, "userID": cred, "pid": strconv.Itoa(pid)}, "sshd").
			WithTarget(map[string]string{"host": nodeName, "machine-id": machineID})
		ev.LoggedAt = loggedAt
		l.Source = ev
	}
	return l
}

func mkEvent(ts int64, ses, typ, pidTok, result string, nargs int) *aucoalesce.Event {
	e := &aucoalesce.Event{Timestamp: evTime(ts), Session: ses, Result: result}
	switch typ {
	case "l":
		e.Type = auparse.AUDIT_LOGIN
	case "d":
		e.Type = auparse.AUDIT_CRED_DISP
	default:
		e.Type = auparse.AUDIT_USER_CMD
	}
	e.Process.PID = pidTok
	t := strconv.FormatInt(ts, 10)
	e.Summary.Action = "act" + t
	e.Summary.How = "how" + t
	e.Summary.Object = aucoalesce.Object{Type: "file", Primary: "/p/" + t}
	for i := 0; i < nargs; i++ {
		e.Process.Args = append(e.Process.Args, "arg"+strconv.Itoa(i)+" "+t)
	}
	// the fields the correlator does not read vary from event to event (derived from the time stamp): code that starts
	// to depend on one of them no longer behaves like the model
	h := uint64(ts)*0x9E3779B97F4A7C15 + uint64(len(ses))
	pick := func(xs ...string) string {
		h = h*6364136223846793005 + 1442695040888963407
		return xs[(h>>33)%uint64(len(xs))]
	}
	e.Process.Exe = pick("", "/usr/sbin/sshd", "/usr/sbin/sshd-session", "/usr/sbin/sshd (deleted)", "/usr/bin/sudo", "/bin/bash", "/usr/bin/su")
	e.Process.Name = pick("", "sshd", "sudo", "bash", "cron")
	e.Process.CWD = pick("", "/", "/root", "/home/u")
	e.Process.PPID = pick("", "1", "4242", pidTok)
	e.Process.Title = pick("", "sshd: u [priv]", "-bash")
	e.Category = aucoalesce.AuditEventType(h >> 50 % 12)
	e.Sequence = uint32(h >> 40)
	e.Summary.Actor = aucoalesce.Actor{Primary: pick("", "root", "u", "unset"), Secondary: pick("", "root", "u")}
	e.User.IDs = map[string]string{"auid": pick("1000", "unset", "0"), "uid": pick("0", "1000")}
	e.Tags = []string{pick("", "operator-commands", "k")}
	e.Data = map[string]string{"terminal": pick("ssh", "pts/0", "cron"), "op": pick("PAM:setcred", "login", "")}
	return e
}

func errKind(err error) string {
	if err == nil {
		return "nil"
	}
	var ve *common.RemoteUserLoginValidateError
	if errors.As(err, &ve) {
		return "badLogin"
	}
	if errors.Is(err, errInjected) {
		return "write"
	}
	if errors.Is(err, strconv.ErrSyntax) || errors.Is(err, strconv.ErrRange) {
		return "badPid"
	}
	return "other"
}

// runTracker executes ops (protocol of DESIGN appendix A, tracker line) against a fresh tracker.
func runTracker(failAt int, ops []string) string {
	log := &actionLog{failAt: failAt}
	var tr trackerAPI = sessiontracker.NewSessionTracker(auditevent.NewAuditEventWriter(log), zap.NewNop().Sugar())
	clk := &clock{}
	var instants []time.Time // instants[k] = captured after op k
	ref := func(r string, k int) time.Time {
		switch {
		case r == "z":
			return time.Unix(0, 0)
		case r == "f":
			return time.Now().Add(1000 * time.Hour)
		case r == "n":
			if k == 0 {
				return time.Unix(1, 0)
			}
			return instants[k-1]
		case strings.HasPrefix(r, "i"):
			i, _ := strconv.Atoi(r[1:])
			if i < len(instants) {
				return instants[i]
			}
			return time.Now().Add(1000 * time.Hour)
		}
		panic("bad time ref " + r)
	}
	res := "E:nil@-"
	for k, op := range ops {
		f := strings.Split(op, ":")
		var err error
		log.mu.Lock()
		log.cur = k
		log.mu.Unlock()
		clk.tick()
		switch f[0] {
		case "L":
			pid, _ := strconv.Atoi(f[1])
			err = tr.RemoteLogin(mkLogin(pid, unhex(f[2]), f[3] == "1", ref(f[4], k), f[5]))
		case "A":
			ts, _ := strconv.ParseInt(f[1], 10, 64)
			n, _ := strconv.Atoi(f[6])
			err = tr.AuditdEvent(mkEvent(ts, unhex(f[2]), f[3], unhex(f[4]), unhex(f[5]), n))
		case "S":
			tr.DeleteUsersWithoutLoginsBefore(ref(f[1], k))
		case "R":
			tr.DeleteRemoteUserLoginsBefore(ref(f[1], k))
		default:
			panic("bad op " + op)
		}
		instants = append(instants, clk.tick())
		if err != nil {
			res = fmt.Sprintf("E:%s@%d", errKind(err), k)
			break
		}
	}
	log.mu.Lock()
	defer log.mu.Unlock()
	return strings.Join(append(append([]string{}, log.out...), res), ";")
}

func init() {
	// tracker <id> <failat:-|k> <op>;<op>;…
	modes["tracker"] = func(in *bufio.Scanner, out *bufio.Writer) {
		for in.Scan() {
			f := strings.Fields(in.Text())
			if len(f) < 3 {
				continue
			}
			failAt := -1
			if f[1] != "-" {
				failAt, _ = strconv.Atoi(f[1])
			}
			func() {
				defer func() {
					if r := recover(); r != nil {
						fmt.Fprintf(out, "%s E:panic\n", f[0])
					}
				}()
				fmt.Fprintf(out, "%s %s\n", f[0], runTracker(failAt, strings.Split(f[2], ";")))
			}()
		}
	}
}
