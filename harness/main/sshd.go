package main

import (
	"bufio"
	"context"
	"encoding/json"
	"errors"
	"fmt"
	"os"
	"regexp"
	"sort"
	"strconv"
	"strings"
	"sync"
	"time"

	"github.com/metal-toolbox/auditevent"
	"github.com/prometheus/client_golang/prometheus"
	"go.uber.org/zap"

	"github.com/metal-toolbox/audito-maldito/ingesters/namedpipe"
	"github.com/metal-toolbox/audito-maldito/ingesters/syslog"
	"github.com/metal-toolbox/audito-maldito/internal/common"
	"github.com/metal-toolbox/audito-maldito/internal/health"
	"github.com/metal-toolbox/audito-maldito/internal/metrics"
	"github.com/metal-toolbox/audito-maldito/processors/sshd"
)

const nodeName = "node-1"
const machineID = "0123456789abcdef0123456789abcdef"

var uuidRE = regexp.MustCompile(`^[0-9a-f]{8}-[0-9a-f]{4}-[0-9a-f]{4}-[0-9a-f]{4}-[0-9a-f]{12}$`)

func anyMap(m map[string]any) map[string]string {
	out := map[string]string{}
	for k, v := range m {
		switch x := v.(type) {
		case string:
			out[k] = x
		case []string:
			out[k] = strings.Join(x, "\x00")
		default:
			b, _ := json.Marshal(v)
			out[k] = string(b)
		}
	}
	return out
}

func renderEvent(e *auditevent.AuditEvent) string {
	data := "-"
	if e.Data != nil {
		var m map[string]string
		if err := json.Unmarshal(*e.Data, &m); err != nil {
			data = "!baddata"
		} else {
			data = renderMap(m)
		}
	}
	return strings.Join([]string{e.Type, e.Outcome, e.Component, hx(e.Source.Type), hx(e.Source.Value),
		renderMap(anyMap(e.Source.Extra)), renderMap(e.Subjects), renderMap(e.Target), data,
		renderMap(anyMap(e.Metadata.Extra))}, "|")
}

// effectLog records writes and hand-offs in the order they happen.
type effectLog struct {
	mu      sync.Mutex
	effs    []string
	last    *auditevent.AuditEvent
	failAll bool
	flags   []string
}

var errInjected = errors.New("injected write failure")

func (l *effectLog) Encode(v any) error {
	e, ok := v.(*auditevent.AuditEvent)
	l.mu.Lock()
	defer l.mu.Unlock()
	if !ok {
		l.flags = append(l.flags, "!notevent")
		return nil
	}
	l.last = e
	if l.failAll {
		l.effs = append(l.effs, "W:fail:"+renderEvent(e))
		return errInjected
	}
	l.effs = append(l.effs, "W:ok:"+renderEvent(e))
	return nil
}

func gatherIncs(reg *prometheus.Registry) []string {
	var out []string
	mfs, _ := reg.Gather()
	for _, mf := range mfs {
		if mf.GetName() != "audito_maldito_remote_logins_total" {
			continue
		}
		for _, m := range mf.GetMetric() {
			var method, outcome string
			for _, lp := range m.GetLabel() {
				if lp.GetName() == "method" {
					method = lp.GetValue()
				}
				if lp.GetName() == "outcome" {
					outcome = lp.GetValue()
				}
			}
			n := int(m.GetCounter().GetValue())
			for i := 0; i < n; i++ {
				out = append(out, "I:"+method+":"+outcome)
			}
		}
	}
	sort.Strings(out)
	return out
}

// ctxProxy stands between the syslog ingester and the real processor and looks at the context the
// ingester passes on (the caller's context has no deadline)
type ctxProxy struct {
	inner    sshd.SshdProcessor
	deadline bool
}

func (p *ctxProxy) ProcessSshdLogEntry(ctx context.Context, sm sshd.SshdLogEntry) error {
	if _, has := ctx.Deadline(); has {
		p.deadline = true
	}
	return p.inner.ProcessSshdLogEntry(ctx, sm)
}

// runSshd processes one (pid, message) with the real processor.
// via: "direct" = ProcessSshdLogEntry, "syslog" = SyslogIngester.Process on the framed bytes.
// sharedMetrics: one metrics provider (and registry) kept across `left` more lines, so that the
// counters are read before and after each line of a sequence, as in one daemon run
type sharedMetrics struct {
	reg    *prometheus.Registry
	mp     *metrics.PrometheusMetricsProvider
	left   int
	proc   sshd.SshdProcessor // one processor for the whole batch, as in one daemon run
	log    *effectLog
	logins chan common.RemoteUserLogin
}

var shared sharedMetrics
var sshdBatch = 1

// incDelta returns the increments between two Gather snapshots
func incDelta(before, after []string) []string {
	cnt := map[string]int{}
	for _, x := range before {
		cnt[x]--
	}
	for _, x := range after {
		cnt[x]++
	}
	var out []string
	for k, n := range cnt {
		for i := 0; i < n; i++ {
			out = append(out, k)
		}
		for i := 0; i > n; i-- {
			out = append(out, "!decrement:"+k)
		}
	}
	sort.Strings(out)
	return out
}

func runSshd(pid, msg, framed string, writeOK bool, handoff string, via string) string {
	if shared.left <= 0 {
		shared.reg = prometheus.NewRegistry()
		shared.mp = metrics.NewPrometheusMetricsProviderForRegisterer(shared.reg)
		shared.left = sshdBatch
		// the processor lives as long as the batch (its own context is never cancelled; the context of
		// each call is what the hand-off selects on)
		shared.log = &effectLog{}
		shared.logins = make(chan common.RemoteUserLogin)
		shared.proc = sshd.NewSshdProcessor(context.Background(), shared.logins, nodeName, machineID,
			auditevent.NewAuditEventWriter(shared.log), shared.mp)
	}
	shared.left--
	reg := shared.reg
	incsBefore := gatherIncs(reg)
	log := shared.log
	log.mu.Lock()
	log.effs, log.last, log.flags, log.failAll = nil, nil, nil, !writeOK
	log.mu.Unlock()
	logins := shared.logins
	ctx, cancel := context.WithCancel(context.Background())
	defer cancel()
	var wg sync.WaitGroup
	stopRecv := make(chan struct{})
	if handoff == "ready" {
		wg.Add(1)
		go func() {
			defer wg.Done()
			for {
				select {
				case l := <-logins:
					log.mu.Lock()
					s := fmt.Sprintf("S:%d:%s", l.PID, hx(l.CredUserID))
					if l.Source != log.last {
						s += "!source"
					}
					log.effs = append(log.effs, s)
					log.mu.Unlock()
				case <-stopRecv:
					return
				}
			}
		}()
	} else {
		cancel()
	}
	proc := shared.proc
	res := "R:nil"
	before := time.Now()
	func() {
		defer func() {
			if r := recover(); r != nil {
				res = "R:panic"
			}
		}()
		var err error
		if via == "syslog" {
			npi := namedpipe.NewNamedPipeIngester(zap.NewNop().Sugar(), health.NewHealth())
			px := &ctxProxy{inner: proc}
			sli := syslog.NewSyslogIngester("/nonexistent", px, npi)
			err = sli.Process(ctx, framed)
			if px.deadline {
				// the ingester handed the processor a context that can expire on its own: the hand-off
				// of a login would then be abandoned although nobody cancelled anything
				log.mu.Lock()
				log.flags = append(log.flags, "!ctx-with-deadline")
				log.mu.Unlock()
			}
		} else {
			err = proc.ProcessSshdLogEntry(ctx, sshd.SshdLogEntry{PID: pid, Message: msg})
		}
		if err != nil {
			res = "R:err"
		}
	}()
	after := time.Now()
	close(stopRecv)
	wg.Wait()
	log.mu.Lock()
	defer log.mu.Unlock()
	if log.last != nil {
		if log.last.LoggedAt.Before(before) || log.last.LoggedAt.After(after) {
			log.flags = append(log.flags, "!time")
		}
		if !uuidRE.MatchString(log.last.Metadata.AuditID) {
			log.flags = append(log.flags, "!auditid")
		}
	}
	parts := append(incDelta(incsBefore, gatherIncs(reg)), log.effs...)
	parts = append(parts, res)
	return strings.Join(parts, ";") + strings.Join(log.flags, "")
}

func init() {
	sshd.SetLogger(zap.NewNop().Sugar())
	// sshd [batch=<n>]: <id> <pidhex> <linehex> <ok|fail> <ready|cancel>
	modes["sshd"] = func(in *bufio.Scanner, out *bufio.Writer) {
		for _, a := range os.Args[2:] {
			if strings.HasPrefix(a, "batch=") {
				sshdBatch, _ = strconv.Atoi(a[6:])
			}
		}
		for in.Scan() {
			f := strings.Fields(in.Text())
			if len(f) < 5 {
				continue
			}
			fmt.Fprintf(out, "%s %s\n", f[0], runSshd(unhex(f[1]), unhex(f[2]), "", f[3] == "ok", f[4], "direct"))
		}
	}
	// c07 <id> <pidhex> <padhex> <msghex> <ok|fail> <ready|cancel>  ->  "<framed obs> <direct obs>"
	modes["c07"] = func(in *bufio.Scanner, out *bufio.Writer) {
		for in.Scan() {
			f := strings.Fields(in.Text())
			if len(f) < 6 {
				continue
			}
			pid, pad, msg := unhex(f[1]), unhex(f[2]), unhex(f[3])
			framed := runSshd("", "", pid+pad+msg+"\n", f[4] == "ok", f[5], "syslog")
			direct := runSshd(pid, msg, "", f[4] == "ok", f[5], "direct")
			fmt.Fprintf(out, "%s %s %s\n", f[0], framed, direct)
		}
	}
	// syslog <id> <framedhex> <ok|fail> <ready|cancel>
	modes["syslog"] = func(in *bufio.Scanner, out *bufio.Writer) {
		for in.Scan() {
			f := strings.Fields(in.Text())
			if len(f) < 4 {
				continue
			}
			fmt.Fprintf(out, "%s %s\n", f[0], runSshd("", "", unhex(f[1]), f[2] == "ok", f[3], "syslog"))
		}
	}
}

// fifoLog records the events written while a whole stream is processed; a forwarded login is
// recorded right after the event it points to (the receiver runs concurrently with the processing
// of the following records, so arrival order in the log would be a matter of scheduling).
type fifoLog struct {
	mu      sync.Mutex
	effs    []string
	evs     []*auditevent.AuditEvent // evs[i] is the event of effs[i] (nil for logins)
	failAll bool
	flags   []string
}

func (l *fifoLog) Encode(v any) error {
	e, ok := v.(*auditevent.AuditEvent)
	l.mu.Lock()
	defer l.mu.Unlock()
	if !ok {
		l.flags = append(l.flags, "!notevent")
		return nil
	}
	if l.failAll {
		l.effs, l.evs = append(l.effs, "W:fail:"+renderEvent(e)), append(l.evs, e)
		return errInjected
	}
	l.effs, l.evs = append(l.effs, "W:ok:"+renderEvent(e)), append(l.evs, e)
	return nil
}

func (l *fifoLog) forwarded(lg common.RemoteUserLogin) {
	l.mu.Lock()
	defer l.mu.Unlock()
	s := fmt.Sprintf("S:%d:%s", lg.PID, hx(lg.CredUserID))
	for i, e := range l.evs {
		if e != nil && e == lg.Source {
			l.effs = append(l.effs[:i+1], append([]string{s}, l.effs[i+1:]...)...)
			l.evs = append(l.evs[:i+1], append([]*auditevent.AuditEvent{nil}, l.evs[i+1:]...)...)
			return
		}
	}
	l.effs, l.evs = append(l.effs, s+"!source"), append(l.evs, nil)
}

// runSyslogFifo delivers the chunks through a real FIFO to SyslogIngester.Ingest (C07 at FIFO
// level): all effects of all records in order, then how Ingest ended.
func runSyslogFifo(chunks []string, pauses []int, writeOK bool) string {
	path := fifoPath()
	defer os.Remove(path)
	reg := prometheus.NewRegistry()
	mp := metrics.NewPrometheusMetricsProviderForRegisterer(reg)
	log := &fifoLog{failAll: !writeOK}
	ew := auditevent.NewAuditEventWriter(log)
	logins := make(chan common.RemoteUserLogin)
	ctx, cancel := context.WithCancel(context.Background())
	defer cancel()
	var wg sync.WaitGroup
	stopRecv := make(chan struct{})
	wg.Add(1)
	go func() {
		defer wg.Done()
		for {
			select {
			case l := <-logins:
				log.forwarded(l)
			case <-stopRecv:
				return
			}
		}
	}()
	proc := sshd.NewSshdProcessor(ctx, logins, nodeName, machineID, ew, mp)
	npi := namedpipe.NewNamedPipeIngester(zap.NewNop().Sugar(), health.NewHealth())
	sli := syslog.NewSyslogIngester(path, proc, npi)
	done := make(chan error, 1)
	go func() {
		defer func() {
			if r := recover(); r != nil {
				done <- errors.New("panic")
			}
		}()
		done <- sli.Ingest(ctx)
	}()
	w, err := os.OpenFile(path, os.O_WRONLY, 0)
	if err != nil {
		return "R:openfail"
	}
	go func() {
		for i, c := range chunks {
			if i < len(pauses) && pauses[i] > 0 {
				time.Sleep(time.Duration(pauses[i]) * time.Microsecond)
			}
			if len(c) == 0 {
				continue
			}
			if _, err := w.Write([]byte(c)); err != nil {
				break
			}
		}
		w.Close()
	}()
	res := "R:hang"
	select {
	case err := <-done:
		switch {
		case err == nil:
			res = "R:nil"
		case errors.Is(err, errInjected):
			res = "R:err"
		case err.Error() == "EOF":
			res = "R:eof"
		case err.Error() == "panic":
			res = "R:panic"
		default:
			res = "R:other"
		}
	case <-time.After(20 * time.Second):
		noteHang()
		cancel()
	}
	close(stopRecv)
	wg.Wait()
	log.mu.Lock()
	defer log.mu.Unlock()
	parts := append(gatherIncs(reg), log.effs...)
	parts = append(parts, res)
	return strings.Join(parts, ";") + strings.Join(log.flags, "")
}

func init() {
	// c07fifo <id> <ok|fail> <chunkhex>,<chunkhex>,… [pauses=<us>,…]
	modes["c07fifo"] = func(in *bufio.Scanner, out *bufio.Writer) {
		defer func() {
			if pipeDir != "" {
				os.RemoveAll(pipeDir)
			}
		}()
		for in.Scan() {
			f := strings.Fields(in.Text())
			if len(f) < 3 {
				continue
			}
			var chunks []string
			for _, c := range strings.Split(f[2], ",") {
				chunks = append(chunks, unhex(c))
			}
			var pauses []int
			for _, x := range f[3:] {
				if strings.HasPrefix(x, "pauses=") {
					for _, p := range strings.Split(x[7:], ",") {
						n, _ := strconv.Atoi(p)
						pauses = append(pauses, n)
					}
				}
			}
			if overHangBudget() {
				fmt.Fprintf(out, "%s !stall:skipped-after-hangs\n", f[0])
				continue
			}
			fmt.Fprintf(out, "%s %s\n", f[0], runSyslogFifo(chunks, pauses, f[1] == "ok"))
			out.Flush()
		}
	}
}
