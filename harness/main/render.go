package main

import (
	"bufio"
	"fmt"
	"os"
	"path/filepath"
	"sort"
	"strconv"
	"strings"
	"sync"
	"time"

	"github.com/elastic/go-libaudit/v2"
	"github.com/elastic/go-libaudit/v2/aucoalesce"
	"github.com/elastic/go-libaudit/v2/auparse"
	"github.com/metal-toolbox/auditevent"
	"go.uber.org/zap"

	"github.com/metal-toolbox/audito-maldito/processors/auditd/sessiontracker"
)

// C14 through the real parser, reassembler and coalescer: every kernel event of the repository's
// recorded audit logs (testdata/good) is parsed with auparse, grouped by the real Reassembler,
// coalesced with aucoalesce (+ResolveIDs) and handed — as the real aucoalesce.Event — to the real
// tracker inside a correlated session. Output per event: the history in the tracker protocol, with
// the event spelled out field by field (`X:` operation) for the model, and what the tracker emitted.

type collectStream struct {
	mu     sync.Mutex
	groups [][]*auparse.AuditMessage
}

func (s *collectStream) ReassemblyComplete(msgs []*auparse.AuditMessage) {
	s.mu.Lock()
	s.groups = append(s.groups, msgs)
	s.mu.Unlock()
}
func (s *collectStream) EventsLost(int) {}

func xop(e *aucoalesce.Event) string {
	typ := "o"
	switch e.Type {
	case auparse.AUDIT_LOGIN:
		typ = "l"
	case auparse.AUDIT_CRED_DISP:
		typ = "d"
	}
	obj, _ := renderObject(e.Summary.Object)
	var args []string
	for _, a := range e.Process.Args {
		args = append(args, hx(a))
	}
	as := "-"
	if len(args) > 0 {
		as = strings.Join(args, ",")
	}
	return fmt.Sprintf("X:%d:%s:%s:%s:%s:%s:%s:%s:%s", e.Timestamp.Unix(), hx(e.Session), typ, hx(e.Process.PID), hx(e.Result),
		hx(e.Summary.Action), hx(e.Summary.How), hx(obj), as)
}

func renderDir(dir string, out *bufio.Writer) {
	files, _ := filepath.Glob(filepath.Join(dir, "*.txt"))
	sort.Strings(files)
	n := 0
	for _, f := range files {
		data, err := os.ReadFile(f)
		if err != nil {
			continue
		}
		st := &collectStream{}
		r, err := libaudit.NewReassembler(100000, time.Hour, st)
		if err != nil {
			continue
		}
		for _, ln := range strings.Split(string(data), "\n") {
			if strings.TrimSpace(ln) == "" {
				continue
			}
			m, err := auparse.ParseLogLine(ln)
			if err != nil {
				continue
			}
			r.PushMessage(m)
		}
		r.Close()
		for _, g := range st.groups {
			ev, err := aucoalesce.CoalesceMessages(g)
			if err != nil || ev == nil {
				continue
			}
			aucoalesce.ResolveIDs(ev)
			if ev.Session == "" || ev.Session == "unset" || ev.Type == auparse.AUDIT_LOGIN {
				continue
			}
			// a correlated session for this event: login (pid 77), the LOGIN record of the event's session, the event
			log := &actionLog{failAt: -1}
			tr := sessiontracker.NewSessionTracker(auditevent.NewAuditEventWriter(log), zap.NewNop().Sugar())
			login := mkLogin(77, "alice", true, time.Unix(1, 0), "77")
			opener := mkEvent(1001, ev.Session, "l", "77", "success", 0)
			log.cur = 0
			_ = tr.RemoteLogin(login)
			log.cur = 1
			_ = tr.AuditdEvent(opener)
			log.cur = 2
			err = tr.AuditdEvent(ev)
			res := "E:nil@-"
			if err != nil {
				res = "E:" + errKind(err) + "@2"
			}
			ops := strings.Join([]string{
				fmt.Sprintf("L:77:%s:1:n:77", hx("alice")),
				fmt.Sprintf("A:1001:%s:l:%s:%s:0", hx(ev.Session), hx("77"), hx("success")),
				xop(ev)}, ";")
			fmt.Fprintf(out, "r%d %s %s\n", n, ops, strings.Join(append(append([]string{}, log.out...), res), ";"))
			n++
		}
	}
}

func init() {
	// render <dir with recorded audit logs>
	modes["render"] = func(in *bufio.Scanner, out *bufio.Writer) {
		if len(os.Args) > 2 {
			renderDir(os.Args[2], out)
		}
		_ = strconv.Itoa
	}
}
