package main

import (
	"bufio"
	"encoding/json"
	"fmt"
	"sort"
	"strconv"
	"strings"
	"sync"
	"time"

	"github.com/elastic/go-libaudit/v2/auparse"
	"github.com/metal-toolbox/auditevent"
	"go.uber.org/zap"

	"github.com/metal-toolbox/audito-maldito/processors/auditd"
	"github.com/metal-toolbox/audito-maldito/processors/auditd/sessiontracker"
)

// The reassembler invokes its callback outside its own lock, from two Go routines of Auditd.Read (the
// parser's PushMessage and the maintenance loop's Maintain). Mode cbconc hands record groups of k
// correlated sessions to ONE callback (the one Read builds, over the real tracker) from k Go routines at
// once, n times each, and compares what reaches the encoder with what the same groups yield when handed
// over one after the other: per session the same rendering, the same number of times.

type cbLog struct {
	mu  sync.Mutex
	out []string
}

func (l *cbLog) Encode(v any) error {
	e, ok := v.(*auditevent.AuditEvent)
	if !ok {
		return nil
	}
	extra, _ := json.Marshal(e.Metadata.Extra)
	subj, _ := json.Marshal(e.Subjects)
	s := fmt.Sprintf("%s|%d|%s|%s|%s|%s", e.Metadata.AuditID, e.LoggedAt.UnixNano(), e.Outcome, string(extra), string(subj), e.Source.Value)
	l.mu.Lock()
	l.out = append(l.out, s)
	l.mu.Unlock()
	return nil
}

func cbGroup(k, variant int) (login string, exec []string) {
	ses, pid := 11*(k+1), 1001*(k+1)
	base := 1700000000 + 1000*k
	login = fmt.Sprintf("type=LOGIN msg=audit(%d.100:%d): pid=%d uid=0 old-auid=4294967295 auid=%d tty=(none) old-ses=4294967295 ses=%d res=1", base, 500+100*k, pid, 1000+k, ses)
	hdr := fmt.Sprintf("msg=audit(%d.111:%d):", base+1, 501+100*k)
	succ := []string{"yes", "no"}[k%2]
	exe := []string{"/usr/bin/ls", "/usr/bin/cat", "/usr/bin/id"}[k%3]
	exec = []string{
		fmt.Sprintf("type=SYSCALL %s arch=c000003e syscall=59 success=%s exit=0 a0=1 a1=2 a2=3 a3=8 items=1 ppid=%d pid=%d auid=%d uid=%d gid=1000 euid=1000 suid=1000 fsuid=1000 egid=1000 sgid=1000 fsgid=1000 tty=pts%d ses=%d comm=\"c%d\" exe=\"%s\" key=\"k\"", hdr, succ, pid, pid+100, 1000+k, 1000+k, k, ses, k, exe),
		fmt.Sprintf("type=EXECVE %s argc=%d%s", hdr, 2+k, func() string {
			s := ""
			for i := 0; i < 2+k; i++ {
				s += fmt.Sprintf(" a%d=\"arg%d-%d\"", i, k, i)
			}
			return s
		}()),
		fmt.Sprintf("type=CWD %s cwd=\"/home/u%d\"", hdr, k),
		fmt.Sprintf("type=PATH %s item=0 name=\"%s\" inode=1442550 dev=fd:00 mode=0100755 ouid=0 ogid=0 rdev=00:00 nametype=NORMAL cap_fp=0 cap_fi=0 cap_fe=0 cap_fver=0 cap_frootid=0", hdr, exe),
	}
	if variant%2 == 0 {
		exec = append(exec, fmt.Sprintf("type=PROCTITLE %s proctitle=6C73002D6C61", hdr))
	}
	return
}

func cbParse(lines []string) []*auparse.AuditMessage {
	var msgs []*auparse.AuditMessage
	for _, l := range lines {
		m, err := auparse.ParseLogLine(l)
		if err != nil {
			panic(err)
		}
		msgs = append(msgs, m)
	}
	return msgs
}

// runCB: sessions k = 0..nth-1; concurrent=false hands the groups over from one Go routine
func runCB(nth, n, variant int, concurrent bool) (map[string]int, string) {
	log := &cbLog{}
	tr := sessiontracker.NewSessionTracker(auditevent.NewAuditEventWriter(log), zap.NewNop().Sugar())
	errs := make(chan error, 1)
	cb := auditd.VerifNewCallback(tr, errs, time.Time{})
	for k := 0; k < nth; k++ {
		_ = tr.RemoteLogin(mkLogin(1001*(k+1), fmt.Sprintf("user%d", k), true, time.Now(), "n"))
		login, _ := cbGroup(k, variant)
		cb.ReassemblyComplete(cbParse([]string{login}))
	}
	deliver := func(k int) {
		_, exec := cbGroup(k, variant)
		for i := 0; i < n; i++ {
			cb.ReassemblyComplete(cbParse(exec))
		}
	}
	pan := ""
	if concurrent {
		var wg sync.WaitGroup
		var pmu sync.Mutex
		start := make(chan struct{})
		for k := 0; k < nth; k++ {
			k := k
			wg.Add(1)
			go func() {
				defer wg.Done()
				defer func() {
					if r := recover(); r != nil {
						pmu.Lock()
						pan = strings.ReplaceAll(fmt.Sprint(r), " ", "_")
						pmu.Unlock()
					}
				}()
				<-start
				deliver(k)
			}()
		}
		close(start)
		wg.Wait()
	} else {
		for k := 0; k < nth; k++ {
			deliver(k)
		}
	}
	select {
	case err := <-errs:
		pan = "error:" + strings.ReplaceAll(err.Error(), " ", "_")
	default:
	}
	counts := map[string]int{}
	log.mu.Lock()
	for _, s := range log.out {
		counts[s]++
	}
	log.mu.Unlock()
	return counts, pan
}

func init() {
	// cbconc <id> <goroutines> <deliveries each> <variant>
	modes["cbconc"] = func(in *bufio.Scanner, out *bufio.Writer) {
		for in.Scan() {
			f := strings.Fields(in.Text())
			if len(f) < 4 {
				continue
			}
			nth, _ := strconv.Atoi(f[1])
			n, _ := strconv.Atoi(f[2])
			v, _ := strconv.Atoi(f[3])
			want, p0 := runCB(nth, n, v, false)
			got, p1 := runCB(nth, n, v, true)
			res := "same-as-sequential"
			if p0 != "" || p1 != "" {
				res = "failed:" + p0 + "/" + p1
			} else {
				var diff []string
				for s, c := range got {
					if want[s] != c {
						diff = append(diff, fmt.Sprintf("%dx(not-%d)%s", c, want[s], hx(s)))
					}
				}
				for s, c := range want {
					if _, ok := got[s]; !ok {
						diff = append(diff, fmt.Sprintf("0x(not-%d)%s", c, hx(s)))
					}
				}
				if len(diff) > 0 {
					sort.Strings(diff)
					if len(diff) > 4 {
						diff = diff[:4]
					}
					res = "differs:" + strings.Join(diff, ",")
				}
			}
			fmt.Fprintf(out, "%s %s\n", f[0], res)
			out.Flush()
		}
	}
}
