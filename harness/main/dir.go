package main

import (
	"bufio"
	"context"
	"fmt"
	"sort"
	"strconv"
	"strings"
	"sync"
	"time"

	"github.com/fsnotify/fsnotify"

	"github.com/metal-toolbox/audito-maldito/processors/auditd/dirreader"
)

// after a few hung cases the rest of the run is skipped (a broken reader would otherwise cost
// one timeout per case)
var dirHangs int

const dirTimeout = 3 * time.Second

const vdir = "/vlog"
const vmain = vdir + "/audit.log"

// runDir: initial files, then append / rotate / truncate operations, each followed by its
// file-system events; every event is processed before the next change (a no-op event is used
// as a barrier: the reader's loop takes it only after finishing the previous one).
func runDir(files map[string]string, order []string, ops []string) string {
	if dirHangs >= 3 {
		return "!skipped-after-hangs"
	}
	vfs := &dirreader.VerifFS{Files: map[string][]byte{}}
	for n, c := range files {
		vfs.Files[vdir+"/"+n] = []byte(c)
	}
	vw := &dirreader.VerifWatcher{Ch: make(chan fsnotify.Event)}
	ctx, cancel := context.WithCancel(context.Background())
	defer cancel()
	r := dirreader.VerifNew(ctx, vfs, vw, vdir, order)
	var mu sync.Mutex
	var lines []string
	collectDone := make(chan struct{})
	// "early:<n>" (first operation): the consumer pauses after n lines of the start-up read; meanwhile a write event
	// for the live file arrives although nothing has changed (events during start-up are not changes to deliver)
	pauseAfter := -1
	if len(ops) > 0 && strings.HasPrefix(ops[0], "early:") {
		pauseAfter, _ = strconv.Atoi(ops[0][6:])
		ops = ops[1:]
	}
	wantPause := pauseAfter >= 0 // read here: the collector below resets pauseAfter
	paused := make(chan struct{})
	resume := make(chan struct{})
	go func() {
		defer close(collectDone)
		seen := 0
		for {
			if seen == pauseAfter {
				pauseAfter = -1
				close(paused)
				select {
				case <-resume:
				case <-dirreader.VerifDone(r):
					return
				}
			}
			select {
			case l := <-r.Lines():
				seen++
				mu.Lock()
				if l == "" {
					lines = append(lines, "-")
				} else {
					lines = append(lines, hx(l))
				}
				mu.Unlock()
			case <-dirreader.VerifDone(r):
				return
			}
		}
	}()
	flag := ""
	send := func(op fsnotify.Op) bool {
		select {
		case vw.Ch <- fsnotify.Event{Name: vmain, Op: op}:
			return true
		case <-dirreader.VerifDone(r):
			flag = "!dead"
			return false
		case <-time.After(dirTimeout):
			flag = "!hang"
			return false
		}
	}
	event := func(op fsnotify.Op) bool { return send(op) && send(fsnotify.Chmod) }
	if wantPause {
		select {
		case <-paused:
			// the start-up read is stuck handing over its next line (or has finished): an event, no change
			select {
			case vw.Ch <- fsnotify.Event{Name: vmain, Op: fsnotify.Write}:
			case <-time.After(200 * time.Millisecond):
			}
			time.Sleep(10 * time.Millisecond)
		case <-r.InitFilesDone():
		case <-time.After(dirTimeout):
		}
		close(resume)
	}
	select {
	case <-r.InitFilesDone():
	case <-dirreader.VerifDone(r):
		flag = "!dead-at-start"
	case <-time.After(dirTimeout):
		flag = "!hang-at-start"
	}
	if flag == "" {
		send(fsnotify.Chmod)
	}
	for _, op := range ops {
		if flag != "" {
			break
		}
		switch {
		case strings.HasPrefix(op, "fa:"), strings.HasPrefix(op, "fo:"):
			// an append whose first read attempt fails with a transient error (the first Read, or the Open): the reader
			// retries with its back-off; the barrier event waits for the retry
			vfs.Set(vmain, append(append([]byte(nil), vfs.Get(vmain)...), []byte(unhex(op[3:]))...))
			vfs.Arm(op[1] == 'o')
			event(fsnotify.Write)
		case strings.HasPrefix(op, "a:"):
			vfs.Set(vmain, append(append([]byte(nil), vfs.Get(vmain)...), []byte(unhex(op[2:]))...))
			event(fsnotify.Write)
		case op == "rot":
			old := vfs.Get(vmain)
			vfs.Del(vmain)
			vfs.Set(vmain+".1", old)
			if event(fsnotify.Rename) {
				vfs.Set(vmain, []byte{})
				event(fsnotify.Create)
			}
		case op == "trunc":
			vfs.Set(vmain, []byte{})
			event(fsnotify.Write)
		}
	}
	cancel()
	select {
	case <-dirreader.VerifDone(r):
	case <-time.After(dirTimeout):
		flag += "!nostop"
	}
	if strings.Contains(flag, "hang") || strings.Contains(flag, "nostop") {
		dirHangs++
	} else {
		<-collectDone
	}
	mu.Lock()
	defer mu.Unlock()
	if len(lines) == 0 {
		return "none" + flag
	}
	return strings.Join(lines, ";") + flag
}

func init() {
	// dir <id> <name=hex,name=hex,…> <op;op;…|->   op ::= a:<hex> | rot | trunc
	modes["dir"] = func(in *bufio.Scanner, out *bufio.Writer) {
		for in.Scan() {
			f := strings.Fields(in.Text())
			if len(f) < 3 {
				continue
			}
			files := map[string]string{}
			var order []string
			for _, kv := range strings.Split(f[1], ",") {
				p := strings.SplitN(kv, "=", 2)
				if len(p) == 2 {
					files[p[0]] = unhex(p[1])
					order = append(order, p[0])
				}
			}
			_ = sort.Strings
			var ops []string
			if f[2] != "-" {
				ops = strings.Split(f[2], ";")
			}
			fmt.Fprintf(out, "%s %s\n", f[0], runDir(files, order, ops))
		}
	}
}
