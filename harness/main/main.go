// Command verifharness runs the real audito-maldito code in-process on cases read from
// stdin (one per line) and prints one canonical observation per case. It is compiled from
// the repository's working tree with `go build -tags verif -overlay …` (see /verif/check);
// nothing is written into the repository.
package main

import (
	"bufio"
	"encoding/hex"
	"fmt"
	"os"
	"sort"
	"strings"
)

func unhex(s string) string {
	if s == "-" {
		return ""
	}
	b, err := hex.DecodeString(s)
	if err != nil {
		panic("bad hex: " + s)
	}
	return string(b)
}

func hx(s string) string {
	if s == "" {
		return "-"
	}
	return hex.EncodeToString([]byte(s))
}

func renderMap(m map[string]string) string {
	if len(m) == 0 {
		return "-"
	}
	keys := make([]string, 0, len(m))
	for k := range m {
		keys = append(keys, k)
	}
	sort.Strings(keys)
	var parts []string
	for _, k := range keys {
		parts = append(parts, k+"="+hx(m[k]))
	}
	return strings.Join(parts, ",")
}

var modes = map[string]func(in *bufio.Scanner, out *bufio.Writer){}

// hang budget shared by the modes: once a few cases have hung (each costs its full time-out) the remaining cases of
// the run are not executed; they are reported as "!stall:skipped-after-hangs" (no comparison, no verdict) — the
// hung cases themselves are reported as what they are
var hangCount int

const hangBudget = 5

func noteHang()            { hangCount++ }
func overHangBudget() bool { return hangCount >= hangBudget }

func main() {
	if len(os.Args) < 2 {
		fmt.Fprintln(os.Stderr, "usage: verifharness <mode>")
		os.Exit(2)
	}
	f, ok := modes[os.Args[1]]
	if !ok {
		fmt.Fprintln(os.Stderr, "unknown mode", os.Args[1])
		os.Exit(2)
	}
	in := bufio.NewScanner(os.Stdin)
	in.Buffer(make([]byte, 1<<20), 1<<28)
	out := bufio.NewWriterSize(os.Stdout, 1<<16)
	defer out.Flush()
	f(in, out)
}
