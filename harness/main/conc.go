package main

import (
	"bufio"
	"fmt"
	"runtime"
	"sort"
	"strconv"
	"strings"
	"sync"
	"sync/atomic"
	"time"

	"github.com/metal-toolbox/auditevent"
	"go.uber.org/zap"

	"github.com/metal-toolbox/audito-maldito/internal/common"
	"github.com/metal-toolbox/audito-maldito/internal/health"
	"github.com/metal-toolbox/audito-maldito/processors/auditd/sessiontracker"
)

// Controlled scheduler: worker goroutines stop at every lock acquisition (before it), after every
// lock release and at every event write; exactly one worker runs at a time and the controller
// decides who continues. A schedule is the list of choices among the enabled workers.

func gid() string {
	b := make([]byte, 64)
	b = b[:runtime.Stack(b, false)]
	return strings.Fields(string(b))[1]
}

func lockName(lock any) string {
	n := fmt.Sprintf("%T", lock)
	switch {
	case strings.Contains(n, "GenericSyncMap[string,*"):
		return "S"
	case strings.Contains(n, "GenericSyncMap[int,"):
		return "L"
	case strings.Contains(n, "GenericSyncMap[string,bool]"):
		return "H"
	case strings.Contains(n, "sync.Mutex"):
		return "T"
	}
	return "?" + n
}

type schedEvent struct {
	tid  int
	kind string // want | yield | done
	lock string
}

type ctrl struct {
	mu     sync.Mutex
	byGid  map[string]int
	resume []chan struct{}
	events chan schedEvent
	held   map[string]int
	trace  []string
}

func (c *ctrl) me() (int, bool) {
	c.mu.Lock()
	defer c.mu.Unlock()
	t, ok := c.byGid[gid()]
	return t, ok
}

func (c *ctrl) hook(ev string, lock any) {
	tid, ok := c.me()
	if !ok {
		return
	}
	name := lockName(lock)
	switch ev {
	case "acquire":
		c.events <- schedEvent{tid, "want", name}
		<-c.resume[tid]
		c.mu.Lock()
		c.held[name] = tid
		c.trace = append(c.trace, fmt.Sprintf("%da%s", tid, name))
		c.mu.Unlock()
	case "release":
		c.mu.Lock()
		delete(c.held, name)
		c.trace = append(c.trace, fmt.Sprintf("%dr%s", tid, name))
		c.mu.Unlock()
		c.events <- schedEvent{tid, "yield", ""}
		<-c.resume[tid]
	}
}

func (c *ctrl) yield(what string) {
	tid, ok := c.me()
	if !ok {
		return
	}
	c.mu.Lock()
	c.trace = append(c.trace, fmt.Sprintf("%dw", tid))
	c.mu.Unlock()
	c.events <- schedEvent{tid, "yield", ""}
	<-c.resume[tid]
}

// concLog records emitted events as "<ts>/<loggedAs>" and yields to the scheduler at every write.
type concLog struct {
	mu    sync.Mutex
	out   []string
	c     *ctrl
	quiet bool
}

func (l *concLog) Encode(v any) error {
	if e, ok := v.(*auditevent.AuditEvent); ok {
		l.mu.Lock()
		l.out = append(l.out, fmt.Sprintf("%d/%s", e.LoggedAt.Unix(), e.Subjects["loggedAs"]))
		l.mu.Unlock()
	}
	if !l.quiet {
		l.c.yield("write")
	}
	return nil
}

type concResult struct {
	outcome   string
	branching []int
	trace     []string
	deadlock  bool
}

// concPost: operations run sequentially, without scheduling points, after all threads have finished
// (they make state that the emitted events do not show observable, e.g. a session that was never opened)
var concPost []string

// concPre: operations run sequentially before the threads start (a login already waiting, a session already open)
var concPre []string

// tracker operation on the real tracker (shared by the threads, the pre and the post phase)
func trackerOp(tr trackerAPI, op string) {
	f := strings.Split(op, ":")
	switch f[0] {
	case "L":
		pid, _ := strconv.Atoi(f[1])
		_ = tr.RemoteLogin(mkLogin(pid, unhex(f[2]), f[3] == "1", time.Now(), f[5]))
	case "A":
		ts, _ := strconv.ParseInt(f[1], 10, 64)
		nargs, _ := strconv.Atoi(f[6])
		_ = tr.AuditdEvent(mkEvent(ts, unhex(f[2]), f[3], unhex(f[4]), unhex(f[5]), nargs))
	case "S":
		tr.DeleteUsersWithoutLoginsBefore(farOrZero(f[1]))
	case "R":
		tr.DeleteRemoteUserLoginsBefore(farOrZero(f[1]))
	}
}

// gatedLog: the first event write blocks until the gate opens (a slow events output); it is reached
// while the writing operation holds whatever locks it holds
type gatedLog struct {
	mu      sync.Mutex
	out     []string
	gate    chan struct{}
	reached chan struct{}
	armed   atomic.Bool
	used    atomic.Bool
}

func (l *gatedLog) Encode(v any) error {
	if e, ok := v.(*auditevent.AuditEvent); ok {
		l.mu.Lock()
		l.out = append(l.out, fmt.Sprintf("%d/%s", e.LoggedAt.Unix(), e.Subjects["loggedAs"]))
		l.mu.Unlock()
	}
	if l.armed.Load() && l.used.CompareAndSwap(false, true) {
		close(l.reached)
		<-l.gate
	}
	return nil
}

// runHold: free-running (no controlled scheduler): thread 0 runs until its first event write, which stalls;
// meanwhile the other threads are started and given 40 ms (they either finish or wait for thread 0's locks);
// then the write completes, everything is joined, and the post phase runs. The outcome must be the outcome of
// some sequential order — an operation that gives up instead of waiting shows here.
func runHold(threads [][]string) concResult {
	log := &gatedLog{gate: make(chan struct{}), reached: make(chan struct{})}
	tr := sessiontracker.NewSessionTracker(auditevent.NewAuditEventWriter(log), zap.NewNop().Sugar())
	common.VerifHook = nil
	var res concResult
	panicked := ""
	var pmu sync.Mutex
	guard := func(f func()) {
		defer func() {
			if r := recover(); r != nil {
				pmu.Lock()
				panicked = strings.ReplaceAll(strings.ReplaceAll(fmt.Sprint(r), " ", "_"), "~", "_")
				pmu.Unlock()
			}
		}()
		f()
	}
	for _, op := range concPre {
		// the pre phase does not stall: the gate is armed afterwards
		guard(func() { trackerOp(tr, op) })
	}
	log.armed.Store(true)
	var wg sync.WaitGroup
	t0done := make(chan struct{})
	wg.Add(1)
	go func() {
		defer wg.Done()
		defer close(t0done)
		guard(func() {
			for _, op := range threads[0] {
				trackerOp(tr, op)
			}
		})
	}()
	select {
	case <-log.reached:
	case <-t0done:
	case <-time.After(2 * time.Second):
	}
	for _, th := range threads[1:] {
		th := th
		wg.Add(1)
		go func() {
			defer wg.Done()
			guard(func() {
				for _, op := range th {
					trackerOp(tr, op)
				}
			})
		}()
	}
	time.Sleep(40 * time.Millisecond)
	close(log.gate)
	joined := make(chan struct{})
	go func() { wg.Wait(); close(joined) }()
	select {
	case <-joined:
	case <-time.After(5 * time.Second):
		res.deadlock = true
	}
	if !res.deadlock {
		for _, op := range concPost {
			guard(func() { trackerOp(tr, op) })
		}
	}
	log.mu.Lock()
	res.outcome = strings.Join(log.out, ",")
	log.mu.Unlock()
	if res.outcome == "" {
		res.outcome = "-"
	}
	if panicked != "" {
		res.outcome = "PANIC:" + panicked
	}
	return res
}

// runSchedule executes the program once under the given choice prefix (0 beyond it).
func runSchedule(system string, threads [][]string, choices []int) concResult {
	c := &ctrl{byGid: map[string]int{}, events: make(chan schedEvent), held: map[string]int{}}
	log := &concLog{c: c}
	var tr trackerAPI
	var h *health.Health
	if system == "tracker" {
		tr = sessiontracker.NewSessionTracker(auditevent.NewAuditEventWriter(log), zap.NewNop().Sugar())
	} else {
		h = health.NewHealth()
	}
	if system == "tracker" {
		log.quiet = true // no scheduling points yet
		for _, op := range concPre {
			trackerOp(tr, op)
		}
		log.quiet = false
	}
	common.VerifHook = c.hook
	defer func() { common.VerifHook = nil }()
	n := len(threads)
	answers := make([][]string, n)
	var panicMu sync.Mutex
	panicked := ""
	for range threads {
		c.resume = append(c.resume, make(chan struct{}))
	}
	execOp := func(op string, i int) {
		f := strings.Split(op, ":")
		switch f[0] {
		case "L":
			pid, _ := strconv.Atoi(f[1])
			_ = tr.RemoteLogin(mkLogin(pid, unhex(f[2]), f[3] == "1", time.Now(), f[5]))
		case "A":
			ts, _ := strconv.ParseInt(f[1], 10, 64)
			nargs, _ := strconv.Atoi(f[6])
			_ = tr.AuditdEvent(mkEvent(ts, unhex(f[2]), f[3], unhex(f[4]), unhex(f[5]), nargs))
		case "S":
			tr.DeleteUsersWithoutLoginsBefore(farOrZero(f[1]))
		case "R":
			tr.DeleteRemoteUserLoginsBefore(farOrZero(f[1]))
		case "add":
			h.AddReadiness(unhex(f[1]))
		case "ready":
			h.OnReady(unhex(f[1]))
		case "get":
			answers[i] = append(answers[i], renderReadyz(h))
		case "isready":
			answers[i] = append(answers[i], fmt.Sprintf("R:%v", h.IsReady()))
		}
	}
	for i := range threads {
		i := i
		go func() {
			c.mu.Lock()
			c.byGid[gid()] = i
			c.mu.Unlock()
			c.events <- schedEvent{i, "yield", ""}
			<-c.resume[i]
			defer func() {
				if r := recover(); r != nil {
					panicMu.Lock()
					panicked = strings.ReplaceAll(strings.ReplaceAll(fmt.Sprint(r), " ", "_"), "~", "_")
					panicMu.Unlock()
					c.events <- schedEvent{i, "done", ""}
				}
			}()
			for _, op := range threads[i] {
				execOp(op, i)
			}
			c.events <- schedEvent{i, "done", ""}
		}()
	}
	waiting := make([]*schedEvent, n)
	doneT := make([]bool, n)
	for k := 0; k < n; k++ {
		ev := <-c.events
		e := ev
		waiting[ev.tid] = &e
	}
	var res concResult
	step := 0
	for {
		var enabled []int
		alive := 0
		for i := 0; i < n; i++ {
			if doneT[i] {
				continue
			}
			alive++
			if waiting[i] == nil {
				continue
			}
			if waiting[i].kind == "want" {
				c.mu.Lock()
				_, busy := c.held[waiting[i].lock]
				c.mu.Unlock()
				if busy {
					continue
				}
			}
			enabled = append(enabled, i)
		}
		if len(enabled) == 0 {
			res.deadlock = alive > 0
			break
		}
		ch := 0
		if step < len(choices) {
			ch = choices[step] % len(enabled)
		}
		res.branching = append(res.branching, len(enabled))
		step++
		t := enabled[ch]
		waiting[t] = nil
		c.resume[t] <- struct{}{}
		ev := <-c.events // only t is running
		if ev.kind == "done" {
			doneT[ev.tid] = true
		} else {
			e := ev
			waiting[ev.tid] = &e
		}
	}
	if !res.deadlock && len(concPost) > 0 {
		common.VerifHook = nil
		log.quiet = true
		func() {
			defer func() {
				if r := recover(); r != nil {
					panicMu.Lock()
					panicked = strings.ReplaceAll(strings.ReplaceAll(fmt.Sprint(r), " ", "_"), "~", "_")
					panicMu.Unlock()
				}
			}()
			answers = append(answers, nil)
			for _, op := range concPost {
				execOp(op, n)
			}
		}()
	}
	if system == "tracker" {
		log.mu.Lock()
		res.outcome = strings.Join(log.out, ",")
		log.mu.Unlock()
	} else {
		var parts []string
		for i := range answers {
			parts = append(parts, strings.Join(answers[i], "+"))
		}
		res.outcome = strings.Join(parts, "/")
	}
	if res.outcome == "" {
		res.outcome = "-"
	}
	panicMu.Lock()
	if panicked != "" {
		res.outcome = "PANIC:" + panicked
	}
	panicMu.Unlock()
	c.mu.Lock()
	res.trace = append([]string(nil), c.trace...)
	c.mu.Unlock()
	return res
}

func farOrZero(r string) time.Time {
	if r == "f" {
		return time.Now().Add(1000 * time.Hour)
	}
	return time.Unix(0, 0)
}

// shapeOK checks the lock discipline the serialisability theorem assumes.
// tracker: every S / L acquisition by a thread happens while that thread holds T.
// health: every request takes the map lock exactly twice (Len, Iterate).
func shapeOK(system string, trace []string, threads [][]string) string {
	holdsT := map[string]bool{}
	hCount := map[string]int{}
	for _, e := range trace {
		i := strings.IndexAny(e, "arw")
		tid, kind, lock := e[:i], e[i:i+1], e[i+1:]
		switch {
		case kind == "a" && lock == "T":
			holdsT[tid] = true
		case kind == "r" && lock == "T":
			holdsT[tid] = false
		case kind == "a" && (lock == "S" || lock == "L") && system == "tracker":
			if !holdsT[tid] {
				return "BAD:map-lock-taken-outside-the-tracker-mutex"
			}
		case kind == "w" && system == "tracker":
			if !holdsT[tid] {
				return "BAD:event-written-outside-the-tracker-mutex"
			}
		case kind == "a" && lock == "H":
			hCount[tid]++
		}
	}
	if system == "health" {
		for i, th := range threads {
			want := 0
			for _, op := range th {
				if op == "get" {
					want += 2
				} else {
					want++
				}
			}
			if hCount[strconv.Itoa(i)] != want {
				return fmt.Sprintf("BAD:thread-%d-took-the-map-lock-%d-times-expected-%d", i, hCount[strconv.Itoa(i)], want)
			}
		}
	}
	return "ok"
}

// explore enumerates schedules depth first (stateless re-execution), up to max runs.
func explore(system string, threads [][]string, max int) (outcomes map[string][]int, runs int, exhaustive bool, shape string, deadlock bool) {
	outcomes = map[string][]int{}
	shape = "ok"
	exhaustive = true
	var dfs func(prefix []int)
	dfs = func(prefix []int) {
		if runs >= max {
			exhaustive = false
			return
		}
		r := runSchedule(system, threads, prefix)
		runs++
		if r.deadlock {
			deadlock = true
		}
		if s := shapeOK(system, r.trace, threads); s != "ok" && shape == "ok" {
			shape = s
		}
		if _, ok := outcomes[r.outcome]; !ok {
			full := append([]int(nil), prefix...)
			for len(full) < len(r.branching) {
				full = append(full, 0)
			}
			outcomes[r.outcome] = full
		}
		for i := len(r.branching) - 1; i >= len(prefix); i-- {
			for alt := 1; alt < r.branching[i]; alt++ {
				np := make([]int, i+1)
				copy(np, prefix)
				for j := len(prefix); j < i; j++ {
					np[j] = 0
				}
				np[i] = alt
				dfs(np)
			}
		}
	}
	// half of the budget systematically (depth first, which varies the late decisions first), the
	// other half on seeded random schedules (which vary the early ones)
	total := max
	max = total / 2
	if max < 1 {
		max = 1
	}
	dfs(nil)
	if exhaustive {
		return
	}
	max = total
	rng := uint64(0x9E3779B97F4A7C15)
	next := func() int {
		rng += 0x9E3779B97F4A7C15
		z := rng
		z = (z ^ (z >> 30)) * 0xBF58476D1CE4E5B9
		z = (z ^ (z >> 27)) * 0x94D049BB133111EB
		z ^= z >> 31
		return int(z >> 33)
	}
	for runs < max {
		vec := make([]int, 96)
		// runs of the same thread of random length: context switches are what matters
		for i := 0; i < len(vec); {
			t := next() % 4
			for l := 1 + next()%4; l > 0 && i < len(vec); l-- {
				vec[i] = t
				i++
			}
		}
		r := runSchedule(system, threads, vec)
		runs++
		if r.deadlock {
			deadlock = true
		}
		if s := shapeOK(system, r.trace, threads); s != "ok" && shape == "ok" {
			shape = s
		}
		if _, ok := outcomes[r.outcome]; !ok {
			outcomes[r.outcome] = vec[:len(r.branching)]
		}
	}
	return
}

func init() {
	// conc <id> <tracker|health> <max> <thread>|<thread>|…  [sched=c0,c1,…]     thread = op;op;…
	modes["conc"] = func(in *bufio.Scanner, out *bufio.Writer) {
		for in.Scan() {
			f := strings.Fields(in.Text())
			if len(f) < 4 {
				continue
			}
			max, _ := strconv.Atoi(f[2])
			var threads [][]string
			for _, t := range strings.Split(f[3], "|") {
				threads = append(threads, strings.Split(t, ";"))
			}
			var fixed []int
			haveFixed := false
			concPost, concPre = nil, nil
			hold := false
			for _, x := range f[4:] {
				if strings.HasPrefix(x, "post=") {
					concPost = strings.Split(x[5:], ";")
				}
				if strings.HasPrefix(x, "pre=") {
					concPre = strings.Split(x[4:], ";")
				}
				if x == "hold=1" {
					hold = true
				}
			}
			if hold && f[1] == "tracker" {
				r := runHold(threads)
				fmt.Fprintf(out, "%s outcomes=%s@ n=1 exhaustive=0 shape=ok deadlock=%v\n", f[0], r.outcome, r.deadlock)
				continue
			}
			for _, x := range f[4:] {
				if strings.HasPrefix(x, "sched=") {
					haveFixed = true
					for _, s := range strings.Split(x[6:], ",") {
						if s != "" {
							n, _ := strconv.Atoi(s)
							fixed = append(fixed, n)
						}
					}
				}
			}
			if haveFixed {
				r := runSchedule(f[1], threads, fixed)
				fmt.Fprintf(out, "%s outcomes=%s@%s n=1 exhaustive=0 shape=%s deadlock=%v\n", f[0], r.outcome, joinInts(fixed), shapeOK(f[1], r.trace, threads), r.deadlock)
				continue
			}
			oc, runs, ex, shape, dl := explore(f[1], threads, max)
			keys := make([]string, 0, len(oc))
			for k := range oc {
				keys = append(keys, k)
			}
			sort.Strings(keys)
			var parts []string
			for _, k := range keys {
				parts = append(parts, k+"@"+joinInts(oc[k]))
			}
			e := 0
			if ex {
				e = 1
			}
			fmt.Fprintf(out, "%s outcomes=%s n=%d exhaustive=%d shape=%s deadlock=%v\n", f[0], strings.Join(parts, "~"), runs, e, shape, dl)
		}
	}
}

func joinInts(xs []int) string {
	var s []string
	for _, x := range xs {
		s = append(s, strconv.Itoa(x))
	}
	if len(s) == 0 {
		return "-"
	}
	return strings.Join(s, ".")
}
