package main

import (
	"bufio"
	"context"
	"fmt"
	"os"
	"strings"
	"time"

	"github.com/elastic/go-libaudit/v2/auparse"
	"go.uber.org/zap"

	"github.com/metal-toolbox/audito-maldito/ingesters/auditlog"
	"github.com/metal-toolbox/audito-maldito/ingesters/namedpipe"
	"github.com/metal-toolbox/audito-maldito/internal/health"
)

// C07, audit side: an audit record line parsed directly, with its terminator, and after travelling through
// a real FIFO and the audit log ingester (what parseAuditLogs then hands to auparse.ParseLogLine).

func renderAuditParse(line string) string {
	m, err := auparse.ParseLogLine(line)
	if err != nil {
		return "E"
	}
	return fmt.Sprintf("S:%s|%s|%d|%d", hx(m.RecordType.String()), hx(m.RawData), m.Timestamp.UnixNano(), m.Sequence)
}

// throughPipe writes the lines, each with its terminator, to a FIFO read by AuditLogIngester.Ingest and
// returns what arrives on the channel
func throughPipe(lines []string) ([]string, bool) {
	path := fifoPath()
	defer os.Remove(path)
	ch := make(chan string, len(lines)+4)
	np := namedpipe.NewNamedPipeIngester(zap.NewNop().Sugar(), health.NewHealth())
	alp := auditlog.NewAuditLogIngester(path, ch, np)
	ctx, cancel := context.WithCancel(context.Background())
	defer cancel()
	done := make(chan error, 1)
	go func() { done <- alp.Ingest(ctx) }()
	w, err := os.OpenFile(path, os.O_WRONLY, 0)
	if err != nil {
		return nil, false
	}
	go func() {
		for _, l := range lines {
			if _, err := w.Write([]byte(l + "\n")); err != nil {
				break
			}
		}
		w.Close()
	}()
	select {
	case <-done:
	case <-time.After(10 * time.Second):
		noteHang()
		cancel()
		return nil, false
	}
	close(ch)
	var got []string
	for s := range ch {
		got = append(got, s)
	}
	return got, true
}

func init() {
	// auline <id> <hexline>[,<hexline>…]      (lines without a newline inside)
	modes["auline"] = func(in *bufio.Scanner, out *bufio.Writer) {
		defer func() {
			if pipeDir != "" {
				os.RemoveAll(pipeDir)
			}
		}()
		for in.Scan() {
			f := strings.Fields(in.Text())
			if len(f) < 2 {
				continue
			}
			if overHangBudget() {
				fmt.Fprintf(out, "%s !stall:skipped-after-hangs\n", f[0])
				continue
			}
			var lines []string
			for _, h := range strings.Split(f[1], ",") {
				lines = append(lines, unhex(h))
			}
			piped, ok := throughPipe(lines)
			var parts []string
			for i, l := range lines {
				d, n := renderAuditParse(l), renderAuditParse(l+"\n")
				p := "missing"
				if ok && len(piped) == len(lines) {
					p = renderAuditParse(piped[i])
				} else if !ok {
					p = "hang"
				}
				parts = append(parts, d+"~"+n+"~"+p)
			}
			fmt.Fprintf(out, "%s %s\n", f[0], strings.Join(parts, ","))
			out.Flush()
		}
	}
}
