package main

import (
	"bufio"
	"context"
	"errors"
	"fmt"
	"runtime"
	"strconv"
	"strings"
	"sync"
	"time"

	"github.com/metal-toolbox/auditevent"
	"go.uber.org/zap"

	"github.com/metal-toolbox/audito-maldito/internal/common"
	"github.com/metal-toolbox/audito-maldito/internal/health"
	"github.com/metal-toolbox/audito-maldito/processors/auditd"
)

// The audit processor (auditd.Auditd.Read) driven through its exported surface: audit lines on
// the Audits channel, logins on the Logins channel, a recording encoder that can fail at the
// k-th event. The three Go routines of Read are sequenced from outside:
//   - the Audits channel is unbuffered, and an empty line (which parseAuditLogs skips) is sent
//     after every line: once it has been received the previous line has been processed completely;
//   - the Logins channel is unbuffered (as in the daemon);
//   - after every input the harness waits until Read's own Go routine is parked in its select
//     again (seen in runtime.Stack) or Read has returned. A pending error wakes that Go routine
//     inside the channel send, so "parked in select" means no error is pending.

type apLog struct {
	mu     sync.Mutex
	out    []string
	calls  int
	failAt int
	cur    string // input being executed: its index, or "c" during the final cancellation
	fired  string
	// stall: the failing write does not fail at once — it hangs (a slow output) until released; meanwhile the
	// harness delivers a login, so that the failure is reported while Read's loop is busy outside its select
	stall   bool
	stalled chan struct{}
	release chan struct{}
	relOnce sync.Once
}

func (l *apLog) Encode(v any) error {
	l.mu.Lock()
	defer l.mu.Unlock()
	k := l.calls
	l.calls++
	if k == l.failAt {
		l.fired = l.cur
		if l.stall {
			l.mu.Unlock()
			close(l.stalled)
			// a plain channel receive, not a select: the harness recognises "Read is parked" by the state `select` of
			// Read's Go routine, and this write may be running on that very Go routine (a flush inside RemoteLogin)
			t := time.AfterFunc(5*time.Second, l.doRelease)
			<-l.release
			t.Stop()
			l.mu.Lock()
		}
		return errInjected
	}
	e, ok := v.(*auditevent.AuditEvent)
	if !ok {
		l.out = append(l.out, "!notevent")
		return nil
	}
	nargs := 0
	if a, ok := e.Metadata.Extra["process_args"].([]string); ok {
		nargs = len(a)
	}
	l.out = append(l.out, fmt.Sprintf("A:%s|%d|%s|%d|%s", hx(e.Metadata.AuditID), e.LoggedAt.Unix(), e.Outcome, nargs, hx(e.Subjects["loggedAs"])))
	return nil
}

func (l *apLog) doRelease() { l.relOnce.Do(func() { close(l.release) }) }

func (l *apLog) setCur(s string) {
	l.mu.Lock()
	l.cur = s
	l.mu.Unlock()
}

// apLineText renders the audit log line of an `N` input.
func apLineText(seq int, kind, typ, ses, pid, res string, nargs, variant int) string {
	hdr := fmt.Sprintf("msg=audit(%d.000:%d):", 1600000000+seq, seq)
	okw := map[string][3]string{"s": {"1", "success", "yes"}, "f": {"0", "failed", "no"}}[res]
	var s string
	switch kind {
	case "s":
		switch typ {
		case "l":
			s = fmt.Sprintf("type=LOGIN %s pid=%s uid=0 old-auid=4294967295 auid=1000 tty=(none) old-ses=4294967295 ses=%s res=%s", hdr, pid, ses, okw[0])
		case "d":
			s = fmt.Sprintf("type=CRED_DISP %s pid=%s uid=0 auid=1000 ses=%s msg='op=PAM:setcred grantors=pam_unix acct=\"u\" exe=\"/usr/sbin/sshd\" hostname=h addr=1.2.3.4 terminal=ssh res=%s'", hdr, pid, ses, okw[1])
		default:
			s = fmt.Sprintf("type=USER_CMD %s pid=%s uid=1000 auid=1000 ses=%s msg='cwd=\"/\" cmd=6C73 terminal=pts/0 res=%s'", hdr, pid, ses, okw[1])
		}
	case "y":
		s = fmt.Sprintf("type=SYSCALL %s arch=c000003e syscall=59 success=%s exit=0 a0=1 a1=2 a2=3 a3=4 items=1 ppid=1 pid=%s auid=1000 uid=1000 gid=1000 euid=1000 suid=1000 fsuid=1000 egid=1000 sgid=1000 fsgid=1000 tty=pts0 ses=%s comm=\"true\" exe=\"/usr/bin/true\" key=(null)", hdr, okw[2], pid, ses)
	case "x":
		s = fmt.Sprintf("type=EXECVE %s argc=%d", hdr, nargs)
		for i := 0; i < nargs; i++ {
			s += fmt.Sprintf(" a%d=\"arg%d\"", i, i)
		}
	case "p":
		if variant%2 == 0 {
			s = fmt.Sprintf("type=CWD %s cwd=\"/\"", hdr)
		} else {
			s = fmt.Sprintf("type=PATH %s item=0 name=\"/usr/bin/true\" inode=1 dev=fe:00 mode=0100755 ouid=0 ogid=0 rdev=00:00 nametype=NORMAL cap_fp=0 cap_fi=0 cap_fe=0 cap_fver=0 cap_frootid=0", hdr)
		}
	case "t":
		s = fmt.Sprintf("type=PROCTITLE %s proctitle=74727565", hdr)
	case "e":
		s = fmt.Sprintf("type=EOE %s ", hdr)
	default:
		panic("bad kind " + kind)
	}
	switch variant / 2 {
	case 1:
		s += "  " // trailing blanks
	case 2:
		s = strings.Replace(s, "type=", "type=", 1) + "\n" // the record terminator left on (audit pipe framing)
	case 3:
		s += "\x1dUID=\"root\" AUID=\"someuser\"" // enriched format
	}
	return s
}

// readParked reports whether the Go routine running (*Auditd).Read is blocked in its select.
func readParked(buf []byte) (parked bool, found bool) {
	n := runtime.Stack(buf, true)
	for _, blk := range strings.Split(string(buf[:n]), "\n\n") {
		lines := strings.Split(blk, "\n")
		if len(lines) < 2 || !strings.HasPrefix(lines[0], "goroutine ") {
			continue
		}
		isRead := false
		for _, ln := range lines[1:] {
			if strings.HasPrefix(ln, "github.com/metal-toolbox/audito-maldito/processors/auditd.(*Auditd).Read(") {
				isRead = true
				break
			}
		}
		if !isRead {
			continue
		}
		i := strings.Index(lines[0], "[")
		return i >= 0 && strings.HasPrefix(lines[0][i+1:], "select"), true
	}
	return false, false
}

func apErrKind(err error, texts map[int]string) string {
	switch {
	case err == nil:
		return "none@-"
	case strings.Contains(err.Error(), "failed to parse auditd log line"):
		at := "-"
		best := -1
		for k, t := range texts {
			if strings.Contains(err.Error(), "'"+t+"'") && (best < 0 || k < best) {
				best = k
			}
		}
		if best >= 0 {
			at = strconv.Itoa(best)
		}
		return "parse@" + at
	case errors.Is(err, context.Canceled):
		return "ctx@-"
	case strings.Contains(err.Error(), "failed to coalesce"):
		return "coalesce@-"
	}
	return errKind(err) + "@-"
}

func runAuditProc(failAt int, ops []string, after int, stall bool) string {
	auditd.SetLogger(zap.NewNop().Sugar())
	log := &apLog{failAt: failAt, fired: "-", stall: stall, stalled: make(chan struct{}), release: make(chan struct{})}
	audits := make(chan string)
	logins := make(chan common.RemoteUserLogin)
	if stall {
		go func() {
			select {
			case <-log.stalled:
			case <-time.After(120 * time.Second):
				return
			}
			// the write is hanging inside the correlator (tracker mutex held): a login arrives on the other
			// stream, Read's loop takes it and waits for the tracker
			select {
			case logins <- mkLogin(999983, "bystander", true, time.Unix(1, 0), "n"):
			case <-time.After(300 * time.Millisecond):
			}
			time.Sleep(30 * time.Millisecond)
			log.doRelease()
		}()
	}
	ap := auditd.Auditd{Audits: audits, Logins: logins, EventW: auditevent.NewAuditEventWriter(log), Health: health.NewHealth()}
	if after > 0 {
		// events stamped before this instant are ignored (Auditd.After)
		ap.After = time.Unix(int64(1600000000+after), 0)
	}
	ctx, cancel := context.WithCancel(context.Background())
	defer cancel()
	done := make(chan error, 1)
	go func() { done <- ap.Read(ctx) }()

	stackBuf := make([]byte, 1<<18)
	var result error
	finished := false
	// settle waits until Read is parked in its select again, or has returned
	settle := func() {
		deadline := time.Now().Add(20 * time.Second)
		for !finished {
			select {
			case result = <-done:
				finished = true
				return
			default:
			}
			if p, found := readParked(stackBuf); p && found {
				return
			}
			if time.Now().After(deadline) {
				return
			}
			runtime.Gosched()
		}
	}
	sendLine := func(s string) {
		if finished {
			return
		}
		select {
		case audits <- s:
		case result = <-done:
			finished = true
		case <-time.After(20 * time.Second):
			noteHang()
		}
	}
	settle()
	texts := map[int]string{}
	for k, op := range ops {
		if finished {
			break
		}
		log.setCur(strconv.Itoa(k))
		f := strings.Split(op, ":")
		switch f[0] {
		case "N":
			seq, _ := strconv.Atoi(f[1])
			nargs, _ := strconv.Atoi(f[7])
			variant, _ := strconv.Atoi(f[8])
			t := apLineText(seq, f[2], f[3], unhex(f[4]), unhex(f[5]), f[6], nargs, variant)
			texts[k] = t
			sendLine(t)
			sendLine("")
		case "B":
			t := unhex(f[1])
			texts[k] = t
			sendLine(t)
			sendLine("")
		case "E":
			sendLine("")
			sendLine("")
		case "G":
			pid, _ := strconv.Atoi(f[1])
			l := mkLogin(pid, unhex(f[2]), f[3] == "1", time.Unix(1, 0), f[4])
			select {
			case logins <- l:
			case result = <-done:
				finished = true
			case <-time.After(20 * time.Second):
			}
		case "W":
			time.Sleep(3200 * time.Millisecond)
		case "V":
			// like W, but the audit stream keeps flowing meanwhile: complete events of an uncorrelated
			// session (3 records each, sequence numbers above everything else) queue up behind whatever
			// is incomplete and are handed over by the maintenance Go routine when that expires, while
			// the parser Go routine goes on pushing — the two deliver concurrently
			// (at most 700 of them: the reassembler holds 1000 events, and an overflow would make the parser Go routine evict
			// the oldest events at the very moment the maintenance Go routine expires them — the order in which the two then
			// reach the correlator is the Go scheduler's choice, not something to compare)
			end := time.Now().Add(3200 * time.Millisecond)
			sent := 0
			for seq := 500000 + 1000*k; time.Now().Before(end) && !finished && sent < 700; seq++ {
				sent++
				hdr := fmt.Sprintf("msg=audit(%d.000:%d):", 1600000000+seq, seq)
				sendLine("type=SYSCALL " + hdr + " arch=c000003e syscall=59 success=no exit=0 a0=1 a1=2 a2=3 a3=4 items=1 ppid=1 pid=31337 auid=1000 uid=1000 gid=1000 euid=1000 suid=1000 fsuid=1000 egid=1000 sgid=1000 fsgid=1000 tty=pts0 ses=99999 comm=\"true\" exe=\"/usr/bin/true\" key=(null)")
				sendLine("type=EXECVE " + hdr + " argc=3 a0=\"x0\" a1=\"x1\" a2=\"x2\"")
				sendLine("type=PROCTITLE " + hdr + " proctitle=74727565")
				time.Sleep(4 * time.Millisecond)
			}
			if d := time.Until(end); d > 0 && !finished {
				time.Sleep(d)
			}
			sendLine("")
			sendLine("")
		default:
			panic("bad op " + op)
		}
		settle()
	}
	log.setCur("c")
	if !finished {
		cancel()
		select {
		case result = <-done:
		case <-time.After(20 * time.Second):
			noteHang()
			result = errors.New("Read did not return after cancellation")
		}
	}
	log.mu.Lock()
	defer log.mu.Unlock()
	return strings.Join(append(append([]string{}, log.out...), "E:"+apErrKind(result, texts), "F:"+log.fired), ";")
}

func init() {
	// auditproc <id> <failat:-|k> <op>;<op>;…
	modes["auditproc"] = func(in *bufio.Scanner, out *bufio.Writer) {
		for in.Scan() {
			f := strings.Fields(in.Text())
			if len(f) < 3 {
				continue
			}
			failAt := -1
			if f[1] != "-" {
				failAt, _ = strconv.Atoi(f[1])
			}
			if overHangBudget() {
				fmt.Fprintf(out, "%s !stall:skipped-after-hangs\n", f[0])
				continue
			}
			func() {
				defer func() {
					if r := recover(); r != nil {
						fmt.Fprintf(out, "%s E:panic\n", f[0])
					}
				}()
				after := 0
				stall := false
				for _, x := range f[3:] {
					if strings.HasPrefix(x, "after=") {
						after, _ = strconv.Atoi(x[6:])
					}
					if x == "stall=1" {
						stall = true
					}
				}
				fmt.Fprintf(out, "%s %s\n", f[0], runAuditProc(failAt, strings.Split(f[2], ";"), after, stall))
			}()
			out.Flush()
		}
	}
}
