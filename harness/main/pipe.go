package main

import (
	"bufio"
	"context"
	"errors"
	"fmt"
	"io"
	"os"
	"path/filepath"
	"strconv"
	"strings"
	"sync"
	"syscall"
	"time"

	"go.uber.org/zap"

	"github.com/metal-toolbox/audito-maldito/ingesters/namedpipe"
	"github.com/metal-toolbox/audito-maldito/internal/health"
)

var pipeDir string
var pipeSeq int

func fifoPath() string {
	if pipeDir == "" {
		d, err := os.MkdirTemp("", "verif-fifo")
		if err != nil {
			panic(err)
		}
		pipeDir = d
	}
	pipeSeq++
	p := filepath.Join(pipeDir, "p"+strconv.Itoa(pipeSeq))
	if err := syscall.Mkfifo(p, 0o600); err != nil {
		panic(err)
	}
	return p
}

// runPipe feeds chunks through a real FIFO into NamedPipeIngester.Ingest.
// pause[i] > 0: sleep that many microseconds before writing chunk i (forces separate reads).
func runPipe(delim byte, failAt int, chunks []string, pauses []int) string {
	path := fifoPath()
	defer os.Remove(path)
	npi := namedpipe.NewNamedPipeIngester(zap.NewNop().Sugar(), health.NewHealth())
	var mu sync.Mutex
	var kept []string // the records exactly as handed over: kept, and looked at only when the stream is over
	calls := 0
	cb := func(_ context.Context, rec string) error {
		mu.Lock()
		defer mu.Unlock()
		kept = append(kept, rec)
		k := calls
		calls++
		if k == failAt {
			return errInjected
		}
		return nil
	}
	ctx, cancel := context.WithCancel(context.Background())
	defer cancel()
	done := make(chan error, 1)
	go func() { done <- npi.Ingest(ctx, path, delim, cb) }()
	w, err := os.OpenFile(path, os.O_WRONLY, 0)
	if err != nil {
		return "R:openfail"
	}
	go func() {
		for i, c := range chunks {
			if i < len(pauses) && pauses[i] > 0 {
				time.Sleep(time.Duration(pauses[i]) * time.Microsecond)
			}
			if len(c) == 0 {
				continue
			}
			if _, err := w.Write([]byte(c)); err != nil {
				break // reader went away after a callback error
			}
		}
		w.Close()
	}()
	var res string
	select {
	case err := <-done:
		switch {
		case err == errInjected:
			res = "R:cb"
		case errors.Is(err, errInjected):
			res = "R:cb-wrapped"
		case err == io.EOF:
			res = "R:eof"
		case err == nil:
			res = "R:nil"
		default:
			res = "R:other"
		}
	case <-time.After(10*time.Second + time.Duration(totalPause(pauses))*time.Microsecond):
		res = "R:hang"
		noteHang()
		cancel()
	}
	mu.Lock()
	defer mu.Unlock()
	// a consumer may keep a record for as long as it likes (the audit ingester queues it in a channel):
	// what it reads later must still be what was delivered
	var out []string
	for _, rec := range kept {
		out = append(out, "D:"+hx(rec))
	}
	return strings.Join(append(out, res), ";")
}

func totalPause(p []int) int {
	t := 0
	for _, x := range p {
		t += x
	}
	return t
}

func init() {
	// pipe <id> <delim dec> <cbfail:-|k> <chunkhex>,<chunkhex>,… [pauses=<us>,<us>,…]
	modes["pipe"] = func(in *bufio.Scanner, out *bufio.Writer) {
		defer func() {
			if pipeDir != "" {
				os.RemoveAll(pipeDir)
			}
		}()
		for in.Scan() {
			f := strings.Fields(in.Text())
			if len(f) < 4 {
				continue
			}
			d, _ := strconv.Atoi(f[1])
			failAt := -1
			if f[2] != "-" {
				failAt, _ = strconv.Atoi(f[2])
			}
			var chunks []string
			for _, c := range strings.Split(f[3], ",") {
				chunks = append(chunks, unhex(c))
			}
			var pauses []int
			for _, x := range f[4:] {
				if strings.HasPrefix(x, "pauses=") {
					for _, p := range strings.Split(x[7:], ",") {
						n, _ := strconv.Atoi(p)
						pauses = append(pauses, n)
					}
				}
			}
			if overHangBudget() {
				fmt.Fprintf(out, "%s !stall:skipped-after-hangs\n", f[0])
				continue
			}
			fmt.Fprintf(out, "%s %s\n", f[0], runPipe(byte(d), failAt, chunks, pauses))
		}
	}
}
