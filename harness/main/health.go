package main

import (
	"bufio"
	"context"
	"encoding/json"
	"fmt"
	"net/http/httptest"
	"sort"
	"strings"
	"time"

	"github.com/metal-toolbox/audito-maldito/internal/health"
)

func renderReadyz(h *health.Health) string {
	rec := httptest.NewRecorder()
	h.ReadyzHandler().ServeHTTP(rec, httptest.NewRequest("GET", "/readyz", nil))
	var body map[string]string
	if err := json.Unmarshal(rec.Body.Bytes(), &body); err != nil {
		return fmt.Sprintf("%d:!badbody", rec.Code)
	}
	keys := make([]string, 0, len(body))
	for k := range body {
		keys = append(keys, k)
	}
	sort.Strings(keys)
	var parts []string
	for _, k := range keys {
		parts = append(parts, hx(k)+"="+hx(body[k]))
	}
	return fmt.Sprintf("%d:%s", rec.Code, strings.Join(parts, ","))
}

func runHealth(ops []string) string {
	h := health.NewHealth()
	var out []string
	for _, op := range ops {
		switch {
		case strings.HasPrefix(op, "add:"):
			h.AddReadiness(unhex(op[4:]))
		case strings.HasPrefix(op, "ready:"):
			h.OnReady(unhex(op[6:]))
		case op == "get":
			out = append(out, renderReadyz(h))
		case op == "isready":
			out = append(out, fmt.Sprintf("R:%v", h.IsReady()))
		case op == "wait" || op == "waitlate":
			// waitlate: the caller looks at the channel only a while (many check intervals) after the cancellation
			ctx, cancel := context.WithCancel(context.Background())
			ch := h.WaitForReady(ctx)
			if op == "waitlate" && !h.IsReady() {
				time.Sleep(20 * time.Millisecond)
				cancel()
				time.Sleep(40 * time.Millisecond)
				select {
				case err, open := <-ch:
					if open && err == context.Canceled {
						out = append(out, "W:ctxerr")
					} else {
						out = append(out, fmt.Sprintf("W:bad:%v:%v", open, err))
					}
				case <-time.After(2 * time.Second):
					out = append(out, "W:hang")
				}
				continue
			}
			select {
			case err, open := <-ch:
				if !open {
					out = append(out, "W:closed")
				} else {
					out = append(out, fmt.Sprintf("W:early-error:%v", err))
				}
			case <-time.After(60 * time.Millisecond):
				cancel()
				select {
				case err, open := <-ch:
					if open && err == context.Canceled {
						out = append(out, "W:ctxerr")
					} else {
						out = append(out, fmt.Sprintf("W:bad:%v:%v", open, err))
					}
				case <-time.After(2 * time.Second):
					out = append(out, "W:hang")
				}
			}
			cancel()
		}
	}
	if len(out) == 0 {
		return "none"
	}
	return strings.Join(out, ";")
}

func init() {
	health.DefaultReadyCheckInterval = 2 * time.Millisecond
	// health <id> <op;op;…>   op ::= add:<hex> | ready:<hex> | get | isready | wait
	modes["health"] = func(in *bufio.Scanner, out *bufio.Writer) {
		for in.Scan() {
			f := strings.Fields(in.Text())
			if len(f) < 2 {
				continue
			}
			fmt.Fprintf(out, "%s %s\n", f[0], runHealth(strings.Split(f[1], ";")))
		}
	}
}
