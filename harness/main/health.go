package main

import (
	"bufio"
	"context"
	"encoding/json"
	"fmt"
	"net/http/httptest"
	"sort"
	"strconv"
	"strings"
	"sync"
	"sync/atomic"
	"time"

	"github.com/metal-toolbox/audito-maldito/internal/health"
)

func renderReadyz(h *health.Health) string {
	rec := httptest.NewRecorder()
	h.ReadyzHandler().ServeHTTP(rec, httptest.NewRequest("GET", "/readyz", nil))
	var body map[string]string
	if err := json.Unmarshal(rec.Body.Bytes(), &body); err != nil {
		return fmt.Sprintf("%d:!badbody", rec.Code)
	}
	keys := make([]string, 0, len(body))
	for k := range body {
		keys = append(keys, k)
	}
	sort.Strings(keys)
	var parts []string
	for _, k := range keys {
		parts = append(parts, hx(k)+"="+hx(body[k]))
	}
	return fmt.Sprintf("%d:%s", rec.Code, strings.Join(parts, ","))
}

func runHealth(ops []string) string {
	h := health.NewHealth()
	var out []string
	for _, op := range ops {
		switch {
		case strings.HasPrefix(op, "add:"):
			h.AddReadiness(unhex(op[4:]))
		case strings.HasPrefix(op, "ready:"):
			h.OnReady(unhex(op[6:]))
		case op == "get":
			out = append(out, renderReadyz(h))
		case strings.HasPrefix(op, "ring:"):
			out = append(out, runRing(op))
		case op == "isready":
			out = append(out, fmt.Sprintf("R:%v", h.IsReady()))
		case op == "wait" || op == "waitlate":
			// waitlate: the caller looks at the channel only a while (many check intervals) after the cancellation
			ctx, cancel := context.WithCancel(context.Background())
			ch := h.WaitForReady(ctx)
			if op == "waitlate" && !h.IsReady() {
				time.Sleep(20 * time.Millisecond)
				cancel()
				time.Sleep(40 * time.Millisecond)
				select {
				case err, open := <-ch:
					if open && err == context.Canceled {
						out = append(out, "W:ctxerr")
					} else {
						out = append(out, fmt.Sprintf("W:bad:%v:%v", open, err))
					}
				case <-time.After(2 * time.Second):
					out = append(out, "W:hang")
				}
				continue
			}
			select {
			case err, open := <-ch:
				if !open {
					out = append(out, "W:closed")
				} else {
					out = append(out, fmt.Sprintf("W:early-error:%v", err))
				}
			case <-time.After(60 * time.Millisecond):
				cancel()
				select {
				case err, open := <-ch:
					if open && err == context.Canceled {
						out = append(out, "W:ctxerr")
					} else {
						out = append(out, fmt.Sprintf("W:bad:%v:%v", open, err))
					}
				case <-time.After(2 * time.Second):
					out = append(out, "W:hang")
				}
			}
			cancel()
		}
	}
	if len(out) == 0 {
		return "none"
	}
	return strings.Join(out, ";")
}

// ring:<n>:<probers>:<ms> — a token ring of registrations on a fresh Health (`C18R.ring_never_ready`): every component is
// registered, all but the first are marked ready, then for i = 0, 1, … component i+1 is registered again BEFORE component i
// is marked ready. Some component is pending in every state, so every probe — IsReady and the HTTP handler, free-running on
// their own Go routines — must answer "not ready". Output: the number of probes that answered "ready".
func runRing(op string) string {
	f := strings.Split(op, ":")
	if len(f) != 4 {
		return "G:!bad"
	}
	n, _ := strconv.Atoi(f[1])
	probers, _ := strconv.Atoi(f[2])
	ms, _ := strconv.Atoi(f[3])
	if n < 2 || probers < 1 {
		return "G:!bad"
	}
	h := health.NewHealth()
	names := make([]string, n)
	for i := range names {
		names[i] = fmt.Sprintf("r%d", i)
		h.AddReadiness(names[i])
	}
	for _, c := range names[1:] {
		h.OnReady(c)
	}
	var readySeen, probes int64
	stop := make(chan struct{})
	var wg sync.WaitGroup
	for p := 0; p < probers; p++ {
		wg.Add(1)
		go func(p int) {
			defer wg.Done()
			for {
				select {
				case <-stop:
					return
				default:
				}
				ready := false
				if p%2 == 0 {
					ready = h.IsReady()
				} else {
					rec := httptest.NewRecorder()
					h.ReadyzHandler().ServeHTTP(rec, httptest.NewRequest("GET", "/readyz", nil))
					ready = rec.Code == 200
				}
				atomic.AddInt64(&probes, 1)
				if ready {
					atomic.AddInt64(&readySeen, 1)
				}
			}
		}(p)
	}
	deadline := time.Now().Add(time.Duration(ms) * time.Millisecond)
	for i := 0; time.Now().Before(deadline) && atomic.LoadInt64(&readySeen) == 0; i++ {
		h.AddReadiness(names[(i+1)%n])
		h.OnReady(names[i%n])
	}
	close(stop)
	wg.Wait()
	if atomic.LoadInt64(&probes) == 0 {
		return "G:!noprobes"
	}
	return fmt.Sprintf("G:%d", atomic.LoadInt64(&readySeen))
}

func init() {
	health.DefaultReadyCheckInterval = 2 * time.Millisecond
	// health <id> <op;op;…>   op ::= add:<hex> | ready:<hex> | get | isready | wait
	modes["health"] = func(in *bufio.Scanner, out *bufio.Writer) {
		for in.Scan() {
			f := strings.Fields(in.Text())
			if len(f) < 2 {
				continue
			}
			fmt.Fprintf(out, "%s %s\n", f[0], runHealth(strings.Split(f[1], ";")))
		}
	}
}
