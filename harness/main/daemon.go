package main

import (
	"bufio"
	"errors"
	"fmt"
	"io"
	"os"
	"os/exec"
	"path/filepath"
	"strings"
	"sync"
	"syscall"
	"time"
)

// C08 / C10: the built daemon (VERIF_DAEMON = path of the binary built from the working tree) over
// real FIFOs and a regular output file.

type daemon struct {
	dir           string
	cmd           *exec.Cmd
	sshdW, auditW *os.File
	outPath       string
	exited        chan struct{}
	exitCode      int
	waitErr       error
}

const exitBound = 8 * time.Second

func openWriter(path string, timeout time.Duration) *os.File {
	ch := make(chan *os.File, 1)
	go func() {
		f, err := os.OpenFile(path, os.O_WRONLY, 0)
		if err != nil {
			ch <- nil
			return
		}
		ch <- f
	}()
	select {
	case f := <-ch:
		return f
	case <-time.After(timeout):
		// unblock the opener
		if r, err := os.OpenFile(path, os.O_RDONLY|syscall.O_NONBLOCK, 0); err == nil {
			f := <-ch
			r.Close()
			if f != nil {
				f.Close()
			}
		}
		return nil
	}
}

// startDaemon: sshdFifo / auditFifo false = the path is a regular file; out = path of the output
// file ("" = a fresh regular file)
// daemonPrior: what the events output (a regular file) already holds when the daemon starts — the events of an earlier
// run, which the daemon must leave alone and append to
var daemonPrior []byte

func startDaemon(sshdFifo, auditFifo bool, out string) (*daemon, error) {
	bin := os.Getenv("VERIF_DAEMON")
	if bin == "" {
		return nil, fmt.Errorf("VERIF_DAEMON not set")
	}
	dir, err := os.MkdirTemp("", "verif-daemon")
	if err != nil {
		return nil, err
	}
	d := &daemon{dir: dir, exited: make(chan struct{})}
	mk := func(name string, fifo bool) string {
		p := filepath.Join(dir, name)
		if fifo {
			if err := syscall.Mkfifo(p, 0o600); err != nil {
				panic(err)
			}
		} else {
			os.WriteFile(p, nil, 0o600)
		}
		return p
	}
	sp, apth := mk("sshd-pipe", sshdFifo), mk("audit-pipe", auditFifo)
	d.outPath = out
	if out == "" {
		d.outPath = filepath.Join(dir, "events.log")
		os.WriteFile(d.outPath, daemonPrior, 0o600)
	}
	d.cmd = exec.Command(bin, "-sshd-pipe-path", sp, "-auditd-pipe-path", apth, "-app-events-output", d.outPath, "-log-level", "error")
	d.cmd.Env = append(os.Environ(), "NODE_NAME=node-1")
	d.cmd.Stdout, d.cmd.Stderr = nil, nil
	if err := d.cmd.Start(); err != nil {
		os.RemoveAll(dir)
		return nil, err
	}
	go func() {
		d.waitErr = d.cmd.Wait()
		d.exitCode = d.cmd.ProcessState.ExitCode()
		close(d.exited)
	}()
	if sshdFifo {
		d.sshdW = openWriter(sp, 5*time.Second)
	}
	if auditFifo {
		d.auditW = openWriter(apth, 5*time.Second)
	}
	return d, nil
}

func (d *daemon) stop() {
	select {
	case <-d.exited:
	default:
		d.cmd.Process.Kill()
		<-d.exited
	}
	if d.sshdW != nil {
		d.sshdW.Close()
	}
	if d.auditW != nil {
		d.auditW.Close()
	}
	os.RemoveAll(d.dir)
}

// runDaemonFault injects one failure cause, idle or under sustained audit load, and observes exit
// status and time to exit.
//
// The scenario runs under a hard deadline: a daemon that stops consuming its pipes (the very thing C08
// forbids) must not take the harness down with it — the writers blocked on the full pipes are released
// by killing the daemon, and the case is reported as "did not exit".
var curDaemon *daemon
var curMu sync.Mutex

func runDaemonFault(cause string, load bool) string {
	done := make(chan string, 1)
	go func() { done <- runDaemonFaultInner(cause, load) }()
	select {
	case r := <-done:
		return r
	case <-time.After(60 * time.Second):
		curMu.Lock()
		if curDaemon != nil && curDaemon.cmd.Process != nil {
			curDaemon.cmd.Process.Kill()
		}
		curMu.Unlock()
		select {
		case <-done:
		case <-time.After(10 * time.Second):
		}
		return "X:0:0"
	}
}

// waitBounded waits for the load writer; false = it is still blocked (the daemon no longer reads)
func waitBounded(lw *sync.WaitGroup, d time.Duration) bool {
	ch := make(chan struct{})
	go func() { lw.Wait(); close(ch) }()
	select {
	case <-ch:
		return true
	case <-time.After(d):
		return false
	}
}

func runDaemonFaultInner(cause string, load bool) string {
	sshdFifo, auditFifo, out := cause != "notfifo-sshd", cause != "notfifo-audit", ""
	if cause == "writeerr" {
		out = "/dev/full"
	}
	var outR *os.File
	if cause == "writeerr-audit" || cause == "writeerr-audit-burst" {
		// the events output is a FIFO whose reader goes away later: writes then fail with EPIPE
		odir, err := os.MkdirTemp("", "verif-out")
		if err != nil {
			return "X:startfail"
		}
		defer os.RemoveAll(odir)
		out = filepath.Join(odir, "events-fifo")
		if err := syscall.Mkfifo(out, 0o600); err != nil {
			return "X:startfail"
		}
		outR, err = os.OpenFile(out, os.O_RDONLY|syscall.O_NONBLOCK, 0)
		if err != nil {
			return "X:startfail"
		}
		go func(r *os.File) { // drain what the daemon writes until the reader is closed
			buf := make([]byte, 1<<16)
			for {
				_, err := r.Read(buf)
				switch {
				case err == nil:
				case err == io.EOF: // no writer (yet)
					time.Sleep(time.Millisecond)
				case errors.Is(err, os.ErrClosed):
					return
				default:
					time.Sleep(time.Millisecond)
				}
			}
		}(outR)
	}
	d, err := startDaemon(sshdFifo, auditFifo, out)
	if err != nil {
		return "X:startfail"
	}
	curMu.Lock()
	curDaemon = d
	curMu.Unlock()
	defer d.stop()
	if cause == "writeerr-audit" || cause == "writeerr-audit-burst" {
		// a correlated session, so that the audit side writes an event for every record of the load
		d.sshdW.Write([]byte("9 Accepted password for bob from 1.2.3.4 port 22 ssh2\n"))
		d.auditW.Write([]byte("type=LOGIN msg=audit(1600000000.000:1): pid=9 uid=0 old-auid=4294967295 auid=1000 tty=(none) old-ses=4294967295 ses=77 res=1\n"))
		time.Sleep(100 * time.Millisecond)
	}

	if (sshdFifo && d.sshdW == nil) || (auditFifo && d.auditW == nil) {
		// a mis-configured path makes the daemon exit before it opens the other pipe: that is the
		// behaviour under test for the notfifo causes
		if !strings.HasPrefix(cause, "notfifo") {
			return "X:pipes-not-opened"
		}
	}
	stopLoad := make(chan struct{})
	var lw sync.WaitGroup
	var written int
	if load && d.auditW != nil {
		lw.Add(1)
		go func() {
			defer lw.Done()
			var b strings.Builder
			seq := 1
			for {
				b.Reset()
				for i := 0; i < 400; i++ {
					b.WriteString(auditCmdLine(seq))
					seq++
				}
				select {
				case <-stopLoad:
					return
				default:
				}
				if _, err := d.auditW.Write([]byte(b.String())); err != nil {
					return
				}
				written = seq
			}
		}()
		time.Sleep(300 * time.Millisecond) // the line buffer fills while the processor lags behind
	} else {
		time.Sleep(100 * time.Millisecond)
	}
	t0 := time.Now()
	switch cause {
	case "eof-sshd":
		d.sshdW.Close()
		d.sshdW = nil
	case "eof-audit":
		close(stopLoad)
		if !waitBounded(&lw, 15*time.Second) {
			d.cmd.Process.Kill()
			lw.Wait()
			return "X:0:0" // the daemon stopped reading its audit pipe while running
		}
		stopLoad = make(chan struct{})
		t0 = time.Now()
		d.auditW.Close()
		d.auditW = nil
	case "badline":
		if load {
			close(stopLoad)
			if !waitBounded(&lw, 15*time.Second) {
				d.cmd.Process.Kill()
				lw.Wait()
				return "X:0:0"
			}
			stopLoad = make(chan struct{})
			t0 = time.Now()
		}
		d.auditW.Write([]byte("this is not an audit record\n"))
	case "writeerr":
		d.sshdW.Write([]byte("77 Invalid user mallory from 10.9.8.7 port 4711\n"))
	case "writeerr-audit-burst":
		// a burst of the session's events held back behind an incomplete kernel event (no PROCTITLE / EOE):
		// they are released together when it times out (2 s) — with the output gone by then, every one
		// of them fails to be written, in one run of the reassembler's callback
		d.auditW.Write([]byte("type=SYSCALL msg=audit(1600000001.000:2): arch=c000003e syscall=59 success=yes exit=0 a0=1 a1=2 a2=3 a3=4 items=1 ppid=1 pid=9 auid=1000 uid=1000 gid=1000 euid=1000 suid=1000 fsuid=1000 egid=1000 sgid=1000 fsgid=1000 tty=pts0 ses=77 comm=\"true\" exe=\"/usr/bin/true\" key=(null)\n"))
		var b strings.Builder
		for i := 0; i < 40; i++ {
			b.WriteString(auditCmdLine(100 + i))
		}
		d.auditW.Write([]byte(b.String()))
		time.Sleep(200 * time.Millisecond)
		outR.Close()
		t0 = time.Now()
	case "writeerr-audit":
		outR.Close() // from now on every event write fails
		if !load {
			d.auditW.Write([]byte(auditCmdLine(900000001)))
		}
	case "sigterm":
		d.cmd.Process.Signal(syscall.SIGTERM)
	case "sigint":
		d.cmd.Process.Signal(syscall.SIGINT)
	case "notfifo-sshd", "notfifo-audit":
		// nothing to inject: the daemon must give up by itself
	default:
		return "X:badcause"
	}
	res := "X:0:0"
	select {
	case <-d.exited:
		nz := 0
		if d.exitCode != 0 {
			nz = 1
		}
		res = fmt.Sprintf("X:1:%d", nz)
		_ = time.Since(t0)
	case <-time.After(exitBound):
	}
	close(stopLoad)
	if res == "X:0:0" {
		// still running after the bound: release the writer that is blocked on the full pipe
		d.cmd.Process.Kill()
	}
	lw.Wait()
	_ = written
	return res
}

func init() {
	// daemon <id> <cause> <load 0|1>
	modes["daemon"] = func(in *bufio.Scanner, out *bufio.Writer) {
		for in.Scan() {
			f := strings.Fields(in.Text())
			if len(f) < 3 {
				continue
			}
			fmt.Fprintf(out, "%s %s\n", f[0], runDaemonFault(f[1], f[2] == "1"))
			out.Flush()
		}
	}
}
