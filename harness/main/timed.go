package main

import (
	"bufio"
	"context"
	"fmt"
	"strconv"
	"strings"
	"sync"
	"time"

	"github.com/metal-toolbox/auditevent"
	"go.uber.org/zap"

	"github.com/metal-toolbox/audito-maldito/internal/common"
	"github.com/metal-toolbox/audito-maldito/internal/health"
	"github.com/metal-toolbox/audito-maldito/processors/auditd"
)

// C16 in real time (thorough tier): the real audit processor with its real one-minute ticker. The
// audit half of a session arrives at t = 0, its SSH login `gap` seconds later; optionally an
// unrelated login reaches the processor every `noise` seconds in between. Observation: how many
// events of the session were emitted in the end.
func runTimed(gap, noise int) string {
	auditd.SetLogger(zap.NewNop().Sugar())
	enc := &apLog{failAt: -1, fired: "-"}
	audits := make(chan string, 100)
	logins := make(chan common.RemoteUserLogin)
	ap := auditd.Auditd{Audits: audits, Logins: logins, EventW: auditevent.NewAuditEventWriter(enc), Health: health.NewHealth()}
	ctx, cancel := context.WithCancel(context.Background())
	defer cancel()
	done := make(chan error, 1)
	go func() { done <- ap.Read(ctx) }()
	time.Sleep(50 * time.Millisecond)
	t0 := time.Now()
	audits <- "type=LOGIN msg=audit(1600000000.000:1): pid=9 uid=0 old-auid=4294967295 auid=1000 tty=(none) old-ses=4294967295 ses=5 res=1"
	audits <- "type=USER_CMD msg=audit(1600000001.000:2): pid=9 uid=1000 auid=1000 ses=5 msg='cwd=\"/\" cmd=6C73 terminal=pts/0 res=success'"
	audits <- "type=USER_CMD msg=audit(1600000002.000:3): pid=9 uid=1000 auid=1000 ses=5 msg='cwd=\"/\" cmd=6C73 terminal=pts/0 res=success'"
	send := func(l common.RemoteUserLogin) bool {
		select {
		case logins <- l:
			return true
		case <-done:
			return false
		case <-time.After(10 * time.Second):
			return false
		}
	}
	k := 0
	for next := noise; noise > 0 && next < gap; next += noise {
		time.Sleep(time.Until(t0.Add(time.Duration(next) * time.Second)))
		k++
		if !send(mkLogin(5000+k, "noise", true, time.Now(), "1")) {
			return "C:!stopped"
		}
	}
	time.Sleep(time.Until(t0.Add(time.Duration(gap) * time.Second)))
	if !send(mkLogin(9, "alice", true, time.Now(), "9")) {
		return "C:!stopped"
	}
	time.Sleep(300 * time.Millisecond)
	cancel()
	select {
	case <-done:
	case <-time.After(10 * time.Second):
		return "C:!hang"
	}
	enc.mu.Lock()
	defer enc.mu.Unlock()
	n := 0
	for _, o := range enc.out {
		if strings.HasPrefix(o, "A:"+hx("5")+"|") {
			n++
		}
	}
	return fmt.Sprintf("C:%d", n)
}

func init() {
	// timed <id> <gap_s> <noise_s>   (all lines are run concurrently)
	modes["timed"] = func(in *bufio.Scanner, out *bufio.Writer) {
		var wg sync.WaitGroup
		var mu sync.Mutex
		for in.Scan() {
			f := strings.Fields(in.Text())
			if len(f) < 3 {
				continue
			}
			gap, _ := strconv.Atoi(f[1])
			noise, _ := strconv.Atoi(f[2])
			wg.Add(1)
			go func(id string) {
				defer wg.Done()
				r := runTimed(gap, noise)
				mu.Lock()
				fmt.Fprintf(out, "%s %s\n", id, r)
				out.Flush()
				mu.Unlock()
			}(f[0])
		}
		wg.Wait()
	}
}
