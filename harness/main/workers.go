package main

import (
	"bufio"
	"context"
	"fmt"
	"os"
	"strconv"
	"strings"
	"sync"
	"sync/atomic"
	"syscall"
	"time"

	"github.com/metal-toolbox/auditevent"
	"github.com/prometheus/client_golang/prometheus"
	"go.uber.org/zap"

	"github.com/metal-toolbox/audito-maldito/ingesters/auditlog"
	"github.com/metal-toolbox/audito-maldito/ingesters/namedpipe"
	"github.com/metal-toolbox/audito-maldito/ingesters/syslog"
	"github.com/metal-toolbox/audito-maldito/internal/common"
	"github.com/metal-toolbox/audito-maldito/internal/health"
	"github.com/metal-toolbox/audito-maldito/internal/metrics"
	"github.com/metal-toolbox/audito-maldito/processors/auditd"
	"github.com/metal-toolbox/audito-maldito/processors/sshd"
)

// C13: each pipeline worker is put into each of its blocking states with real FIFOs and
// channels, its context is cancelled, and the harness measures whether it returns within the
// bound, with a non-nil error, and whether anything is delivered afterwards.

const (
	settleTime  = 60 * time.Millisecond // time given to the worker to reach the blocking state
	returnBound = 4 * time.Second       // "bounded time" of the property, generous (measured: ~100 us)
	lateWatch   = 60 * time.Millisecond // how long deliveries are watched for after the return
)

const syscallNonblock = syscall.O_NONBLOCK

type wresult struct {
	returned bool
	errNil   bool
	late     int
	blocked  bool // the worker really was blocked (had not returned) when the context was cancelled
	elapsed  time.Duration
}

func (r wresult) String() string {
	b := func(x bool) int {
		if x {
			return 1
		}
		return 0
	}
	return fmt.Sprintf("R:%d:%d:%d:%d", b(r.returned), r.late, b(!r.errNil), b(r.blocked))
}

// await cancels and waits for the worker's return.
func await(cancel context.CancelFunc, done <-chan error) (r wresult) {
	select {
	case <-done:
		// returned before cancellation: the state was not a blocking one
		return wresult{returned: true, errNil: false, blocked: false}
	default:
	}
	r.blocked = true
	t0 := time.Now()
	cancel()
	select {
	case err := <-done:
		r.returned = true
		r.errNil = err == nil
		r.elapsed = time.Since(t0)
	case <-time.After(returnBound):
	}
	return r
}

const acceptedLine = "4242 Accepted password for bob from 1.2.3.4 port 22 ssh2\n"

func auditCmdLine(seq int) string {
	return fmt.Sprintf("type=USER_CMD msg=audit(%d.000:%d): pid=9 uid=1000 auid=1000 ses=77 msg='cwd=\"/\" cmd=6C73 terminal=pts/0 res=success'\n", 1600000000+seq, seq)
}

// runIngester: worker "audit" or "sshd"; state opening | reading | handing; the downstream buffer
// has capacity cap and holds fill items when the worker starts.
func runIngester(worker, state string, capacity, fill int) wresult {
	path := fifoPath()
	defer os.Remove(path)
	ctx, cancel := context.WithCancel(context.Background())
	defer cancel()
	np := namedpipe.NewNamedPipeIngester(zap.NewNop().Sugar(), health.NewHealth())
	done := make(chan error, 1)
	var lateCount func() int
	drainOne := make(chan struct{}) // each receive takes one item from the worker's downstream channel
	stopDrain := make(chan struct{})
	defer close(stopDrain)
	switch worker {
	case "audit":
		ch := make(chan string, capacity)
		for i := 0; i < fill && i < capacity; i++ {
			ch <- "prefill"
		}
		go func() {
			for {
				select {
				case drainOne <- struct{}{}:
					select {
					case <-ch:
					case <-stopDrain:
						return
					}
				case <-stopDrain:
					return
				}
			}
		}()
		alp := auditlog.NewAuditLogIngester(path, ch, np)
		go func() { done <- alp.Ingest(ctx) }()
		lateCount = func() int {
			// after the return nothing may be handed downstream: a receiver sees only what was buffered
			before := len(ch)
			time.Sleep(lateWatch)
			n := len(ch) - before
			// an unbuffered (or drained) channel: try to receive
			got := 0
			if capacity == 0 {
				select {
				case <-ch:
					got = 1
				case <-time.After(lateWatch):
				}
			}
			if n < 0 {
				n = 0
			}
			return n + got
		}
	case "sshd":
		logins := make(chan common.RemoteUserLogin) // unbuffered, nobody receives: the correlator is not ready
		reg := prometheus.NewRegistry()
		mp := metrics.NewPrometheusMetricsProviderForRegisterer(reg)
		ew := auditevent.NewAuditEventWriter(&effectLog{})
		proc := sshd.NewSshdProcessor(ctx, logins, nodeName, machineID, ew, mp)
		sli := syslog.NewSyslogIngester(path, proc, np)
		go func() { done <- sli.Ingest(ctx) }()
		go func() {
			for {
				select {
				case drainOne <- struct{}{}:
					select {
					case <-logins:
					case <-stopDrain:
						return
					}
				case <-stopDrain:
					return
				}
			}
		}()
		lateCount = func() int {
			select {
			case <-logins:
				return 1
			case <-time.After(lateWatch):
				return 0
			}
		}
	default:
		panic("bad worker " + worker)
	}
	if state == "precancelled" {
		// the context is already cancelled when the worker starts (a sibling failed during start-up)
		cancel()
		t0 := time.Now()
		select {
		case err := <-done:
			r := wresult{returned: true, errNil: err == nil, blocked: true, elapsed: time.Since(t0)}
			r.late = lateCount()
			if f, err := os.OpenFile(path, os.O_WRONLY|syscallNonblock, 0); err == nil {
				f.Close()
			}
			return r
		case <-time.After(returnBound):
			if f, err := os.OpenFile(path, os.O_WRONLY|syscallNonblock, 0); err == nil {
				f.Close()
			}
			return wresult{blocked: true}
		}
	}
	var w *os.File
	if state != "opening" {
		var err error
		opened := make(chan struct{})
		go func() {
			w, err = os.OpenFile(path, os.O_WRONLY, 0)
			close(opened)
		}()
		select {
		case <-opened:
		case <-time.After(5 * time.Second):
			return wresult{}
		}
		if err != nil {
			return wresult{}
		}
		defer w.Close()
	}
	if state == "handing" {
		// enough records to fill whatever room is left and block on the next one
		go func() {
			for i := 0; i < capacity-fill+3; i++ {
				var line string
				if worker == "audit" {
					line = auditCmdLine(i + 1)
				} else {
					line = acceptedLine
				}
				if _, err := w.Write([]byte(line)); err != nil {
					return
				}
			}
		}()
	}
	if state == "afterstall" || state == "afterburst" {
		// a history before the idle read: records handed over after the consumer had stalled for more than a
		// second (afterstall) or a burst of records consumed at once (afterburst); then everything is drained,
		// the pipe goes idle with its writer still attached, and only then the context is cancelled
		n := 3
		if state == "afterburst" {
			n = 400
		}
		go func() {
			for i := 0; i < n; i++ {
				line := acceptedLine
				if worker == "audit" {
					line = auditCmdLine(i + 1)
				}
				if _, err := w.Write([]byte(line)); err != nil {
					return
				}
			}
		}()
		if state == "afterstall" {
			time.Sleep(1300 * time.Millisecond)
		}
		drained := make(chan struct{})
		go func() {
			defer close(drained)
			for i := 0; i < n; i++ {
				select {
				case <-drainOne:
				case <-time.After(3 * time.Second):
					return
				}
			}
		}()
		<-drained
		time.Sleep(300 * time.Millisecond)
	}
	time.Sleep(settleTime)
	r := await(cancel, done)
	if r.returned {
		r.late = lateCount()
	}
	if state == "opening" {
		// let the opener Go routine finish, so that it does not outlive the case
		if f, err := os.OpenFile(path, os.O_WRONLY|syscallNonblock, 0); err == nil {
			f.Close()
		}
	}
	return r
}

type countingEncoder struct {
	n atomic.Int64
}

func (c *countingEncoder) Encode(any) error { c.n.Add(1); return nil }

// runProcessor: the audit processor idle, or busy working through a long queue of lines of a
// correlated session (every line is one event written to the encoder).
func runProcessor(state string, queued int) wresult {
	auditd.SetLogger(zap.NewNop().Sugar())
	enc := &countingEncoder{}
	audits := make(chan string, 10000)
	logins := make(chan common.RemoteUserLogin)
	ap := auditd.Auditd{Audits: audits, Logins: logins, EventW: auditevent.NewAuditEventWriter(enc), Health: health.NewHealth()}
	ctx, cancel := context.WithCancel(context.Background())
	defer cancel()
	done := make(chan error, 1)
	go func() { done <- ap.Read(ctx) }()
	stopFeed := make(chan struct{})
	var feeder sync.WaitGroup
	if state == "busy" {
		select {
		case logins <- mkLogin(9, "alice", true, time.Unix(1, 0), "9"):
		case <-time.After(5 * time.Second):
			return wresult{}
		}
		audits <- "type=LOGIN msg=audit(1600000000.000:1): pid=9 uid=0 old-auid=4294967295 auid=1000 tty=(none) old-ses=4294967295 ses=77 res=1"
		feeder.Add(1)
		go func() {
			defer feeder.Done()
			for i := 0; i < queued; i++ {
				select {
				case audits <- strings.TrimSuffix(auditCmdLine(i+2), "\n"):
				case <-stopFeed:
					return
				}
			}
		}()
		// wait until events are flowing
		deadline := time.Now().Add(5 * time.Second)
		for enc.n.Load() < 10 && time.Now().Before(deadline) {
			time.Sleep(time.Millisecond)
		}
	} else {
		time.Sleep(settleTime)
	}
	r := await(cancel, done)
	if r.returned {
		n0 := enc.n.Load()
		time.Sleep(lateWatch)
		r.late = int(enc.n.Load() - n0)
	}
	close(stopFeed)
	feeder.Wait()
	return r
}

func init() {
	// workers <id> <audit|sshd|proc> <state> <cap> <fill>
	modes["workers"] = func(in *bufio.Scanner, out *bufio.Writer) {
		defer func() {
			if pipeDir != "" {
				os.RemoveAll(pipeDir)
			}
		}()
		for in.Scan() {
			f := strings.Fields(in.Text())
			if len(f) < 5 {
				continue
			}
			c, _ := strconv.Atoi(f[3])
			n, _ := strconv.Atoi(f[4])
			var r wresult
			if f[1] == "proc" {
				r = runProcessor(f[2], n)
			} else {
				r = runIngester(f[1], f[2], c, n)
			}
			fmt.Fprintf(out, "%s %s\n", f[0], r)
			out.Flush()
		}
	}
}
